module verifharness

go 1.22.0

require (
	github.com/aperturerobotics/util v0.0.0
	github.com/cenkalti/backoff/v4 v4.3.0
	github.com/sirupsen/logrus v1.9.3
)

require (
	github.com/aperturerobotics/json-iterator-lite v1.0.0 // indirect
	github.com/aperturerobotics/protobuf-go-lite v0.8.0 // indirect
	github.com/pkg/errors v0.9.1 // indirect
	golang.org/x/exp v0.0.0-20241108190413-2d47ceb2692f // indirect
	golang.org/x/sys v0.13.0 // indirect
)

replace github.com/aperturerobotics/util => /repo
