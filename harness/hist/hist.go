// Package hist records observable histories: one global, totally ordered log per scenario.
package hist

import (
	"fmt"
	"sort"
	"strings"
	"sync"
)

// Log is a totally ordered log of observable events.
//
// inv lines are logged before the real call and ret lines after it returned, so the real effect of
// a call always lies between its two lines.
type Log struct {
	mu      sync.Mutex
	lines   []string
	nextID  int
	pending map[int]bool
}

// New constructs an empty log.
func New() *Log { return &Log{pending: map[int]bool{}} }

// Add appends one line.
func (l *Log) Add(format string, a ...any) {
	l.mu.Lock()
	l.lines = append(l.lines, fmt.Sprintf(format, a...))
	l.mu.Unlock()
}

// Inv allocates the next call id, logs "inv <id> <rest>" and marks the call pending.
func (l *Log) Inv(format string, a ...any) int {
	l.mu.Lock()
	id := l.nextID
	l.nextID++
	l.pending[id] = true
	l.lines = append(l.lines, fmt.Sprintf("inv %d ", id)+fmt.Sprintf(format, a...))
	l.mu.Unlock()
	return id
}

// Ret logs "ret <id> <rest>" and clears the pending mark.
func (l *Log) Ret(id int, format string, a ...any) {
	l.mu.Lock()
	delete(l.pending, id)
	l.lines = append(l.lines, fmt.Sprintf("ret %d ", id)+fmt.Sprintf(format, a...))
	l.mu.Unlock()
}

// NextID allocates an id without logging.
func (l *Log) NextID() int {
	l.mu.Lock()
	defer l.mu.Unlock()
	id := l.nextID
	l.nextID++
	return id
}

// Pending returns the sorted ids of the pending calls.
func (l *Log) Pending() []int {
	l.mu.Lock()
	defer l.mu.Unlock()
	return l.pendingLocked()
}

func (l *Log) pendingLocked() []int {
	out := make([]int, 0, len(l.pending))
	for id := range l.pending {
		out = append(out, id)
	}
	sort.Ints(out)
	return out
}

// NumPending returns the number of pending calls.
func (l *Log) NumPending() int {
	l.mu.Lock()
	defer l.mu.Unlock()
	return len(l.pending)
}

// Len returns the number of lines logged so far.
func (l *Log) Len() int {
	l.mu.Lock()
	defer l.mu.Unlock()
	return len(l.lines)
}

// Quiesce logs "quiesce <pending ids…>" atomically with reading the pending set.
func (l *Log) Quiesce() {
	l.mu.Lock()
	ids := l.pendingLocked()
	parts := make([]string, 0, len(ids)+1)
	parts = append(parts, "quiesce")
	for _, id := range ids {
		parts = append(parts, fmt.Sprint(id))
	}
	l.lines = append(l.lines, strings.Join(parts, " "))
	l.mu.Unlock()
}

// With runs f with the log locked, passing the pending set; f returns lines to append.
func (l *Log) With(f func(pending []int) []string) {
	l.mu.Lock()
	l.lines = append(l.lines, f(l.pendingLocked())...)
	l.mu.Unlock()
}

// Lines returns a copy of the log.
func (l *Log) Lines() []string {
	l.mu.Lock()
	defer l.mu.Unlock()
	return append([]string(nil), l.lines...)
}
