// Command extract is the C13 translator: it parses the concurrency-safe packages of the library
// (go/parser + go/types), and regenerates a table of shared-memory accesses with the lock classes
// held at each access. The table is emitted as a Lean definition; a Lean theorem (`table_ok`, by
// `decide`) re-checks on every run that every two conflicting accesses hold a common lock class or
// are exempt, and `lockset_sound` (proved once) says what that implies.
//
// Rules (DESIGN.md Appendix D):
//   - tracked locations: every field of every struct declared in the listed files, and every local
//     variable captured by a function literal that runs on another goroutine root.
//   - lock classes: `pkg.Struct.field` for sync.Mutex / sync.RWMutex / broadcast.Broadcast fields,
//     `pkg.func$var` for local locks. Held lexically inside HoldLock/TryHoldLock/Wait/
//     HoldLockMaybeAsync callbacks, between Lock()/Unlock() in statement order, after a deferred
//     Unlock, inside `if x.TryLock() {…}`; unexported helpers inherit the intersection of the lock
//     sets of their call sites (fixed point).
//   - exemptions: lock/atomic-typed locations; `init` (object under construction: local composite
//     literal / New* / With* / ApplyTo* functions); `chanhb` (all writes followed by close(c), all
//     reads preceded by a receive from c, in the same function); locations never written outside
//     init need nothing.
package main

import (
	"encoding/json"
	"flag"
	"fmt"
	"go/ast"
	"go/importer"
	"go/parser"
	"go/token"
	"go/types"
	"os"
	"path/filepath"
	"sort"
	"strings"
)

var files = []string{
	"broadcast/broadcast.go", "csync/mutex.go", "csync/rwmutex.go", "ccontainer/ccontainer.go",
	"ccontainer/watchable.go", "ccall/ccall.go", "conc/queue.go", "cqueue/lifo.go", "linkedlist/linkedlist.go",
	"keyed/keyed.go", "keyed/routine.go", "keyed/keyed-refcount.go", "keyed/keyed-opts.go",
	"routine/routine.go", "routine/state.go", "routine/options.go", "refcount/refcount.go",
	"promise/promise.go", "promise/container.go", "promise/once.go", "promise/like.go", "memo/memo.go",
	"iocloser/read-closer.go", "iocloser/write-closer.go", "iosizer/iosizer.go",
}

// Lock is a held lock class.
type Lock struct {
	Class  string `json:"class"`
	Shared bool   `json:"shared"`
}

// Row is one access.
type Row struct {
	ID       int    `json:"id"`
	Var      string `json:"var"`
	Write    bool   `json:"write"`
	File     string `json:"file"`
	Line     int    `json:"line"`
	Func     string `json:"func"`
	Root     int    `json:"root"`     // goroutine root inside Func (0 = the function body)
	Multi    bool   `json:"multi"`    // the root may run concurrently with itself (fields: always)
	Local    bool   `json:"local"`    // captured local variable (conflicts only across roots / multi roots)
	Locks    []Lock `json:"locks"`    // effective lock set
	Exempt   string `json:"exempt"`   // "", "init", "chanhb"
	Ctx      int    `json:"ctx"`      // unique number of (Func, Root)
	SelfConc bool   `json:"selfconc"` // two executions of this access may overlap (fields: always)
	unit     *unit
	lex      []Lock
	obj      types.Object
	pos      token.Pos    // effective position (writes: end of the assigning statement)
	recvFrom []string     // names of the channels received from before this access (for chanhb)
	closedBy []string     // names of the channels closed after this access in its function (for chanhb)
	ownWrite bool         // a write to the same location precedes in the same root (program order)
	isCall   bool         // the access is a call through a func-typed field
	baseVar  types.Object // the variable the access path starts from, when it is a parameter of the unit
	roots    *[]*root
}

func origin(o types.Object) types.Object {
	if f, ok := o.(*types.Func); ok {
		return f.Origin()
	}
	if v, ok := o.(*types.Var); ok {
		return v.Origin()
	}
	return o
}

type callSite struct {
	callee   types.Object
	held     []Lock
	caller   *unit
	isGo     bool
	direct   bool           // a call expression with its argument list (not a method value / stored function)
	argObj   []types.Object // per argument: the variable passed, if the argument is a plain identifier
	argNew   []bool         // per argument: a local of the caller that holds an object under construction
	root     int            // goroutine root of the calling code
	rootsPtr *[]*root
	recvd    []string // channels received from before the call, in the caller
}

type unit struct {
	key          string
	obj          types.Object // func or closure variable
	exported     bool
	entry        []Lock // nil = TOP until computed
	top          bool
	fixed        bool // entry fixed to a given set (roots)
	initCtx      bool
	dead         bool // unexported, never referenced: unreachable code
	skip         bool
	decl         *ast.FuncDecl
	entryRecv    []string // channels received from before every call of this unexported function
	entryRecvTop bool
	// closure units (name := func(){…}): the root created for the literal, the root that was
	// current at the definition, and that root's multi flag
	closure    bool
	rootID     int
	parentRoot int
	parentMul  bool
	rootsPtr   *[]*root
}

type root struct {
	id         int
	start, end token.Pos
	multi      bool
}

type pkgCtx struct {
	fset  *token.FileSet
	info  *types.Info
	pkg   *types.Package
	rows  []*Row
	sites []callSite
	units map[types.Object]*unit
}

func main() {
	repo := flag.String("repo", "/repo", "library source tree")
	outLean := flag.String("lean", "", "write the Lean table here")
	outJSON := flag.String("json", "", "write the JSON table here")
	flag.Parse()
	fset := token.NewFileSet()
	imp := importer.ForCompiler(fset, "source", nil)
	byDir := map[string][]string{}
	var dirs []string
	for _, f := range files {
		d := filepath.Dir(f)
		if _, ok := byDir[d]; !ok {
			dirs = append(dirs, d)
		}
		byDir[d] = append(byDir[d], f)
	}
	var all []*Row
	for _, d := range dirs {
		// parse the whole package (type checking needs it), track only the listed files
		pkgs, err := parser.ParseDir(fset, filepath.Join(*repo, d), func(fi os.FileInfo) bool {
			return !strings.HasSuffix(fi.Name(), "_test.go")
		}, parser.ParseComments)
		if err != nil {
			fatal("parse %s: %v", d, err)
		}
		for _, p := range pkgs {
			var fs []*ast.File
			var names []string
			for n := range p.Files {
				names = append(names, n)
			}
			sort.Strings(names)
			for _, n := range names {
				fs = append(fs, p.Files[n])
			}
			info := &types.Info{Uses: map[*ast.Ident]types.Object{}, Defs: map[*ast.Ident]types.Object{},
				Selections: map[*ast.SelectorExpr]*types.Selection{}, Types: map[ast.Expr]types.TypeAndValue{}}
			conf := types.Config{Importer: imp, Error: func(err error) {}}
			tp, _ := conf.Check("github.com/aperturerobotics/util/"+d, fset, fs, info)
			pc := &pkgCtx{fset: fset, info: info, pkg: tp, units: map[types.Object]*unit{}}
			tracked := map[string]bool{}
			for _, f := range byDir[d] {
				tracked[filepath.Join(*repo, f)] = true
			}
			for i, f := range fs {
				if tracked[names[i]] {
					pc.file(f)
				}
			}
			pc.solve()
			all = append(all, pc.rows...)
		}
	}
	finish(all, fset, *repo, *outLean, *outJSON)
}

func fatal(f string, a ...any) {
	fmt.Fprintf(os.Stderr, f+"\n", a...)
	os.Exit(2)
}

// ---------------------------------------------------------------- type helpers

func deref(t types.Type) types.Type {
	for {
		p, ok := t.Underlying().(*types.Pointer)
		if !ok {
			if pp, ok2 := t.(*types.Pointer); ok2 {
				t = pp.Elem()
				continue
			}
			return t
		}
		t = p.Elem()
	}
}

func namedOf(t types.Type) (pkg, name string) {
	t = deref(t)
	if n, ok := t.(*types.Named); ok {
		if n.Obj().Pkg() != nil {
			return n.Obj().Pkg().Path(), n.Obj().Name()
		}
		return "", n.Obj().Name()
	}
	return "", ""
}

func isMutexType(t types.Type) (ok, rw bool) {
	p, n := namedOf(t)
	if p == "sync" && n == "Mutex" {
		return true, false
	}
	if p == "sync" && n == "RWMutex" {
		return true, true
	}
	return false, false
}

func isBroadcastType(t types.Type) bool {
	p, n := namedOf(t)
	return strings.HasSuffix(p, "/broadcast") && n == "Broadcast"
}

func isSyncType(t types.Type) bool {
	p, _ := namedOf(t)
	return p == "sync" || p == "sync/atomic" || isBroadcastType(t)
}

func short(pkgPath string) string {
	i := strings.LastIndex(pkgPath, "/")
	return pkgPath[i+1:]
}

// ---------------------------------------------------------------- walker

type walker struct {
	pc      *pkgCtx
	fn      *ast.FuncDecl
	fnName  string
	unit    *unit
	roots   []*root
	curRoot int
	held    []Lock
	initCtx bool
	locals  map[types.Object]bool // locals known to hold an object under construction
	recvd   map[string]bool       // channel names received from so far in this function
	stmtEnd token.Pos             // end of the assignment statement being walked (0 otherwise)
	deferCl []string              // channels with a pending `defer close(c)` in this function
	wrote   map[string]bool       // "root:var" written so far (program order within a root)
}

func (pc *pkgCtx) file(f *ast.File) {
	for _, d := range f.Decls {
		fd, ok := d.(*ast.FuncDecl)
		if !ok || fd.Body == nil {
			continue
		}
		obj := pc.info.Defs[fd.Name]
		name := fd.Name.Name
		if fd.Recv != nil && len(fd.Recv.List) > 0 {
			_, rn := namedOf(pc.info.TypeOf(fd.Recv.List[0].Type))
			name = rn + "." + name
		}
		u := &unit{key: short(pc.pkg.Path()) + "." + name, obj: obj, exported: ast.IsExported(fd.Name.Name), decl: fd}
		u.initCtx = strings.HasPrefix(fd.Name.Name, "New") || strings.HasPrefix(fd.Name.Name, "With") ||
			strings.HasPrefix(fd.Name.Name, "ApplyTo") || strings.HasPrefix(fd.Name.Name, "new")
		if obj != nil {
			pc.units[obj] = u
		}
		w := &walker{pc: pc, fn: fd, fnName: u.key, unit: u, initCtx: u.initCtx, locals: map[types.Object]bool{}, recvd: map[string]bool{}, wrote: map[string]bool{}}
		w.roots = []*root{{id: 0, start: fd.Pos(), end: fd.End()}}
		w.block(fd.Body.List)
	}
}

func (w *walker) newRoot(n ast.Node, multi bool) int {
	r := &root{id: len(w.roots), start: n.Pos(), end: n.End(), multi: multi}
	w.roots = append(w.roots, r)
	return r.id
}

func (w *walker) declRoot(p token.Pos) int {
	best := 0
	for _, r := range w.roots {
		if r.start <= p && p < r.end && r.id != 0 {
			if best == 0 || (w.roots[best].end-w.roots[best].start) > (r.end-r.start) {
				best = r.id
			}
		}
	}
	return best
}

func withLock(h []Lock, l Lock) []Lock {
	out := append([]Lock(nil), h...)
	for _, x := range out {
		if x == l {
			return out
		}
	}
	return append(out, l)
}

func without(h []Lock, class string) []Lock {
	var out []Lock
	for _, x := range h {
		if x.Class != class {
			out = append(out, x)
		}
	}
	return out
}

// lockClass returns the lock class of an expression denoting a lock object.
func (w *walker) lockClass(e ast.Expr) string {
	for {
		switch x := e.(type) {
		case *ast.ParenExpr:
			e = x.X
			continue
		case *ast.UnaryExpr:
			e = x.X
			continue
		case *ast.StarExpr:
			e = x.X
			continue
		}
		break
	}
	switch x := e.(type) {
	case *ast.SelectorExpr:
		if sel := w.pc.info.Selections[x]; sel != nil && sel.Kind() == types.FieldVal {
			_, owner := namedOf(sel.Recv())
			p := ""
			if sel.Obj().Pkg() != nil {
				p = short(sel.Obj().Pkg().Path())
			}
			return p + "." + owner + "." + x.Sel.Name
		}
	case *ast.Ident:
		return w.fnName + "$" + x.Name
	}
	return "?" + w.pc.fset.Position(e.Pos()).String()
}

func (w *walker) block(stmts []ast.Stmt) {
	saved := w.held
	for _, s := range stmts {
		w.stmt(s)
	}
	w.held = saved
}

// lockCall recognises x.Lock()/Unlock()/… ; returns (class, op, rw) or "".
func (w *walker) lockCall(e ast.Expr) (class, op string) {
	c, ok := e.(*ast.CallExpr)
	if !ok {
		return "", ""
	}
	s, ok := c.Fun.(*ast.SelectorExpr)
	if !ok {
		return "", ""
	}
	switch s.Sel.Name {
	case "Lock", "Unlock", "RLock", "RUnlock", "TryLock", "TryRLock":
	default:
		return "", ""
	}
	if ok, _ := isMutexType(w.pc.info.TypeOf(s.X)); !ok {
		return "", ""
	}
	return w.lockClass(s.X), s.Sel.Name
}

func (w *walker) stmt(s ast.Stmt) {
	switch x := s.(type) {
	case nil:
	case *ast.ExprStmt:
		if class, op := w.lockCall(x.X); class != "" {
			switch op {
			case "Lock":
				w.held = withLock(w.held, Lock{class, false})
			case "RLock":
				w.held = withLock(w.held, Lock{class, true})
			case "Unlock", "RUnlock":
				w.held = without(w.held, class)
			}
			return
		}
		if u, ok := x.X.(*ast.UnaryExpr); ok && u.Op == token.ARROW {
			w.recvd[chanName(u.X)] = true
		}
		w.expr(x.X, false)
	case *ast.DeferStmt:
		if class, op := w.lockCall(x.Call); class != "" {
			if op == "Unlock" || op == "RUnlock" {
				// deferred unlock: the lock is held (or about to be) until the function returns
				found := false
				for _, l := range w.held {
					if l.Class == class {
						found = true
					}
				}
				if !found {
					w.held = withLock(w.held, Lock{class, op == "RUnlock"})
				}
			}
			return
		}
		if id, ok := x.Call.Fun.(*ast.Ident); ok && id.Name == "close" && len(x.Call.Args) == 1 {
			w.markClosed(chanName(x.Call.Args[0]), token.NoPos)
			w.deferCl = append(w.deferCl, chanName(x.Call.Args[0]))
		}
		w.call(x.Call, false, true)
	case *ast.GoStmt:
		w.call(x.Call, true, false)
	case *ast.AssignStmt:
		isClosureDef := false
		if len(x.Lhs) == 1 && len(x.Rhs) == 1 {
			_, a := x.Rhs[0].(*ast.FuncLit)
			_, b := x.Lhs[0].(*ast.Ident)
			isClosureDef = a && b
		}
		if !isClosureDef {
			for _, r := range x.Rhs {
				w.expr(r, false)
			}
		}
		w.stmtEnd = x.End()
		defer func() { w.stmtEnd = 0 }()
		// name := func(){…}: a closure unit; its entry lock set comes from its call sites
		if len(x.Lhs) == 1 && len(x.Rhs) == 1 {
			if fl, ok := x.Rhs[0].(*ast.FuncLit); ok {
				if id, ok := x.Lhs[0].(*ast.Ident); ok {
					o := w.pc.info.Defs[id]
					if o == nil {
						o = w.pc.info.Uses[id]
					}
					if o != nil {
						u := w.pc.units[o]
						if u == nil {
							u = &unit{key: w.fnName + "$" + id.Name, obj: o, initCtx: w.initCtx}
							w.pc.units[o] = u
						}
						u.closure, u.parentRoot, u.parentMul, u.rootID, u.rootsPtr = true, w.curRoot, w.roots[w.curRoot].multi, len(w.roots), &w.roots
						w.funcLitUnit(fl, nil, true, true, u)
						w.lhs(x.Lhs[0])
						return
					}
				}
			}
		}
		for i, l := range x.Lhs {
			if x.Tok == token.DEFINE {
				// remember locals initialised with an object under construction
				if id, ok := l.(*ast.Ident); ok && i < len(x.Rhs) && isFreshObject(x.Rhs[i]) {
					if o := w.pc.info.Defs[id]; o != nil {
						w.locals[o] = true
					}
				}
				// closure definitions: f := func(){…} handled in expr via FuncLit with name
			}
			w.lhs(l)
		}
		// name closures
	case *ast.IncDecStmt:
		w.lhs(x.X)
	case *ast.BlockStmt:
		w.block(x.List)
	case *ast.IfStmt:
		saved := w.held
		w.stmt(x.Init)
		// if x.TryLock() { … }
		if class, op := w.lockCall(x.Cond); class != "" && (op == "TryLock" || op == "TryRLock") {
			h := w.held
			w.held = withLock(w.held, Lock{class, op == "TryRLock"})
			w.block(x.Body.List)
			w.held = h
		} else if un, ok := x.Cond.(*ast.UnaryExpr); ok && un.Op == token.NOT {
			if class, op := w.lockCall(un.X); class != "" && (op == "TryLock" || op == "TryRLock") {
				// if !x.TryLock() { return … }  → held afterwards
				w.block(x.Body.List)
				saved = withLock(saved, Lock{class, op == "TryRLock"})
			} else {
				w.expr(x.Cond, false)
				w.block(x.Body.List)
			}
		} else {
			w.expr(x.Cond, false)
			w.block(x.Body.List)
		}
		if x.Else != nil {
			w.stmt(x.Else)
		}
		w.held = saved
	case *ast.ForStmt:
		saved := w.held
		w.stmt(x.Init)
		if x.Cond != nil {
			w.expr(x.Cond, false)
		}
		w.stmt(x.Post)
		w.block(x.Body.List)
		w.held = saved
	case *ast.RangeStmt:
		w.expr(x.X, false)
		if x.Tok == token.ASSIGN {
			if x.Key != nil {
				w.lhs(x.Key)
			}
			if x.Value != nil {
				w.lhs(x.Value)
			}
		}
		w.block(x.Body.List)
	case *ast.ReturnStmt:
		for _, r := range x.Results {
			w.expr(r, false)
		}
	case *ast.SwitchStmt:
		w.stmt(x.Init)
		if x.Tag != nil {
			w.expr(x.Tag, false)
		}
		w.block(x.Body.List)
	case *ast.TypeSwitchStmt:
		w.stmt(x.Init)
		w.stmt(x.Assign)
		w.block(x.Body.List)
	case *ast.CaseClause:
		for _, e := range x.List {
			w.expr(e, false)
		}
		w.block(x.Body)
	case *ast.SelectStmt:
		w.block(x.Body.List)
	case *ast.CommClause:
		saved := map[string]bool{}
		for k, v := range w.recvd {
			saved[k] = v
		}
		if x.Comm != nil {
			// case <-ch: / case v := <-ch:
			ast.Inspect(x.Comm, func(n ast.Node) bool {
				if u, ok := n.(*ast.UnaryExpr); ok && u.Op == token.ARROW {
					w.recvd[chanName(u.X)] = true
				}
				return true
			})
			w.stmt(x.Comm)
		}
		w.block(x.Body)
		w.recvd = saved
	case *ast.SendStmt:
		w.expr(x.Chan, false)
		w.expr(x.Value, false)
	case *ast.DeclStmt:
		if gd, ok := x.Decl.(*ast.GenDecl); ok {
			for _, sp := range gd.Specs {
				if vs, ok := sp.(*ast.ValueSpec); ok {
					for _, v := range vs.Values {
						w.expr(v, false)
					}
				}
			}
		}
	case *ast.LabeledStmt:
		w.stmt(x.Stmt)
	case *ast.BranchStmt, *ast.EmptyStmt:
	default:
	}
}

func isFreshObject(e ast.Expr) bool {
	switch x := e.(type) {
	case *ast.UnaryExpr:
		if x.Op == token.AND {
			_, ok := x.X.(*ast.CompositeLit)
			return ok
		}
	case *ast.CompositeLit:
		return true
	case *ast.CallExpr:
		if id, ok := x.Fun.(*ast.Ident); ok && id.Name == "new" {
			return true
		}
	}
	return false
}

func chanName(e ast.Expr) string {
	switch x := e.(type) {
	case *ast.SelectorExpr:
		return x.Sel.Name
	case *ast.Ident:
		return x.Name
	case *ast.ParenExpr:
		return chanName(x.X)
	case *ast.CallExpr:
		// ctx.Done()
		return chanName(x.Fun) + "()"
	}
	return "?"
}

// markClosed marks every access recorded so far in this function as "followed by close(name)".
func (w *walker) markClosed(name string, _ token.Pos) {
	for _, r := range w.pc.rows {
		if r.Func == w.fnName {
			r.closedBy = append(r.closedBy, name)
		}
	}
}

// lhs records a write to the location denoted by e (and reads of its sub-expressions).
func (w *walker) lhs(e ast.Expr) {
	switch x := e.(type) {
	case *ast.ParenExpr:
		w.lhs(x.X)
	case *ast.IndexExpr:
		w.expr(x.Index, false)
		w.lhs(x.X) // element write = write to the container location
	case *ast.StarExpr:
		w.expr(x.X, false)
	case *ast.SelectorExpr:
		w.access(x, true)
		w.expr(x.X, false)
	case *ast.Ident:
		w.ident(x, true)
	default:
		w.expr(e, false)
	}
}

func (w *walker) expr(e ast.Expr, write bool) {
	if e == nil {
		return
	}
	switch x := e.(type) {
	case *ast.FuncLit:
		// a function literal in a non-call position escapes: new root, nothing held
		w.funcLit(x, nil, true, true)
	case *ast.CallExpr:
		w.call(x, false, false)
	case *ast.SelectorExpr:
		// method value of a library function = potential call site under the current locks
		if sel := w.pc.info.Selections[x]; sel != nil && sel.Kind() == types.MethodVal {
			w.pc.sites = append(w.pc.sites, callSite{callee: sel.Obj(), held: w.cur(), caller: w.unit, root: w.curRoot, rootsPtr: &w.roots, recvd: w.recvdList()})
		}
		w.access(x, write)
		w.expr(x.X, false)
	case *ast.Ident:
		if o := w.pc.info.Uses[x]; o != nil {
			if _, isVar := o.(*types.Var); isVar {
				// a function value used as a value (timer callback, stored, passed on): it may be
				// called later with nothing held
				if _, isFn := o.Type().Underlying().(*types.Signature); isFn {
					w.pc.sites = append(w.pc.sites, callSite{callee: o, held: nil, caller: w.unit, root: w.curRoot, rootsPtr: &w.roots, recvd: w.recvdList(), isGo: true})
				}
			}
		}
		w.ident(x, write)
	case *ast.UnaryExpr:
		if x.Op == token.AND {
			if _, ok := x.X.(*ast.CompositeLit); !ok {
				w.lhs(x.X) // address taken: treat as a write
				return
			}
		}
		if x.Op == token.ARROW {
			w.recvd[chanName(x.X)] = true
		}
		w.expr(x.X, false)
	case *ast.BinaryExpr:
		w.expr(x.X, false)
		w.expr(x.Y, false)
	case *ast.ParenExpr:
		w.expr(x.X, write)
	case *ast.StarExpr:
		w.expr(x.X, false)
	case *ast.IndexExpr:
		w.expr(x.X, false)
		w.expr(x.Index, false)
	case *ast.IndexListExpr:
		w.expr(x.X, false)
	case *ast.SliceExpr:
		w.expr(x.X, false)
		w.expr(x.Low, false)
		w.expr(x.High, false)
		w.expr(x.Max, false)
	case *ast.TypeAssertExpr:
		w.expr(x.X, false)
	case *ast.CompositeLit:
		for _, el := range x.Elts {
			if kv, ok := el.(*ast.KeyValueExpr); ok {
				w.expr(kv.Value, false)
			} else {
				w.expr(el, false)
			}
		}
	case *ast.KeyValueExpr:
		w.expr(x.Value, false)
	}
}

func (w *walker) cur() []Lock { return append([]Lock(nil), w.held...) }

func (w *walker) recvdList() []string {
	var out []string
	for k, v := range w.recvd {
		if v {
			out = append(out, k)
		}
	}
	sort.Strings(out)
	return out
}

// syncCallbackCallee: callee invokes its function-literal argument synchronously on this goroutine.
func (w *walker) classify(c *ast.CallExpr) (kind string, class string) {
	s, ok := c.Fun.(*ast.SelectorExpr)
	if !ok {
		return "", ""
	}
	t := w.pc.info.TypeOf(s.X)
	if t != nil && isBroadcastType(t) {
		switch s.Sel.Name {
		case "HoldLock", "TryHoldLock", "Wait":
			return "hold", w.lockClass(s.X)
		case "HoldLockMaybeAsync":
			return "maybeasync", w.lockClass(s.X)
		}
	}
	if t != nil {
		if p, n := namedOf(t); p == "sync" && n == "Once" && s.Sel.Name == "Do" {
			return "sync", ""
		}
	}
	if id, ok := s.X.(*ast.Ident); ok && (id.Name == "sort" || id.Name == "slices") {
		return "sync", ""
	}
	return "", ""
}

func (w *walker) call(c *ast.CallExpr, isGo, isDefer bool) {
	// builtin delete/clear/append: first argument is written
	if id, ok := c.Fun.(*ast.Ident); ok {
		switch id.Name {
		case "delete", "clear":
			if len(c.Args) > 0 {
				w.lhs(c.Args[0])
				for _, a := range c.Args[1:] {
					w.expr(a, false)
				}
				return
			}
		case "close":
			if len(c.Args) == 1 {
				w.markClosed(chanName(c.Args[0]), c.Pos())
			}
		}
	}
	kind, class := w.classify(c)
	// the callee expression
	switch f := c.Fun.(type) {
	case *ast.FuncLit:
		if isGo {
			w.funcLit(f, nil, true, inLoop(w.fn, c.Pos()))
		} else {
			w.funcLit(f, w.cur(), false, false) // called (or deferred) right here
		}
	case *ast.SelectorExpr:
		if sel := w.pc.info.Selections[f]; sel != nil && sel.Kind() == types.MethodVal {
			h := w.cur()
			if isGo {
				h = nil
			}
			ao, an := w.argInfo(c)
			w.pc.sites = append(w.pc.sites, callSite{callee: sel.Obj(), held: h, caller: w.unit, root: w.curRoot, rootsPtr: &w.roots, recvd: w.recvdList(), isGo: isGo, direct: true, argObj: ao, argNew: an})
		} else if sel != nil && sel.Kind() == types.FieldVal {
			n := len(w.pc.rows)
			w.access(f, false) // calling a func-typed field reads it
			if len(w.pc.rows) > n {
				w.pc.rows[len(w.pc.rows)-1].isCall = true
			}
		} else if o := w.pc.info.Uses[f.Sel]; o != nil {
			if _, ok := o.(*types.Func); ok { // pkg.Func
				h := w.cur()
				if isGo {
					h = nil
				}
				ao, an := w.argInfo(c)
				w.pc.sites = append(w.pc.sites, callSite{callee: o, held: h, caller: w.unit, root: w.curRoot, rootsPtr: &w.roots, recvd: w.recvdList(), isGo: isGo, direct: true, argObj: ao, argNew: an})
			}
		}
		w.expr(f.X, false)
	case *ast.Ident:
		if o := w.pc.info.Uses[f]; o != nil {
			h := w.cur()
			if isGo {
				h = nil
			}
			ao, an := w.argInfo(c)
			w.pc.sites = append(w.pc.sites, callSite{callee: o, held: h, caller: w.unit, root: w.curRoot, rootsPtr: &w.roots, recvd: w.recvdList(), isGo: isGo, direct: true, argObj: ao, argNew: an})
			if _, isVar := o.(*types.Var); isVar {
				w.ident(f, false)
			}
		}
	default:
		w.expr(c.Fun, false)
	}
	conv := w.convention(c)
	for _, a := range c.Args {
		if fl, ok := a.(*ast.FuncLit); ok {
			if conv != "" {
				// callback that the library only ever invokes with `conv` held (verified below:
				// every call through the storing field must hold it)
				w.funcLit(fl, []Lock{{conv, false}}, true, true)
				continue
			}
			switch kind {
			case "hold":
				w.funcLit(fl, withLock(w.cur(), Lock{class, false}), false, false)
			case "maybeasync":
				w.funcLit(fl, []Lock{{class, false}}, true, true)
			case "sync":
				w.funcLit(fl, w.cur(), false, false)
			default:
				w.funcLit(fl, nil, true, true) // escapes: callback / timer / stored
			}
			continue
		}
		if kind == "hold" || kind == "maybeasync" {
			// a function value passed to HoldLock: a call site under the lock
			if id, ok := a.(*ast.Ident); ok {
				if o := w.pc.info.Uses[id]; o != nil {
					w.pc.sites = append(w.pc.sites, callSite{callee: o, held: withLock(w.cur(), Lock{class, false}), caller: w.unit, root: w.curRoot, rootsPtr: &w.roots, recvd: w.recvdList()})
					continue
				}
			}
		}
		w.expr(a, false)
	}
}

// conventions: (method, lock class held whenever the library invokes the callback passed to it,
// field through which the callback is invoked). The extractor verifies the convention: every call
// through that field must hold the class, otherwise an unprotected marker row is emitted.
var conventions = []struct{ recvType, method, class, field string }{
	{"RefCount", "AddRef", "refcount.RefCount.mtx", "refcount.Ref.cb"},
}

func (w *walker) convention(c *ast.CallExpr) string {
	s, ok := c.Fun.(*ast.SelectorExpr)
	if !ok {
		return ""
	}
	sel := w.pc.info.Selections[s]
	if sel == nil || sel.Kind() != types.MethodVal {
		return ""
	}
	_, rn := namedOf(sel.Recv())
	for _, cv := range conventions {
		if cv.recvType == rn && cv.method == s.Sel.Name {
			return cv.class
		}
	}
	return ""
}

func inLoop(fn *ast.FuncDecl, p token.Pos) bool {
	in := false
	ast.Inspect(fn, func(n ast.Node) bool {
		switch x := n.(type) {
		case *ast.ForStmt:
			if x.Pos() <= p && p < x.End() {
				in = true
			}
		case *ast.RangeStmt:
			if x.Pos() <= p && p < x.End() {
				in = true
			}
		}
		return true
	})
	return in
}

// funcLit walks a function literal. held: locks held while it runs; newRoot: it runs on another
// goroutine or later (so lexical locks of the enclosing code do not apply); multi: may run
// concurrently with itself.
func (w *walker) funcLit(fl *ast.FuncLit, held []Lock, newRoot, multi bool) {
	w.funcLitUnit(fl, held, newRoot, multi, nil)
}

// funcLitUnit: as funcLit; a new root gets its own unit (entry lock set ∅ unless `u` is a closure
// unit whose entry set is the intersection over its call sites).
func (w *walker) funcLitUnit(fl *ast.FuncLit, held []Lock, newRoot, multi bool, u *unit) {
	savedHeld, savedRoot, savedRecv, savedUnit, savedDefer := w.held, w.curRoot, w.recvd, w.unit, w.deferCl
	if newRoot {
		w.curRoot = w.newRoot(fl, multi)
		w.recvd = map[string]bool{}
		w.deferCl = nil
		if u == nil {
			u = &unit{key: fmt.Sprintf("%s#%d", w.fnName, w.curRoot), fixed: true, initCtx: w.initCtx}
		}
		w.unit = u
	}
	w.held = held
	w.block(fl.Body.List)
	w.held, w.curRoot, w.recvd, w.unit, w.deferCl = savedHeld, savedRoot, savedRecv, savedUnit, savedDefer
}

// argInfo describes the arguments of a direct call for the fresh-parameter rule.
func (w *walker) argInfo(c *ast.CallExpr) ([]types.Object, []bool) {
	objs := make([]types.Object, len(c.Args))
	fresh := make([]bool, len(c.Args))
	for i, a := range c.Args {
		if id, ok := a.(*ast.Ident); ok {
			if o := w.pc.info.Uses[id]; o != nil {
				objs[i] = o
				fresh[i] = w.locals[o]
			}
		}
	}
	return objs, fresh
}

// baseVarOf returns the variable an access path starts from.
func (w *walker) baseVarOf(e ast.Expr) types.Object {
	for {
		switch x := e.(type) {
		case *ast.ParenExpr:
			e = x.X
		case *ast.StarExpr:
			e = x.X
		case *ast.SelectorExpr:
			e = x.X
		case *ast.Ident:
			return w.pc.info.Uses[x]
		default:
			return nil
		}
	}
}

func (w *walker) baseIsFresh(e ast.Expr) bool {
	for {
		switch x := e.(type) {
		case *ast.ParenExpr:
			e = x.X
		case *ast.StarExpr:
			e = x.X
		case *ast.SelectorExpr:
			e = x.X
		case *ast.Ident:
			o := w.pc.info.Uses[x]
			return o != nil && w.locals[o]
		default:
			return false
		}
	}
}

func (w *walker) access(x *ast.SelectorExpr, write bool) {
	sel := w.pc.info.Selections[x]
	if sel == nil || sel.Kind() != types.FieldVal {
		return
	}
	fv, ok := sel.Obj().(*types.Var)
	if !ok || fv.Pkg() == nil || !strings.HasPrefix(fv.Pkg().Path(), "github.com/aperturerobotics/util") {
		return
	}
	if isSyncType(fv.Type()) {
		return // locks and atomics synchronise themselves
	}
	_, owner := namedOf(sel.Recv())
	pos := w.pc.fset.Position(x.Sel.Pos())
	r := &Row{Var: short(fv.Pkg().Path()) + "." + owner + "." + x.Sel.Name, Write: write, File: pos.Filename, Line: pos.Line,
		Func: w.fnName, Root: w.curRoot, Multi: true, lex: w.cur(), unit: w.unit, obj: fv, pos: x.Sel.Pos(), roots: &w.roots}
	if w.initCtx || w.baseIsFresh(x.X) {
		r.Exempt = "init"
	} else {
		r.baseVar = w.baseVarOf(x.X)
	}
	w.common(r, write)
	w.pc.rows = append(w.pc.rows, r)
}

// common fills the program-order facts used by the exemptions.
func (w *walker) common(r *Row, write bool) {
	if write && w.stmtEnd != 0 {
		r.pos = w.stmtEnd
	}
	for k, v := range w.recvd {
		if v {
			r.recvFrom = append(r.recvFrom, k)
		}
	}
	r.closedBy = append([]string(nil), w.deferCl...)
	key := fmt.Sprintf("%d:%s", w.curRoot, r.Var)
	r.ownWrite = w.wrote[key]
	if write {
		w.wrote[key] = true
	}
}

func (w *walker) ident(id *ast.Ident, write bool) {
	o := w.pc.info.Uses[id]
	if o == nil {
		o = w.pc.info.Defs[id]
	}
	v, ok := o.(*types.Var)
	if !ok || v.IsField() || v.Pkg() == nil || v.Parent() == v.Pkg().Scope() {
		return
	}
	if !(w.fn.Pos() <= v.Pos() && v.Pos() < w.fn.End()) {
		return
	}
	if isSyncType(v.Type()) {
		return
	}
	pos := w.pc.fset.Position(id.Pos())
	r := &Row{Var: fmt.Sprintf("%s$%s@%d", w.fnName, v.Name(), w.pc.fset.Position(v.Pos()).Line), Write: write, File: pos.Filename, Line: pos.Line, Func: w.fnName,
		Root: w.curRoot, Local: true, lex: w.cur(), unit: w.unit, obj: v, pos: id.Pos(), roots: &w.roots}
	r.Multi = w.roots[w.curRoot].multi
	w.common(r, write)
	w.pc.rows = append(w.pc.rows, r)
}

// ---------------------------------------------------------------- solving

func intersect(a, b []Lock) []Lock {
	var out []Lock
	for _, x := range a {
		for _, y := range b {
			if x.Class == y.Class {
				out = append(out, Lock{x.Class, x.Shared || y.Shared})
				break
			}
		}
	}
	return out
}

func union(a, b []Lock) []Lock {
	out := append([]Lock(nil), a...)
	for _, y := range b {
		found := false
		for i, x := range out {
			if x.Class == y.Class {
				found = true
				out[i].Shared = x.Shared && y.Shared
			}
		}
		if !found {
			out = append(out, y)
		}
	}
	return out
}

func (pc *pkgCtx) solve() {
	// entry lock sets of unexported helpers = intersection over their call sites (fixed point)
	sitesOf := map[types.Object][]callSite{}
	for _, s := range pc.sites {
		if s.caller != nil && s.caller.initCtx && len(s.held) == 0 {
			continue // calls made without a lock while the object is still under construction
		}
		sitesOf[origin(s.callee)] = append(sitesOf[origin(s.callee)], s)
	}
	for o, u := range pc.units {
		if u.exported || len(sitesOf[o]) == 0 {
			u.entry = nil
			u.dead = !u.exported && len(sitesOf[o]) == 0 && u.decl != nil && !refdAnywhere(pc, o)
		} else {
			u.top = true
		}
	}
	for iter := 0; iter < 50; iter++ {
		changed := false
		for o, u := range pc.units {
			if u.exported || len(sitesOf[o]) == 0 {
				continue
			}
			var acc []Lock
			accTop := true
			for _, s := range sitesOf[o] {
				var h []Lock
				if s.isGo {
					h = nil
				} else if s.caller != nil && s.caller.top {
					continue // caller unknown yet: neutral element
				} else {
					h = union(s.held, callerEntry(s.caller))
				}
				if accTop {
					acc, accTop = h, false
				} else {
					acc = intersect(acc, h)
				}
			}
			if accTop {
				continue
			}
			if u.top || !sameLocks(u.entry, acc) {
				u.top, u.entry, changed = false, acc, true
			}
		}
		if !changed {
			break
		}
	}
	// synchronous-only closures: a closure stored in a local (`f := func(){…}`) whose every use is a
	// direct call `f()` or being passed to HoldLock / TryHoldLock / Wait / HoldLockMaybeAsync (never
	// `go f()`, never stored or passed on as a value), all of them in the root that defines it, runs
	// on the goroutine of the defining root: its
	// accesses belong to that root, exactly as if the literal had been written at the call site.
	// (Naming a shared HoldLock callback must not turn the locals it captures into cross-goroutine
	// state.)
	for iter := 0; iter < 8; iter++ {
		changed := false
		for o, u := range pc.units {
			if !u.closure || u.rootsPtr == nil || len(sitesOf[o]) == 0 {
				continue
			}
			syncOnly := true
			for _, st := range sitesOf[o] {
				// every use on the goroutine root that defines the closure
				if st.isGo || st.rootsPtr != u.rootsPtr || st.root != u.parentRoot {
					syncOnly = false
				}
			}
			if !syncOnly {
				continue
			}
			for _, r := range pc.rows {
				if r.roots == u.rootsPtr && r.Root == u.rootID {
					r.Root = u.parentRoot
					if r.Local {
						r.Multi = u.parentMul
					}
					changed = true
				}
			}
		}
		if !changed {
			break
		}
	}
	// receive-before-call: an unexported function called only directly (never `go`, never as a value)
	// inherits the channels every caller has received from before the call (intersection over the
	// call sites, fixed point). Used by the chan-hb exemption: reading a result through a helper
	// after `<-p.done` is still a read after the receive.
	for o, u := range pc.units {
		u.entryRecvTop = !u.exported && u.decl != nil && len(sitesOf[o]) > 0
	}
	for iter := 0; iter < 20; iter++ {
		changed := false
		for o, u := range pc.units {
			if u.exported || u.decl == nil || len(sitesOf[o]) == 0 {
				continue
			}
			var acc []string
			accTop, ok := true, true
			for _, st := range sitesOf[o] {
				if st.isGo || !st.direct {
					ok = false
					break
				}
				h := append([]string(nil), st.recvd...)
				if st.caller != nil {
					if st.caller.entryRecvTop {
						continue // caller unknown yet: neutral element
					}
					h = append(h, st.caller.entryRecv...)
				}
				if accTop {
					acc, accTop = h, false
				} else {
					var both []string
					for _, x := range acc {
						for _, y := range h {
							if x == y {
								both = append(both, x)
								break
							}
						}
					}
					acc = both
				}
			}
			if !ok {
				acc, accTop = nil, false
			}
			if accTop {
				continue
			}
			sort.Strings(acc)
			if u.entryRecvTop || strings.Join(u.entryRecv, ",") != strings.Join(acc, ",") {
				u.entryRecvTop, u.entryRecv, changed = false, acc, true
			}
		}
		if !changed {
			break
		}
	}
	for _, r := range pc.rows {
		if r.unit != nil && !r.unit.entryRecvTop {
			for _, c := range r.unit.entryRecv {
				found := false
				for _, x := range r.recvFrom {
					if x == c {
						found = true
					}
				}
				if !found {
					r.recvFrom = append(r.recvFrom, c)
				}
			}
		}
	}
	// fresh parameters: a parameter of an unexported function is an object under construction if at
	// every call site (all of them direct, none a go statement) the argument is a local of the caller
	// that holds an object under construction, or such a parameter of the caller (fixed point from
	// "all fresh" downwards). Accesses through it are `init`, exactly as through the caller's local:
	// extracting the body of a retry loop into a helper must not change the verdict.
	paramIdx := func(u *unit, v types.Object) int {
		if u == nil || u.decl == nil || u.decl.Type.Params == nil || v == nil {
			return -1
		}
		i := 0
		for _, f := range u.decl.Type.Params.List {
			for _, nm := range f.Names {
				if pc.info.Defs[nm] == v {
					return i
				}
				i++
			}
			if len(f.Names) == 0 {
				i++
			}
		}
		return -1
	}
	freshParam := map[*unit]map[int]bool{}
	isFreshParam := func(u *unit, v types.Object) bool {
		i := paramIdx(u, v)
		return i >= 0 && freshParam[u] != nil && freshParam[u][i]
	}
	for o, u := range pc.units {
		if u.exported || u.decl == nil || len(sitesOf[o]) == 0 {
			continue
		}
		n := u.decl.Type.Params.NumFields()
		m := map[int]bool{}
		for i := 0; i < n; i++ {
			m[i] = true
		}
		freshParam[u] = m
	}
	for iter := 0; iter < 20; iter++ {
		changed := false
		for o, u := range pc.units {
			m := freshParam[u]
			if m == nil {
				continue
			}
			for i := range m {
				if !m[i] {
					continue
				}
				ok := true
				for _, st := range sitesOf[o] {
					if !st.direct || st.isGo || i >= len(st.argNew) {
						ok = false
						break
					}
					if !st.argNew[i] && !isFreshParam(st.caller, st.argObj[i]) {
						ok = false
						break
					}
				}
				if !ok {
					m[i], changed = false, true
				}
			}
		}
		if !changed {
			break
		}
	}
	for _, r := range pc.rows {
		if r.Exempt == "" && r.baseVar != nil && isFreshParam(r.unit, r.baseVar) {
			r.Exempt = "init"
		}
	}
	for _, r := range pc.rows {
		e := []Lock(nil)
		if r.unit != nil && !r.unit.top && !r.unit.fixed {
			e = r.unit.entry
		}
		if r.unit != nil && r.unit.fixed {
			e = r.unit.entry
		}
		r.Locks = union(r.lex, e)
		sort.Slice(r.Locks, func(i, j int) bool { return r.Locks[i].Class < r.Locks[j].Class })
	}
	var live []*Row
	for _, r := range pc.rows {
		if r.unit != nil && r.unit.dead {
			fmt.Printf("note: %s is unreachable (unexported, never referenced); its accesses are not tabulated\n", r.unit.key)
			r.unit.dead, r.unit.decl = false, nil
			r.unit.skip = true
		}
		if r.unit == nil || !r.unit.skip {
			live = append(live, r)
		}
	}
	pc.rows = live
}

// refdAnywhere: is the function object referenced at all in the package (call, method value,
// interface satisfaction is ignored: methods that implement an interface are exported here)?
func refdAnywhere(pc *pkgCtx, o types.Object) bool {
	for _, u := range pc.info.Uses {
		if origin(u) == o {
			return true
		}
	}
	return false
}

func callerEntry(u *unit) []Lock {
	if u == nil || u.top {
		return nil
	}
	return u.entry
}

func sameLocks(a, b []Lock) bool {
	if len(a) != len(b) {
		return false
	}
	m := map[Lock]bool{}
	for _, x := range a {
		m[x] = true
	}
	for _, y := range b {
		if !m[y] {
			return false
		}
	}
	return true
}

// ---------------------------------------------------------------- output

func finish(all []*Row, fset *token.FileSet, repo, outLean, outJSON string) {
	byVar := map[string][]*Row{}
	for _, r := range all {
		byVar[r.Var] = append(byVar[r.Var], r)
	}
	ctxNum := map[string]int{}
	var rows []*Row
	for _, rs := range byVar {
		for _, r := range rs {
			k := fmt.Sprintf("%s#%d", r.Func, r.Root)
			if _, ok := ctxNum[k]; !ok {
				ctxNum[k] = len(ctxNum)
			}
			r.Ctx = ctxNum[k]
			r.SelfConc = true
		}
		if !rs[0].Local {
			rows = append(rows, rs...)
			continue
		}
		// captured local variable: find the root that declares it
		roots := *rs[0].roots
		decl := 0
		for _, rt := range roots {
			if rt.id != 0 && rt.start <= rs[0].obj.Pos() && rs[0].obj.Pos() < rt.end {
				if decl == 0 || (roots[decl].end-roots[decl].start) > (rt.end-rt.start) {
					decl = rt.id
				}
			}
		}
		used := map[int]bool{}
		for _, r := range rs {
			used[r.Root] = true
			// executions of a root overlap only if the root may run several times and the
			// variable is not private to one execution
			r.SelfConc = r.Multi && r.Root != decl
		}
		shared := len(used) >= 2
		for _, r := range rs {
			if r.SelfConc {
				shared = true
			}
		}
		if !shared {
			continue
		}
		// pre-publication: an access in the declaring root that completes before any other root
		// using the variable is created happens-before everything that root does (go statement /
		// closure creation), provided the declaring root is not itself re-entered on this variable
		for _, r := range rs {
			if r.Root != decl || r.SelfConc {
				continue
			}
			pre := true
			for _, rt := range roots {
				if rt.id != r.Root && used[rt.id] && !(r.pos <= rt.start) {
					pre = false
				}
			}
			if pre && r.Exempt == "" {
				r.Exempt = "init"
			}
		}
		rows = append(rows, rs...)
	}
	// verify the callback conventions
	for _, cv := range conventions {
		for _, r := range all {
			if r.Var == cv.field && r.isCall {
				has := false
				for _, l := range r.Locks {
					if l.Class == cv.class && !l.Shared {
						has = true
					}
				}
				if !has {
					rows = append(rows, &Row{Var: "convention-violated:" + cv.field, Write: true, File: r.File, Line: r.Line, Func: r.Func,
						SelfConc: true, Ctx: r.Ctx, obj: r.obj, pos: r.pos, roots: r.roots})
				}
			}
		}
	}
	// chan-hb exemption: every (non-init) write is followed by a close in its function and every
	// read is preceded by a channel receive in its function or follows its own goroutine's write
	byVar = map[string][]*Row{}
	for _, r := range rows {
		byVar[r.Var] = append(byVar[r.Var], r)
	}
	has := func(xs []string, c string) bool {
		for _, x := range xs {
			if x == c {
				return true
			}
		}
		return false
	}
	for _, rs := range byVar {
		// candidate channels: closed after every (non-init) write
		var cands []string
		first, hasW := true, false
		for _, r := range rs {
			if r.Exempt == "init" || !r.Write {
				continue
			}
			hasW = true
			if first {
				cands, first = append([]string(nil), r.closedBy...), false
			} else {
				var keep []string
				for _, c := range cands {
					if has(r.closedBy, c) {
						keep = append(keep, c)
					}
				}
				cands = keep
			}
		}
		if !hasW {
			continue
		}
		for _, c := range cands {
			if c == "?" || strings.HasSuffix(c, "()") {
				continue
			}
			ok := true
			for _, r := range rs {
				if r.Exempt == "init" || r.Write {
					continue
				}
				if !has(r.recvFrom, c) && !r.ownWrite {
					ok = false
				}
			}
			if ok {
				for _, r := range rs {
					if r.Exempt == "" {
						r.Exempt = "chanhb"
					}
				}
				break
			}
		}
	}
	sort.Slice(rows, func(i, j int) bool {
		if rows[i].File != rows[j].File {
			return rows[i].File < rows[j].File
		}
		if rows[i].Line != rows[j].Line {
			return rows[i].Line < rows[j].Line
		}
		return rows[i].pos < rows[j].pos
	})
	for i, r := range rows {
		r.ID = i
		r.File, _ = filepath.Rel(repo, r.File)
		if r.Locks == nil {
			r.Locks = []Lock{}
		}
	}
	if outJSON != "" {
		b, _ := json.MarshalIndent(rows, "", " ")
		os.WriteFile(outJSON, b, 0o644)
	}
	if outLean != "" {
		os.WriteFile(outLean, []byte(leanTable(rows)), 0o644)
	}
	fmt.Printf("rows=%d vars=%d\n", len(rows), len(byVar))
}

func leanTable(rows []*Row) string {
	var b strings.Builder
	b.WriteString("import UtilModel.Race.Lockset\n/-! GENERATED by harness/extract from the Go sources on every run of `./check C13`. Do not edit. -/\nnamespace UtilModel.Race.Gen\nopen UtilModel.Race\n\n")
	// intern variables and lock classes as numbers; names are kept in comments
	vars, locks := map[string]int{}, map[string]int{}
	var vnames, lnames []string
	for _, r := range rows {
		if _, ok := vars[r.Var]; !ok {
			vars[r.Var] = len(vnames)
			vnames = append(vnames, r.Var)
		}
		for _, l := range r.Locks {
			if _, ok := locks[l.Class]; !ok {
				locks[l.Class] = len(lnames)
				lnames = append(lnames, l.Class)
			}
		}
	}
	b.WriteString("/- lock classes:\n")
	for i, n := range lnames {
		fmt.Fprintf(&b, "  %d = %s\n", i, n)
	}
	b.WriteString("-/\n\n/-- accesses grouped by location: group k holds the rows of location k -/\ndef lockTable : List (List Row) := [\n")
	groups := make([][]*Row, len(vnames))
	for _, r := range rows {
		groups[vars[r.Var]] = append(groups[vars[r.Var]], r)
	}
	for gi, g := range groups {
		fmt.Fprintf(&b, "  -- %d = %s\n  [", gi, vnames[gi])
		for i, r := range g {
			var ls []string
			for _, l := range r.Locks {
				ls = append(ls, fmt.Sprintf("(%d, %v)", locks[l.Class], l.Shared))
			}
			ex := ".none"
			if r.Exempt != "" {
				ex = "." + r.Exempt
			}
			sep := ","
			if i == len(g)-1 {
				sep = ""
			}
			fmt.Fprintf(&b, "\n    { id := %d, var := %d, write := %v, ctx := %d, selfconc := %v, locks := [%s], exempt := %s }%s -- %s:%d",
				r.ID, vars[r.Var], r.Write, r.Ctx, r.SelfConc, strings.Join(ls, ", "), ex, sep, r.File, r.Line)
		}
		if gi == len(groups)-1 {
			b.WriteString("\n  ]\n")
		} else {
			b.WriteString("\n  ],\n")
		}
	}
	b.WriteString("]\n\n")
	b.WriteString("/-- the regenerated table satisfies the lockset discipline (re-checked by the kernel on every run) -/\n")
	b.WriteString("theorem table_ok : checkGrouped lockTable = true := by decide\n\n")
	b.WriteString("/-- hence no two conflicting accesses of the tabulated code are ever in progress together -/\n")
	b.WriteString("theorem no_conflicting_accesses (es : List Ev) (s : St)\n    (hr : (machine lockTable.flatten).run (machine lockTable.flatten).init es = some s)\n    (i j : Nat) (ti tj : Thread) (a b : Row) (hij : i ≠ j) (h1 : s[i]? = some ti) (h2 : s[j]? = some tj)\n    (ha : ti.acc = some a) (hb : tj.acc = some b) : mayConflict a b = false :=\n  lockset_sound _ (checkTable_of_grouped lockTable table_ok) es s hr i j ti tj a b hij h1 h2 ha hb\n\n")
	b.WriteString("end UtilModel.Race.Gen\n")
	return b.String()
}
