//go:build verif

// Package hook installs a perturbation handler on the verifhook schedule points.
//
// The handler never decides what is correct: it only widens or narrows timing windows so that rare
// interleavings (between "sampled state" and "blocked", between a load and a CAS, between a
// critical section and the next statement) actually happen. Gates additionally hold the n-th hit of
// a point until the harness opens them.
package hook

import (
	"math/rand"
	"runtime"
	"sync"
	"time"

	"github.com/aperturerobotics/util/verifhook"
)

// Perturb configures the random perturbation.
type Perturb struct {
	// Prob is the probability (0..1) of perturbing at a point.
	Prob float64
	// MaxSleep is the maximum sleep; a perturbation is a Gosched or a sleep up to MaxSleep.
	MaxSleep time.Duration
}

type gate struct {
	kind  string
	obj   any // nil = any object
	nth   int // fire on the nth matching hit (1-based)
	seen  int
	ch    chan struct{}
	hitCh chan struct{}
	hit   bool
}

// Ctl is an installed handler.
type Ctl struct {
	mu    sync.Mutex
	rng   *rand.Rand
	p     Perturb
	gates []*gate
	hits  map[string]int
}

// Install installs a handler; call Uninstall when the scenario is over.
func Install(seed int64, p Perturb) *Ctl {
	c := &Ctl{rng: rand.New(rand.NewSource(seed)), p: p, hits: map[string]int{}}
	h := c.handle
	verifhook.Handler.Store(&h)
	return c
}

// Uninstall removes the handler and opens every gate.
func (c *Ctl) Uninstall() {
	verifhook.Handler.Store(nil)
	c.mu.Lock()
	for _, g := range c.gates {
		select {
		case <-g.ch:
		default:
			close(g.ch)
		}
	}
	c.mu.Unlock()
}

// Gate is a handle on a gate.
type Gate struct{ g *gate }

// AddGate holds the nth hit (1-based) of point kind on obj (nil: any object) until Open is called.
func (c *Ctl) AddGate(kind string, obj any, nth int) Gate {
	g := &gate{kind: kind, obj: obj, nth: nth, ch: make(chan struct{}), hitCh: make(chan struct{})}
	c.mu.Lock()
	c.gates = append(c.gates, g)
	c.mu.Unlock()
	return Gate{g}
}

// Open releases the goroutine held at the gate (or lets it pass if it has not arrived yet).
func (g Gate) Open() {
	select {
	case <-g.g.ch:
	default:
		close(g.g.ch)
	}
}

// WaitHit waits until a goroutine is held at the gate or the timeout expires.
func (g Gate) WaitHit(d time.Duration) bool {
	select {
	case <-g.g.hitCh:
		return true
	case <-time.After(d):
		return false
	}
}

// Hits returns how often each point kind was hit.
func (c *Ctl) Hits() map[string]int {
	c.mu.Lock()
	defer c.mu.Unlock()
	out := map[string]int{}
	for k, v := range c.hits {
		out[k] = v
	}
	return out
}

func (c *Ctl) handle(kind string, obj any) {
	c.mu.Lock()
	c.hits[kind]++
	var hold *gate
	for _, g := range c.gates {
		if g.kind == kind && (g.obj == nil || g.obj == obj) {
			g.seen++
			if g.seen == g.nth && !g.hit {
				g.hit = true
				close(g.hitCh)
				hold = g
				break
			}
		}
	}
	var sleep time.Duration
	yield := false
	if hold == nil && c.p.Prob > 0 && c.rng.Float64() < c.p.Prob {
		if c.p.MaxSleep > 0 && c.rng.Intn(2) == 0 {
			sleep = time.Duration(c.rng.Int63n(int64(c.p.MaxSleep)) + 1)
		} else {
			yield = true
		}
	}
	c.mu.Unlock()
	if hold != nil {
		<-hold.ch
		return
	}
	if sleep > 0 {
		time.Sleep(sleep)
	} else if yield {
		runtime.Gosched()
	}
}
