//go:build verif

// Package vmain is the body of the vharness command: it runs scenarios of one component against the
// real implementation and prints the recorded histories in the line protocol understood by the Lean
// driver. Component packages register themselves in init(); a command imports the ones it wants.
package vmain

import (
	"bufio"
	"flag"
	"fmt"
	"math/rand"
	"os"
	"strings"
	"time"

	"verifharness/comp"
)

// Main is the entry point.
func Main() {
	name := flag.String("comp", "", "component")
	seed := flag.Int64("seed", 1, "base seed")
	n := flag.Int("n", 10, "number of generated scenarios")
	tier := flag.String("tier", "quick", "quick|thorough")
	scriptFile := flag.String("script", "", "run this script file instead of generating (one step per line)")
	repeat := flag.Int("repeat", 1, "with -script: number of runs (seeds seed..seed+repeat-1)")
	grace := flag.Duration("grace", 25*time.Millisecond, "quiescence grace period")
	noCorpus := flag.Bool("nocorpus", false, "skip the built-in corpus")
	list := flag.Bool("list", false, "list components")
	flag.Parse()
	if *list {
		for _, n := range comp.Names() {
			fmt.Println(n, comp.Get(n).Model)
		}
		return
	}
	c := comp.Get(*name)
	if c == nil {
		fmt.Fprintln(os.Stderr, "unknown component", *name)
		os.Exit(2)
	}
	w := bufio.NewWriterSize(os.Stdout, 1<<16)
	defer w.Flush()
	emit := func(id string, s int64, script []string) {
		// the script is on the output before it runs: if the implementation brings the process down
		// (a runtime fatal error cannot be recovered), the check still knows the failing input
		fmt.Fprintf(w, "BEGIN %s seed=%d\n", id, s)
		for _, l := range script {
			fmt.Fprintf(w, "S %s\n", l)
		}
		w.Flush()
		res := c.Exec(script, comp.Options{Seed: s, Grace: *grace, Tier: *tier})
		for _, t := range res.Tags {
			fmt.Fprintf(w, "T %s\n", t)
		}
		if res.Unstable {
			fmt.Fprintf(w, "UNSTABLE\n")
		}
		for _, l := range res.History {
			fmt.Fprintf(w, "H %s\n", l)
		}
		fmt.Fprintf(w, "END %s\n", id)
		w.Flush()
	}
	if *scriptFile != "" {
		data, err := os.ReadFile(*scriptFile)
		if err != nil {
			fmt.Fprintln(os.Stderr, err)
			os.Exit(2)
		}
		var script []string
		for _, l := range strings.Split(string(data), "\n") {
			l = strings.TrimSpace(l)
			if l != "" && !strings.HasPrefix(l, "#") {
				script = append(script, l)
			}
		}
		for i := 0; i < *repeat; i++ {
			emit(fmt.Sprintf("script-%d", i), *seed+int64(i), script)
		}
		return
	}
	if !*noCorpus {
		for i, script := range c.Corpus {
			emit(fmt.Sprintf("corpus-%d", i), *seed, script)
		}
	}
	for i := 0; i < *n; i++ {
		s := *seed*1000003 + int64(i)
		rng := rand.New(rand.NewSource(s))
		emit(fmt.Sprintf("gen-%d", s), s, c.Gen(rng, *tier))
	}
}
