//go:build verif

// Package routine drives routine.RoutineContainer (component "routine") and
// routine.StateRoutineContainer[int] (component "routine-state").
//
// Every instance of the managed function is harness-controlled: it logs its entry (cbin), then blocks
// until the script tells it to return and with what (that is the exit latency), logs cbout and returns.
//
// Script steps (any sub-list of a script is a valid script):
//
//	cfg plain|state <cmp> <retry> <ncb> [<pattern> [<Dms> [<ctor>]]]   first line; cmp 0 nil,1 ==,2 parity; pattern over d/s;
//	                    ctor 0 New…, 1 New…WithLogger, 2 NewStateRoutineContainerVT, 3 …WithLoggerVT (2, 3: state only, cmp = 1)
//	setctx <c> <r>      SetContext(root c, restart r); c = 0 is the nil context
//	clearctx            ClearContext()
//	setroutine <f>      SetRoutine(function f), f = 0 is nil            (plain only)
//	restart             RestartRoutine()
//	setstate <v> | setsr <f> | swap <k|nil> | getstate                  (state only)
//	waitexited <r> [errch]   WaitExited(own ctx, returnIfNotRunning r, nil | an error channel) in its own goroutine
//	errch send <i> <e> | errch close <i>   send error e (0 = context.Canceled) on / close the error channel of the i-th waitexited step
//	waitexitedc <r>     the same with a context that is already cancelled when WaitExited is called
//	cancelw <i>         cancel the context of the i-th waitexited step
//	cancelroot <c>      cancel root context c
//	async <step>        run an API step (setctx … getstate) from a new actor goroutine
//	join                wait for the async actors
//	exit <old|new> <ok|ctx|err e>   make the oldest/newest running instance return nil / ctx.Err() / error e
//	mode hold|auto      instances entering from now on return ctx.Err() as soon as their ctx is cancelled (auto)
//	gate exec|hold [n]  hold the next (n-th) hit of the exec-start / hold-enter schedule point
//	waitgate <i>        wait (bounded) until gate i holds a goroutine
//	open <i>            open gate i
//	probe               probe contexts of running instances and all returned wait channels
//	pause | settle      short sleep / wait until the log is quiet (not logged)
//	quiesce | advance   wait for quiet longer than the grace period and every retry delay, log the quiescence line
//	                    `quiesce <pending calls> / <executing instances> / <those with a live context>`
package routine

import (
	"context"
	"errors"
	"fmt"
	"io"
	"math/rand"
	"strconv"
	"strings"
	"sync"
	"time"

	"github.com/aperturerobotics/util/backoff"
	rt "github.com/aperturerobotics/util/routine"
	"github.com/sirupsen/logrus"

	"verifharness/comp"
	"verifharness/hist"
	"verifharness/hook"
)

type rootKeyT struct{}

var rootKey rootKeyT

var errTab = []error{context.Canceled, errors.New("e1"), errors.New("e2"), errors.New("e3")}

func errCode(err error) string {
	if err == nil {
		return "nil"
	}
	for i, e := range errTab {
		if err == e {
			return strconv.Itoa(i)
		}
	}
	return "9"
}

func b2i(b bool) int {
	if b {
		return 1
	}
	return 0
}


// stateAPI is what the harness uses of a StateRoutineContainer; two instantiations are driven:
// StateRoutineContainer[int] (compare function given) and StateRoutineContainer[*vst] (the VT constructors).
type stateAPI interface {
	SetContext(ctx context.Context, restart bool) bool
	ClearContext() bool
	RestartRoutine() bool
	SetState(v int) (<-chan struct{}, bool, bool, bool)
	SetStateRoutine(fn rt.StateRoutine[int]) (<-chan struct{}, bool, bool)
	SwapValue(cb func(int) int) (int, <-chan struct{}, bool, bool, bool)
	GetState() int
	WaitExited(ctx context.Context, returnIfNotRunning bool, errCh <-chan error) error
}

type intSC struct {
	*rt.StateRoutineContainer[int]
}

// vst is the state type of the VT constructors: a pointer to a message-like struct whose EqualVT compares the
// content. Every SetState passes a fresh pointer, so equal states are distinct under `==`: a container that
// compared with `==` instead of EqualVT would see a change. nil is the empty state (0).
type vst struct{ v int }

func (a *vst) EqualVT(b *vst) bool {
	if a == nil || b == nil {
		return a == b
	}
	return a.v == b.v
}

func mkVst(v int) *vst {
	if v == 0 {
		return nil
	}
	return &vst{v: v}
}

func vstVal(p *vst) int {
	if p == nil {
		return 0
	}
	return p.v
}

type vtSC struct {
	c *rt.StateRoutineContainer[*vst]
}

func (s vtSC) SetContext(ctx context.Context, restart bool) bool { return s.c.SetContext(ctx, restart) }
func (s vtSC) ClearContext() bool                                { return s.c.ClearContext() }
func (s vtSC) RestartRoutine() bool                              { return s.c.RestartRoutine() }
func (s vtSC) SetState(v int) (<-chan struct{}, bool, bool, bool) {
	return s.c.SetState(mkVst(v))
}
func (s vtSC) SetStateRoutine(fn rt.StateRoutine[int]) (<-chan struct{}, bool, bool) {
	if fn == nil {
		return s.c.SetStateRoutine(nil)
	}
	return s.c.SetStateRoutine(func(ctx context.Context, st *vst) error { return fn(ctx, vstVal(st)) })
}
func (s vtSC) SwapValue(cb func(int) int) (int, <-chan struct{}, bool, bool, bool) {
	var f func(*vst) *vst
	if cb != nil {
		// SwapValue itself compares the callback's result with `!=`: keep the pointer when the value is kept
		f = func(p *vst) *vst {
			k := cb(vstVal(p))
			if k == vstVal(p) {
				return p
			}
			return mkVst(k)
		}
	}
	next, ch, changed, reset, running := s.c.SwapValue(f)
	return vstVal(next), ch, changed, reset, running
}
func (s vtSC) GetState() int { return vstVal(s.c.GetState()) }
func (s vtSC) WaitExited(ctx context.Context, r bool, errCh <-chan error) error {
	return s.c.WaitExited(ctx, r, errCh)
}

type inst struct {
	k      int
	ctx    context.Context
	cmd    chan error // buffered 1
	told   bool
	outLog bool
}

type heldCh struct {
	id     int
	ch     <-chan struct{}
	closed bool
}

type root struct {
	ctx    context.Context
	cancel context.CancelFunc
}

type sbo struct {
	h   *H
	pat string
	pos int
	d   time.Duration
}

func (b *sbo) NextBackOff() time.Duration {
	c := byte('s')
	if len(b.pat) > 0 {
		i := b.pos
		if i >= len(b.pat) {
			i = len(b.pat) - 1
		}
		c = b.pat[i]
	}
	b.pos++
	if c == 'd' {
		b.h.log.Add("bo dur")
		b.h.tag("retry-armed")
		return b.d
	}
	b.h.log.Add("bo stop")
	return backoff.Stop
}

func (b *sbo) Reset() {
	b.pos = 0
	b.h.log.Add("bo reset")
}

// H is the per-scenario harness state.
type H struct {
	log    *hist.Log
	tagMu  sync.Mutex
	tagSet comp.TagSet
	state  bool
	rc     *rt.RoutineContainer
	sc     stateAPI

	mu     sync.Mutex
	insts  []*inst
	auto   bool
	chans  []*heldCh
	roots  map[int]*root
	active int
	d      time.Duration
}

func (h *H) tag(s string) {
	h.tagMu.Lock()
	h.tagSet.Add(s)
	h.tagMu.Unlock()
}

func (h *H) rootCtx(c int) context.Context {
	if c == 0 {
		return nil
	}
	h.mu.Lock()
	defer h.mu.Unlock()
	r := h.roots[c]
	if r == nil {
		ctx, cancel := context.WithCancel(context.WithValue(context.Background(), rootKey, c))
		r = &root{ctx: ctx, cancel: cancel}
		h.roots[c] = r
	}
	return r.ctx
}

// run is the body of every instance of the managed function.
func (h *H) run(ctx context.Context, f, arg int) error {
	h.mu.Lock()
	h.active++
	h.mu.Unlock()
	defer func() {
		h.mu.Lock()
		h.active--
		h.mu.Unlock()
	}()
	rootID, _ := ctx.Value(rootKey).(int)
	var in *inst
	var auto bool
	h.log.With(func(_ []int) []string {
		h.mu.Lock()
		defer h.mu.Unlock()
		in = &inst{k: len(h.insts), ctx: ctx, cmd: make(chan error, 1)}
		running := 0
		for _, o := range h.insts {
			if !o.outLog {
				running++
			}
		}
		if running > 0 {
			h.tag("overlap")
		}
		h.insts = append(h.insts, in)
		auto = h.auto
		// the entry line, and what the instance sees of its context on entry
		st := "live"
		if ctx.Err() != nil {
			st = "canceled"
		}
		return []string{fmt.Sprintf("cbin %d %d %d %d", in.k, f, arg, rootID), fmt.Sprintf("probe ctx %d %s", in.k, st)}
	})
	if ctx.Err() != nil {
		h.tag("entered-cancelled")
	}
	var out error
	if auto {
		select {
		case out = <-in.cmd:
		case <-ctx.Done():
			out = ctx.Err()
		}
	} else {
		out = <-in.cmd
	}
	h.log.With(func(_ []int) []string {
		h.mu.Lock()
		defer h.mu.Unlock()
		in.outLog = true
		return []string{fmt.Sprintf("cbout %d %s", in.k, errCode(out))}
	})
	return out
}

func (h *H) plainFn(f int) rt.Routine {
	if f == 0 {
		return nil
	}
	return func(ctx context.Context) error { return h.run(ctx, f, 0) }
}

func (h *H) stateFn(f int) rt.StateRoutine[int] {
	if f == 0 {
		return nil
	}
	return func(ctx context.Context, st int) error { return h.run(ctx, f, st) }
}

// running returns the instances that entered and have not logged their return, oldest first.
func (h *H) running() []*inst {
	h.mu.Lock()
	defer h.mu.Unlock()
	var out []*inst
	for _, in := range h.insts {
		if !in.outLog && !in.told {
			out = append(out, in)
		}
	}
	return out
}

func (h *H) probeCtxs() {
	h.mu.Lock()
	cur := append([]*inst(nil), h.insts...)
	h.mu.Unlock()
	for _, in := range cur {
		in := in
		h.log.With(func(_ []int) []string {
			h.mu.Lock()
			gone := in.outLog
			h.mu.Unlock()
			if gone {
				return nil
			}
			if in.ctx.Err() != nil {
				return []string{fmt.Sprintf("probe ctx %d canceled", in.k)}
			}
			return []string{fmt.Sprintf("probe ctx %d live", in.k)}
		})
	}
}

func (h *H) probeChans() {
	h.mu.Lock()
	cur := append([]*heldCh(nil), h.chans...)
	h.mu.Unlock()
	for _, c := range cur {
		c := c
		h.log.With(func(_ []int) []string {
			h.mu.Lock()
			defer h.mu.Unlock()
			if c.closed {
				return nil
			}
			select {
			case <-c.ch:
				c.closed = true
				return []string{fmt.Sprintf("probe w %d closed", c.id)}
			default:
				return []string{fmt.Sprintf("probe w %d open", c.id)}
			}
		})
	}
}

func (h *H) hold(id int, ch <-chan struct{}) {
	if ch == nil {
		return
	}
	h.mu.Lock()
	h.chans = append(h.chans, &heldCh{id: id, ch: ch})
	h.mu.Unlock()
}

// api executes one API step; returns false if the step is not an API step of this component.
func (h *H) api(f []string) bool {
	num := func(i int) int {
		if i >= len(f) {
			return 0
		}
		n, _ := strconv.Atoi(f[i])
		if n < 0 {
			n = 0
		}
		return n
	}
	mut := true
	switch f[0] {
	case "setctx", "clearctx":
		c, r := 0, false
		if f[0] == "setctx" {
			c, r = num(1)%4, num(2) != 0
		}
		ctx := h.rootCtx(c)
		id := h.log.Inv("setcontext %d %d", c, b2i(r))
		var res bool
		switch {
		case f[0] == "clearctx" && h.state:
			res = h.sc.ClearContext()
		case f[0] == "clearctx":
			res = h.rc.ClearContext()
		case h.state:
			res = h.sc.SetContext(ctx, r)
		default:
			res = h.rc.SetContext(ctx, r)
		}
		h.log.Ret(id, "bool %d", b2i(res))
		if res {
			h.tag("ctx-changed")
		}
	case "restart":
		id := h.log.Inv("restart")
		var res bool
		if h.state {
			res = h.sc.RestartRoutine()
		} else {
			res = h.rc.RestartRoutine()
		}
		h.log.Ret(id, "bool %d", b2i(res))
	case "setroutine":
		if h.state {
			return true
		}
		fn := num(1) % 3
		id := h.log.Inv("setroutine %d", fn)
		ch, reset := h.rc.SetRoutine(h.plainFn(fn))
		h.log.Ret(id, "setr %d %d", b2i(ch != nil), b2i(reset))
		h.hold(id, ch)
		if fn == 0 && ch != nil {
			h.tag("cleared-with-exit-channel")
		}
	case "setstate":
		if !h.state {
			return true
		}
		v := num(1) % 5
		id := h.log.Inv("setstate %d", v)
		ch, changed, reset, running := h.sc.SetState(v)
		h.log.Ret(id, "sets %d %d %d %d", b2i(ch != nil), b2i(changed), b2i(reset), b2i(running))
		h.hold(id, ch)
		if v == 0 && ch != nil {
			h.tag("cleared-with-exit-channel")
		}
	case "setsr":
		if !h.state {
			return true
		}
		fn := num(1) % 3
		id := h.log.Inv("setstateroutine %d", fn)
		ch, reset, running := h.sc.SetStateRoutine(h.stateFn(fn))
		h.log.Ret(id, "setsr %d %d %d", b2i(ch != nil), b2i(reset), b2i(running))
		h.hold(id, ch)
		if fn == 0 && ch != nil {
			h.tag("cleared-with-exit-channel")
		}
	case "swap":
		if !h.state {
			return true
		}
		var cb func(int) int
		arg := "nil"
		if len(f) > 1 && f[1] != "nil" {
			k := num(1) % 5
			arg = strconv.Itoa(k)
			cb = func(int) int { return k }
		}
		id := h.log.Inv("swap %s", arg)
		next, ch, changed, reset, running := h.sc.SwapValue(cb)
		h.log.Ret(id, "swapr %d %d %d %d %d", next, b2i(ch != nil), b2i(changed), b2i(reset), b2i(running))
		h.hold(id, ch)
	case "getstate":
		if !h.state {
			return true
		}
		mut = false
		id := h.log.Inv("getstate")
		v := h.sc.GetState()
		h.log.Ret(id, "state %d", v)
	default:
		return false
	}
	if mut {
		// what each running instance sees of its context now that the call has returned
		h.probeCtxs()
	}
	return true
}

// counter counts running actor goroutines (a WaitGroup must not be waited on with a timeout and then reused).
type counter struct {
	mu sync.Mutex
	n  int
}

func (c *counter) Add(d int) {
	c.mu.Lock()
	c.n += d
	c.mu.Unlock()
}

func (c *counter) Done() { c.Add(-1) }

func (c *counter) Zero() bool {
	c.mu.Lock()
	defer c.mu.Unlock()
	return c.n == 0
}

func (c *counter) WaitZero(max time.Duration) bool {
	deadline := time.Now().Add(max)
	for !c.Zero() {
		if time.Now().After(deadline) {
			return false
		}
		time.Sleep(100 * time.Microsecond)
	}
	return true
}

type wcall struct {
	cancel context.CancelFunc
	id     int
	ech    chan error // error channel given to WaitExited (nil: none)
	eshut  bool       // ech closed
}

// discardLogger is the logger given to the *WithLogger constructors (its exit callback logs every exit).
func discardLogger() *logrus.Entry {
	l := logrus.New()
	l.SetOutput(io.Discard)
	l.SetLevel(logrus.DebugLevel)
	return logrus.NewEntry(l)
}

func exec(state bool) func(script []string, opt comp.Options) comp.Result {
	return func(script []string, opt comp.Options) (res comp.Result) {
		log := hist.New()
		h := &H{log: log, tagSet: comp.TagSet{}, state: state, roots: map[int]*root{}, d: 4 * time.Millisecond}
		hk := hook.Install(opt.Seed, hook.Perturb{Prob: 0.3, MaxSleep: 120 * time.Microsecond})
		defer hk.Uninstall()
		rng := rand.New(rand.NewSource(opt.Seed ^ 0x70e1))

		// configuration
		cmp, retry, ncb, pat, ctor := 0, false, 0, "s", 0
		for _, step := range script {
			f := strings.Fields(step)
			if len(f) >= 5 && f[0] == "cfg" {
				cmp, _ = strconv.Atoi(f[2])
				retry = f[3] == "1"
				ncb, _ = strconv.Atoi(f[4])
				if len(f) > 5 {
					pat = f[5]
				}
				if len(f) > 6 {
					if ms, err := strconv.Atoi(f[6]); err == nil && ms > 0 && ms <= 50 {
						h.d = time.Duration(ms) * time.Millisecond
					}
				}
				if len(f) > 7 {
					ctor, _ = strconv.Atoi(f[7])
				}
				break
			}
		}
		if cmp < 0 || cmp > 2 {
			cmp = 0
		}
		if ncb < 0 || ncb > 3 {
			ncb = 0
		}
		if ctor < 0 || ctor > 3 || (!state && ctor > 1) {
			ctor = 0
		}
		if ctor >= 2 {
			cmp = 1 // the VT constructors compare with EqualVT: equality
		}
		if ctor != 0 {
			h.tag(fmt.Sprintf("ctor-%d", ctor))
		}
		var opts []rt.Option
		if retry {
			opts = append(opts, rt.WithBackoff(&sbo{h: h, pat: pat, d: h.d}))
		}
		for j := 0; j < ncb; j++ {
			j := j
			opts = append(opts, rt.WithExitCb(func(err error) { log.Add("exitcb %d %s", j, errCode(err)) }))
		}
		kind := "plain"
		if state {
			kind = "state"
			var cf func(a, b int) bool
			switch cmp {
			case 1:
				cf = func(a, b int) bool { return a == b }
			case 2:
				cf = func(a, b int) bool { return a%2 == b%2 }
			}
			switch ctor {
			case 1:
				h.sc = intSC{rt.NewStateRoutineContainerWithLogger[int](cf, discardLogger(), opts...)}
			case 2:
				h.sc = vtSC{rt.NewStateRoutineContainerVT[*vst](opts...)}
			case 3:
				h.sc = vtSC{rt.NewStateRoutineContainerWithLoggerVT[*vst](discardLogger(), opts...)}
			default:
				h.sc = intSC{rt.NewStateRoutineContainer[int](cf, opts...)}
			}
		} else if ctor == 1 {
			h.rc = rt.NewRoutineContainerWithLogger(discardLogger(), opts...)
		} else {
			h.rc = rt.NewRoutineContainer(opts...)
		}
		log.Add("cfg %s %d %d %d", kind, cmp, b2i(retry), ncb)

		unstable := false
		var gates []hook.Gate
		var wcalls []*wcall
		var actors counter
		stepStart := time.Now()
		var stepMu sync.Mutex
		stop := make(chan struct{})
		// watchdog: a director stuck behind one of its own gates opens them all
		go func() {
			t := time.NewTicker(20 * time.Millisecond)
			defer t.Stop()
			for {
				select {
				case <-stop:
					return
				case <-t.C:
					stepMu.Lock()
					stuck := time.Since(stepStart) > 400*time.Millisecond
					stepMu.Unlock()
					if stuck {
						for _, g := range gates {
							g.Open()
						}
					}
				}
			}
		}()
		quietFor := func() time.Duration {
			q := opt.Grace
			if retry {
				// a retry timer may be late under load: allow it three delays plus a margin on top of the grace period
				if 3*h.d > q {
					q = 3 * h.d
				}
				q += 15 * time.Millisecond
			}
			return q
		}
		defer func() {
			if r := recover(); r != nil {
				log.Add("harness panic %v", r)
				res = comp.Result{History: log.Lines(), Tags: []string{"harness-panic"}}
			}
		}()
		for _, step := range script {
			f := strings.Fields(step)
			if len(f) == 0 {
				continue
			}
			stepMu.Lock()
			stepStart = time.Now()
			stepMu.Unlock()
			if f[0] == "async" && len(f) > 1 {
				g := f[1:]
				switch g[0] {
				case "setctx", "clearctx", "restart", "setroutine", "setstate", "setsr", "swap", "getstate":
					actors.Add(1)
					h.tag("concurrent-actors")
					go func() {
						defer actors.Done()
						defer func() {
							if r := recover(); r != nil {
								log.Add("ret 0 panic")
							}
						}()
						h.api(g)
					}()
				}
				continue
			}
			func() {
				defer func() {
					if r := recover(); r != nil {
						log.Add("ret 0 panic")
						h.tag("panic")
					}
				}()
				if h.api(f) {
					return
				}
				switch f[0] {
				case "waitexited", "waitexitedc":
					r := len(f) > 1 && f[1] != "0"
					ctx, cancel := context.WithCancel(context.Background())
					w := &wcall{cancel: cancel}
					var ech <-chan error
					if len(f) > 2 && f[2] == "errch" {
						w.ech = make(chan error, 1)
						ech = w.ech
						h.tag("errch")
					}
					w.id = log.Inv("waitexited %d", b2i(r))
					wcalls = append(wcalls, w)
					if f[0] == "waitexitedc" {
						log.Add("env cancelw %d", w.id)
						cancel()
					}
					actors.Add(1)
					go func() {
						defer actors.Done()
						var err error
						if state {
							err = h.sc.WaitExited(ctx, r, ech)
						} else {
							err = h.rc.WaitExited(ctx, r, ech)
						}
						log.Ret(w.id, "wx %s", errCode(err))
					}()
				case "errch":
					// errch send <i> <e> | errch close <i>: act on the error channel of the i-th waitexited step
					if len(f) < 3 {
						return
					}
					i, _ := strconv.Atoi(f[2])
					if i < 0 || i >= len(wcalls) || wcalls[i].ech == nil || wcalls[i].eshut {
						return
					}
					w := wcalls[i]
					if f[1] == "close" {
						log.Add("env errch %d 0", w.id)
						w.eshut = true
						close(w.ech)
						h.tag("errch-closed")
					} else if len(w.ech) == 0 {
						e := 1
						if len(f) > 3 {
							e, _ = strconv.Atoi(f[3])
						}
						if e < 0 || e > 3 {
							e = 1
						}
						log.Add("env errch %d %d", w.id, e)
						w.ech <- errTab[e]
						h.tag("errch-sent")
					}
				case "cancelw":
					i, _ := strconv.Atoi(f[1])
					if i >= 0 && i < len(wcalls) {
						log.Add("env cancelw %d", wcalls[i].id)
						wcalls[i].cancel()
					}
				case "cancelroot":
					c, _ := strconv.Atoi(f[1])
					c %= 4
					if c > 0 {
						h.rootCtx(c)
						h.mu.Lock()
						r := h.roots[c]
						h.mu.Unlock()
						log.Add("env cancel %d", c)
						r.cancel()
						h.tag("root-cancelled")
					}
				case "join":
					actors.WaitZero(100 * time.Millisecond)
				case "exit":
					if len(f) < 3 {
						return
					}
					var in *inst
					for try := 0; try < 40 && in == nil; try++ {
						run := h.running()
						if len(run) > 0 {
							if f[1] == "new" {
								in = run[len(run)-1]
							} else {
								in = run[0]
							}
							if len(run) > 1 {
								h.tag("two-running")
							}
						} else {
							time.Sleep(100 * time.Microsecond)
						}
					}
					if in == nil {
						return
					}
					var out error
					switch f[2] {
					case "ok":
					case "ctx":
						out = in.ctx.Err()
						if out == nil {
							return
						}
						h.tag("exit-after-cancel")
					default:
						e := 1
						if len(f) > 3 {
							e, _ = strconv.Atoi(f[3])
						}
						if e < 0 || e > 3 {
							e = 1
						}
						out = errTab[e]
					}
					if in.ctx.Err() != nil {
						h.tag("exit-latency")
					}
					h.mu.Lock()
					in.told = true
					h.mu.Unlock()
					in.cmd <- out
				case "mode":
					h.mu.Lock()
					h.auto = len(f) > 1 && f[1] == "auto"
					h.mu.Unlock()
				case "gate":
					kind := "exec-start"
					if len(f) > 1 && f[1] == "hold" {
						kind = "hold-enter"
					}
					nth := 1
					if len(f) > 2 {
						if n, err := strconv.Atoi(f[2]); err == nil && n >= 1 && n <= 4 {
							nth = n
						}
					}
					gates = append(gates, hk.AddGate(kind, nil, nth))
				case "waitgate":
					i, _ := strconv.Atoi(f[1])
					if i >= 0 && i < len(gates) {
						if gates[i].WaitHit(60 * time.Millisecond) {
							h.tag("gate-held")
						}
					}
				case "open":
					i, _ := strconv.Atoi(f[1])
					if i >= 0 && i < len(gates) {
						gates[i].Open()
					}
				case "probe":
					h.probeCtxs()
					h.probeChans()
				case "pause":
					time.Sleep(time.Duration(rng.Intn(150)) * time.Microsecond)
				case "settle":
					comp.WaitQuiet(log, 2*time.Millisecond, 200*time.Millisecond)
				case "quiesce", "advance":
					for _, g := range gates {
						g.Open()
					}
					if !comp.WaitQuiet(log, quietFor(), 10*quietFor()) {
						unstable = true
					}
					if state {
						h.api([]string{"getstate"})
					}
					h.probeCtxs()
					h.probeChans()
					log.With(func(pending []int) []string {
						h.mu.Lock()
						defer h.mu.Unlock()
						parts := []string{"quiesce"}
						for _, p := range pending {
							parts = append(parts, strconv.Itoa(p))
						}
						parts = append(parts, "/")
						for _, in := range h.insts {
							if !in.outLog {
								parts = append(parts, strconv.Itoa(in.k))
							}
						}
						// … and those of them whose context is live at this very moment
						parts = append(parts, "/")
						for _, in := range h.insts {
							if !in.outLog && in.ctx.Err() == nil {
								parts = append(parts, strconv.Itoa(in.k))
							}
						}
						return []string{strings.Join(parts, " ")}
					})
				}
			}()
		}
		close(stop)
		comp.WaitQuiet(log, 2*time.Millisecond, 200*time.Millisecond)
		lines := log.Lines()

		// wind down: nothing may survive the scenario
		for _, g := range gates {
			g.Open()
		}
		h.mu.Lock()
		h.auto = true
		h.mu.Unlock()
		func() {
			defer func() { _ = recover() }()
			if state {
				h.sc.SetStateRoutine(nil)
				h.sc.ClearContext()
			} else {
				h.rc.SetRoutine(nil)
				h.rc.ClearContext()
			}
		}()
		for _, w := range wcalls {
			w.cancel()
		}
		h.mu.Lock()
		for _, r := range h.roots {
			r.cancel()
		}
		h.mu.Unlock()
		deadline := time.Now().Add(2 * time.Second)
		clean := false
		for time.Now().Before(deadline) {
			h.mu.Lock()
			for _, in := range h.insts {
				if !in.told {
					in.told = true
					in.cmd <- context.Canceled
				}
			}
			act := h.active
			h.mu.Unlock()
			adone := actors.Zero()
			if act == 0 && adone {
				clean = true
				break
			}
			time.Sleep(500 * time.Microsecond)
		}
		if !clean {
			h.tag("leaked-goroutine")
		}
		// let late retry timers and execute goroutines finish their (now ineffective) sections
		time.Sleep(200 * time.Microsecond)

		for _, l := range lines {
			switch {
			case strings.HasPrefix(l, "exitcb"):
				h.tag("exit-callback")
			case strings.HasPrefix(l, "ret") && strings.Contains(l, " wx "):
				h.tag("waitexited-returned")
			case strings.HasPrefix(l, "probe w") && strings.HasSuffix(l, "open"):
				h.tag("wait-channel-open")
			case strings.HasPrefix(l, "cbout") && !strings.HasSuffix(l, "nil"):
				h.tag("instance-error")
			}
		}
		h.tagMu.Lock()
		defer h.tagMu.Unlock()
		return comp.Result{History: lines, Tags: h.tagSet.List(), Unstable: unstable}
	}
}

func gen(state bool) func(rng *rand.Rand, tier string) []string {
	return func(rng *rand.Rand, tier string) []string {
		steps := 10 + rng.Intn(14)
		if tier == "thorough" {
			steps = 16 + rng.Intn(36)
		}
		kind := "plain"
		cmp := 0
		if state {
			kind = "state"
			cmp = rng.Intn(3)
		}
		retry := rng.Intn(5) < 2
		pats := []string{"s", "ds", "dds", "ds", "ddds"} // finite: a cancelled root context would otherwise be retried for ever
		ds := []int{2, 8, 12}
		ctor := 0 // which constructor builds the container
		if rng.Intn(4) == 0 {
			ctor = 1
			if state {
				ctor = 1 + rng.Intn(3)
			}
		}
		out := []string{fmt.Sprintf("cfg %s %d %d %d %s %d %d", kind, cmp, b2i(retry), rng.Intn(3), pats[rng.Intn(len(pats))], ds[rng.Intn(len(ds))], ctor)}
		multi := rng.Intn(3) == 0
		risky := rng.Intn(3) == 0 // (D16 and D14 are fixed) may clear the routine inside an exit latency (D16) or move a failed routine to a new context (D14)
		nwait, ngate := 0, 0
		nasync := 0
		as := func(s string) string {
			if multi && nasync < 3 && rng.Intn(2) == 0 {
				nasync++
				return "async " + s
			}
			return s
		}
		setR := func(allowClear bool) string {
			if state {
				switch rng.Intn(4) {
				case 0:
					f := 1 + rng.Intn(2)
					if allowClear && rng.Intn(4) == 0 {
						f = 0
					}
					return fmt.Sprintf("setsr %d", f)
				case 1:
					v := 1 + rng.Intn(4)
					if rng.Intn(4) == 0 {
						return "swap nil"
					}
					if allowClear && rng.Intn(5) == 0 {
						v = 0
					}
					return fmt.Sprintf("swap %d", v)
				default:
					v := 1 + rng.Intn(4)
					if allowClear && rng.Intn(5) == 0 {
						v = 0
					}
					return fmt.Sprintf("setstate %d", v)
				}
			}
			f := 1 + rng.Intn(2)
			if allowClear && rng.Intn(4) == 0 {
				f = 0
			}
			return fmt.Sprintf("setroutine %d", f)
		}
		setC := func() string {
			if rng.Intn(6) == 0 {
				return "clearctx"
			}
			c := 1 + rng.Intn(2)
			r := b2i(rng.Intn(3) == 0)
			if rng.Intn(12) == 0 {
				c = 0
			}
			return fmt.Sprintf("setctx %d %d", c, r)
		}
		exit := func() string {
			sel := "old"
			if rng.Intn(5) == 0 {
				sel = "new"
			}
			switch rng.Intn(6) {
			case 0:
				return "exit " + sel + " ok"
			case 1, 2:
				return fmt.Sprintf("exit %s err %d", sel, 1+rng.Intn(3))
			default:
				return "exit " + sel + " ctx"
			}
		}
		supersede := func() string {
			switch rng.Intn(6) {
			case 0, 1:
				return "restart"
			case 2:
				return setC()
			default:
				return setR(risky)
			}
		}
		if rng.Intn(5) != 0 {
			pre := []string{"setctx 1 0"}
			if state {
				pre = append(pre, "setsr 1", "setstate 1")
			} else {
				pre = append(pre, "setroutine 1")
			}
			rng.Shuffle(len(pre), func(i, j int) { pre[i], pre[j] = pre[j], pre[i] })
			out = append(out, pre...)
		}
		for len(out) < steps {
			if nasync > 0 && rng.Intn(2) == 0 {
				// at most two concurrent actors besides the director at a time
				out = append(out, "join")
				nasync = 0
			}
			r := rng.Intn(100)
			switch {
			case r < 22:
				// several supersessions inside one exit latency
				n := 2 + rng.Intn(2)
				for i := 0; i < n; i++ {
					out = append(out, as(supersede()))
				}
				if rng.Intn(2) == 0 {
					out = append(out, "probe")
				}
			case r < 30:
				out = append(out, as(supersede()))
			case r < 50:
				out = append(out, exit())
			case r < 55:
				// clear the routine only once the previous instance is gone
				out = append(out, "exit old ctx", "settle")
				if state {
					if rng.Intn(2) == 0 {
						out = append(out, "setstate 0")
					} else {
						out = append(out, "setsr 0")
					}
				} else {
					out = append(out, "setroutine 0")
				}
				out = append(out, "exit old ctx", "exit old ctx", "settle")
			case r < 53 && state:
				// SetStateRoutine parked between its two lock acquisitions while the state is changed
				v := 1 + rng.Intn(4)
				out = append(out, "join", "gate hold 2", fmt.Sprintf("async setsr %d", 1+rng.Intn(2)), fmt.Sprintf("waitgate %d", ngate))
				if rng.Intn(3) == 0 {
					out = append(out, fmt.Sprintf("async swap %d", v))
				} else {
					out = append(out, fmt.Sprintf("async setstate %d", v))
				}
				out = append(out, "settle", fmt.Sprintf("open %d", ngate), "join", "exit old ctx", "exit old ctx", "settle", "probe", "quiesce")
				ngate++
			case r < 56 && retry:
				// a failed routine waiting for its retry is replaced inside the backoff window
				out = append(out, fmt.Sprintf("exit old err %d", 1+rng.Intn(3)), "pause", setR(true), "advance", "probe")
				if rng.Intn(2) == 0 {
					out = append(out, "clearctx", "settle", "probe", "quiesce")
				}
			case r < 56 && !retry:
				// restart rules: let the instance fail or succeed, let that be recorded, then move the context
				out = append(out, exit(), "settle", fmt.Sprintf("setctx %d %d", 1+rng.Intn(2), rng.Intn(2)), "settle")
			case r < 58:
				out = append(out, fmt.Sprintf("cancelroot %d", 1+rng.Intn(2)))
			case r < 64:
				if rng.Intn(4) == 0 {
					out = append(out, fmt.Sprintf("waitexitedc %d", rng.Intn(2)))
				} else if rng.Intn(3) == 0 {
					out = append(out, fmt.Sprintf("waitexited %d errch", rng.Intn(2)))
				} else {
					out = append(out, fmt.Sprintf("waitexited %d", rng.Intn(2)))
				}
				nwait++
			case r < 67 && nwait > 0:
				switch rng.Intn(4) {
				case 0:
					out = append(out, fmt.Sprintf("errch send %d %d", rng.Intn(nwait), rng.Intn(4)))
				case 1:
					out = append(out, fmt.Sprintf("errch close %d", rng.Intn(nwait)))
				default:
					out = append(out, fmt.Sprintf("cancelw %d", rng.Intn(nwait)))
				}
			case r < 72:
				// hold a fresh execute goroutine at its start while it is superseded
				out = append(out, "gate exec", supersede(), fmt.Sprintf("waitgate %d", ngate), supersede(), fmt.Sprintf("open %d", ngate))
				ngate++
			case r < 78:
				// hold an instance between close(exitedCh) and its final critical section
				out = append(out, "gate hold", exit(), fmt.Sprintf("waitgate %d", ngate), supersede(), fmt.Sprintf("open %d", ngate))
				ngate++
			case r < 82:
				out = append(out, "probe")
			case r < 88:
				out = append(out, "settle")
			case r < 91:
				out = append(out, "pause")
			case r < 93 && state:
				out = append(out, as("getstate"))
			case r < 95:
				if rng.Intn(2) == 0 {
					out = append(out, "mode auto")
				} else {
					out = append(out, "mode hold")
				}
			default:
				out = append(out, "join", "quiesce")
			}
		}
		out = append(out, "join", "quiesce")
		if state {
			out = append(out, "getstate")
		}
		out = append(out, "exit old ctx", "exit old err 1", "quiesce", "exit old ok", "quiesce")
		return out
	}
}

func init() {
	comp.Register(&comp.Component{
		Name: "routine", Model: "routine", Gen: gen(false), Exec: exec(false),
		Corpus: [][]string{
			// D2: two restarts inside one exit latency
			{"cfg plain 0 0 1", "setctx 1 0", "setroutine 1", "settle", "restart", "restart", "settle", "probe", "quiesce", "exit old ctx", "quiesce", "exit old ok", "quiesce"},
			// D3: routine replaced while the context is nil keeps the predecessor's exit channel
			{"cfg plain 0 0 0", "setroutine 1", "setctx 1 0", "settle", "clearctx", "setroutine 2", "setctx 1 0", "settle", "probe", "quiesce", "exit old ctx", "quiesce", "exit old ok", "quiesce"},
			// three supersessions of different kinds, set/clear context around them
			{"cfg plain 0 0 2", "setctx 1 0", "setroutine 1", "settle", "setroutine 2", "clearctx", "setctx 2 0", "restart", "probe", "settle", "exit old err 1", "quiesce", "exit old ok", "quiesce"},
			// restart rules without retry: a failed routine is not re-run by SetContext(restart=false) but by restart=true;
			// a successful one by neither, only by RestartRoutine
			{"cfg plain 0 0 1", "setctx 1 0", "setroutine 1", "settle", "exit old err 2", "settle", "setctx 2 0", "settle", "quiesce", "setctx 2 1", "settle", "exit old ok", "settle", "quiesce", "setctx 1 0", "settle", "setctx 1 1", "settle", "setctx 2 1", "settle", "quiesce", "restart", "settle", "exit old ok", "quiesce"},
			// WaitExited with an already cancelled caller context must not disturb the container; ClearContext then stops the instance
			{"cfg plain 0 0 0", "setctx 1 0", "setroutine 1", "settle", "waitexitedc 0", "waitexitedc 1", "settle", "clearctx", "settle", "probe", "quiesce", "exit old ctx", "quiesce"},
			// retry with backoff: error, retry, error, retry, stop; restart; success resets
			{"cfg plain 0 1 2 dds 3", "setctx 1 0", "setroutine 1", "settle", "exit old err 1", "advance", "exit old err 2", "advance", "exit old err 3", "advance", "restart", "settle", "exit old ok", "advance", "restart", "settle", "exit old err 1", "advance", "exit old ok", "quiesce"},
			// WaitExited around exits and supersession
			{"cfg plain 0 0 1", "waitexited 0", "waitexited 1", "setctx 1 0", "setroutine 1", "settle", "waitexited 0", "waitexited 1", "restart", "exit old err 2", "settle", "quiesce", "exit old err 3", "quiesce", "waitexited 0", "cancelw 0", "quiesce"},
			// WaitExited with an error channel: an error sent on it / its closing ends the wait (routine.go:89-94)
			{"cfg plain 0 0 0", "waitexited 0 errch", "waitexited 0 errch", "waitexited 0 errch", "settle", "errch send 0 2", "errch close 1", "settle", "quiesce", "setctx 1 0", "setroutine 1", "settle", "errch send 2 0", "settle", "exit old err 3", "quiesce"},
			{"cfg plain 0 1 1 ds 4", "setctx 1 0", "setroutine 1", "settle", "waitexited 0 errch", "waitexited 1 errch", "settle", "errch send 0 3", "exit old err 1", "settle", "errch send 1 1", "advance", "errch close 0", "exit old ok", "quiesce"},
			// NewRoutineContainerWithLogger: the logging exit callback sees a failure, a cancellation and a success
			{"cfg plain 0 0 1 s 4 1", "setctx 1 0", "setroutine 1", "settle", "exit old err 2", "settle", "restart", "settle", "clearctx", "exit old ctx", "settle", "setctx 1 0", "settle", "exit old ok", "quiesce"},
			// an instance held before its final section while it is superseded twice
			{"cfg plain 0 1 1 d 3", "setctx 1 0", "setroutine 1", "settle", "gate hold", "exit old err 1", "waitgate 0", "restart", "setroutine 2", "open 0", "settle", "probe", "quiesce", "exit old ok", "quiesce"},
			// D16 (fixed 3b21148): routine cleared and set again inside the exit latency of the first instance
			{"cfg plain 0 0 0", "setctx 1 0", "setroutine 1", "settle", "setroutine 0", "setroutine 2", "settle", "probe", "quiesce", "exit old ctx", "exit old ok", "quiesce"},
			// D14 (fixed e3f7210): a failed routine waiting for its retry is moved to another context
			{"cfg plain 0 1 1 ds 20", "setctx 1 0", "setroutine 1", "settle", "exit old err 1", "settle", "setctx 2 0", "advance", "exit old ok", "quiesce"},
			// D17 (fixed 6779104): a retry timer that fired before stop() restarts a routine that has succeeded meanwhile
			{"cfg plain 0 1 1 ds 20", "setctx 1 0", "setroutine 1", "settle", "exit old err 1", "settle", "gate hold", "waitgate 0", "restart", "settle", "exit old ok", "settle", "open 0", "settle", "quiesce", "exit old ok", "quiesce"},
			// a retry timer that has fired waits for the lock while RestartRoutine runs: it must leave the new instance alone
			{"cfg plain 0 1 1 ds 20", "setctx 1 0", "setroutine 1", "settle", "exit old err 1", "settle", "gate hold", "waitgate 0", "restart", "settle", "open 0", "settle", "probe", "quiesce", "exit old ok", "quiesce"},
			// a healthy instance started after a failure is moved to a new context by SetContext(restart=false)
			{"cfg plain 0 0 1", "setctx 1 0", "setroutine 1", "settle", "exit old err 1", "settle", "restart", "settle", "probe", "setctx 2 0", "settle", "probe", "exit old ctx", "settle", "quiesce", "exit old ok", "quiesce"},
			// a failed routine waiting for its retry is replaced: its timer must not bring it back (beside the new one, or after ClearContext)
			{"cfg plain 0 1 1 ds 20", "setctx 1 0", "setroutine 1", "settle", "exit old err 1", "settle", "setroutine 2", "advance", "probe", "quiesce", "clearctx", "settle", "probe", "quiesce", "exit old ctx", "exit old ctx", "quiesce"},
			{"cfg plain 0 1 0 dds 20", "setctx 1 0", "setroutine 1", "settle", "exit old err 2", "settle", "setroutine 0", "advance", "probe", "quiesce", "setroutine 2", "settle", "exit old err 1", "settle", "setroutine 1", "restart", "advance", "probe", "quiesce", "exit old ctx", "exit old ok", "quiesce"},
			// a fresh execute goroutine held at its start, superseded, context cancelled by the environment
			{"cfg plain 0 0 1", "setctx 1 0", "gate exec", "setroutine 1", "waitgate 0", "restart", "open 0", "settle", "cancelroot 1", "restart", "waitexited 1", "exit old ctx", "quiesce", "setctx 2 0", "settle", "exit old ok", "quiesce"},
		},
	})
	comp.Register(&comp.Component{
		Name: "routine-state", Model: "routine", Gen: gen(true), Exec: exec(true),
		Corpus: [][]string{
			{"cfg state 1 0 1", "setsr 1", "setctx 1 0", "setstate 1", "settle", "setstate 2", "setstate 2", "swap 3", "swap nil", "getstate", "probe", "exit old ctx", "settle", "exit old ctx", "quiesce", "getstate", "exit old ok", "quiesce"},
			{"cfg state 2 0 0", "setctx 1 0", "setstate 1", "setsr 2", "settle", "setstate 3", "swap 5", "swap 2", "getstate", "settle", "exit old ctx", "quiesce", "getstate", "setsr 1", "exit old ctx", "quiesce"},
			// D16 (fixed 3b21148), state variant
			{"cfg state 1 0 0", "setctx 1 0", "setsr 1", "setstate 1", "settle", "setstate 0", "setstate 2", "settle", "probe", "quiesce", "exit old ctx", "exit old ok", "quiesce"},
			// D4: a state change must wake WaitExited (the inner container's broadcast, under the inner lock)
			{"cfg state 1 0 0", "setsr 1", "setctx 1 0", "setstate 1", "settle", "waitexited 1", "waitexited 0", "settle", "setstate 0", "settle", "quiesce", "exit old ctx", "quiesce", "cancelw 1", "quiesce"},
			{"cfg state 1 0 0", "setsr 1", "setctx 1 0", "setstate 1", "settle", "waitexited 0 errch", "waitexited 0 errch", "settle", "errch close 0", "settle", "setstate 0", "errch send 1 2", "settle", "quiesce", "exit old ctx", "quiesce"},
			// the other constructors of StateRoutineContainer: WithLogger, VT (compare = EqualVT), WithLoggerVT
			{"cfg state 2 0 1 s 4 1", "setsr 1", "setctx 1 0", "setstate 1", "settle", "setstate 3", "setstate 2", "settle", "exit old ctx", "settle", "exit old err 1", "quiesce", "getstate"},
			{"cfg state 0 0 0 s 4 2", "setsr 1", "setctx 1 0", "setstate 1", "settle", "setstate 1", "setstate 3", "settle", "exit old ctx", "settle", "swap 3", "swap 2", "settle", "exit old ctx", "quiesce", "setstate 0", "exit old ctx", "quiesce"},
			{"cfg state 0 1 1 ds 4 3", "setsr 2", "setctx 1 0", "setstate 2", "settle", "setstate 2", "exit old err 1", "advance", "setstate 4", "settle", "exit old ctx", "settle", "exit old ok", "quiesce"},
			// VT constructors: SetState with an equal (but distinct) message is no change — neither while the instance runs nor after it returned nil
			{"cfg state 0 0 1 s 4 3", "setsr 1", "setctx 1 0", "setstate 2", "settle", "setstate 2", "probe", "exit old ok", "settle", "setstate 2", "settle", "quiesce", "setstate 3", "settle", "setstate 3", "exit old ctx", "quiesce"},
			{"cfg state 0 0 0 s 4 2", "setsr 1", "setctx 1 0", "setstate 2", "settle", "setstate 2", "probe", "exit old ok", "settle", "setstate 2", "settle", "quiesce", "swap 2", "swap 4", "settle", "swap 4", "exit old ctx", "quiesce"},
			// a failed state routine waiting for its retry is replaced by a new state / a new function
			{"cfg state 1 1 0 ds 20", "setsr 1", "setctx 1 0", "setstate 1", "settle", "exit old err 2", "settle", "setstate 2", "advance", "probe", "quiesce", "clearctx", "settle", "probe", "quiesce", "exit old ctx", "exit old ctx", "quiesce"},
			{"cfg state 0 1 1 dds 20", "setctx 1 0", "setstate 1", "setsr 1", "settle", "exit old err 1", "settle", "setsr 2", "advance", "probe", "quiesce", "exit old err 3", "settle", "swap 3", "advance", "probe", "quiesce", "exit old ctx", "exit old ok", "quiesce"},
			// SetStateRoutine parked between the wrapper lock and the inner lock while SetState runs: whichever order the two
			// take effect, the surviving instance is given the stored state (snapshot + install are one section of the wrapper lock)
			{"cfg state 1 0 0", "setctx 1 0", "setsr 1", "setstate 1", "settle", "gate hold 2", "async setsr 2", "waitgate 0", "async setstate 2", "settle", "open 0", "join", "exit old ctx", "exit old ctx", "settle", "probe", "quiesce", "exit old ctx", "quiesce"},
			{"cfg state 0 0 1", "setctx 1 0", "setsr 1", "setstate 3", "settle", "gate hold 2", "async setsr 1", "waitgate 0", "async swap 4", "settle", "open 0", "join", "exit old ctx", "exit old ctx", "settle", "probe", "quiesce", "exit old ctx", "quiesce"},
			// concurrent SetState / SetContext / exits (D4)
			{"cfg state 0 0 1", "setsr 1", "setctx 1 0", "mode auto", "async setstate 1", "async setctx 2 0", "async setstate 2", "async setctx 1 1", "async setstate 3", "join", "quiesce", "getstate", "exit old ok", "quiesce"},
		},
	})
}
