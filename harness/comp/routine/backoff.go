//go:build verif

package routine

// Component "routine-backoff": correspondence of backoff.(*Backoff).Construct — the retry configuration of
// routine.WithRetry — with the Lean model UtilModel/Routine/Backoff.lean.
//
// Script step:
//
//	bo <kind> <init ms> <mult ‰> <maxint ms> <rand ‰> <maxel ms> <interval ms> [<t ms> ...]
//
// logs the configuration (`boconf …`), what GetEmpty / Validate(false) / Validate(true) say (`bovalid e v0 v1`), the
// exported fields of the constructed BackOff (`boparams expo|const …`), and for every t the answer of NextBackOff
// with a fake clock t ms after Reset (`bostop t 0|1`).
//
//	boretry <mode> <fails>
//
// runs a routine that fails <fails> times and then succeeds in a RoutineContainer built with
// routine.WithRetry(conf) (modes: see retryConf); logs the configuration and how often the routine ran
// (`boruns nil|<k i m x r e c> fails runs`).

import (
	"context"
	"errors"
	"fmt"
	"math"
	"math/rand"
	"strconv"
	"strings"
	"sync/atomic"
	"time"

	"github.com/aperturerobotics/util/backoff"
	rt "github.com/aperturerobotics/util/routine"
	cbackoff "github.com/cenkalti/backoff/v4"

	"verifharness/comp"
	"verifharness/hist"
)

type fakeClock struct{ t time.Time }

func (c *fakeClock) Now() time.Time { return c.t }

func ms(d time.Duration) int64 { return int64(d / time.Millisecond) }

func execBackoff(script []string, opt comp.Options) (res comp.Result) {
	log := hist.New()
	tags := comp.TagSet{}
	defer func() {
		if r := recover(); r != nil {
			log.Add("harness panic %v", r)
			res = comp.Result{History: log.Lines(), Tags: []string{"harness-panic"}}
		}
	}()
	for _, step := range script {
		f := strings.Fields(step)
		if len(f) == 3 && f[0] == "boretry" {
			mode, _ := strconv.Atoi(f[1])
			fails, _ := strconv.Atoi(f[2])
			if mode < 0 || mode > 7 || fails < 0 || fails > 4 {
				continue
			}
			if (mode == 3 || mode == 5) && fails > 1 {
				fails = 1 // default intervals (800 ms): keep the scenario short
			}
			conf, desc := retryConf(mode)
			runs := retryRuns(mode, conf, fails)
			tags.Add(fmt.Sprintf("with-retry-%d", mode))
			log.Add("boruns %s %d %d", desc, fails, runs)
			continue
		}
		if len(f) < 8 || f[0] != "bo" {
			continue
		}
		var v [7]uint32
		ok := true
		for i := 0; i < 7; i++ {
			n, err := strconv.ParseUint(f[1+i], 10, 32)
			if err != nil {
				ok = false
			}
			v[i] = uint32(n)
		}
		if !ok {
			continue
		}
		conf := &backoff.Backoff{BackoffKind: backoff.BackoffKind(v[0])}
		if v[1] != 0 || v[2] != 0 || v[3] != 0 || v[4] != 0 || v[5] != 0 {
			conf.Exponential = &backoff.Exponential{
				InitialInterval:     v[1],
				Multiplier:          float32(v[2]) / 1000,
				MaxInterval:         v[3],
				RandomizationFactor: float32(v[4]) / 1000,
				MaxElapsedTime:      v[5],
			}
		}
		if v[6] != 0 {
			conf.Constant = &backoff.Constant{Interval: v[6]}
		}
		log.Add("boconf %d %d %d %d %d %d %d", v[0], v[1], v[2], v[3], v[4], v[5], v[6])
		log.Add("bovalid %d %d %d", b2i(conf.GetEmpty()), b2i(conf.Validate(false) == nil), b2i(conf.Validate(true) == nil))
		if conf.Validate(false) != nil {
			tags.Add("invalid-config")
		}
		bo := conf.Construct()
		var next func(t int64) bool
		switch b := bo.(type) {
		case *cbackoff.ExponentialBackOff:
			log.Add("boparams expo %d %d %d %d %d", ms(b.InitialInterval), int64(math.Round(b.Multiplier*1000)),
				ms(b.MaxInterval), int64(math.Round(b.RandomizationFactor*1000)), ms(b.MaxElapsedTime))
			tags.Add("expo")
			if v[5] == 0 {
				tags.Add("retry-for-ever")
			}
			fc := &fakeClock{t: time.Unix(1000, 0)}
			b.Clock = fc
			next = func(t int64) bool {
				b.Reset()
				fc.t = fc.t.Add(time.Duration(t) * time.Millisecond)
				return b.NextBackOff() == b.Stop
			}
		case *cbackoff.ConstantBackOff:
			log.Add("boparams const %d", ms(b.Interval))
			tags.Add("constant")
			next = func(int64) bool { return b.NextBackOff() == cbackoff.Stop }
		default:
			log.Add("boparams unknown")
		}
		for _, ts := range f[8:] {
			t, err := strconv.ParseInt(ts, 10, 64)
			if err != nil || t < 0 || next == nil {
				continue
			}
			stop := next(t)
			if stop {
				tags.Add("stop")
			}
			if t > 900000 {
				tags.Add("beyond-15-min")
			}
			log.Add("bostop %d %d", t, b2i(stop))
		}
	}
	return comp.Result{History: log.Lines(), Tags: tags.List()}
}

// retryConf is the configuration given to routine.WithRetry in mode m, and how it is logged (`nil` or the seven
// numbers of a `boconf` line): 0 nil; 1 / 2 explicit EXPONENTIAL / CONSTANT kind with 1 ms intervals; 3 the empty
// message; 4 kind unset with exponential parameters; 5 kind unset with constant parameters only (Construct builds
// the exponential backoff in 3-5); 6 = 4 after an earlier WithBackoff option; 7 = nil after an earlier WithBackoff.
func retryConf(m int) (*backoff.Backoff, string) {
	var conf *backoff.Backoff
	switch m {
	case 1:
		conf = &backoff.Backoff{BackoffKind: backoff.BackoffKind_BackoffKind_EXPONENTIAL,
			Exponential: &backoff.Exponential{InitialInterval: 1, Multiplier: 1, MaxInterval: 2}}
	case 2:
		conf = &backoff.Backoff{BackoffKind: backoff.BackoffKind_BackoffKind_CONSTANT, Constant: &backoff.Constant{Interval: 1}}
	case 3:
		conf = &backoff.Backoff{}
	case 4, 6:
		conf = &backoff.Backoff{Exponential: &backoff.Exponential{InitialInterval: 1, Multiplier: 1, MaxInterval: 2}}
	case 5:
		conf = &backoff.Backoff{Constant: &backoff.Constant{Interval: 1}}
	}
	if conf == nil {
		return nil, "nil"
	}
	e, c := conf.GetExponential(), conf.GetConstant()
	return conf, fmt.Sprintf("%d %d %d %d %d %d %d", conf.GetBackoffKind(), e.GetInitialInterval(),
		int64(math.Round(float64(e.GetMultiplier())*1000)), e.GetMaxInterval(),
		int64(math.Round(float64(e.GetRandomizationFactor())*1000)), e.GetMaxElapsedTime(), c.GetInterval())
}

// retryRuns builds a RoutineContainer with routine.WithRetry(conf) — in modes 6 and 7 after a WithBackoff option —
// and counts the runs of a routine that fails `fails` times before it succeeds.
func retryRuns(mode int, conf *backoff.Backoff, fails int) int {
	var cnt atomic.Int32
	var opts []rt.Option
	if mode >= 6 {
		opts = append(opts, rt.WithBackoff(cbackoff.NewConstantBackOff(time.Millisecond)))
	}
	opts = append(opts, rt.WithRetry(conf))
	rc := rt.NewRoutineContainer(opts...)
	rc.SetRoutine(func(ctx context.Context) error {
		if int(cnt.Add(1)) <= fails {
			return errors.New("fail")
		}
		return nil
	})
	ctx, cancel := context.WithCancel(context.Background())
	defer cancel()
	rc.SetContext(ctx, false)
	want := 1
	if conf != nil {
		want = fails + 1
	}
	deadline := time.Now().Add(2500 * time.Millisecond)
	for int(cnt.Load()) < want && time.Now().Before(deadline) {
		time.Sleep(200 * time.Microsecond)
	}
	// nothing may run it again afterwards
	time.Sleep(15 * time.Millisecond)
	n := int(cnt.Load())
	rc.ClearContext()
	return n
}

func genBackoff(rng *rand.Rand, tier string) []string {
	pick := func(xs ...int) int { return xs[rng.Intn(len(xs))] }
	n := 2 + rng.Intn(4)
	var out []string
	for i := 0; i < n; i++ {
		kind := pick(0, 1, 1, 1, 2, 3)
		line := fmt.Sprintf("bo %d %d %d %d %d %d %d", kind, pick(0, 0, 5, 800, 1200), pick(0, 0, 1500, 2000, 1250),
			pick(0, 0, 50, 20000, 60000), pick(0, 0, 500, 250), pick(0, 0, 0, 1000, 60000, 900000, 2000000), pick(0, 0, 5000, 7))
		for j := rng.Intn(5); j > 0; j-- {
			line += fmt.Sprintf(" %d", pick(0, 500, 60000, 899000, 900001, 1000000, 2100000, 5000000))
		}
		out = append(out, line)
	}
	if rng.Intn(3) == 0 {
		m := []int{0, 1, 2, 4, 4, 6, 7, 1, 2, 3, 5}[rng.Intn(11)]
		out = append(out, fmt.Sprintf("boretry %d %d", m, rng.Intn(4)))
	}
	return out
}

func init() {
	comp.Register(&comp.Component{
		Name: "routine-backoff", Model: "backoff", Gen: genBackoff, Exec: execBackoff,
		Corpus: [][]string{
			// the routine.WithRetry default: exponential, no max_elapsed_time: never Stop, also after 15 minutes and much later
			{"bo 1 0 0 0 0 0 0 0 60000 900001 1000000 5000000 100000000"},
			{"bo 0 800 1800 20000 0 0 0 900001 3600000", "bo 1 5 2000 50 500 0 0 1000000"},
			// a configured limit is honoured exactly
			{"bo 1 5 1500 50 0 1000 0 0 500 1001 60000", "bo 1 0 0 0 0 900000 0 899000 900001"},
			// constant backoff and unknown kinds
			{"bo 2 0 0 0 0 0 0 0 5000000", "bo 2 0 0 0 0 0 7 1000000", "bo 3 0 0 0 250 0 0 1000000"},
			// routine.WithRetry with real configurations, and with nil
			{"boretry 1 3", "boretry 0 2", "boretry 2 2", "boretry 1 0", "boretry 0 0"},
			// a configuration whose kind is unset is an exponential one, not "no retry"; a later WithRetry replaces an earlier WithBackoff
			{"boretry 4 3", "boretry 3 1", "boretry 5 1", "boretry 6 2", "boretry 7 2"},
		},
	})
}
