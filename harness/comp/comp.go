// Package comp defines the interface between scenario interpreters and the vharness command.
package comp

import (
	"math/rand"
	"sort"
	"time"

	"verifharness/hist"
)

// Result is what executing one scenario produced.
type Result struct {
	// History is the observable history, one event per line.
	History []string
	// Tags name the interesting situations the run reached (coverage classes).
	Tags []string
	// Unstable is set when the run violated the harness' own timing discipline
	// (it is then re-run, never compared).
	Unstable bool
}

// Options are per-run knobs.
type Options struct {
	Seed int64
	// Grace is the quiescence grace period.
	Grace time.Duration
	// Tier is "quick" or "thorough".
	Tier string
}

// Component is one scenario interpreter.
type Component struct {
	// Name is the harness-side name.
	Name string
	// Model is the name of the Lean model that decides the histories.
	Model string
	// Gen generates a script (one step per line) from the PRNG.
	Gen func(rng *rand.Rand, tier string) []string
	// Exec runs a script against the real implementation.
	Exec func(script []string, opt Options) Result
	// Corpus are fixed scripts that always run first (minimized past failures, defect replays).
	Corpus [][]string
}

var registry = map[string]*Component{}

// Register registers a component.
func Register(c *Component) { registry[c.Name] = c }

// Get looks up a component.
func Get(name string) *Component { return registry[name] }

// Names lists the registered components.
func Names() []string {
	var out []string
	for k := range registry {
		out = append(out, k)
	}
	sort.Strings(out)
	return out
}

// WaitQuiet waits until the log has not grown for the grace period (polling) or max elapsed.
// Returns false if it gave up after max.
func WaitQuiet(l *hist.Log, grace, max time.Duration) bool {
	start := time.Now()
	last := l.Len()
	since := time.Now()
	for {
		time.Sleep(grace / 8)
		n := l.Len()
		if n != last {
			last = n
			since = time.Now()
		} else if time.Since(since) >= grace {
			return true
		}
		if time.Since(start) > max {
			return false
		}
	}
}

// TagSet collects tags.
type TagSet map[string]bool

// Add adds a tag.
func (t TagSet) Add(s string) { t[s] = true }

// List returns the sorted tags.
func (t TagSet) List() []string {
	var out []string
	for k := range t {
		out = append(out, k)
	}
	sort.Strings(out)
	return out
}
