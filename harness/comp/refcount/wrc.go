//go:build verif

package refcount

// Component refcount-wrc: refcount.WaitRefCountContainer over a `target` and a `targetErr` container that
// the harness drives directly (SetValue, as RefCount.resolve / clearResolvedState do).
//
//	config e              first line: targetErr container given 0|1
//	wrc                   start WaitRefCountContainer(ctx_j, target, targetErr) in a goroutine
//	sett v                target.SetValue(v)            (skipped while the harness holds target's lock)
//	sete e                targetErr.SetValue(&err_e) / SetValue(nil) for e = 0; error ids 1..3, 9 = context.Canceled
//	lock | unlock         hold / release the lock of target's Broadcast (a SwapValue callback that blocks)
//	cancelcall j          cancel the context of the j-th wrc step
//	pause | settle | quiesce
//
// History: cfg e / env sett v / env sete e / env lock / env unlock / inv a wrc / ret a wrc v e /
// env cancelcall a / quiesce ids.

import (
	"context"
	"fmt"
	"math/rand"
	"strings"
	"sync"
	"time"

	"github.com/aperturerobotics/util/ccontainer"
	"github.com/aperturerobotics/util/refcount"

	"verifharness/comp"
	"verifharness/hist"
	"verifharness/hook"
)

func execWrc(script []string, opt comp.Options) comp.Result {
	log := hist.New()
	tags := comp.TagSet{}
	h := hook.Install(opt.Seed, hook.Perturb{Prob: 0.3, MaxSleep: 120 * time.Microsecond})
	defer h.Uninstall()
	rng := rand.New(rand.NewSource(opt.Seed ^ 0x3c1))

	hasE := 1
	if len(script) > 0 {
		if f := strings.Fields(script[0]); len(f) == 2 && f[0] == "config" {
			hasE = atoi(f[1]) % 2
		}
	}
	tgt := ccontainer.NewCContainer[int](0)
	var terr *ccontainer.CContainer[*error]
	if hasE != 0 {
		terr = ccontainer.NewCContainer[*error](nil)
	}
	log.Add("cfg %d", hasE)

	var wg sync.WaitGroup
	var cancels []context.CancelFunc
	var ids []int
	var release chan struct{} // non-nil while the harness holds target's lock
	var lockDone chan struct{}
	unlock := func(logIt bool) {
		if release == nil {
			return
		}
		if logIt {
			log.Add("env unlock")
		}
		close(release)
		<-lockDone
		release, lockDone = nil, nil
	}

	for _, step := range script {
		f := strings.Fields(step)
		if len(f) == 0 {
			continue
		}
		switch f[0] {
		case "config":
		case "wrc":
			ctx, cancel := context.WithCancel(context.Background())
			cancels = append(cancels, cancel)
			id := log.Inv("wrc")
			ids = append(ids, id)
			wg.Add(1)
			go func() {
				defer wg.Done()
				defer func() {
					if r := recover(); r != nil {
						tags.Add("panic")
						log.Ret(id, "panic")
					}
				}()
				v, err := refcount.WaitRefCountContainer(ctx, tgt, terr)
				log.Ret(id, "wrc %d %d", v, errID(err))
			}()
		case "sett":
			if len(f) < 2 || release != nil {
				continue
			}
			v := atoi(f[1])
			log.Add("env sett %d", v)
			tgt.SetValue(v)
		case "sete":
			if len(f) < 2 || terr == nil {
				continue
			}
			e := atoi(f[1])
			if e != 9 {
				e %= 4
			}
			log.Add("env sete %d", e)
			if e == 0 {
				terr.SetValue(nil)
			} else {
				err := errOf(e)
				terr.SetValue(&err)
			}
		case "lock":
			if release != nil {
				continue
			}
			release, lockDone = make(chan struct{}), make(chan struct{})
			entered := make(chan struct{})
			rel, dn := release, lockDone
			go func() {
				defer close(dn)
				tgt.SwapValue(func(v int) int {
					close(entered)
					<-rel
					return v
				})
			}()
			select {
			case <-entered:
				log.Add("env lock")
			case <-time.After(2 * time.Second):
				// cannot happen: nobody else holds the lock for long
				tags.Add("lock-timeout")
				return comp.Result{History: log.Lines(), Tags: tags.List(), Unstable: true}
			}
		case "unlock":
			unlock(true)
		case "cancelcall":
			if len(f) < 2 || atoi(f[1]) >= len(cancels) {
				continue
			}
			j := atoi(f[1])
			log.Add("env cancelcall %d", ids[j])
			cancels[j]()
		case "pause":
			time.Sleep(time.Duration(rng.Intn(150)) * time.Microsecond)
		case "settle":
			comp.WaitQuiet(log, 2*time.Millisecond, 200*time.Millisecond)
		case "quiesce":
			comp.WaitQuiet(log, opt.Grace, 10*opt.Grace)
			if log.NumPending() > 0 {
				tags.Add("blocked-at-quiesce")
			}
			log.Quiesce()
		}
	}
	comp.WaitQuiet(log, 2*time.Millisecond, 200*time.Millisecond)
	lines := log.Lines()
	// wind down
	unlock(false)
	for _, c := range cancels {
		c()
	}
	done := make(chan struct{})
	go func() { wg.Wait(); close(done) }()
	select {
	case <-done:
	case <-time.After(2 * time.Second):
		tags.Add("leaked-goroutine")
	}
	for _, l := range lines {
		switch {
		case strings.HasPrefix(l, "ret ") && strings.HasSuffix(l, " 0"):
			tags.Add("wrc-value")
		case strings.HasPrefix(l, "ret ") && strings.HasSuffix(l, " 9"):
			tags.Add("wrc-canceled")
		case strings.HasPrefix(l, "ret "):
			tags.Add("wrc-error")
		case l == "env lock":
			tags.Add("target-lock-held")
		}
	}
	return comp.Result{History: lines, Tags: tags.List()}
}

func genWrc(rng *rand.Rand, tier string) []string {
	steps := 8 + rng.Intn(14)
	if tier == "thorough" {
		steps = 14 + rng.Intn(26)
	}
	out := []string{fmt.Sprintf("config %d", []int{1, 1, 1, 0}[rng.Intn(4)])}
	n, locked, nv := 0, false, 0
	for i := 0; i < steps; i++ {
		r := rng.Intn(100)
		switch {
		case r < 22 && n < 3:
			out = append(out, "wrc")
			n++
		case r < 36:
			nv++
			out = append(out, fmt.Sprintf("sett %d", []int{nv, nv, 0}[rng.Intn(3)]))
		case r < 54:
			out = append(out, fmt.Sprintf("sete %d", []int{1, 2, 3, 9, 0, 0}[rng.Intn(6)]))
		case r < 62 && !locked:
			out = append(out, "lock")
			locked = true
		case r < 72 && locked:
			out = append(out, "unlock")
			locked = false
		case r < 78 && n > 0:
			out = append(out, fmt.Sprintf("cancelcall %d", rng.Intn(n)))
		case r < 84:
			out = append(out, "pause")
		case r < 92:
			out = append(out, "settle")
		default:
			out = append(out, "quiesce")
		}
	}
	if locked {
		out = append(out, "unlock")
	}
	out = append(out, "quiesce")
	return out
}

func init() {
	comp.Register(&comp.Component{
		Name: "refcount-wrc", Model: "refcount-wrc", Gen: genWrc, Exec: execWrc,
		Corpus: [][]string{
			// the error reaches targetErr while the waiter is still on its way to its select (it waits for the
			// lock of target): the helper's hand-over must not be lost (seed C10-c2)
			{"config 1", "lock", "wrc", "settle", "sete 1", "settle", "unlock", "quiesce"},
			// the error is there before the call starts, with and without the lock being held
			{"config 1", "sete 2", "wrc", "quiesce", "lock", "wrc", "settle", "unlock", "quiesce"},
			// value first; error then value; error cleared before anyone looks; context.Canceled as the error
			{"config 1", "wrc", "quiesce", "sett 1", "quiesce", "sett 0", "wrc", "sete 3", "quiesce", "sete 0", "wrc", "quiesce", "sete 9", "quiesce"},
			// no targetErr container: value or the caller's context
			{"config 0", "wrc", "wrc", "quiesce", "cancelcall 0", "quiesce", "sett 4", "quiesce"},
			// cancelled while the lock is held, value set afterwards
			{"config 1", "wrc", "settle", "lock", "wrc", "cancelcall 0", "cancelcall 1", "settle", "unlock", "quiesce", "sett 2", "wrc", "quiesce"},
		},
	})
}
