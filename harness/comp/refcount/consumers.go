//go:build verif

package refcount

import (
	"context"
	"errors"
	"fmt"
	"math/rand"
	"time"

	"github.com/aperturerobotics/util/promise"

	"verifharness/comp"
)

// errors returned by Access callbacks (ids 4..6; resolver errors are 1..3, Canceled is 9)
var cbErrTab = []error{errors.New("c4"), errors.New("c5"), errors.New("c6")}

func cbErrOf(i int) error {
	if i >= 4 && i <= 6 {
		return cbErrTab[i-4]
	}
	return nil
}

func consErrID(err error) int {
	if err == nil {
		return 0
	}
	for i, e := range cbErrTab {
		if errors.Is(err, e) {
			return 4 + i
		}
	}
	return errID(err)
}

// probeAccess logs, for every Access callback that is in progress, whether its context is cancelled.
func (w *world) probeAccess(cons []*consumer) {
	for _, c := range cons {
		c.mu.Lock()
		for _, cb := range c.cbs {
			if cb.ctx != nil && !cb.done {
				w.log.Add("probe accessctx %d %d %d", c.id, cb.n, b2i(cb.ctx.Err() != nil))
			}
		}
		c.mu.Unlock()
	}
}

// probePromise logs the content of the promise container of every AddRefPromise step (non-blocking).
func (w *world) probePromise(cons []*consumer) {
	for _, c := range cons {
		c.mu.Lock()
		pc := c.prom
		c.mu.Unlock()
		if pc == nil {
			continue
		}
		p, _ := pc.GetPromise()
		if p == nil {
			w.log.Add("probe promise %d 0 0 0", c.id)
			continue
		}
		// AddRefPromise only ever stores results, so the promise is resolved: Await returns at once
		ctx, cancel := context.WithTimeout(context.Background(), watchdog)
		v, err := p.Await(ctx)
		timedOut := ctx.Err() != nil
		cancel()
		if timedOut {
			w.tags.Add("promise-unresolved")
		}
		w.log.Add("probe promise %d 1 %d %d", c.id, v, consErrID(err))
	}
}

func (w *world) consumerStep(op string, f []string, async bool, refs *[]*refHolder, cons *[]*consumer, guard func(int)) {
	log := w.log
	switch op {
	case "access":
		ctx, cancel := context.WithCancel(context.Background())
		c := &consumer{cancel: cancel}
		c.id = log.Inv("access")
		*cons = append(*cons, c)
		*refs = append(*refs, &refHolder{id: c.id}) // keeps `release i` indices aligned; never releasable
		id := c.id
		cb := func(cbCtx context.Context, val int) error {
			c.mu.Lock()
			e := &accessCb{n: len(c.cbs), retCh: make(chan int, 1), ctx: cbCtx}
			log.Add("cbin access %d %d %d", id, e.n, val)
			c.cbs = append(c.cbs, e)
			c.mu.Unlock()
			r := 0
			var ret error
			select {
			case r = <-e.retCh:
				switch r {
				case 9:
					// a context-aware callback: it reports the state of its own context (Canceled once the
					// value it was given has been invalidated, nil before)
					ret = cbCtx.Err()
					r = consErrID(ret)
				case 10:
					// context.Canceled of the callback's own making
					ret, r = context.Canceled, 9
				default:
					ret = cbErrOf(r)
				}
				log.Add("cbout access %d %d %d", id, e.n, r)
			case <-w.stop:
			}
			c.mu.Lock()
			e.done = true
			c.mu.Unlock()
			return ret
		}
		w.call(true, func() {
			defer guard(id)
			err := w.rc.Access(ctx, cb)
			log.Ret(id, "cons 0 %d", consErrID(err))
		})
	case "cbreturn":
		if len(f) < 4 || atoi(f[1]) >= len(*cons) {
			return
		}
		c := (*cons)[atoi(f[1])]
		n := atoi(f[2])
		var e *accessCb
		for i := 0; i < 40 && e == nil; i++ {
			c.mu.Lock()
			if n < len(c.cbs) {
				e = c.cbs[n]
			}
			c.mu.Unlock()
			if e == nil {
				time.Sleep(100 * time.Microsecond)
			}
		}
		if e == nil {
			return
		}
		r := atoi(f[3])
		if r != 0 && (r < 4 || r > 6) && r != 9 && r != 10 {
			r = 4
		}
		select {
		case e.retCh <- r:
		default:
		}
	case "cancelcall":
		if len(f) < 2 || atoi(f[1]) >= len(*cons) {
			return
		}
		c := (*cons)[atoi(f[1])]
		log.Add("env cancelcall %d", c.id)
		c.cancel()
	case "addrefpromise":
		// the call stays pending in the history: its reference is held until the end of the scenario and
		// its promise keeps following the value
		c := &consumer{cancel: func() {}}
		c.id = log.Inv("promise")
		*cons = append(*cons, c)
		*refs = append(*refs, &refHolder{id: c.id}) // keeps `release i` indices aligned; never releasable
		id := c.id
		w.call(async, func() {
			defer guard(id)
			p, ref := w.rc.AddRefPromise()
			c.mu.Lock()
			c.prom, _ = p.(*promise.PromiseContainer[int])
			c.pref = ref
			c.mu.Unlock()
		})
	case "wait", "resolve", "rwr":
		ctx, cancel := context.WithCancel(context.Background())
		c := &consumer{cancel: cancel}
		hld := &refHolder{}
		withCb := len(f) > 1 && f[1] == "1"
		switch op {
		case "rwr":
			c.id = log.Inv("rwr %d", b2i(withCb))
		default:
			c.id = log.Inv("%s", op)
		}
		hld.id = c.id
		*cons = append(*cons, c)
		*refs = append(*refs, hld)
		id := c.id
		w.call(true, func() {
			defer guard(id)
			switch op {
			case "wait":
				val, ref, err := w.rc.Wait(ctx)
				log.Ret(id, "cons %d %d", val, consErrID(err))
				if err == nil {
					hld.mu.Lock()
					hld.ref = ref
					hld.mu.Unlock()
				}
			case "resolve":
				val, rel, err := w.rc.Resolve(ctx)
				log.Ret(id, "cons %d %d", val, consErrID(err))
				if err == nil {
					hld.mu.Lock()
					hld.rel = rel
					hld.mu.Unlock()
				}
			case "rwr":
				var released func()
				if withCb {
					released = func() { log.Add("cbin released %d", id) }
				}
				val, rel, err := w.rc.ResolveWithReleased(ctx, released)
				log.Ret(id, "cons %d %d", val, consErrID(err))
				if err == nil {
					hld.mu.Lock()
					hld.rel = rel
					hld.mu.Unlock()
				}
			}
		})
	}
}

func genConsumers(rng *rand.Rand, tier string) []string {
	steps := 12 + rng.Intn(14)
	if tier == "thorough" {
		steps = 18 + rng.Intn(24)
	}
	out := []string{fmt.Sprintf("config %d 1 1", rng.Intn(2))}
	nrefs, ncons, nent := 0, 0, 0
	zeroUsed := false // at most one entry returns the zero value with a nil error: then the value names its entry
	var accs []int // consumer indices that are Access calls
	nprom := 0
	ncb := map[int]int{}
	if rng.Intn(3) > 0 {
		out = append(out, "addref rec")
		nrefs++
		nent++
	}
	for i := 0; i < steps; i++ {
		r := rng.Intn(100)
		switch {
		case r < 12 && len(accs) < 2:
			out = append(out, "access")
			accs = append(accs, ncons)
			ncons++
			nrefs++
			nent++
		case r < 20 && ncons-len(accs) < 2:
			out = append(out, []string{"wait", "resolve", "rwr 1", "rwr 1", "rwr 0"}[rng.Intn(5)])
			ncons++
			nrefs++
			nent++
		case r < 23 && nprom == 0 && ncons-len(accs) < 2:
			out = append(out, "addrefpromise")
			nprom++
			ncons++
			nrefs++
			nent++
		case r < 26:
			out = append(out, "addref "+[]string{"rec", "rec", "quiet", "nil"}[rng.Intn(4)])
			nrefs++
			nent++
		case r < 36 && nrefs > 0:
			out = append(out, fmt.Sprintf("release %d", rng.Intn(nrefs)))
		case r < 41:
			out = append(out, fmt.Sprintf("setctx %d", 1+rng.Intn(3)))
			nent++
		case r < 43:
			out = append(out, "clearctx")
		case r < 58 && nent > 0:
			e := 0
			if rng.Intn(6) == 0 {
				e = []int{1, 2, 3, 9}[rng.Intn(4)]
			}
			val := "v"
			if e == 0 && !zeroUsed && rng.Intn(5) == 0 {
				val, zeroUsed = "0", true
			} else if e != 0 && rng.Intn(3) == 0 {
				val = "0"
			}
			out = append(out, fmt.Sprintf("return %d %s %d %d", rng.Intn(nent), val, b2i(rng.Intn(6) != 0), e))
		case r < 70 && nent > 0:
			out = append(out, fmt.Sprintf("released %d", rng.Intn(nent)))
			nent++
		case r < 82 && len(accs) > 0:
			j := accs[rng.Intn(len(accs))]
			e := 0
			if rng.Intn(3) == 0 {
				e = []int{4, 5, 6, 9, 9, 10}[rng.Intn(6)]
			}
			out = append(out, fmt.Sprintf("cbreturn %d %d %d", j, ncb[j], e))
			if rng.Intn(3) > 0 {
				ncb[j]++
			}
		case r < 85 && ncons > 0:
			out = append(out, fmt.Sprintf("cancelcall %d", rng.Intn(ncons)))
		case r < 89:
			out = append(out, "pause")
		case r < 94:
			out = append(out, "settle")
		default:
			out = append(out, "quiesce")
		}
	}
	out = append(out, "quiesce")
	for k := 0; k < nent && k < 10; k++ {
		out = append(out, fmt.Sprintf("return %d v 1 0", k), "settle")
	}
	out = append(out, "quiesce")
	for _, j := range accs {
		for n := 0; n <= ncb[j]+1; n++ {
			out = append(out, fmt.Sprintf("cbreturn %d %d 0", j, n), "settle")
		}
	}
	out = append(out, "quiesce")
	for i := 0; i < nrefs; i++ {
		out = append(out, fmt.Sprintf("release %d", i))
	}
	out = append(out, "quiesce")
	return out
}

func init() {
	comp.Register(&comp.Component{
		Name: "refcount-consumers", Model: "refcount-consumers", Gen: genConsumers, Exec: exec(true),
		Corpus: [][]string{
			// zero value of T with a nil error is an ordinary result: Access in its callback is cancelled when it is
			// invalidated and re-invoked with the replacement (seed C10-s3)
			{"config 0 1 1", "access", "return 0 0 1 0", "settle", "released 0", "quiesce", "cbreturn 0 0 0", "settle", "return 1 v 1 0", "quiesce", "cbreturn 0 1 0", "quiesce"},
			// zero value held through ResolveWithReleased: released fires once when it is invalidated
			{"config 0 1 1", "rwr 1", "return 0 0 1 0", "settle", "released 0", "quiesce", "return 1 v 1 0", "quiesce", "release 0", "quiesce"},
			// zero value held through Wait and Access, invalidated by a context change; no replacement (context cleared)
			{"config 0 1 1", "wait", "access", "rwr 1", "return 0 0 1 0", "settle", "clearctx", "quiesce", "cbreturn 1 0 4", "quiesce", "release 0", "release 2", "quiesce"},
			// Access: invalidation during the callback; re-invocation with the replacement value
			{"config 0 1 1", "access", "return 0 v 1 0", "settle", "released 0", "quiesce", "cbreturn 0 0 0", "settle", "return 1 v 1 0", "quiesce", "cbreturn 0 1 5", "quiesce"},
			// Access: invalidation after the callback returned is too late to matter; resolver error; cancelled caller
			{"config 0 1 1", "access", "return 0 v 1 0", "settle", "cbreturn 0 0 4", "quiesce", "access", "released 0", "settle", "return 1 v 1 2", "quiesce", "access", "cancelcall 2", "quiesce"},
			// Wait / Resolve keep the value alive until released; ResolveWithReleased fires once
			{"config 0 1 1", "wait", "rwr 1", "resolve", "return 0 v 1 0", "quiesce", "released 0", "settle", "released 0", "quiesce", "return 1 v 1 0", "quiesce", "setctx 2", "quiesce", "release 0", "release 1", "release 2", "quiesce"},
			// ResolveWithReleased: the release goroutine is held before its removeRef section (3rd lock-enter)
			// while the next value is stored: a second qualifying notification must not fire released again
			{"config 0 1 1", "gate lock-enter 3", "rwr 1", "return 0 v 1 0", "settle", "released 0", "settle", "return 1 v 1 0", "settle", "opengate 0", "quiesce", "release 0", "quiesce"},
			// ResolveWithReleased with a cancelled caller: its own Release wins the once-flag but its removeRef section
			// is held (2nd lock-enter); the reference is still notified, the release goroutine's Release is a no-op
			// and `released` runs before the call has returned
			{"config 0 1 1", "gate lock-enter 2", "rwr 1", "settle", "cancelcall 0", "settle", "return 0 v 1 0", "settle", "setctx 2", "settle", "opengate 0", "quiesce", "return 1 v 1 0", "quiesce"},
			// a context-aware Access callback returns ctx.Err() of its callback context (seed C10-d2): Canceled from
			// an invocation whose value was invalidated is discarded like any other result and the callback is
			// invoked again with the replacement; nil when nothing was invalidated; a Canceled of the callback's
			// own making (value still valid) is returned as such
			{"config 0 1 1", "access", "return 0 v 1 0", "settle", "released 0", "quiesce", "cbreturn 0 0 9", "settle", "return 1 v 1 0", "quiesce", "cbreturn 0 1 9", "quiesce", "access", "settle", "cbreturn 1 0 10", "quiesce"},
			{"config 0 1 1", "access", "return 0 v 1 0", "settle", "setctx 2", "quiesce", "cbreturn 0 0 9", "quiesce", "return 1 0 1 0", "quiesce", "cbreturn 0 1 10", "quiesce"},
			// AddRefPromise as a step of its own (seed C10-c1): the promise is empty again from the invalidation
			// of the value until the replacement is resolved; it carries errors
			{"config 0 1 1", "addrefpromise", "quiesce", "return 0 v 1 0", "quiesce", "released 0", "quiesce", "return 1 v 1 0", "quiesce", "setctx 2", "quiesce", "return 2 0 1 2", "quiesce", "clearctx", "quiesce"},
			{"config 1 1 1", "addref rec", "return 0 v 1 0", "settle", "addrefpromise", "wait", "quiesce", "release 0", "release 2", "released 0", "quiesce", "return 1 v 0 0", "quiesce"},
			// the resolver's error is context.Canceled itself while every caller context is alive (seed C10-c3):
			// Wait / Resolve / ResolveWithReleased / Access return it as such
			{"config 0 1 1", "wait", "resolve", "return 0 0 0 9", "quiesce", "rwr 1", "return 1 v 1 9", "quiesce", "access", "return 2 0 1 9", "quiesce"},
			// ResolveWithReleased: the user releases first, then the value is invalidated; error result
			{"config 1 1 1", "rwr 1", "return 0 v 1 0", "settle", "release 0", "quiesce", "released 0", "quiesce", "rwr 0", "return 1 v 1 3", "quiesce", "wait", "cancelcall 2", "quiesce"},
		},
	})
}
