//go:build verif

package refcount

func (w *world) consumerStep(op string, f []string, async bool, refs *[]*refHolder, cons *[]*consumer, guard func(int)) {
}
