//go:build verif

// Package refcount drives refcount.RefCount (components "refcount" and "refcount-consumers").
//
// Script steps. Every API call runs on its own goroutine (actor) with a watchdog: the director waits
// for the return at most `watchdog`; a call that hangs stays pending and shows up at `quiesce`.
// A leading "+" makes the director not wait at all (the call races with the following steps).
// Indices: `release i` refers to the i-th reference-creating step of the script (addref, wait,
// resolve, rwr), 0-based; `return k`/`released k` refer to the k-th entry of the resolver function;
// `cbreturn j n` to the n-th callback entry of the j-th access step; ctx ids are 1..3 (0 = nil).
//
//	config keep ctx tgt   first line: keepUnref 0|1, initial ctx id, containers given: 0 neither, 1 both,
//	                      2 only target, 3 only targetErr ("ctx, target and targetErr can be empty")
//	addref nil|quiet|rec  AddRef with a nil / silent / recording callback
//	release i             Release() of reference i (skipped unless that call returned a reference)
//	setctx c | clearctx   SetContext(ctx c) / ClearContext()
//	cancelctx c           cancel context c
//	return k v|0 h e      resolver entry k returns (value k+1 | empty value, release func given 0|1, error id e:
//	                      1..3 plain errors, 9 = context.Canceled itself with every context alive)
//	released k            call the released() closure handed to resolver entry k
//	arm k                 the next recording callback / release function calls released() of entry k from inside
//	gate kind nth         hold the nth hit of hook point `kind` on the RefCount until `opengate g`
//	opengate g            open the g-th gate
//	pause | settle | quiesce
//
// consumers (component refcount-consumers):
//
//	access                Access(ctx_j, cb) with a harness-controlled callback
//	cbreturn j n e        the n-th callback entry of access step j returns error id e (0 nil, 4..6 own errors,
//	                      9 = ctx.Err() of the callback context, 10 = context.Canceled unconditionally)
//	cancelcall j          cancel the caller context of consumer step j (access / wait / resolve / rwr)
//	wait | resolve        Wait(ctx) / Resolve(ctx)
//	addrefpromise         AddRefPromise() as a step of its own; the promise is read (non-blocking) at every
//	                      quiescence point: `probe promise a has v e`
//	rwr 0|1               ResolveWithReleased(ctx, released) (released callback given 0|1)
package refcount

import (
	"context"
	"errors"
	"fmt"
	"math/rand"
	"strconv"
	"strings"
	"sync"
	"sync/atomic"
	"time"

	"github.com/aperturerobotics/util/ccontainer"
	"github.com/aperturerobotics/util/promise"
	"github.com/aperturerobotics/util/refcount"

	"verifharness/comp"
	"verifharness/hist"
	"verifharness/hook"
)

const watchdog = 250 * time.Millisecond

var errTab = []error{nil, errors.New("e1"), errors.New("e2"), errors.New("e3")}

func errID(err error) int {
	if err == nil {
		return 0
	}
	for i, e := range errTab {
		if e != nil && errors.Is(err, e) {
			return i
		}
	}
	if errors.Is(err, context.Canceled) {
		return 9
	}
	return 8
}

func errOf(i int) error {
	if i == 9 {
		return context.Canceled
	}
	if i > 0 && i < len(errTab) {
		return errTab[i]
	}
	return nil
}

func b2i(b bool) int {
	if b {
		return 1
	}
	return 0
}

type resRet struct {
	val    int
	hasRel bool
	err    int
}

// resolverEntry is one entry of the resolver function.
type resolverEntry struct {
	k        int
	released func()
	retCh    chan resRet
}

type refHolder struct {
	mu  sync.Mutex
	ref *refcount.Ref[int]
	rel func() // Resolve / ResolveWithReleased return a release func instead of a reference
	id  int
}

func (h *refHolder) get() (func(), bool) {
	h.mu.Lock()
	defer h.mu.Unlock()
	if h.ref != nil {
		return h.ref.Release, true
	}
	if h.rel != nil {
		return h.rel, true
	}
	return nil, false
}

type accessCb struct {
	n     int
	retCh chan int
	ctx   context.Context
	done  bool
}

type consumer struct {
	id     int
	cancel context.CancelFunc
	mu     sync.Mutex
	cbs    []*accessCb
	prom   *promise.PromiseContainer[int] // addrefpromise: the promise it returned
	pref   *refcount.Ref[int]             // addrefpromise: the reference it returned (kept until the end)
}

type world struct {
	log   *hist.Log
	tags  comp.TagSet
	rc    *refcount.RefCount[int]
	tgt   *ccontainer.CContainer[int]
	terr  *ccontainer.CContainer[*error]
	ctxs  [4]context.Context
	cncl  [4]context.CancelFunc
	stop  chan struct{}
	mu    sync.Mutex
	ents  []*resolverEntry
	armed []int
	wg    sync.WaitGroup
}

func (w *world) entry(k int) *resolverEntry {
	w.mu.Lock()
	defer w.mu.Unlock()
	if k < len(w.ents) {
		return w.ents[k]
	}
	return nil
}

// waitEntry waits a short while for resolver entry k to exist.
func (w *world) waitEntry(k int) *resolverEntry {
	for i := 0; i < 40; i++ {
		if e := w.entry(k); e != nil {
			return e
		}
		time.Sleep(100 * time.Microsecond)
	}
	return nil
}

// fireArmed is called from inside recording callbacks and release functions (r.mtx is held).
func (w *world) fireArmed() {
	w.mu.Lock()
	if len(w.armed) == 0 {
		w.mu.Unlock()
		return
	}
	k := w.armed[0]
	w.armed = w.armed[1:]
	var e *resolverEntry
	if k < len(w.ents) {
		e = w.ents[k]
	}
	w.mu.Unlock()
	if e == nil {
		return
	}
	w.tags.Add("released-from-inside-cs")
	w.log.Add("env released %d", k)
	e.released()
}

func (w *world) resolver(ctx context.Context, released func()) (int, func(), error) {
	w.mu.Lock()
	k := len(w.ents)
	e := &resolverEntry{k: k, released: released, retCh: make(chan resRet, 1)}
	// the entry line is logged under w.mu so that entry numbers follow log order
	w.log.Add("cbin resolver %d", k)
	w.ents = append(w.ents, e)
	w.mu.Unlock()
	select {
	case r := <-e.retCh:
		var rel func()
		if r.hasRel {
			rel = func() {
				seen := 0
				if w.tgt != nil {
					seen = w.tgt.GetValue()
				}
				w.log.Add("cbin rel %d %d", k, seen)
				w.fireArmed()
			}
		}
		w.log.Add("cbout resolver %d %d %d %d", k, r.val, b2i(r.hasRel), r.err)
		return r.val, rel, errOf(r.err)
	case <-w.stop:
		return 0, nil, context.Canceled
	}
}

// call runs f on its own goroutine; waits for it unless async, at most the watchdog period.
func (w *world) call(async bool, f func()) {
	done := make(chan struct{})
	w.wg.Add(1)
	go func() {
		defer w.wg.Done()
		defer close(done)
		f()
	}()
	if async {
		return
	}
	select {
	case <-done:
	case <-time.After(watchdog):
		w.tags.Add("watchdog")
	}
}

func atoi(s string) int { n, _ := strconv.Atoi(s); return n }

func exec(consumers bool) func(script []string, opt comp.Options) comp.Result {
	return func(script []string, opt comp.Options) comp.Result {
		w := &world{log: hist.New(), tags: comp.TagSet{}, stop: make(chan struct{})}
		log := w.log
		h := hook.Install(opt.Seed, hook.Perturb{Prob: 0.3, MaxSleep: 120 * time.Microsecond})
		defer h.Uninstall()
		rng := rand.New(rand.NewSource(opt.Seed ^ 0x7ef))
		for i := 1; i < 4; i++ {
			w.ctxs[i], w.cncl[i] = context.WithCancel(context.Background())
		}
		keep, ctx0, tgt := 0, 1, 1
		if len(script) > 0 {
			if f := strings.Fields(script[0]); len(f) == 4 && f[0] == "config" {
				keep, ctx0, tgt = atoi(f[1]), atoi(f[2])%4, atoi(f[3])
			}
		}
		tgt %= 4
		if tgt == 1 || tgt == 2 {
			w.tgt = ccontainer.NewCContainer[int](0)
		}
		if tgt == 1 || tgt == 3 {
			w.terr = ccontainer.NewCContainer[*error](nil)
		}
		log.Add("cfg %d %d %d", keep, ctx0, tgt)
		w.rc = refcount.NewRefCount[int](w.ctxs[ctx0], keep != 0, w.tgt, w.terr, w.resolver)

		var refs []*refHolder
		var cons []*consumer
		var gates []hook.Gate
		var guard = func(id int) {
			if r := recover(); r != nil {
				w.tags.Add("panic")
				log.Ret(id, "panic")
			}
		}
		for _, step := range script {
			f := strings.Fields(step)
			if len(f) == 0 {
				continue
			}
			async := strings.HasPrefix(f[0], "+")
			op := strings.TrimPrefix(f[0], "+")
			switch op {
			case "config":
			case "addref":
				if len(f) < 2 {
					continue
				}
				kind := f[1]
				hld := &refHolder{}
				hld.id = log.Inv("addref %s", kind)
				refs = append(refs, hld)
				id := hld.id
				var cb func(bool, int, error)
				switch kind {
				case "quiet":
					cb = func(bool, int, error) {}
				case "rec":
					cb = func(res bool, v int, err error) {
						log.Add("cbin refcb %d %d %d %d", id, b2i(res), v, errID(err))
						w.fireArmed()
					}
				}
				if kind == "nil" {
					w.tags.Add("nil-callback")
				}
				w.call(async, func() {
					defer guard(id)
					ref := w.rc.AddRef(cb)
					// publish the reference only after the return is logged
					log.Ret(id, "addref")
					hld.mu.Lock()
					hld.ref = ref
					hld.mu.Unlock()
				})
			case "release":
				if len(f) < 2 || atoi(f[1]) >= len(refs) {
					continue
				}
				hld := refs[atoi(f[1])]
				rel, ok := hld.get()
				if !ok {
					continue
				}
				id := log.Inv("release %d", hld.id)
				w.call(async, func() {
					defer guard(id)
					rel()
					log.Ret(id, "release")
				})
			case "setctx":
				if len(f) < 2 {
					continue
				}
				c := atoi(f[1]) % 4
				id := log.Inv("setctx %d", c)
				w.call(async, func() {
					defer guard(id)
					upd := w.rc.SetContext(w.ctxs[c])
					log.Ret(id, "setctx %v", upd)
				})
			case "clearctx":
				id := log.Inv("clearctx")
				w.call(async, func() {
					defer guard(id)
					w.rc.ClearContext()
					log.Ret(id, "clearctx")
				})
			case "cancelctx":
				if len(f) < 2 {
					continue
				}
				c := atoi(f[1]) % 4
				if c == 0 {
					continue
				}
				log.Add("env cancelctx %d", c)
				w.cncl[c]()
			case "return":
				if len(f) < 5 {
					continue
				}
				e := w.waitEntry(atoi(f[1]))
				if e == nil {
					continue
				}
				val := 0
				if f[2] == "v" {
					val = e.k + 1
				}
				// resolver errors: 1..3 plain errors, 9 = context.Canceled itself (not the caller's context)
				rerr := atoi(f[4])
				if rerr != 9 {
					rerr %= 4
				}
				select {
				case e.retCh <- resRet{val: val, hasRel: f[3] == "1", err: rerr}:
				default: // already told to return
				}
			case "released":
				if len(f) < 2 {
					continue
				}
				e := w.waitEntry(atoi(f[1]))
				if e == nil {
					continue
				}
				log.Add("env released %d", e.k)
				e.released()
			case "arm":
				if len(f) < 2 {
					continue
				}
				w.mu.Lock()
				w.armed = append(w.armed, atoi(f[1]))
				w.mu.Unlock()
			case "gate":
				if len(f) < 3 {
					continue
				}
				gates = append(gates, h.AddGate(f[1], w.rc, atoi(f[2])))
			case "opengate":
				if len(f) < 2 || atoi(f[1]) >= len(gates) {
					continue
				}
				gates[atoi(f[1])].Open()
			case "pause":
				time.Sleep(time.Duration(rng.Intn(150)) * time.Microsecond)
			case "settle":
				comp.WaitQuiet(log, 2*time.Millisecond, 200*time.Millisecond)
			case "quiesce":
				// a goroutine still held at a gate would make the point meaningless (sub-scripts
				// produced by the shrinker may have lost their opengate step)
				for _, g := range gates {
					g.Open()
				}
				comp.WaitQuiet(log, opt.Grace, 10*opt.Grace)
				if log.NumPending() > 0 {
					w.tags.Add("blocked-at-quiesce")
				}
				pv, pe := 0, 0
				if w.tgt != nil {
					pv = w.tgt.GetValue()
				}
				if w.terr != nil {
					if ep := w.terr.GetValue(); ep != nil {
						pe = errID(*ep)
					}
				}
				log.Add("probe %d %d", pv, pe)
				w.probeAccess(cons)
				w.probePromise(cons)
				log.Quiesce()
			default:
				if consumers {
					w.consumerStep(op, f, async, &refs, &cons, guard)
				}
			}
		}
		comp.WaitQuiet(log, 2*time.Millisecond, 200*time.Millisecond)
		lines := log.Lines()
		// wind down
		for _, g := range gates {
			g.Open()
		}
		close(w.stop)
		for _, c := range cons {
			c.cancel()
			c.mu.Lock()
			for _, cb := range c.cbs {
				select {
				case cb.retCh <- 0:
				default:
				}
			}
			c.mu.Unlock()
		}
		for i := 1; i < 4; i++ {
			w.cncl[i]()
		}
		done := make(chan struct{})
		go func() { w.wg.Wait(); close(done) }()
		select {
		case <-done:
		case <-time.After(2 * time.Second):
			w.tags.Add("leaked-goroutine")
		}
		tagHistory(lines, w.tags)
		return comp.Result{History: lines, Tags: w.tags.List()}
	}
}

// tagHistory names the situations a history went through.
func tagHistory(lines []string, tags comp.TagSet) {
	running := -1
	relSeen := map[string]int{}
	for _, l := range lines {
		f := strings.Fields(l)
		switch {
		case strings.HasPrefix(l, "cbin resolver"):
			running = atoi(f[2])
		case strings.HasPrefix(l, "cbout resolver"):
			running = -1
			if f[5] != "0" {
				tags.Add("resolver-error")
			}
			if f[4] == "0" {
				tags.Add("nil-release-func")
			}
			if f[3] == "0" {
				tags.Add("empty-value")
			}
		case strings.HasPrefix(l, "env released"):
			tags.Add("released-callback")
			if running >= 0 {
				tags.Add("restart-while-resolver-running")
			}
		case strings.HasPrefix(l, "inv") && len(f) > 2 && (f[2] == "setctx" || f[2] == "clearctx"):
			if running >= 0 {
				tags.Add("restart-while-resolver-running")
			}
		case strings.HasPrefix(l, "env cancelctx"):
			tags.Add("ctx-cancelled")
		case strings.HasPrefix(l, "cbin rel "):
			tags.Add("release-func-called")
			relSeen[f[2]]++
			if f[3] != "0" {
				tags.Add("stale-release-while-newer-value-stored")
			}
		case strings.HasPrefix(l, "cbin refcb"):
			if f[3] == "0" {
				tags.Add("refs-told-gone")
			} else {
				tags.Add("refs-told-value")
			}
		case strings.HasPrefix(l, "cbin access"):
			tags.Add("access-callback")
		case strings.HasPrefix(l, "cbin released"):
			tags.Add("wwr-released-fired")
		}
	}
}

func genBase(rng *rand.Rand, tier string) []string {
	steps := 12 + rng.Intn(18)
	if tier == "thorough" {
		steps = 20 + rng.Intn(40)
	}
	out := []string{fmt.Sprintf("config %d %d %d", rng.Intn(2), []int{1, 1, 1, 0}[rng.Intn(4)], []int{1, 1, 1, 1, 0, 2, 3}[rng.Intn(7)])}
	nrefs, nent := 0, 0 // nent: upper bound on the number of resolver entries so far
	kinds := []string{"rec", "rec", "rec", "quiet", "nil"}
	pfx := func() string {
		if rng.Intn(6) == 0 {
			return "+"
		}
		return ""
	}
	for i := 0; i < steps; i++ {
		r := rng.Intn(100)
		switch {
		case r < 20:
			out = append(out, pfx()+"addref "+kinds[rng.Intn(len(kinds))])
			nrefs++
			nent++
		case r < 34 && nrefs > 0:
			out = append(out, pfx()+fmt.Sprintf("release %d", rng.Intn(nrefs)))
		case r < 42:
			out = append(out, pfx()+fmt.Sprintf("setctx %d", rng.Intn(4)))
			nent++
		case r < 45:
			out = append(out, pfx()+"clearctx")
		case r < 48:
			out = append(out, fmt.Sprintf("cancelctx %d", 1+rng.Intn(3)))
		case r < 68 && nent > 0:
			v := "v"
			if rng.Intn(8) == 0 {
				v = "0"
			}
			e := 0
			if rng.Intn(5) == 0 {
				e = []int{1, 2, 3, 9}[rng.Intn(4)]
			}
			out = append(out, fmt.Sprintf("return %d %s %d %d", rng.Intn(nent), v, b2i(rng.Intn(6) != 0), e))
		case r < 80 && nent > 0:
			out = append(out, fmt.Sprintf("released %d", rng.Intn(nent)))
			nent++
		case r < 83 && nent > 0:
			out = append(out, fmt.Sprintf("arm %d", rng.Intn(nent)))
			nent++
		case r < 88:
			out = append(out, "pause")
		case r < 95:
			out = append(out, "settle")
		default:
			out = append(out, "quiesce")
		}
	}
	out = append(out, "quiesce")
	// let every resolver entry return, drop every reference, final quiescence
	for k := 0; k < nent && k < 12; k++ {
		out = append(out, fmt.Sprintf("return %d v 1 0", k), "settle")
	}
	out = append(out, "quiesce")
	for i := 0; i < nrefs; i++ {
		out = append(out, fmt.Sprintf("release %d", i))
	}
	out = append(out, "quiesce")
	return out
}

var _ = atomic.Int32{}

func init() {
	comp.Register(&comp.Component{
		Name: "refcount", Model: "refcount", Gen: genBase, Exec: exec(false),
		Corpus: [][]string{
			// only one of the two containers is given (seed C09-c2): an errored result is dropped by the
			// release of the last reference / by released() / by SetContext; the container that is given
			// follows, the nil one is never touched
			{"config 0 1 2", "addref rec", "return 0 0 1 1", "settle", "release 0", "quiesce", "addref rec", "return 1 v 1 2", "settle", "released 1", "quiesce", "return 2 v 1 0", "quiesce", "setctx 2", "quiesce"},
			{"config 0 1 3", "addref rec", "return 0 0 1 1", "settle", "released 0", "quiesce", "return 1 v 1 2", "quiesce", "setctx 2", "quiesce", "return 2 v 1 0", "quiesce", "release 0", "quiesce"},
			// several restarts inside one resolver's return latency (D2): the resolve goroutine of
			// entry 0 is held before its final critical section while restarts pile up behind it
			{"config 0 1 1", "gate lock-enter 2", "addref rec", "+return 0 v 1 0", "settle", "setctx 2", "released 0", "released 0", "setctx 3", "settle", "opengate 0", "quiesce", "return 1 v 1 0", "quiesce", "release 0", "quiesce"},
			// the same without the gate: entry 0 keeps running while it is superseded twice
			{"config 0 1 1", "addref rec", "released 0", "setctx 2", "settle", "return 0 v 1 0", "quiesce", "return 1 v 1 0", "quiesce", "release 0", "quiesce"},
			// D7: AddRef(nil) on a resolved container
			{"config 0 1 1", "addref rec", "return 0 v 1 0", "settle", "addref nil", "addref quiet", "addref rec", "quiesce", "release 0", "release 1", "release 2", "release 3", "quiesce"},
			// the zero value of T with a nil error is an ordinary result (seed C10-s3): invalidated by released(), by a
			// context change and by the last Release, with recording references; error result with the zero value
			{"config 0 1 1", "addref rec", "addref rec", "return 0 0 1 0", "settle", "released 0", "quiesce", "return 1 0 1 0", "settle", "setctx 2", "quiesce", "return 2 0 1 2", "settle", "released 2", "quiesce", "return 3 0 0 0", "settle", "released 3", "quiesce", "return 4 0 1 0", "settle", "release 0", "release 1", "quiesce"},
			// keepUnref: kept value at zero references is dropped by released() and by a context change (seeds C09-s3, C10-s1)
			{"config 1 1 1", "addref rec", "return 0 v 1 0", "settle", "release 0", "quiesce", "released 0", "quiesce", "addref rec", "return 1 v 1 0", "settle", "release 1", "quiesce", "setctx 2", "quiesce", "addref rec", "quiesce", "return 2 v 1 0", "quiesce"},
			// keepUnref: value survives zero references, released() drops it, error result does not survive
			{"config 1 1 1", "addref rec", "return 0 v 1 0", "settle", "release 0", "quiesce", "addref rec", "quiesce", "released 0", "quiesce", "return 1 v 1 2", "settle", "release 1", "quiesce"},
			// released() racing the last Release; double release
			{"config 0 1 1", "addref rec", "return 0 v 1 0", "settle", "+released 0", "+release 0", "release 0", "quiesce", "addref rec", "return 1 v 1 0", "return 2 v 1 0", "quiesce"},
			// released() called from inside a reference callback and from inside a release function
			{"config 0 1 1", "addref rec", "arm 0", "return 0 v 1 0", "quiesce", "arm 1", "return 1 v 1 0", "settle", "clearctx", "quiesce", "setctx 2", "return 2 v 0 0", "quiesce"},
			// cancelled root context, nil targets, nil context
			{"config 0 0 0", "addref rec", "quiesce", "setctx 1", "return 0 v 1 1", "quiesce", "cancelctx 1", "released 0", "quiesce", "setctx 2", "quiesce", "return 1 0 1 0", "quiesce", "release 0", "quiesce"},
		},
	})
}
