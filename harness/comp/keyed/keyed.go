//go:build verif

// Package keyed drives keyed.Keyed and keyed.KeyedRefCount (properties C06, C07).
//
// One driver actor issues every call; the constructed routines are harness-controlled: each blocks
// until the script tells it how to return. Time is organised in epochs: every configured duration
// (release delay, backoff) is D; a burst of calls must stay well below D, `advance` logs the line,
// sleeps 3·D, waits for quiet and logs `quiesce`.
//
// Script steps (J = run id = order in which routine functions were entered, I = index of the I-th
// executed addref):
//
//	config plain|rc delay|nodelay noretry|retry N|fresh [cb setkey|getkey|removekey]
//	                          must be the first step (default plain nodelay noretry). `retry N`: WithBackoff with a
//	                          scripted backoff (D, N times, then Stop); `fresh`: WithRetry with the library's backoff
//	                          config (constant D, MaxElapsedTime 3*D = one advance: a record's backoff says Stop once
//	                          the epoch of its construction / last Reset has ended). `cb OP`: an exit callback
//	                          (WithExitCb) that calls OP(key, …) on the same object for every routine that returned
//	                          ok or an error, logged as a call of its own (inv/ret) from inside the callback.
//	                          Further words (same behaviour, other library entry points): `negdelay` (WithReleaseDelay
//	                          of -D), `nilretry` (WithRetry(nil) after WithBackoff: retry disabled; only with noretry),
//	                          `logger` (NewKeyedWithLogger / NewKeyedRefCountWithLogger with a discarding logrus logger)
//	reset K [COND…] | restart K [COND…] | resetall [COND…] | restartall [COND…]
//	                          with condition functions: `nil` (a nil function), `key=K`, `par=P` (data%2 == P)
//	cancelroot                (ignored when retry is configured) cancels the root context that is installed (logged first as `env cancelroot`): SyncKeys,
//	                          ResetRoutine, RestartRoutine then treat it as no context, SetKey(start) starts with it
//	clearctx                  ClearContext() (logged, and modelled, as setctx 0 norestart)
//	optcheck                  direct checks of entry points that the model does not describe: a nil constructor
//	                          callback (NewKeyed(nil): keys exist, data is the zero value, nothing runs) and Release on
//	                          a nil *KeyedRef; a failed check is logged as `env fail …`, a line the model driver rejects
//	setctx C restart|norestart    C = 0 is the nil context, 1..3 are distinct live contexts
//	setkey K start|nostart | removekey K | synckeys restart|norestart K... | getkey K | getkeys | getkeysdata
//	reset K | restart K | resetall | restartall
//	addref K | release I | rcremove K                (rc mode)
//	ret J ok|err|cancel       tell run J to return nil / an error / ctx.Err() once its ctx is cancelled
//	retk K ok|err|cancel      the same for the oldest run of key K that has not been told yet
//	probe J | probek K | probeall    log ctx.Err() of run(s) that have not been told to return
//	nilnext K                 the constructor returns a nil Routine at its next call for key K
//	advhold                   like advance, but the first goroutine that wants a Keyed/KeyedRefCount mutex during
//	                          the sleep (a timer callback that fired) is held before it takes it; no quiesce line
//	opengate                  let that goroutine go, wait for quiet, log quiesce
//	race N <call> ; <call>    two callers: the N-th mutex acquisition from now on is held, the first call is started,
//	                          then the second, then the gate is opened (calls: addref K, release I, rcremove K,
//	                          setkey K start|nostart, removekey K, getkeys)
//	advance | settle | pause
package keyed

import (
	"context"
	"errors"
	"fmt"
	"io"
	"math/rand"
	"os"
	"runtime/pprof"
	"sort"
	"strconv"
	"strings"
	"sync"
	"sync/atomic"
	"time"

	ubackoff "github.com/aperturerobotics/util/backoff"
	"github.com/aperturerobotics/util/keyed"
	cbackoff "github.com/cenkalti/backoff/v4"
	"github.com/sirupsen/logrus"

	"verifharness/comp"
	"verifharness/hist"
	"verifharness/hook"
)

// D is the one duration used for the release delay and every backoff interval.
const D = 20 * time.Millisecond

// hangLimit is how long a call may take before it is taken to be blocked for good (exit-callback scripts only)
const hangLimit = time.Second

// burstLimit is the longest a burst of calls may take (first call after an advance → next advance line).
const burstLimit = 12 * time.Millisecond

type run struct {
	id   int
	key  int
	ctx  context.Context
	cmd  chan string
	told bool
	done chan struct{}
}

// tagger is a TagSet that may be used from several goroutines.
type tagger struct {
	set comp.TagSet
	mu  *sync.Mutex
}

func (t tagger) Add(s string) {
	t.mu.Lock()
	t.set.Add(s)
	t.mu.Unlock()
}

type scriptedBackoff struct {
	n, pos int
	// note logs the answer (called inside the exit bookkeeping, with the Keyed mutex held)
	note func(armed bool)
}

func (b *scriptedBackoff) NextBackOff() time.Duration {
	if b.pos >= b.n {
		if b.note != nil {
			b.note(false)
		}
		return cbackoff.Stop
	}
	b.pos++
	if b.note != nil {
		b.note(true)
	}
	return D
}

func (b *scriptedBackoff) Reset() { b.pos = 0 }

// api is the part of Keyed / KeyedRefCount the driver uses.
type api struct {
	setContext      func(ctx context.Context, restart bool)
	clearContext    func()
	getKeys         func() []int
	getKeysWithData func() []keyed.KeyWithData[int, int]
	getKey          func(int) (int, bool)
	reset           func(int, ...func(int, int) bool) (bool, bool)
	restart         func(int, ...func(int, int) bool) (bool, bool)
	resetAll        func(...func(int, int) bool) (int, int)
	restartAll      func(...func(int, int) bool) (int, int)
	setKey          func(int, bool) (int, bool)
	removeKey       func(int) bool
	syncKeys        func([]int, bool) ([]int, []int)
	addRef          func(int) (*keyed.KeyedRef[int, int], int, bool)
	rcRemove        func(int) bool
}

func bs(b bool) string {
	if b {
		return "true"
	}
	return "false"
}

func ints(xs []int) string {
	sort.Ints(xs)
	var sb strings.Builder
	for _, x := range xs {
		fmt.Fprintf(&sb, " %d", x)
	}
	return sb.String()
}

func exec(script []string, opt comp.Options) (res comp.Result) {
	log := hist.New()
	tagSet := comp.TagSet{}
	var tagMu sync.Mutex
	tags := tagger{set: tagSet, mu: &tagMu}
	h := hook.Install(opt.Seed, hook.Perturb{Prob: 0.35, MaxSleep: 150 * time.Microsecond})
	defer h.Uninstall()
	// a scenario takes well under 10s; one that does not end is a defect of the harness: fail loudly, with
	// the goroutines, rather than stall the check
	wd := time.AfterFunc(90*time.Second, func() {
		fmt.Fprintf(os.Stderr, "keyed harness: scenario did not end within 90s: %v\n", script)
		_ = pprof.Lookup("goroutine").WriteTo(os.Stderr, 1)
		os.Exit(3)
	})
	defer wd.Stop()
	rng := rand.New(rand.NewSource(opt.Seed ^ 0x6b657965))

	// ---- configuration
	rc, delay, retry, fresh, cbKind := false, false, -1, false, ""
	negDelay, nilRetry, withLogger := false, false, false
	if len(script) > 0 {
		if f := strings.Fields(script[0]); len(f) >= 4 && f[0] == "config" {
			rc, delay = f[1] == "rc", f[2] == "delay"
			if f[3] == "retry" && len(f) >= 5 {
				retry, _ = strconv.Atoi(f[4])
			}
			fresh = f[3] == "fresh"
			for i := 3; i < len(f); i++ {
				switch f[i] {
				case "cb":
					if i+1 < len(f) {
						cbKind = f[i+1]
					}
				case "negdelay":
					negDelay = true
				case "nilretry":
					nilRetry = retry < 0 && !fresh
				case "logger":
					withLogger = true
				}
			}
		}
	}
	timed := delay || retry >= 0 || fresh
	cfgLine := "config "
	if rc {
		cfgLine += "rc "
		tags.Add("rc")
	} else {
		cfgLine += "plain "
	}
	if delay {
		cfgLine += "delay "
		tags.Add("delay")
	} else {
		cfgLine += "nodelay "
	}
	if fresh {
		cfgLine += "fresh"
		tags.Add("retry-fresh")
	} else if retry >= 0 {
		cfgLine += fmt.Sprintf("retry %d", retry)
		tags.Add("retry")
	} else {
		cfgLine += "noretry"
	}
	log.Add("%s", cfgLine)

	// ---- harness-controlled routines
	var mu sync.Mutex
	var runs []*run
	nctor := map[int]int{}
	nilNext := map[int]bool{}
	var wg sync.WaitGroup
	ctor := func(key int) (keyed.Routine, int) {
		// called with the Keyed mutex held, in the driver goroutine
		nctor[key]++
		d := nctor[key]
		log.Add("cbin ctor %d %d", key, d)
		if nilNext[key] {
			delete(nilNext, key)
			tags.Add("nil-routine")
			return nil, d
		}
		return func(ctx context.Context) error {
			wg.Add(1)
			defer wg.Done()
			r := &run{key: key, ctx: ctx, cmd: make(chan string, 1), done: make(chan struct{})}
			defer close(r.done)
			log.With(func([]int) []string {
				mu.Lock()
				r.id = len(runs)
				runs = append(runs, r)
				mu.Unlock()
				return []string{fmt.Sprintf("cbin run %d %d %d", r.id, key, d)}
			})
			switch <-r.cmd {
			case "ok":
				log.Add("cbout %d ok", r.id)
				return nil
			case "err":
				log.Add("cbout %d err", r.id)
				return errors.New("scripted failure")
			default:
				<-ctx.Done()
				log.Add("cbout %d canceled", r.id)
				return ctx.Err()
			}
		}, d
	}
	var opts []keyed.Option[int, int]
	if delay && negDelay {
		tags.Add("opt-negative-delay")
		opts = append(opts, keyed.WithReleaseDelay[int, int](-D)) // the absolute value counts
	} else if delay {
		opts = append(opts, keyed.WithReleaseDelay[int, int](D))
	}
	if nilRetry {
		// a nil config disables the retry that an earlier option configured
		tags.Add("opt-nil-retry")
		opts = append(opts, keyed.WithBackoff[int, int](func(int) cbackoff.BackOff { return &scriptedBackoff{n: 50} }),
			keyed.WithRetry[int, int](nil))
	}
	if fresh {
		ms := uint32(D / time.Millisecond)
		opts = append(opts, keyed.WithRetry[int, int](&ubackoff.Backoff{
			BackoffKind: ubackoff.BackoffKind_BackoffKind_EXPONENTIAL,
			Exponential: &ubackoff.Exponential{InitialInterval: ms, Multiplier: 1, MaxInterval: ms, MaxElapsedTime: 3 * ms},
		}))
	} else if retry >= 0 {
		n := retry
		opts = append(opts, keyed.WithBackoff[int, int](func(key int) cbackoff.BackOff {
			return &scriptedBackoff{n: n, note: func(armed bool) {
				// what the exit bookkeeping was told: the retry timer is armed now, or the backoff said Stop
				log.Add("env boff %d %s", key, map[bool]string{true: "armed", false: "stop"}[armed])
			}}
		}))
	}
	var a api
	// exit callback that calls back into the same object (as a caller of its own)
	var cbOff, hung atomic.Bool
	var cbCall func(key int)
	if cbKind != "" {
		opts = append(opts, keyed.WithExitCb[int, int](func(key int, _ keyed.Routine, _ int, err error) {
			if cbOff.Load() || hung.Load() || errors.Is(err, context.Canceled) {
				return
			}
			cbCall(key)
		}))
	}
	var le *logrus.Entry
	if withLogger {
		tags.Add("opt-logger")
		lg := logrus.New()
		lg.SetOutput(io.Discard)
		lg.SetLevel(logrus.DebugLevel)
		le = logrus.NewEntry(lg)
	}
	if rc {
		k := keyed.NewKeyedRefCount(ctor, opts...)
		if withLogger {
			k = keyed.NewKeyedRefCountWithLogger(ctor, le, opts...)
		}
		a = api{setContext: k.SetContext, clearContext: k.ClearContext, getKeys: k.GetKeys, getKeysWithData: k.GetKeysWithData, getKey: k.GetKey,
			reset: k.ResetRoutine, restart: k.RestartRoutine, resetAll: k.ResetAllRoutines, restartAll: k.RestartAllRoutines,
			addRef: k.AddKeyRef, rcRemove: k.RemoveKey}
	} else {
		k := keyed.NewKeyed(ctor, opts...)
		if withLogger {
			k = keyed.NewKeyedWithLogger(ctor, le, opts...)
		}
		a = api{setContext: k.SetContext, clearContext: k.ClearContext, getKeys: k.GetKeys, getKeysWithData: k.GetKeysWithData, getKey: k.GetKey,
			reset: k.ResetRoutine, restart: k.RestartRoutine, resetAll: k.ResetAllRoutines, restartAll: k.RestartAllRoutines,
			setKey: k.SetKey, removeKey: k.RemoveKey, syncKeys: k.SyncKeys}
	}

	// ---- contexts
	// the script names root contexts 1, 2, …; a context that was cancelled (`cancelroot`) is never installed
	// again: the name then stands for a new context with a new id (name + 10, + 20, …)
	ctxs := map[int]context.Context{}
	ctxCancel := map[int]context.CancelFunc{}
	incarn := map[int]int{}
	var cancels []context.CancelFunc
	ctxID := func(c int) int {
		if c == 0 {
			return 0
		}
		return c + 10*incarn[c]
	}
	getCtx := func(c int) context.Context {
		if c == 0 {
			return nil
		}
		id := ctxID(c)
		if x, ok := ctxs[id]; ok {
			return x
		}
		x, cancel := context.WithCancel(context.Background())
		ctxs[id] = x
		ctxCancel[id] = cancel
		cancels = append(cancels, cancel)
		return x
	}
	installed := 0 // script name of the root context the driver installed last (0: none, or it was cancelled)

	var refs []*keyed.KeyedRef[int, int]
	released := map[int]bool{}

	// call wraps one API call: inv line, the call (panics are results), ret line.
	call := func(inv string, f func() string) {
		id := log.Inv("%s", inv)
		run := func() (s string) {
			defer func() {
				if p := recover(); p != nil {
					s = "panic"
					tags.Add("panic")
				}
			}()
			return f()
		}
		if cbKind == "" {
			log.Ret(id, "%s", run())
			return
		}
		// with re-entrant exit callbacks a call may block for good (a callback that runs with the mutex held):
		// the call is abandoned after hangLimit, no ret line is logged and the script stops
		ch := make(chan string, 1)
		go func() { ch <- run() }()
		select {
		case out := <-ch:
			log.Ret(id, "%s", out)
		case <-time.After(hangLimit):
			hung.Store(true)
			tags.Add("call-hung")
		}
	}
	// a callback that is late may make its call during the sleep of an `advance` (between the `advance` and
	// the `quiesce` line): timers it arms then expire within the epoch — the run breaks the epoch discipline.
	// (While the call is in progress the `quiesce` line cannot be logged, so `advancing` is read reliably.)
	var advancing, lateCb atomic.Bool
	inEpoch := func() {
		if advancing.Load() {
			lateCb.Store(true)
		}
	}
	cbCall = func(key int) {
		tags.Add("exit-cb-reenters")
		switch {
		case cbKind == "setkey" && !rc:
			call(fmt.Sprintf("setkey %d nostart", key), func() string {
				inEpoch()
				d, e := a.setKey(key, false)
				return fmt.Sprintf("de %d %s", d, bs(e))
			})
		case cbKind == "removekey" && !rc:
			call(fmt.Sprintf("removekey %d", key), func() string { inEpoch(); return "bool " + bs(a.removeKey(key)) })
		case cbKind == "removekey" && rc:
			call(fmt.Sprintf("rcremove %d", key), func() string { inEpoch(); return "bool " + bs(a.rcRemove(key)) })
		default:
			call(fmt.Sprintf("getkey %d", key), func() string {
				inEpoch()
				d, e := a.getKey(key)
				return fmt.Sprintf("de %d %s", d, bs(e))
			})
		}
	}
	// logIdle logs a line that claims that no call is in progress (`advance`, `quiesce`) atomically with an
	// empty set of pending calls; a call of an exit callback that is in flight is waited for. false: a call
	// did not return within hangLimit (nothing is logged)
	logIdle := func(line string) bool {
		deadline := time.Now().Add(hangLimit)
		for {
			ok := false
			log.With(func(p []int) []string {
				if len(p) == 0 {
					ok = true
					return []string{line}
				}
				return nil
			})
			if ok {
				return true
			}
			if hung.Load() || time.Now().After(deadline) {
				hung.Store(true)
				return false
			}
			time.Sleep(50 * time.Microsecond)
		}
	}
	activeOf := func(key int) []*run { // runs not yet told to return (key < 0: all)
		mu.Lock()
		defer mu.Unlock()
		var out []*run
		for _, r := range runs {
			if !r.told && (key < 0 || r.key == key) {
				out = append(out, r)
			}
		}
		return out
	}
	runByID := func(j int) *run {
		mu.Lock()
		defer mu.Unlock()
		if j < 0 || j >= len(runs) {
			return nil
		}
		return runs[j]
	}
	tell := func(r *run, how string) {
		if r == nil || r.told {
			return
		}
		mu.Lock()
		r.told = true
		mu.Unlock()
		r.cmd <- how
		if how != "cancel" || r.ctx.Err() != nil {
			select {
			case <-r.done:
			case <-time.After(2 * time.Second):
				tags.Add("leaked-goroutine")
			}
		} else {
			tags.Add("run-until-cancelled")
		}
	}
	probe := func(r *run) {
		if r == nil || r.told {
			return
		}
		if r.ctx.Err() != nil {
			log.Add("probe %d cancelled", r.id)
			tags.Add("probe-cancelled")
		} else {
			log.Add("probe %d live", r.id)
		}
	}
	atoi := func(s string) int { n, _ := strconv.Atoi(s); return n }
	keysOf := func(f []string) []int {
		var ks []int
		for _, x := range f {
			ks = append(ks, atoi(x))
		}
		return ks
	}
	supersede := func(key int) { // a restarting call lands while a run of the key has not returned
		if len(activeOf(key)) > 0 {
			tags.Add("supersede-in-exit-latency")
		}
	}

	burstStart := time.Now()
	advances := 0
	// scheduler canary: a goroutine that should wake up every 250µs. A wake-up that is more than stallLimit
	// late while a callback is held at the gate means that the machine is too loaded for the short
	// quiescence wait of opengate (a goroutine started by a call may not have run yet): such a run is
	// marked unstable and not compared, like a burst that took too long.
	const stallLimit = 2 * time.Millisecond
	var lastStall atomic.Int64
	var bigStall atomic.Bool
	canaryStop := make(chan struct{})
	defer close(canaryStop)
	go func() {
		for {
			select {
			case <-canaryStop:
				return
			default:
			}
			t := time.Now()
			time.Sleep(250 * time.Microsecond)
			if late := time.Since(t) - 250*time.Microsecond; late > stallLimit {
				lastStall.Store(time.Now().UnixNano())
				if late > hangLimit/10 {
					bigStall.Store(true)
				}
			}
		}
	}()
	var held *hook.Gate
	var holdStart time.Time
	openGate := func() {
		if held == nil {
			return
		}
		held.Open()
		held = nil
		// the callback that was held runs at once; timers armed since the advance must not expire
		// before the next advance line, so this wait is short and counts as part of the burst
		t0 := time.Now()
		comp.WaitQuiet(log, 1500*time.Microsecond, 6*time.Millisecond)
		if lastStall.Load() > holdStart.UnixNano() || time.Since(t0) > 6*time.Millisecond+stallLimit {
			res.Unstable = true
		}
		logIdle("quiesce")
	}
	waitHit := func(g hook.Gate, d time.Duration) <-chan struct{} {
		c := make(chan struct{})
		go func() {
			if g.WaitHit(d) {
				close(c)
			}
		}()
		return c
	}
	// prep builds one of the calls a second caller may make
	prep := func(f []string) (string, func() string, bool) {
		if len(f) == 0 {
			return "", nil, false
		}
		arg := func(i int) string {
			if i < len(f) {
				return f[i]
			}
			return "0"
		}
		switch f[0] {
		case "addref":
			if !rc {
				return "", nil, false
			}
			k := atoi(arg(1))
			return fmt.Sprintf("addref %d", k), func() string {
				ref, d, e := a.addRef(k)
				mu.Lock()
				refs = append(refs, ref)
				n := len(refs) - 1
				mu.Unlock()
				return fmt.Sprintf("ref %d %d %s", n, d, bs(e))
			}, true
		case "release":
			i := atoi(arg(1))
			mu.Lock()
			ok := rc && i < len(refs)
			var ref *keyed.KeyedRef[int, int]
			if ok {
				ref = refs[i]
			}
			mu.Unlock()
			if !ok {
				return "", nil, false
			}
			released[i] = true
			return fmt.Sprintf("release %d", i), func() string { ref.Release(); return "unit" }, true
		case "rcremove":
			if !rc {
				return "", nil, false
			}
			k := atoi(arg(1))
			return fmt.Sprintf("rcremove %d", k), func() string { return "bool " + bs(a.rcRemove(k)) }, true
		case "setkey":
			if rc {
				return "", nil, false
			}
			k, st := atoi(arg(1)), arg(2) == "start"
			return fmt.Sprintf("setkey %d %s", k, map[bool]string{true: "start", false: "nostart"}[st]), func() string {
				d, e := a.setKey(k, st)
				return fmt.Sprintf("de %d %s", d, bs(e))
			}, true
		case "removekey":
			if rc {
				return "", nil, false
			}
			k := atoi(arg(1))
			return fmt.Sprintf("removekey %d", k), func() string { return "bool " + bs(a.removeKey(k)) }, true
		case "getkeys":
			return "getkeys", func() string { return "keys" + ints(a.getKeys()) }, true
		}
		return "", nil, false
	}
	// conds builds the condition functions of ResetRoutine & co. from the words `nil`, `key=K`, `par=P`
	// (a nil function, "the key is K", "data%2 == P") and returns the words as they are logged
	conds := func(ws []string) ([]func(int, int) bool, string) {
		var cs []func(int, int) bool
		logged := ""
		for _, w := range ws {
			switch {
			case w == "nil":
				cs = append(cs, nil)
			case strings.HasPrefix(w, "key="):
				kk := atoi(w[4:])
				cs = append(cs, func(key, _ int) bool { return key == kk })
			case strings.HasPrefix(w, "par="):
				pp := atoi(w[4:])
				cs = append(cs, func(_, data int) bool { return data%2 == pp })
			default:
				continue
			}
			logged += " " + w
		}
		if len(cs) > 0 {
			tags.Add("condition-functions")
		}
		return cs, logged
	}
	pendingRemoval := map[int]bool{}
	for si, step := range script {
		f := strings.Fields(step)
		if len(f) == 0 || (si == 0 && f[0] == "config") {
			continue
		}
		if hung.Load() {
			break
		}
		if (fresh || cbKind != "") && f[0] == "advhold" {
			// an exit bookkeeping held at the gate over the sleep would make the backoff's clock run out;
			// a call of an exit callback held at the gate would be pending at the `advance` line
			f[0] = "advance"
		}
		arg := func(i int) string {
			if i < len(f) {
				return f[i]
			}
			return "0"
		}
		switch f[0] {
		case "setctx":
			c, restart := atoi(arg(1)), arg(2) == "restart"
			ctx := getCtx(c)
			if c == 0 {
				tags.Add("clear-context")
			}
			installed = c
			call(fmt.Sprintf("setctx %d %s", ctxID(c), map[bool]string{true: "restart", false: "norestart"}[restart]), func() string {
				a.setContext(ctx, restart)
				return "unit"
			})
		case "cancelroot":
			// the root context that is installed is cancelled while it is installed (no call is in progress)
			if installed == 0 || hung.Load() {
				continue
			}
			if retry >= 0 || fresh {
				// with a cancelled context installed a routine fails the moment it is started; with retry configured
				// it would be retried several times within one advance, which the epochs cannot describe
				continue
			}
			if !logIdle("env cancelroot") {
				continue
			}
			tags.Add("root-cancelled-while-installed")
			ctxCancel[ctxID(installed)]()
			incarn[installed]++
			installed = 0
		case "clearctx":
			tags.Add("clear-context")
			installed = 0
			call("setctx 0 norestart", func() string {
				a.clearContext()
				return "unit"
			})
		case "optcheck":
			tags.Add("opt-check")
			if msg := optCheck(); msg != "" {
				log.Add("env fail %s", msg)
			}
		case "setkey":
			if rc {
				continue
			}
			k, st := atoi(arg(1)), arg(2) == "start"
			if pendingRemoval[k] {
				tags.Add("rerequest-before-deadline")
				delete(pendingRemoval, k)
			}
			if st {
				supersede(k)
			}
			call(fmt.Sprintf("setkey %d %s", k, map[bool]string{true: "start", false: "nostart"}[st]), func() string {
				d, e := a.setKey(k, st)
				return fmt.Sprintf("de %d %s", d, bs(e))
			})
		case "removekey":
			if rc {
				continue
			}
			k := atoi(arg(1))
			call(fmt.Sprintf("removekey %d", k), func() string {
				e := a.removeKey(k)
				if e && delay {
					pendingRemoval[k] = true
				}
				return "bool " + bs(e)
			})
		case "synckeys":
			if rc || len(f) < 2 {
				continue
			}
			ks := keysOf(f[2:])
			for _, k := range ks {
				if pendingRemoval[k] {
					tags.Add("rerequest-before-deadline")
					tags.Add("sync-keeps-leaving-key")
					delete(pendingRemoval, k)
				}
			}
			call("synckeys "+f[1]+ints(append([]int(nil), ks...)), func() string {
				// the call gets the keys in script order (duplicates included)
				added, removed := a.syncKeys(ks, f[1] == "restart")
				if delay {
					for _, k := range removed {
						pendingRemoval[k] = true
					}
				}
				return "sync" + ints(added) + " /" + ints(removed)
			})
		case "getkey":
			k := atoi(arg(1))
			call(fmt.Sprintf("getkey %d", k), func() string {
				d, e := a.getKey(k)
				return fmt.Sprintf("de %d %s", d, bs(e))
			})
		case "getkeys":
			call("getkeys", func() string { return "keys" + ints(a.getKeys()) })
		case "getkeysdata":
			call("getkeysdata", func() string {
				kd := a.getKeysWithData()
				sort.Slice(kd, func(i, j int) bool { return kd[i].Key < kd[j].Key })
				s := "keysdata"
				for _, x := range kd {
					s += fmt.Sprintf(" %d %d", x.Key, x.Data)
				}
				return s
			})
		case "reset":
			k := atoi(arg(1))
			supersede(k)
			if pendingRemoval[k] {
				tags.Add("reset-leaving-key")
				delete(pendingRemoval, k)
			}
			cs, cw := conds(f[2:])
			call(fmt.Sprintf("reset %d%s", k, cw), func() string {
				e, r := a.reset(k, cs...)
				return fmt.Sprintf("er %s %s", bs(e), bs(r))
			})
		case "restart":
			k := atoi(arg(1))
			supersede(k)
			cs, cw := conds(f[2:])
			call(fmt.Sprintf("restart %d%s", k, cw), func() string {
				e, r := a.restart(k, cs...)
				return fmt.Sprintf("er %s %s", bs(e), bs(r))
			})
		case "resetall":
			supersede(-1)
			cs, cw := conds(f[1:])
			call("resetall"+cw, func() string {
				n, t := a.resetAll(cs...)
				return fmt.Sprintf("counts %d %d", n, t)
			})
		case "restartall":
			supersede(-1)
			cs, cw := conds(f[1:])
			call("restartall"+cw, func() string {
				n, t := a.restartAll(cs...)
				return fmt.Sprintf("counts %d %d", n, t)
			})
		case "addref":
			if !rc {
				continue
			}
			k := atoi(arg(1))
			if pendingRemoval[k] {
				tags.Add("rerequest-before-deadline")
				delete(pendingRemoval, k)
			}
			supersede(k)
			call(fmt.Sprintf("addref %d", k), func() string {
				ref, d, e := a.addRef(k)
				mu.Lock()
				refs = append(refs, ref)
				n := len(refs) - 1
				mu.Unlock()
				return fmt.Sprintf("ref %d %d %s", n, d, bs(e))
			})
		case "release":
			if !rc {
				continue
			}
			i := atoi(arg(1))
			mu.Lock()
			nrefsNow := len(refs)
			mu.Unlock()
			if i >= nrefsNow {
				continue
			}
			if released[i] {
				tags.Add("double-release")
			}
			released[i] = true
			call(fmt.Sprintf("release %d", i), func() string {
				refs[i].Release()
				return "unit"
			})
		case "rcremove":
			if !rc {
				continue
			}
			k := atoi(arg(1))
			call(fmt.Sprintf("rcremove %d", k), func() string {
				e := a.rcRemove(k)
				if e && delay {
					pendingRemoval[k] = true
				}
				return "bool " + bs(e)
			})
		case "ret":
			tell(runByID(atoi(arg(1))), arg(2))
		case "retk":
			if rs := activeOf(atoi(arg(1))); len(rs) > 0 {
				tell(rs[0], arg(2))
			}
		case "probe":
			probe(runByID(atoi(arg(1))))
		case "probek":
			for _, r := range activeOf(atoi(arg(1))) {
				probe(r)
			}
		case "probeall":
			for _, r := range activeOf(-1) {
				probe(r)
			}
		case "nilnext":
			k := atoi(arg(1))
			log.Add("env nilnext %d", k)
			nilNext[k] = true
		case "pause":
			time.Sleep(time.Duration(rng.Intn(120)) * time.Microsecond)
		case "settle":
			comp.WaitQuiet(log, 400*time.Microsecond, 4*time.Millisecond)
		case "opengate":
			openGate()
		case "race":
			// race N call ; call
			n := atoi(arg(1))
			sep := -1
			for i, x := range f {
				if x == ";" {
					sep = i
				}
			}
			if sep < 3 || sep+1 >= len(f) || n < 1 {
				continue
			}
			openGate()
			i1, f1, ok1 := prep(f[2:sep])
			i2, f2, ok2 := prep(f[sep+1:])
			if !ok1 || !ok2 {
				continue
			}
			tags.Add("two-callers")
			g := h.AddGate("lock-enter", nil, n)
			var cw sync.WaitGroup
			cw.Add(2)
			d1 := make(chan struct{})
			go func() { defer cw.Done(); defer close(d1); call(i1, f1) }()
			// the first caller is parked at the gate, or has returned. (One of the two happens; the wait must not be
			// bounded by a short timer: a caller that reaches the gate after the timer has expired would stay parked
			// and `d1` would never close — seen as a scenario that did not end, under heavy load.)
			select {
			case <-d1:
			case <-waitHit(g, 3*time.Second):
				tags.Add("caller-held-at-mutex")
			case <-time.After(4 * time.Second):
				tags.Add("leaked-goroutine")
			}
			go func() { defer cw.Done(); call(i2, f2) }()
			time.Sleep(time.Duration(300+rng.Intn(700)) * time.Microsecond)
			g.Open()
			cd := make(chan struct{})
			go func() { cw.Wait(); close(cd) }()
			select {
			case <-cd:
			case <-time.After(2 * time.Second):
				tags.Add("leaked-goroutine")
			}
		case "advhold":
			if advances >= 8 {
				continue
			}
			advances++
			openGate()
			if timed && time.Since(burstStart) > burstLimit {
				res.Unstable = true
			}
			if !logIdle("advance") {
				continue
			}
			g := h.AddGate("lock-enter", nil, 1)
			time.Sleep(3 * D)
			if g.WaitHit(time.Millisecond) {
				// a timer callback (or an exit bookkeeping) has fired and waits for the mutex
				tags.Add("callback-held-at-mutex")
				held = &g
				holdStart = time.Now()
				comp.WaitQuiet(log, opt.Grace, 10*opt.Grace)
			} else {
				g.Open()
				comp.WaitQuiet(log, opt.Grace, 10*opt.Grace)
				logIdle("quiesce")
			}
			pendingRemoval = map[int]bool{}
			burstStart = time.Now()
		case "advance":
			if advances >= 8 {
				continue
			}
			advances++
			openGate()
			if timed && time.Since(burstStart) > burstLimit {
				// the epoch discipline was violated (machine too slow): not comparable
				res.Unstable = true
			}
			advancing.Store(true)
			if !logIdle("advance") {
				continue
			}
			mu.Lock()
			before := len(runs)
			mu.Unlock()
			time.Sleep(3 * D)
			comp.WaitQuiet(log, opt.Grace, 10*opt.Grace)
			logIdle("quiesce")
			advancing.Store(false)
			mu.Lock()
			if len(runs) > before {
				tags.Add("started-during-advance")
			}
			mu.Unlock()
			if len(pendingRemoval) > 0 {
				tags.Add("delayed-removal-expired")
			}
			pendingRemoval = map[int]bool{}
			burstStart = time.Now()
		}
	}
	openGate()
	if timed && time.Since(burstStart) > burstLimit {
		res.Unstable = true
	}
	comp.WaitQuiet(log, 2*time.Millisecond, 100*time.Millisecond)
	if lateCb.Load() {
		res.Unstable = true
	}
	if hung.Load() {
		// a call has not returned for hangLimit: the history ends with a quiescence point at which the call is
		// still pending (unless the machine itself stalled: then the run says nothing)
		if bigStall.Load() {
			res.Unstable = true
		}
		log.Add("quiesce")
	}
	cbOff.Store(true)
	lines := log.Lines()

	// ---- wind down: no context, every routine told to return, timers left to expire
	h.Uninstall()
	func() {
		defer func() { _ = recover() }()
		a.setContext(nil, false)
	}()
	for _, c := range cancels {
		c()
	}
	deadline := time.Now().Add(2 * time.Second)
	for time.Now().Before(deadline) {
		rs := activeOf(-1)
		for _, r := range rs {
			mu.Lock()
			r.told = true
			mu.Unlock()
			r.cmd <- "ok"
		}
		done := make(chan struct{})
		go func() { wg.Wait(); close(done) }()
		select {
		case <-done:
		case <-time.After(50 * time.Millisecond):
		}
		time.Sleep(500 * time.Microsecond)
		if len(activeOf(-1)) == 0 {
			break
		}
	}
	done := make(chan struct{})
	go func() { wg.Wait(); close(done) }()
	select {
	case <-done:
	case <-time.After(2 * time.Second):
		tags.Add("leaked-goroutine")
	}
	if timed {
		time.Sleep(D + 2*time.Millisecond) // let armed timers expire (their callbacks find nothing to do)
	}
	for _, l := range lines {
		if strings.HasSuffix(l, "canceled") {
			tags.Add("returned-canceled")
		}
		if strings.HasPrefix(l, "cbout") && strings.HasSuffix(l, "err") {
			tags.Add("returned-error")
		}
	}
	res.History, res.Tags = lines, tagSet.List()
	return res
}

// optCheck exercises entry points that the model does not describe, on objects of its own, and checks the
// documented behaviour directly. "" = fine.
func optCheck() (msg string) {
	defer func() {
		if p := recover(); p != nil {
			msg = fmt.Sprintf("panic: %v", p)
		}
	}()
	// a nil constructor callback: keys exist, their data is the zero value, there is nothing to run
	k := keyed.NewKeyed[int, int](nil)
	ctx, cancel := context.WithCancel(context.Background())
	defer cancel()
	k.SetContext(ctx, false)
	if d, e := k.SetKey(7, true); d != 0 || e {
		return "nilctor-setkey"
	}
	if d, e := k.GetKey(7); d != 0 || !e {
		return "nilctor-getkey"
	}
	if ex, rs := k.ResetRoutine(7); !ex || !rs {
		return "nilctor-reset"
	}
	if ks := k.GetKeys(); len(ks) != 1 || ks[0] != 7 {
		return "nilctor-getkeys"
	}
	if !k.RemoveKey(7) || len(k.GetKeys()) != 0 {
		return "nilctor-removekey"
	}
	krc := keyed.NewKeyedRefCount[int, int](nil)
	ref, d, e := krc.AddKeyRef(3)
	if ref == nil || d != 0 || e {
		return "nilctor-addref"
	}
	ref.Release()
	if len(krc.GetKeys()) != 0 {
		return "nilctor-release"
	}
	// Release on a nil reference does nothing
	var nilRef *keyed.KeyedRef[int, int]
	nilRef.Release()
	return ""
}

func gen(rng *rand.Rand, tier string) []string {
	steps := 12 + rng.Intn(18)
	if tier == "thorough" {
		steps = 20 + rng.Intn(40)
	}
	rc := rng.Intn(3) == 0
	delay := rng.Intn(2) == 0
	retry := -1
	if rng.Intn(2) == 0 {
		retry = []int{0, 1, 2, 50, -2}[rng.Intn(5)]
	}
	fresh := retry == -2 // WithRetry with the library's backoff config
	cfg := "config "
	if rc {
		cfg += "rc "
	} else {
		cfg += "plain "
	}
	if delay {
		cfg += "delay "
	} else {
		cfg += "nodelay "
	}
	if fresh {
		cfg += "fresh"
	} else if retry >= 0 {
		cfg += fmt.Sprintf("retry %d", retry)
	} else {
		cfg += "noretry"
	}
	if rng.Intn(10) == 0 {
		// an exit callback that calls back into the object
		cfg += " cb " + []string{"setkey", "getkey", "removekey"}[rng.Intn(3)]
	}
	// the same behaviour through other entry points of the library
	if delay && rng.Intn(4) == 0 {
		cfg += " negdelay"
	}
	if retry == -1 && rng.Intn(4) == 0 {
		cfg += " nilretry"
	}
	if rng.Intn(4) == 0 {
		cfg += " logger"
	}
	out := []string{cfg}
	if rng.Intn(8) == 0 {
		out = append(out, "optcheck")
	}
	nkeys := 2 + rng.Intn(4) // key universe 1..nkeys (≤ 5)
	key := func() int { return 1 + rng.Intn(nkeys) }
	how := func() string { return []string{"ok", "err", "err", "cancel"}[rng.Intn(4)] }
	rs := func() string { return []string{"restart", "norestart"}[rng.Intn(2)] }
	// condition functions of ResetRoutine & co.: none (mostly), or one or two of nil / key=K / par=P
	condWords := func() string {
		if rng.Intn(3) != 0 {
			return ""
		}
		s := ""
		for n := 1 + rng.Intn(2); n > 0; n-- {
			switch rng.Intn(4) {
			case 0:
				s += " nil"
			case 1:
				s += fmt.Sprintf(" key=%d", key())
			default:
				s += fmt.Sprintf(" par=%d", rng.Intn(2))
			}
		}
		return s
	}
	nrefs := 0
	var refKey []int // key of every reference taken so far (generator's view)
	addref := func(k int) string { refKey = append(refKey, k); nrefs++; return fmt.Sprintf("addref %d", k) }
	nilScenario := rng.Intn(16) == 0 // a few scenarios have constructors that return nil routines
	if rng.Intn(5) != 0 {
		out = append(out, "setctx 1 norestart")
	}
	inBurst := 0
	for i := 0; i < steps; i++ {
		if inBurst >= 7 {
			out = append(out, "advance")
			inBurst = 0
			continue
		}
		inBurst++
		// targeted placements (timer callbacks that have fired, two callers, failure while leaving)
		if t := rng.Intn(100); t < 9 {
			k := key()
			switch {
			case retry > 0 && t < 4:
				// a retry is pending; the context is cleared, or a reset / restart whose condition functions do not
				// match leaves the routine alone, inside the backoff window
				if rc {
					out = append(out, addref(k))
				} else {
					out = append(out, fmt.Sprintf("setkey %d start", k))
				}
				out = append(out, "settle", fmt.Sprintf("retk %d err", k), "settle")
				switch rng.Intn(6) {
				case 0:
					out = append(out, "clearctx")
				case 1:
					out = append(out, "setctx 0 norestart")
				case 2:
					out = append(out, fmt.Sprintf("reset %d %s", k, []string{"nil", "key=9", "nil key=8"}[rng.Intn(3)]))
				case 3:
					out = append(out, "resetall "+[]string{"nil", "key=9"}[rng.Intn(2)])
				case 4:
					out = append(out, fmt.Sprintf("restart %d %s", k, []string{"nil", "key=9"}[rng.Intn(2)]))
				default:
					out = append(out, "restartall "+[]string{"nil", "key=9 nil"}[rng.Intn(2)])
				}
				out = append(out, "advance", "probeall", "getkeys")
				inBurst = 2
				continue
			case fresh && t < 5:
				// a key that is new (or reset) in this epoch fails in it: its own backoff has not run out
				if rc {
					out = append(out, addref(k))
				} else {
					out = append(out, []string{fmt.Sprintf("setkey %d start", k), fmt.Sprintf("reset %d", k), fmt.Sprintf("synckeys restart %d", k)}[rng.Intn(3)])
				}
				out = append(out, "settle", fmt.Sprintf("retk %d err", k), "advance", "getkeys")
				inBurst = 1
				continue
			case delay && retry > 0 && !rc && t < 3:
				// the routine fails while its key is leaving; a non-restarting re-request keeps the retry
				out = append(out, fmt.Sprintf("setkey %d start", k), "settle", fmt.Sprintf("removekey %d", k),
					fmt.Sprintf("retk %d err", k), "settle",
					[]string{fmt.Sprintf("setkey %d nostart", k), fmt.Sprintf("synckeys norestart %d", k)}[rng.Intn(2)],
					"advance", "getkeys")
				inBurst = 1
				continue
			case delay && !rc && t < 6:
				// re-request after the removal timer fired, before its callback got the mutex
				out = append(out, fmt.Sprintf("setkey %d nostart", k), fmt.Sprintf("removekey %d", k), "advhold",
					[]string{fmt.Sprintf("setkey %d nostart", k), fmt.Sprintf("synckeys norestart %d", k), fmt.Sprintf("setkey %d start", k)}[rng.Intn(3)],
					"getkeys", "opengate", "getkeys", fmt.Sprintf("getkey %d", k))
				inBurst = 2
				continue
			case delay && rc && t < 6:
				out = append(out, addref(k), fmt.Sprintf("release %d", nrefs-1), "advhold", addref(k), "getkeys", "opengate", "getkeys")
				inBurst = 2
				continue
			case rc && t >= 6:
				// two callers: the last reference is released while a new one is taken
				out = append(out, fmt.Sprintf("rcremove %d", k), addref(k))
				last := nrefs - 1
				switch rng.Intn(4) {
				case 0:
					out = append(out, fmt.Sprintf("race 2 release %d ; %s", last, addref(k)))
				case 1:
					out = append(out, fmt.Sprintf("race 1 %s ; release %d", addref(k), last))
				case 2:
					out = append(out, fmt.Sprintf("race 2 release %d ; getkeys", last))
				default:
					out = append(out, fmt.Sprintf("race 2 rcremove %d ; %s", k, addref(k)))
				}
				out = append(out, "getkeys", fmt.Sprintf("getkey %d", k))
				continue
			}
		}
		r := rng.Intn(100)
		switch {
		case r < 18:
			if rc {
				out = append(out, addref(key()))
			} else {
				out = append(out, fmt.Sprintf("setkey %d %s", key(), []string{"start", "nostart"}[rng.Intn(2)]))
			}
		case r < 28:
			k := key()
			if rc {
				if nrefs > 0 && rng.Intn(3) != 0 {
					out = append(out, fmt.Sprintf("release %d", rng.Intn(nrefs)))
				} else {
					out = append(out, fmt.Sprintf("rcremove %d", k))
					if rng.Intn(2) == 0 {
						// a reference taken after RemoveKey is the only live one
						out = append(out, addref(k), fmt.Sprintf("release %d", nrefs-1), "getkeys")
					}
				}
			} else {
				out = append(out, fmt.Sprintf("removekey %d", k))
			}
			out = append(out, fmt.Sprintf("probek %d", k))
		case r < 36:
			if rc {
				if nrefs > 0 {
					j := rng.Intn(nrefs)
					out = append(out, fmt.Sprintf("release %d", j))
					if rng.Intn(3) == 0 {
						out = append(out, fmt.Sprintf("release %d", j))
					}
				}
			} else {
				n := rng.Intn(4)
				s := "synckeys " + rs()
				for j := 0; j < n; j++ {
					s += fmt.Sprintf(" %d", key())
				}
				out = append(out, s)
			}
		case r < 44:
			out = append(out, []string{"getkeys", "getkeysdata", fmt.Sprintf("getkey %d", key())}[rng.Intn(3)])
		case r < 56:
			out = append(out, fmt.Sprintf("retk %d %s", key(), how()))
		case r < 64:
			out = append(out, fmt.Sprintf("restart %d", key())+condWords())
		case r < 70:
			out = append(out, fmt.Sprintf("reset %d", key())+condWords())
		case r < 73:
			out = append(out, []string{"resetall", "restartall"}[rng.Intn(2)]+condWords())
		case r < 80:
			c := rng.Intn(3)
			if c == 0 && rng.Intn(2) == 0 {
				out = append(out, "clearctx")
			} else {
				out = append(out, fmt.Sprintf("setctx %d %s", c, rs()))
			}
			if c == 0 {
				out = append(out, "probeall")
			}
		case r >= 80 && r < 82 && !nilScenario:
			// the installed root context is cancelled; then a call that looks at it, or one that does not
			k := key()
			out = append(out, "cancelroot", "probeall")
			switch rng.Intn(5) {
			case 0:
				if !rc {
					out = append(out, fmt.Sprintf("synckeys %s %d %d", rs(), k, key()))
				} else {
					out = append(out, addref(k))
				}
			case 1:
				out = append(out, fmt.Sprintf("reset %d", k))
			case 2:
				out = append(out, fmt.Sprintf("restart %d", k))
			case 3:
				if !rc {
					out = append(out, fmt.Sprintf("setkey %d start", k))
				} else {
					out = append(out, "restartall")
				}
			default:
				out = append(out, "resetall")
			}
		case r < 81 && nilScenario:
			k := key()
			out = append(out, fmt.Sprintf("nilnext %d", k), fmt.Sprintf("reset %d", k))
		case r < 84:
			out = append(out, "settle")
		case r < 87:
			out = append(out, "pause")
		case r < 90:
			out = append(out, "probeall")
		default:
			out = append(out, "advance")
			inBurst = 0
		}
	}
	out = append(out, "advance", "getkeys", "getkeysdata", "probeall")
	return out
}

func init() {
	comp.Register(&comp.Component{
		Name: "keyed", Model: "keyed", Gen: gen, Exec: exec,
		Corpus: [][]string{
			// C07-d3: the context is cleared while a retry is pending: nothing is started again (both ways to clear,
			// both kinds of object)
			{"config plain nodelay retry 50", "setctx 1 norestart", "setkey 1 start", "settle", "retk 1 err", "settle", "clearctx", "advance", "probeall", "getkeys", "setctx 1 norestart", "advance", "probeall"},
			{"config rc nodelay retry 2", "setctx 1 norestart", "addref 1", "settle", "retk 1 err", "settle", "setctx 0 norestart", "advance", "probeall", "getkeys", "advance"},
			{"config rc delay retry 50", "setctx 2 norestart", "addref 2", "settle", "retk 2 err", "settle", "clearctx", "advance", "probeall", "advance", "getkeysdata"},
			// C07-d2: a reset / restart whose condition functions do not match does not touch a pending retry
			{"config plain nodelay retry 50", "setctx 1 norestart", "setkey 1 start", "settle", "retk 1 err", "settle", "reset 1 nil", "reset 1 key=2", "advance", "probeall", "getkeysdata"},
			{"config plain delay retry 2", "setctx 1 norestart", "setkey 1 start", "setkey 2 start", "settle", "retk 2 err", "settle", "resetall key=9", "restartall nil", "restart 2 key=1", "advance", "probeall", "getkeysdata"},
			{"config rc nodelay retry 50", "setctx 1 norestart", "addref 1", "settle", "retk 1 err", "settle", "resetall nil", "reset 1 par=0", "advance", "probeall", "getkeysdata"},
			// C07-s3/b3: the retry timer of a record that ResetRoutine has replaced fires and must do nothing
			{"config plain nodelay retry 50", "setctx 1 norestart", "setkey 1 start", "settle", "retk 1 err", "settle", "reset 1", "advance", "getkeysdata", "probeall", "retk 1 ok", "advance", "getkeysdata"},
			{"config plain delay retry 2", "setctx 1 norestart", "setkey 1 start", "setkey 2 start", "settle", "retk 2 err", "settle", "resetall", "advance", "probeall", "retk 2 err", "advance", "getkeysdata"},
			// the root context is cancelled while installed: SyncKeys / ResetRoutine / RestartRoutine forget it
			// (nothing is started, RestartRoutine reports false); SetKey(start) starts with the cancelled context
			{"config plain nodelay noretry", "setctx 1 norestart", "setkey 1 start", "settle", "cancelroot", "probeall", "restart 1", "setkey 2 start", "getkeys", "retk 1 cancel", "advance", "setctx 1 norestart", "advance", "probeall"},
			{"config plain delay noretry", "setctx 1 norestart", "setkey 1 start", "settle", "cancelroot", "setkey 2 start", "advance", "synckeys restart 1 2 3", "advance", "retk 1 cancel", "removekey 2", "getkeys", "advance", "getkeys", "setctx 2 restart", "advance", "probeall"},
			{"config rc nodelay noretry", "setctx 2 norestart", "addref 1", "settle", "cancelroot", "reset 1", "getkeysdata", "retk 1 cancel", "advance", "restartall", "setctx 2 norestart", "advance", "probeall"},
			{"config plain nodelay noretry nilretry", "setctx 1 norestart", "cancelroot", "setkey 1 start", "advance", "advance", "resetall", "setkey 2 start", "advance", "getkeysdata"},
			// condition functions of ResetRoutine / RestartRoutine / …All: no match (also a lone nil) = nothing happens
			{"config plain nodelay noretry", "setctx 1 norestart", "setkey 1 start", "setkey 2 start", "settle", "reset 1 par=0", "reset 1 par=1", "reset 1 nil", "restart 2 key=1", "restart 2 nil key=2", "getkeysdata", "resetall par=0", "getkeysdata", "restartall key=2 nil", "resetall nil", "getkeysdata", "advance", "probeall"},
			{"config rc delay noretry logger", "setctx 1 norestart", "addref 1", "addref 2", "reset 2 par=1 key=7", "getkeysdata", "restartall par=0", "resetall key=1 par=1", "getkeysdata", "advance", "clearctx", "restart 1 key=1", "probeall"},
			// C07-c3: WithRetry gives every record its own backoff object: a key that is new in an epoch and fails in
			// it is retried although another key's backoff has run out; so is a key after ResetRoutine
			{"config plain nodelay fresh", "setctx 1 norestart", "setkey 1 start", "settle", "retk 1 err", "advance", "retk 1 err", "advance", "setkey 2 start", "settle", "retk 2 err", "advance", "getkeys", "retk 2 ok", "advance"},
			{"config plain nodelay fresh", "setctx 1 norestart", "setkey 1 start", "advance", "advance", "retk 1 err", "advance", "reset 1", "settle", "retk 1 err", "advance", "getkeysdata", "probeall"},
			{"config rc delay fresh", "setctx 1 norestart", "addref 1", "advance", "retk 1 ok", "settle", "setkey 1 start", "advance", "addref 2", "settle", "retk 2 err", "advance", "getkeys"},
			// C07-c2: exit callbacks run without the mutex: a callback may call back into the object
			{"config plain nodelay retry 50 cb setkey", "setctx 1 norestart", "setkey 1 start", "settle", "retk 1 err", "settle", "advance", "getkeys", "retk 1 ok", "settle", "removekey 1", "advance", "getkeys"},
			{"config plain delay noretry cb removekey", "setctx 1 norestart", "setkey 1 start", "setkey 2 start", "settle", "retk 1 ok", "settle", "getkeys", "advance", "getkeys", "retk 2 err", "advance", "getkeysdata"},
			{"config rc nodelay retry 1 cb getkey", "setctx 1 norestart", "addref 1", "settle", "retk 1 err", "advance", "retk 1 err", "advance", "getkeys"},
			// D5: delayed removal, then SyncKeys keeps the key
			{"config plain delay noretry", "setctx 1 norestart", "setkey 1 start", "removekey 1", "synckeys norestart 1", "advance", "getkeys", "getkey 1"},
			// delayed removal on both sides of advance
			{"config plain delay noretry", "setctx 1 norestart", "setkey 1 start", "setkey 2 start", "removekey 1", "removekey 2", "setkey 1 nostart", "advance", "getkeys", "setkey 2 nostart", "getkeysdata", "probeall"},
			// D6: SetKey(start=false) while a retry is pending
			{"config plain nodelay retry 50", "setctx 1 norestart", "setkey 1 start", "settle", "retk 1 err", "settle", "setkey 1 nostart", "advance", "retk 1 err", "setkey 1 nostart", "getkey 1", "advance", "getkeys"},
			// D2: two restarts inside one exit latency
			{"config plain nodelay noretry", "setctx 1 norestart", "setkey 1 start", "settle", "restart 1", "restart 1", "settle", "ret 0 cancel", "settle", "retk 1 ok", "advance"},
			// D3: reset without a context, then a context
			{"config plain nodelay noretry", "setctx 1 norestart", "setkey 1 start", "settle", "setctx 0 norestart", "reset 1", "setctx 2 norestart", "settle", "ret 0 ok", "settle", "probeall", "advance"},
			// refcount: double release, remove with live refs, re-add before the deadline
			{"config rc delay noretry", "setctx 1 norestart", "addref 1", "addref 1", "addref 2", "release 0", "release 0", "getkeys", "release 1", "getkeys", "addref 1", "advance", "getkeys", "rcremove 2", "release 2", "advance", "getkeysdata"},
			// removal cancels; clear context cancels
			{"config plain nodelay noretry", "setctx 1 norestart", "setkey 1 start", "setkey 2 start", "settle", "removekey 1", "probek 1", "setctx 0 norestart", "probeall", "retk 1 cancel", "retk 2 cancel", "advance"},
			// refcount: references taken after RemoveKey are the only live ones
			{"config rc nodelay noretry", "setctx 1 norestart", "addref 1", "addref 1", "rcremove 1", "getkeys", "addref 1", "release 2", "getkeys", "release 0", "release 1", "addref 1", "getkeysdata", "release 3", "getkeys"},
			// D17: ResetRoutine whose constructor returns a nil Routine forgets the exit channel of the routine it replaces
			{"config plain nodelay noretry", "setctx 1 norestart", "setkey 1 start", "advance", "nilnext 1", "reset 1", "reset 1", "advance", "probeall", "ret 0 ok", "settle", "retk 1 ok", "advance"},
			// a nil routine is never started; the key behaves like any other
			{"config plain delay noretry", "setctx 1 norestart", "nilnext 1", "setkey 1 start", "setkey 2 start", "getkeysdata", "restart 1", "setctx 2 restart", "removekey 1", "setkey 1 start", "advance", "getkeysdata", "removekey 1", "advance", "getkeys", "setkey 1 start", "advance", "probeall"},
			// C07-s1: the routine fails while its key is leaving; SetKey(k, false) / SyncKeys(.., false) keep the key and its retry
			{"config plain delay retry 50", "setctx 1 norestart", "setkey 1 start", "advance", "removekey 1", "retk 1 err", "settle", "setkey 1 nostart", "advance", "getkeys", "retk 1 err", "removekey 1", "advance", "getkeys"},
			{"config plain delay retry 50", "setctx 1 norestart", "setkey 1 start", "setkey 2 start", "advance", "synckeys norestart 2", "retk 1 err", "settle", "synckeys norestart 1 2", "advance", "getkeysdata", "retk 1 ok", "advance"},
			// C06-s2: the removal timer has fired, its callback waits for the mutex, the key is requested again
			{"config plain delay noretry", "setctx 1 norestart", "setkey 1 start", "setkey 2 start", "removekey 1", "advhold", "setkey 1 nostart", "getkeys", "opengate", "getkeys", "getkey 1", "advance", "getkeys"},
			{"config plain delay noretry", "setctx 1 norestart", "setkey 1 start", "setkey 2 start", "removekey 1", "removekey 2", "advhold", "synckeys norestart 1 2", "opengate", "getkeys", "advance", "getkeysdata"},
			{"config rc delay noretry", "setctx 1 norestart", "addref 1", "release 0", "advhold", "addref 1", "getkeys", "opengate", "getkeys", "getkey 1", "advance", "getkeys"},
			// C06-s3: two callers — the last reference is released while a new one is taken
			{"config rc nodelay noretry", "setctx 1 norestart", "addref 1", "race 2 release 0 ; addref 1", "getkeys", "getkey 1", "release 1", "getkeys"},
			{"config rc delay noretry", "setctx 1 norestart", "addref 1", "addref 2", "race 2 release 0 ; addref 1", "getkeys", "advance", "getkeys", "getkey 1", "race 2 rcremove 2 ; addref 2", "getkeys", "advance", "getkeys"},
			// a routine that returned nil is still subject to the release delay
			{"config plain delay noretry", "setctx 1 norestart", "setkey 1 start", "settle", "retk 1 ok", "settle", "removekey 1", "getkeys", "getkey 1", "advance", "getkeys"},
			// a failed routine is removed at once even with a delay; retry then stops
			{"config plain delay retry 1", "setctx 1 norestart", "setkey 1 start", "settle", "retk 1 err", "advance", "retk 1 err", "advance", "removekey 1", "getkeys", "advance"},
		},
	})
}
