//go:build verif

// Package csync drives csync.Mutex and csync.RWMutex.
//
// Script steps (i is the index of the i-th lock/trylock step of the script, 0-based):
//
//	lock w|r      start Lock(ctx) with a fresh context in its own goroutine
//	trylock w|r   TryLock, synchronously
//	atrylock w|r  TryLock from a new goroutine (races the critical sections of other calls)
//	llock w|r     Locker()/RLocker().Lock() in its own goroutine (logged as a lock call)
//	lunlock w|r   Locker.Unlock(), logged as the release of the most recent still-held locker lock
//	              of that mode (readers are interchangeable, see DESIGN §6 C01)
//	release i     call the release function of lock step i (skipped unless it returned one)
//	arelease i    the same from a new goroutine
//	cancel i      cancel the context of lock step i
//	pause         sleep a few microseconds
//	settle        wait until nothing has been logged for a short while (not logged)
//	quiesce       wait for the grace period and log the set of pending calls
package csync

import (
	"context"
	"fmt"
	"math/rand"
	"strconv"
	"strings"
	"sync"
	"time"

	"github.com/aperturerobotics/util/csync"

	"verifharness/comp"
	"verifharness/hist"
	"verifharness/hook"
)

type lockCall struct {
	id     int
	cancel context.CancelFunc
	noCtx  bool // the call has no cancellable context (TryLock, Locker.Lock)
	mu     sync.Mutex
	rel    func()
}

func (c *lockCall) getRel() func() {
	c.mu.Lock()
	defer c.mu.Unlock()
	return c.rel
}

func exec(rw bool) func(script []string, opt comp.Options) comp.Result {
	return func(script []string, opt comp.Options) comp.Result {
		log := hist.New()
		tags := comp.TagSet{}
		h := hook.Install(opt.Seed, hook.Perturb{Prob: 0.4, MaxSleep: 200 * time.Microsecond})
		defer h.Uninstall()
		rng := rand.New(rand.NewSource(opt.Seed ^ 0x5eed))

		var mtx csync.Mutex
		var rwm csync.RWMutex
		lock := func(ctx context.Context, w bool) (func(), error) {
			if rw {
				return rwm.Lock(ctx, w)
			}
			return mtx.Lock(ctx)
		}
		trylock := func(w bool) (func(), bool) {
			if rw {
				return rwm.TryLock(w)
			}
			return mtx.TryLock()
		}

		var calls []*lockCall
		var wg sync.WaitGroup
		// lockers: one shared sync.Locker per mode; held[mode] = ids of returned, not yet unlocked Locker.Lock calls
		var lmu sync.Mutex
		lockers := map[string]sync.Locker{}
		held := map[string][]int{}
		getLocker := func(w bool) sync.Locker {
			lmu.Lock()
			defer lmu.Unlock()
			k := "r"
			if w {
				k = "w"
			}
			if l := lockers[k]; l != nil {
				return l
			}
			var l sync.Locker
			switch {
			case !rw:
				l = mtx.Locker()
			case w:
				l = rwm.Locker()
			default:
				l = rwm.RLocker()
			}
			lockers[k] = l
			return l
		}
		mode := func(s string) (bool, string) {
			if !rw {
				return true, "w"
			}
			return s == "w", s
		}
		for _, step := range script {
			f := strings.Fields(step)
			if len(f) == 0 {
				continue
			}
			switch f[0] {
			case "lock":
				w, ms := mode(f[1])
				ctx, cancel := context.WithCancel(context.Background())
				c := &lockCall{cancel: cancel}
				c.id = log.Inv("lock %s", ms)
				calls = append(calls, c)
				wg.Add(1)
				go func() {
					defer wg.Done()
					rel, err := lock(ctx, w)
					if err != nil {
						log.Ret(c.id, "lock canceled")
						return
					}
					// publish the release function only after the return is logged, so that a
					// release can never be logged before the return it belongs to
					log.Ret(c.id, "lock ok %s", ms)
					c.mu.Lock()
					c.rel = rel
					c.mu.Unlock()
				}()
			case "trylock", "atrylock":
				w, ms := mode(f[1])
				c := &lockCall{cancel: func() {}, noCtx: true}
				c.id = log.Inv("trylock %s", ms)
				calls = append(calls, c)
				do := func() {
					rel, ok := trylock(w)
					if ok {
						log.Ret(c.id, "trylock true %s", ms)
						c.mu.Lock()
						c.rel = rel
						c.mu.Unlock()
					} else {
						log.Ret(c.id, "trylock false")
					}
				}
				if f[0] == "trylock" {
					do()
				} else {
					wg.Add(1)
					go func() { defer wg.Done(); do() }()
				}
			case "llock":
				w, ms := mode(f[1])
				l := getLocker(w)
				c := &lockCall{cancel: func() {}, noCtx: true}
				c.id = log.Inv("lock %s", ms)
				calls = append(calls, c)
				tags.Add("locker")
				wg.Add(1)
				go func() {
					defer wg.Done()
					l.Lock()
					log.Ret(c.id, "lock ok %s", ms)
					lmu.Lock()
					held[ms] = append(held[ms], c.id)
					lmu.Unlock()
				}()
			case "lunlock":
				w, ms := mode(f[1])
				l := getLocker(w)
				lmu.Lock()
				n := len(held[ms])
				if n == 0 {
					lmu.Unlock()
					continue
				}
				t := held[ms][n-1]
				held[ms] = held[ms][:n-1]
				lmu.Unlock()
				id := log.Inv("release %d", t)
				func() {
					// Unlock panics only if the locker lost track of its holders (never on correct
					// code: the harness unlocks only what it locked); log it as a result the model
					// does not know, so that the history is rejected instead of crashing the run
					defer func() {
						if r := recover(); r != nil {
							log.Ret(id, "release panic")
							tags.Add("panic")
						}
					}()
					l.Unlock()
					log.Ret(id, "release")
				}()
			case "release", "arelease":
				i, _ := strconv.Atoi(f[1])
				if i >= len(calls) {
					continue
				}
				c := calls[i]
				rel := c.getRel()
				if rel == nil {
					continue
				}
				do := func() {
					id := log.Inv("release %d", c.id)
					rel()
					log.Ret(id, "release")
				}
				if f[0] == "release" {
					do()
				} else {
					wg.Add(1)
					go func() { defer wg.Done(); do() }()
				}
			case "cancel":
				i, _ := strconv.Atoi(f[1])
				if i >= len(calls) || calls[i].noCtx {
					continue
				}
				log.Add("env cancel %d", calls[i].id)
				calls[i].cancel()
			case "pause":
				time.Sleep(time.Duration(rng.Intn(120)) * time.Microsecond)
			case "settle":
				comp.WaitQuiet(log, 2*time.Millisecond, 200*time.Millisecond)
			case "quiesce":
				comp.WaitQuiet(log, opt.Grace, 10*opt.Grace)
				if log.NumPending() > 0 {
					tags.Add("blocked-at-quiesce")
				}
				log.Quiesce()
			}
		}
		// wind down: cancel everything still pending so no goroutine is leaked
		comp.WaitQuiet(log, 2*time.Millisecond, 200*time.Millisecond)
		lines := log.Lines()
		for _, c := range calls {
			c.cancel()
		}
		// release every lock still held so that Locker.Lock calls (which cannot be cancelled) return
		go func() {
			for i := 0; i < 200; i++ {
				for _, c := range calls {
					if rel := c.getRel(); rel != nil {
						rel()
					}
				}
				lmu.Lock()
				for ms, ids := range held {
					for range ids {
						func() {
							defer func() { _ = recover() }()
							lockers[ms].Unlock()
						}()
					}
					held[ms] = nil
				}
				lmu.Unlock()
				time.Sleep(time.Millisecond)
			}
		}()
		done := make(chan struct{})
		go func() { wg.Wait(); close(done) }()
		select {
		case <-done:
		case <-time.After(2 * time.Second):
			tags.Add("leaked-goroutine")
		}
		for _, l := range lines {
			if strings.HasSuffix(l, "canceled") {
				tags.Add("canceled")
			}
			if strings.HasSuffix(l, "trylock false") {
				tags.Add("try-failed")
			}
		}
		return comp.Result{History: lines, Tags: tags.List()}
	}
}

func gen(rw bool) func(rng *rand.Rand, tier string) []string {
	return func(rng *rand.Rand, tier string) []string {
		maxLocks, steps := 6, 10+rng.Intn(16)
		if tier == "thorough" {
			// more and somewhat longer scenarios, not more concurrency: the cost of deciding trace
			// inclusion grows steeply with the number of simultaneously pending calls
			maxLocks, steps = 8, 15+rng.Intn(40)
		}
		var out []string
		nlocks := 0
		if !rw && rng.Intn(3) == 0 {
			// mutex templates: (a) the holder releases while a waiter is cancelled (hand-over vs give-up);
			// (b) the same release function called twice concurrently while others try to acquire
			var out []string
			nw := 1 + rng.Intn(3)
			if rng.Intn(2) == 0 {
				out = append(out, "trylock w")
			} else {
				out = append(out, "lock w", "settle")
			}
			for i := 0; i < nw; i++ {
				out = append(out, "lock w")
			}
			out = append(out, "settle")
			var acts []string
			if rng.Intn(2) == 0 {
				acts = append(acts, "arelease 0")
				if rng.Intn(2) == 0 {
					acts = append(acts, fmt.Sprintf("cancel %d", 1+rng.Intn(nw)))
				} else {
					// whoever wins the hand-over is being cancelled at that very moment
					for i := 1; i <= nw; i++ {
						acts = append(acts, fmt.Sprintf("cancel %d", i))
					}
					acts = append(acts, "lock w")
				}
			} else {
				acts = append(acts, "arelease 0", "arelease 0")
				if rng.Intn(2) == 0 {
					acts = append(acts, "atrylock w")
				}
			}
			if rng.Intn(3) == 0 {
				acts = append(acts, fmt.Sprintf("cancel %d", 1+rng.Intn(nw)))
			}
			rng.Shuffle(len(acts), func(i, j int) { acts[i], acts[j] = acts[j], acts[i] })
			out = append(out, acts...)
			out = append(out, "quiesce")
			for i := 1; i <= nw+1; i++ {
				out = append(out, fmt.Sprintf("arelease %d", i), fmt.Sprintf("arelease %d", i), "settle")
			}
			out = append(out, "trylock w", "quiesce")
			return out
		}
		if rw && rng.Intn(4) == 0 {
			// template: holders, a waiting writer, readers/writers queued behind it, then the holders
			// release and the writer is cancelled at (almost) the same time — the hand-over windows
			// between a release's broadcast, the waiters' re-checks and the give-up critical section
			nh, nq := 1+rng.Intn(2), 1+rng.Intn(2)
			for i := 0; i < nh; i++ {
				out = append(out, "lock r")
			}
			out = append(out, "settle", "lock w", "settle")
			w := nh
			for i := 0; i < nq; i++ {
				if rng.Intn(4) == 0 {
					out = append(out, "lock w")
				} else {
					out = append(out, "lock r")
				}
			}
			out = append(out, "settle")
			var acts []string
			for i := 0; i < nh; i++ {
				if rng.Intn(2) == 0 {
					acts = append(acts, fmt.Sprintf("arelease %d", i))
				} else {
					acts = append(acts, fmt.Sprintf("release %d", i))
				}
			}
			acts = append(acts, fmt.Sprintf("cancel %d", w))
			rng.Shuffle(len(acts), func(i, j int) { acts[i], acts[j] = acts[j], acts[i] })
			for _, a := range acts {
				out = append(out, a)
				if rng.Intn(5) == 0 {
					out = append(out, "pause")
				}
			}
			out = append(out, "quiesce")
			for i := 0; i < nh+1+nq; i++ {
				out = append(out, fmt.Sprintf("release %d", i), "settle")
			}
			out = append(out, "quiesce")
			return out
		}
		m := func() string {
			if !rw || rng.Intn(2) == 0 {
				return "w"
			}
			return "r"
		}
		for i := 0; i < steps; i++ {
			r := rng.Intn(100)
			switch {
			case r < 25 && nlocks < maxLocks:
				out = append(out, "lock "+m())
				nlocks++
			case r < 30 && nlocks < maxLocks:
				out = append(out, "trylock "+m())
				nlocks++
			case r < 35 && nlocks < maxLocks:
				out = append(out, "atrylock "+m())
				nlocks++
			case r < 38 && nlocks < maxLocks:
				out = append(out, "llock "+m())
				nlocks++
			case r < 42:
				out = append(out, "lunlock "+m())
			case r < 55 && nlocks > 0:
				out = append(out, fmt.Sprintf("release %d", rng.Intn(nlocks)))
			case r < 62 && nlocks > 0:
				out = append(out, fmt.Sprintf("arelease %d", rng.Intn(nlocks)))
			case r < 75 && nlocks > 0:
				out = append(out, fmt.Sprintf("cancel %d", rng.Intn(nlocks)))
			case r < 83:
				out = append(out, "pause")
			case r < 92:
				out = append(out, "settle")
			default:
				out = append(out, "quiesce")
			}
		}
		out = append(out, "quiesce")
		// release everything, then a last quiescence point
		for i := 0; i < nlocks; i++ {
			out = append(out, "settle", fmt.Sprintf("release %d", i))
		}
		for i := 0; i < nlocks; i++ {
			out = append(out, "lunlock w", "lunlock r", "settle")
		}
		out = append(out, "quiesce")
		return out
	}
}

func init() {
	comp.Register(&comp.Component{
		Name: "csync-rw", Model: "csync-rw", Gen: gen(true), Exec: exec(true),
		Corpus: [][]string{
			// D1: reader holds, writer waits, reader queues behind writer, writer gives up
			{"lock r", "settle", "lock w", "settle", "lock r", "settle", "cancel 1", "quiesce", "release 0", "quiesce", "release 2", "quiesce"},
			// hand-off with double release
			{"lock w", "settle", "lock w", "lock w", "settle", "release 0", "release 0", "settle", "release 0", "quiesce", "release 1", "release 2", "settle", "release 1", "release 2", "quiesce"},
			// TryLock racing the critical sections of other calls
			{"lock r", "atrylock w", "atrylock w", "arelease 0", "atrylock r", "atrylock w", "settle", "atrylock w", "lock r", "atrylock w", "quiesce"},
			{"atrylock w", "atrylock w", "atrylock r", "atrylock w", "atrylock r", "settle", "atrylock r", "atrylock w", "lock w", "atrylock w", "quiesce"},
			// last holder releases while the waiting writer gives up and a reader is queued behind it
			{"lock r", "settle", "lock w", "settle", "lock r", "settle", "arelease 0", "cancel 1", "quiesce", "release 2", "quiesce"},
			{"lock r", "settle", "lock w", "settle", "lock r", "settle", "release 0", "cancel 1", "quiesce", "release 2", "quiesce"},
			{"lock r", "lock r", "settle", "lock w", "settle", "lock r", "lock r", "settle", "arelease 0", "arelease 1", "cancel 2", "quiesce", "release 3", "release 4", "quiesce"},
			// lockers: shared RLocker/Locker, unlock order, hand-over to a plain Lock
			{"llock r", "llock r", "settle", "llock w", "settle", "lunlock r", "quiesce", "lunlock r", "quiesce", "lock r", "settle", "lunlock w", "quiesce", "release 3", "quiesce"},
			// reader crowd, then writer, trylocks in between
			{"lock r", "lock r", "trylock r", "trylock w", "lock w", "settle", "trylock r", "release 0", "release 1", "release 2", "quiesce", "release 4", "quiesce"},
		},
	})
	comp.Register(&comp.Component{
		Name: "csync-mutex", Model: "csync-mutex", Gen: gen(false), Exec: exec(false),
		Corpus: [][]string{
			{"lock w", "settle", "lock w", "lock w", "settle", "cancel 1", "release 0", "release 0", "quiesce", "release 2", "quiesce"},
			{"trylock w", "trylock w", "lock w", "settle", "release 0", "settle", "trylock w", "release 2", "release 0", "quiesce"},
			{"atrylock w", "atrylock w", "atrylock w", "lock w", "atrylock w", "settle", "arelease 0", "atrylock w", "atrylock w", "quiesce"},
			{"llock w", "settle", "llock w", "lock w", "settle", "lunlock w", "quiesce", "lunlock w", "quiesce", "release 2", "quiesce"},
		},
	})
}
