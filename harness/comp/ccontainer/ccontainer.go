//go:build verif

// Package ccontainer drives ccontainer.CContainer[int] (0 = the empty value).
//
// Script steps (i is the index of the i-th call-creating step, 0-based; call-creating steps are
// get, set, swap and wait; j is the index of the j-th gate step):
//
//	new v m            (first step) NewCContainer(v) if m == 0, else NewCContainerWithEqual(v, equal modulo m)
//	newvt v            (first step) NewCContainerVT over a vtproto message type: every value is a fresh message,
//	                   equality is EqualVT (by content); logged as "new v 0"
//	get [a]            GetValue           (a: do not wait for the call to return)
//	set [a] v          SetValue(v)
//	swap [a] inc|setk k|clear|nil   SwapValue with that callback (nil: nil callback)
//	wait <kind> [ech] [pre]   a wait call in its own goroutine with a fresh context (pre: cancelled before
//	                   the call; ech: with an error channel); kinds: value (WaitValue), change o
//	                   (WaitValueChange), empty (WaitValueEmpty), and WaitValueWithValidator with
//	                   vnil (nil validator), veq k (v == k), vge k (v >= k), verr k (error when v == k, true when v > k)
//	watch init [ech] [pre] [errat k]   WatchChanges(ctx, init, ToWatchable(c), cb, errCh) in its own goroutine; the
//	                   callback returns an error when it is given the value k. Watchers have their own ids
//	                   ("winv w init [ech]", "wcbin w v", "wcbout w ok|err", "wret w cberr|err e|canceled").
//	                   Every inner WaitValueChange call WatchChanges makes is logged as an ordinary wait call
//	                   ("inv t wait change old [ech]" … "ret t wait …") followed by "wcall w t"; the state
//	                   of the watcher's shared context and error channel is replayed onto each inner call
//	                   ("env cancel t", "env errsend t e", … right after its invocation).
//	cancel i           cancel the context of call i
//	errsend i e        send error number e (>= 2) on the error channel of call i
//	errnil i           send a nil error on it
//	errclose i         close it
//	gate kind nth | hit j | open j    as in the broadcast component (any Broadcast object)
//	pause | settle | quiesce
//
// History lines: "new v m", "inv 0 get", "ret 0 get 3", "inv 1 set 4", "ret 1 set", "inv 2 swap inc",
// "ret 2 swap 5", "inv 3 wait change 4 ech", "ret 3 wait val 5|ok|err e|canceled", "env cancel 3",
// "env errsend 3 2", "env errnil 3", "env errclose 3", "quiesce ...".
package ccontainer

import (
	"context"
	"errors"
	"fmt"
	"math/rand"
	"strconv"
	"strings"
	"sync"
	"time"

	"verifharness/comp"
	"verifharness/hist"
	"verifharness/hook"
)

var errValidator = errors.New("validator error")

const errChCap = 8

type call struct {
	id     int
	isWait bool
	cancel context.CancelFunc
	ech    chan error
	sent   []int // messages sent on ech so far (0 = nil error, e = error number e)
	closed bool
	w      *watcher // set for a watch call
}

// watcher is the bookkeeping of one WatchChanges call: its context and error channel are shared by
// all the inner WaitValueChange calls, each of which is an ordinary wait call of the history.
type watcher struct {
	wid       int
	mu        sync.Mutex
	cur       int // id of the pending inner call, -1 if none
	cancelled bool
}

func parseKind(f []string) (kind string, arg int, rest []string, ok bool) {
	if len(f) == 0 {
		return
	}
	kind = f[0]
	switch kind {
	case "value", "empty", "vnil":
		return kind, 0, f[1:], true
	case "change", "veq", "vge", "verr":
		if len(f) < 2 {
			return
		}
		v, err := strconv.Atoi(f[1])
		if err != nil || v < 0 {
			return
		}
		return kind, v, f[2:], true
	}
	return
}

func exec(script []string, opt comp.Options) comp.Result {
	log := hist.New()
	tags := comp.TagSet{}
	var tagMu sync.Mutex
	tag := func(s string) { tagMu.Lock(); tags.Add(s); tagMu.Unlock() }
	h := hook.Install(opt.Seed, hook.Perturb{Prob: 0.35, MaxSleep: 150 * time.Microsecond})
	defer h.Uninstall()
	rng := rand.New(rand.NewSource(opt.Seed ^ 0xcc0))

	var ctr cell
	mkCtr := func(v, m int) {
		ctr = newIntCell(v, m)
		if m != 0 {
			tag("custom-equal")
		}
		log.Add("new %d %d", v, m)
	}
	nextW := 0
	errs := map[int]error{}
	errNum := map[error]int{errValidator: 1}
	errOf := func(e int) error {
		if er, ok := errs[e]; ok {
			return er
		}
		er := fmt.Errorf("error %d", e)
		errs[e] = er
		errNum[er] = e
		return er
	}
	var errMu sync.Mutex

	var calls []*call
	var gates []hook.Gate
	var gateOpen []bool
	var wg sync.WaitGroup
	heldAfterSample := false
	asyncWrites := 0

	safely := func(id int, what string, f func()) {
		defer func() {
			if r := recover(); r != nil {
				log.Ret(id, "%s panic", what)
			}
		}()
		f()
	}
	openAll := func() {
		for j := range gates {
			if !gateOpen[j] {
				gateOpen[j] = true
				gates[j].Open()
			}
		}
	}
	throttle := func() {
		if log.NumPending() >= 6 {
			comp.WaitQuiet(log, time.Millisecond, 30*time.Millisecond)
		}
	}
	// run one cell operation in its own goroutine; wait (bounded) for it unless async
	runOp := func(async bool, inv string, f func(id int)) {
		c := &call{cancel: func() {}}
		c.id = log.Inv("%s", inv)
		calls = append(calls, c)
		done := make(chan struct{})
		wg.Add(1)
		go func() {
			defer wg.Done()
			defer close(done)
			safely(c.id, strings.Fields(inv)[0], func() { f(c.id) })
		}()
		if !async {
			select {
			case <-done:
			case <-time.After(20 * time.Millisecond):
			}
		}
	}

	for n, step := range script {
		f := strings.Fields(step)
		if len(f) == 0 {
			continue
		}
		if f[0] == "newvt" {
			if n == 0 && len(f) == 2 {
				if v, e1 := strconv.Atoi(f[1]); e1 == nil && v >= 0 {
					ctr = newVTCell(v)
					tag("vtproto-equal")
					log.Add("new %d 0", v)
				}
			}
			continue
		}
		if f[0] == "new" {
			if n == 0 && len(f) == 3 {
				v, e1 := strconv.Atoi(f[1])
				m, e2 := strconv.Atoi(f[2])
				if e1 == nil && e2 == nil && v >= 0 && m >= 0 {
					mkCtr(v, m)
				}
			}
			continue
		}
		if ctr == nil {
			mkCtr(0, 0)
		}
		async := len(f) > 1 && f[1] == "a"
		args := f[1:]
		if async {
			args = f[2:]
		}
		switch f[0] {
		case "get", "set", "swap", "wait", "watch":
			throttle()
		}
		switch f[0] {
		case "get":
			runOp(async, "get", func(id int) {
				v := ctr.Get()
				log.Ret(id, "get %d", v)
			})
		case "set":
			if len(args) < 1 {
				continue
			}
			v, err := strconv.Atoi(args[0])
			if err != nil || v < 0 {
				continue
			}
			if heldAfterSample {
				tag("write-between-sample-and-block")
			}
			runOp(async, fmt.Sprintf("set %d", v), func(id int) {
				ctr.Set(v)
				log.Ret(id, "set")
			})
		case "swap":
			if len(args) < 1 {
				continue
			}
			var cb func(int) int
			name := args[0]
			switch name {
			case "inc":
				cb = func(v int) int { return v + 1 }
			case "setk":
				if len(args) < 2 {
					continue
				}
				k, err := strconv.Atoi(args[1])
				if err != nil || k < 0 {
					continue
				}
				cb = func(int) int { return k }
				name = fmt.Sprintf("setk %d", k)
			case "clear":
				cb = func(int) int { return 0 }
			case "nil":
			default:
				continue
			}
			if heldAfterSample && cb != nil {
				tag("write-between-sample-and-block")
			}
			if async {
				asyncWrites++
				if asyncWrites >= 2 {
					tag("concurrent-swaps")
				}
			}
			runOp(async, "swap "+name, func(id int) {
				r := ctr.Swap(cb)
				log.Ret(id, "swap %d", r)
			})
		case "wait":
			kind, arg, rest, ok := parseKind(f[1:])
			if !ok {
				continue
			}
			withCh, pre := false, false
			for _, r := range rest {
				if r == "ech" {
					withCh = true
				}
				if r == "pre" {
					pre = true
				}
			}
			c := &call{isWait: true}
			ctx, cancel := context.WithCancel(context.Background())
			c.cancel = cancel
			var errCh <-chan error
			inv := "wait " + kind
			if kind == "change" || kind == "veq" || kind == "vge" || kind == "verr" {
				inv += fmt.Sprintf(" %d", arg)
			}
			if withCh {
				c.ech = make(chan error, errChCap)
				errCh = c.ech
				inv += " ech"
			}
			c.id = log.Inv("%s", inv)
			calls = append(calls, c)
			if pre {
				log.Add("env cancel %d", c.id)
				cancel()
				tag("precancelled")
			}
			wg.Add(1)
			go func() {
				defer wg.Done()
				safely(c.id, "wait", func() {
					var v int
					var err error
					isEmpty := false
					switch kind {
					case "value":
						v, err = ctr.WaitValue(ctx, errCh)
					case "change":
						v, err = ctr.WaitValueChange(ctx, arg, errCh)
					case "empty":
						err = ctr.WaitValueEmpty(ctx, errCh)
						isEmpty = true
					case "vnil":
						v, err = ctr.WaitValueWithValidator(ctx, nil, errCh)
					case "veq":
						v, err = ctr.WaitValueWithValidator(ctx, func(x int) (bool, error) { return x == arg, nil }, errCh)
					case "vge":
						v, err = ctr.WaitValueWithValidator(ctx, func(x int) (bool, error) { return x >= arg, nil }, errCh)
					case "verr":
						v, err = ctr.WaitValueWithValidator(ctx, func(x int) (bool, error) {
							if x == arg {
								return false, errValidator
							}
							return x > arg, nil
						}, errCh)
					}
					switch {
					case err == nil && isEmpty:
						log.Ret(c.id, "wait ok")
					case err == nil:
						log.Ret(c.id, "wait val %d", v)
					case errors.Is(err, context.Canceled):
						log.Ret(c.id, "wait canceled")
						tag("canceled")
					default:
						errMu.Lock()
						e, known := errNum[err]
						errMu.Unlock()
						if !known {
							log.Ret(c.id, "wait err other")
							return
						}
						if e == 1 {
							tag("validator-error")
						} else {
							tag("errch-error")
						}
						log.Ret(c.id, "wait err %d", e)
					}
				})
			}()
		case "cancel":
			i, _ := strconv.Atoi(f[1])
			if i >= len(calls) || !calls[i].isWait {
				continue
			}
			c := calls[i]
			if c.w != nil {
				// the context is shared by the inner calls: it is cancelled for the pending one now and
				// for every later one at its invocation
				c.w.mu.Lock()
				c.w.cancelled = true
				if c.w.cur >= 0 {
					log.Add("env cancel %d", c.w.cur)
				}
				c.cancel()
				c.w.mu.Unlock()
				continue
			}
			log.Add("env cancel %d", c.id)
			c.cancel()
		case "errsend", "errnil", "errclose":
			if len(f) < 2 {
				continue
			}
			i, _ := strconv.Atoi(f[1])
			if i >= len(calls) || calls[i].ech == nil || calls[i].closed {
				continue
			}
			c := calls[i]
			target := c.id
			if c.w != nil {
				c.w.mu.Lock()
				target = c.w.cur
			}
			switch f[0] {
			case "errsend":
				if len(f) < 3 || len(c.sent) >= errChCap {
					break
				}
				e, err := strconv.Atoi(f[2])
				if err != nil || e < 2 {
					break
				}
				errMu.Lock()
				er := errOf(e)
				errMu.Unlock()
				c.sent = append(c.sent, e)
				if target >= 0 {
					log.Add("env errsend %d %d", target, e)
				}
				c.ech <- er
			case "errnil":
				if len(c.sent) >= errChCap {
					break
				}
				c.sent = append(c.sent, 0)
				if target >= 0 {
					log.Add("env errnil %d", target)
				}
				c.ech <- nil
				tag("errch-nil")
			case "errclose":
				c.closed = true
				if target >= 0 {
					log.Add("env errclose %d", target)
				}
				close(c.ech)
				tag("errch-closed")
			}
			if c.w != nil {
				c.w.mu.Unlock()
			}
		case "watch":
			// watch init [ech] [pre] [errat k]
			if len(f) < 2 {
				continue
			}
			init, err := strconv.Atoi(f[1])
			if err != nil || init < 0 {
				continue
			}
			withCh, pre, errAt := false, false, -1
			for k := 2; k < len(f); k++ {
				switch f[k] {
				case "ech":
					withCh = true
				case "pre":
					pre = true
				case "errat":
					if k+1 < len(f) {
						if v, e := strconv.Atoi(f[k+1]); e == nil {
							errAt = v
						}
					}
				}
			}
			w := &watcher{wid: nextW, cur: -1}
			nextW++
			c := &call{isWait: true, w: w, id: -1}
			ctx, cancel := context.WithCancel(context.Background())
			c.cancel = cancel
			var errCh <-chan error
			line := fmt.Sprintf("winv %d %d", w.wid, init)
			if withCh {
				c.ech = make(chan error, errChCap)
				errCh = c.ech
				line += " ech"
			}
			log.Add("%s", line)
			calls = append(calls, c)
			tag("watch")
			if pre {
				w.mu.Lock()
				w.cancelled = true
				cancel()
				w.mu.Unlock()
				tag("precancelled")
			}
			errCb := errors.New("callback error")
			before := func(old int, hasCh bool) func(int, error) {
				w.mu.Lock()
				inv := fmt.Sprintf("wait change %d", old)
				if hasCh {
					inv += " ech"
				}
				t := log.Inv("%s", inv)
				log.Add("wcall %d %d", w.wid, t)
				if c.ech != nil {
					// what is still buffered in the shared channel is what this call will find there
					n := len(c.ech)
					if n > len(c.sent) {
						n = len(c.sent)
					}
					for _, m := range c.sent[len(c.sent)-n:] {
						if m == 0 {
							log.Add("env errnil %d", t)
						} else {
							log.Add("env errsend %d %d", t, m)
						}
					}
					if c.closed {
						log.Add("env errclose %d", t)
					}
				}
				if w.cancelled {
					log.Add("env cancel %d", t)
				}
				w.cur = t
				w.mu.Unlock()
				return func(v int, err error) {
					switch {
					case err == nil:
						log.Ret(t, "wait val %d", v)
					case errors.Is(err, context.Canceled):
						log.Ret(t, "wait canceled")
					default:
						errMu.Lock()
						e, known := errNum[err]
						errMu.Unlock()
						if known {
							log.Ret(t, "wait err %d", e)
						} else {
							log.Ret(t, "wait err other")
						}
					}
					w.mu.Lock()
					w.cur = -1
					w.mu.Unlock()
				}
			}
			ncb := 0
			cb := func(v int) error {
				log.Add("wcbin %d %d", w.wid, v)
				tag("watch-callback")
				ncb++
				// the scripted callback gives up after many updates (a runaway watcher must not
				// flood the history); what it does is in the history either way
				if v == errAt || ncb > 48 {
					log.Add("wcbout %d err", w.wid)
					return errCb
				}
				log.Add("wcbout %d ok", w.wid)
				return nil
			}
			wg.Add(1)
			go func() {
				defer wg.Done()
				defer func() {
					if r := recover(); r != nil {
						log.Add("wret %d panic", w.wid)
					}
				}()
				err := ctr.Watch(ctx, init, before, cb, errCh)
				switch {
				case err == errCb:
					log.Add("wret %d cberr", w.wid)
					tag("watch-callback-error")
				case err == nil:
					log.Add("wret %d nil", w.wid)
				case errors.Is(err, context.Canceled):
					log.Add("wret %d canceled", w.wid)
					tag("canceled")
				default:
					errMu.Lock()
					e, known := errNum[err]
					errMu.Unlock()
					if known {
						log.Add("wret %d err %d", w.wid, e)
						tag("errch-error")
					} else {
						log.Add("wret %d other", w.wid)
					}
				}
			}()
		case "gate":
			if len(f) < 3 {
				continue
			}
			nth, _ := strconv.Atoi(f[2])
			if nth < 1 {
				nth = 1
			}
			gates = append(gates, h.AddGate(f[1], nil, nth))
			gateOpen = append(gateOpen, false)
		case "hit":
			j, _ := strconv.Atoi(f[1])
			if j < len(gates) && !gateOpen[j] {
				if gates[j].WaitHit(50 * time.Millisecond) {
					tag("gate-hit")
					heldAfterSample = true
				}
			}
		case "open":
			j, _ := strconv.Atoi(f[1])
			if j < len(gates) && !gateOpen[j] {
				gateOpen[j] = true
				gates[j].Open()
				heldAfterSample = false
			}
		case "pause":
			time.Sleep(time.Duration(rng.Intn(120)) * time.Microsecond)
		case "settle":
			comp.WaitQuiet(log, 2*time.Millisecond, 200*time.Millisecond)
		case "quiesce":
			openAll()
			heldAfterSample = false
			comp.WaitQuiet(log, opt.Grace, 10*opt.Grace)
			if log.NumPending() > 0 {
				tag("blocked-at-quiesce")
			}
			log.Quiesce()
		}
	}
	openAll()
	comp.WaitQuiet(log, 2*time.Millisecond, 200*time.Millisecond)
	lines := log.Lines()
	for _, c := range calls {
		c.cancel()
	}
	h.Uninstall()
	done := make(chan struct{})
	go func() { wg.Wait(); close(done) }()
	select {
	case <-done:
	case <-time.After(3 * time.Second):
		tag("leaked-goroutine")
	}
	tagMu.Lock()
	defer tagMu.Unlock()
	return comp.Result{History: lines, Tags: tags.List()}
}

func genKind(rng *rand.Rand, maxV int) string {
	switch rng.Intn(9) {
	case 0, 1:
		return "value"
	case 2, 3:
		return fmt.Sprintf("change %d", rng.Intn(maxV))
	case 4:
		return "empty"
	case 5:
		return "vnil"
	case 6:
		return fmt.Sprintf("veq %d", rng.Intn(maxV))
	case 7:
		return fmt.Sprintf("vge %d", rng.Intn(maxV))
	default:
		return fmt.Sprintf("verr %d", rng.Intn(maxV))
	}
}

func gen(rng *rand.Rand, tier string) []string {
	maxCalls, steps := 12, 10+rng.Intn(16)
	if tier == "thorough" {
		maxCalls, steps = 20, 15+rng.Intn(40)
	}
	var out []string
	inflight := 0
	add := func(s string) {
		out = append(out, s)
		switch strings.Fields(s)[0] {
		case "get", "set", "swap", "wait", "watch":
			inflight++
		case "settle", "quiesce":
			inflight = 0
		}
	}
	// values: small, or around a multiple of the modulus so that the custom equality matters
	m := 0
	maxV := 5
	if rng.Intn(3) == 0 {
		m = []int{10, 10, 3, 1}[rng.Intn(4)]
		maxV = 2*m + 3
	}
	init := 0
	if rng.Intn(3) == 0 {
		init = rng.Intn(maxV)
	}
	if m == 0 && rng.Intn(6) == 0 {
		add(fmt.Sprintf("newvt %d", init)) // vtproto messages, equality by EqualVT
	} else {
		add(fmt.Sprintf("new %d %d", init, m))
	}
	incOnly := rng.Intn(5) == 0
	ncalls, ngates := 0, 0
	var waits, withCh, live []int
	fl := func() string {
		if rng.Intn(3) == 0 {
			return "a "
		}
		return ""
	}
	write := func() string {
		if incOnly {
			return "swap " + fl() + "inc"
		}
		switch rng.Intn(6) {
		case 0, 1:
			return fmt.Sprintf("set %s%d", fl(), rng.Intn(maxV))
		case 2:
			return "swap " + fl() + "inc"
		case 3:
			return fmt.Sprintf("swap %ssetk %d", fl(), rng.Intn(maxV))
		case 4:
			return "swap " + fl() + "clear"
		default:
			return fmt.Sprintf("set %s0", fl())
		}
	}
	for i := 0; i < steps && ncalls < maxCalls; i++ {
		for len(live) > 3 {
			add(fmt.Sprintf("cancel %d", live[0]))
			live = live[1:]
		}
		if inflight >= 4 {
			add("settle")
		}
		r := rng.Intn(100)
		switch {
		case r < 22:
			s := "wait " + genKind(rng, maxV)
			if rng.Intn(3) == 0 {
				s += " ech"
				withCh = append(withCh, ncalls)
			}
			if rng.Intn(12) == 0 {
				s += " pre"
			}
			add(s)
			waits = append(waits, ncalls)
			live = append(live, ncalls)
			ncalls++
		case r < 29:
			// a watcher, then a few writes it must be told about (one update at a time)
			s := fmt.Sprintf("watch %d", rng.Intn(maxV))
			if rng.Intn(3) == 0 {
				s += " ech"
				withCh = append(withCh, ncalls)
			}
			if rng.Intn(10) == 0 {
				s += " pre"
			}
			if rng.Intn(3) == 0 {
				s += fmt.Sprintf(" errat %d", rng.Intn(maxV))
			}
			add(s)
			waits = append(waits, ncalls)
			live = append(live, ncalls)
			ncalls++
			for k := rng.Intn(3); k > 0 && ncalls < maxCalls; k-- {
				if rng.Intn(2) == 0 {
					add("settle")
				}
				add(write())
				ncalls++
			}
		case r < 45:
			add(write())
			ncalls++
		case r < 52:
			add("get " + strings.TrimSpace(fl()))
			ncalls++
		case r < 55:
			add("swap " + fl() + "nil")
			ncalls++
		case r < 62 && ncalls+3 < maxCalls:
			// N concurrent increments, then read
			n := 2 + rng.Intn(3)
			for k := 0; k < n && ncalls < maxCalls; k++ {
				add("swap a inc")
				ncalls++
			}
			add("settle")
			add("get")
			ncalls++
		case r < 72 && ncalls+2 < maxCalls:
			// the narrow window: waiter samples, writer writes, waiter blocks
			add("gate hold-exit 1")
			g := ngates
			ngates++
			s := "wait " + genKind(rng, maxV)
			if rng.Intn(3) == 0 {
				s += " ech"
				withCh = append(withCh, ncalls)
			}
			add(s)
			waits = append(waits, ncalls)
			live = append(live, ncalls)
			w := ncalls
			ncalls++
			add(fmt.Sprintf("hit %d", g))
			add(write())
			ncalls++
			if rng.Intn(4) == 0 {
				add(fmt.Sprintf("cancel %d", w))
			}
			add(fmt.Sprintf("open %d", g))
		case r < 79 && len(waits) > 0:
			add(fmt.Sprintf("cancel %d", waits[rng.Intn(len(waits))]))
		case r < 88 && len(withCh) > 0:
			c := withCh[rng.Intn(len(withCh))]
			switch rng.Intn(4) {
			case 0:
				add(fmt.Sprintf("errsend %d %d", c, 2+rng.Intn(3)))
			case 1, 2:
				add(fmt.Sprintf("errnil %d", c))
			default:
				add(fmt.Sprintf("errclose %d", c))
			}
		case r < 91:
			add("pause")
		case r < 96:
			add("settle")
		default:
			add("settle")
			add("get")
			ncalls++
			add("quiesce")
		}
	}
	add("settle")
	add("get")
	add("quiesce")
	if rng.Intn(2) == 0 {
		add(write())
		add("settle")
		add("get")
		add("quiesce")
	}
	for _, w := range waits {
		switch rng.Intn(3) {
		case 0:
			add(fmt.Sprintf("cancel %d", w))
		case 1:
			add(fmt.Sprintf("errclose %d", w))
		}
	}
	add("quiesce")
	return out
}

func init() {
	comp.Register(&comp.Component{
		Name: "ccontainer", Model: "ccontainer", Gen: gen, Exec: exec,
		Corpus: [][]string{
			// waiter samples (empty), writer writes, waiter blocks: the wake-up must not be lost
			{"new 0 0", "gate hold-exit 1", "wait value", "hit 0", "set 3", "open 0", "quiesce"},
			{"new 2 0", "gate hold-exit 1", "wait change 2", "hit 0", "swap inc", "open 0", "quiesce"},
			{"new 4 0", "gate hold-exit 1", "wait empty", "hit 0", "swap clear", "open 0", "quiesce"},
			// a write that does not satisfy the condition, then one that does
			{"new 0 0", "gate hold-exit 1", "wait vge 3", "hit 0", "set 1", "open 0", "settle", "get", "quiesce", "set 4", "quiesce"},
			// cancel / error channel racing a write in the window
			{"new 0 0", "gate hold-exit 1", "wait value ech", "hit 0", "cancel 0", "set 2", "open 0", "quiesce"},
			{"new 0 0", "gate hold-exit 1", "wait veq 2 ech", "hit 0", "errsend 0 3", "set 2", "open 0", "quiesce"},
			{"new 0 0", "wait value ech", "settle", "errnil 0", "errnil 0", "settle", "get", "quiesce", "errclose 0", "quiesce"},
			// N concurrent increments give +N
			{"new 1 0", "swap a inc", "swap a inc", "swap a inc", "swap a inc", "settle", "get", "quiesce"},
			{"new 0 0", "wait vge 3", "swap a inc", "swap a inc", "get a", "swap a inc", "settle", "get", "quiesce"},
			// custom equality: 13 equals 3 modulo 10 (not stored, no wake-up), 10 is "empty"
			{"new 3 10", "wait change 3", "wait veq 13", "settle", "set 13", "get", "quiesce", "swap setk 23", "get", "quiesce", "set 4", "get", "quiesce"},
			{"new 10 10", "wait value", "wait empty", "wait vnil", "settle", "get", "quiesce", "set 20", "get", "quiesce", "set 7", "quiesce"},
			// validator error, nil callback, pre-cancelled context with a satisfied condition
			{"new 0 0", "wait verr 2", "settle", "set 1", "swap nil", "get", "quiesce", "set 2", "quiesce"},
			{"new 5 0", "wait value pre", "wait empty pre", "wait verr 5 pre", "quiesce"},
			// WatchChanges: one callback per change, none for a write of an equal value, ended by ctx
			{"new 0 0", "watch 0", "settle", "set 1", "settle", "set 1", "set 2", "settle", "swap clear", "settle", "get", "quiesce", "cancel 0", "quiesce"},
			// ... under the custom equality (13 equals 3 modulo 10: no update), ended by the callback's error
			{"new 3 10", "watch 3 errat 5", "settle", "set 13", "settle", "set 4", "settle", "set 5", "settle", "set 6", "get", "quiesce"},
			// ... with an error channel shared by the inner calls: nil errors are skipped, an error ends the watch
			{"new 0 0", "watch 0 ech", "settle", "errnil 0", "set 2", "settle", "errnil 0", "errnil 0", "set 3", "settle", "get", "quiesce", "errsend 0 4", "quiesce"},
			{"new 0 0", "watch 0 ech", "settle", "set 1", "settle", "errclose 0", "quiesce"},
			// ... initial value differs from the content: first update at once; pre-cancelled context
			{"new 1 0", "watch 0 pre", "quiesce"},
			{"new 2 0", "watch 5 errat 2", "quiesce"},
			// ... a write lands between the inner call's sample and its select
			{"new 0 0", "gate hold-exit 1", "watch 0", "hit 0", "set 3", "open 0", "settle", "set 4", "settle", "cancel 0", "quiesce"},
			// NewCContainerVT: every value is a fresh message; SetValue of an EqualVT-equal message stores nothing
			{"newvt 3", "wait change 3", "wait veq 3", "settle", "set 3", "get", "quiesce", "set 4", "get", "set 4", "swap setk 4", "get", "wait empty", "settle", "set 0", "quiesce"},
			{"newvt 0", "watch 0", "wait value", "settle", "set 2", "settle", "set 2", "settle", "swap inc", "settle", "get", "quiesce", "cancel 0", "quiesce"},
			// waiter held before its first critical section
			{"new 0 0", "gate hold-enter 1", "wait change 0", "hit 0", "set 1", "set 0", "open 0", "settle", "get", "quiesce"},
		},
	})
}
