//go:build verif

package ccontainer

import (
	"context"

	"github.com/aperturerobotics/util/backoff"
	"github.com/aperturerobotics/util/ccontainer"
)

// cell is the container under test seen through small ints (0 = the empty value). Two
// instantiations: CContainer[int] (NewCContainer / NewCContainerWithEqual) and
// CContainer[*backoff.Constant] built with NewCContainerVT, where the value v > 0 is a *fresh* message
// with Interval == v (so pointer equality never holds and equality is decided by EqualVT) and 0 is nil.
type cell interface {
	Get() int
	Set(v int)
	Swap(cb func(int) int) int
	WaitValue(ctx context.Context, errCh <-chan error) (int, error)
	WaitValueChange(ctx context.Context, old int, errCh <-chan error) (int, error)
	WaitValueEmpty(ctx context.Context, errCh <-chan error) error
	WaitValueWithValidator(ctx context.Context, valid func(int) (bool, error), errCh <-chan error) (int, error)
	// Watch runs WatchChanges on ToWatchable(container) through a pass-through Watchable; before is
	// called when WatchChanges issues an inner WaitValueChange(old) and returns the function to call
	// with that call's result.
	Watch(ctx context.Context, init int, before func(old int, hasCh bool) func(v int, err error),
		cb func(int) error, errCh <-chan error) error
}

type cellT[T comparable] struct {
	c    *ccontainer.CContainer[T]
	to   func(int) T
	from func(T) int
}

func (x *cellT[T]) Get() int  { return x.from(x.c.GetValue()) }
func (x *cellT[T]) Set(v int) { x.c.SetValue(x.to(v)) }
func (x *cellT[T]) Swap(cb func(int) int) int {
	if cb == nil {
		return x.from(x.c.SwapValue(nil))
	}
	return x.from(x.c.SwapValue(func(t T) T { return x.to(cb(x.from(t))) }))
}

func (x *cellT[T]) WaitValue(ctx context.Context, errCh <-chan error) (int, error) {
	v, err := x.c.WaitValue(ctx, errCh)
	return x.from(v), err
}

func (x *cellT[T]) WaitValueChange(ctx context.Context, old int, errCh <-chan error) (int, error) {
	v, err := x.c.WaitValueChange(ctx, x.to(old), errCh)
	return x.from(v), err
}

func (x *cellT[T]) WaitValueEmpty(ctx context.Context, errCh <-chan error) error {
	return x.c.WaitValueEmpty(ctx, errCh)
}

func (x *cellT[T]) WaitValueWithValidator(ctx context.Context, valid func(int) (bool, error), errCh <-chan error) (int, error) {
	var vf func(T) (bool, error)
	if valid != nil {
		vf = func(t T) (bool, error) { return valid(x.from(t)) }
	}
	v, err := x.c.WaitValueWithValidator(ctx, vf, errCh)
	return x.from(v), err
}

func (x *cellT[T]) Watch(ctx context.Context, init int, before func(old int, hasCh bool) func(v int, err error),
	cb func(int) error, errCh <-chan error) error {
	w := &passWatchable[T]{Watchable: ccontainer.ToWatchable(x.c), x: x, before: before}
	return ccontainer.WatchChanges(ctx, x.to(init), ccontainer.Watchable[T](w), func(v T) error { return cb(x.from(v)) }, errCh)
}

// passWatchable passes every call through to the real Watchable and reports the inner
// WaitValueChange calls WatchChanges makes.
type passWatchable[T comparable] struct {
	ccontainer.Watchable[T]
	x      *cellT[T]
	before func(old int, hasCh bool) func(v int, err error)
}

func (p *passWatchable[T]) WaitValueChange(ctx context.Context, old T, errCh <-chan error) (T, error) {
	after := p.before(p.x.from(old), errCh != nil)
	v, err := p.Watchable.WaitValueChange(ctx, old, errCh)
	after(p.x.from(v), err)
	return v, err
}

func newIntCell(v, m int) cell {
	id := func(i int) int { return i }
	if m == 0 {
		return &cellT[int]{c: ccontainer.NewCContainer(v), to: id, from: id}
	}
	return &cellT[int]{c: ccontainer.NewCContainerWithEqual(v, func(a, b int) bool { return a%m == b%m }), to: id, from: id}
}

func newVTCell(v int) cell {
	to := func(i int) *backoff.Constant {
		if i == 0 {
			return nil
		}
		return &backoff.Constant{Interval: uint32(i)}
	}
	from := func(c *backoff.Constant) int {
		if c == nil {
			return 0
		}
		return int(c.Interval)
	}
	return &cellT[*backoff.Constant]{c: ccontainer.NewCContainerVT(to(v)), to: to, from: from}
}
