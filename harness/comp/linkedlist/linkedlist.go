//go:build verif

// Package linkedlist drives linkedlist.LinkedList[int] (property C12).
//
// Up to 4 free-running worker goroutines call the methods concurrently (there are no verifhook
// points in linkedlist.go: every method is one critical section under l.mtx); seeded random
// sleeps/yields between calls vary the interleaving. The director hands out the operations in script
// order.
//
// Script steps (any sub-list of a script is a valid script):
//
//	new v1 v2 …   (first line) construct with NewLinkedList(v1, v2, …); default: NewLinkedList()
//	tight         (before the first `go`) no random delays around the calls: the workers hammer the list
//	hold          (first or second line) workers do not start before `start`
//	start         let the workers run
//	go k OP [v]   append a call to the work list of worker k (0..3);
//	              OP = push v | pushfront v | pop | peek | peektail | isempty | reset
//	envrlock      the harness itself takes l.mtx.RLock() (it reaches the unexported field by reflection;
//	              skipped if there is no sync.RWMutex field `mtx`) and then logs `env rlock`
//	envrunlock    logs `env runlock`, then releases the read lock
//	settle        sleep ~300 µs (lets calls that do not need the write lock return inside the window)
//	wait k        wait (bounded) until worker k has finished everything handed to it so far
//	waitall       the same for all workers
//	pause         sleep a few microseconds
//
// At the end the workers are joined and the director pops (logged as ordinary calls) until Pop
// reports false: lost or duplicated elements become visible in the history.
//
// While the harness holds the read lock every method of the current code blocks (they all take the
// write lock); a mutating method downgraded to RLock returns inside the window, which the model
// rejects deterministically.
//
// History lines: `env rlock`, `env runlock`, `inv t new v…`, `inv t push v`, `inv t pushfront v`, `inv t pop|peek|peektail|isempty|reset`,
// `ret t ack`, `ret t val v true|false`, `ret t empty true|false`, `ret t panic`.
package linkedlist

import (
	"fmt"
	"math/rand"
	"reflect"
	"runtime"
	"sort"
	"strconv"
	"strings"
	"sync"
	"sync/atomic"
	"time"
	"unsafe"

	"github.com/aperturerobotics/util/linkedlist"

	"verifharness/comp"
)

const nWorkers = 4

type op struct {
	name string
	v    int
}

type worker struct {
	mu     sync.Mutex
	cond   *sync.Cond
	queue  []op
	done   int
	closed bool
}

func newWorker() *worker {
	w := &worker{}
	w.cond = sync.NewCond(&w.mu)
	return w
}

func (w *worker) add(o op) int {
	w.mu.Lock()
	w.queue = append(w.queue, o)
	n := len(w.queue)
	w.cond.Broadcast()
	w.mu.Unlock()
	return n
}

func (w *worker) close() {
	w.mu.Lock()
	w.closed = true
	w.cond.Broadcast()
	w.mu.Unlock()
}

func (w *worker) next(i int) (op, bool) {
	w.mu.Lock()
	defer w.mu.Unlock()
	for i >= len(w.queue) && !w.closed {
		w.cond.Wait()
	}
	if i < len(w.queue) {
		return w.queue[i], true
	}
	return op{}, false
}

func (w *worker) finished(i int) {
	w.mu.Lock()
	w.done = i + 1
	w.cond.Broadcast()
	w.mu.Unlock()
}

func (w *worker) waitDone(n int, d time.Duration) bool {
	deadline := time.Now().Add(d)
	for {
		w.mu.Lock()
		ok := w.done >= n
		w.mu.Unlock()
		if ok {
			return true
		}
		if time.Now().After(deadline) {
			return false
		}
		time.Sleep(20 * time.Microsecond)
	}
}

var spinSink atomic.Int64

// spin busy-waits for about n loop iterations (sub-microsecond delays; time.Sleep is too coarse).
func spin(n int) {
	for i := 0; i < n; i++ {
		spinSink.Add(1)
	}
}

// stampLog is a totally ordered log without a lock: every event takes a stamp from one atomic
// counter (inv: before the real call, ret: after it returned) and is stored in a buffer private to
// the logging goroutine. The history is the merge of the buffers in stamp order; call ids are
// allocated in the order of the inv stamps. (With hist.Log's mutex the goroutines queue up on the
// log and the ~50 ns method calls practically never overlap; a fetch-and-add does not park anyone.)
type stampLog struct {
	ctr atomic.Int64
}

type stampEv struct {
	stamp int64
	env   bool // environment action: kind is the whole text after `env `
	inv   bool
	key   int    // identifies the call: buffer index * 1e6 + sequence number
	kind  string // inv: method name (or the whole `new …` text); ret: "ack" | "val" | "empty" | "panic"
	v     int
	b     bool
}

func (e stampEv) text() string {
	if e.inv {
		if e.kind == "push" || e.kind == "pushfront" {
			return fmt.Sprintf("%s %d", e.kind, e.v)
		}
		return e.kind
	}
	switch e.kind {
	case "val":
		return fmt.Sprintf("val %d %t", e.v, e.b)
	case "empty":
		return fmt.Sprintf("empty %t", e.b)
	}
	return e.kind
}

type stampBuf struct {
	l    *stampLog
	base int
	n    int
	evs  []stampEv
}

func (l *stampLog) buf(index int) *stampBuf {
	return &stampBuf{l: l, base: index * 1000000, evs: make([]stampEv, 0, 64)}
}

func (b *stampBuf) inv(kind string, v int) int {
	key := b.base + b.n
	b.n++
	b.evs = append(b.evs, stampEv{stamp: b.l.ctr.Add(1), inv: true, key: key, kind: kind, v: v})
	return key
}

func (b *stampBuf) ret(key int, kind string, v int, ok bool) {
	b.evs = append(b.evs, stampEv{stamp: b.l.ctr.Add(1), key: key, kind: kind, v: v, b: ok})
}

func (b *stampBuf) envEv(what string) {
	b.evs = append(b.evs, stampEv{stamp: b.l.ctr.Add(1), env: true, kind: what})
}

// listMutex returns the list's unexported RWMutex, or nil if the struct no longer has one.
func listMutex(l *linkedlist.LinkedList[int]) *sync.RWMutex {
	f := reflect.ValueOf(l).Elem().FieldByName("mtx")
	if !f.IsValid() || !f.CanAddr() || f.Type() != reflect.TypeOf(sync.RWMutex{}) {
		return nil
	}
	return (*sync.RWMutex)(unsafe.Pointer(f.UnsafeAddr()))
}

// merge produces the history lines.
func merge(bufs []*stampBuf) []string {
	var all []stampEv
	for _, b := range bufs {
		all = append(all, b.evs...)
	}
	sort.Slice(all, func(i, j int) bool { return all[i].stamp < all[j].stamp })
	ids := map[int]int{}
	lines := make([]string, 0, len(all))
	for _, e := range all {
		if e.env {
			lines = append(lines, "env "+e.kind)
		} else if e.inv {
			ids[e.key] = len(ids)
			lines = append(lines, fmt.Sprintf("inv %d %s", ids[e.key], e.text()))
		} else {
			lines = append(lines, fmt.Sprintf("ret %d %s", ids[e.key], e.text()))
		}
	}
	return lines
}

// call performs one logged call; it returns (value, ok) for the value-returning methods.
// pre/post are busy-wait lengths between the `inv` stamp and the call, and between the call and the
// `ret` stamp: they widen the window in which other goroutines' calls overlap this one.
func call(log *stampBuf, l *linkedlist.LinkedList[int], o op, pre, post int) (v int, ok bool) {
	id := log.inv(o.name, o.v)
	defer func() {
		if r := recover(); r != nil {
			log.ret(id, "panic", 0, false)
			v, ok = 0, false
		}
	}()
	spin(pre)
	switch o.name {
	case "push":
		l.Push(o.v)
		spin(post)
		log.ret(id, "ack", 0, false)
	case "pushfront":
		l.PushFront(o.v)
		spin(post)
		log.ret(id, "ack", 0, false)
	case "reset":
		l.Reset()
		spin(post)
		log.ret(id, "ack", 0, false)
	case "pop":
		v, ok = l.Pop()
		spin(post)
		log.ret(id, "val", v, ok)
	case "peek":
		v, ok = l.Peek()
		spin(post)
		log.ret(id, "val", v, ok)
	case "peektail":
		v, ok = l.PeekTail()
		spin(post)
		log.ret(id, "val", v, ok)
	case "isempty":
		e := l.IsEmpty()
		spin(post)
		log.ret(id, "empty", 0, e)
	}
	return v, ok
}

func validOp(name string) bool {
	switch name {
	case "push", "pushfront", "pop", "peek", "peektail", "isempty", "reset":
		return true
	}
	return false
}

func exec(script []string, opt comp.Options) comp.Result {
	slog := &stampLog{}
	dlog := slog.buf(nWorkers) // the director's buffer
	bufs := []*stampBuf{dlog}
	tags := comp.TagSet{}
	rng := rand.New(rand.NewSource(opt.Seed ^ 0x11ed))

	// construction: always the first logged call
	var initial []int
	rest := script
	if len(rest) > 0 {
		if f := strings.Fields(rest[0]); len(f) > 0 && f[0] == "new" {
			for _, s := range f[1:] {
				if v, err := strconv.Atoi(s); err == nil && v > 0 {
					initial = append(initial, v)
				}
			}
			rest = rest[1:]
		}
	}
	var l *linkedlist.LinkedList[int]
	{
		parts := make([]string, 0, len(initial)+1)
		parts = append(parts, "new")
		for _, v := range initial {
			parts = append(parts, strconv.Itoa(v))
		}
		id := dlog.inv(strings.Join(parts, " "), 0)
		l = linkedlist.NewLinkedList(initial...)
		dlog.ret(id, "ack", 0, false)
	}
	if len(initial) > 0 {
		tags.Add("initial-elems")
	}

	workers := make([]*worker, nWorkers)
	handed := make([]int, nWorkers)
	// the workers spin on the flag (a channel wake-up takes longer than a whole work list)
	var startFlag atomic.Bool
	started := false
	start := func() {
		if !started {
			started = true
			startFlag.Store(true)
		}
	}
	held := false
	for _, ln := range rest {
		f := strings.Fields(ln)
		if len(f) == 0 || f[0] == "tight" {
			continue
		}
		held = f[0] == "hold"
		break
	}
	if !held {
		start()
	}
	tight := false
	for _, ln := range rest {
		if f := strings.Fields(ln); len(f) > 0 {
			if f[0] == "tight" {
				tight = true
			}
			if f[0] == "go" {
				break
			}
		}
	}
	if tight {
		tags.Add("tight")
	}
	var wg sync.WaitGroup
	var cntMu sync.Mutex
	popEmpty, peekHit, popHit := 0, 0, 0
	for k := range workers {
		w := newWorker()
		workers[k] = w
		wrng := rand.New(rand.NewSource(opt.Seed*31 + int64(k)))
		log := slog.buf(k)
		bufs = append(bufs, log)
		wg.Add(1)
		go func() {
			defer wg.Done()
			for spins := 0; !startFlag.Load(); spins++ {
				if spins%64 == 63 {
					runtime.Gosched()
				}
			}
			for i := 0; ; i++ {
				o, ok := w.next(i)
				if !ok {
					return
				}
				pre, post := 0, 0
				if !tight {
					switch wrng.Intn(12) {
					case 0:
						time.Sleep(time.Duration(wrng.Intn(40)) * time.Microsecond)
					case 1, 2:
						runtime.Gosched()
					}
					if wrng.Intn(3) != 0 {
						pre = wrng.Intn(120)
					}
					if wrng.Intn(3) == 0 {
						post = wrng.Intn(60)
					}
				}
				_, got := call(log, l, o, pre, post)
				cntMu.Lock()
				switch {
				case o.name == "pop" && !got:
					popEmpty++
				case o.name == "pop":
					popHit++
				case (o.name == "peek" || o.name == "peektail") && got:
					peekHit++
				}
				cntMu.Unlock()
				w.finished(i)
			}
		}()
	}

	mtx := listMutex(l)
	envHeld := false
	envUnlock := func() {
		if envHeld {
			dlog.envEv("runlock") // logged before the release
			mtx.RUnlock()
			envHeld = false
		}
	}
	total := len(initial)
	for _, stepLine := range rest {
		f := strings.Fields(stepLine)
		if len(f) == 0 {
			continue
		}
		switch f[0] {
		case "start":
			start()
		case "go":
			if len(f) < 3 || !validOp(f[2]) {
				continue
			}
			k, err := strconv.Atoi(f[1])
			if err != nil || k < 0 || k >= nWorkers {
				continue
			}
			o := op{name: f[2]}
			if o.name == "push" || o.name == "pushfront" {
				if len(f) < 4 {
					continue
				}
				v, err := strconv.Atoi(f[3])
				if err != nil || v <= 0 {
					continue
				}
				o.v = v
				total++
			}
			handed[k] = workers[k].add(o)
		case "envrlock":
			if mtx != nil && !envHeld {
				mtx.RLock()
				dlog.envEv("rlock") // logged after the acquisition
				envHeld = true
				tags.Add("env-rlock")
			}
		case "envrunlock":
			envUnlock()
		case "settle":
			time.Sleep(300 * time.Microsecond)
		case "wait":
			if len(f) < 2 {
				continue
			}
			if envHeld {
				continue // everything is blocked behind the environment's read lock
			}
			if k, err := strconv.Atoi(f[1]); err == nil && k >= 0 && k < nWorkers && started {
				workers[k].waitDone(handed[k], 100*time.Millisecond)
			}
		case "waitall":
			if started && !envHeld {
				for k, w := range workers {
					w.waitDone(handed[k], 100*time.Millisecond)
				}
			}
		case "pause":
			time.Sleep(time.Duration(rng.Intn(80)) * time.Microsecond)
		}
	}
	start()
	envUnlock()
	for _, w := range workers {
		w.close()
	}
	joined := make(chan struct{})
	go func() { wg.Wait(); close(joined) }()
	select {
	case <-joined:
	case <-time.After(3 * time.Second):
		tags.Add("leaked-goroutine")
		return comp.Result{History: nil, Tags: tags.List(), Unstable: true}
	}
	// drain sequentially
	drained := 0
	for i := 0; i <= total+1; i++ {
		_, ok := call(dlog, l, op{name: "pop"}, 0, 0)
		if !ok {
			break
		}
		drained++
	}
	if popEmpty > 0 {
		tags.Add("pop-empty")
	}
	if popHit > 0 {
		tags.Add("pop-value")
	}
	if peekHit > 0 {
		tags.Add("peek-value")
	}
	if drained > 0 {
		tags.Add("drained")
	}
	lines := merge(bufs)
	pending := 0
	for _, ln := range lines {
		if strings.HasPrefix(ln, "inv ") {
			if pending > 0 {
				tags.Add("overlap")
			}
			pending++
			if strings.HasSuffix(ln, " reset") {
				tags.Add("reset")
			}
			if strings.Contains(ln, " pushfront ") {
				tags.Add("pushfront")
			}
		} else if strings.HasPrefix(ln, "ret ") {
			pending--
		}
		if strings.HasSuffix(ln, "panic") {
			tags.Add("panic")
		}
	}
	return comp.Result{History: lines, Tags: tags.List()}
}

func genOp(rng *rand.Rand, k int, nextV *int, wPush, wFront, wPop, wPeek, wTail, wEmpty, wReset int) string {
	x := rng.Intn(wPush + wFront + wPop + wPeek + wTail + wEmpty + wReset)
	switch {
	case x < wPush:
		*nextV++
		return fmt.Sprintf("go %d push %d", k, *nextV-1)
	case x < wPush+wFront:
		*nextV++
		return fmt.Sprintf("go %d pushfront %d", k, *nextV-1)
	case x < wPush+wFront+wPop:
		return fmt.Sprintf("go %d pop", k)
	case x < wPush+wFront+wPop+wPeek:
		return fmt.Sprintf("go %d peek", k)
	case x < wPush+wFront+wPop+wPeek+wTail:
		return fmt.Sprintf("go %d peektail", k)
	case x < wPush+wFront+wPop+wPeek+wTail+wEmpty:
		return fmt.Sprintf("go %d isempty", k)
	default:
		return fmt.Sprintf("go %d reset", k)
	}
}

func gen(rng *rand.Rand, tier string) []string {
	nw := 2 + rng.Intn(3)
	maxOps := 10 + rng.Intn(12)
	if tier == "thorough" {
		maxOps = 10 + rng.Intn(16)
	}
	if maxOps > nw*12-2 {
		maxOps = nw*12 - 2
	}
	var out []string
	nextV := 1
	if rng.Intn(3) == 0 {
		n := 1 + rng.Intn(3)
		parts := []string{"new"}
		for i := 0; i < n; i++ {
			parts = append(parts, strconv.Itoa(nextV))
			nextV++
		}
		out = append(out, strings.Join(parts, " "))
	}
	burst := rng.Intn(3) != 0
	if burst && rng.Intn(2) == 0 {
		out = append(out, "tight")
	}
	if burst || rng.Intn(2) == 0 {
		out = append(out, "hold")
	}
	// operation weights vary per scenario
	wPush, wFront, wPop := 20+rng.Intn(25), 5+rng.Intn(20), 15+rng.Intn(25)
	wPeek, wTail, wEmpty, wReset := 5+rng.Intn(10), 5+rng.Intn(10), 3+rng.Intn(8), rng.Intn(6)
	counts := make([]int, nw)
	for n := 0; n < maxOps && len(out) < 120; {
		r := rng.Intn(100)
		switch {
		case r < 78:
			k := rng.Intn(nw)
			if counts[k] >= 12 {
				continue
			}
			counts[k]++
			n++
			out = append(out, genOp(rng, k, &nextV, wPush, wFront, wPop, wPeek, wTail, wEmpty, wReset))
		case r < 82 && !burst && n+3 <= maxOps:
			// a window in which the harness holds the list's read lock
			out = append(out, "start", "envrlock")
			for i, m := 0, 1+rng.Intn(3); i < m; i++ {
				k := rng.Intn(nw)
				if counts[k] >= 12 {
					continue
				}
				counts[k]++
				n++
				out = append(out, genOp(rng, k, &nextV, wPush, wFront, wPop, wPeek, wTail, wEmpty, wReset))
			}
			out = append(out, "settle", "envrunlock")
		case r < 86 && !burst:
			out = append(out, "pause")
		case r < 91 && !burst:
			out = append(out, fmt.Sprintf("wait %d", rng.Intn(nw)))
		case r < 94 && !burst:
			out = append(out, "waitall")
		case !burst:
			out = append(out, "start")
		}
	}
	out = append(out, "start")
	return out
}

func init() {
	comp.Register(&comp.Component{
		Name: "linkedlist", Model: "linkedlist", Gen: gen, Exec: exec,
		Corpus: [][]string{
			// every method once, sequentially, on a list constructed with elements
			{"new 1 2", "go 0 peek", "go 0 peektail", "go 0 isempty", "go 0 pushfront 3", "go 0 push 4", "go 0 peek", "go 0 peektail", "go 0 pop", "go 0 pop", "go 0 reset", "go 0 isempty", "go 0 pop", "go 0 peek", "go 0 peektail", "waitall"},
			// list becomes empty through Pop, then Push: tail must have been reset
			{"go 0 push 1", "go 0 pop", "go 0 push 2", "go 0 peek", "go 0 peektail", "go 0 pop", "go 0 pop", "waitall"},
			// PushFront on the empty list must set tail: a following Push appends behind it
			{"go 0 pushfront 1", "go 0 peektail", "go 0 push 2", "go 0 peek", "go 0 pop", "go 0 pop", "go 0 pop", "waitall"},
			// Reset then Push/PushFront
			{"new 1 2 3", "go 0 reset", "go 0 peektail", "go 0 push 4", "go 0 pushfront 5", "go 0 peektail", "go 0 pop", "go 0 pop", "go 0 pop", "waitall"},
			// every method invoked while the harness holds the list's read lock: none may take effect before the unlock
			{"new 1 2", "envrlock", "go 0 push 3", "go 1 pop", "go 2 pushfront 4", "go 3 reset", "settle", "envrunlock", "waitall", "go 0 peek", "go 0 pop", "go 0 pop", "waitall"},
			{"go 0 push 1", "wait 0", "envrlock", "go 0 peek", "go 1 peektail", "go 2 isempty", "go 3 pop", "settle", "envrunlock", "waitall"},
			// concurrent pops and pushes
			{"new 1 2 3", "hold", "go 0 pop", "go 1 pop", "go 2 pop", "go 3 pop", "go 0 push 4", "go 1 pushfront 5", "go 2 peek", "go 3 peektail", "go 0 pop", "go 1 pop", "start", "waitall"},
		},
	})
}
