//go:build verif

// Package linkedlist drives linkedlist.LinkedList[int] (property C12).
//
// Up to 4 free-running worker goroutines call the methods concurrently (there are no verifhook
// points in linkedlist.go: every method is one critical section under l.mtx); seeded random
// sleeps/yields between calls vary the interleaving. The director hands out the operations in script
// order.
//
// Script steps (any sub-list of a script is a valid script):
//
//	new v1 v2 …   (first line) construct with NewLinkedList(v1, v2, …); default: NewLinkedList()
//	hold          (first or second line) workers do not start before `start`
//	start         let the workers run
//	go k OP [v]   append a call to the work list of worker k (0..3);
//	              OP = push v | pushfront v | pop | peek | peektail | isempty | reset
//	wait k        wait (bounded) until worker k has finished everything handed to it so far
//	waitall       the same for all workers
//	pause         sleep a few microseconds
//
// At the end the workers are joined and the director pops (logged as ordinary calls) until Pop
// reports false: lost or duplicated elements become visible in the history.
//
// History lines: `inv t new v…`, `inv t push v`, `inv t pushfront v`, `inv t pop|peek|peektail|isempty|reset`,
// `ret t ack`, `ret t val v true|false`, `ret t empty true|false`, `ret t panic`.
package linkedlist

import (
	"fmt"
	"math/rand"
	"runtime"
	"strconv"
	"strings"
	"sync"
	"time"

	"github.com/aperturerobotics/util/linkedlist"

	"verifharness/comp"
	"verifharness/hist"
)

const nWorkers = 4

type op struct {
	name string
	v    int
}

type worker struct {
	mu     sync.Mutex
	cond   *sync.Cond
	queue  []op
	done   int
	closed bool
}

func newWorker() *worker {
	w := &worker{}
	w.cond = sync.NewCond(&w.mu)
	return w
}

func (w *worker) add(o op) int {
	w.mu.Lock()
	w.queue = append(w.queue, o)
	n := len(w.queue)
	w.cond.Broadcast()
	w.mu.Unlock()
	return n
}

func (w *worker) close() {
	w.mu.Lock()
	w.closed = true
	w.cond.Broadcast()
	w.mu.Unlock()
}

func (w *worker) next(i int) (op, bool) {
	w.mu.Lock()
	defer w.mu.Unlock()
	for i >= len(w.queue) && !w.closed {
		w.cond.Wait()
	}
	if i < len(w.queue) {
		return w.queue[i], true
	}
	return op{}, false
}

func (w *worker) finished(i int) {
	w.mu.Lock()
	w.done = i + 1
	w.cond.Broadcast()
	w.mu.Unlock()
}

func (w *worker) waitDone(n int, d time.Duration) bool {
	deadline := time.Now().Add(d)
	for {
		w.mu.Lock()
		ok := w.done >= n
		w.mu.Unlock()
		if ok {
			return true
		}
		if time.Now().After(deadline) {
			return false
		}
		time.Sleep(20 * time.Microsecond)
	}
}

// call performs one logged call; it returns (value, ok) for the value-returning methods.
func call(log *hist.Log, l *linkedlist.LinkedList[int], o op) (v int, ok bool) {
	var id int
	switch o.name {
	case "push", "pushfront":
		id = log.Inv("%s %d", o.name, o.v)
	default:
		id = log.Inv("%s", o.name)
	}
	defer func() {
		if r := recover(); r != nil {
			log.Ret(id, "panic")
			v, ok = 0, false
		}
	}()
	switch o.name {
	case "push":
		l.Push(o.v)
		log.Ret(id, "ack")
	case "pushfront":
		l.PushFront(o.v)
		log.Ret(id, "ack")
	case "reset":
		l.Reset()
		log.Ret(id, "ack")
	case "pop":
		v, ok = l.Pop()
		log.Ret(id, "val %d %t", v, ok)
	case "peek":
		v, ok = l.Peek()
		log.Ret(id, "val %d %t", v, ok)
	case "peektail":
		v, ok = l.PeekTail()
		log.Ret(id, "val %d %t", v, ok)
	case "isempty":
		e := l.IsEmpty()
		log.Ret(id, "empty %t", e)
	}
	return v, ok
}

func validOp(name string) bool {
	switch name {
	case "push", "pushfront", "pop", "peek", "peektail", "isempty", "reset":
		return true
	}
	return false
}

func exec(script []string, opt comp.Options) comp.Result {
	log := hist.New()
	tags := comp.TagSet{}
	rng := rand.New(rand.NewSource(opt.Seed ^ 0x11ed))

	// construction: always the first logged call
	var initial []int
	rest := script
	if len(rest) > 0 {
		if f := strings.Fields(rest[0]); len(f) > 0 && f[0] == "new" {
			for _, s := range f[1:] {
				if v, err := strconv.Atoi(s); err == nil && v > 0 {
					initial = append(initial, v)
				}
			}
			rest = rest[1:]
		}
	}
	var l *linkedlist.LinkedList[int]
	{
		parts := make([]string, 0, len(initial)+1)
		parts = append(parts, "new")
		for _, v := range initial {
			parts = append(parts, strconv.Itoa(v))
		}
		id := log.Inv("%s", strings.Join(parts, " "))
		l = linkedlist.NewLinkedList(initial...)
		log.Ret(id, "ack")
	}
	if len(initial) > 0 {
		tags.Add("initial-elems")
	}

	workers := make([]*worker, nWorkers)
	handed := make([]int, nWorkers)
	startCh := make(chan struct{})
	started := false
	start := func() {
		if !started {
			started = true
			close(startCh)
		}
	}
	if len(rest) == 0 || strings.TrimSpace(rest[0]) != "hold" {
		start()
	}
	var wg sync.WaitGroup
	var cntMu sync.Mutex
	popEmpty, peekHit, popHit := 0, 0, 0
	for k := range workers {
		w := newWorker()
		workers[k] = w
		wrng := rand.New(rand.NewSource(opt.Seed*31 + int64(k)))
		wg.Add(1)
		go func() {
			defer wg.Done()
			<-startCh
			for i := 0; ; i++ {
				o, ok := w.next(i)
				if !ok {
					return
				}
				switch wrng.Intn(6) {
				case 0:
					time.Sleep(time.Duration(wrng.Intn(60)) * time.Microsecond)
				case 1, 2:
					runtime.Gosched()
				}
				_, got := call(log, l, o)
				cntMu.Lock()
				switch {
				case o.name == "pop" && !got:
					popEmpty++
				case o.name == "pop":
					popHit++
				case (o.name == "peek" || o.name == "peektail") && got:
					peekHit++
				}
				cntMu.Unlock()
				w.finished(i)
			}
		}()
	}

	total := len(initial)
	for _, stepLine := range rest {
		f := strings.Fields(stepLine)
		if len(f) == 0 {
			continue
		}
		switch f[0] {
		case "start":
			start()
		case "go":
			if len(f) < 3 || !validOp(f[2]) {
				continue
			}
			k, err := strconv.Atoi(f[1])
			if err != nil || k < 0 || k >= nWorkers {
				continue
			}
			o := op{name: f[2]}
			if o.name == "push" || o.name == "pushfront" {
				if len(f) < 4 {
					continue
				}
				v, err := strconv.Atoi(f[3])
				if err != nil || v <= 0 {
					continue
				}
				o.v = v
				total++
			}
			handed[k] = workers[k].add(o)
		case "wait":
			if len(f) < 2 {
				continue
			}
			if k, err := strconv.Atoi(f[1]); err == nil && k >= 0 && k < nWorkers && started {
				workers[k].waitDone(handed[k], 100*time.Millisecond)
			}
		case "waitall":
			if started {
				for k, w := range workers {
					w.waitDone(handed[k], 100*time.Millisecond)
				}
			}
		case "pause":
			time.Sleep(time.Duration(rng.Intn(80)) * time.Microsecond)
		}
	}
	start()
	for _, w := range workers {
		w.close()
	}
	joined := make(chan struct{})
	go func() { wg.Wait(); close(joined) }()
	select {
	case <-joined:
	case <-time.After(3 * time.Second):
		tags.Add("leaked-goroutine")
		return comp.Result{History: log.Lines(), Tags: tags.List(), Unstable: true}
	}
	// drain sequentially
	drained := 0
	for i := 0; i <= total+1; i++ {
		_, ok := call(log, l, op{name: "pop"})
		if !ok {
			break
		}
		drained++
	}
	if popEmpty > 0 {
		tags.Add("pop-empty")
	}
	if popHit > 0 {
		tags.Add("pop-value")
	}
	if peekHit > 0 {
		tags.Add("peek-value")
	}
	if drained > 0 {
		tags.Add("drained")
	}
	lines := log.Lines()
	pending := 0
	for _, ln := range lines {
		if strings.HasPrefix(ln, "inv ") {
			if pending > 0 {
				tags.Add("overlap")
			}
			pending++
			if strings.HasSuffix(ln, " reset") {
				tags.Add("reset")
			}
			if strings.Contains(ln, " pushfront ") {
				tags.Add("pushfront")
			}
		} else if strings.HasPrefix(ln, "ret ") {
			pending--
		}
		if strings.HasSuffix(ln, "panic") {
			tags.Add("panic")
		}
	}
	return comp.Result{History: lines, Tags: tags.List()}
}

func gen(rng *rand.Rand, tier string) []string {
	nw := 2 + rng.Intn(3)
	maxOps := 14 + rng.Intn(12)
	if tier == "thorough" {
		maxOps = 16 + rng.Intn(16)
	}
	if maxOps > nw*12-2 {
		maxOps = nw*12 - 2
	}
	var out []string
	nextV := 1
	if rng.Intn(3) == 0 {
		n := 1 + rng.Intn(3)
		parts := []string{"new"}
		for i := 0; i < n; i++ {
			parts = append(parts, strconv.Itoa(nextV))
			nextV++
		}
		out = append(out, strings.Join(parts, " "))
	}
	if rng.Intn(3) != 0 {
		out = append(out, "hold")
	}
	burst := rng.Intn(2) == 0
	// operation weights vary per scenario
	wPush, wFront, wPop := 20+rng.Intn(25), 5+rng.Intn(20), 15+rng.Intn(25)
	wPeek, wTail, wEmpty, wReset := 5+rng.Intn(10), 5+rng.Intn(10), 3+rng.Intn(8), rng.Intn(6)
	sum := wPush + wFront + wPop + wPeek + wTail + wEmpty + wReset
	counts := make([]int, nw)
	for n := 0; n < maxOps && len(out) < 120; {
		r := rng.Intn(100)
		switch {
		case r < 78:
			k := rng.Intn(nw)
			if counts[k] >= 12 {
				continue
			}
			counts[k]++
			n++
			x := rng.Intn(sum)
			switch {
			case x < wPush:
				out = append(out, fmt.Sprintf("go %d push %d", k, nextV))
				nextV++
			case x < wPush+wFront:
				out = append(out, fmt.Sprintf("go %d pushfront %d", k, nextV))
				nextV++
			case x < wPush+wFront+wPop:
				out = append(out, fmt.Sprintf("go %d pop", k))
			case x < wPush+wFront+wPop+wPeek:
				out = append(out, fmt.Sprintf("go %d peek", k))
			case x < wPush+wFront+wPop+wPeek+wTail:
				out = append(out, fmt.Sprintf("go %d peektail", k))
			case x < wPush+wFront+wPop+wPeek+wTail+wEmpty:
				out = append(out, fmt.Sprintf("go %d isempty", k))
			default:
				out = append(out, fmt.Sprintf("go %d reset", k))
			}
		case r < 86 && !burst:
			out = append(out, "pause")
		case r < 91 && !burst:
			out = append(out, fmt.Sprintf("wait %d", rng.Intn(nw)))
		case r < 94 && !burst:
			out = append(out, "waitall")
		default:
			out = append(out, "start")
		}
	}
	out = append(out, "start")
	return out
}

func init() {
	comp.Register(&comp.Component{
		Name: "linkedlist", Model: "linkedlist", Gen: gen, Exec: exec,
		Corpus: [][]string{
			// every method once, sequentially, on a list constructed with elements
			{"new 1 2", "go 0 peek", "go 0 peektail", "go 0 isempty", "go 0 pushfront 3", "go 0 push 4", "go 0 peek", "go 0 peektail", "go 0 pop", "go 0 pop", "go 0 reset", "go 0 isempty", "go 0 pop", "go 0 peek", "go 0 peektail", "waitall"},
			// list becomes empty through Pop, then Push: tail must have been reset
			{"go 0 push 1", "go 0 pop", "go 0 push 2", "go 0 peek", "go 0 peektail", "go 0 pop", "go 0 pop", "waitall"},
			// PushFront on the empty list must set tail: a following Push appends behind it
			{"go 0 pushfront 1", "go 0 peektail", "go 0 push 2", "go 0 peek", "go 0 pop", "go 0 pop", "go 0 pop", "waitall"},
			// Reset then Push/PushFront
			{"new 1 2 3", "go 0 reset", "go 0 peektail", "go 0 push 4", "go 0 pushfront 5", "go 0 peektail", "go 0 pop", "go 0 pop", "go 0 pop", "waitall"},
			// concurrent pops and pushes
			{"new 1 2 3", "hold", "go 0 pop", "go 1 pop", "go 2 pop", "go 3 pop", "go 0 push 4", "go 1 pushfront 5", "go 2 peek", "go 3 peektail", "go 0 pop", "go 1 pop", "start", "waitall"},
		},
	})
}
