//go:build verif

// Package ccall drives ccall.CallConcurrently (one call per scenario).
//
// Script steps (i is the index of an entry of fns):
//
//	fns f n f …     the shape of the fns argument: f = harness-controlled function, n = nil entry
//	gate            install a gate on the first hold-exit point: the caller is held right after its
//	                first critical section (the window in which all workers may finish first)
//	call            start CallConcurrently(ctx, fns...) in its own goroutine
//	opengate        let the held caller continue
//	finish i r      function i returns r (nil | err | canceled); then wait for its decrement section
//	finishonctx i r function i blocks until its context is cancelled, then returns r
//	probe i         look at Err() of the context that was handed to function i (the function stashes it
//	                at entry; the look is allowed while it runs and after it and the call returned)
//	waitret         wait (bounded) until the call has returned (not logged)
//	cancel          cancel the caller's context
//	settle          wait until nothing has been logged for a short while (not logged)
//	quiesce         (opens the gate,) waits for the grace period and logs pending call / functions waiting for ctx
//	fquiesce        the same without the grace period when no observable event can follow any more
//	                (the call has returned and every function has returned)
//
// Observable lines: inv 0 call f n …; ret 0 nil|canceled|err j|panic; cbin i; cbout i r;
// env cancel; probe i live|cancelled; quiesce p|i w1 w2 ….
package ccall

import (
	"context"
	"errors"
	"fmt"
	"math/rand"
	"sort"
	"strconv"
	"strings"
	"sync"
	"time"

	"github.com/aperturerobotics/util/ccall"

	"verifharness/comp"
	"verifharness/hist"
	"verifharness/hook"
)

type fnErr struct{ j int }

func (e *fnErr) Error() string { return fmt.Sprintf("e%d", e.j) }

type cmd struct {
	kind string // finish | finishonctx
	res  string
	ack  chan struct{}
}

type fnState struct {
	entered chan struct{} // closed at entry
	cmds    chan cmd
	done    chan struct{} // closed when the function returned
	once    sync.Once
	dOnce   sync.Once
	count   int             // number of entries (guarded by run.mu)
	ctx     context.Context // the context handed to the function (guarded by run.mu)
}

type run struct {
	log     *hist.Log
	mu      sync.Mutex
	waiting map[int]bool
	abort   chan struct{}
}

func classify(err error) string {
	if err == nil {
		return "nil"
	}
	var fe *fnErr
	if errors.As(err, &fe) {
		return fmt.Sprintf("err %d", fe.j)
	}
	if err == context.Canceled || errors.Is(err, context.Canceled) {
		return "canceled"
	}
	return "err 999"
}

func mkErr(i int, res string) error {
	switch res {
	case "nil":
		return nil
	case "canceled":
		return context.Canceled
	default:
		return &fnErr{i}
	}
}

func resTok(i int, res string) string {
	switch res {
	case "nil", "canceled":
		return res
	default:
		return fmt.Sprintf("err %d", i)
	}
}

func exec(script []string, opt comp.Options) comp.Result {
	log := hist.New()
	tags := comp.TagSet{}
	prob := 0.3
	if opt.Seed%4 == 0 {
		prob = 0
	}
	h := hook.Install(opt.Seed, hook.Perturb{Prob: prob, MaxSleep: 120 * time.Microsecond})
	defer h.Uninstall()

	r := &run{log: log, waiting: map[int]bool{}, abort: make(chan struct{})}
	ctx, cancel := context.WithCancel(context.Background())
	defer cancel()

	var shape []string
	var fst []*fnState
	var fns []ccall.CallConcurrentlyFunc
	var gate *hook.Gate
	gateOpen := false
	called := false
	cancelled := false
	callDone := make(chan struct{})
	var wg sync.WaitGroup

	mkFn := func(i int, st *fnState) ccall.CallConcurrentlyFunc {
		return func(fctx context.Context) error {
			r.mu.Lock()
			st.count++
			st.ctx = fctx
			r.mu.Unlock()
			log.Add("cbin %d", i)
			st.once.Do(func() { close(st.entered) })
			for {
				var c cmd
				select {
				case c = <-st.cmds:
				case <-r.abort:
					return nil
				}
				switch c.kind {
				case "finish":
					log.Add("cbout %d %s", i, resTok(i, c.res))
					close(c.ack)
					st.dOnce.Do(func() { close(st.done) })
					return mkErr(i, c.res)
				case "finishonctx":
					r.mu.Lock()
					r.waiting[i] = true
					r.mu.Unlock()
					close(c.ack)
					select {
					case <-fctx.Done():
					case <-r.abort:
						return nil
					}
					log.With(func([]int) []string {
						r.mu.Lock()
						delete(r.waiting, i)
						r.mu.Unlock()
						return []string{fmt.Sprintf("probe %d cancelled", i)}
					})
					log.Add("cbout %d %s", i, resTok(i, c.res))
					st.dOnce.Do(func() { close(st.done) })
					return mkErr(i, c.res)
				}
			}
		}
	}

	holdExits := func() int { return h.Hits()["hold-exit"] }
	// waitEntered waits until function i has been entered (or gives up)
	waitEntered := func(i int) bool {
		if !called || i < 0 || i >= len(fst) || fst[i] == nil {
			return false
		}
		select {
		case <-fst[i].entered:
			return true
		case <-time.After(200 * time.Millisecond):
			return false
		}
	}
	isDone := func(i int) bool {
		select {
		case <-fst[i].done:
			return true
		default:
			return false
		}
	}
	send := func(i int, c cmd) bool {
		if !waitEntered(i) || isDone(i) {
			return false
		}
		r.mu.Lock()
		w := r.waiting[i]
		r.mu.Unlock()
		if w {
			return false
		}
		c.ack = make(chan struct{})
		select {
		case fst[i].cmds <- c:
		case <-fst[i].done:
			return false
		case <-time.After(200 * time.Millisecond):
			return false
		}
		select {
		case <-c.ack:
		case <-time.After(200 * time.Millisecond):
		}
		return true
	}
	callReturned := func() bool {
		select {
		case <-callDone:
			return true
		default:
			return false
		}
	}
	quiesceLine := func() {
		log.With(func(pending []int) []string {
			p := "i"
			if len(pending) > 0 {
				p = "p"
			}
			r.mu.Lock()
			var ws []int
			for i := range r.waiting {
				ws = append(ws, i)
			}
			r.mu.Unlock()
			sort.Ints(ws)
			parts := []string{"quiesce", p}
			for _, i := range ws {
				parts = append(parts, strconv.Itoa(i))
			}
			if len(pending) > 0 {
				tags.Add("pending-at-quiesce")
			}
			return []string{strings.Join(parts, " ")}
		})
	}
	fullQuiesce := func() {
		// a caller held at the gate is not quiescent: let it go first
		if gate != nil && !gateOpen {
			gateOpen = true
			gate.Open()
		}
		comp.WaitQuiet(log, opt.Grace, 10*opt.Grace)
		quiesceLine()
	}

	for _, step := range script {
		f := strings.Fields(step)
		if len(f) == 0 {
			continue
		}
		switch f[0] {
		case "fns":
			if called || shape != nil {
				continue
			}
			shape = append([]string{}, f[1:]...)
			for i, k := range shape {
				if k == "f" {
					st := &fnState{entered: make(chan struct{}), cmds: make(chan cmd), done: make(chan struct{})}
					fst = append(fst, st)
					fns = append(fns, mkFn(i, st))
				} else {
					shape[i] = "n"
					fst = append(fst, nil)
					fns = append(fns, nil)
					tags.Add("nil-entry")
				}
			}
		case "gate":
			if called || gate != nil {
				continue
			}
			g := h.AddGate("hold-exit", nil, 1)
			gate = &g
		case "call":
			if called {
				continue
			}
			called = true
			switch len(fns) {
			case 0:
				tags.Add("zero-fns")
			case 1:
				tags.Add("single-fn")
			}
			if cancelled {
				tags.Add("precancelled")
			}
			id := log.Inv("call %s", strings.Join(shape, " "))
			wg.Add(1)
			go func() {
				defer wg.Done()
				defer close(callDone)
				defer func() {
					if p := recover(); p != nil {
						log.Ret(id, "panic")
					}
				}()
				err := ccall.CallConcurrently(ctx, fns...)
				log.Ret(id, "%s", classify(err))
			}()
			if gate != nil && len(fns) >= 2 {
				gate.WaitHit(100 * time.Millisecond)
			}
		case "opengate":
			if gate != nil && !gateOpen {
				gateOpen = true
				// did every function finish while the caller was held?
				all := called && len(fns) >= 2
				nf := 0
				for i, st := range fst {
					if st != nil {
						nf++
						if !isDone(i) {
							all = false
						}
					}
				}
				if all && nf > 0 {
					tags.Add("all-finished-while-caller-held")
				}
				gate.Open()
			}
		case "finish", "finishonctx":
			if len(f) < 3 {
				continue
			}
			i, err := strconv.Atoi(f[1])
			if err != nil {
				continue
			}
			before := holdExits()
			if !send(i, cmd{kind: f[0], res: f[2]}) {
				continue
			}
			switch f[2] {
			case "nil":
			case "canceled":
				tags.Add("fn-canceled")
			default:
				tags.Add("fn-error")
			}
			if f[0] == "finishonctx" {
				tags.Add("fn-waits-for-ctx")
				continue
			}
			if !callReturned() {
				// still inside the call: wait for the worker's decrement section
				if len(fns) >= 2 {
					dl := time.Now().Add(5 * time.Millisecond)
					for holdExits() <= before && time.Now().Before(dl) {
						time.Sleep(20 * time.Microsecond)
					}
				}
			} else {
				tags.Add("fn-finished-after-return")
			}
		case "probe":
			if len(f) < 2 {
				continue
			}
			i, err := strconv.Atoi(f[1])
			if err != nil || !waitEntered(i) {
				continue
			}
			r.mu.Lock()
			fctx := fst[i].ctx
			r.mu.Unlock()
			if fctx == nil {
				continue
			}
			ret := callReturned()
			// the look and the log line are one atomic step w.r.t. the log, so that a "live" look
			// can never be logged after the "ret" line of a call whose deferred cancel came later
			log.With(func([]int) []string {
				if fctx.Err() != nil {
					return []string{fmt.Sprintf("probe %d cancelled", i)}
				}
				return []string{fmt.Sprintf("probe %d live", i)}
			})
			if ret {
				tags.Add("probe-after-return")
				if isDone(i) {
					tags.Add("probe-after-function-returned")
				}
			}
		case "waitret":
			if called {
				select {
				case <-callDone:
				case <-time.After(3 * opt.Grace):
				}
			}
		case "cancel":
			if cancelled {
				continue
			}
			cancelled = true
			if called && !callReturned() {
				tags.Add("cancel-while-pending")
			}
			log.Add("env cancel")
			cancel()
		case "settle":
			comp.WaitQuiet(log, 2*time.Millisecond, 200*time.Millisecond)
		case "quiesce":
			fullQuiesce()
		case "fquiesce":
			if gate != nil && !gateOpen {
				gateOpen = true
				gate.Open()
			}
			final := called
			if final {
				select {
				case <-callDone:
				case <-time.After(3 * opt.Grace):
					final = false
				}
			}
			for _, st := range fst {
				if st != nil && final {
					select {
					case <-st.done:
					default:
						final = false
					}
				}
			}
			if final {
				quiesceLine()
			} else {
				fullQuiesce()
			}
		}
	}

	// wind down
	comp.WaitQuiet(log, time.Millisecond, 100*time.Millisecond)
	lines := log.Lines()
	close(r.abort)
	if gate != nil {
		gate.Open()
	}
	cancel()
	done := make(chan struct{})
	go func() { wg.Wait(); close(done) }()
	select {
	case <-done:
	case <-time.After(2 * time.Second):
		tags.Add("leaked-goroutine")
	}
	for _, l := range lines {
		switch {
		case l == "ret 0 canceled":
			tags.Add("ret-canceled")
		case strings.HasPrefix(l, "ret 0 err"):
			tags.Add("ret-error")
		case l == "ret 0 panic":
			tags.Add("ret-panic")
		}
	}
	return comp.Result{History: lines, Tags: tags.List()}
}

var outcomes = []string{"nil", "err", "canceled"}

func gen(rng *rand.Rand, tier string) []string {
	maxN := 5
	if tier == "thorough" {
		maxN = 7
	}
	n := rng.Intn(maxN + 1)
	if rng.Intn(8) == 0 {
		n = rng.Intn(3)
	}
	shape := []string{"fns"}
	var live []int
	for i := 0; i < n; i++ {
		if rng.Intn(6) == 0 {
			shape = append(shape, "n")
		} else {
			shape = append(shape, "f")
			live = append(live, i)
		}
	}
	out := []string{strings.Join(shape, " ")}
	if rng.Intn(12) == 0 {
		out = append(out, "cancel")
	}
	gated := rng.Intn(5) < 2
	if gated {
		out = append(out, "gate")
	}
	out = append(out, "call")
	rng.Shuffle(len(live), func(a, b int) { live[a], live[b] = live[b], live[a] })
	openAt := -1
	if gated {
		openAt = rng.Intn(len(live) + 1)
	}
	var onctx []int
	for k, i := range live {
		if k == openAt {
			out = append(out, "opengate")
		}
		for rng.Intn(5) == 0 {
			switch rng.Intn(5) {
			case 0:
				out = append(out, "cancel")
			case 1:
				out = append(out, "settle")
			case 2:
				out = append(out, "quiesce")
			default:
				out = append(out, fmt.Sprintf("probe %d", live[rng.Intn(len(live))]))
			}
		}
		res := outcomes[[]int{0, 0, 0, 1, 1, 2}[rng.Intn(6)]]
		if rng.Intn(7) == 0 {
			out = append(out, fmt.Sprintf("finishonctx %d %s", i, res))
			onctx = append(onctx, i)
		} else {
			out = append(out, fmt.Sprintf("finish %d %s", i, res))
		}
	}
	if gated {
		out = append(out, "opengate")
	}
	out = append(out, "settle")
	for _, i := range live {
		if rng.Intn(4) == 0 {
			out = append(out, fmt.Sprintf("probe %d", i))
		}
	}
	out = append(out, "quiesce")
	if len(onctx) > 0 && rng.Intn(2) == 0 {
		out = append(out, "cancel", "quiesce")
	}
	// the context handed to the functions after the call returned
	for _, i := range live {
		if rng.Intn(2) == 0 {
			out = append(out, fmt.Sprintf("probe %d", i))
		}
	}
	return out
}

// perms returns all permutations of 0..n-1.
func perms(n int) [][]int {
	if n == 0 {
		return [][]int{{}}
	}
	var out [][]int
	for _, p := range perms(n - 1) {
		for pos := 0; pos <= len(p); pos++ {
			q := append(append(append([]int{}, p[:pos]...), n-1), p[pos:]...)
			out = append(out, q)
		}
	}
	return out
}

// enumerate lists, for n functions, every combination of outcomes and completion orders, once with
// the caller held right after its first critical section until all functions have finished and once
// with the caller running freely.
func enumerate(n int) [][]string {
	var out [][]string
	shape := "fns" + strings.Repeat(" f", n)
	total := 1
	for i := 0; i < n; i++ {
		total *= len(outcomes)
	}
	for code := 0; code < total; code++ {
		oc := make([]string, n)
		c := code
		for i := 0; i < n; i++ {
			oc[i] = outcomes[c%len(outcomes)]
			c /= len(outcomes)
		}
		for _, p := range perms(n) {
			for _, gated := range []bool{true, false} {
				if gated && n < 2 {
					continue
				}
				s := []string{shape}
				if gated {
					s = append(s, "gate")
				}
				s = append(s, "call")
				for _, i := range p {
					s = append(s, fmt.Sprintf("finish %d %s", i, oc[i]))
				}
				if gated {
					s = append(s, "opengate")
				}
				s = append(s, "waitret")
				for i := 0; i < n; i++ {
					s = append(s, fmt.Sprintf("probe %d", i))
				}
				s = append(s, "fquiesce")
				out = append(out, s)
			}
		}
	}
	return out
}

func enumCorpus(maxN int) [][]string {
	var out [][]string
	for n := 0; n <= maxN; n++ {
		out = append(out, enumerate(n)...)
	}
	return out
}

func init() {
	comp.Register(&comp.Component{
		Name: "ccall", Model: "ccall", Gen: gen, Exec: exec,
		Corpus: [][]string{
			// D10: all workers finish (one with an error) while the caller is held after its first section
			{"fns f f", "gate", "call", "finish 0 err", "finish 1 nil", "opengate", "fquiesce"},
			{"fns f f f", "gate", "call", "finish 2 nil", "finish 0 err", "finish 1 nil", "opengate", "fquiesce"},
			// D11: single nil entry; only nil entries; no entries
			{"fns n", "call", "fquiesce"},
			{"fns n n n", "call", "fquiesce"},
			{"fns", "call", "fquiesce"},
			{"call", "fquiesce"},
			// nil entries between functions
			{"fns n f n f", "call", "finish 3 nil", "finish 1 canceled", "fquiesce"},
			{"fns f n", "gate", "call", "finish 0 err", "opengate", "fquiesce"},
			// first error wins over a later nil, a later error and a later Canceled; Canceled is overwritten
			{"fns f f f", "call", "finish 1 err", "finish 0 nil", "finish 2 nil", "fquiesce"},
			{"fns f f f", "gate", "call", "finish 1 canceled", "finish 0 err", "finish 2 err", "opengate", "fquiesce"},
			// early return on error: the others still run, see a cancelled context, finish later
			{"fns f f f", "call", "finish 1 err", "settle", "probe 0", "probe 2", "finish 0 nil", "finish 2 err", "quiesce"},
			{"fns f f", "call", "finishonctx 0 canceled", "finish 1 err", "quiesce"},
			// caller context cancelled while waiting / before the call
			{"fns f f", "call", "settle", "probe 0", "cancel", "settle", "probe 0", "quiesce", "finish 0 nil", "finish 1 nil", "quiesce"},
			{"fns f f", "cancel", "call", "settle", "quiesce", "finish 0 nil", "finish 1 err", "quiesce"},
			{"fns f f", "call", "finishonctx 0 nil", "finishonctx 1 canceled", "quiesce", "cancel", "quiesce"},
			// single function: inline call, result passed through, context cancelled afterwards
			{"fns f", "call", "probe 0", "finish 0 err", "fquiesce"},
			{"fns f", "call", "cancel", "probe 0", "quiesce", "finish 0 nil", "fquiesce"},
			{"fns f", "call", "finishonctx 0 canceled", "quiesce", "cancel", "quiesce"},
			// the context handed to the function(s) is cancelled after the return, also on the fast path
			// for one function (seeded change C17-s2: the single function got the caller's own context)
			{"fns f", "call", "probe 0", "finish 0 nil", "waitret", "probe 0", "fquiesce"},
			{"fns f", "call", "finish 0 err", "waitret", "probe 0", "fquiesce"},
			{"fns f f", "call", "finish 0 nil", "finish 1 nil", "waitret", "probe 0", "probe 1", "fquiesce"},
			{"fns f n f", "gate", "call", "finish 2 canceled", "finish 0 nil", "opengate", "waitret", "probe 0", "probe 2", "fquiesce"},
			// nothing finishes: the call stays pending
			{"fns f f", "call", "quiesce", "finish 0 nil", "quiesce", "finish 1 nil", "quiesce"},
		},
	})
	// every outcome/completion-order combination for ≤ 4 functions, enumerated (not sampled)
	comp.Register(&comp.Component{
		Name: "ccall-enum", Model: "ccall", Gen: gen, Exec: exec,
		Corpus: enumCorpus(4),
	})
}
