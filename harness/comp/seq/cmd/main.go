//go:build verif

// Command for developing this package in isolation (only the seq components are linked).
package main

import (
	_ "verifharness/comp/seq"
	"verifharness/vmain"
)

func main() { vmain.Main() }
