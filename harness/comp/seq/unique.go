//go:build verif

package seq

import (
	"fmt"
	"math/rand"
	"sort"
	"strings"

	"github.com/aperturerobotics/util/unique"

	"verifharness/comp"
	"verifharness/hist"
)

// Script steps of seq-unique (keys K and payloads X are small non-negative integers):
//
//	new list|map MODE K X K X …   NewKeyedList / NewKeyedMap with initial contents and compare function MODE
//	set K X K X …                 SetValues
//	append K X K X …              AppendValues
//	rmvals K X K X …              RemoveValues (KeyedList only)
//	rmkeys K K …                  RemoveKeys
//	get                           GetKeys and GetValues (logged sorted)
//
// KeyedList: a value is the integer V = K*100 + X and getKey(V) = V/100; values are logged as the pair
// "getKey(V) V". KeyedMap: key K, value X, logged as "K X"; a map argument is built from the pairs
// (a later pair with the same key wins) and logged sorted by key.
//
// Compare functions cmp(k, a, b) (a = new value, b = existing value), by MODE:
// 0: a == b   1: a%10 == b%10   2: false   3: true   4: a <= b

func cmpFn(mode int, tags comp.TagSet) func(k, a, b int) bool {
	return func(k, a, b int) bool {
		var r bool
		switch mode {
		case 0:
			r = a == b
		case 1:
			r = a%10 == b%10
		case 2:
			r = false
		case 3:
			r = true
		default:
			r = a <= b
		}
		if r && a != b {
			tags.Add("different-value-compared-equal")
		}
		if !r && a == b {
			tags.Add("same-value-compared-different")
		}
		return r
	}
}

func pairsOf(f []string, list bool) [][2]int {
	var out [][2]int
	for i := 0; i+1 < len(f); i += 2 {
		k, x := atoi(f[i]), atoi(f[i+1])
		if k < 0 {
			k = 0
		}
		if x < 0 {
			x = 0
		}
		if list {
			out = append(out, [2]int{k, k*100 + x%100})
		} else {
			out = append(out, [2]int{k, x})
		}
	}
	return out
}

func pairsStr(ps [][2]int) string {
	var sb strings.Builder
	for _, p := range ps {
		fmt.Fprintf(&sb, " %d %d", p[0], p[1])
	}
	return sb.String()
}

func intsStr(xs []int) string {
	var sb strings.Builder
	for _, x := range xs {
		fmt.Fprintf(&sb, " %d", x)
	}
	return sb.String()
}

func dedupSorted(ps [][2]int) (map[int]int, [][2]int) {
	m := map[int]int{}
	for _, p := range ps {
		m[p[0]] = p[1]
	}
	var ks []int
	for k := range m {
		ks = append(ks, k)
	}
	sort.Ints(ks)
	var out [][2]int
	for _, k := range ks {
		out = append(out, [2]int{k, m[k]})
	}
	return m, out
}

func hasDupKey(ps [][2]int) bool {
	seen := map[int]bool{}
	for _, p := range ps {
		if seen[p[0]] {
			return true
		}
		seen[p[0]] = true
	}
	return false
}

func execUnique(script []string, opt comp.Options) comp.Result {
	log := hist.New()
	tags := comp.TagSet{}
	var kl *unique.KeyedList[int, int]
	var km *unique.KeyedMap[int, int]
	inCall := ""
	changed := func(k, v int, added, removed bool) {
		log.Add("chg %d %d %d %d", k, v, b2i(added), b2i(removed))
		switch {
		case added:
			tags.Add("added")
		case removed:
			tags.Add("removed")
			if inCall == "set" {
				tags.Add("removed-by-set")
			}
		default:
			tags.Add("updated")
		}
	}
	getKey := func(v int) int { return v / 100 }
	mk := func(isMap bool, mode int, ps [][2]int) {
		kl, km = nil, nil
		if isMap {
			m, sorted := dedupSorted(ps)
			log.Add("new map %d%s", mode, pairsStr(sorted))
			km = unique.NewKeyedMap[int, int](cmpFn(mode, tags), changed, m)
		} else {
			log.Add("new list %d%s", mode, pairsStr(ps))
			vs := make([]int, len(ps))
			for i, p := range ps {
				vs[i] = p[1]
			}
			if hasDupKey(ps) {
				tags.Add("duplicate-key-in-initial")
			}
			kl = unique.NewKeyedList[int, int](getKey, cmpFn(mode, tags), changed, vs)
		}
	}
	get := func() {
		var ks, vs []int
		if kl != nil {
			ks, vs = kl.GetKeys(), kl.GetValues()
		} else {
			ks, vs = km.GetKeys(), km.GetValues()
		}
		sort.Ints(ks)
		sort.Ints(vs)
		log.Add("keys%s", intsStr(ks))
		log.Add("vals%s", intsStr(vs))
	}
	has := func(k int) bool {
		var ks []int
		if kl != nil {
			ks = kl.GetKeys()
		} else {
			ks = km.GetKeys()
		}
		for _, x := range ks {
			if x == k {
				return true
			}
		}
		return false
	}
	for _, step := range script {
		f := strings.Fields(step)
		if len(f) == 0 {
			continue
		}
		if f[0] != "new" && kl == nil && km == nil {
			mk(false, 0, nil)
		}
		switch f[0] {
		case "new":
			isMap := arg(f, 1, "list") == "map"
			var rest []string
			if len(f) > 3 {
				rest = f[3:]
			}
			mk(isMap, atoi(arg(f, 2, "0")), pairsOf(rest, !isMap))
		case "set", "append", "rmvals":
			ps := pairsOf(f[1:], kl != nil)
			if len(ps) == 0 {
				tags.Add("empty-argument")
			}
			if f[0] == "rmvals" && kl == nil {
				continue
			}
			inCall = f[0]
			guard(log.Add, tags, func() {
				if kl != nil {
					if hasDupKey(ps) {
						tags.Add("duplicate-key-in-call")
					}
					vs := make([]int, len(ps))
					for i, p := range ps {
						vs[i] = p[1]
						if f[0] == "rmvals" && !has(p[0]) {
							tags.Add("remove-absent")
						}
					}
					log.Add("call %s%s", f[0], pairsStr(ps))
					switch f[0] {
					case "set":
						kl.SetValues(vs...)
					case "append":
						kl.AppendValues(vs...)
					case "rmvals":
						kl.RemoveValues(vs...)
					}
				} else {
					m, sorted := dedupSorted(ps)
					log.Add("call %s%s", f[0], pairsStr(sorted))
					if f[0] == "set" {
						km.SetValues(m)
					} else {
						km.AppendValues(m)
					}
				}
				log.Add("ret")
			})
			inCall = ""
		case "rmkeys":
			var ks []int
			for _, x := range f[1:] {
				k := atoi(x)
				if k < 0 {
					k = 0
				}
				ks = append(ks, k)
				if !has(k) {
					tags.Add("remove-absent")
				}
			}
			guard(log.Add, tags, func() {
				log.Add("call rmkeys%s", intsStr(ks))
				if kl != nil {
					kl.RemoveKeys(ks...)
				} else {
					km.RemoveKeys(ks...)
				}
				log.Add("ret")
			})
		case "get":
			guard(log.Add, tags, get)
		}
	}
	if kl != nil || km != nil {
		guard(log.Add, tags, get)
	}
	return comp.Result{History: log.Lines(), Tags: tags.List()}
}

func genUnique(rng *rand.Rand, tier string) []string {
	kind := "list"
	if rng.Intn(2) == 0 {
		kind = "map"
	}
	nk := 3 + rng.Intn(4)
	pairs := func(max int) string {
		n := rng.Intn(max + 1)
		var sb strings.Builder
		for i := 0; i < n; i++ {
			fmt.Fprintf(&sb, " %d %d", rng.Intn(nk), rng.Intn(24))
		}
		return sb.String()
	}
	out := []string{fmt.Sprintf("new %s %d%s", kind, rng.Intn(5), pairs(4))}
	steps := 5 + rng.Intn(10)
	if tier == "thorough" {
		steps = 8 + rng.Intn(25)
	}
	for i := 0; i < steps; i++ {
		switch r := rng.Intn(100); {
		case r < 35:
			out = append(out, "set"+pairs(6))
		case r < 60:
			out = append(out, "append"+pairs(5))
		case r < 72:
			out = append(out, "rmvals"+pairs(4))
		case r < 88:
			n := rng.Intn(5)
			s := "rmkeys"
			for j := 0; j < n; j++ {
				s += fmt.Sprintf(" %d", rng.Intn(nk+1))
			}
			out = append(out, s)
		default:
			out = append(out, "get")
		}
		if rng.Intn(3) == 0 {
			out = append(out, "get")
		}
	}
	return out
}

var corpusUnique = [][]string{
	// duplicates inside one SetValues: added, then updated, then a removal of an unseen key
	{"new list 0 1 5 2 6", "set 1 5 3 7 3 8 3 8 1 9", "get", "set", "get"},
	// compare function decides: mode 1 keeps 13 when 23 arrives, replaces it when 14 arrives
	{"new list 1 1 13", "append 1 23", "get", "append 1 14 1 24 1 13", "get", "set 1 3 2 4", "get"},
	// remove absent keys, the same key twice in one call, remove by value with a different payload
	{"new list 0 1 1 2 2 3 3", "rmkeys 9 1 1", "rmvals 2 50 7 7", "get", "rmkeys", "get"},
	// KeyedMap: set / append / remove, asymmetric compare (a <= b keeps the old value)
	{"new map 4 1 10 2 20", "set 1 5 2 25 3 1", "get", "append 1 11 4 0", "get", "rmkeys 2 2 8", "set 4 0", "get"},
	// compare never equal: identical values are notified as updates; always equal: never updated
	{"new map 2 1 1", "set 1 1", "append 1 1 2 2", "get"},
	{"new list 3 1 1", "set 1 2 1 3 2 1 2 2", "append 1 9", "get"},
	// duplicates in the initial list
	{"new list 0 1 1 1 2 2 3", "get", "set 1 2", "get"},
}
