//go:build verif

package seq

import (
	"fmt"
	"math/rand"
	"strings"
	"sync"
	"time"

	"github.com/aperturerobotics/util/ioproxy"

	"verifharness/comp"
	"verifharness/hist"
)

// Script steps of seq-ioproxy (S = 1 or 2):
//
//	new CB              (first line only) CB = 0: ProxyStreams is called with a nil callback
//	feed S b1 b2 …      the next Read on stream S delivers these bytes
//	feederr S b1 …      … delivers these bytes together with harness error 7
//	zero S              the next Read on S returns (0, nil)
//	eof S / rerr S      the next Read on S returns (0, io.EOF) / (0, harness error 7)
//	wplan S KIND        the next Write on S: short (len-1, nil) | err (0, error 7) | errfull (len, error 7)
//	                    | neg (-1, nil) | over (len+2, nil)
//	settle              wait until the log is quiet for a moment
//
// Reads block until the script feeds something or the stream is closed (then: harness error 9).
// At the end the harness feeds EOF to both streams, waits until both pumps have ended (each stream
// closed twice, callback twice) — or a timeout — and logs `quiesce`.

type rItem struct {
	data []byte
	err  error
}

type pStream struct {
	id     int
	log    *hist.Log
	mu     sync.Mutex
	rq     chan rItem
	closed chan struct{}
	wplans []string
	closes int
	tags   comp.TagSet
	tmu    *sync.Mutex
}

func (s *pStream) tag(t string) {
	s.tmu.Lock()
	s.tags.Add(t)
	s.tmu.Unlock()
}

func (s *pStream) Read(p []byte) (int, error) {
	select {
	case it := <-s.rq:
		n := copy(p, it.data)
		s.log.Add("read %d %d %d%s", s.id, n, errCode(it.err), bytesStr(p[:n]))
		return n, it.err
	case <-s.closed:
		s.log.Add("read %d 0 9", s.id)
		s.tag("read-unblocked-by-close")
		return 0, herr{9}
	}
}

func (s *pStream) Write(p []byte) (int, error) {
	s.mu.Lock()
	plan := ""
	select {
	case <-s.closed:
		plan = "closed"
	default:
		if len(s.wplans) > 0 {
			plan, s.wplans = s.wplans[0], s.wplans[1:]
		}
	}
	s.mu.Unlock()
	n, err := len(p), error(nil)
	switch plan {
	case "closed":
		n, err = 0, herr{9}
		s.tag("write-on-closed")
	case "short":
		n = len(p) - 1
		s.tag("short-write")
	case "err":
		n, err = 0, herr{7}
		s.tag("write-error")
	case "errfull":
		err = herr{7}
		s.tag("write-error")
	case "neg":
		n = -1
		s.tag("invalid-write-count")
	case "over":
		n = len(p) + 2
		s.tag("invalid-write-count")
	}
	s.log.Add("write %d %d %d%s", s.id, n, errCode(err), bytesStr(p))
	return n, err
}

func (s *pStream) Close() error {
	s.log.Add("close %d", s.id)
	s.mu.Lock()
	s.closes++
	if s.closes == 1 {
		close(s.closed)
	}
	s.mu.Unlock()
	return nil
}

func (s *pStream) nCloses() int {
	s.mu.Lock()
	defer s.mu.Unlock()
	return s.closes
}

func execProxy(script []string, opt comp.Options) comp.Result {
	log := hist.New()
	tags := comp.TagSet{}
	var tmu sync.Mutex
	mkS := func(id int) *pStream {
		return &pStream{id: id, log: log, rq: make(chan rItem, 512), closed: make(chan struct{}), tags: tags, tmu: &tmu}
	}
	ss := map[string]*pStream{"1": mkS(1), "2": mkS(2)}
	hasCb := true
	if len(script) > 0 {
		if f := strings.Fields(script[0]); len(f) > 1 && f[0] == "new" && f[1] == "0" {
			hasCb = false
		}
	}
	var cmu sync.Mutex
	cbs := 0
	var cb func()
	if hasCb {
		cb = func() {
			log.Add("cb")
			cmu.Lock()
			cbs++
			cmu.Unlock()
		}
	} else {
		tags.Add("nil-callback") // no pump is running yet
	}
	log.Add("new %d", b2i(hasCb))
	ioproxy.ProxyStreams(ss["1"], ss["2"], cb)

	addTag := func(t string) {
		tmu.Lock()
		tags.Add(t)
		tmu.Unlock()
	}
	push := func(s *pStream, it rItem) {
		select {
		case s.rq <- it:
		default: // queue full: drop (never happens with scripts of sane length)
		}
	}
	bytesOf := func(f []string) []byte {
		var b []byte
		for _, x := range f {
			b = append(b, byte(atoi(x)))
		}
		return b
	}
	for _, step := range script {
		f := strings.Fields(step)
		if len(f) < 1 {
			continue
		}
		if f[0] == "settle" {
			comp.WaitQuiet(log, 2*time.Millisecond, 200*time.Millisecond)
			continue
		}
		s := ss[arg(f, 1, "")]
		if s == nil {
			continue
		}
		switch f[0] {
		case "feed":
			if len(f) > 2 {
				push(s, rItem{data: bytesOf(f[2:])})
			}
		case "feederr":
			push(s, rItem{data: bytesOf(f[2:]), err: herr{7}})
			addTag("read-error")
		case "zero":
			push(s, rItem{})
			addTag("zero-read")
		case "eof":
			push(s, rItem{err: mkErr(1)})
		case "rerr":
			push(s, rItem{err: herr{7}})
			addTag("read-error")
		case "wplan":
			s.mu.Lock()
			s.wplans = append(s.wplans, arg(f, 2, ""))
			s.mu.Unlock()
		}
	}
	// wind down: end of input on both sides, then wait for both pumps
	push(ss["1"], rItem{err: mkErr(1)})
	push(ss["2"], rItem{err: mkErr(1)})
	deadline := time.Now().Add(3 * time.Second)
	for time.Now().Before(deadline) {
		cmu.Lock()
		c := cbs
		cmu.Unlock()
		if ss["1"].nCloses() >= 2 && ss["2"].nCloses() >= 2 && (!hasCb || c >= 2) {
			break
		}
		time.Sleep(200 * time.Microsecond)
	}
	comp.WaitQuiet(log, 3*time.Millisecond, 300*time.Millisecond)
	log.Add("quiesce")
	lines := log.Lines()
	tmu.Lock()
	for _, l := range lines {
		if strings.HasPrefix(l, "write ") && strings.Count(l, " ") > 3 {
			tags.Add("data-forwarded")
		}
	}
	res := comp.Result{History: lines, Tags: tags.List()}
	tmu.Unlock()
	return res
}

func genProxy(rng *rand.Rand, tier string) []string {
	out := []string{"new 1"}
	if rng.Intn(12) == 0 {
		out[0] = "new 0"
	}
	steps := 4 + rng.Intn(14)
	if tier == "thorough" {
		steps = 6 + rng.Intn(30)
	}
	var next byte
	chunk := func() string {
		n := 1 + rng.Intn(6)
		var sb strings.Builder
		for i := 0; i < n; i++ {
			fmt.Fprintf(&sb, " %d", next)
			next++
		}
		return sb.String()
	}
	for i := 0; i < steps; i++ {
		s := 1 + rng.Intn(2)
		switch r := rng.Intn(100); {
		case r < 60:
			out = append(out, fmt.Sprintf("feed %d%s", s, chunk()))
		case r < 66:
			out = append(out, fmt.Sprintf("zero %d", s))
		case r < 72:
			out = append(out, fmt.Sprintf("wplan %d %s", s, []string{"short", "err", "errfull", "neg", "over"}[rng.Intn(5)]))
		case r < 77:
			out = append(out, fmt.Sprintf("eof %d", s))
		case r < 81:
			out = append(out, fmt.Sprintf("rerr %d", s))
		case r < 85:
			out = append(out, fmt.Sprintf("feederr %d%s", s, chunk()))
		default:
			out = append(out, "settle")
		}
	}
	return out
}

var corpusProxy = [][]string{
	// both directions, then end of input on side 1
	{"new 1", "feed 1 1 2 3", "feed 2 10 11", "feed 1 4", "settle", "feed 2 12 13 14", "eof 1"},
	// short write stops the 1→2 pump; the other direction is torn down by the closes
	{"new 1", "wplan 2 short", "feed 1 1 2 3", "feed 1 4 5", "settle", "feed 2 9"},
	// data delivered together with a read error; nil callback
	{"new 0", "feederr 2 7 8 9", "feed 1 1", "settle"},
	{"new 1", "zero 1", "zero 2", "wplan 1 over", "feed 2 5 6", "wplan 2 neg", "feed 1 1 2", "settle"},
	{"new 1", "rerr 1", "settle", "feed 2 1 2 3", "feed 1 9"},
}
