//go:build verif

package seq

import (
	"fmt"
	"io"
	"math/rand"
	"strings"

	"github.com/aperturerobotics/util/iocloser"

	"verifharness/comp"
	"verifharness/hist"
)

// Script steps of seq-iocloser:
//
//	new r|w ST CF       NewReadCloser / NewWriteCloser; ST = 0: nil stream, CF = 0: nil close func
//	read LEN N ERR      Read into a LEN-byte buffer; the wrapped reader delivers min(N, LEN) fresh bytes and error ERR
//	write LEN N ERR     Write LEN fresh bytes; the wrapped writer returns (N, error ERR)
//	close ERR           Close; the close func (if it is reached) returns error ERR
//
// Steps of the wrong kind (read on a WriteCloser) are skipped.

type clStream struct {
	log  *hist.Log
	n    int
	err  error
	next byte
}

func (s *clStream) Read(p []byte) (int, error) {
	n := s.n
	if n > len(p) {
		n = len(p)
	}
	if n < 0 {
		n = 0
	}
	for i := 0; i < n; i++ {
		p[i] = s.next
		s.next++
	}
	s.log.Add("cb read %d %d %d%s", len(p), n, errCode(s.err), bytesStr(p[:n]))
	return n, s.err
}

func (s *clStream) Write(p []byte) (int, error) {
	s.log.Add("cb write %d %d%s", s.n, errCode(s.err), bytesStr(p))
	return s.n, s.err
}

func execCloser(script []string, opt comp.Options) comp.Result {
	log := hist.New()
	tags := comp.TagSet{}
	st := &clStream{log: log}
	var rc *iocloser.ReadCloser
	var wc *iocloser.WriteCloser
	var closeErr error
	var out byte = 100
	closes := 0
	closeFn := func() error {
		log.Add("cb closefn %d", errCode(closeErr))
		return closeErr
	}
	mk := func(wr, hasSt, hasFn bool) {
		rc, wc, closes = nil, nil, 0
		var fn func() error
		if hasFn {
			fn = closeFn
		} else {
			tags.Add("nil-close-func")
		}
		if !hasSt {
			tags.Add("nil-stream")
		}
		k := "r"
		if wr {
			k = "w"
		}
		log.Add("new %s %d %d", k, b2i(hasSt), b2i(hasFn))
		if wr {
			var w io.Writer
			if hasSt {
				w = st
			}
			wc = iocloser.NewWriteCloser(w, fn)
		} else {
			var r io.Reader
			if hasSt {
				r = st
			}
			rc = iocloser.NewReadCloser(r, fn)
		}
	}
	for _, step := range script {
		f := strings.Fields(step)
		if len(f) == 0 {
			continue
		}
		if f[0] != "new" && rc == nil && wc == nil {
			mk(f[0] == "write", true, true)
		}
		switch f[0] {
		case "new":
			mk(arg(f, 1, "r") == "w", arg(f, 2, "1") == "1", arg(f, 3, "1") == "1")
		case "read":
			if rc == nil {
				continue
			}
			l := atoi(arg(f, 1, "0"))
			if l < 0 || l > 4096 {
				l = 0
			}
			st.n, st.err = atoi(arg(f, 2, "0")), mkErr(atoi(arg(f, 3, "0")))
			p := make([]byte, l)
			guard(log.Add, tags, func() {
				log.Add("call read %d", l)
				n, err := rc.Read(p)
				if n < 0 || n > l {
					log.Add("ret read %d %d", n, errCode(err))
				} else {
					log.Add("ret read %d %d%s", n, errCode(err), bytesStr(p[:n]))
				}
				if closes > 0 {
					tags.Add("io-after-close")
				}
				if l == 0 {
					tags.Add("zero-length-buffer")
				}
				if n < l && err == nil {
					tags.Add("short")
				}
				if errCode(err) > 1 {
					tags.Add("stream-error")
				}
			})
		case "write":
			if wc == nil {
				continue
			}
			l := atoi(arg(f, 1, "0"))
			if l < 0 || l > 4096 {
				l = 0
			}
			st.n, st.err = atoi(arg(f, 2, "0")), mkErr(atoi(arg(f, 3, "0")))
			p := make([]byte, l)
			for i := range p {
				p[i] = out
				out++
			}
			guard(log.Add, tags, func() {
				log.Add("call write%s", bytesStr(p))
				n, err := wc.Write(p)
				log.Add("ret write %d %d", n, errCode(err))
				if closes > 0 {
					tags.Add("io-after-close")
				}
				if l == 0 {
					tags.Add("zero-length-buffer")
				}
				if n < l && err == nil {
					tags.Add("short")
				}
				if errCode(err) > 1 {
					tags.Add("stream-error")
				}
			})
		case "close":
			closeErr = mkErr(atoi(arg(f, 1, "0")))
			guard(log.Add, tags, func() {
				log.Add("call close")
				var err error
				if rc != nil {
					err = rc.Close()
				} else {
					err = wc.Close()
				}
				log.Add("ret close %d", errCode(err))
				closes++
				if closes > 1 {
					tags.Add("close-again")
				}
				if err != nil {
					tags.Add("close-error")
				}
			})
		}
	}
	return comp.Result{History: log.Lines(), Tags: tags.List()}
}

func genCloser(rng *rand.Rand, tier string) []string {
	wr := rng.Intn(2) == 0
	k, op := "r", "read"
	if wr {
		k, op = "w", "write"
	}
	hasSt, hasFn := 1, 1
	if rng.Intn(10) == 0 {
		hasSt = 0
	}
	if rng.Intn(8) == 0 {
		hasFn = 0
	}
	out := []string{fmt.Sprintf("new %s %d %d", k, hasSt, hasFn)}
	steps := 5 + rng.Intn(14)
	if tier == "thorough" {
		steps = 8 + rng.Intn(30)
	}
	closeAt := rng.Intn(steps + 3) // sometimes never
	for i := 0; i < steps; i++ {
		r := rng.Intn(100)
		switch {
		case i == closeAt || r < 10:
			e := 0
			if rng.Intn(3) == 0 {
				e = 5 + rng.Intn(3)
			}
			out = append(out, fmt.Sprintf("close %d", e))
		default:
			l := rng.Intn(9)
			if rng.Intn(8) == 0 {
				l = 0
			}
			n, e := l, 0
			switch p := rng.Intn(100); {
			case p < 55:
			case p < 70:
				n = rng.Intn(l + 1)
			case p < 80:
				n, e = rng.Intn(l+1), 5+rng.Intn(3)
			case p < 90:
				n, e = 0, 1
			default:
				n, e = 0, 6
			}
			if wr && rng.Intn(20) == 0 {
				n = []int{-1, l + 3}[rng.Intn(2)] // lying writer: the wrapper only forwards
			}
			out = append(out, fmt.Sprintf("%s %d %d %d", op, l, n, e))
		}
	}
	return out
}

var corpusCloser = [][]string{
	// pass-through, Close twice with an error from the close func, I/O after Close
	{"new r 1 1", "read 4 4 0", "read 4 2 0", "read 3 1 5", "close 6", "read 4 4 0", "close 0", "read 0 0 0", "close 7"},
	{"new w 1 1", "write 3 3 0", "write 4 2 0", "write 2 0 6", "close 0", "write 3 3 0", "close 5", "write 0 0 0"},
	// nil close func / nil stream
	{"new r 1 0", "read 2 2 0", "close 5", "read 2 2 0", "close 0"},
	{"new w 0 1", "write 2 2 0", "close 5", "write 1 1 0", "close 0"},
	{"new r 0 0", "read 1 1 0", "close 0", "close 0"},
}
