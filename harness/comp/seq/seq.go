//go:build verif

// Package seq drives the sequential helpers of property C20 (ioseek, iosizer, iocloser, ioproxy,
// unique.KeyedList / KeyedMap) through generated operation sequences.
//
// Every API call is logged with its arguments and the results the real code returned ("call …" before
// and "ret …" after a call that may reach a callback, a single line otherwise); every call of the real
// code that reaches the wrapped stream or a user callback is logged from inside the instrumented
// stream/callback ("cb …"), which is also what decides the (possibly short / failing) result.
// The Lean models accept a line iff they compute the same result.
//
// Error values in log lines: 0 nil, 1 io.EOF, 2/3 the two fixed ioseek errors, n >= 5 harness error #n,
// 99 anything else.
package seq

import (
	"errors"
	"fmt"
	"io"
	"strconv"
	"strings"

	"verifharness/comp"
)

// herr is an error made up by the harness.
type herr struct{ code int }

func (e herr) Error() string { return fmt.Sprintf("harness error %d", e.code) }

func mkErr(code int) error {
	switch code {
	case 0:
		return nil
	case 1:
		return io.EOF
	}
	return herr{code}
}

func errCode(err error) int {
	if err == nil {
		return 0
	}
	if err == io.EOF {
		return 1
	}
	var h herr
	if errors.As(err, &h) {
		return h.code
	}
	switch err.Error() {
	case "ReaderAtSeeker.Seek: invalid whence":
		return 2
	case "ReaderAtSeeker.Seek: negative position":
		return 3
	}
	return 99
}

func bytesStr(b []byte) string {
	var sb strings.Builder
	for _, x := range b {
		sb.WriteByte(' ')
		sb.WriteString(strconv.Itoa(int(x)))
	}
	return sb.String()
}

func atoi(s string) int {
	n, _ := strconv.Atoi(s)
	return n
}

func atoi64(s string) int64 {
	n, _ := strconv.ParseInt(s, 10, 64)
	return n
}

func arg(f []string, i int, def string) string {
	if i < len(f) {
		return f[i]
	}
	return def
}

// guard runs f and converts a panic of the library into a log line the model does not know.
func guard(logf func(string, ...any), tags comp.TagSet, f func()) {
	defer func() {
		if r := recover(); r != nil {
			tags.Add("panic")
			logf("panic %s", strings.ReplaceAll(fmt.Sprint(r), " ", "_"))
		}
	}()
	f()
}

func init() {
	comp.Register(&comp.Component{Name: "seq-ioseek", Model: "seq-ioseek", Gen: genSeek, Exec: execSeek, Corpus: corpusSeek})
	comp.Register(&comp.Component{Name: "seq-iosizer", Model: "seq-iosizer", Gen: genSizer, Exec: execSizer, Corpus: corpusSizer})
	comp.Register(&comp.Component{Name: "seq-iocloser", Model: "seq-iocloser", Gen: genCloser, Exec: execCloser, Corpus: corpusCloser})
	comp.Register(&comp.Component{Name: "seq-ioproxy", Model: "seq-ioproxy", Gen: genProxy, Exec: execProxy, Corpus: corpusProxy})
	comp.Register(&comp.Component{Name: "seq-unique", Model: "seq-unique", Gen: genUnique, Exec: execUnique, Corpus: corpusUnique})
}
