//go:build verif

package seq

import (
	"fmt"
	"io"
	"math/rand"
	"strings"

	"github.com/aperturerobotics/util/iosizer"

	"verifharness/comp"
	"verifharness/hist"
)

// Script steps of seq-iosizer:
//
//	new R W             NewSizeReadWriter; R/W = 1: instrumented stream, 0: nil
//	read LEN N ERR      Read into a LEN-byte buffer; the wrapped reader returns exactly (N, error ERR)
//	write LEN N ERR     Write LEN bytes; the wrapped writer returns exactly (N, error ERR)
//	total               TotalSize
//
// N is whatever the script says — also negative or larger than the buffer (a lying stream): the sizer
// only forwards and counts.

type szStream struct {
	log *hist.Log
	n   int
	err error
}

func (s *szStream) Read(p []byte) (int, error) {
	s.log.Add("cb read %d %d %d", len(p), s.n, errCode(s.err))
	return s.n, s.err
}

func (s *szStream) Write(p []byte) (int, error) {
	s.log.Add("cb write %d %d %d", len(p), s.n, errCode(s.err))
	return s.n, s.err
}

func execSizer(script []string, opt comp.Options) comp.Result {
	log := hist.New()
	tags := comp.TagSet{}
	st := &szStream{log: log}
	var sz *iosizer.SizeReadWriter
	mk := func(r, w bool) {
		var rd io.Reader
		var wr io.Writer
		if r {
			rd = st
		} else {
			tags.Add("nil-reader")
		}
		if w {
			wr = st
		} else {
			tags.Add("nil-writer")
		}
		log.Add("new %d %d", b2i(r), b2i(w))
		sz = iosizer.NewSizeReadWriter(rd, wr)
	}
	for _, step := range script {
		f := strings.Fields(step)
		if len(f) == 0 {
			continue
		}
		if f[0] != "new" && sz == nil {
			mk(true, true)
		}
		switch f[0] {
		case "new":
			mk(arg(f, 1, "1") == "1", arg(f, 2, "1") == "1")
		case "read", "write":
			l := atoi(arg(f, 1, "0"))
			if l < 0 || l > 4096 {
				l = 0
			}
			st.n, st.err = atoi(arg(f, 2, "0")), mkErr(atoi(arg(f, 3, "0")))
			p := make([]byte, l)
			guard(log.Add, tags, func() {
				log.Add("call %s %d", f[0], l)
				var n int
				var err error
				if f[0] == "read" {
					n, err = sz.Read(p)
				} else {
					n, err = sz.Write(p)
				}
				log.Add("ret %s %d %d", f[0], n, errCode(err))
				switch {
				case n < 0:
					tags.Add("negative-count")
				case n == 0:
					tags.Add("zero-count")
				case n > 4294967295:
					tags.Add("count-above-uint32")
				case n > l:
					tags.Add("count-above-buffer")
				case n < l:
					tags.Add("short")
				}
				if err != nil {
					tags.Add("stream-error")
				}
			})
		case "total":
			guard(log.Add, tags, func() { log.Add("total %d", sz.TotalSize()) })
		}
	}
	return comp.Result{History: log.Lines(), Tags: tags.List()}
}

func b2i(b bool) int {
	if b {
		return 1
	}
	return 0
}

func genSizer(rng *rand.Rand, tier string) []string {
	edge := rng.Intn(4) == 0
	r, w := 1, 1
	if rng.Intn(8) == 0 {
		r = 0
	}
	if rng.Intn(8) == 0 {
		w = 0
	}
	out := []string{fmt.Sprintf("new %d %d", r, w)}
	steps := 6 + rng.Intn(16)
	if tier == "thorough" {
		steps = 10 + rng.Intn(40)
	}
	for i := 0; i < steps; i++ {
		op := "read"
		if rng.Intn(2) == 0 {
			op = "write"
		}
		l := rng.Intn(33)
		n, e := l, 0
		switch p := rng.Intn(100); {
		case p < 50:
		case p < 65: // short
			n = rng.Intn(l + 1)
		case p < 75: // short with error
			n, e = rng.Intn(l+1), 5+rng.Intn(3)
		case p < 82: // EOF
			n, e = 0, 1
		case p < 88: // error, nothing transferred
			n, e = 0, 6
		default:
			if op == "read" {
				n, e = rng.Intn(l+1), 1 // data together with EOF
			}
		}
		if rng.Intn(100) < 5 || (edge && rng.Intn(100) < 25) {
			n = []int{-1, -7, 4294967295, 4294967296, 4294967297, l + 5, 1 << 40, 0}[rng.Intn(8)]
			if rng.Intn(2) == 0 {
				l = 0
			}
		}
		out = append(out, fmt.Sprintf("%s %d %d %d", op, l, n, e))
		if rng.Intn(3) == 0 {
			out = append(out, "total")
		}
	}
	return append(out, "total")
}

var corpusSizer = [][]string{
	{"new 1 1", "read 8 8 0", "write 5 5 0", "total", "read 8 3 0", "read 8 2 1", "write 4 0 6", "write 4 2 5", "total"},
	// counts the code does not add: 0, negative, above MaxUint32; the boundary value itself is added
	{"new 1 1", "read 4 0 0", "read 4 -1 0", "total", "write 0 4294967296 0", "total", "write 0 4294967295 0", "total", "read 2 7 0", "total"},
	// nil streams
	{"new 0 1", "read 4 4 0", "write 3 3 0", "total", "new 1 0", "write 3 3 0", "read 4 4 0", "total", "new 0 0", "read 1 1 0", "write 1 1 0", "total"},
}
