//go:build verif

package seq

import (
	"fmt"
	"io"
	"math"
	"math/rand"
	"strings"

	"github.com/aperturerobotics/util/ioseek"

	"verifharness/comp"
	"verifharness/hist"
)

// Script steps of seq-ioseek:
//
//	new SIZE DLEN         NewReaderAtSeeker over an instrumented ReaderAt holding DLEN bytes (normally DLEN = SIZE)
//	seek OFF WHENCE       Seek
//	read LEN PLAN K       Read into a LEN-byte buffer; the wrapped ReadAt answers as an honest reader over
//	                      its data ("full"), returns at most K bytes without error ("short"), or at most
//	                      K bytes with harness error 7 ("err")

type raStream struct {
	data []byte
	log  *hist.Log
	plan string
	k    int
}

func (r *raStream) ReadAt(p []byte, off int64) (int, error) {
	n := 0
	var err error
	switch {
	case off < 0:
		err = herr{8}
	case off >= int64(len(r.data)):
		err = io.EOF
	default:
		n = copy(p, r.data[off:])
		if n < len(p) {
			err = io.EOF
		}
	}
	switch r.plan {
	case "short":
		if n > r.k {
			n, err = r.k, nil
		}
	case "err":
		if n > r.k {
			n = r.k
		}
		err = herr{7}
	}
	r.log.Add("cb readat %d %d %d %d", len(p), off, n, errCode(err))
	return n, err
}

func execSeek(script []string, opt comp.Options) comp.Result {
	log := hist.New()
	tags := comp.TagSet{}
	var ra *raStream
	var rs *ioseek.ReaderAtSeeker
	mk := func(size int64, dlen int) {
		data := make([]byte, dlen)
		for i := range data {
			data[i] = byte(i % 251)
		}
		ra = &raStream{data: data, log: log}
		log.Add("new %d", size)
		rs = ioseek.NewReaderAtSeeker(ra, size)
		if size < 0 {
			tags.Add("negative-size")
		}
		if int64(dlen) != size {
			tags.Add("data-length-differs-from-size")
		}
	}
	for _, step := range script {
		f := strings.Fields(step)
		if len(f) == 0 {
			continue
		}
		if f[0] != "new" && rs == nil {
			mk(16, 16)
		}
		switch f[0] {
		case "new":
			dl := atoi(arg(f, 2, "0"))
			if dl < 0 || dl > 4096 {
				dl = 0
			}
			mk(atoi64(arg(f, 1, "0")), dl)
		case "seek":
			off, wh := atoi64(arg(f, 1, "0")), atoi(arg(f, 2, "0"))
			guard(log.Add, tags, func() {
				res, err := rs.Seek(off, wh)
				log.Add("seek %d %d %d %d", off, wh, res, errCode(err))
				switch errCode(err) {
				case 0:
					tags.Add("seek-ok")
				case 1:
					tags.Add("seek-beyond-end")
				case 2:
					tags.Add("seek-invalid-whence")
				case 3:
					tags.Add("seek-negative")
				}
				if off > math.MaxInt64/2 || off < math.MinInt64/2 {
					tags.Add("huge-offset")
				}
			})
		case "read":
			n := atoi(arg(f, 1, "0"))
			if n < 0 || n > 4096 {
				n = 0
			}
			ra.plan, ra.k = arg(f, 2, "full"), atoi(arg(f, 3, "0"))
			p := make([]byte, n)
			guard(log.Add, tags, func() {
				log.Add("call read %d", n)
				got, err := rs.Read(p)
				log.Add("ret read %d %d", got, errCode(err))
				if n == 0 {
					tags.Add("zero-length-buffer")
				}
				if got < n && err == nil {
					tags.Add("short-read")
				}
				if errCode(err) == 1 {
					tags.Add("read-eof")
				}
				if errCode(err) > 1 {
					tags.Add("read-error")
				}
			})
		}
	}
	return comp.Result{History: log.Lines(), Tags: tags.List()}
}

func genSeek(rng *rand.Rand, tier string) []string {
	edge := rng.Intn(4) == 0
	size := int64(rng.Intn(40))
	dlen := size
	if edge {
		switch rng.Intn(6) {
		case 0:
			size, dlen = -int64(rng.Intn(5))-1, 8
		case 1:
			size, dlen = math.MaxInt64, 16
		case 2:
			dlen = size + 1 + int64(rng.Intn(10))
		case 3:
			dlen = size / 2
		case 4:
			size, dlen = 0, 0
		}
	}
	out := []string{fmt.Sprintf("new %d %d", size, dlen)}
	steps := 8 + rng.Intn(20)
	if tier == "thorough" {
		steps = 10 + rng.Intn(50)
	}
	huge := []int64{math.MaxInt64, math.MinInt64, math.MaxInt64 - int64(rng.Intn(6)), math.MinInt64 + int64(rng.Intn(6)),
		1 << 62, -(1 << 62), math.MaxInt64 - size, math.MaxInt64 - size + 1}
	sz := size
	if sz < 0 || sz > 64 {
		sz = 8
	}
	for i := 0; i < steps; i++ {
		r := rng.Intn(100)
		switch {
		case r < 45:
			wh := rng.Intn(3)
			var off int64
			switch wh {
			case 0:
				off = int64(rng.Intn(int(sz)+6)) - 2
			case 1:
				off = int64(rng.Intn(int(sz)+5)) - sz/2 - 2
			case 2:
				off = int64(rng.Intn(int(sz)+6)) - sz - 2
			}
			if rng.Intn(100) < 8 || (edge && rng.Intn(100) < 25) {
				off = huge[rng.Intn(len(huge))]
			}
			if rng.Intn(100) < 6 || (edge && rng.Intn(100) < 15) {
				wh = []int{3, -1, 7, 1 << 40, math.MinInt64}[rng.Intn(5)]
			}
			out = append(out, fmt.Sprintf("seek %d %d", off, wh))
		default:
			n := rng.Intn(10)
			if rng.Intn(8) == 0 {
				n = 0
			}
			switch p := rng.Intn(100); {
			case p < 70:
				out = append(out, fmt.Sprintf("read %d full 0", n))
			case p < 85:
				out = append(out, fmt.Sprintf("read %d short %d", n, rng.Intn(4)))
			default:
				out = append(out, fmt.Sprintf("read %d err %d", n, rng.Intn(4)))
			}
		}
	}
	// where did we end up: SeekCurrent 0 reports the position
	out = append(out, "seek 0 1")
	return out
}

var corpusSeek = [][]string{
	// seek-from-end then short read, then past the end
	{"new 10 10", "seek -4 2", "read 8 short 2", "read 8 full 0", "read 3 full 0", "seek 0 1", "seek 1 1", "seek 0 1"},
	// failed seeks leave the position: negative, beyond, invalid whence, overflowing sums
	{"new 20 20", "seek 7 0", "seek -8 1", "seek 14 1", "seek 5 3", "seek 9223372036854775807 1", "seek -9223372036854775808 2",
		"seek 9223372036854775807 2", "seek 0 1", "read 4 full 0", "seek 0 1"},
	// size = MaxInt64: the sums wrap around
	{"new 9223372036854775807 16", "seek 9223372036854775807 0", "seek 1 1", "seek 9223372036854775807 1", "seek 0 1", "seek -9223372036854775807 1",
		"seek 0 1", "read 5 full 0", "seek 1 2", "seek 0 2"},
	// zero-length buffers, error returns with data
	{"new 6 6", "read 0 full 0", "read 4 err 2", "read 0 err 0", "seek 0 1", "read 9 full 0", "read 1 full 0", "seek 0 1"},
	// reader longer than the declared size: Read walks past size (environment outside its contract)
	{"new 4 12", "read 6 full 0", "seek 0 1", "seek -1 1", "seek 0 2", "read 3 full 0"},
	// negative size: every Seek fails
	{"new -3 8", "seek 0 0", "seek 0 1", "seek 0 2", "seek 3 2", "read 2 full 0", "seek 0 1"},
}
