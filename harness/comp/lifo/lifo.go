//go:build verif

// Package lifo drives cqueue.AtomicLIFO[int] (property C12).
//
// Up to 4 worker goroutines execute Push/Pop calls concurrently; the director goroutine hands them
// their operations in script order and controls hook gates on the `yield-push` / `yield-pop` points
// (between the load of `top` and the compare-and-swap) to force CAS failures deterministically.
// Random perturbation at the same points does the same at random.
//
// Script steps (any sub-list of a script is a valid script):
//
//	hold          (first line) workers do not start before `start`
//	start         let the workers run
//	go k push v   append Push(v) to the work list of worker k (0..3); v > 0, distinct in a script
//	go k pop      append Pop() to the work list of worker k
//	gate push n   hold the n-th hit (1-based, counted from this step on) of `yield-push` until opened; gates are numbered 0,1,…
//	gate pop n    the same for `yield-pop`
//	hit g         wait (bounded) until some goroutine is held at gate g
//	open g        open gate g
//	wait k        wait (bounded) until worker k has finished everything handed to it so far
//	waitall       the same for all workers
//	pause         sleep a few microseconds
//
// At the end every gate is opened, the workers are joined and the director pops (logged as ordinary
// calls) until Pop returns the zero value: the drained values make lost or duplicated elements
// visible in the history.
//
// History lines: `inv t push v`, `ret t push`, `inv t pop`, `ret t pop v`, `ret t panic`.
package lifo

import (
	"fmt"
	"math/rand"
	"runtime"
	"strconv"
	"strings"
	"sync"
	"sync/atomic"
	"time"

	"github.com/aperturerobotics/util/cqueue"

	"verifharness/comp"
	"verifharness/hist"
	"verifharness/hook"
)

const nWorkers = 4

type op struct {
	push bool
	v    int
}

type worker struct {
	mu     sync.Mutex
	cond   *sync.Cond
	queue  []op
	done   int // number of finished ops
	closed bool
}

func newWorker() *worker {
	w := &worker{}
	w.cond = sync.NewCond(&w.mu)
	return w
}

func (w *worker) add(o op) int {
	w.mu.Lock()
	w.queue = append(w.queue, o)
	n := len(w.queue)
	w.cond.Broadcast()
	w.mu.Unlock()
	return n
}

func (w *worker) close() {
	w.mu.Lock()
	w.closed = true
	w.cond.Broadcast()
	w.mu.Unlock()
}

// next blocks until op i exists or the worker is closed.
func (w *worker) next(i int) (op, bool) {
	w.mu.Lock()
	defer w.mu.Unlock()
	for i >= len(w.queue) && !w.closed {
		w.cond.Wait()
	}
	if i < len(w.queue) {
		return w.queue[i], true
	}
	return op{}, false
}

func (w *worker) finished(i int) {
	w.mu.Lock()
	w.done = i + 1
	w.cond.Broadcast()
	w.mu.Unlock()
}

// waitDone waits until n ops are finished or the timeout expires.
func (w *worker) waitDone(n int, d time.Duration) bool {
	deadline := time.Now().Add(d)
	for {
		w.mu.Lock()
		ok := w.done >= n
		w.mu.Unlock()
		if ok {
			return true
		}
		if time.Now().After(deadline) {
			return false
		}
		time.Sleep(20 * time.Microsecond)
	}
}

func doPush(log *hist.Log, q *cqueue.AtomicLIFO[int], v int) {
	id := log.Inv("push %d", v)
	defer func() {
		if r := recover(); r != nil {
			log.Ret(id, "panic")
		}
	}()
	q.Push(v)
	log.Ret(id, "push")
}

func doPop(log *hist.Log, q *cqueue.AtomicLIFO[int]) (v int, panicked bool) {
	id := log.Inv("pop")
	defer func() {
		if r := recover(); r != nil {
			log.Ret(id, "panic")
			panicked = true
		}
	}()
	v = q.Pop()
	log.Ret(id, "pop %d", v)
	return v, false
}

func exec(script []string, opt comp.Options) comp.Result {
	log := hist.New()
	tags := comp.TagSet{}
	h := hook.Install(opt.Seed, hook.Perturb{Prob: 0.6, MaxSleep: 120 * time.Microsecond})
	defer h.Uninstall()
	rng := rand.New(rand.NewSource(opt.Seed ^ 0x11f0))

	q := &cqueue.AtomicLIFO[int]{}
	workers := make([]*worker, nWorkers)
	handed := make([]int, nWorkers)
	// the workers spin on the flag (a channel wake-up takes longer than a whole work list)
	var startFlag atomic.Bool
	started := false
	start := func() {
		if !started {
			started = true
			startFlag.Store(true)
		}
	}
	if len(script) == 0 || strings.TrimSpace(script[0]) != "hold" {
		start()
	}
	var wg sync.WaitGroup
	var cntMu sync.Mutex
	nPush, nPopVal, nPopEmpty := 0, 0, 0
	for k := range workers {
		w := newWorker()
		workers[k] = w
		wg.Add(1)
		go func() {
			defer wg.Done()
			for spins := 0; !startFlag.Load(); spins++ {
				if spins%64 == 63 {
					runtime.Gosched()
				}
			}
			for i := 0; ; i++ {
				o, ok := w.next(i)
				if !ok {
					return
				}
				if o.push {
					doPush(log, q, o.v)
					cntMu.Lock()
					nPush++
					cntMu.Unlock()
				} else {
					v, _ := doPop(log, q)
					cntMu.Lock()
					if v != 0 {
						nPopVal++
					} else {
						nPopEmpty++
					}
					cntMu.Unlock()
				}
				w.finished(i)
			}
		}()
	}

	var gates []hook.Gate
	for _, stepLine := range script {
		f := strings.Fields(stepLine)
		if len(f) == 0 {
			continue
		}
		switch f[0] {
		case "start":
			start()
		case "go":
			if len(f) < 3 {
				continue
			}
			k, err := strconv.Atoi(f[1])
			if err != nil || k < 0 || k >= nWorkers {
				continue
			}
			switch f[2] {
			case "push":
				if len(f) < 4 {
					continue
				}
				v, err := strconv.Atoi(f[3])
				if err != nil || v <= 0 {
					continue
				}
				handed[k] = workers[k].add(op{push: true, v: v})
			case "pop":
				handed[k] = workers[k].add(op{})
			}
		case "gate":
			if len(f) < 3 {
				continue
			}
			n, err := strconv.Atoi(f[2])
			if err != nil || n < 1 {
				continue
			}
			kind := "yield-push"
			if f[1] == "pop" {
				kind = "yield-pop"
			}
			gates = append(gates, h.AddGate(kind, q, n))
		case "hit":
			if g, err := strconv.Atoi(f[1]); err == nil && g >= 0 && g < len(gates) {
				if gates[g].WaitHit(20 * time.Millisecond) {
					tags.Add("gate-held")
				}
			}
		case "open":
			if g, err := strconv.Atoi(f[1]); err == nil && g >= 0 && g < len(gates) {
				gates[g].Open()
			}
		case "wait":
			if k, err := strconv.Atoi(f[1]); err == nil && k >= 0 && k < nWorkers && started {
				workers[k].waitDone(handed[k], 100*time.Millisecond)
			}
		case "waitall":
			if started {
				for k, w := range workers {
					w.waitDone(handed[k], 100*time.Millisecond)
				}
			}
		case "pause":
			time.Sleep(time.Duration(rng.Intn(80)) * time.Microsecond)
		}
	}
	// wind down: open everything, join the workers
	start()
	for _, g := range gates {
		g.Open()
	}
	for _, w := range workers {
		w.close()
	}
	joined := make(chan struct{})
	go func() { wg.Wait(); close(joined) }()
	select {
	case <-joined:
	case <-time.After(3 * time.Second):
		tags.Add("leaked-goroutine")
		return comp.Result{History: log.Lines(), Tags: tags.List(), Unstable: true}
	}
	hits := h.Hits()
	// drain sequentially (the perturbation is still installed but nobody else runs)
	total := 0
	for _, n := range handed {
		total += n
	}
	drained := 0
	for i := 0; i <= total+1; i++ {
		v, p := doPop(log, q)
		if p || v == 0 {
			break
		}
		drained++
	}
	if hits["yield-push"] > nPush {
		tags.Add("cas-retry-push")
	}
	if hits["yield-pop"] > nPopVal {
		tags.Add("cas-retry-pop")
	}
	if nPopEmpty > 0 {
		tags.Add("pop-empty")
	}
	if drained > 0 {
		tags.Add("drained")
	}
	lines := log.Lines()
	pending := 0
	for _, l := range lines {
		if strings.HasPrefix(l, "inv ") {
			if pending > 0 {
				tags.Add("overlap")
			}
			pending++
		} else if strings.HasPrefix(l, "ret ") {
			pending--
		}
		if strings.HasSuffix(l, "panic") {
			tags.Add("panic")
		}
	}
	return comp.Result{History: lines, Tags: tags.List()}
}

// gen keeps the scenarios small on purpose: the order of concurrent pushes stays ambiguous for the
// model until pops reveal it, and every ambiguous group multiplies the state set of the subset
// construction. So: few pushes, pops at least as likely as pushes, occasional barriers.
func gen(rng *rand.Rand, tier string) []string {
	nw := 2 + rng.Intn(3) // 2..4 workers
	maxOps := 8 + rng.Intn(9)
	maxPush := 4 + rng.Intn(3)
	if tier == "thorough" {
		maxOps = 8 + rng.Intn(12)
		maxPush = 4 + rng.Intn(4)
	}
	perWorker := 12
	if maxOps > nw*perWorker-2 {
		maxOps = nw*perWorker - 2
	}
	var out []string
	if rng.Intn(3) != 0 {
		out = append(out, "hold")
	}
	counts := make([]int, nw)
	nextV := 1
	ngates := 0
	var openLater []int
	pPush := 30 + rng.Intn(30) // percentage of pushes
	burst := rng.Intn(3) == 0  // hand everything over at once
	for n := 0; n < maxOps && len(out) < 120; {
		r := rng.Intn(100)
		switch {
		case r < 70:
			k := rng.Intn(nw)
			if counts[k] >= perWorker {
				continue
			}
			counts[k]++
			n++
			if rng.Intn(100) < pPush && nextV <= maxPush {
				out = append(out, fmt.Sprintf("go %d push %d", k, nextV))
				nextV++
			} else {
				out = append(out, fmt.Sprintf("go %d pop", k))
			}
		case r < 78 && ngates < 3:
			kind := "push"
			if rng.Intn(2) == 0 {
				kind = "pop"
			}
			out = append(out, fmt.Sprintf("gate %s %d", kind, 1+rng.Intn(3)))
			openLater = append(openLater, ngates)
			ngates++
		case r < 84 && len(openLater) > 0:
			g := openLater[0]
			openLater = openLater[1:]
			out = append(out, fmt.Sprintf("hit %d", g), "pause", fmt.Sprintf("open %d", g))
		case r < 89 && !burst:
			out = append(out, "pause")
		case r < 93 && !burst && len(openLater) == 0:
			out = append(out, fmt.Sprintf("wait %d", rng.Intn(nw)))
		case r < 96 && !burst && len(openLater) == 0:
			out = append(out, "waitall")
		case !burst:
			out = append(out, "start")
		}
	}
	out = append(out, "start")
	for _, g := range openLater {
		out = append(out, fmt.Sprintf("hit %d", g), "pause", fmt.Sprintf("open %d", g))
	}
	return out
}

func init() {
	comp.Register(&comp.Component{
		Name: "lifo", Model: "lifo", Gen: gen, Exec: exec,
		Corpus: [][]string{
			// Push held between load and CAS while another Push completes: the held CAS must fail and retry
			{"gate push 1", "go 0 push 1", "hit 0", "go 1 push 2", "wait 1", "open 0", "waitall", "go 2 pop", "go 2 pop", "go 2 pop", "waitall"},
			// Pop held between load and CAS while another Pop takes the same node and a Push replaces the top:
			// the held Pop must not return the node again, nor install its stale `next`
			{"go 0 push 1", "go 0 push 2", "wait 0", "gate pop 1", "go 1 pop", "hit 0", "go 2 pop", "go 2 push 3", "wait 2", "open 0", "waitall", "go 3 pop", "go 3 pop", "go 3 pop", "waitall"},
			// Pop held while the stack is emptied and refilled (ABA shape: same values, new nodes)
			{"go 0 push 1", "wait 0", "gate pop 1", "go 1 pop", "hit 0", "go 2 pop", "go 2 push 2", "go 2 push 3", "wait 2", "open 0", "waitall"},
			// Push held while the node it linked to is popped: the stale `next` must not be published
			{"go 0 push 1", "wait 0", "gate push 1", "go 1 push 2", "hit 0", "go 2 pop", "wait 2", "open 0", "waitall", "go 3 pop", "go 3 pop", "waitall"},
			// two held Pops and a held Push released in reverse order
			{"go 0 push 1", "go 0 push 2", "go 0 push 3", "wait 0", "gate pop 1", "gate pop 1", "gate push 1", "go 1 pop", "hit 0", "go 2 pop", "hit 1", "go 3 push 4", "hit 2", "go 0 pop", "wait 0", "open 2", "wait 3", "open 1", "wait 2", "open 0", "waitall"},
			// pops of the empty stack racing with pushes
			{"hold", "go 0 pop", "go 1 push 1", "go 2 pop", "go 3 push 2", "go 0 pop", "go 1 pop", "start", "waitall"},
		},
	})
}
