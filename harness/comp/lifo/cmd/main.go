//go:build verif

// Command for developing the C12 package in isolation (only its two components are linked).
package main

import (
	_ "verifharness/comp/lifo"
	_ "verifharness/comp/linkedlist"
	"verifharness/vmain"
)

func main() { vmain.Main() }
