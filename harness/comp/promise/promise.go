//go:build verif

// Package promise drives promise.Promise and promise.PromiseContainer (property C11).
//
// Script steps. p = index of the p-th `newp` step; i = index of the i-th await/cawait step
// (0-based, in script order; steps that refer to something that does not exist are skipped, so
// every sub-list of a script is a script). e = nil|e1|canceled|deadline.
//
//	newp                 create a plain Promise
//	newpe e              create a Promise pre-resolved with NewPromiseWithErr(e): it holds (zero, e); it is
//	                     never put into the container (csetp on it is skipped)
//	checklike plain|cont run promise.CheckPromiseLike on fresh instances of Promise / PromiseContainer and log
//	                     `env checklike plain|cont ok|fail` (≈100 ms: corpus only)
//	checklike bad1|bad2|bad3  the same on a deliberately wrong PromiseLike (Await ignores the cancelled
//	                     context / returns an error / returns another value): CheckPromiseLike must object
//	set p e / aset p e   Promise p .SetResult(id+1, e), synchronously / from a new goroutine
//	bset p k             k SetResult calls on Promise p released together by a spin barrier
//	brace p k            one SetResult and k Await(ctx) calls on Promise p released together
//	gate p               hold the winner of Promise p at the `yield-setresult` point (after the swap,
//	                     before the fields are written and the channel is closed) until `open p`
//	open p               open that gate
//	await p k            start Promise p .Await / AwaitWithErrCh / AwaitWithCancelCh (k = ctx|errch|cancelch)
//	                     in its own goroutine with a fresh context and a fresh channel
//	cancel i             cancel the context of await i
//	fire i close         close the error / cancel channel of await i
//	fire i send e        send e on the error channel (or a token on the cancel channel) of await i
//	csetp p|nil / acsetp container.SetPromise
//	cres e / acres e     container.SetResult(id+1, e)
//	cawait k             container.Await* in its own goroutine
//	pause, settle        (not logged)
//	quiesce              open all gates, wait for the grace period, then measure the CPU time of the
//	                     process over a further window during which the hook handler is removed, and log
//	                     `quiesce idle|busy <pending ids>`
package promise

import (
	"context"
	"errors"
	"fmt"
	"math/rand"
	"runtime"
	"strconv"
	"strings"
	"sync"
	"sync/atomic"
	"syscall"
	"time"

	"github.com/aperturerobotics/util/promise"

	"verifharness/comp"
	"verifharness/hist"
	"verifharness/hook"
)

var errCustom = errors.New("e1")

func errOf(s string) (error, bool) {
	switch s {
	case "nil":
		return nil, true
	case "e1":
		return errCustom, true
	case "canceled":
		return context.Canceled, true
	case "deadline":
		return context.DeadlineExceeded, true
	}
	return nil, false
}

func errName(err error) string {
	switch err {
	case nil:
		return "nil"
	case errCustom:
		return "e1"
	case context.Canceled:
		return "canceled"
	case context.DeadlineExceeded:
		return "deadline"
	}
	return "other:" + strings.ReplaceAll(err.Error(), " ", "_")
}

// fakeLike is a deliberately wrong PromiseLike used to exercise the complaints of CheckPromiseLike.
type fakeLike struct {
	*promise.Promise[int]
	mode int
}

// Await misbehaves according to mode.
func (f fakeLike) Await(ctx context.Context) (int, error) {
	v, err := f.Promise.Await(ctx)
	switch {
	case f.mode == 1:
		return 0, nil // a cancelled context is not reported
	case f.mode == 2 && err == nil:
		return 0, errCustom // the result is replaced by an error
	case f.mode == 3 && err == nil:
		return v + 2, nil // another value
	}
	return v, err
}

type awaitCall struct {
	id       int
	kind     string
	cont     bool
	cancel   context.CancelFunc
	errCh    chan error
	cancelCh chan struct{}
	fired    bool
}

// recoverRet logs a panic of library code as the result of call id.
func recoverRet(log *hist.Log, id int) {
	if r := recover(); r != nil {
		log.Ret(id, "panic")
	}
}

// spinBarrier releases k goroutines within a few nanoseconds of each other (a channel close wakes
// them one after the other, microseconds apart, which never overlaps two-instruction windows).
type spinBarrier struct {
	k     int32
	ready atomic.Int32
	open  atomic.Bool
}

func newBarrier(k int) *spinBarrier { return &spinBarrier{k: int32(k)} }

func (b *spinBarrier) wait() {
	b.ready.Add(1)
	deadline := time.Now().Add(50 * time.Millisecond)
	for i := 0; !b.open.Load(); i++ {
		if i%1024 == 1023 && time.Now().After(deadline) {
			return
		}
	}
}

func (b *spinBarrier) release() {
	deadline := time.Now().Add(20 * time.Millisecond)
	for b.ready.Load() < b.k && time.Now().Before(deadline) {
		runtime.Gosched()
	}
	b.open.Store(true)
}

func cpuTime() time.Duration {
	var ru syscall.Rusage
	if err := syscall.Getrusage(syscall.RUSAGE_SELF, &ru); err != nil {
		return 0
	}
	return time.Duration(ru.Utime.Nano() + ru.Stime.Nano())
}

func exec(script []string, opt comp.Options) comp.Result {
	log := hist.New()
	tags := comp.TagSet{}
	nInstall := int64(0)
	h := hook.Install(opt.Seed, hook.Perturb{Prob: 0.35, MaxSleep: 150 * time.Microsecond})
	defer func() { h.Uninstall() }()
	rng := rand.New(rand.NewSource(opt.Seed ^ 0x5eed))
	unstable := false

	var proms []*promise.Promise[int]
	born := map[int]bool{}
	gates := map[int]hook.Gate{}
	gateOpen := map[int]bool{}
	ctr := promise.NewPromiseContainer[int]()
	var awaits []*awaitCall
	var wg sync.WaitGroup
	nid := 0 // mirror of the log's id counter: every inv is logged by this goroutine
	inv := func(format string, a ...any) int {
		id := log.Inv(format, a...)
		if id != nid {
			unstable = true
		}
		nid = id + 1
		return id
	}
	openGates := func() {
		for p, g := range gates {
			if !gateOpen[p] {
				g.Open()
				gateOpen[p] = true
			}
		}
	}
	promIdx := func(s string) (int, bool) {
		p, err := strconv.Atoi(s)
		if err != nil || p < 0 || p >= len(proms) {
			return 0, false
		}
		return p, true
	}
	run := func(async bool, f func()) {
		if !async {
			f()
			return
		}
		wg.Add(1)
		go func() { defer wg.Done(); f() }()
	}
	nRepl := 0
	startSet := func(p int, en string, e error, async bool, b *spinBarrier) {
		id := inv("set %d %d %s", p, nid+1, en)
		pr := proms[p]
		if _, gated := gates[p]; gated && !gateOpen[p] {
			async = true // the director must never park at a gate itself
		}
		run(async, func() {
			defer recoverRet(log, id)
			if b != nil {
				b.wait()
			}
			r := pr.SetResult(id+1, e)
			log.Ret(id, "set %v", r)
		})
	}
	startAwait := func(cont bool, p int, kind string, b *spinBarrier) {
		var pr promise.PromiseLike[int]
		c := &awaitCall{kind: kind, cont: cont}
		if cont {
			pr = ctr
			c.id = inv("cawait %s", kind)
		} else {
			pr = proms[p]
			c.id = inv("await %d %s", p, kind)
		}
		ctx, cancel := context.WithCancel(context.Background())
		c.cancel = cancel
		c.errCh = make(chan error, 1)
		c.cancelCh = make(chan struct{}, 1)
		awaits = append(awaits, c)
		wg.Add(1)
		go func() {
			defer wg.Done()
			defer recoverRet(log, c.id)
			if b != nil {
				b.wait()
			}
			var v int
			var err error
			switch kind {
			case "ctx":
				v, err = pr.Await(ctx)
			case "errch":
				v, err = pr.AwaitWithErrCh(ctx, c.errCh)
			default:
				v, err = pr.AwaitWithCancelCh(ctx, c.cancelCh)
			}
			log.Ret(c.id, "await %d %s", v, errName(err))
		}()
	}

	for _, step := range script {
		f := strings.Fields(step)
		if len(f) == 0 {
			continue
		}
		switch f[0] {
		case "newp":
			log.Add("env newp %d", len(proms))
			proms = append(proms, promise.NewPromise[int]())
		case "newpe":
			if len(f) < 2 {
				continue
			}
			e, ok := errOf(f[1])
			if !ok {
				continue
			}
			log.Add("env newpe %d %s", len(proms), f[1])
			born[len(proms)] = true
			proms = append(proms, promise.NewPromiseWithErr[int](e))
			tags.Add("born-resolved")
		case "checklike":
			if len(f) < 2 {
				continue
			}
			var ctor func() promise.PromiseLike[int]
			switch f[1] {
			case "plain":
				ctor = func() promise.PromiseLike[int] { return promise.NewPromise[int]() }
			case "cont":
				ctor = func() promise.PromiseLike[int] { return promise.NewPromiseContainer[int]() }
			case "bad1", "bad2", "bad3":
				mode := int(f[1][3] - '0')
				ctor = func() promise.PromiseLike[int] { return fakeLike{promise.NewPromise[int](), mode} }
			default:
				continue
			}
			cctx, ccancel := context.WithTimeout(context.Background(), 3*time.Second)
			err := promise.CheckPromiseLike(cctx, ctor)
			ccancel()
			if err == nil {
				log.Add("env checklike %s ok", f[1])
			} else {
				log.Add("env checklike %s fail", f[1])
				tags.Add("checklike-error:" + strings.ReplaceAll(err.Error(), " ", "_"))
			}
			tags.Add("checklike")
		case "set", "aset":
			if len(f) < 3 {
				continue
			}
			p, ok := promIdx(f[1])
			e, ok2 := errOf(f[2])
			if !ok || !ok2 {
				continue
			}
			startSet(p, f[2], e, f[0] == "aset", nil)
		case "bset", "brace":
			// bset p k: k SetResult calls on promise p released together by a spin barrier;
			// brace p k: one SetResult and k Await(ctx) calls released together
			if len(f) < 3 {
				continue
			}
			p, ok := promIdx(f[1])
			k, err := strconv.Atoi(f[2])
			if !ok || err != nil || k < 1 || k > 4 {
				continue
			}
			if f[0] == "bset" {
				b := newBarrier(k)
				for j := 0; j < k; j++ {
					en := errs[(j+nid)%len(errs)]
					e, _ := errOf(en)
					startSet(p, en, e, true, b)
				}
				b.release()
			} else {
				b := newBarrier(k + 1)
				for j := 0; j < k; j++ {
					startAwait(false, p, "ctx", b)
				}
				en := errs[nid%len(errs)]
				e, _ := errOf(en)
				startSet(p, en, e, true, b)
				b.release()
			}
		case "gate":
			if len(f) < 2 {
				continue
			}
			p, ok := promIdx(f[1])
			if !ok {
				continue
			}
			if _, dup := gates[p]; dup {
				continue
			}
			gates[p] = h.AddGate("yield-setresult", proms[p], 1)
		case "open":
			if len(f) < 2 {
				continue
			}
			p, ok := promIdx(f[1])
			if !ok {
				continue
			}
			if g, have := gates[p]; have && !gateOpen[p] {
				if g.WaitHit(0) {
					tags.Add("publish-window")
				}
				g.Open()
				gateOpen[p] = true
			}
		case "await", "cawait":
			if f[0] == "await" {
				if len(f) < 3 {
					continue
				}
				p, ok := promIdx(f[1])
				if !ok || (f[2] != "ctx" && f[2] != "errch" && f[2] != "cancelch") {
					continue
				}
				startAwait(false, p, f[2], nil)
			} else {
				if len(f) < 2 || (f[1] != "ctx" && f[1] != "errch" && f[1] != "cancelch") {
					continue
				}
				startAwait(true, 0, f[1], nil)
			}
		case "cancel":
			if len(f) < 2 {
				continue
			}
			i, err := strconv.Atoi(f[1])
			if err != nil || i < 0 || i >= len(awaits) {
				continue
			}
			log.Add("env cancel %d", awaits[i].id)
			awaits[i].cancel()
		case "fire":
			if len(f) < 3 {
				continue
			}
			i, err := strconv.Atoi(f[1])
			if err != nil || i < 0 || i >= len(awaits) {
				continue
			}
			c := awaits[i]
			if c.fired || c.kind == "ctx" {
				continue
			}
			if f[2] == "close" {
				c.fired = true
				log.Add("env fire %d close", c.id)
				if c.kind == "errch" {
					close(c.errCh)
				} else {
					close(c.cancelCh)
				}
			} else if f[2] == "send" {
				if c.kind == "errch" {
					if len(f) < 4 {
						continue
					}
					e, ok := errOf(f[3])
					if !ok {
						continue
					}
					c.fired = true
					log.Add("env fire %d send %s", c.id, f[3])
					c.errCh <- e
				} else {
					c.fired = true
					log.Add("env fire %d send nil", c.id)
					c.cancelCh <- struct{}{}
				}
			}
		case "csetp", "acsetp":
			if len(f) < 2 {
				continue
			}
			var pl promise.PromiseLike[int] // a true nil interface for "nil"
			var id int
			if f[1] == "nil" {
				id = inv("csetp nil")
			} else {
				p, ok := promIdx(f[1])
				if !ok || born[p] {
					continue
				}
				pl = proms[p]
				id = inv("csetp %d", p)
			}
			nRepl++
			run(f[0] == "acsetp", func() {
				defer recoverRet(log, id)
				ctr.SetPromise(pl)
				log.Ret(id, "csetp")
			})
		case "cres", "acres":
			if len(f) < 2 {
				continue
			}
			e, ok := errOf(f[1])
			if !ok {
				continue
			}
			id := inv("cres %d %s", nid+1, f[1])
			nRepl++
			run(f[0] == "acres", func() {
				defer recoverRet(log, id)
				r := ctr.SetResult(id+1, e)
				log.Ret(id, "cres %v", r)
			})
		case "pause":
			time.Sleep(time.Duration(rng.Intn(120)) * time.Microsecond)
		case "settle":
			comp.WaitQuiet(log, 2*time.Millisecond, 200*time.Millisecond)
		case "quiesce":
			openGates()
			comp.WaitQuiet(log, opt.Grace, 10*opt.Grace)
			busy := false
			if log.NumPending() > 0 {
				tags.Add("blocked-at-quiesce")
				// CPU observation: a blocked awaiter must not burn CPU. Measured without the
				// perturbation handler (its sleeps would hide a busy loop).
				h.Uninstall()
				c0, t0 := cpuTime(), time.Now()
				time.Sleep(opt.Grace)
				c1, wall := cpuTime(), time.Since(t0)
				nInstall++
				h = hook.Install(opt.Seed+nInstall*7919, hook.Perturb{Prob: 0.35, MaxSleep: 150 * time.Microsecond})
				gates = map[int]hook.Gate{}
				gateOpen = map[int]bool{}
				busy = wall > 0 && (c1-c0)*2 >= wall
			}
			log.With(func(pending []int) []string {
				parts := []string{"quiesce", "idle"}
				if busy {
					parts[1] = "busy"
				}
				for _, id := range pending {
					parts = append(parts, strconv.Itoa(id))
				}
				return []string{strings.Join(parts, " ")}
			})
		}
	}
	comp.WaitQuiet(log, 2*time.Millisecond, 200*time.Millisecond)
	lines := log.Lines()
	openGates()
	for _, c := range awaits {
		c.cancel()
	}
	done := make(chan struct{})
	go func() { wg.Wait(); close(done) }()
	select {
	case <-done:
	case <-time.After(2 * time.Second):
		tags.Add("leaked-goroutine")
	}
	nset := 0
	for _, l := range lines {
		f := strings.Fields(l)
		switch {
		case strings.HasSuffix(l, "set false"):
			tags.Add("set-lost")
		case len(f) == 5 && f[0] == "ret" && f[2] == "await":
			if f[3] != "0" {
				tags.Add("await-result")
				if f[4] == "canceled" {
					tags.Add("result-canceled")
				}
			} else if f[4] == "canceled" {
				tags.Add("await-canceled")
			} else {
				tags.Add("await-errch")
			}
		case len(f) >= 3 && f[0] == "inv" && f[2] == "set":
			nset++
		case len(f) >= 3 && f[0] == "inv" && f[2] == "cawait":
			if nRepl >= 2 {
				tags.Add("container-replaced")
			}
		case strings.HasPrefix(l, "quiesce busy"):
			tags.Add("cpu-busy")
		}
	}
	if nset >= 2 {
		tags.Add("multi-set")
	}
	return comp.Result{History: lines, Tags: tags.List(), Unstable: unstable}
}

var errs = []string{"nil", "e1", "canceled", "deadline"}
var kinds = []string{"ctx", "errch", "cancelch"}

// gen generates a mostly-valid script. It never fires the own channel of a container awaiter while
// a promise is (or may later become) current and unresolved: that is the open finding D9, which is
// exercised by exactly one corpus scenario.
func gen(rng *rand.Rand, tier string) []string {
	steps := 12 + rng.Intn(18)
	maxP, maxA, maxCA := 3, 5, 2
	if tier == "thorough" {
		steps, maxP, maxA, maxCA = 20+rng.Intn(40), 4, 8, 3
	}
	nca := 0
	var out []string
	np, na := 0, 0
	var cont []bool   // await i is a container await
	var akind []string
	useCont := rng.Intn(3) != 0
	curNil := true // the container's current promise is certainly nil (tracked for sync steps only)
	contFired := map[int]bool{}
	e := func() string { return errs[rng.Intn(len(errs))] }
	k := func() string { return kinds[rng.Intn(len(kinds))] }
	sync := func(s string) string {
		if rng.Intn(3) == 0 {
			return "a" + s
		}
		return s
	}
	out = append(out, "newp")
	np = 1
	bornG := map[int]bool{}
	plainP := func() int { // a promise that may go into the container (promise 0 always qualifies)
		for j := 0; j < 8; j++ {
			if p := rng.Intn(np); !bornG[p] {
				return p
			}
		}
		return 0
	}
	pendingSettle := 0
	for i := 0; i < steps; i++ {
		if pendingSettle > 0 {
			pendingSettle--
			if pendingSettle == 0 {
				out = append(out, "settle")
			}
		}
		r := rng.Intn(100)
		switch {
		case r < 12 && np < maxP && rng.Intn(2) == 0:
			if rng.Intn(3) == 0 {
				out = append(out, "newpe "+e())
				bornG[np] = true
			} else {
				out = append(out, "newp")
			}
			np++
		case r < 5:
			out = append(out, fmt.Sprintf("bset %d %d", rng.Intn(np), 2+rng.Intn(2)), "settle")
		case r < 8 && na+2 <= maxA:
			out = append(out, fmt.Sprintf("brace %d 2", rng.Intn(np)), "settle")
			cont = append(cont, false, false)
			akind = append(akind, "", "")
			na += 2
		case r < 24:
			out = append(out, fmt.Sprintf("%s %d %s", sync("set"), rng.Intn(np), e()))
		case r < 28:
			p := rng.Intn(np)
			out = append(out, fmt.Sprintf("gate %d", p), fmt.Sprintf("aset %d %s", p, e()))
			if rng.Intn(2) == 0 {
				out = append(out, fmt.Sprintf("aset %d %s", p, e()))
			}
			out = append(out, "settle", fmt.Sprintf("await %d %s", p, k()))
			cont = append(cont, false)
			akind = append(akind, "")
			na++
			out = append(out, "settle", fmt.Sprintf("open %d", p))
		case r < 42 && na < maxA:
			out = append(out, fmt.Sprintf("await %d %s", rng.Intn(np), k()))
			cont = append(cont, false)
			akind = append(akind, "")
			na++
		case r < 54 && na < maxA && nca < maxCA && useCont:
			nca++
			kk := k()
			out = append(out, "cawait "+kk)
			cont = append(cont, true)
			akind = append(akind, kk)
			na++
		case r < 62 && na > 0:
			out = append(out, fmt.Sprintf("cancel %d", rng.Intn(na)))
		case r < 70 && na > 0:
			i := rng.Intn(na)
			if cont[i] {
				// D9 avoidance: only while the container is certainly empty, and then let the
				// awaiter return before anything else happens
				if !curNil || contFired[i] {
					continue
				}
				contFired[i] = true
				out = append(out, "settle")
			}
			if rng.Intn(2) == 0 {
				out = append(out, fmt.Sprintf("fire %d close", i))
			} else {
				out = append(out, fmt.Sprintf("fire %d send %s", i, e()))
			}
			if cont[i] {
				out = append(out, "settle")
			}
		case r < 73 && useCont && nca < maxCA && na < maxA:
			// removal of an unresolved promise under a parked awaiter, then its late resolution
			p := plainP()
			kk := k()
			out = append(out, fmt.Sprintf("csetp %d", p), "cawait "+kk, "settle", "csetp nil", "quiesce",
				fmt.Sprintf("set %d %s", p, e()), "quiesce")
			cont = append(cont, true)
			akind = append(akind, kk)
			na++
			nca++
			curNil = true
		case r < 80 && useCont:
			if rng.Intn(4) == 0 {
				out = append(out, "settle", "csetp nil", "settle")
				curNil = true
			} else {
				w := sync("csetp")
				out = append(out, fmt.Sprintf("%s %d", w, plainP()))
				if w[0] == 'a' {
					pendingSettle = 2
				}
				curNil = false
			}
		case r < 86 && useCont:
			w := sync("cres")
			out = append(out, w+" "+e())
			if w[0] == 'a' {
				pendingSettle = 2
			}
			curNil = false
		case r < 90:
			out = append(out, "pause")
		case r < 96:
			out = append(out, "settle")
		default:
			out = append(out, "quiesce")
		}
	}
	out = append(out, "quiesce")
	// resolve everything, then a last quiescence point
	for p := 0; p < np; p++ {
		out = append(out, fmt.Sprintf("set %d %s", p, e()))
	}
	if useCont {
		out = append(out, "cres "+e())
	}
	out = append(out, "quiesce")
	return out
}

func init() {
	comp.Register(&comp.Component{
		Name: "promise", Model: "promise", Gen: gen, Exec: exec,
		Corpus: [][]string{
			// D9 (open): container awaiter with an error channel, unresolved promise current, channel fires
			{"newp", "csetp 0", "cawait errch", "settle", "fire 0 send e1", "quiesce"},
			// D8 (fixed): container result whose error is context.Canceled, all three kinds, CPU observed
			{"newp", "csetp 0", "cawait ctx", "cawait errch", "cawait cancelch", "settle", "quiesce", "set 0 canceled", "quiesce", "cawait ctx", "quiesce"},
			{"cres canceled", "cawait ctx", "cawait cancelch", "quiesce"},
			// publication window: swap done, fields not yet published; loser returns false; awaiters must wait
			{"newp", "gate 0", "aset 0 e1", "settle", "set 0 nil", "await 0 ctx", "await 0 errch", "settle", "open 0", "quiesce"},
			// replacement during an await; nil in between
			{"newp", "newp", "csetp 0", "cawait ctx", "cawait cancelch", "settle", "csetp 1", "settle", "csetp nil", "settle", "set 0 nil", "quiesce", "csetp 1", "settle", "set 1 deadline", "quiesce"},
			// own channel of a container awaiter while the container is empty
			{"cawait errch", "cawait cancelch", "cawait errch", "settle", "fire 0 close", "fire 1 send nil", "fire 2 send deadline", "quiesce"},
			// plain awaiters: every way to return
			{"newp", "await 0 ctx", "await 0 errch", "await 0 errch", "await 0 cancelch", "await 0 cancelch", "await 0 ctx", "settle", "quiesce", "cancel 0", "fire 1 close", "fire 2 send nil", "fire 3 close", "fire 4 send nil", "quiesce", "set 0 canceled", "set 0 nil", "quiesce"},
			// simultaneous setters; setter racing awaiters
			{"newp", "bset 0 4", "settle", "await 0 ctx", "quiesce", "newp", "brace 1 3", "quiesce"},
			// the container is cleared while awaiters of all three kinds are parked on an unresolved promise;
			// the removed promise is resolved later: nobody may return its result; the next content reaches them
			{"newp", "csetp 0", "cawait ctx", "cawait errch", "cawait cancelch", "settle", "quiesce", "csetp nil", "quiesce", "set 0 nil", "quiesce", "cres e1", "quiesce"},
			{"newp", "newp", "csetp 0", "cawait ctx", "settle", "csetp nil", "quiesce", "set 0 canceled", "settle", "csetp 1", "quiesce", "set 1 nil", "quiesce"},
			{"newp", "csetp 0", "cawait cancelch", "cawait errch", "settle", "csetp nil", "quiesce", "set 0 e1", "quiesce", "fire 0 close", "fire 1 send deadline", "quiesce"},
			// promises born resolved by NewPromiseWithErr: every await kind returns the stored pair at once,
			// SetResult returns false, also when racing; one for each error value
			{"newpe e1", "newpe canceled", "newpe nil", "newpe deadline", "await 0 ctx", "await 1 errch", "await 2 cancelch", "await 3 ctx", "set 0 nil", "aset 1 e1", "bset 2 3", "settle", "await 1 ctx", "quiesce"},
			{"newp", "newpe deadline", "await 0 ctx", "await 1 ctx", "settle", "quiesce", "csetp 1", "csetp 0", "cawait ctx", "settle", "set 1 nil", "set 0 e1", "quiesce"},
			// promise.CheckPromiseLike on both implementations of PromiseLike
			{"checklike plain", "checklike cont", "quiesce"},
			{"checklike bad1", "checklike bad2", "checklike bad3", "quiesce"},
			{"newp", "await 0 ctx", "settle", "checklike cont", "set 0 nil", "checklike plain", "quiesce"},
			// SetPromise with the same promise does not wake anybody; replaced by a resolved one
			{"newp", "csetp 0", "cawait ctx", "settle", "csetp 0", "quiesce", "cres e1", "quiesce"},
		},
	})
}
