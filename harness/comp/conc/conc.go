//go:build verif

// Package conc drives conc.ConcurrentQueue (one queue per scenario).
//
// Script steps. Jobs are numbered 0,1,2,… in the order their tokens appear in new/enqueue steps
// that are executed; API calls are numbered in script order of the steps new, enqueue, aenqueue,
// waitidle, watch (c below is the index among these executed steps):
//
//	new L j n j …       NewConcurrentQueue(L, jobs...): j = harness-controlled job, n = nil job
//	enqueue j n …       Enqueue(jobs...) from the director goroutine (may be empty)
//	aenqueue j n …      the same from its own goroutine
//	release J           let job J return (it may not have started yet: then it returns at once)
//	waitidle [e]        WaitIdle in its own goroutine (e: with an error channel)
//	watch K A           WatchState in its own goroutine; the callback continues K times, then
//	                    answers A (stop | err); K = -1: continues forever
//	watch nil           WatchState with a nil callback
//	cancel c            cancel the context of call c
//	errch c nil|err|close   send on / close the error channel of call c
//	gate KIND N         hold the N-th next hit of hook point KIND (hold-enter | hold-exit)
//	open G              open the G-th gate
//	settle              wait until nothing has been logged for a short while (not logged)
//	quiesce             wait for the grace period; log pending calls and jobs in progress
//
// Observable lines: see lean/UtilModel/Conc/Model.lean (Obs).
package conc

import (
	"context"
	"errors"
	"fmt"
	"math/rand"
	"sort"
	"strconv"
	"strings"
	"sync"
	"time"

	"github.com/aperturerobotics/util/conc"

	"verifharness/comp"
	"verifharness/hist"
	"verifharness/hook"
)

var errScripted = errors.New("scripted error")

type job struct {
	id      int
	release chan struct{}
	once    sync.Once
}

type call struct {
	id     int
	cancel context.CancelFunc
	errCh  chan error
	closed bool
}

// tagAdder adds a coverage tag (safe for concurrent use).
type tagAdder func(string)

// Add adds a tag.
func (a tagAdder) Add(t string) { a(t) }

func resTok(err error) string {
	switch {
	case err == nil:
		return "nil"
	case err == context.Canceled:
		return "canceled"
	default:
		return "err"
	}
}

func exec(script []string, opt comp.Options) comp.Result {
	log := hist.New()
	tagSet := comp.TagSet{}
	var tmu sync.Mutex
	tags := tagAdder(func(t string) { tmu.Lock(); tagSet.Add(t); tmu.Unlock() })
	prob := 0.3
	if opt.Seed%4 == 0 {
		prob = 0
	}
	h := hook.Install(opt.Seed, hook.Perturb{Prob: prob, MaxSleep: 120 * time.Microsecond})
	defer h.Uninstall()

	var mu sync.Mutex // guards active
	active := map[int]bool{}
	abort := make(chan struct{})
	var q *conc.ConcurrentQueue
	var jobs []*job
	var calls []*call
	var gates []hook.Gate
	var gateOpen []bool
	closedGates := func() int {
		n := 0
		for _, o := range gateOpen {
			if !o {
				n++
			}
		}
		return n
	}
	var wg sync.WaitGroup
	limit := 0

	mkJobs := func(toks []string) ([]func(), string) {
		var fns []func()
		var names []string
		for _, tk := range toks {
			jb := &job{id: len(jobs), release: make(chan struct{})}
			jobs = append(jobs, jb)
			if tk == "n" {
				fns = append(fns, nil)
				names = append(names, fmt.Sprintf("n%d", jb.id))
				tags.Add("nil-job")
				continue
			}
			names = append(names, strconv.Itoa(jb.id))
			fns = append(fns, func() {
				log.With(func([]int) []string {
					mu.Lock()
					active[jb.id] = true
					n := len(active)
					mu.Unlock()
					if limit > 0 && n == limit {
						tags.Add("at-limit")
					}
					return []string{fmt.Sprintf("cbin %d", jb.id)}
				})
				select {
				case <-jb.release:
				case <-abort:
					return
				}
				log.With(func([]int) []string {
					mu.Lock()
					delete(active, jb.id)
					mu.Unlock()
					return []string{fmt.Sprintf("cbout %d", jb.id)}
				})
			})
		}
		return fns, strings.Join(names, " ")
	}
	newCall := func(id int, cancel context.CancelFunc, errCh chan error) *call {
		c := &call{id: id, cancel: cancel, errCh: errCh}
		calls = append(calls, c)
		return c
	}
	doEnqueue := func(id int, fns []func()) {
		qd, rn := q.Enqueue(fns...)
		if qd > 0 {
			tags.Add("queued")
		}
		log.Ret(id, "enqueue %d %d", qd, rn)
	}

	for _, step := range script {
		f := strings.Fields(step)
		if len(f) == 0 {
			continue
		}
		switch f[0] {
		case "new":
			if q != nil || len(f) < 2 {
				continue
			}
			l, err := strconv.Atoi(f[1])
			if err != nil {
				continue
			}
			limit = l
			fns, names := mkJobs(f[2:])
			id := log.Inv("new %d %s", l, names)
			newCall(id, func() {}, nil)
			q = conc.NewConcurrentQueue(l, fns...)
			log.Ret(id, "new")
			if l <= 0 {
				tags.Add("unlimited")
			}
		case "enqueue", "aenqueue":
			if q == nil {
				continue
			}
			fns, names := mkJobs(f[1:])
			if len(fns) == 0 {
				tags.Add("empty-enqueue")
			}
			id := log.Inv("enqueue %s", names)
			newCall(id, func() {}, nil)
			// with a closed gate the director must not risk being held at it itself
			if f[0] == "enqueue" && closedGates() == 0 {
				doEnqueue(id, fns)
			} else {
				wg.Add(1)
				go func() { defer wg.Done(); doEnqueue(id, fns) }()
			}
		case "release":
			if len(f) < 2 {
				continue
			}
			j, err := strconv.Atoi(f[1])
			if err != nil || j < 0 || j >= len(jobs) {
				continue
			}
			mu.Lock()
			if !active[j] {
				tags.Add("released-before-start")
			}
			mu.Unlock()
			jobs[j].once.Do(func() { close(jobs[j].release) })
		case "waitidle":
			if q == nil {
				continue
			}
			ctx, cancel := context.WithCancel(context.Background())
			var errCh chan error
			var rch <-chan error
			if len(f) > 1 && f[1] == "e" {
				errCh = make(chan error, 8)
				rch = errCh
			}
			id := log.Inv("waitidle")
			newCall(id, cancel, errCh)
			wg.Add(1)
			go func() {
				defer wg.Done()
				err := q.WaitIdle(ctx, rch)
				log.Ret(id, "waitidle %s", resTok(err))
			}()
		case "watch":
			if q == nil || len(f) < 2 {
				continue
			}
			ctx, cancel := context.WithCancel(context.Background())
			if f[1] == "nil" {
				id := log.Inv("watch nilcb")
				newCall(id, cancel, nil)
				err := q.WatchState(ctx, nil, nil)
				log.Ret(id, "watch %s", resTok(err))
				continue
			}
			k, err := strconv.Atoi(f[1])
			if err != nil {
				cancel()
				continue
			}
			ans := "stop"
			if len(f) > 2 && f[2] == "err" {
				ans = "err"
			}
			id := log.Inv("watch cb")
			newCall(id, cancel, nil)
			seen := 0
			cb := func(queued, running int) (bool, error) {
				seen++
				if k >= 0 && seen > k {
					log.Add("cb %d %d %d %s", id, queued, running, ans)
					if ans == "err" {
						return false, errScripted
					}
					return false, nil
				}
				log.Add("cb %d %d %d cont", id, queued, running)
				return true, nil
			}
			wg.Add(1)
			go func() {
				defer wg.Done()
				err := q.WatchState(ctx, nil, cb)
				log.Ret(id, "watch %s", resTok(err))
			}()
		case "cancel":
			if len(f) < 2 {
				continue
			}
			c, err := strconv.Atoi(f[1])
			if err != nil || c < 0 || c >= len(calls) {
				continue
			}
			log.Add("env cancel %d", calls[c].id)
			calls[c].cancel()
			tags.Add("cancel")
		case "errch":
			if len(f) < 3 {
				continue
			}
			c, err := strconv.Atoi(f[1])
			if err != nil || c < 0 || c >= len(calls) || calls[c].errCh == nil || calls[c].closed || len(calls[c].errCh) >= 6 {
				continue
			}
			switch f[2] {
			case "nil":
				log.Add("env errch %d nil", calls[c].id)
				calls[c].errCh <- nil
			case "err":
				log.Add("env errch %d err", calls[c].id)
				calls[c].errCh <- errScripted
			case "close":
				log.Add("env errch %d close", calls[c].id)
				calls[c].closed = true
				close(calls[c].errCh)
			}
			tags.Add("errch")
		case "gate":
			if q == nil || len(f) < 3 || (f[1] != "hold-enter" && f[1] != "hold-exit") {
				continue
			}
			n, err := strconv.Atoi(f[2])
			if err != nil || n < 1 {
				continue
			}
			gates = append(gates, h.AddGate(f[1], nil, n))
			gateOpen = append(gateOpen, false)
			tags.Add("gate")
		case "open":
			if len(f) < 2 {
				continue
			}
			g, err := strconv.Atoi(f[1])
			if err != nil || g < 0 || g >= len(gates) {
				continue
			}
			gates[g].Open()
			gateOpen[g] = true
		case "settle":
			comp.WaitQuiet(log, 2*time.Millisecond, 200*time.Millisecond)
		case "quiesce":
			// a goroutine held at a gate is not quiescent: open all gates first
			for i, g := range gates {
				g.Open()
				gateOpen[i] = true
			}
			comp.WaitQuiet(log, opt.Grace, 10*opt.Grace)
			log.With(func(pending []int) []string {
				parts := []string{"quiesce"}
				for _, id := range pending {
					parts = append(parts, strconv.Itoa(id))
				}
				parts = append(parts, "|")
				mu.Lock()
				var as []int
				for j := range active {
					as = append(as, j)
				}
				mu.Unlock()
				sort.Ints(as)
				for _, j := range as {
					parts = append(parts, strconv.Itoa(j))
				}
				if len(pending) > 0 {
					tags.Add("waiter-blocked-at-quiesce")
				}
				return []string{strings.Join(parts, " ")}
			})
		}
	}

	// wind down
	comp.WaitQuiet(log, time.Millisecond, 100*time.Millisecond)
	lines := log.Lines()
	close(abort)
	for _, g := range gates {
		g.Open()
	}
	if q != nil {
		ctx, cancel := context.WithTimeout(context.Background(), 2*time.Second)
		if err := q.WaitIdle(ctx, nil); err != nil {
			tags.Add("leaked-goroutine")
		}
		cancel()
	}
	for _, c := range calls {
		c.cancel()
	}
	done := make(chan struct{})
	go func() { wg.Wait(); close(done) }()
	select {
	case <-done:
	case <-time.After(2 * time.Second):
		tags.Add("leaked-goroutine")
	}
	for _, l := range lines {
		switch {
		case strings.HasSuffix(l, "waitidle nil"):
			tags.Add("waitidle-nil")
		case strings.HasSuffix(l, " canceled"):
			tags.Add("ret-canceled")
		case strings.HasPrefix(l, "cb "):
			tags.Add("watch-callback")
		}
	}
	tmu.Lock()
	defer tmu.Unlock()
	return comp.Result{History: lines, Tags: tagSet.List()}
}

func jobToks(rng *rand.Rand, n int) string {
	var t []string
	for i := 0; i < n; i++ {
		if rng.Intn(10) == 0 {
			t = append(t, "n")
		} else {
			t = append(t, "j")
		}
	}
	return strings.Join(t, " ")
}

func gen(rng *rand.Rand, tier string) []string {
	limits := []int{0, 1, 1, 2, 2, 3, 1, 2, -1}
	l := limits[rng.Intn(len(limits))]
	// The number of calls that can be in flight together is kept small: every call whose critical
	// sections are not pinned down by the history multiplies the state set of the inclusion check.
	steps, maxJobs, maxWI, maxWS := 8+rng.Intn(14), 9, 2, 2
	if tier == "thorough" {
		steps, maxJobs, maxWI, maxWS = 10+rng.Intn(30), 14, 3, 2
	}
	njobs, ncalls, nwi, nws, ngates, openIn := 0, 0, 0, 0, 0, -1
	var out []string
	k := 0
	if rng.Intn(3) == 0 {
		k = 1 + rng.Intn(3)
	}
	toks := jobToks(rng, k)
	njobs += k
	ncalls++
	out = append(out, strings.TrimSpace(fmt.Sprintf("new %d %s", l, toks)))
	var unreleased []int
	for j := 0; j < njobs; j++ {
		unreleased = append(unreleased, j)
	}
	// nil jobs are in the id space too; releasing them is a no-op
	for i := 0; i < steps; i++ {
		if openIn == 0 {
			out = append(out, fmt.Sprintf("open %d", ngates-1), "settle")
		}
		if openIn >= 0 {
			openIn--
		}
		r := rng.Intn(100)
		switch {
		case r < 24 && njobs < maxJobs:
			n := 1 + rng.Intn(3)
			if rng.Intn(10) == 0 {
				n = 0
			}
			op := "enqueue"
			if rng.Intn(4) == 0 {
				op = "aenqueue"
			}
			out = append(out, strings.TrimSpace(op+" "+jobToks(rng, n)))
			if op == "aenqueue" && rng.Intn(4) != 0 {
				out = append(out, "settle")
			}
			for j := 0; j < n; j++ {
				unreleased = append(unreleased, njobs+j)
			}
			njobs += n
			ncalls++
		case r < 50 && len(unreleased) > 0:
			x := rng.Intn(len(unreleased))
			if rng.Intn(3) != 0 {
				x = 0 // mostly oldest first
			}
			out = append(out, fmt.Sprintf("release %d", unreleased[x]))
			unreleased = append(unreleased[:x], unreleased[x+1:]...)
			if rng.Intn(3) == 0 {
				out = append(out, "settle")
			}
		case r < 59 && nwi < maxWI:
			if rng.Intn(3) == 0 {
				out = append(out, "waitidle e")
			} else {
				out = append(out, "waitidle")
			}
			nwi++
			ncalls++
		case r < 67 && nws < maxWS:
			switch rng.Intn(8) {
			case 0:
				out = append(out, "watch nil")
			case 1, 2:
				out = append(out, fmt.Sprintf("watch %d stop", rng.Intn(4)))
			case 3:
				out = append(out, fmt.Sprintf("watch %d err", rng.Intn(3)))
			default:
				out = append(out, "watch -1 stop")
			}
			nws++
			ncalls++
		case r < 71 && ncalls > 1:
			out = append(out, fmt.Sprintf("cancel %d", 1+rng.Intn(ncalls-1)))
		case r < 75 && ncalls > 1:
			out = append(out, fmt.Sprintf("errch %d %s", 1+rng.Intn(ncalls-1), []string{"nil", "err", "close", "nil"}[rng.Intn(4)]))
		case r < 80 && ngates < 2 && openIn < 0:
			out = append(out, "settle", fmt.Sprintf("gate %s %d", []string{"hold-enter", "hold-exit"}[rng.Intn(2)], 1+rng.Intn(2)))
			ngates++
			openIn = 1 + rng.Intn(3)
		case r < 90:
			out = append(out, "settle")
		default:
			out = append(out, "quiesce")
		}
	}
	out = append(out, "quiesce")
	if rng.Intn(2) == 0 && nwi < maxWI+1 {
		out = append(out, "waitidle")
	}
	for _, j := range unreleased {
		out = append(out, fmt.Sprintf("release %d", j))
		if rng.Intn(3) == 0 {
			out = append(out, "settle")
		}
	}
	out = append(out, "quiesce")
	return out
}

func init() {
	comp.Register(&comp.Component{
		Name: "conc", Model: "conc", Gen: gen, Exec: exec,
		Corpus: [][]string{
			// limit 2, five jobs (the shape of the unit test), waiters, oldest first
			{"new 2", "watch -1 stop", "enqueue j j j j j", "waitidle", "quiesce", "release 0", "settle", "release 1", "settle", "quiesce", "release 2", "release 3", "release 4", "quiesce"},
			// limit 1: FIFO over three producers' batches, released in order
			{"new 1 j j", "enqueue j", "aenqueue j j", "settle", "enqueue j", "quiesce", "release 0", "settle", "release 1", "settle", "release 2", "settle", "release 3", "settle", "release 4", "settle", "release 5", "quiesce"},
			// limit 1: jobs released before they start run through in order
			{"new 1", "enqueue j j j", "release 2", "release 1", "settle", "waitidle", "quiesce", "release 0", "quiesce"},
			// a worker finishes while a producer enqueues: job returned, its worker held before the pop section,
			// producer's section first, then the worker's
			{"new 1", "enqueue j", "settle", "gate hold-enter 1", "release 0", "settle", "aenqueue j j", "settle", "open 0", "quiesce", "release 1", "release 2", "quiesce"},
			{"new 2", "enqueue j j j", "settle", "gate hold-enter 1", "release 1", "settle", "aenqueue j", "settle", "waitidle", "open 0", "quiesce", "release 0", "release 2", "release 3", "quiesce"},
			// the retiring worker is held after its section while a producer starts a new worker
			{"new 1", "enqueue j", "settle", "gate hold-exit 1", "release 0", "settle", "aenqueue j", "settle", "open 0", "quiesce", "release 1", "quiesce"},
			// unlimited: everything starts at once; WaitIdle wakes only after the last one
			{"new 0", "enqueue j j j", "waitidle", "watch -1 stop", "quiesce", "release 1", "release 0", "quiesce", "release 2", "quiesce"},
			{"new -1 j j", "waitidle e", "quiesce", "errch 1 nil", "quiesce", "release 0", "release 1", "quiesce"},
			// WaitIdle on an idle queue; cancelled / error / closed channel while jobs run
			{"new 3", "waitidle", "enqueue j", "waitidle e", "waitidle e", "waitidle", "settle", "errch 3 err", "errch 4 close", "cancel 5", "quiesce", "release 0", "quiesce"},
			// WatchState: stop after some callbacks, error, nil callback, cancel
			{"new 1", "watch 1 stop", "watch 0 err", "watch nil", "watch -1 stop", "enqueue j j", "settle", "cancel 4", "quiesce", "release 0", "release 1", "quiesce"},
			// nil jobs and an empty Enqueue
			{"new 1", "enqueue j n j", "enqueue", "waitidle", "quiesce", "release 0", "settle", "release 2", "quiesce"},
			{"new 2 n n", "enqueue n", "waitidle", "quiesce"},
			// initial elements beyond the limit
			{"new 2 j j j j", "waitidle", "watch -1 stop", "quiesce", "release 0", "quiesce", "release 1", "release 2", "release 3", "quiesce"},
		},
	})
}
