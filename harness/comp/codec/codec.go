//go:build verif

// Package codec drives the pure functions of property C19: padding.PadInPlace / UnpadInPlace,
// commonprefix.Prefix / TrimPrefix and the prng reader.
//
// Every script step is self-contained (all inputs are spelled out in the step), so any sub-list of a
// script is a valid script. Tokens: a byte string is "x" followed by two hex digits per byte ("x" alone
// is the empty string); a list is comma-separated, "nil" is the empty list.
//
//	pad <spare> <data>            PadInPlace on a slice with len(data) visible bytes whose backing array
//	                              continues with the bytes <spare> (cap = len(data)+len(spare)); then
//	                              UnpadInPlace on the result (with whatever capacity it has)
//	padnil                        PadInPlace(nil), then UnpadInPlace on the result
//	unpad <spare> <data>          UnpadInPlace on such a slice
//	unpadnil                      UnpadInPlace(nil)
//	prefix <strs>                 commonprefix.Prefix(strs...)
//	trim <strs>                   commonprefix.TrimPrefix(strs...)
//	read rec <seed> <sizes>       BuildSeededRand(seed...) wrapped in a recording source, SourceToReader,
//	                              one Read per size; logs the words the source produced
//	read sep <seed> <sizes>       BuildSeededReader(seed...), one Read per size; the words logged are the
//	                              first ceil(sum/8) values of a separately built BuildSeededRand(seed...)
//	                              (every call gets its own copy of the seed data)
//
// One log line per call of a library function (see lean/UtilModel/Codec/Model.lean for the format).
// Inputs are rendered before the call (the functions work in place); a panic is recovered and logged
// as the result "panic".
package codec

import (
	"encoding/hex"
	"fmt"
	"math/rand"
	randv2 "math/rand/v2"
	"strconv"
	"strings"
	"time"

	"github.com/aperturerobotics/util/commonprefix"
	"github.com/aperturerobotics/util/padding"
	"github.com/aperturerobotics/util/prng"

	"verifharness/comp"
	"verifharness/hist"
)

func hx(b []byte) string { return "x" + hex.EncodeToString(b) }

func hxList(l [][]byte) string {
	if len(l) == 0 {
		return "nil"
	}
	parts := make([]string, len(l))
	for i, b := range l {
		parts[i] = hx(b)
	}
	return strings.Join(parts, ",")
}

func hxStrs(l []string) string {
	if len(l) == 0 {
		return "nil"
	}
	parts := make([]string, len(l))
	for i, s := range l {
		parts[i] = hx([]byte(s))
	}
	return strings.Join(parts, ",")
}

func parseHx(tok string) ([]byte, bool) {
	if !strings.HasPrefix(tok, "x") {
		return nil, false
	}
	b, err := hex.DecodeString(tok[1:])
	return b, err == nil
}

func parseHxList(tok string) ([][]byte, bool) {
	if tok == "nil" {
		return nil, true
	}
	var out [][]byte
	for _, p := range strings.Split(tok, ",") {
		b, ok := parseHx(p)
		if !ok {
			return nil, false
		}
		out = append(out, b)
	}
	return out, true
}

func parseSizes(tok string) ([]int, bool) {
	if tok == "nil" {
		return nil, true
	}
	var out []int
	for _, p := range strings.Split(tok, ",") {
		n, err := strconv.Atoi(p)
		if err != nil || n < 0 || n > 1<<16 {
			return nil, false
		}
		out = append(out, n)
	}
	return out, true
}

func sizesTok(s []int) string {
	if len(s) == 0 {
		return "nil"
	}
	parts := make([]string, len(s))
	for i, n := range s {
		parts[i] = strconv.Itoa(n)
	}
	return strings.Join(parts, ",")
}

func wordsTok(ws []uint64) string {
	if len(ws) == 0 {
		return "nil"
	}
	parts := make([]string, len(ws))
	for i, w := range ws {
		parts[i] = fmt.Sprintf("%016x", w)
	}
	return strings.Join(parts, ",")
}

// mkSlice builds a slice with the visible bytes data whose backing array continues with spare.
func mkSlice(data, spare []byte) []byte {
	buf := make([]byte, len(data)+len(spare))
	copy(buf, data)
	copy(buf[len(data):], spare)
	return buf[:len(data):len(buf)]
}

// spareOf returns a copy of the bytes of the backing array between len and cap.
func spareOf(b []byte) []byte {
	return append([]byte(nil), b[len(b):cap(b)]...)
}

// guard runs f, turning a panic into panicked=true.
func guard(f func()) (panicked bool) {
	defer func() {
		if r := recover(); r != nil {
			panicked = true
		}
	}()
	f()
	return false
}

// recSrc records every value the wrapped source produces.
type recSrc struct {
	inner randv2.Source
	words []uint64
}

func (r *recSrc) Uint64() uint64 {
	if len(r.words) > 1<<15 {
		panic("recSrc: runaway reader")
	}
	v := r.inner.Uint64()
	r.words = append(r.words, v)
	return v
}

func copySeed(seed [][]byte) [][]byte {
	out := make([][]byte, len(seed))
	for i, d := range seed {
		out[i] = append([]byte(nil), d...)
	}
	return out
}

type runner struct {
	log  *hist.Log
	tags comp.TagSet
}

func (r *runner) doUnpad(in []byte) {
	cp, sp, dt := cap(in), hx(spareOf(in)), hx(in)
	inLen := len(in)
	var out []byte
	var err error
	if guard(func() { out, err = padding.UnpadInPlace(in) }) {
		r.log.Add("call unpad %d %s %s -> panic", cp, sp, dt)
		r.tags.Add("unpad-panic")
		return
	}
	if err != nil {
		r.log.Add("call unpad %d %s %s -> err", cp, sp, dt)
		r.tags.Add("unpad-err")
		if inLen == 0 {
			r.tags.Add("unpad-empty")
		}
		return
	}
	r.log.Add("call unpad %d %s %s -> ok %s", cp, sp, dt, hx(out))
	r.tags.Add("unpad-ok")
	if len(out) == 0 {
		r.tags.Add("unpad-to-empty")
	}
}

func (r *runner) doPad(in []byte) {
	cp, sp, dt := cap(in), hx(spareOf(in)), hx(in)
	n := len(in)
	var out []byte
	if guard(func() { out = padding.PadInPlace(in) }) {
		r.log.Add("call pad %d %s %s -> panic", cp, sp, dt)
		r.tags.Add("pad-panic")
		return
	}
	r.log.Add("call pad %d %s %s -> ok %s", cp, sp, dt, hx(out))
	switch {
	case n == 0:
		r.tags.Add("pad-empty")
	case n%32 == 31:
		r.tags.Add("pad-len-31mod32")
	case n%32 == 0:
		r.tags.Add("pad-len-0mod32")
	case n%32 == 30 || n%32 == 1 || n%32 == 2:
		r.tags.Add("pad-near-boundary")
	}
	need := padNeed(n)
	switch {
	case cp == n:
		r.tags.Add("pad-no-spare")
	case cp-n >= need:
		r.tags.Add("pad-in-place")
		if cp-n == need {
			r.tags.Add("pad-spare-exact")
		}
	default:
		r.tags.Add("pad-spare-too-small")
	}
	// round trip on the real output, with whatever capacity it has
	r.doUnpad(out)
}

// padNeed is the number of bytes PadInPlace must add to an input of length n (zeros + trailer).
func padNeed(n int) int { return 1 + (32-(n+1)%32)%32 }

func (r *runner) doPrefix(strs [][]byte) {
	args := make([]string, len(strs))
	for i, b := range strs {
		args[i] = string(b)
	}
	in := hxStrs(args)
	var out string
	if guard(func() { out = commonprefix.Prefix(args...) }) {
		r.log.Add("call prefix %s -> panic", in)
		return
	}
	r.log.Add("call prefix %s -> ok %s", in, hx([]byte(out)))
	r.tagStrs(strs, len(out))
}

func (r *runner) tagStrs(strs [][]byte, plen int) {
	switch len(strs) {
	case 0:
		r.tags.Add("prefix-no-strings")
	case 1:
		r.tags.Add("prefix-one-string")
	}
	for _, s := range strs {
		if len(s) == 0 {
			r.tags.Add("prefix-empty-string")
		}
		if len(s) == plen && len(strs) > 1 && plen > 0 {
			r.tags.Add("prefix-whole-string")
		}
		hi := false
		for _, c := range s {
			if c >= 0x80 {
				hi = true
			}
		}
		if hi {
			r.tags.Add("prefix-high-bytes")
			if !validUTF8(s) {
				r.tags.Add("prefix-invalid-utf8")
			}
		}
	}
	if plen > 0 && len(strs) > 1 {
		r.tags.Add("prefix-nonempty-result")
	}
}

func validUTF8(b []byte) bool {
	for _, r := range string(b) {
		if r == 0xFFFD {
			return false
		}
	}
	return true
}

func (r *runner) doTrim(strs [][]byte) {
	args := make([]string, len(strs))
	for i, b := range strs {
		args[i] = string(b)
	}
	in := hxStrs(args)
	if guard(func() { commonprefix.TrimPrefix(args...) }) {
		r.log.Add("call trim %s -> panic", in)
		return
	}
	r.log.Add("call trim %s -> ok %s", in, hxStrs(args))
	r.tags.Add("trim")
}

func (r *runner) doRead(sep bool, seed [][]byte, sizes []int) {
	mode := "rec"
	if sep {
		mode = "sep"
	}
	total := 0
	for _, n := range sizes {
		total += n
	}
	type outcome struct {
		chunks   [][]byte
		words    []uint64
		err      bool
		panicked bool
	}
	done := make(chan outcome, 1)
	go func() {
		var o outcome
		o.panicked = guard(func() {
			var rd interface{ Read([]byte) (int, error) }
			var rs *recSrc
			if sep {
				rd = prng.BuildSeededReader(copySeed(seed)...)
			} else {
				rs = &recSrc{inner: prng.BuildSeededRand(copySeed(seed)...)}
				rd = prng.SourceToReader(rs)
			}
			for _, n := range sizes {
				p := make([]byte, n)
				for i := range p {
					p[i] = 0xA5 // a byte Read fails to write stays visible
				}
				k, err := rd.Read(p)
				if err != nil {
					o.err = true
				}
				if k < 0 || k > len(p) {
					k = len(p)
				}
				o.chunks = append(o.chunks, p[:k])
			}
			if sep {
				src := prng.BuildSeededRand(copySeed(seed)...)
				for i := 0; i < (total+7)/8; i++ {
					o.words = append(o.words, src.Uint64())
				}
			} else {
				o.words = rs.words
			}
		})
		done <- o
	}()
	head := fmt.Sprintf("call read %s %s %s", mode, hxList(seed), sizesTok(sizes))
	select {
	case o := <-done:
		switch {
		case o.panicked:
			r.log.Add("%s nil -> panic", head)
		case o.err:
			r.log.Add("%s %s -> err", head, wordsTok(o.words))
		default:
			r.log.Add("%s %s -> ok %s", head, wordsTok(o.words), hxList(o.chunks))
		}
	case <-time.After(3 * time.Second):
		// not a line of the protocol on purpose: the driver reports it as not understood
		r.log.Add("%s nil -> hang", head)
		r.tags.Add("leaked-goroutine")
	}
	if sep {
		r.tags.Add("read-separate-source")
	} else {
		r.tags.Add("read-recorded-source")
	}
	if len(sizes) > 1 {
		r.tags.Add("read-multi-chunk")
	}
	for i, n := range sizes {
		switch {
		case n == 0:
			r.tags.Add("read-zero-chunk")
		case n > 8:
			r.tags.Add("read-chunk-gt8")
		}
		if i > 0 && n > 0 {
			prev := 0
			for _, m := range sizes[:i] {
				prev += m
			}
			if prev%8 != 0 {
				r.tags.Add("read-resumes-mid-word")
			}
		}
	}
}

func execScript(script []string, opt comp.Options) comp.Result {
	r := &runner{log: hist.New(), tags: comp.TagSet{}}
	for _, step := range script {
		f := strings.Fields(step)
		if len(f) == 0 {
			continue
		}
		switch f[0] {
		case "pad", "unpad":
			if len(f) != 3 {
				continue
			}
			spare, ok1 := parseHx(f[1])
			data, ok2 := parseHx(f[2])
			if !ok1 || !ok2 {
				continue
			}
			in := mkSlice(data, spare)
			if f[0] == "pad" {
				r.doPad(in)
			} else {
				r.doUnpad(in)
			}
		case "padnil":
			r.doPad(nil)
		case "unpadnil":
			r.doUnpad(nil)
		case "prefix", "trim":
			if len(f) != 2 {
				continue
			}
			strs, ok := parseHxList(f[1])
			if !ok {
				continue
			}
			if f[0] == "prefix" {
				r.doPrefix(strs)
			} else {
				r.doTrim(strs)
			}
		case "read":
			if len(f) != 4 || (f[1] != "rec" && f[1] != "sep") {
				continue
			}
			seed, ok1 := parseHxList(f[2])
			sizes, ok2 := parseSizes(f[3])
			if !ok1 || !ok2 {
				continue
			}
			r.doRead(f[1] == "sep", seed, sizes)
		}
	}
	return comp.Result{History: r.log.Lines(), Tags: r.tags.List()}
}

// ---------------------------------------------------------------- generator

var edgeLens = []int{0, 0, 1, 30, 31, 31, 32, 32, 33, 34, 62, 63, 63, 64, 64, 65, 66}

func genLen(rng *rand.Rand) int {
	switch r := rng.Intn(100); {
	case r < 55:
		return edgeLens[rng.Intn(len(edgeLens))]
	case r < 70:
		return 32*rng.Intn(7) + []int{-2, -1, 0, 1, 2}[rng.Intn(5)] + 32
	default:
		return rng.Intn(201)
	}
}

func genBytes(rng *rand.Rand, n int) []byte {
	b := make([]byte, n)
	mode := rng.Intn(5)
	for i := range b {
		switch mode {
		case 0:
			b[i] = byte(rng.Intn(256))
		case 1:
			b[i] = byte(0x80 + rng.Intn(128))
		case 2:
			b[i] = 0
		case 3:
			b[i] = byte(rng.Intn(40)) // looks like trailer bytes
		default:
			b[i] = byte('a' + rng.Intn(26))
		}
	}
	return b
}

func genGarbage(rng *rand.Rand, n int) []byte {
	b := make([]byte, n)
	for i := range b {
		b[i] = byte(1 + rng.Intn(255)) // never zero: a missing wipe shows
	}
	return b
}

func genPad(rng *rand.Rand) string {
	n := genLen(rng)
	need := padNeed(n)
	var spare int
	switch r := rng.Intn(100); {
	case r < 35:
		spare = 0
	case r < 50:
		spare = need
	case r < 60:
		spare = need - 1
	case r < 70:
		spare = need + 1
	case r < 80:
		spare = 1 + rng.Intn(4)
	default:
		spare = rng.Intn(100)
	}
	if n == 0 && spare == 0 && rng.Intn(2) == 0 {
		return "padnil"
	}
	return fmt.Sprintf("pad %s %s", hx(genGarbage(rng, spare)), hx(genBytes(rng, n)))
}

func genUnpad(rng *rand.Rand) string {
	var n int
	if rng.Intn(3) == 0 {
		n = genLen(rng)
	} else {
		n = rng.Intn(70)
	}
	if n == 0 {
		if rng.Intn(2) == 0 {
			return "unpadnil"
		}
		return fmt.Sprintf("unpad %s x", hx(genGarbage(rng, rng.Intn(40))))
	}
	d := genBytes(rng, n)
	// the trailer byte decides everything: aim at the boundaries of the validation
	var t int
	switch r := rng.Intn(100); {
	case r < 20:
		t = n - 1
	case r < 35:
		t = n
	case r < 45:
		t = n - 2
	case r < 55:
		t = n + 1
	case r < 65:
		t = 31
	case r < 75:
		t = 32
	case r < 80:
		t = 0
	case r < 85:
		t = 255
	case r < 92:
		t = rng.Intn(32)
	default:
		t = rng.Intn(256)
	}
	if t < 0 {
		t = 0
	}
	d[n-1] = byte(t)
	return fmt.Sprintf("unpad %s %s", hx(genGarbage(rng, rng.Intn(3)*rng.Intn(40))), hx(d))
}

// alphabets for the string generator: ascii, high bytes, bytes that are never valid UTF-8, and
// multi-byte UTF-8 sequences that share their leading byte(s)
var alphabets = [][][]byte{
	{{'a'}, {'b'}, {'c'}, {'/'}},
	{{0x80}, {0x81}, {0xC3}, {0xA9}, {0xFF}},
	{{0xFF}, {0xFE}, {0xC0}, {0x80}, {0xF8}},
	{{0xC3, 0xA9}, {0xC3, 0xA8}, {0xC3, 0xA0}, {0xE2, 0x82, 0xAC}, {0xE2, 0x82, 0xAD}, {0xF0, 0x9F, 0x98, 0x80}, {0xF0, 0x9F, 0x98, 0x81}},
	{{'a'}, {0xC3, 0xA9}, {0xC3}, {0xA9}, {0x00}},
}

func genWord(rng *rand.Rand, alpha [][]byte, n int) []byte {
	var out []byte
	for i := 0; i < n; i++ {
		out = append(out, alpha[rng.Intn(len(alpha))]...)
	}
	return out
}

func genStrs(rng *rand.Rand) string {
	var k int
	switch r := rng.Intn(100); {
	case r < 5:
		k = 0
	case r < 20:
		k = 1
	default:
		k = 2 + rng.Intn(4)
	}
	alpha := alphabets[rng.Intn(len(alphabets))]
	shared := genWord(rng, alpha, rng.Intn(9))
	// sometimes cut the shared part in the middle of a multi-byte sequence
	if len(shared) > 0 && rng.Intn(4) == 0 {
		shared = shared[:rng.Intn(len(shared)+1)]
	}
	var strs [][]byte
	for i := 0; i < k; i++ {
		var s []byte
		switch r := rng.Intn(100); {
		case r < 6:
			s = nil // empty string
		case r < 14:
			s = append([]byte(nil), shared...) // exactly the shared part
		case r < 20 && len(shared) > 0:
			s = append([]byte(nil), shared[:rng.Intn(len(shared))]...) // a proper prefix of it
		default:
			s = append(append([]byte(nil), shared...), genWord(rng, alpha, rng.Intn(5))...)
		}
		strs = append(strs, s)
	}
	if k >= 2 && rng.Intn(8) == 0 {
		strs[rng.Intn(k)] = append([]byte(nil), strs[rng.Intn(k)]...) // duplicate
	}
	return hxList(strs)
}

var chunkChoices = []int{0, 0, 1, 1, 2, 3, 4, 5, 7, 8, 8, 9, 15, 16, 17, 24, 25}

func genSizes(rng *rand.Rand) string {
	k := rng.Intn(9)
	sizes := make([]int, k)
	for i := range sizes {
		if rng.Intn(5) == 0 {
			sizes[i] = rng.Intn(70)
		} else {
			sizes[i] = chunkChoices[rng.Intn(len(chunkChoices))]
		}
	}
	return sizesTok(sizes)
}

func genSeed(rng *rand.Rand) string {
	k := rng.Intn(4)
	seed := make([][]byte, k)
	for i := range seed {
		seed[i] = genBytes(rng, rng.Intn(6))
	}
	return hxList(seed)
}

func gen(rng *rand.Rand, tier string) []string {
	steps := 8 + rng.Intn(9)
	if tier == "thorough" {
		steps = 16 + rng.Intn(25)
	}
	// a scenario re-uses one or two seeds so that equal seed data meets different chunkings
	seeds := []string{genSeed(rng), genSeed(rng)}
	var out []string
	for i := 0; i < steps; i++ {
		switch r := rng.Intn(100); {
		case r < 32:
			out = append(out, genPad(rng))
		case r < 47:
			out = append(out, genUnpad(rng))
		case r < 62:
			out = append(out, "prefix "+genStrs(rng))
		case r < 74:
			out = append(out, "trim "+genStrs(rng))
		default:
			mode := "rec"
			if rng.Intn(2) == 0 {
				mode = "sep"
			}
			out = append(out, fmt.Sprintf("read %s %s %s", mode, seeds[rng.Intn(2)], genSizes(rng)))
		}
	}
	return out
}

func init() {
	g40 := "x" + strings.Repeat("aa", 40)
	comp.Register(&comp.Component{
		Name: "codec", Model: "codec", Gen: gen, Exec: execScript,
		Corpus: [][]string{
			// D12: the empty message (nil, empty, empty with spare capacity): unpad errors, pad round-trips
			{"unpadnil", "unpad x x", "unpad xaabbcc x", "padnil", "pad x x", "pad " + g40 + " x", "pad xaa x"},
			// D12 neighbours: one-byte messages, trailer = len-1 / len, trailer 31 / 32
			{"unpad x x00", "unpad x x01", "unpad x0000 x01", "unpad x x0100", "unpad x x0001", "unpad x x0002",
				"unpad x x" + strings.Repeat("00", 31) + "1f", "unpad x x" + strings.Repeat("00", 32) + "20",
				"unpad x x" + strings.Repeat("00", 30) + "1f", "unpad x xff"},
			// padding at the 32-byte boundaries, with no / too little / exact / ample spare capacity
			{"pad x x" + strings.Repeat("11", 30), "pad x x" + strings.Repeat("11", 31), "pad x x" + strings.Repeat("11", 32),
				"pad x x" + strings.Repeat("11", 33), "pad xaa x" + strings.Repeat("11", 31), "pad xaa x" + strings.Repeat("11", 30),
				"pad xaaaa x" + strings.Repeat("11", 30), "pad " + g40 + " x" + strings.Repeat("11", 32),
				"pad x" + strings.Repeat("aa", 32) + " x" + strings.Repeat("11", 32),
				"pad x" + strings.Repeat("aa", 31) + " x" + strings.Repeat("11", 32),
				"pad " + g40 + " x" + strings.Repeat("11", 63), "pad " + g40 + " x" + strings.Repeat("11", 64)},
			// D13: "éa","éb"; lone continuation / lead bytes; invalid UTF-8; empty list; empty string; one string
			{"prefix xc3a961,xc3a962", "trim xc3a961,xc3a962", "prefix xc3a9,xc3a8", "trim xc3a9,xc3a8",
				"prefix xff01,xff02", "prefix x80,x80", "trim x8061,x8062,x80", "prefix nil", "trim nil", "prefix x", "trim x",
				"prefix x6162", "trim x6162", "prefix x6162,x", "trim x6162,x", "prefix x6162,x6162", "trim x6162,x6162",
				"prefix x616263,x6162,x61", "trim x616263,x6162,x61", "prefix xe282ac,xe282ad", "trim x00,x0001"},
			// reader: chunkings of one seed incl. 0-length and > 8, recorded and separately built sources
			{"read rec x01 0,1,7,8,9,0,17", "read sep x01 3,3,3", "read rec x01 25", "read sep x01 8,8", "read sep x01 42",
				"read rec x01 1,1,1,1,1,1,1,1,1", "read rec nil nil", "read rec nil 0", "read sep nil 0,0", "read rec x,x 5", "read sep x,x 4,1",
				"read rec x0102,x03 16", "read sep x0102,x03 7,9", "read rec x01,x0203 16"},
		},
	})
}
