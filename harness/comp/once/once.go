//go:build verif

// Package once drives promise.Once and memo.MemoizeFunc (property C16).
//
// Component "once" — script steps (i = index of the i-th `resolve` step = its call id):
//
//	resolve          start Once.Resolve(ctx) in its own goroutine with a fresh context
//	burst k          k such calls released together from behind a barrier
//	cancel i         cancel the context of resolve i
//	out ok|err|errc  queue an outcome for the wrapped function: the next (or the running) call of
//	                 the function consumes it and returns value f+1 / error custom(f+1) /
//	                 context.Canceled (f = number of the function call)
//	gate n           hold the n-th next arrival at the `lock-enter` point of the Once (callers and the
//	                 function goroutine's error path both pass it) until `open g` (g-th gate)
//	open g
//	pause, settle, quiesce
//
// Component "memo" — steps: call | burst k | out v e | gate | open | pause | settle | quiesce
// (`gate` holds the winner of the swap at `yield-memo`, before it enters the function).
package once

import (
	"context"
	"fmt"
	"math/rand"
	"strconv"
	"runtime"
	"strings"
	"sync"
	"sync/atomic"
	"time"

	"github.com/aperturerobotics/util/memo"
	"github.com/aperturerobotics/util/promise"

	"verifharness/comp"
	"verifharness/hist"
	"verifharness/hook"
)

type numErr struct{ n int }

func (e *numErr) Error() string { return "custom " + strconv.Itoa(e.n) }

func errName(err error) string {
	if err == nil {
		return "nil"
	}
	if err == context.Canceled {
		return "canceled"
	}
	if ne, ok := err.(*numErr); ok {
		return "custom " + strconv.Itoa(ne.n)
	}
	return "other:" + strings.ReplaceAll(err.Error(), " ", "_")
}

type ctxKey struct{}

// spinBarrier releases k goroutines within a few nanoseconds of each other (a channel close wakes
// them one after the other, microseconds apart, which never overlaps two-instruction windows).
type spinBarrier struct {
	k     int32
	ready atomic.Int32
	open  atomic.Bool
}

func newBarrier(k int) *spinBarrier { return &spinBarrier{k: int32(k)} }

func (b *spinBarrier) wait() {
	b.ready.Add(1)
	deadline := time.Now().Add(50 * time.Millisecond)
	for i := 0; !b.open.Load(); i++ {
		if i%1024 == 1023 && time.Now().After(deadline) {
			return
		}
	}
}

func (b *spinBarrier) release() {
	deadline := time.Now().Add(20 * time.Millisecond)
	for b.ready.Load() < b.k && time.Now().Before(deadline) {
		runtime.Gosched()
	}
	b.open.Store(true)
}

func execOnce(script []string, opt comp.Options) comp.Result {
	log := hist.New()
	tags := comp.TagSet{}
	h := hook.Install(opt.Seed, hook.Perturb{Prob: 0.35, MaxSleep: 150 * time.Microsecond})
	defer h.Uninstall()
	rng := rand.New(rand.NewSource(opt.Seed ^ 0x5eed))

	outcomes := make(chan string, 4096)
	var fmu sync.Mutex
	nf := 0
	inFn := 0
	cb := func(ctx context.Context) (int, error) {
		t, _ := ctx.Value(ctxKey{}).(int)
		var f int
		log.With(func([]int) []string {
			fmu.Lock()
			f = nf
			nf++
			inFn++
			if inFn > 1 {
				tags.Add("fn-overlap")
			}
			fmu.Unlock()
			return []string{fmt.Sprintf("cbin %d %d", f, t)}
		})
		o, open := <-outcomes
		if !open {
			// wind-down: not part of the recorded history
			fmu.Lock()
			inFn--
			fmu.Unlock()
			return 0, &numErr{f + 1}
		}
		var v int
		var err error
		var line string
		switch o {
		case "ok":
			v, line = f+1, fmt.Sprintf("cbout %d ok %d", f, f+1)
		case "errc":
			err, line = context.Canceled, fmt.Sprintf("cbout %d err canceled", f)
		default:
			err, line = &numErr{f + 1}, fmt.Sprintf("cbout %d err custom %d", f, f+1)
		}
		log.With(func([]int) []string {
			fmu.Lock()
			inFn--
			fmu.Unlock()
			return []string{line}
		})
		return v, err
	}
	o := promise.NewOnce(cb)

	type call struct {
		id     int
		cancel context.CancelFunc
	}
	var calls []*call
	var gates []hook.Gate
	var wg sync.WaitGroup
	openGates := func() {
		for _, g := range gates {
			g.Open()
		}
	}
	startResolve := func(barrier *spinBarrier) {
		c := &call{}
		c.id = log.Inv("resolve")
		ctx, cancel := context.WithCancel(context.WithValue(context.Background(), ctxKey{}, c.id))
		c.cancel = cancel
		calls = append(calls, c)
		wg.Add(1)
		go func() {
			defer wg.Done()
			defer func() {
				if r := recover(); r != nil {
					log.Ret(c.id, "resolve panic")
				}
			}()
			if barrier != nil {
				barrier.wait()
			}
			v, err := o.Resolve(ctx)
			log.Ret(c.id, "resolve %d %s", v, errName(err))
		}()
	}
	for _, step := range script {
		f := strings.Fields(step)
		if len(f) == 0 {
			continue
		}
		switch f[0] {
		case "resolve":
			startResolve(nil)
		case "burst":
			// k Resolve calls released together from behind a barrier (all inv lines are logged first)
			if len(f) < 2 {
				continue
			}
			k, err := strconv.Atoi(f[1])
			if err != nil || k < 1 || k > 6 {
				continue
			}
			barrier := newBarrier(k)
			for j := 0; j < k; j++ {
				startResolve(barrier)
			}
			barrier.release()
		case "cancel":
			if len(f) < 2 {
				continue
			}
			i, err := strconv.Atoi(f[1])
			if err != nil || i < 0 || i >= len(calls) {
				continue
			}
			log.Add("env cancel %d", calls[i].id)
			calls[i].cancel()
		case "out":
			if len(f) < 2 || (f[1] != "ok" && f[1] != "err" && f[1] != "errc") {
				continue
			}
			outcomes <- f[1]
		case "gate":
			if len(f) < 2 {
				continue
			}
			n, err := strconv.Atoi(f[1])
			if err != nil || n < 1 {
				continue
			}
			gates = append(gates, h.AddGate("lock-enter", o, n))
		case "open":
			if len(f) < 2 {
				continue
			}
			g, err := strconv.Atoi(f[1])
			if err != nil || g < 0 || g >= len(gates) {
				continue
			}
			if gates[g].WaitHit(0) {
				tags.Add("lock-window")
			}
			gates[g].Open()
		case "pause":
			time.Sleep(time.Duration(rng.Intn(120)) * time.Microsecond)
		case "settle":
			comp.WaitQuiet(log, 2*time.Millisecond, 200*time.Millisecond)
		case "quiesce":
			openGates()
			comp.WaitQuiet(log, opt.Grace, 10*opt.Grace)
			if log.NumPending() > 0 {
				tags.Add("blocked-at-quiesce")
			}
			log.Quiesce()
		}
	}
	comp.WaitQuiet(log, 2*time.Millisecond, 200*time.Millisecond)
	lines := log.Lines()
	openGates()
	for _, c := range calls {
		c.cancel()
	}
	close(outcomes)
	done := make(chan struct{})
	go func() { wg.Wait(); close(done) }()
	select {
	case <-done:
	case <-time.After(2 * time.Second):
		tags.Add("leaked-goroutine")
	}
	nerr, nin := 0, 0
	for _, l := range lines {
		switch {
		case strings.HasPrefix(l, "cbin"):
			nin++
		case strings.HasPrefix(l, "cbout") && strings.Contains(l, " err "):
			nerr++
		case strings.HasPrefix(l, "ret") && strings.HasSuffix(l, "canceled"):
			tags.Add("caller-canceled")
		case strings.HasPrefix(l, "ret") && strings.Contains(l, "custom"):
			tags.Add("caller-got-error")
		case strings.HasPrefix(l, "ret") && strings.HasSuffix(l, "nil"):
			tags.Add("caller-got-value")
		}
	}
	if nin >= 2 {
		tags.Add("retried")
	}
	if nerr >= 1 {
		tags.Add("fn-error")
	}
	return comp.Result{History: lines, Tags: tags.List()}
}

func genOnce(rng *rand.Rand, tier string) []string {
	steps, maxC := 10+rng.Intn(16), 5
	if tier == "thorough" {
		steps, maxC = 15+rng.Intn(30), 7
	}
	var out []string
	nc, ng := 0, 0
	outcome := func() string {
		switch r := rng.Intn(10); {
		case r < 4:
			return "ok"
		case r < 9:
			return "err"
		}
		return "errc"
	}
	if rng.Intn(4) == 0 { // pre-queued outcome: the function returns at once
		out = append(out, "out "+outcome())
	}
	for i := 0; i < steps; i++ {
		r := rng.Intn(100)
		switch {
		case r < 8 && nc+3 <= maxC:
			k := 2 + rng.Intn(2)
			out = append(out, fmt.Sprintf("burst %d", k), "settle")
			nc += k
		case r < 32 && nc < maxC:
			out = append(out, "resolve")
			nc++
			if rng.Intn(5) < 3 {
				out = append(out, "settle")
			}
		case r < 46 && nc > 0:
			out = append(out, fmt.Sprintf("cancel %d", rng.Intn(nc)))
		case r < 66:
			out = append(out, "out "+outcome())
		case r < 72:
			out = append(out, fmt.Sprintf("gate %d", 1+rng.Intn(3)))
			ng++
		case r < 78 && ng > 0:
			out = append(out, fmt.Sprintf("open %d", rng.Intn(ng)))
		case r < 84:
			out = append(out, "pause")
		case r < 93:
			out = append(out, "settle")
		default:
			out = append(out, "quiesce")
		}
	}
	out = append(out, "quiesce", "out ok", "quiesce", "resolve", "quiesce")
	return out
}

// ---------------------------------------------------------------- memo

func execMemo(script []string, opt comp.Options) comp.Result {
	log := hist.New()
	tags := comp.TagSet{}
	h := hook.Install(opt.Seed, hook.Perturb{Prob: 0.35, MaxSleep: 150 * time.Microsecond})
	defer h.Uninstall()
	rng := rand.New(rand.NewSource(opt.Seed ^ 0x5eed))
	type outcome struct {
		v int
		e int
	}
	outcomes := make(chan outcome, 4096)
	errMemo := &numErr{1}
	fn := memo.MemoizeFunc(func() (int, error) {
		log.Add("cbin")
		o, open := <-outcomes
		if !open {
			return 0, nil
		}
		log.Add("cbout %d %d", o.v, o.e)
		if o.e != 0 {
			return o.v, errMemo
		}
		return o.v, nil
	})
	var wg sync.WaitGroup
	var gates []hook.Gate
	openGates := func() {
		for _, g := range gates {
			g.Open()
		}
	}
	startCall := func(barrier *spinBarrier) {
		id := log.Inv("memo")
		wg.Add(1)
		go func() {
			defer wg.Done()
			defer func() {
				if r := recover(); r != nil {
					log.Ret(id, "memo panic")
				}
			}()
			if barrier != nil {
				barrier.wait()
			}
			v, err := fn()
			e := 0
			if err == errMemo {
				e = 1
			} else if err != nil {
				e = 2
			}
			log.Ret(id, "memo %d %d", v, e)
		}()
	}
	for _, step := range script {
		f := strings.Fields(step)
		if len(f) == 0 {
			continue
		}
		switch f[0] {
		case "call":
			startCall(nil)
		case "burst":
			if len(f) < 2 {
				continue
			}
			k, err := strconv.Atoi(f[1])
			if err != nil || k < 1 || k > 6 {
				continue
			}
			barrier := newBarrier(k)
			for j := 0; j < k; j++ {
				startCall(barrier)
			}
			barrier.release()
		case "out":
			if len(f) < 3 {
				continue
			}
			v, err1 := strconv.Atoi(f[1])
			e, err2 := strconv.Atoi(f[2])
			if err1 != nil || err2 != nil || v < 0 || e < 0 || e > 1 {
				continue
			}
			outcomes <- outcome{v, e}
		case "gate":
			if len(gates) == 0 {
				gates = append(gates, h.AddGate("yield-memo", nil, 1))
			}
		case "open":
			if len(gates) > 0 {
				if gates[0].WaitHit(0) {
					tags.Add("swap-window")
				}
			}
			openGates()
		case "pause":
			time.Sleep(time.Duration(rng.Intn(120)) * time.Microsecond)
		case "settle":
			comp.WaitQuiet(log, 2*time.Millisecond, 200*time.Millisecond)
		case "quiesce":
			openGates()
			comp.WaitQuiet(log, opt.Grace, 10*opt.Grace)
			if log.NumPending() > 0 {
				tags.Add("blocked-at-quiesce")
			}
			log.Quiesce()
		}
	}
	comp.WaitQuiet(log, 2*time.Millisecond, 200*time.Millisecond)
	lines := log.Lines()
	openGates()
	close(outcomes)
	done := make(chan struct{})
	go func() { wg.Wait(); close(done) }()
	select {
	case <-done:
	case <-time.After(2 * time.Second):
		tags.Add("leaked-goroutine")
	}
	ncalls := 0
	for _, l := range lines {
		if strings.HasPrefix(l, "inv") {
			ncalls++
		}
		if strings.HasPrefix(l, "ret") && strings.HasSuffix(l, " 1") {
			tags.Add("error-result")
		}
	}
	if ncalls >= 2 {
		tags.Add("multi-caller")
	}
	return comp.Result{History: lines, Tags: tags.List()}
}

func genMemo(rng *rand.Rand, tier string) []string {
	steps, maxC, nc := 6+rng.Intn(10), 5, 0
	if tier == "thorough" {
		steps, maxC = 8+rng.Intn(24), 7
	}
	var out []string
	if rng.Intn(3) == 0 {
		out = append(out, "gate")
	}
	if rng.Intn(4) == 0 {
		out = append(out, fmt.Sprintf("out %d %d", 1+rng.Intn(9), rng.Intn(2)))
	}
	for i := 0; i < steps; i++ {
		r := rng.Intn(100)
		switch {
		case r < 12 && nc+3 <= maxC:
			k := 2 + rng.Intn(2)
			out = append(out, fmt.Sprintf("burst %d", k), "settle")
			nc += k
		case r < 50 && nc < maxC:
			out = append(out, "call")
			nc++
			if rng.Intn(5) < 3 {
				out = append(out, "settle")
			}
		case r < 62:
			out = append(out, fmt.Sprintf("out %d %d", 1+rng.Intn(9), rng.Intn(2)))
		case r < 70:
			out = append(out, "open")
		case r < 80:
			out = append(out, "pause")
		case r < 92:
			out = append(out, "settle")
		default:
			out = append(out, "quiesce")
		}
	}
	out = append(out, "quiesce", fmt.Sprintf("out %d %d", 1+rng.Intn(9), rng.Intn(2)), "quiesce", "call", "quiesce")
	return out
}

func init() {
	comp.Register(&comp.Component{
		Name: "once", Model: "once", Gen: genOnce, Exec: execOnce,
		Corpus: [][]string{
			// cancel the initiator while others wait; the function then fails: the others retry
			{"resolve", "settle", "resolve", "resolve", "settle", "cancel 0", "quiesce", "out err", "quiesce", "out ok", "quiesce"},
			// error racing a new caller: the error path is held before its mutex section
			{"resolve", "settle", "resolve", "settle", "gate 1", "out err", "settle", "resolve", "settle", "resolve", "settle", "open 0", "quiesce", "out ok", "quiesce"},
			// late success after the initiator left
			{"resolve", "settle", "resolve", "settle", "cancel 0", "settle", "out ok", "quiesce", "resolve", "quiesce"},
			// the function itself returns context.Canceled: live callers call it again
			{"resolve", "resolve", "settle", "out errc", "quiesce", "out err", "quiesce", "resolve", "settle", "out ok", "quiesce"},
			// six callers, success (the shape of the existing unit test), then late callers, cancelled late caller
			{"resolve", "settle", "resolve", "resolve", "settle", "resolve", "resolve", "settle", "resolve", "settle", "out ok", "quiesce", "resolve", "resolve", "cancel 7", "quiesce"},
			// failure, retry, failure, retry; a caller that arrives between publication and its own wake-up
			{"resolve", "settle", "out err", "settle", "resolve", "settle", "out err", "settle", "resolve", "resolve", "settle", "out ok", "quiesce"},
			// simultaneous start decisions
			{"burst 4", "settle", "out err", "settle", "burst 2", "settle", "out ok", "quiesce"},
			// already-cancelled context
			{"resolve", "cancel 0", "settle", "out ok", "quiesce", "resolve", "cancel 1", "quiesce"},
		},
	})
	comp.Register(&comp.Component{
		Name: "memo", Model: "memo", Gen: genMemo, Exec: execMemo,
		Corpus: [][]string{
			// the winner is held between the swap and the function entry; everybody else must wait
			{"gate", "call", "settle", "call", "call", "settle", "open", "settle", "quiesce", "out 7 0", "quiesce", "call", "quiesce"},
			{"call", "call", "call", "settle", "out 3 1", "quiesce", "call", "out 5 0", "quiesce"},
			{"out 4 0", "call", "call", "quiesce"},
			{"burst 4", "settle", "out 2 0", "quiesce"},
		},
	})
}
