//go:build verif

// Command for developing this component in isolation (only this component is linked).
package main

import (
	_ "verifharness/comp/once"
	"verifharness/vmain"
)

func main() { vmain.Main() }
