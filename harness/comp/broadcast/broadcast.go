//go:build verif

// Package broadcast drives broadcast.Broadcast guarding one harness-owned variable x.
//
// Script steps (i is the index of the i-th call-creating step of the script, 0-based; call-creating
// steps are hold, tryhold, mhold and wait; j is the index of the j-th gate step):
//
//	hold [a] [p] <ops>   HoldLock with a body made of ops g (getWaitCh, keep the handle), b (broadcast),
//	                     s<v> (x = v), and optionally a final x (the body then panics and the caller
//	                     recovers: "ret t hold panic"); a: do not wait for the call to return; p: the body first parks,
//	                     holding the mutex, until "unpark i" (or the next quiesce)
//	tryhold <ops>        TryHoldLock with such a body
//	mhold <ops>          HoldLockMaybeAsync with such a body
//	wait eq|ge|err v [pre]  Wait(ctx, pred) in its own goroutine with a fresh context (pre: cancelled
//	                     before the call); pred: x == v / x >= v / error when x == v
//	wait nilcb|nilctx    Wait with a nil callback / nil context
//	cancel i             cancel the context of call i
//	probe i k            non-blocking receive on the k-th handle obtained by call i
//	unpark i             let the parked body of call i continue
//	gate kind nth        hold the nth hit of verifhook point kind on this Broadcast
//	hit j                wait (bounded) until a goroutine is held at gate j
//	open j               open gate j
//	pause | settle | quiesce
//
// History lines: inv/ret per call ("inv 3 hold g b s 2", "ret 3 hold", "ret 4 tryhold false",
// "ret 5 mhold", "cbout 5" logged at the end of the body of an mhold call, "inv 6 wait ge 2",
// "ret 6 wait nil|err|canceled|badarg"), "env cancel 6", "probe 3 0 open|closed", "quiesce ...",
// and, logged from inside every callback body and every predicate evaluation (they run under the
// mutex of the Broadcast), "cbin t" at its start and "cbend t" at its end.
package broadcast

import (
	"context"
	"errors"
	"fmt"
	"math/rand"
	"runtime"
	"strconv"
	"strings"
	"sync"
	"sync/atomic"
	"time"

	"github.com/aperturerobotics/util/broadcast"

	"verifharness/comp"
	"verifharness/hist"
	"verifharness/hook"
)

var errBoom = errors.New("boom")

// errBodyPanic is the value a body whose program ends in x panics with.
var errBodyPanic = errors.New("body panic")

// onStackOf reports whether the calling goroutine is inside the method with the given name suffix.
func onStackOf(suffix string) bool {
	pcs := make([]uintptr, 32)
	n := runtime.Callers(2, pcs)
	fr := runtime.CallersFrames(pcs[:n])
	for {
		f, more := fr.Next()
		if strings.HasSuffix(f.Function, suffix) {
			return true
		}
		if !more {
			return false
		}
	}
}

type call struct {
	id     int
	isWait bool
	cancel context.CancelFunc
	unpark chan struct{}
	once   sync.Once
	widen  time.Duration // extra time spent inside the body / predicate (widens the critical section)

	mu      sync.Mutex
	handles []<-chan struct{}
	pub     bool
	retd    bool
}

func (c *call) doUnpark() {
	if c.unpark != nil {
		c.once.Do(func() { close(c.unpark) })
	}
}

// progString renders the ops of a body for the history ("g b s 2").
func progString(ops []string) string {
	var out []string
	for _, o := range ops {
		switch {
		case o == "g" || o == "b" || o == "x":
			out = append(out, o)
		case strings.HasPrefix(o, "s"):
			out = append(out, "s", o[1:])
		}
	}
	if len(out) == 0 {
		return ""
	}
	return " " + strings.Join(out, " ")
}

func validOps(ops []string) bool {
	for i, o := range ops {
		if o == "g" || o == "b" {
			continue
		}
		if o == "x" && i == len(ops)-1 {
			continue
		}
		if strings.HasPrefix(o, "s") {
			if _, err := strconv.Atoi(o[1:]); err == nil {
				continue
			}
		}
		return false
	}
	return true
}

func exec(script []string, opt comp.Options) comp.Result {
	log := hist.New()
	tags := comp.TagSet{}
	var tagMu sync.Mutex
	tag := func(s string) { tagMu.Lock(); tags.Add(s); tagMu.Unlock() }
	h := hook.Install(opt.Seed, hook.Perturb{Prob: 0.35, MaxSleep: 150 * time.Microsecond})
	defer h.Uninstall()
	rng := rand.New(rand.NewSource(opt.Seed ^ 0xb0ca))

	var bc broadcast.Broadcast
	x := 0 // guarded by bc
	var inBody atomic.Int32 // bodies / predicate evaluations in progress (cbin logged, cbend not yet)

	var calls []*call
	var gates []hook.Gate
	var gateOpen []bool
	var wg sync.WaitGroup

	// body builds the callback for a program; done (if non-nil) runs at the very end of the body
	body := func(c *call, ops []string, done func()) func(func(), func() <-chan struct{}) {
		panics := len(ops) > 0 && ops[len(ops)-1] == "x"
		return func(bcast func(), getWaitCh func() <-chan struct{}) {
			func() {
				// a panic of the library inside the body (it may run in a goroutine of the library)
				// becomes a history line the model does not know, never a crash of the harness
				defer func() {
					if r := recover(); r != nil {
						inBody.Store(0)
						log.Add("cbpanic %d", c.id)
						panics = false
						if done != nil {
							wg.Done()
						}
					}
				}()
				// the body is harness code running under the mutex of the Broadcast: its start and end
				// marks let the exclusion clause ("bodies never overlap") be checked on the history
				log.Add("cbin %d", c.id)
				inBody.Add(1)
				if c.unpark != nil {
					select {
					case <-c.unpark:
					case <-time.After(2 * time.Second):
						tag("park-timeout")
					}
				}
				if c.widen > 0 {
					time.Sleep(c.widen)
				}
				var hs []<-chan struct{}
				for _, o := range ops {
					switch {
					case o == "g":
						hs = append(hs, getWaitCh())
					case o == "b":
						bcast()
					case o == "x":
					default:
						x, _ = strconv.Atoi(o[1:])
					}
				}
				c.mu.Lock()
				c.handles = hs
				c.mu.Unlock()
				inBody.Add(-1)
				log.Add("cbend %d", c.id)
				if done != nil {
					done()
				}
			}()
			// the program ran; now the body fails. The caller recovers. A body of HoldLockMaybeAsync
			// that runs in the library's own goroutine (slow path) cannot be recovered by anybody, so
			// it only panics when it runs on the caller's stack.
			if panics && (done == nil || onStackOf(".HoldLockMaybeAsync")) {
				tag("body-panic")
				panic(errBodyPanic)
			}
		}
	}
	publish := func(c *call) {
		c.mu.Lock()
		c.pub = true
		c.mu.Unlock()
	}
	// safely runs a library call; a deliberate body panic is the call's outcome ("ret t hold panic",
	// after which the handles the body obtained are published), any other panic is a crash
	safely := func(c *call, what string, f func()) {
		defer func() {
			if r := recover(); r != nil {
				if r == errBodyPanic {
					log.Ret(c.id, "%s panic", what)
					if what != "mhold" {
						c.mu.Lock()
						c.pub = true
						c.mu.Unlock()
					}
					return
				}
				log.Ret(c.id, "%s crashed", what)
			}
		}()
		f()
	}
	openAll := func() {
		for j := range gates {
			if !gateOpen[j] {
				gateOpen[j] = true
				gates[j].Open()
			}
		}
		for _, c := range calls {
			c.doUnpark()
		}
	}
	// every sixth body / predicate evaluation dwells a little under the mutex
	widen := func() time.Duration {
		if rng.Intn(6) == 0 {
			return time.Duration(20+rng.Intn(180)) * time.Microsecond
		}
		return 0
	}
	heldAtPreblock := false
	// keep the number of simultaneously active calls small (the model check explores every
	// interleaving of the calls that overlap): let in-flight calls finish before adding more
	throttle := func() {
		if log.NumPending() >= 6 {
			comp.WaitQuiet(log, time.Millisecond, 30*time.Millisecond)
		}
	}

	for _, step := range script {
		f := strings.Fields(step)
		if len(f) == 0 {
			continue
		}
		switch f[0] {
		case "hold", "tryhold", "mhold", "wait":
			throttle()
		}
		switch f[0] {
		case "hold":
			ops := f[1:]
			async, park := false, false
			for len(ops) > 0 && (ops[0] == "a" || ops[0] == "p") {
				if ops[0] == "a" {
					async = true
				} else {
					park = true
				}
				ops = ops[1:]
			}
			if !validOps(ops) {
				continue
			}
			c := &call{cancel: func() {}, widen: widen()}
			if park {
				c.unpark = make(chan struct{})
				tag("parked-body")
			}
			if heldAtPreblock && strings.Contains(" "+strings.Join(ops, " ")+" ", " b ") {
				tag("broadcast-between-sample-and-block")
			}
			c.id = log.Inv("hold%s", progString(ops))
			calls = append(calls, c)
			retCh := make(chan struct{})
			wg.Add(1)
			go func() {
				defer wg.Done()
				defer close(retCh)
				safely(c, "hold", func() {
					bc.HoldLock(body(c, ops, nil))
					log.Ret(c.id, "hold")
					publish(c)
				})
			}()
			if !async && !park {
				select {
				case <-retCh:
				case <-time.After(20 * time.Millisecond):
				}
			}
		case "tryhold":
			ops := f[1:]
			if !validOps(ops) {
				continue
			}
			c := &call{cancel: func() {}, widen: widen()}
			c.id = log.Inv("tryhold%s", progString(ops))
			calls = append(calls, c)
			safely(c, "tryhold", func() {
				ok := bc.TryHoldLock(body(c, ops, nil))
				log.Ret(c.id, "tryhold %v", ok)
				if ok {
					publish(c)
				} else {
					tag("try-failed")
				}
			})
		case "mhold":
			ops := f[1:]
			if !validOps(ops) {
				continue
			}
			c := &call{cancel: func() {}, widen: widen()}
			c.id = log.Inv("mhold%s", progString(ops))
			calls = append(calls, c)
			wg.Add(1) // released at the end of the body, which may run in a goroutine of the library
			safely(c, "mhold", func() {
				bc.HoldLockMaybeAsync(body(c, ops, func() {
					c.mu.Lock()
					if c.retd {
						tag("maybe-async-body-after-return")
					}
					c.mu.Unlock()
					log.Add("cbout %d", c.id)
					publish(c)
					wg.Done()
				}))
				c.mu.Lock()
				c.retd = true
				c.mu.Unlock()
				log.Ret(c.id, "mhold")
			})
		case "wait":
			if len(f) < 2 {
				continue
			}
			c := &call{isWait: true, widen: widen()}
			ctx, cancel := context.WithCancel(context.Background())
			c.cancel = cancel
			var cb func(func(), func() <-chan struct{}) (bool, error)
			kind := f[1]
			pre := false
			switch kind {
			case "eq", "ge", "err":
				if len(f) < 3 {
					cancel()
					continue
				}
				v, err := strconv.Atoi(f[2])
				if err != nil {
					cancel()
					continue
				}
				pre = len(f) > 3 && f[3] == "pre"
				cb = func(func(), func() <-chan struct{}) (bool, error) {
					log.Add("cbin %d", c.id)
					inBody.Add(1)
					defer func() {
						inBody.Add(-1)
						log.Add("cbend %d", c.id)
					}()
					if c.widen > 0 {
						time.Sleep(c.widen)
					}
					switch kind {
					case "eq":
						return x == v, nil
					case "ge":
						return x >= v, nil
					default:
						if x == v {
							return false, errBoom
						}
						return false, nil
					}
				}
				c.id = log.Inv("wait %s %d", kind, v)
			case "nilcb", "nilctx":
				c.id = log.Inv("wait nilcb")
				tag("bad-argument")
			default:
				cancel()
				continue
			}
			calls = append(calls, c)
			if pre {
				log.Add("env cancel %d", c.id)
				cancel()
				tag("precancelled")
			}
			wg.Add(1)
			go func() {
				defer wg.Done()
				safely(c, "wait", func() {
					var err error
					switch kind {
					case "nilcb":
						err = bc.Wait(ctx, nil)
					case "nilctx":
						//nolint:staticcheck
						err = bc.Wait(nil, func(func(), func() <-chan struct{}) (bool, error) { return true, nil })
					default:
						err = bc.Wait(ctx, cb)
					}
					switch {
					case err == nil:
						log.Ret(c.id, "wait nil")
					case err == errBoom:
						log.Ret(c.id, "wait err")
						tag("predicate-error")
					case errors.Is(err, context.Canceled):
						log.Ret(c.id, "wait canceled")
						tag("canceled")
					case kind == "nilcb" || kind == "nilctx":
						log.Ret(c.id, "wait badarg")
					default:
						log.Ret(c.id, "wait other")
					}
				})
			}()
		case "cancel":
			i, _ := strconv.Atoi(f[1])
			if i >= len(calls) || !calls[i].isWait {
				continue
			}
			log.Add("env cancel %d", calls[i].id)
			calls[i].cancel()
		case "probe":
			if len(f) < 3 {
				continue
			}
			i, _ := strconv.Atoi(f[1])
			k, _ := strconv.Atoi(f[2])
			if i >= len(calls) {
				continue
			}
			c := calls[i]
			c.mu.Lock()
			var hch <-chan struct{}
			if c.pub && k < len(c.handles) {
				hch = c.handles[k]
			}
			c.mu.Unlock()
			if hch == nil {
				continue
			}
			// the look and its log line are one atomic action w.r.t. every other log line
			log.With(func([]int) []string {
				select {
				case <-hch:
					tag("probe-closed")
					return []string{fmt.Sprintf("probe %d %d closed", c.id, k)}
				default:
					return []string{fmt.Sprintf("probe %d %d open", c.id, k)}
				}
			})
		case "unpark":
			i, _ := strconv.Atoi(f[1])
			if i < len(calls) {
				calls[i].doUnpark()
			}
		case "gate":
			if len(f) < 3 {
				continue
			}
			nth, _ := strconv.Atoi(f[2])
			if nth < 1 {
				nth = 1
			}
			gates = append(gates, h.AddGate(f[1], &bc, nth))
			gateOpen = append(gateOpen, false)
		case "hit":
			j, _ := strconv.Atoi(f[1])
			if j < len(gates) && !gateOpen[j] {
				if gates[j].WaitHit(50 * time.Millisecond) {
					tag("gate-hit")
					heldAtPreblock = true
				}
			}
		case "open":
			j, _ := strconv.Atoi(f[1])
			if j < len(gates) && !gateOpen[j] {
				gateOpen[j] = true
				gates[j].Open()
				heldAtPreblock = false
			}
		case "pause":
			time.Sleep(time.Duration(rng.Intn(120)) * time.Microsecond)
		case "settle":
			comp.WaitQuiet(log, 2*time.Millisecond, 200*time.Millisecond)
		case "quiesce":
			openAll()
			heldAtPreblock = false
			comp.WaitQuiet(log, opt.Grace, 10*opt.Grace)
			// a body that is still running is activity the harness knows about: not quiescent yet
			for i := 0; i < 4 && inBody.Load() != 0; i++ {
				comp.WaitQuiet(log, opt.Grace, 10*opt.Grace)
			}
			if log.NumPending() > 0 {
				tag("blocked-at-quiesce")
			}
			log.Quiesce()
		}
	}
	// wind down
	openAll()
	comp.WaitQuiet(log, 2*time.Millisecond, 200*time.Millisecond)
	lines := log.Lines()
	for _, c := range calls {
		c.cancel()
	}
	h.Uninstall()
	done := make(chan struct{})
	go func() { wg.Wait(); close(done) }()
	select {
	case <-done:
	case <-time.After(1500 * time.Millisecond):
		tag("leaked-goroutine")
	}
	tagMu.Lock()
	defer tagMu.Unlock()
	return comp.Result{History: lines, Tags: tags.List()}
}

func genProg(rng *rand.Rand) string {
	switch rng.Intn(10) {
	case 0:
		return "g"
	case 1:
		return "b"
	case 2:
		return fmt.Sprintf("s%d b", rng.Intn(4))
	case 3:
		return fmt.Sprintf("g s%d b", rng.Intn(4))
	case 4:
		return fmt.Sprintf("b s%d g", rng.Intn(4))
	case 5:
		return "g b g"
	case 6:
		return fmt.Sprintf("s%d", rng.Intn(4)) // breaks the discipline
	case 7:
		return ""
	default:
		n := 1 + rng.Intn(4)
		var ops []string
		for i := 0; i < n; i++ {
			switch rng.Intn(3) {
			case 0:
				ops = append(ops, "g")
			case 1:
				ops = append(ops, "b")
			default:
				ops = append(ops, fmt.Sprintf("s%d", rng.Intn(4)))
			}
		}
		return strings.Join(ops, " ")
	}
}

func contains(l []int, v int) bool {
	for _, x := range l {
		if x == v {
			return true
		}
	}
	return false
}

func genPred(rng *rand.Rand) string {
	return fmt.Sprintf("%s %d", []string{"eq", "ge", "ge", "err"}[rng.Intn(4)], rng.Intn(4))
}

func gen(rng *rand.Rand, tier string) []string {
	maxCalls, steps := 10, 10+rng.Intn(16)
	if tier == "thorough" {
		maxCalls, steps = 18, 15+rng.Intn(40)
	}
	// a third of the scripts keep the discipline "a body that changes x broadcasts"
	disciplined := rng.Intn(3) == 0
	prog := func() string {
		for {
			p := genProg(rng)
			if !disciplined || !strings.Contains(p, "s") || strings.Contains(" "+p+" ", " b ") {
				if rng.Intn(12) == 0 {
					p = strings.TrimSpace(p + " x") // the body panics after its program ran
				}
				return p
			}
		}
	}
	var out []string
	ncalls, ngates := 0, 0
	var holds, waits, live []int
	inflight := 0
	add := func(s string) {
		s = strings.TrimSpace(s)
		out = append(out, s)
		switch strings.Fields(s)[0] {
		case "hold", "tryhold", "mhold", "wait":
			inflight++
		case "settle", "quiesce":
			inflight = 0
		}
	}
	for i := 0; i < steps && ncalls < maxCalls; i++ {
		// bounds of the exploration: at most 4 live waiters, at most 4 calls started since the last settle
		for len(live) > 3 {
			add(fmt.Sprintf("cancel %d", live[0]))
			live = live[1:]
		}
		if inflight >= 4 {
			add("settle")
		}
		if len(waits) > 0 && (len(live) == 0 || live[len(live)-1] != waits[len(waits)-1]) && !contains(live, waits[len(waits)-1]) {
			live = append(live, waits[len(waits)-1])
		}
		r := rng.Intn(100)
		switch {
		case r < 22:
			pre := ""
			if rng.Intn(12) == 0 {
				pre = " pre"
			}
			add("wait " + genPred(rng) + pre)
			waits = append(waits, ncalls)
			ncalls++
		case r < 24:
			add("wait " + []string{"nilcb", "nilctx"}[rng.Intn(2)])
			ncalls++
		case r < 44:
			fl := ""
			if rng.Intn(3) == 0 {
				fl = "a "
			}
			add("hold " + fl + prog())
			holds = append(holds, ncalls)
			ncalls++
		case r < 50:
			add("tryhold " + prog())
			holds = append(holds, ncalls)
			ncalls++
		case r < 56:
			add("mhold " + prog())
			holds = append(holds, ncalls)
			ncalls++
		case r < 62 && ncalls+3 < maxCalls:
			// a body that keeps the mutex while others try
			add("hold p " + prog())
			parked := ncalls
			holds = append(holds, ncalls)
			ncalls++
			for k := rng.Intn(3) + 1; k > 0 && ncalls < maxCalls; k-- {
				switch rng.Intn(4) {
				case 0:
					add("tryhold " + prog())
					holds = append(holds, ncalls)
				case 1:
					add("mhold " + prog())
					holds = append(holds, ncalls)
				case 2:
					add("hold a " + prog())
					holds = append(holds, ncalls)
				default:
					add("wait " + genPred(rng))
					waits = append(waits, ncalls)
				}
				ncalls++
			}
			add(fmt.Sprintf("unpark %d", parked))
			add("settle")
		case r < 70 && ncalls+2 < maxCalls:
			// the narrow window: waiter's critical section, writer's critical section, waiter's select
			add(fmt.Sprintf("gate preblock %d", 1))
			g := ngates
			ngates++
			add("wait " + genPred(rng))
			waits = append(waits, ncalls)
			w := ncalls
			ncalls++
			add(fmt.Sprintf("hit %d", g))
			add("hold " + prog())
			holds = append(holds, ncalls)
			ncalls++
			if rng.Intn(3) == 0 {
				add(fmt.Sprintf("cancel %d", w))
			}
			add(fmt.Sprintf("open %d", g))
		case r < 73 && ncalls+3 < maxCalls:
			// a body panics after changing the state and broadcasting; waiters must still get through
			v := rng.Intn(4)
			if rng.Intn(2) == 0 {
				add(fmt.Sprintf("wait ge %d", v))
				waits = append(waits, ncalls)
				ncalls++
				add("settle")
			}
			add(fmt.Sprintf("%s s%d b x", []string{"hold", "tryhold", "tryhold", "mhold"}[rng.Intn(4)], v))
			holds = append(holds, ncalls)
			ncalls++
			add(fmt.Sprintf("wait %s %d", []string{"eq", "ge"}[rng.Intn(2)], v))
			waits = append(waits, ncalls)
			ncalls++
			add("settle")
		case r < 80 && len(holds) > 0:
			add(fmt.Sprintf("probe %d %d", holds[rng.Intn(len(holds))], rng.Intn(2)))
		case r < 87 && len(waits) > 0:
			add(fmt.Sprintf("cancel %d", waits[rng.Intn(len(waits))]))
		case r < 91:
			add("pause")
		case r < 96:
			add("settle")
		default:
			add("quiesce")
		}
	}
	add("settle")
	for _, hc := range holds {
		add(fmt.Sprintf("probe %d 0", hc))
		if rng.Intn(2) == 0 {
			add(fmt.Sprintf("probe %d 1", hc))
		}
	}
	add("quiesce")
	if rng.Intn(2) == 0 {
		add(fmt.Sprintf("hold s%d b", rng.Intn(4)))
		add("quiesce")
	}
	for _, w := range waits {
		if rng.Intn(2) == 0 {
			add(fmt.Sprintf("cancel %d", w))
		}
	}
	add("quiesce")
	return out
}

func init() {
	comp.Register(&comp.Component{
		Name: "broadcast", Model: "broadcast", Gen: gen, Exec: exec,
		Corpus: [][]string{
			// waiter's critical section, then the writer's, then the waiter's select: the wake-up must not be lost
			{"gate preblock 1", "wait ge 2", "hit 0", "hold s2 b", "open 0", "quiesce"},
			// the same window closed right after the waiter's critical section (hold-exit comes before preblock)
			{"gate hold-exit 1", "wait ge 2", "hit 0", "hold s2 b", "open 0", "quiesce"},
			{"gate hold-exit 1", "wait err 1", "hit 0", "hold b s1", "open 0", "quiesce"},
			// the same with a broadcast that does not satisfy the predicate, then one that does
			{"gate preblock 1", "wait eq 3", "hit 0", "hold s1 b", "open 0", "settle", "hold g", "probe 2 0", "hold s3 b", "probe 2 0", "quiesce"},
			// cancel racing a broadcast while the waiter is between sample and block
			{"gate preblock 1", "wait eq 1", "hit 0", "cancel 0", "hold s1 b", "open 0", "quiesce"},
			{"gate preblock 1", "wait ge 3", "hit 0", "hold b", "cancel 0", "open 0", "quiesce"},
			// handle generations: closed by the first later broadcast, a handle obtained afterwards stays open
			{"hold g", "probe 0 0", "hold g b g", "probe 0 0", "probe 1 0", "probe 1 1", "hold g", "probe 2 0", "hold b", "probe 1 1", "probe 2 0", "hold g", "probe 4 0", "quiesce"},
			// several waiters, a write without broadcast (nobody wakes), then a bare broadcast
			{"wait ge 1", "wait eq 2", "wait err 2", "settle", "hold s2", "quiesce", "hold b", "quiesce"},
			// a body that keeps the mutex: TryHoldLock fails, HoldLockMaybeAsync goes async, Wait queues
			{"hold p s1 b g", "tryhold s3 b", "mhold g s2 b", "wait ge 2", "hold a g", "unpark 0", "settle", "probe 0 0", "probe 2 0", "probe 4 0", "quiesce"},
			// bodies never overlap: while a body dwells under the mutex, HoldLockMaybeAsync must take its slow
			// path and run its body only afterwards; TryHoldLock must fail; HoldLock and Wait must queue
			{"hold p g s1 b", "mhold s2 b g", "mhold b", "tryhold s3", "pause", "pause", "unpark 0", "settle", "probe 0 0", "probe 1 0", "quiesce"},
			{"wait ge 5", "hold p s1 b", "mhold s5 b", "hold a g", "pause", "unpark 1", "quiesce"},
			// a body panics after its program ran (the caller recovers): the mutex must have been released,
			// a blocked waiter is woken and a new Wait with a satisfied predicate returns
			{"wait ge 2", "settle", "tryhold s2 b x", "wait eq 2", "quiesce", "tryhold g", "probe 3 0", "quiesce"},
			{"wait eq 1", "settle", "hold s1 b g x", "probe 1 0", "wait ge 1", "mhold s3 b x", "wait ge 3", "quiesce"},
			{"hold a g x", "mhold g b x", "tryhold x", "wait ge 0", "hold s1 b", "quiesce"},
			// waiter held before it takes the mutex for the first time
			{"gate hold-enter 1", "wait eq 0 pre", "hit 0", "hold s1 b", "open 0", "quiesce"},
			// waiter held right after its critical section (hold-exit comes before preblock)
			{"wait eq 2", "settle", "gate hold-exit 2", "hold s1 b", "hit 0", "hold s2 b", "open 0", "quiesce"},
			// edge: bad arguments, pre-cancelled context with a true predicate
			{"wait nilcb", "wait nilctx", "wait ge 0 pre", "wait eq 5 pre", "quiesce"},
		},
	})
}
