//go:build verif

package main

import (
	_ "verifharness/comp/codec"
	_ "verifharness/comp/csync"
)
