//go:build verif

package main

import (
	_ "verifharness/comp/broadcast"
	_ "verifharness/comp/ccall"
	_ "verifharness/comp/ccontainer"
	_ "verifharness/comp/codec"
	_ "verifharness/comp/conc"
	_ "verifharness/comp/csync"
	_ "verifharness/comp/keyed"
	_ "verifharness/comp/lifo"
	_ "verifharness/comp/linkedlist"
	_ "verifharness/comp/once"
	_ "verifharness/comp/promise"
	_ "verifharness/comp/refcount"
	_ "verifharness/comp/routine"
	_ "verifharness/comp/seq"
)
