//go:build verif

package main

import (
	_ "verifharness/comp/csync"
)
