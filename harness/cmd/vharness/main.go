//go:build verif

// Command vharness runs scenarios of any registered component (see vmain).
package main

import "verifharness/vmain"

func main() { vmain.Main() }
