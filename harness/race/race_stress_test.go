package race

import (
	"context"
	"errors"
	"io"
	"strings"
	"sync"
	"sync/atomic"
	"testing"
	"time"

	"github.com/aperturerobotics/util/broadcast"
	"github.com/aperturerobotics/util/ccontainer"
	"github.com/aperturerobotics/util/conc"
	"github.com/aperturerobotics/util/cqueue"
	"github.com/aperturerobotics/util/csync"
	"github.com/aperturerobotics/util/iocloser"
	"github.com/aperturerobotics/util/iosizer"
	"github.com/aperturerobotics/util/keyed"
	"github.com/aperturerobotics/util/linkedlist"
	"github.com/aperturerobotics/util/memo"
	"github.com/aperturerobotics/util/promise"
	"github.com/aperturerobotics/util/refcount"
	"github.com/aperturerobotics/util/routine"
)

func par(n int, f func(i int)) {
	var wg sync.WaitGroup
	for i := 0; i < n; i++ {
		wg.Add(1)
		go func(i int) { defer wg.Done(); f(i) }(i)
	}
	wg.Wait()
}

func TestBroadcastCsync(t *testing.T) {
	var b broadcast.Broadcast
	var x int
	ctx, cancel := context.WithTimeout(context.Background(), 2*time.Second)
	defer cancel()
	go par(4, func(i int) {
		for j := 0; j < 200; j++ {
			b.HoldLock(func(bc func(), _ func() <-chan struct{}) { x++; bc() })
		}
	})
	par(4, func(i int) {
		_ = b.Wait(ctx, func(bc func(), g func() <-chan struct{}) (bool, error) { return x >= 700, nil })
	})
	var m csync.Mutex
	var rw csync.RWMutex
	var cnt int
	par(8, func(i int) {
		for j := 0; j < 200; j++ {
			if i%3 == 0 {
				c, cc := context.WithTimeout(context.Background(), time.Microsecond*time.Duration(j))
				rel, err := m.Lock(c)
				cc()
				if err == nil {
					cnt++
					rel()
					rel()
				}
			} else if rel, ok := m.TryLock(); ok {
				cnt++
				rel()
			}
			w := (i+j)%4 == 0
			c, cc := context.WithTimeout(context.Background(), time.Microsecond*time.Duration(50+j))
			rel, err := rw.Lock(c, w)
			cc()
			if err == nil {
				rel()
			}
		}
	})
}

func TestCContainerPromise(t *testing.T) {
	c := ccontainer.NewCContainer[int](0)
	ctx, cancel := context.WithTimeout(context.Background(), 2*time.Second)
	defer cancel()
	go par(4, func(i int) {
		for j := 0; j < 300; j++ {
			c.SwapValue(func(v int) int { return v + 1 })
			c.SetValue(c.GetValue())
		}
	})
	par(4, func(i int) {
		_, _ = c.WaitValueWithValidator(ctx, func(v int) (bool, error) { return v >= 1000, nil }, nil)
		_, _ = c.WaitValueChange(ctx, 0, nil)
	})
	p := promise.NewPromise[int]()
	pc := promise.NewPromiseContainer[int]()
	var wins atomic.Int32
	go par(4, func(i int) {
		if p.SetResult(i, nil) {
			wins.Add(1)
		}
		pc.SetPromise(p)
		pc.SetResult(i, nil)
	})
	par(4, func(i int) {
		_, _ = p.Await(ctx)
		_, _ = pc.Await(ctx)
		_, _ = pc.AwaitWithErrCh(ctx, nil)
	})
	o := promise.NewOnce(func(ctx context.Context) (int, error) {
		time.Sleep(time.Millisecond)
		return 4, nil
	})
	par(8, func(i int) { _, _ = o.Resolve(ctx) })
	var calls atomic.Int32
	f := memo.MemoizeFunc(func() (int, error) { calls.Add(1); time.Sleep(time.Millisecond); return 1, nil })
	par(8, func(i int) { _, _ = f() })
	if calls.Load() != 1 || wins.Load() != 1 {
		t.Fatal("memo/promise count", calls.Load(), wins.Load())
	}
}

func TestQueues(t *testing.T) {
	var q cqueue.AtomicLIFO[*int]
	var ll linkedlist.LinkedList[int]
	var popped atomic.Int64
	par(8, func(i int) {
		for j := 0; j < 2000; j++ {
			v := j
			q.Push(&v)
			if q.Pop() != nil {
				popped.Add(1)
			}
			ll.Push(j)
			ll.PushFront(j)
			ll.Peek()
			ll.PeekTail()
			ll.IsEmpty()
			ll.Pop()
			if j%100 == 0 {
				ll.Reset()
			}
		}
	})
	if popped.Load() != 16000 {
		t.Fatal("lifo lost", popped.Load())
	}
	cq := conc.NewConcurrentQueue(2)
	var active, maxA, ran atomic.Int32
	job := func() {
		a := active.Add(1)
		for {
			m := maxA.Load()
			if a <= m || maxA.CompareAndSwap(m, a) {
				break
			}
		}
		time.Sleep(50 * time.Microsecond)
		active.Add(-1)
		ran.Add(1)
	}
	ctx, cancel := context.WithTimeout(context.Background(), 5*time.Second)
	defer cancel()
	go func() {
		_ = cq.WatchState(ctx, nil, func(queued, running int) (bool, error) {
			if queued > 0 && running != 2 {
				t.Errorf("queued=%d running=%d", queued, running)
			}
			return true, nil
		})
	}()
	par(4, func(i int) {
		for j := 0; j < 100; j++ {
			cq.Enqueue(job, job)
			if i == 0 {
				cq.Enqueue() // no jobs: only reads the counters
			}
		}
	})
	if err := cq.WaitIdle(ctx, nil); err != nil {
		t.Fatal(err)
	}
	if ran.Load() != 800 || maxA.Load() > 2 {
		t.Fatal("conc", ran.Load(), maxA.Load())
	}
}

func TestRoutine(t *testing.T) {
	ctx, cancel := context.WithCancel(context.Background())
	defer cancel()
	rc := routine.NewRoutineContainer()
	fn := func(ctx context.Context) error { <-ctx.Done(); return nil }
	par(6, func(i int) {
		for j := 0; j < 100; j++ {
			switch (i + j) % 5 {
			case 0:
				rc.SetContext(ctx, j%2 == 0)
			case 1:
				rc.SetRoutine(fn)
			case 2:
				rc.RestartRoutine()
			case 3:
				rc.ClearContext()
			case 4:
				c, cc := context.WithTimeout(ctx, time.Millisecond)
				_ = rc.WaitExited(c, true, nil)
				cc()
			}
		}
	})
}

func TestStateRoutine(t *testing.T) {
	ctx, cancel := context.WithCancel(context.Background())
	defer cancel()
	src := routine.NewStateRoutineContainer[int](nil)
	src.SetStateRoutine(func(ctx context.Context, st int) error { <-ctx.Done(); return nil })
	par(6, func(i int) {
		for j := 0; j < 100; j++ {
			switch (i + j) % 4 {
			case 0:
				src.SetContext(ctx, false)
			case 1:
				src.SetState(j % 3)
			case 2:
				src.ClearContext()
			case 3:
				src.GetState()
			}
		}
	})
}

func TestKeyed(t *testing.T) {
	ctx, cancel := context.WithCancel(context.Background())
	defer cancel()
	k := keyed.NewKeyedRefCount[int, int](func(key int) (keyed.Routine, int) {
		return func(ctx context.Context) error {
			if key%2 == 0 {
				return errors.New("x")
			}
			<-ctx.Done()
			return nil
		}, key
	}, keyed.WithReleaseDelay[int, int](time.Millisecond))
	k.SetContext(ctx, false)
	par(6, func(i int) {
		for j := 0; j < 100; j++ {
			ref, _, _ := k.AddKeyRef(j % 4)
			k.GetKeys()
			k.RestartRoutine(j % 4)
			if j%7 == 0 {
				k.RemoveKey(j % 4)
			}
			ref.Release()
			ref.Release()
		}
	})
}

func TestRefCount(t *testing.T) {
	ctx, cancel := context.WithCancel(context.Background())
	defer cancel()
	var n atomic.Int32
	rf := refcount.NewRefCount[*int](ctx, false, ccontainer.NewCContainer[*int](nil), ccontainer.NewCContainer[*error](nil),
		func(ctx context.Context, released func()) (*int, func(), error) {
			v := int(n.Add(1))
			if v%5 == 0 {
				go released()
			}
			return &v, func() {}, nil
		})
	par(6, func(i int) {
		for j := 0; j < 100; j++ {
			c, cc := context.WithTimeout(ctx, 5*time.Millisecond)
			switch (i + j) % 4 {
			case 0:
				_, rel, err := rf.Resolve(c)
				if err == nil {
					rel()
				}
			case 1:
				_ = rf.Access(c, func(ctx context.Context, v *int) error { return nil })
			case 2:
				_, rel, err := rf.ResolveWithReleased(c, func() {})
				if err == nil {
					rel()
				}
			case 3:
				r := rf.AddRef(func(bool, *int, error) {})
				r.Release()
			}
			cc()
		}
	})
}

func TestIO(t *testing.T) {
	rdc := iocloser.NewReadCloser(strings.NewReader(strings.Repeat("x", 100000)), func() error { return nil })
	par(4, func(i int) {
		b := make([]byte, 10)
		for j := 0; j < 100; j++ {
			_, _ = rdc.Read(b)
			if i == 0 && j == 50 {
				rdc.Close()
			}
		}
	})
	pr, pw := io.Pipe()
	go io.Copy(io.Discard, pr)
	s := iosizer.NewSizeReadWriter(strings.NewReader("abc"), pw)
	par(4, func(i int) {
		for j := 0; j < 100; j++ {
			_, _ = s.Write([]byte("x"))
			s.TotalSize()
		}
	})
	pw.Close()
}
