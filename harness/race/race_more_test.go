package race

import (
	"context"
	"errors"
	"testing"
	"time"

	"github.com/aperturerobotics/util/ccall"
	"github.com/aperturerobotics/util/csync"
	"github.com/aperturerobotics/util/routine"
	"github.com/aperturerobotics/util/keyed"
	"github.com/aperturerobotics/util/promise"
)

// TestCCall: many short calls whose functions finish while the caller is still in its
// bookkeeping (the window of defect D10).
func TestCCall(t *testing.T) {
	boom := errors.New("boom")
	par(4, func(i int) {
		for j := 0; j < 300; j++ {
			ctx, cancel := context.WithCancel(context.Background())
			err := ccall.CallConcurrently(ctx,
				func(ctx context.Context) error { return nil },
				func(ctx context.Context) error {
					if j%3 == 0 {
						return boom
					}
					return nil
				},
				nil,
				func(ctx context.Context) error { return nil },
			)
			if j%3 == 0 && err == nil {
				t.Errorf("nil result although a function failed")
			}
			cancel()
		}
	})
}

// TestKeyedRefCount: references coming and going on a few keys from several goroutines.
func TestKeyedRefCount(t *testing.T) {
	ctx, cancel := context.WithCancel(context.Background())
	defer cancel()
	k := keyed.NewKeyedRefCount[int, int](func(key int) (keyed.Routine, int) {
		return func(ctx context.Context) error { <-ctx.Done(); return nil }, key
	}, keyed.WithReleaseDelay[int, int](time.Millisecond))
	k.SetContext(ctx, true)
	par(6, func(i int) {
		for j := 0; j < 150; j++ {
			ref, _, _ := k.AddKeyRef((i + j) % 3)
			_ = k.GetKeys()
			if j%5 == 0 {
				k.RemoveKey((i + j) % 3)
			}
			ref.Release()
			if j%7 == 0 {
				ref.Release()
			}
		}
	})
}

// TestPromiseContainerReplace: awaiters while the promise is replaced and resolved.
func TestPromiseContainerReplace(t *testing.T) {
	ctx, cancel := context.WithTimeout(context.Background(), 2*time.Second)
	defer cancel()
	pc := promise.NewPromiseContainer[int]()
	go par(3, func(i int) {
		for j := 0; j < 100; j++ {
			p := promise.NewPromise[int]()
			pc.SetPromise(p)
			if j%2 == 0 {
				p.SetResult(j, nil)
			} else {
				pc.SetResult(j, context.Canceled)
			}
		}
		pc.SetResult(1, nil)
	})
	par(4, func(i int) {
		for j := 0; j < 50; j++ {
			_, _ = pc.Await(ctx)
			ch := make(chan struct{})
			close(ch)
			_, _ = pc.AwaitWithCancelCh(ctx, ch)
		}
	})
}

// TestSharedLockers: one Locker / RLocker value shared by several goroutines.
func TestSharedLockers(t *testing.T) {
	var m csync.RWMutex
	rl, wl := m.RLocker(), m.Locker()
	var mx csync.Mutex
	ml := mx.Locker()
	par(4, func(i int) {
		for j := 0; j < 200; j++ {
			rl.Lock()
			rl.Unlock()
			if j%10 == 0 {
				wl.Lock()
				wl.Unlock()
			}
			ml.Lock()
			ml.Unlock()
		}
	})
}

// TestKeyedReaders: GetKeysWithData / GetKeys / GetKey while the key set changes.
func TestKeyedReaders(t *testing.T) {
	ctx, cancel := context.WithCancel(context.Background())
	defer cancel()
	k := keyed.NewKeyed[int, int](func(key int) (keyed.Routine, int) {
		return func(ctx context.Context) error { <-ctx.Done(); return nil }, key
	}, keyed.WithReleaseDelay[int, int](time.Millisecond))
	k.SetContext(ctx, true)
	go par(2, func(i int) {
		for j := 0; j < 300; j++ {
			k.SetKey(j%5, true)
			k.RemoveKey((j + 2) % 5)
			k.SyncKeys([]int{j % 3, (j + 1) % 3}, false)
		}
	})
	par(3, func(i int) {
		for j := 0; j < 300; j++ {
			_ = k.GetKeysWithData()
			_ = k.GetKeys()
			_, _ = k.GetKey(j % 5)
		}
	})
}

// TestStateSwapUnchanged: SwapValue that leaves the state unchanged while the context changes.
func TestStateSwapUnchanged(t *testing.T) {
	ctx, cancel := context.WithCancel(context.Background())
	defer cancel()
	s := routine.NewStateRoutineContainer[int](nil)
	s.SetStateRoutine(func(ctx context.Context, st int) error { <-ctx.Done(); return nil })
	s.SetState(1)
	go par(2, func(i int) {
		for j := 0; j < 200; j++ {
			s.SetContext(ctx, j%2 == 0)
			if j%5 == 0 {
				s.ClearContext()
			}
			s.RestartRoutine()
		}
	})
	par(3, func(i int) {
		for j := 0; j < 200; j++ {
			s.SwapValue(nil)
			s.SwapValue(func(v int) int { return v })
			_ = s.GetState()
		}
	})
}

// TestKeyedContextReassert: SetContext(ctx,false) re-asserted while other calls notice that the
// context was cancelled and clear it.
func TestKeyedContextReassert(t *testing.T) {
	k := keyed.NewKeyed[int, int](func(key int) (keyed.Routine, int) {
		return func(ctx context.Context) error { <-ctx.Done(); return nil }, key
	})
	for round := 0; round < 40; round++ {
		ctx, cancel := context.WithCancel(context.Background())
		k.SetContext(ctx, true)
		k.SetKey(round%3, true)
		cancel()
		par(4, func(i int) {
			for j := 0; j < 50; j++ {
				if i%2 == 0 {
					k.SetContext(ctx, false)
				} else {
					k.SyncKeys([]int{j % 3}, false)
					k.RestartRoutine(j % 3)
				}
			}
		})
	}
}

// TestAwaitCancelVsSetResult: cancel channel closed by one goroutine while another resolves.
func TestAwaitCancelVsSetResult(t *testing.T) {
	ctx := context.Background()
	for round := 0; round < 400; round++ {
		p := promise.NewPromise[int]()
		ch := make(chan struct{})
		par(3, func(i int) {
			switch i {
			case 0:
				_, _ = p.AwaitWithCancelCh(ctx, ch)
			case 1:
				close(ch)
			case 2:
				p.SetResult(round, errors.New("x"))
			}
		})
	}
}
