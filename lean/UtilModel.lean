import UtilModel.Core.LTS
import UtilModel.Core.Bcast
import UtilModel.Core.Count
import UtilModel.Core.Monitor
import UtilModel.Core.Driver
import UtilModel.CSync.RWProps
import UtilModel.CSync.MxProps
import UtilModel.Registry
