import UtilModel.CSync.Transfer
import UtilModel.Broadcast.Transfer
import UtilModel.CContainer.Transfer
import UtilModel.Promise.Transfer
import UtilModel.Once.Transfer
import UtilModel.Memo.Transfer
import UtilModel.CCall.Transfer
import UtilModel.Conc.Transfer
import UtilModel.Treiber.Transfer
import UtilModel.LinkedList.Transfer
import UtilModel.Codec.Transfer
import UtilModel.Seq.Transfer
/-! All `*_accepted` end-to-end transfer theorems (one file per package). -/
