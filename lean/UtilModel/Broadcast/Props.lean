import UtilModel.Broadcast.Proofs
import UtilModel.Broadcast.Monitors
import UtilModel.Broadcast.SimProbe
import UtilModel.Broadcast.SimWait
/-!
# broadcast.Broadcast — property theorems (C03)

Every theorem quantifies over **all** event lists: every number of waiters and broadcasters, every
interleaving of their critical sections, select decisions and cancellations. A position in a run is
given by splitting the event list (`es1 ++ e :: es2`).
-/
namespace UtilModel.Broadcast
open UtilModel

/-- **C03, handle generations.** Let a critical section (`holdCS t`, at any position of any run)
execute the body `p`, and let `ch` be the `k`-th handle it obtained. At every later position of the
run, `ch` is closed **iff** a `broadcast()` follows the `getWaitCh()` in the same body or some later
critical section broadcast. Hence a handle is closed by the *first* later broadcast, stays closed,
and a handle obtained after a broadcast is open until the next one. -/
theorem handle_closed_iff (es1 es2 : List Ev) (t : Nat) (s0 s1 s2 : St) (ts : TS) (p : Prog)
    (h0 : model.run model.init es1 = some s0)
    (hts : s0.th[t]? = some ts) (hp : TS.pendingProg ts = some p)
    (h1 : step s0 (.holdCS t) = some s1)
    (h2 : model.run s1 es2 = some s2) :
    ∃ ts1, s1.th[t]? = some ts1 ∧ (TS.handles ts1).length = numGets p ∧
      ∀ k ch, (TS.handles ts1)[k]? = some ch →
        s2.bc.closed ch = (laterBcast p k || anyBcast s1 es2) := by
  have hi0 := reachable_inv es1 s0 h0
  have hi1 := step_inv s0 _ s1 hi0 h1
  have hlt := lt_of_getElem? hts
  obtain ⟨_, _, _, e4, e5, _⟩ := exec_spec p s0.x s0.bc hi0.bcwf
  have key : ∀ (mk : List Nat → TS), (∀ hs, TS.handles (mk hs) = hs) →
      s1 = runBody s0 t p mk →
      ∃ ts1, s1.th[t]? = some ts1 ∧ (TS.handles ts1).length = numGets p ∧
        ∀ k ch, (TS.handles ts1)[k]? = some ch →
          s2.bc.closed ch = (laterBcast p k || anyBcast s1 es2) := by
    intro mk hmk hs1
    refine ⟨mk (exec p s0.x s0.bc).2.2, by simp [hs1, runBody, hlt], by rw [hmk]; exact e5, ?_⟩
    intro k ch hk
    rw [hmk] at hk
    obtain ⟨a1, a2⟩ := e4 k ch hk
    have hc1 : ch < s1.bc.next := by rw [hs1]; exact a1
    rw [run_closed_iff s1 s2 es2 hi1 h2 ch hc1]
    congr 1
    rw [hs1]; exact a2
  simp only [step, hts] at h1
  cases ts with
  | holdInv k q =>
    simp [TS.pendingProg] at hp; subst hp
    simp at h1
    exact key _ (fun _ => rfl) h1.symm
  | mInv q rt =>
    simp [TS.pendingProg] at hp; subst hp
    simp at h1
    exact key _ (fun _ => rfl) h1.symm
  | _ => simp [TS.pendingProg] at hp

/-- **C03, `Wait` returns nil only after its predicate returned true.** If a run contains the
response `ret t wait nil`, then at an earlier position call `t` ran a critical section (its first,
or one after a wake-up) in which its predicate was done on the guarded state. -/
theorem wait_nil (es : List Ev) (s : St) (t : Nat)
    (h : model.run model.init (es ++ [.retWait t .nil]) = some s) :
    ∃ es1 e es2 s0 s1 p, es = es1 ++ e :: es2 ∧ model.run model.init es1 = some s0 ∧
      step s0 e = some s1 ∧ (e = .waitCS t ∨ e = .wakeCS t) ∧ waitingWith s0 t p ∧
      p.eval s0.x = .done := by
  obtain ⟨sm, hr, hl⟩ := model.run_prefix _ _ _ _ h
  simp only [OLTS.run] at hl
  cases hst : model.step sm (.retWait t .nil) with
  | none => simp [hst] at hl
  | some s' =>
    have hth := retWait_from sm s' t .nil hst
    obtain ⟨es1, e, es2, s0, s1, g1, g2, g3, g4, g5, _⟩ :=
      Broadcast.run_first_flip model (fun s => s.th[t]? = some (.wRet .nil)) model.init sm es hr
        (by simp [model]) hth
    rcases step_wRet s0 s1 e t .nil g3 g5 g4 with ⟨hb, _⟩ | ⟨hb, _⟩ | ⟨p, he, hw, _, hres⟩
    · cases hb
    · cases hb
    · rcases hres with ⟨_, hd⟩ | ⟨hb, _⟩
      · exact ⟨es1, e, es2, s0, s1, p, g1, g2, g3, he, hw, hd⟩
      · cases hb

/-- **C03, `Wait` returns the predicate's error unchanged**: the error response is produced only by
a critical section of the call in which its predicate failed (the family has one error value). -/
theorem wait_err (es : List Ev) (s : St) (t : Nat)
    (h : model.run model.init (es ++ [.retWait t .err]) = some s) :
    ∃ es1 e es2 s0 s1 p, es = es1 ++ e :: es2 ∧ model.run model.init es1 = some s0 ∧
      step s0 e = some s1 ∧ (e = .waitCS t ∨ e = .wakeCS t) ∧ waitingWith s0 t p ∧
      p.eval s0.x = .error := by
  obtain ⟨sm, hr, hl⟩ := model.run_prefix _ _ _ _ h
  simp only [OLTS.run] at hl
  cases hst : model.step sm (.retWait t .err) with
  | none => simp [hst] at hl
  | some s' =>
    have hth := retWait_from sm s' t .err hst
    obtain ⟨es1, e, es2, s0, s1, g1, g2, g3, g4, g5, _⟩ :=
      Broadcast.run_first_flip model (fun s => s.th[t]? = some (.wRet .err)) model.init sm es hr
        (by simp [model]) hth
    rcases step_wRet s0 s1 e t .err g3 g5 g4 with ⟨hb, _⟩ | ⟨hb, _⟩ | ⟨p, he, hw, _, hres⟩
    · cases hb
    · cases hb
    · rcases hres with ⟨hb, _⟩ | ⟨_, hd⟩
      · cases hb
      · exact ⟨es1, e, es2, s0, s1, p, g1, g2, g3, he, hw, hd⟩

/-- **C03, `Wait` returns `context.Canceled` only if its context was cancelled**: the response
`ret t wait canceled` is preceded by `env cancel t`. -/
theorem wait_canceled (es : List Ev) (s : St) (t : Nat)
    (h : model.run model.init (es ++ [.retWait t .canceled]) = some s) :
    Ev.envCancel t ∈ es := by
  obtain ⟨sm, hr, hl⟩ := model.run_prefix _ _ _ _ h
  simp only [OLTS.run] at hl
  cases hst : model.step sm (.retWait t .canceled) with
  | none => simp [hst] at hl
  | some s' =>
    have hth := retWait_from sm s' t .canceled hst
    obtain ⟨es1, e, es2, s0, s1, g1, g2, g3, g4, g5, _⟩ :=
      Broadcast.run_first_flip model (fun s => s.th[t]? = some (.wRet .canceled)) model.init sm es hr
        (by simp [model]) hth
    rcases step_wRet s0 s1 e t .canceled g3 g5 g4 with ⟨hb, _⟩ | ⟨_, hcx, _⟩ | ⟨p, _, _, _, hres⟩
    · cases hb
    · obtain ⟨fs1, e', fs2, u0, u1, k1, _, k3, k4, k5, _⟩ :=
        Broadcast.run_first_flip model (fun s => s.cx.contains t = true) model.init s0 es1 g2
          (by simp [model]) hcx
      have := step_cx u0 u1 e' t k3 k5 (by simpa using k4)
      subst this
      rw [g1, k1]; simp
    · rcases hres with ⟨hb, _⟩ | ⟨hb, _⟩ <;> cases hb

/-- the bad-argument error is returned only to a call with a nil callback or context -/
theorem wait_badarg (es : List Ev) (s : St) (t : Nat)
    (h : model.run model.init (es ++ [.retWait t .badarg]) = some s) :
    Ev.invWait t none ∈ es := by
  obtain ⟨sm, hr, hl⟩ := model.run_prefix _ _ _ _ h
  simp only [OLTS.run] at hl
  cases hst : model.step sm (.retWait t .badarg) with
  | none => simp [hst] at hl
  | some s' =>
    have hth := retWait_from sm s' t .badarg hst
    obtain ⟨es1, e, es2, s0, s1, g1, g2, g3, g4, g5, _⟩ :=
      Broadcast.run_first_flip model (fun s => s.th[t]? = some (.wRet .badarg)) model.init sm es hr
        (by simp [model]) hth
    rcases step_wRet s0 s1 e t .badarg g3 g5 g4 with ⟨_, he⟩ | ⟨hb, _⟩ | ⟨p, _, _, _, hres⟩
    · subst he; rw [g1]; simp
    · cases hb
    · rcases hres with ⟨hb, _⟩ | ⟨hb, _⟩ <;> cases hb

/-! ## never stays blocked while the guarded state satisfies the predicate -/

/-- **C03, the discipline.** If every body ever submitted keeps the discipline "a body that assigns
`x` also broadcasts" (`Prog.disciplined`), no executed body changed `x` without broadcasting: the
ghost flag `dirty` is never raised. -/
theorem disciplined_not_dirty (es : List Ev) (s : St) (h : model.run model.init es = some s)
    (hd : ∀ t k p, Ev.invHold t k p ∈ es → Prog.disciplined p = true) : s.dirty = false :=
  (run_tidy es model.init s ⟨rfl, by intro t ts p h; simp [model] at h⟩ h hd).1

/-- **C03, no lost wake-up (parked invariant).** In every reachable state in which no body changed
`x` without broadcasting, a `Wait` parked on a still-open channel has a predicate that is neither
done nor failing on the current `x`: every broadcast issued after it sampled the state closed its
channel. This covers the window between the waiter's critical section and its `select`. -/
theorem wait_parked_open_false (es : List Ev) (s : St) (h : model.run model.init es = some s)
    (hd : s.dirty = false) (t : Nat) (p : Pred) (ch : Nat) (ht : s.th[t]? = some (.wParked p ch))
    (hopen : s.bc.closed ch = false) : p.eval s.x = .notyet :=
  ((reachable_inv es s h).parked t p ch ht).2 hd hopen

/-- **C03, no lost wake-up (enabledness).** If the guarded state satisfies (or fails) the predicate
of a parked `Wait`, its channel is closed, its re-check critical section is enabled *now*, and that
step makes the call return — no further action of anybody else is needed. -/
theorem wait_satisfied_enabled (es : List Ev) (s : St) (h : model.run model.init es = some s)
    (hd : s.dirty = false) (t : Nat) (p : Pred) (ch : Nat) (ht : s.th[t]? = some (.wParked p ch))
    (hsat : p.eval s.x ≠ .notyet) :
    s.bc.closed ch = true ∧ ∃ s', step s (.wakeCS t) = some s' ∧
      (s'.th[t]? = some (.wRet .nil) ∨ s'.th[t]? = some (.wRet .err)) := by
  have hcl : s.bc.closed ch = true := by
    cases hcl : s.bc.closed ch
    · exact absurd (wait_parked_open_false es s h hd t p ch ht hcl) hsat
    · rfl
  have hlt := lt_of_getElem? ht
  refine ⟨hcl, waitAttempt s t p, by simp [step, ht, hcl], ?_⟩
  unfold waitAttempt
  cases hev : p.eval s.x with
  | done => simp [hlt]
  | error => simp [hlt]
  | notyet => exact absurd hev hsat

/-- **C03, no lost wake-up (quiescence).** When nothing can take a step any more (`quiesce` is
enabled) and the discipline was kept, no pending `Wait` has a predicate that is done or failing on
the final `x`. -/
theorem wait_quiescent_none_true (es : List Ev) (s : St) (h : model.run model.init es = some s)
    (hd : s.dirty = false) (hq : quiescent s = true) (t : Nat) (p : Pred) (ch : Nat)
    (ht : s.th[t]? = some (.wParked p ch)) : p.eval s.x = .notyet := by
  have hlt := lt_of_getElem? ht
  unfold quiescent at hq
  rw [List.all_eq_true] at hq
  have := hq t (by simp [hlt])
  simp only [ht, TS.quiet] at this
  simp at this
  exact wait_parked_open_false es s h hd t p ch ht this.1

/-- `Wait` blocks only in the parked state: every other state of a pending call has an enabled step,
so the set logged by `quiesce` is exactly the set of parked calls. -/
theorem quiesce_pending (s s' : St) (B : List Nat) (hs : step s (.quiesce B) = some s') :
    s' = s ∧ quiescent s = true ∧ B = pendingIds s := by
  simp only [step] at hs; split at hs <;> simp at hs
  rename_i hc; exact ⟨hs.symm, hc.1, hc.2⟩

/-! ## observable form: every trace of the model is accepted by the monitors -/

/-- **C03 (observable form, handle generations).** Every observable trace of the model is accepted
by `monProbe`: no probe ever finds a handle closed that must still be open, or open although a
broadcast certainly followed it. -/
theorem C03_probe_obs (es : List Ev) (s : St) (h : model.run model.init es = some s) :
    monProbe.accepts (es.filterMap model.obs) = true :=
  monitor_accepts_of_simulation model monProbe RelP relP_init
    (fun s e s' ms hR hs => by
      have h := probe_sim_step s e s' ms hR hs
      cases e <;> exact h) es s h

/-- **C03 (observable form, return values and quiescence).** Every observable trace of the model is
accepted by `monWait`. -/
theorem C03_wait_obs (es : List Ev) (s : St) (h : model.run model.init es = some s) :
    monWait.accepts (es.filterMap model.obs) = true :=
  monitor_accepts_of_simulation model monWait RelW relW_init
    (fun s e s' ms hR hs => by
      have h := wait_sim_step s e s' ms hR hs
      cases e <;> exact h) es s h

/-- **C03 (observable form).** Every observable trace of the Broadcast model — every number of
waiters and broadcasters, every interleaving — is accepted by the monitor `monC03` that the driver
also evaluates on histories recorded from the real code. With `accepts_sound`: every implementation
history the model accepts satisfies C03 in its observable form. -/
theorem C03_obs (es : List Ev) (s : St) (h : model.run model.init es = some s) :
    monC03.accepts (es.filterMap model.obs) = true := by
  unfold monC03
  rw [monProd_accepts, C03_probe_obs es s h, C03_wait_obs es s h]; rfl

/-! ## the model can do something -/

/-- the lost-wake-up window is reachable: a waiter samples `x = 0`, a body sets `x := 2` and
broadcasts before the waiter blocks; the waiter is then parked on a *closed* channel, re-checks and
returns nil -/
example : ∃ s, model.run model.init
    [.invWait 0 (some (.ge 2)), .waitCS 0, .invHold 1 .hold [.set 2, .bcast], .holdCS 1,
     .retHold 1 .hold true, .wakeCS 0, .retWait 0 .nil, .quiesce []] = some s ∧ s.dirty = false := by
  decide

/-- without the discipline a waiter does stay blocked with a true predicate (the hypothesis of the
no-lost-wake-up theorems is needed) -/
example : ∃ s, model.run model.init
    [.invWait 0 (some (.ge 2)), .waitCS 0, .invHold 1 .hold [.set 2], .holdCS 1,
     .retHold 1 .hold true, .quiesce [0]] = some s ∧ s.dirty = true := by
  decide

/-- handle generations: `g b g` yields a closed and an open handle; a later bare broadcast closes
the second -/
example : (model.run model.init
    [.invHold 0 .hold [.get, .bcast, .get], .holdCS 0, .retHold 0 .hold true,
     .probe 0 0 true, .probe 0 1 false, .invHold 1 .try [.bcast], .holdCS 1, .retHold 1 .try true,
     .probe 0 1 true]).isSome = true := by
  decide

end UtilModel.Broadcast
