import UtilModel.Core.LTS
import UtilModel.Core.Monitor
/-!
# Generic helpers shared by the Broadcast and CContainer packages

* product of two observable monitors (a property with several clauses = product of one monitor per
  clause; the product accepts iff both accept),
* `run_first_flip`: if a state predicate is false at the start of a run and true at its end, some
  step of the run turned it from false to true (used for "returns … only after …" theorems).
-/
namespace UtilModel.Broadcast
open UtilModel

variable {σ ε ο μ ν : Type}

def monProd (a : ObsMonitor ο μ) (b : ObsMonitor ο ν) : ObsMonitor ο (μ × ν) where
  init := (a.init, b.init)
  step := fun m o =>
    match a.step m.1 o, b.step m.2 o with
    | some x, some y => some (x, y)
    | _, _ => none

theorem monProd_run_isSome (a : ObsMonitor ο μ) (b : ObsMonitor ο ν) (h : List ο) (m : μ × ν) :
    ((monProd a b).run m h).isSome = ((a.run m.1 h).isSome && (b.run m.2 h).isSome) := by
  induction h generalizing m with
  | nil => simp [ObsMonitor.run]
  | cons o os ih =>
    simp only [ObsMonitor.run, monProd]
    cases ha : a.step m.1 o with
    | none => simp
    | some x =>
      cases hb : b.step m.2 o with
      | none => simp
      | some y =>
        have := ih (x, y)
        simpa [monProd] using this

/-- the product monitor accepts exactly the histories both monitors accept -/
theorem monProd_accepts (a : ObsMonitor ο μ) (b : ObsMonitor ο ν) (h : List ο) :
    (monProd a b).accepts h = (a.accepts h && b.accepts h) := by
  simp only [ObsMonitor.accepts]
  exact monProd_run_isSome a b h (a.init, b.init)

/-- if `Q` is false in `s`, true after running `es`, then some step of the run made it true -/
theorem run_first_flip (m : OLTS σ ε ο) (Q : σ → Prop) (s s' : σ) (es : List ε)
    (hr : m.run s es = some s') (h0 : ¬ Q s) (h1 : Q s') :
    ∃ es1 e es2 s0 s1, es = es1 ++ e :: es2 ∧ m.run s es1 = some s0 ∧ m.step s0 e = some s1 ∧
      ¬ Q s0 ∧ Q s1 ∧ m.run s1 es2 = some s' := by
  induction es generalizing s with
  | nil => simp [OLTS.run] at hr; subst hr; exact absurd h1 h0
  | cons e es ih =>
    simp only [OLTS.run] at hr
    cases hst : m.step s e with
    | none => simp [hst] at hr
    | some sa =>
      simp [hst] at hr
      by_cases hq : Q sa
      · exact ⟨[], e, es, s, sa, rfl, rfl, hst, h0, hq, hr⟩
      · obtain ⟨es1, e', es2, s0, s1, h1', h2, h3, h4, h5, h6⟩ := ih sa hr hq
        refine ⟨e :: es1, e', es2, s0, s1, by simp [h1'], ?_, h3, h4, h5, h6⟩
        simp [OLTS.run, hst, h2]

end UtilModel.Broadcast
