import UtilModel.Core.Driver
import UtilModel.Core.DriverH
import UtilModel.Broadcast.Model
import UtilModel.Broadcast.LockModel
/-! Development driver for this component only:
`lake env lean --run UtilModel/Broadcast/TestDriver.lean broadcast < hist` -/
open UtilModel

def main (args : List String) : IO UInt32 :=
  driverMain [
    mkEntryH "broadcast" Broadcast.lmodel Broadcast.Obs.parse [MonEntry.ofMonitor "C03" Broadcast.monC03L]
  ] args
