import UtilModel.Broadcast.Proofs
import UtilModel.Broadcast.Monitors
/-!
# broadcast: simulation proof for the return-value / quiescence monitor `monWait`

`RelW s ms` relates a model state to a monitor state. Its core is the soundness of the monitor's
value tracking: the guarded variable `x` is one of `ms.xposs`, every value a pending body will assign
is in `ms.xposs`, every pending `Wait` has *seen* all of `ms.xposs` (so the value its critical
section reads is a seen one), and a *solo* assigning call pins `x` exactly once its body has run.
-/
namespace UtilModel.Broadcast
open UtilModel

def isPendSet : WEntry → Bool
  | .hold (some _) true => true
  | _ => false

/-- what the solo assigning call `d` (final value `v`, `xposs` before it `saved`) tells about `x` -/
def SoloOK (x : Nat) (saved : List Nat) (v : Nat) : TS → Prop
  | .holdInv _ _ => x ∈ saved
  | .mInv _ _ => x ∈ saved
  | .tryFailed => x ∈ saved
  | .holdRan _ _ => x = v
  | .mRan _ _ _ => x = v
  | _ => True

/-- monitor entry `e` describes call `t` in state `ts` -/
def CorrW (xposs cx : List Nat) (t : Nat) (e : WEntry) : TS → Prop
  | .holdInv k p => e = .hold (lastSet p) true ∧ k ≠ .maybe
  | .mInv p _ => e = .hold (lastSet p) true
  | .holdRan k _ => (∃ sv, e = .hold sv true) ∧ k ≠ .maybe
  | .tryFailed => ∃ sv, e = .hold sv true
  | .mRan _ false _ => ∃ sv, e = .hold sv true
  | .mRan _ true _ => ∃ sv, e = .hold sv false
  | .done _ => (∃ sv, e = .hold sv false) ∨ (∃ p seen, e = .wait p seen)
  | .wInv p => ∃ seen, e = .wait (some p) seen ∧ ∀ w ∈ xposs, w ∈ seen
  | .wParked p _ => ∃ seen, e = .wait (some p) seen ∧ ∀ w ∈ xposs, w ∈ seen
  | .wRet r => ∃ po seen, e = .wait po seen ∧
      (match r with
       | .nil => ∃ p, po = some p ∧ seen.any (fun v => p.eval v == .done) = true
       | .err => ∃ p, po = some p ∧ seen.any (fun v => p.eval v == .error) = true
       | .canceled => cx.contains t = true
       | .badarg => po = none)

structure RelW (s : St) (ms : WaitSt) : Prop where
  inv : Inv s
  len : ms.calls.length = s.th.length
  cx : ms.cancelled = s.cx
  tidy : ms.disc = true → Tidy s
  corr : ∀ (t : Nat) (ts : TS), s.th[t]? = some ts →
    ∃ e, ms.calls[t]? = some e ∧ CorrW ms.xposs s.cx t e ts
  x : s.x ∈ ms.xposs
  pendx : ∀ (t : Nat) (ts : TS) (p : Prog) (v : Nat), s.th[t]? = some ts →
    TS.pendingProg ts = some p → lastSet p = some v → v ∈ ms.xposs
  nset : ms.nset = ms.calls.countP isPendSet
  solo : ∀ (d : Nat) (saved : List Nat), ms.solo = some (d, saved) →
    ∃ v, ms.calls[d]? = some (.hold (some v) true) ∧ ms.nset = 1 ∧ (∀ w ∈ saved, w ∈ ms.xposs) ∧
      ∀ ts, s.th[d]? = some ts → SoloOK s.x saved v ts

theorem relW_init : RelW model.init monWait.init := by
  refine ⟨init_inv, rfl, rfl, fun _ => ⟨rfl, by intro t ts p h; simp [model] at h⟩, ?_, ?_, ?_, rfl, ?_⟩
  · intro t ts h; simp [model] at h
  · simp [model, monWait]
  · intro t ts p v h; simp [model] at h
  · intro d saved h; simp [monWait] at h

theorem knownX_spec (l : List Nat) (v : Nat) (h : knownX l = some v) : ∀ w ∈ l, w = v := by
  cases l with
  | nil => simp [knownX] at h
  | cons a r =>
    simp only [knownX] at h
    split at h <;> simp at h
    subst h
    rename_i hall
    intro w hw
    simp at hw
    rcases hw with hw | hw
    · exact hw
    · simp at hall; exact hall w hw

/-- with exactly one pending assigning entry, two distinct pending assigning entries are absurd -/
theorem one_pendset (calls : List WEntry) (d t : Nat) (ed et : WEntry) (h1 : calls.countP isPendSet = 1)
    (hd : calls[d]? = some ed) (ht : calls[t]? = some et) (pd : isPendSet ed = true)
    (pt : isPendSet et = true) : t = d := by
  apply Classical.byContradiction
  intro hne
  have := countP_ge_two isPendSet calls t d _ _ hne ht hd pt pd
  omega

/-! ## group A: a thread moves, nothing the monitor tracks changes -/

theorem relW_move (s : St) (ms : WaitSt) (t : Nat) (a b : TS) (bc : Bcast)
    (hR : RelW s ms) (ha : s.th[t]? = some a)
    (hinv : Inv { s with bc := bc, th := s.th.set t b })
    (htidy : ms.disc = true → Tidy { s with bc := bc, th := s.th.set t b })
    (hcorr : ∀ e, CorrW ms.xposs s.cx t e a → CorrW ms.xposs s.cx t e b)
    (hpp : ∀ p, TS.pendingProg b = some p → TS.pendingProg a = some p)
    (hsolo : ∀ saved v, SoloOK s.x saved v a → SoloOK s.x saved v b) :
    RelW { s with bc := bc, th := s.th.set t b } ms := by
  have old : ∀ (u : Nat) (ts : TS), (s.th.set t b)[u]? = some ts →
      (u = t ∧ ts = b) ∨ (u ≠ t ∧ s.th[u]? = some ts) :=
    fun u ts hu => getElem?_set_cases s.th t u b ts hu
  refine ⟨hinv, by simp [hR.len], hR.cx, htidy, ?_, hR.x, ?_, hR.nset, ?_⟩
  · intro u ts hu
    rcases old u ts hu with ⟨hut, hts⟩ | ⟨_, h0⟩
    · subst hut; subst hts
      obtain ⟨e, he, hm⟩ := hR.corr u a ha
      exact ⟨e, he, hcorr e hm⟩
    · exact hR.corr u ts h0
  · intro u ts p v hu hp hl
    rcases old u ts hu with ⟨hut, hts⟩ | ⟨_, h0⟩
    · subst hut; subst hts
      exact hR.pendx u a p v ha (hpp p hp) hl
    · exact hR.pendx u ts p v h0 hp hl
  · intro d saved hs
    obtain ⟨v, h1, h2, h3, h4⟩ := hR.solo d saved hs
    refine ⟨v, h1, h2, h3, ?_⟩
    intro ts hu
    rcases old d ts hu with ⟨hut, hts⟩ | ⟨_, h0⟩
    · subst hut; subst hts
      exact hsolo saved v (h4 a ha)
    · exact h4 ts h0

end UtilModel.Broadcast
