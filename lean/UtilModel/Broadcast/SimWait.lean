import UtilModel.Broadcast.Proofs
import UtilModel.Broadcast.Monitors
/-!
# broadcast: simulation proof for the return-value / quiescence monitor `monWait`

`RelW s ms` relates a model state to a monitor state. Its core is the soundness of the monitor's
value tracking: the guarded variable `x` is one of `ms.xposs`, every value a pending body will assign
is in `ms.xposs`, every pending `Wait` has *seen* all of `ms.xposs` (so the value its critical
section reads is a seen one), and a *solo* assigning call pins `x` exactly once its body has run.
-/
namespace UtilModel.Broadcast
open UtilModel

def isPendSet : WEntry → Bool
  | .hold (some _) true => true
  | _ => false

/-- what the solo assigning call `d` (final value `v`, `xposs` before it `saved`) tells about `x` -/
def SoloOK (x : Nat) (saved : List Nat) (v : Nat) : TS → Prop
  | .holdInv _ _ => x ∈ saved
  | .mInv _ _ => x ∈ saved
  | .tryFailed => x ∈ saved
  | .holdRan _ _ => x = v
  | .mRan _ _ _ => x = v
  | _ => True

/-- monitor entry `e` describes call `t` in state `ts` -/
def CorrW (xposs cx : List Nat) (t : Nat) (e : WEntry) : TS → Prop
  | .holdInv k p => e = .hold (lastSet p) true ∧ k ≠ .maybe
  | .mInv p _ => e = .hold (lastSet p) true
  | .holdRan k _ => (∃ sv, e = .hold sv true) ∧ k ≠ .maybe
  | .tryFailed => ∃ sv, e = .hold sv true
  | .mRan _ false _ => ∃ sv, e = .hold sv true
  | .mRan _ true _ => ∃ sv, e = .hold sv false
  | .done _ => (∃ sv, e = .hold sv false) ∨ (∃ p seen, e = .wait p seen)
  | .wInv p => ∃ seen, e = .wait (some p) seen ∧ ∀ w ∈ xposs, w ∈ seen
  | .wParked p _ => ∃ seen, e = .wait (some p) seen ∧ ∀ w ∈ xposs, w ∈ seen
  | .wRet r => ∃ po seen, e = .wait po seen ∧
      (match r with
       | .nil => ∃ p, po = some p ∧ seen.any (fun v => p.eval v == .done) = true
       | .err => ∃ p, po = some p ∧ seen.any (fun v => p.eval v == .error) = true
       | .canceled => cx.contains t = true
       | .badarg => po = none)

structure RelW (s : St) (ms : WaitSt) : Prop where
  inv : Inv s
  len : ms.calls.length = s.th.length
  cx : ms.cancelled = s.cx
  tidy : ms.disc = true → Tidy s
  corr : ∀ (t : Nat) (ts : TS), s.th[t]? = some ts →
    ∃ e, ms.calls[t]? = some e ∧ CorrW ms.xposs s.cx t e ts
  x : s.x ∈ ms.xposs
  pendx : ∀ (t : Nat) (ts : TS) (p : Prog) (v : Nat), s.th[t]? = some ts →
    TS.pendingProg ts = some p → lastSet p = some v → v ∈ ms.xposs
  nset : ms.nset = ms.calls.countP isPendSet
  solo : ∀ (d : Nat) (saved : List Nat), ms.solo = some (d, saved) →
    ∃ v, ms.calls[d]? = some (.hold (some v) true) ∧ ms.nset = 1 ∧ (∀ w ∈ saved, w ∈ ms.xposs) ∧
      ∀ ts, s.th[d]? = some ts → SoloOK s.x saved v ts

theorem relW_init : RelW model.init monWait.init := by
  refine ⟨init_inv, rfl, rfl, fun _ => ⟨rfl, by intro t ts p h; simp [model] at h⟩, ?_, ?_, ?_, rfl, ?_⟩
  · intro t ts h; simp [model] at h
  · simp [model, monWait]
  · intro t ts p v h; simp [model] at h
  · intro d saved h; simp [monWait] at h

theorem knownX_spec (l : List Nat) (v : Nat) (h : knownX l = some v) : ∀ w ∈ l, w = v := by
  cases l with
  | nil => simp [knownX] at h
  | cons a r =>
    simp only [knownX] at h
    split at h <;> simp at h
    subst h
    rename_i hall
    intro w hw
    simp at hw
    rcases hw with hw | hw
    · exact hw
    · simp at hall; exact hall w hw

/-- with exactly one pending assigning entry, two distinct pending assigning entries are absurd -/
theorem one_pendset (calls : List WEntry) (d t : Nat) (ed et : WEntry) (h1 : calls.countP isPendSet = 1)
    (hd : calls[d]? = some ed) (ht : calls[t]? = some et) (pd : isPendSet ed = true)
    (pt : isPendSet et = true) : t = d := by
  apply Classical.byContradiction
  intro hne
  have := countP_ge_two isPendSet calls t d _ _ hne ht hd pt pd
  omega

/-! ## group A: a thread moves, nothing the monitor tracks changes -/

theorem relW_move (s : St) (ms : WaitSt) (t : Nat) (a b : TS) (bc : Bcast)
    (hR : RelW s ms) (ha : s.th[t]? = some a)
    (hinv : Inv { s with bc := bc, th := s.th.set t b })
    (htidy : ms.disc = true → Tidy { s with bc := bc, th := s.th.set t b })
    (hcorr : ∀ e, CorrW ms.xposs s.cx t e a → CorrW ms.xposs s.cx t e b)
    (hpp : ∀ p, TS.pendingProg b = some p → TS.pendingProg a = some p)
    (hsolo : ∀ saved v, SoloOK s.x saved v a → SoloOK s.x saved v b) :
    RelW { s with bc := bc, th := s.th.set t b } ms := by
  have old : ∀ (u : Nat) (ts : TS), (s.th.set t b)[u]? = some ts →
      (u = t ∧ ts = b) ∨ (u ≠ t ∧ s.th[u]? = some ts) :=
    fun u ts hu => getElem?_set_cases s.th t u b ts hu
  refine ⟨hinv, by simp [hR.len], hR.cx, htidy, ?_, hR.x, ?_, hR.nset, ?_⟩
  · intro u ts hu
    rcases old u ts hu with ⟨hut, hts⟩ | ⟨_, h0⟩
    · subst hut; subst hts
      obtain ⟨e, he, hm⟩ := hR.corr u a ha
      exact ⟨e, he, hcorr e hm⟩
    · exact hR.corr u ts h0
  · intro u ts p v hu hp hl
    rcases old u ts hu with ⟨hut, hts⟩ | ⟨_, h0⟩
    · subst hut; subst hts
      exact hR.pendx u a p v ha (hpp p hp) hl
    · exact hR.pendx u ts p v h0 hp hl
  · intro d saved hs
    obtain ⟨v, h1, h2, h3, h4⟩ := hR.solo d saved hs
    refine ⟨v, h1, h2, h3, ?_⟩
    intro ts hu
    rcases old d ts hu with ⟨hut, hts⟩ | ⟨_, h0⟩
    · subst hut; subst hts
      exact hsolo saved v (h4 a ha)
    · exact h4 ts h0


/-! ## monotonicity of the entry/thread correspondence -/

theorem corrW_mono (xp xp' cx : List Nat) (t : Nat) (e : WEntry) (ts : TS)
    (hsub : ∀ w ∈ xp', w ∈ xp) (h : CorrW xp cx t e ts) : CorrW xp' cx t e ts := by
  cases ts with
  | wInv p =>
    obtain ⟨seen, h1, h2⟩ := h
    exact ⟨seen, h1, fun w hw => h2 w (hsub w hw)⟩
  | wParked p ch =>
    obtain ⟨seen, h1, h2⟩ := h
    exact ⟨seen, h1, fun w hw => h2 w (hsub w hw)⟩
  | mRan hs cb rt => cases cb <;> exact h
  | holdInv k p => exact h
  | mInv p rt => exact h
  | holdRan k hs => exact h
  | tryFailed => exact h
  | done hs => exact h
  | wRet r => exact h

theorem any_cons_mono (f : Nat → Bool) (v : Nat) (l : List Nat) (h : l.any f = true) :
    (v :: l).any f = true := by
  simp only [List.any_cons, h, Bool.or_true]

theorem corrW_see (xp cx : List Nat) (t v : Nat) (e : WEntry) (ts : TS)
    (h : CorrW xp cx t e ts) : CorrW (v :: xp) cx t (e.see v) ts := by
  cases ts with
  | holdInv k p => obtain ⟨h1, h2⟩ := h; subst h1; exact ⟨rfl, h2⟩
  | mInv p rt => simp only [CorrW] at h ⊢; subst h; rfl
  | holdRan k hs =>
    obtain ⟨⟨sv, h1⟩, h2⟩ := h; subst h1; exact ⟨⟨sv, rfl⟩, h2⟩
  | tryFailed => obtain ⟨sv, h1⟩ := h; subst h1; exact ⟨sv, rfl⟩
  | mRan hs cb rt =>
    cases cb <;> (obtain ⟨sv, h1⟩ := h; subst h1; exact ⟨sv, rfl⟩)
  | done hs =>
    rcases h with ⟨sv, h1⟩ | ⟨p, seen, h1⟩
    · subst h1; exact Or.inl ⟨sv, rfl⟩
    · subst h1; exact Or.inr ⟨p, v :: seen, rfl⟩
  | wInv p =>
    obtain ⟨seen, h1, h2⟩ := h; subst h1
    refine ⟨v :: seen, rfl, ?_⟩
    intro w hw; simp at hw ⊢
    rcases hw with hw | hw
    · exact Or.inl hw
    · exact Or.inr (h2 w hw)
  | wParked p ch =>
    obtain ⟨seen, h1, h2⟩ := h; subst h1
    refine ⟨v :: seen, rfl, ?_⟩
    intro w hw; simp at hw ⊢
    rcases hw with hw | hw
    · exact Or.inl hw
    · exact Or.inr (h2 w hw)
  | wRet r =>
    obtain ⟨po, seen, h1, h2⟩ := h; subst h1
    refine ⟨po, v :: seen, rfl, ?_⟩
    cases r with
    | nil => obtain ⟨p, hp, ha⟩ := h2; exact ⟨p, hp, any_cons_mono _ v seen ha⟩
    | err => obtain ⟨p, hp, ha⟩ := h2; exact ⟨p, hp, any_cons_mono _ v seen ha⟩
    | canceled => exact h2
    | badarg => exact h2

theorem isPendSet_see (v : Nat) (e : WEntry) : isPendSet (e.see v) = isPendSet e := by
  cases e <;> rfl

theorem countP_map_see (v : Nat) (l : List WEntry) :
    (l.map (WEntry.see v)).countP isPendSet = l.countP isPendSet := by
  induction l with
  | nil => rfl
  | cons a r ih => simp [List.countP_cons, isPendSet_see, ih]

/-! ## group B: a body runs -/

theorem relW_exec (s : St) (ms : WaitSt) (t : Nat) (a : TS) (p : Prog) (mk : List Nat → TS)
    (hR : RelW s ms) (ha : s.th[t]? = some a) (hpa : TS.pendingProg a = some p)
    (hinv : Inv (runBody s t p mk)) (htidy : ms.disc = true → Tidy (runBody s t p mk))
    (hcorr : ∀ e hs, CorrW ms.xposs s.cx t e a →
      e = .hold (lastSet p) true ∧ CorrW ms.xposs s.cx t e (mk hs))
    (hmkp : ∀ hs, TS.pendingProg (mk hs) = none)
    (hsoloB : ∀ saved v x hs, x = v → SoloOK x saved v (mk hs)) :
    RelW (runBody s t p mk) ms := by
  have hx := exec_x p s.x s.bc
  obtain ⟨et, het, hmt⟩ := hR.corr t a ha
  obtain ⟨hete, _⟩ := hcorr et [] hmt
  have old : ∀ (u : Nat) (ts : TS), (s.th.set t (mk (exec p s.x s.bc).2.2))[u]? = some ts →
      (u = t ∧ ts = mk (exec p s.x s.bc).2.2) ∨ (u ≠ t ∧ s.th[u]? = some ts) :=
    fun u ts hu => getElem?_set_cases s.th t u _ ts hu
  -- if another call is the solo assigner, this body assigns nothing
  have keepx : ∀ (d : Nat) (v : Nat), ms.calls[d]? = some (.hold (some v) true) → ms.nset = 1 → d ≠ t →
      (exec p s.x s.bc).1 = s.x := by
    intro d v hd hn hdt
    rw [hx]
    cases hl : lastSet p with
    | none => rfl
    | some w =>
      exfalso
      rw [hl] at hete
      have := one_pendset ms.calls d t _ _ (by rw [← hR.nset]; exact hn) hd (by rw [het, hete]) rfl rfl
      exact hdt this.symm
  unfold runBody
  refine ⟨by simpa [runBody] using hinv, by simp [hR.len], hR.cx,
    by simpa [runBody] using htidy, ?_, ?_, ?_, hR.nset, ?_⟩
  · intro u ts hu
    simp only at hu
    rcases old u ts hu with ⟨hut, hts⟩ | ⟨_, h0⟩
    · subst hut; subst hts
      exact ⟨et, het, (hcorr et _ hmt).2⟩
    · exact hR.corr u ts h0
  · simp only
    rw [hx]
    cases hl : lastSet p with
    | none => exact hR.x
    | some v => exact hR.pendx t a p v ha hpa hl
  · intro u ts q v hu hq hl
    simp only at hu
    rcases old u ts hu with ⟨hut, hts⟩ | ⟨_, h0⟩
    · subst hts; rw [hmkp] at hq; cases hq
    · exact hR.pendx u ts q v h0 hq hl
  · intro d saved hs
    obtain ⟨v, h1, h2, h3, h4⟩ := hR.solo d saved hs
    refine ⟨v, h1, h2, h3, ?_⟩
    intro ts hu
    simp only at hu ⊢
    rcases old d ts hu with ⟨hut, hts⟩ | ⟨hdt, h0⟩
    · subst hut; subst hts
      apply hsoloB
      rw [hx]
      rw [het] at h1
      rw [hete] at h1
      simp at h1
      rw [h1]; rfl
    · rw [keepx d v h1 h2 hdt]; exact h4 ts h0

/-! ## group C: a lock-and-call is over -/

theorem relW_finish (s : St) (ms : WaitSt) (t : Nat) (a b : TS) (ran : Bool)
    (hR : RelW s ms) (ha : s.th[t]? = some a)
    (hinv : Inv { s with th := s.th.set t b })
    (htidy : ms.disc = true → Tidy { s with th := s.th.set t b })
    (hca : ∀ e, CorrW ms.xposs s.cx t e a → ∃ sv, e = .hold sv true)
    (hcb : ∀ xp sv, CorrW xp s.cx t (.hold sv false) b)
    (hpb : TS.pendingProg b = none)
    (hsa : ∀ saved v, SoloOK s.x saved v a → if ran then s.x = v else s.x ∈ saved) :
    RelW { s with th := s.th.set t b } (ms.finish t ran) := by
  obtain ⟨et, het, hmt⟩ := hR.corr t a ha
  obtain ⟨sv, hsv⟩ := hca et hmt
  subst hsv
  have hlt : t < ms.calls.length := lt_of_getElem? het
  have old : ∀ (u : Nat) (ts : TS), (s.th.set t b)[u]? = some ts →
      (u = t ∧ ts = b) ∨ (u ≠ t ∧ s.th[u]? = some ts) :=
    fun u ts hu => getElem?_set_cases s.th t u b ts hu
  cases sv with
  | none =>
    have hfin : ms.finish t ran = { ms with calls := ms.calls.set t (.hold none false) } := by
      simp [WaitSt.finish, het]
    rw [hfin]
    refine ⟨hinv, by simp [hR.len], hR.cx, htidy, ?_, hR.x, ?_, ?_, ?_⟩
    · intro u ts hu
      rcases old u ts hu with ⟨hut, hts⟩ | ⟨hut, h0⟩
      · subst hut; subst hts
        exact ⟨.hold none false, by simp [hlt], hcb _ _⟩
      · obtain ⟨e, he, hm⟩ := hR.corr u ts h0
        exact ⟨e, by simp only; rw [getElem?_set_ne' _ _ _ _ (fun h => hut h.symm)]; exact he, hm⟩
    · intro u ts q v hu hq hl
      rcases old u ts hu with ⟨hut, hts⟩ | ⟨_, h0⟩
      · subst hts; rw [hpb] at hq; cases hq
      · exact hR.pendx u ts q v h0 hq hl
    · have h := countP_set isPendSet ms.calls t _ (.hold none false) het
      simp [isPendSet] at h
      simp only; rw [h]; exact hR.nset
    · intro d saved hs
      obtain ⟨v, h1, h2, h3, h4⟩ := hR.solo d saved hs
      have hdt : t ≠ d := by intro h; subst h; rw [het] at h1; cases h1
      refine ⟨v, by simp only; rw [getElem?_set_ne' _ _ _ _ hdt]; exact h1, h2, h3, ?_⟩
      intro ts hu
      rcases old d ts hu with ⟨hut, _⟩ | ⟨_, h0⟩
      · exact absurd hut.symm hdt
      · exact h4 ts h0
  | some v =>
    -- the new set of possible values is contained in the old one, and contains x
    have hcnt := countP_set isPendSet ms.calls t _ (.hold (some v) false) het
    simp [isPendSet] at hcnt
    have hns := hR.nset
    have key : ∀ xp', (ms.finish t ran).xposs = xp' → (∀ w ∈ xp', w ∈ ms.xposs) ∧ s.x ∈ xp' ∧
        (∀ (u : Nat) (ts : TS) (q : Prog) (v' : Nat), u ≠ t → s.th[u]? = some ts →
          TS.pendingProg ts = some q → lastSet q = some v' → v' ∈ xp') := by
      intro xp' hxp
      simp only [WaitSt.finish, het] at hxp
      cases hsolo : ms.solo with
      | none =>
        simp [hsolo] at hxp; subst hxp
        exact ⟨fun w h => h, hR.x, fun u ts q v' _ h0 hq hl => hR.pendx u ts q v' h0 hq hl⟩
      | some ds =>
        obtain ⟨d, saved⟩ := ds
        obtain ⟨v0, g1, g2, g3, g4⟩ := hR.solo d saved hsolo
        by_cases hdt : d = t
        · subst hdt
          rw [het] at g1; simp at g1; subst g1
          have hso := hsa saved v (g4 a ha)
          -- no other pending assigning body
          have noother : ∀ (u : Nat) (ts : TS) (q : Prog) (v' : Nat), u ≠ d → s.th[u]? = some ts →
              TS.pendingProg ts = some q → lastSet q = some v' → False := by
            intro u ts q v' hud h0 hq hl
            obtain ⟨e, he, hm⟩ := hR.corr u ts h0
            have heq : e = .hold (some v') true := by
              cases ts <;> simp [TS.pendingProg] at hq
              · subst hq; simp only [CorrW] at hm; rw [hm.1, hl]
              · subst hq; simp only [CorrW] at hm; rw [hm, hl]
            subst heq
            exact hud (one_pendset ms.calls d u _ _ (by rw [← hns]; exact g2) het he rfl rfl)
          cases ran with
          | true =>
            simp [hsolo] at hxp; subst hxp
            simp at hso
            refine ⟨?_, by simp [hso], fun u ts q v' hu h0 hq hl => (noother u ts q v' hu h0 hq hl).elim⟩
            intro w hw; simp at hw; subst hw; rw [← hso]; exact hR.x
          | false =>
            simp [hsolo] at hxp; subst hxp
            simp at hso
            exact ⟨g3, hso, fun u ts q v' hu h0 hq hl => (noother u ts q v' hu h0 hq hl).elim⟩
        · simp [hsolo, hdt] at hxp; subst hxp
          exact ⟨fun w h => h, hR.x, fun u ts q v' _ h0 hq hl => hR.pendx u ts q v' h0 hq hl⟩
    obtain ⟨k1, k2, k3⟩ := key _ rfl
    have hcalls : (ms.finish t ran).calls = ms.calls.set t (.hold (some v) false) := by
      simp [WaitSt.finish, het]
    have hnset : (ms.finish t ran).nset = ms.nset - 1 := by simp [WaitSt.finish, het]
    have hsolo' : (ms.finish t ran).solo = none := by simp [WaitSt.finish, het]
    have hcx : (ms.finish t ran).cancelled = ms.cancelled := by simp [WaitSt.finish, het]
    have hdisc : (ms.finish t ran).disc = ms.disc := by simp [WaitSt.finish, het]
    refine ⟨hinv, by rw [hcalls]; simp [hR.len], by rw [hcx]; exact hR.cx,
      by rw [hdisc]; exact htidy, ?_, k2, ?_, ?_, ?_⟩
    · intro u ts hu
      rw [hcalls]
      rcases old u ts hu with ⟨hut, hts⟩ | ⟨hut, h0⟩
      · subst hut; subst hts
        exact ⟨.hold (some v) false, by simp [hlt], hcb _ _⟩
      · obtain ⟨e, he, hm⟩ := hR.corr u ts h0
        exact ⟨e, by rw [getElem?_set_ne' _ _ _ _ (fun h => hut h.symm)]; exact he,
          corrW_mono _ _ _ _ _ _ k1 hm⟩
    · intro u ts q v' hu hq hl
      rcases old u ts hu with ⟨hut, hts⟩ | ⟨hut, h0⟩
      · subst hts; rw [hpb] at hq; cases hq
      · exact k3 u ts q v' hut h0 hq hl
    · rw [hnset, hcalls]; omega
    · intro d saved hs; rw [hsolo'] at hs; cases hs


/-! ## group D: a call is invoked -/

theorem getElem?_map_see (v : Nat) (l : List WEntry) (u : Nat) :
    (l.map (WEntry.see v))[u]? = (l[u]?).map (WEntry.see v) := by simp

theorem relW_invHold (s : St) (ms : WaitSt) (b : TS) (p : Prog)
    (hR : RelW s ms) (hinv : Inv { s with th := s.th ++ [b] })
    (htidy : ms.disc = true → Prog.disciplined p = true → Tidy { s with th := s.th ++ [b] })
    (hpb : TS.pendingProg b = some p)
    (hcb : ∀ xp, CorrW xp s.cx s.th.length (.hold (lastSet p) true) b)
    (hsb : ∀ x saved v, x ∈ saved → SoloOK x saved v b) (t : Nat) (k : HKind) :
    ∃ ms', monWait.step ms (.invHold t k p) = some ms' ∧ RelW { s with th := s.th ++ [b] } ms' := by
  have oldT : ∀ (u : Nat) (ts : TS), (s.th ++ [b])[u]? = some ts →
      (u < s.th.length ∧ s.th[u]? = some ts) ∨ (u = s.th.length ∧ ts = b) :=
    fun u ts hu => getElem?_snoc_cases s.th b ts u hu
  have hdisc : ∀ d, (d = (ms.disc && ((lastSet p).isNone || p.hasBcast))) → d = true →
      Tidy { s with th := s.th ++ [b] } := by
    intro d hd hdt
    rw [hd] at hdt; simp at hdt
    exact htidy hdt.1 (by unfold Prog.disciplined; simpa using hdt.2)
  simp only [monWait]
  cases hl : lastSet p with
  | none =>
    refine ⟨_, rfl, ?_⟩
    refine ⟨hinv, by simp [hR.len], hR.cx, ?_, ?_, hR.x, ?_, ?_, ?_⟩
    · intro hd; exact hdisc _ (by rw [hl]) hd
    · intro u ts hu
      rcases oldT u ts hu with ⟨_, h0⟩ | ⟨hul, hts⟩
      · obtain ⟨e, he, hm⟩ := hR.corr u ts h0
        exact ⟨e, getElem?_snoc_left _ _ _ _ he, hm⟩
      · subst hts
        refine ⟨.hold none true, by simp only; rw [hul, ← hR.len]; simp, ?_⟩
        have := hcb ms.xposs; rw [hl] at this; rw [hul]; exact this
    · intro u ts q v hu hq hlq
      rcases oldT u ts hu with ⟨_, h0⟩ | ⟨_, hts⟩
      · exact hR.pendx u ts q v h0 hq hlq
      · subst hts; rw [hpb] at hq; cases hq; rw [hl] at hlq; cases hlq
    · simp only [countP_append_one, isPendSet]; simpa using hR.nset
    · intro d saved hs
      obtain ⟨v, h1, h2, h3, h4⟩ := hR.solo d saved hs
      refine ⟨v, getElem?_snoc_left _ _ _ _ h1, h2, h3, ?_⟩
      intro ts hu
      rcases oldT d ts hu with ⟨_, h0⟩ | ⟨hdl, _⟩
      · exact h4 ts h0
      · have := lt_of_getElem? h1; rw [hR.len] at this; omega
  | some v =>
    refine ⟨_, rfl, ?_⟩
    have hlenm : (ms.calls.map (WEntry.see v)).length = s.th.length := by simp [hR.len]
    refine ⟨hinv, by simp [hR.len], hR.cx, ?_, ?_, ?_, ?_, ?_, ?_⟩
    · intro hd; exact hdisc _ (by rw [hl]) hd
    · intro u ts hu
      rcases oldT u ts hu with ⟨hlt, h0⟩ | ⟨hul, hts⟩
      · obtain ⟨e, he, hm⟩ := hR.corr u ts h0
        refine ⟨e.see v, ?_, corrW_see _ _ _ _ _ _ hm⟩
        simp only
        rw [List.getElem?_append_left (by rw [hlenm]; exact hlt), getElem?_map_see, he]; rfl
      · subst hts
        refine ⟨.hold (some v) true, ?_, ?_⟩
        · simp only
          rw [List.getElem?_append_right (by rw [hlenm]; omega), hlenm, hul]; simp
        · have := hcb (v :: ms.xposs); rw [hl] at this; rw [hul]; exact this
    · simp only; simp [hR.x]
    · intro u ts q v' hu hq hlq
      simp only
      rcases oldT u ts hu with ⟨_, h0⟩ | ⟨_, hts⟩
      · simp [hR.pendx u ts q v' h0 hq hlq]
      · subst hts; rw [hpb] at hq; cases hq; rw [hl] at hlq; cases hlq; simp
    · simp only [countP_append_one, isPendSet, countP_map_see]; simpa using hR.nset
    · intro d saved hs
      simp only at hs
      split at hs <;> simp at hs
      rename_i hn0
      obtain ⟨hd, hsv⟩ := hs
      subst hsv
      refine ⟨v, ?_, by simp only; omega, by intro w hw; simp [hw], ?_⟩
      · simp only
        rw [← hd, List.getElem?_append_right (by simp), ]
        simp
      · intro ts hu
        rcases oldT d ts hu with ⟨hlt, _⟩ | ⟨_, hts⟩
        · rw [← hd, hR.len] at hlt; omega
        · subst hts; exact hsb _ _ _ hR.x

theorem relW_invWait (s : St) (ms : WaitSt) (b : TS) (po : Option Pred)
    (hR : RelW s ms) (hinv : Inv { s with th := s.th ++ [b] })
    (htidy : ms.disc = true → Tidy { s with th := s.th ++ [b] })
    (hpb : TS.pendingProg b = none)
    (hcb : ∀ seen, (∀ w ∈ ms.xposs, w ∈ seen) → CorrW ms.xposs s.cx s.th.length (.wait po seen) b) :
    RelW { s with th := s.th ++ [b] } { ms with calls := ms.calls ++ [.wait po ms.xposs] } := by
  have oldT : ∀ (u : Nat) (ts : TS), (s.th ++ [b])[u]? = some ts →
      (u < s.th.length ∧ s.th[u]? = some ts) ∨ (u = s.th.length ∧ ts = b) :=
    fun u ts hu => getElem?_snoc_cases s.th b ts u hu
  refine ⟨hinv, by simp [hR.len], hR.cx, htidy, ?_, hR.x, ?_, ?_, ?_⟩
  · intro u ts hu
    rcases oldT u ts hu with ⟨_, h0⟩ | ⟨hul, hts⟩
    · obtain ⟨e, he, hm⟩ := hR.corr u ts h0
      exact ⟨e, getElem?_snoc_left _ _ _ _ he, hm⟩
    · subst hts
      refine ⟨.wait po ms.xposs, by simp only; rw [hul, ← hR.len]; simp, ?_⟩
      rw [hul]; exact hcb _ (fun w h => h)
  · intro u ts q v hu hq hlq
    rcases oldT u ts hu with ⟨_, h0⟩ | ⟨_, hts⟩
    · exact hR.pendx u ts q v h0 hq hlq
    · subst hts; rw [hpb] at hq; cases hq
  · simp only [countP_append_one, isPendSet]; simpa using hR.nset
  · intro d saved hs
    obtain ⟨v, h1, h2, h3, h4⟩ := hR.solo d saved hs
    refine ⟨v, getElem?_snoc_left _ _ _ _ h1, h2, h3, ?_⟩
    intro ts hu
    rcases oldT d ts hu with ⟨_, h0⟩ | ⟨hdl, _⟩
    · exact h4 ts h0
    · have := lt_of_getElem? h1; rw [hR.len] at this; omega


/-! ## the simulation step -/

theorem waitAttempt_relW (s : St) (ms : WaitSt) (t : Nat) (a : TS) (p : Pred) (hR : RelW s ms)
    (ha : s.th[t]? = some a)
    (hca : ∀ e, CorrW ms.xposs s.cx t e a → ∃ seen, e = .wait (some p) seen ∧ ∀ w ∈ ms.xposs, w ∈ seen)
    (htidy : ms.disc = true → Tidy (waitAttempt s t p)) : RelW (waitAttempt s t p) ms := by
  have hinv := waitAttempt_inv s t a p hR.inv ha
  have hseen : ∀ e, CorrW ms.xposs s.cx t e a →
      ∃ seen, e = .wait (some p) seen ∧ s.x ∈ seen := by
    intro e he
    obtain ⟨seen, h1, h2⟩ := hca e he
    exact ⟨seen, h1, h2 _ hR.x⟩
  cases hev : p.eval s.x with
  | done =>
    simp only [waitAttempt, hev] at hinv htidy ⊢
    refine relW_move s ms t a _ s.bc hR ha hinv htidy ?_ (by intro q h; cases h) (by intro _ _ _; trivial)
    intro e he
    obtain ⟨seen, h1, h2⟩ := hseen e he
    subst h1
    refine ⟨some p, seen, rfl, p, rfl, ?_⟩
    rw [List.any_eq_true]; exact ⟨s.x, h2, by simp [hev]⟩
  | error =>
    simp only [waitAttempt, hev] at hinv htidy ⊢
    refine relW_move s ms t a _ s.bc hR ha hinv htidy ?_ (by intro q h; cases h) (by intro _ _ _; trivial)
    intro e he
    obtain ⟨seen, h1, h2⟩ := hseen e he
    subst h1
    refine ⟨some p, seen, rfl, p, rfl, ?_⟩
    rw [List.any_eq_true]; exact ⟨s.x, h2, by simp [hev]⟩
  | notyet =>
    simp only [waitAttempt, hev] at hinv htidy ⊢
    refine relW_move s ms t a _ _ hR ha hinv htidy ?_ (by intro q h; cases h) (by intro _ _ _; trivial)
    intro e he
    exact hca e he

theorem wait_sim_step (s : St) (e : Ev) (s' : St) (ms : WaitSt) (hR : RelW s ms)
    (hs : step s e = some s') :
    match Ev.obs e with
    | none => RelW s' ms
    | some o => ∃ ms', monWait.step ms o = some ms' ∧ RelW s' ms' := by
  have hinv' := step_inv s e s' hR.inv hs
  have htidy' : (∀ t k p, e ≠ .invHold t k p) → ms.disc = true → Tidy s' :=
    fun hne hd => step_tidy s e s' (hR.tidy hd) hs (fun t k p he => absurd he (hne t k p))
  cases e with
  | invHold t k p =>
    have hti : ms.disc = true → Prog.disciplined p = true → Tidy s' :=
      fun hd hp => step_tidy s _ s' (hR.tidy hd) hs (fun _ _ _ he => by cases he; exact hp)
    simp only [step] at hs; split at hs <;> try simp at hs
    simp only [Ev.obs]
    split at hs <;> simp at hs <;> subst hs
    · exact relW_invHold s ms _ p hR hinv' hti rfl (by intro xp; simp [CorrW])
        (by intro x saved v h; exact h) t _
    · rename_i hk
      exact relW_invHold s ms _ p hR hinv' hti rfl (by intro xp; simp [CorrW]; intro h; exact hk h)
        (by intro x saved v h; exact h) t _
  | holdCS t =>
    have ht := htidy' (by intro _ _ _ h; cases h)
    simp only [step] at hs; split at hs <;> simp at hs <;> subst hs
    · rename_i k p h
      exact relW_exec s ms t _ p _ hR h rfl hinv' ht
        (by intro e hs he; simp only [CorrW] at he ⊢; exact ⟨he.1, ⟨_, he.1⟩, he.2⟩)
        (fun _ => rfl) (by intro saved v x hs h; exact h)
    · rename_i p rt h
      exact relW_exec s ms t _ p _ hR h rfl hinv' ht
        (by intro e hs he; simp only [CorrW] at he ⊢; exact ⟨he, _, he⟩)
        (fun _ => rfl) (by intro saved v x hs h; exact h)
  | tryFail t =>
    have ht := htidy' (by intro _ _ _ h; cases h)
    simp only [step] at hs; split at hs <;> simp at hs; subst hs
    rename_i p h
    exact relW_move s ms t _ _ s.bc hR h hinv' ht
      (by intro e he; simp only [CorrW] at he ⊢; exact ⟨_, he.1⟩) (by intro q hq; cases hq)
      (by intro saved v hso; exact hso)
  | retHold t k ok =>
    have ht := htidy' (by intro _ _ _ h; cases h)
    simp only [step] at hs; split at hs <;> try simp at hs
    · obtain ⟨⟨hk, hok⟩, rfl⟩ := hs; rename_i k' hs' h
      subst hk; subst hok
      have hC := relW_finish s ms t _ (.done hs') true hR h hinv' ht
        (by intro e he; simp only [CorrW] at he; exact he.1)
        (by intro xp sv; simp only [CorrW]; exact Or.inl ⟨sv, rfl⟩) rfl
        (by intro saved v hso; simpa [SoloOK] using hso)
      obtain ⟨e, _, hm⟩ := hR.corr t _ h
      simp only [CorrW] at hm
      simp only [Ev.obs, monWait]
      cases k with
      | hold => exact ⟨_, rfl, hC⟩
      | «try» => exact ⟨_, rfl, hC⟩
      | maybe => exact absurd rfl hm.2
    · obtain ⟨⟨hk, hok⟩, rfl⟩ := hs; rename_i h
      subst hk; subst hok
      refine ⟨_, rfl, ?_⟩
      exact relW_finish s ms t _ (.done []) false hR h hinv' ht
        (by intro e he; simpa only [CorrW] using he)
        (by intro xp sv; simp only [CorrW]; exact Or.inl ⟨sv, rfl⟩) rfl
        (by intro saved v hso; simpa [SoloOK] using hso)
    · obtain ⟨⟨hk, hok⟩, rfl⟩ := hs; rename_i p h
      subst hk
      refine ⟨ms, rfl, ?_⟩
      exact relW_move s ms t _ _ s.bc hR h hinv' ht
        (by intro e he; simpa only [CorrW] using he) (by intro q hq; exact hq)
        (by intro saved v hso; exact hso)
    · obtain ⟨⟨hk, hok⟩, rfl⟩ := hs; rename_i hs' cb h
      subst hk
      refine ⟨ms, rfl, ?_⟩
      cases cb with
      | true =>
        simp only [if_true] at hinv' ht ⊢
        exact relW_move s ms t _ _ s.bc hR h hinv' ht
          (by intro e he; simp only [CorrW] at he ⊢; exact Or.inl he) (by intro q hq; cases hq)
          (by intro saved v hso; trivial)
      | false =>
        simp only [Bool.false_eq_true, if_false] at hinv' ht ⊢
        exact relW_move s ms t _ _ s.bc hR h hinv' ht
          (by intro e he; simpa only [CorrW] using he) (by intro q hq; cases hq)
          (by intro saved v hso; exact hso)
  | cbout t =>
    have ht := htidy' (by intro _ _ _ h; cases h)
    simp only [step] at hs; split at hs <;> simp at hs; subst hs
    rename_i hs' rt h
    refine ⟨_, rfl, ?_⟩
    refine relW_finish s ms t _ _ true hR h hinv' ht
      (by intro e he; simpa only [CorrW] using he) ?_ (by cases rt <;> rfl)
      (by intro saved v hso; simpa [SoloOK] using hso)
    intro xp sv
    cases rt with
    | true => simp only [if_true, CorrW]; exact Or.inl ⟨sv, rfl⟩
    | false => simp only [Bool.false_eq_true, if_false, CorrW]; exact ⟨sv, rfl⟩
  | bodyIn t => rw [step_bodyIn s s' t hs]; exact ⟨ms, rfl, hR⟩
  | bodyOut t => rw [step_bodyOut s s' t hs]; exact ⟨ms, rfl, hR⟩
  | invWait t p =>
    have ht := htidy' (by intro _ _ _ h; cases h)
    simp only [step] at hs; split at hs <;> try simp at hs
    simp only [Ev.obs, monWait]
    refine ⟨_, rfl, ?_⟩
    split at hs <;> simp at hs <;> subst hs
    · exact relW_invWait s ms _ _ hR hinv' ht rfl (by intro seen hsub; exact ⟨seen, rfl, hsub⟩)
    · exact relW_invWait s ms _ _ hR hinv' ht rfl (by intro seen hsub; exact ⟨none, seen, rfl, rfl⟩)
  | waitCS t =>
    have ht := htidy' (by intro _ _ _ h; cases h)
    simp only [step] at hs; split at hs <;> simp at hs; subst hs
    rename_i p h
    exact waitAttempt_relW s ms t _ p hR h (by intro e he; exact he) ht
  | wakeCS t =>
    have ht := htidy' (by intro _ _ _ h; cases h)
    simp only [step] at hs; split at hs <;> simp at hs
    obtain ⟨_, rfl⟩ := hs; rename_i p c h _
    exact waitAttempt_relW s ms t _ p hR h (by intro e he; exact he) ht
  | ctxRet t =>
    have ht := htidy' (by intro _ _ _ h; cases h)
    simp only [step] at hs; split at hs <;> simp at hs
    obtain ⟨hcx, rfl⟩ := hs; rename_i p h
    exact relW_move s ms t _ _ s.bc hR h hinv' ht
      (by intro e he
          obtain ⟨seen, h1, _⟩ := he
          exact ⟨some p, seen, h1, by simpa using hcx⟩)
      (by intro q hq; cases hq) (by intro _ _ _; trivial)
  | ctxTake t =>
    have ht := htidy' (by intro _ _ _ h; cases h)
    simp only [step] at hs; split at hs <;> simp at hs
    obtain ⟨hcx, rfl⟩ := hs; rename_i p c h
    exact relW_move s ms t _ _ s.bc hR h hinv' ht
      (by intro e he
          obtain ⟨seen, h1, _⟩ := he
          exact ⟨some p, seen, h1, by simpa using hcx⟩)
      (by intro q hq; cases hq) (by intro _ _ _; trivial)
  | retWait t r =>
    have ht := htidy' (by intro _ _ _ h; cases h)
    simp only [step] at hs; split at hs <;> simp at hs
    obtain ⟨hr, rfl⟩ := hs; rename_i r' h
    subst hr
    obtain ⟨e, he, hm⟩ := hR.corr t _ h
    obtain ⟨po, seen, h1, h2⟩ := hm
    subst h1
    have hmove : RelW { s with th := s.th.set t (.done []) } ms :=
      relW_move s ms t _ _ s.bc hR h hinv' ht
        (by intro e' he'
            obtain ⟨po', seen', h1', _⟩ := he'
            exact Or.inr ⟨po', seen', h1'⟩)
        (by intro q hq; cases hq) (by intro _ _ _; trivial)
    refine ⟨ms, ?_, hmove⟩
    simp only [monWait, he]
    cases r with
    | nil => obtain ⟨p, hp, ha⟩ := h2; subst hp; simp [ha]
    | err => obtain ⟨p, hp, ha⟩ := h2; subst hp; simp [ha]
    | canceled =>
      have : ms.cancelled.contains t = true := by rw [hR.cx]; exact h2
      cases po <;> (simp; simpa using this)
    | badarg => simp only at h2; subst h2; rfl
  | envCancel t =>
    simp only [step] at hs; split at hs <;> simp at hs; subst hs
    refine ⟨_, rfl, ?_⟩
    refine ⟨⟨hR.inv.bcwf, hR.inv.handles, hR.inv.parked⟩, hR.len, by simp [hR.cx], hR.tidy, ?_, hR.x,
      hR.pendx, hR.nset, hR.solo⟩
    intro u ts hu
    obtain ⟨e, he, hm⟩ := hR.corr u ts hu
    refine ⟨e, he, ?_⟩
    cases ts with
    | wRet r =>
      obtain ⟨po, seen, h1, h2⟩ := hm
      refine ⟨po, seen, h1, ?_⟩
      cases r with
      | canceled => simp only at h2 ⊢; simp; right; simpa using h2
      | nil => exact h2
      | err => exact h2
      | badarg => exact h2
    | mRan hs cb rt => cases cb <;> exact hm
    | holdInv k p => exact hm
    | mInv p rt => exact hm
    | holdRan k hs => exact hm
    | tryFailed => exact hm
    | done hs => exact hm
    | wInv p => exact hm
    | wParked p ch => exact hm
  | probe t k cl =>
    simp only [step] at hs; split at hs <;> try simp at hs
    split at hs <;> try simp at hs
    obtain ⟨_, rfl⟩ := hs
    exact ⟨ms, rfl, hR⟩
  | quiesce B =>
    simp only [step] at hs; split at hs <;> simp at hs
    rename_i hcond
    subst hs
    obtain ⟨hq, hB⟩ := hcond
    refine ⟨ms, ?_, hR⟩
    simp only [monWait]
    by_cases hc : (ms.disc && ms.nset == 0) = true
    · simp only [hc, if_true]
      cases hk : knownX ms.xposs with
      | none => rfl
      | some v =>
        simp only
        rw [if_pos]
        · rw [List.all_eq_true]
          intro c hcB
          rw [hB] at hcB
          simp only [pendingIds, List.mem_filter, List.mem_range] at hcB
          obtain ⟨hlt, hm⟩ := hcB
          cases hth : s.th[c]? with
          | none => simp [hth] at hm
          | some ts =>
            cases ts <;> simp [hth] at hm
            rename_i p ch
            obtain ⟨e, he, hce⟩ := hR.corr c _ hth
            obtain ⟨seen, h1, _⟩ := hce
            subst h1
            simp only [he]
            -- quiescent ⇒ the channel is open; disciplined ⇒ predicate not done
            have hopen : s.bc.closed ch = false := by
              unfold quiescent at hq
              rw [List.all_eq_true] at hq
              have := hq c (by simp [hlt])
              simp only [hth, TS.quiet] at this
              simp at this
              exact this.1
            simp at hc
            have hd := (hR.tidy hc.1).1
            have hev := ((hR.inv.parked c p ch hth).2 hd hopen)
            have hxv : s.x = v := knownX_spec _ _ hk _ hR.x
            rw [← hxv, hev]; rfl
    · simp only [hc]; rfl

end UtilModel.Broadcast
