import UtilModel.Broadcast.Proofs
import UtilModel.Broadcast.Monitors
/-!
# broadcast: simulation proof for the return-value / quiescence monitor `monWait`

`RelW s ms` relates a model state to a monitor state. Its core is the soundness of the monitor's
value tracking: the guarded variable `x` is one of `ms.xposs`, every value a pending body will assign
is in `ms.xposs`, every pending `Wait` has *seen* all of `ms.xposs` (so the value its critical
section reads is a seen one), and a *solo* assigning call pins `x` exactly once its body has run.
-/
namespace UtilModel.Broadcast
open UtilModel

def isPendSet : WEntry → Bool
  | .hold (some _) true => true
  | _ => false

/-- what the solo assigning call `d` (final value `v`, `xposs` before it `saved`) tells about `x` -/
def SoloOK (x : Nat) (saved : List Nat) (v : Nat) : TS → Prop
  | .holdInv _ _ => x ∈ saved
  | .mInv _ _ => x ∈ saved
  | .tryFailed => x ∈ saved
  | .holdRan _ _ => x = v
  | .mRan _ _ _ => x = v
  | _ => True

/-- monitor entry `e` describes call `t` in state `ts` -/
def CorrW (xposs cx : List Nat) (t : Nat) (e : WEntry) : TS → Prop
  | .holdInv k p => e = .hold (lastSet p) true ∧ k ≠ .maybe
  | .mInv p _ => e = .hold (lastSet p) true
  | .holdRan k _ => (∃ sv, e = .hold sv true) ∧ k ≠ .maybe
  | .tryFailed => ∃ sv, e = .hold sv true
  | .mRan _ false _ => ∃ sv, e = .hold sv true
  | .mRan _ true _ => ∃ sv, e = .hold sv false
  | .done _ => (∃ sv, e = .hold sv false) ∨ (∃ p seen, e = .wait p seen)
  | .wInv p => ∃ seen, e = .wait (some p) seen ∧ ∀ w ∈ xposs, w ∈ seen
  | .wParked p _ => ∃ seen, e = .wait (some p) seen ∧ ∀ w ∈ xposs, w ∈ seen
  | .wRet r => ∃ po seen, e = .wait po seen ∧
      (match r with
       | .nil => ∃ p, po = some p ∧ seen.any (fun v => p.eval v == .done) = true
       | .err => ∃ p, po = some p ∧ seen.any (fun v => p.eval v == .error) = true
       | .canceled => cx.contains t = true
       | .badarg => po = none)

structure RelW (s : St) (ms : WaitSt) : Prop where
  inv : Inv s
  len : ms.calls.length = s.th.length
  cx : ms.cancelled = s.cx
  tidy : ms.disc = true → Tidy s
  corr : ∀ (t : Nat) (ts : TS), s.th[t]? = some ts →
    ∃ e, ms.calls[t]? = some e ∧ CorrW ms.xposs s.cx t e ts
  x : s.x ∈ ms.xposs
  pendx : ∀ (t : Nat) (ts : TS) (p : Prog) (v : Nat), s.th[t]? = some ts →
    TS.pendingProg ts = some p → lastSet p = some v → v ∈ ms.xposs
  nset : ms.nset = ms.calls.countP isPendSet
  solo : ∀ (d : Nat) (saved : List Nat), ms.solo = some (d, saved) →
    ∃ v, ms.calls[d]? = some (.hold (some v) true) ∧ ms.nset = 1 ∧ (∀ w ∈ saved, w ∈ ms.xposs) ∧
      ∀ ts, s.th[d]? = some ts → SoloOK s.x saved v ts

theorem relW_init : RelW model.init monWait.init := by
  refine ⟨init_inv, rfl, rfl, fun _ => ⟨rfl, by intro t ts p h; simp [model] at h⟩, ?_, ?_, ?_, rfl, ?_⟩
  · intro t ts h; simp [model] at h
  · simp [model, monWait]
  · intro t ts p v h; simp [model] at h
  · intro d saved h; simp [monWait] at h

theorem knownX_spec (l : List Nat) (v : Nat) (h : knownX l = some v) : ∀ w ∈ l, w = v := by
  cases l with
  | nil => simp [knownX] at h
  | cons a r =>
    simp only [knownX] at h
    split at h <;> simp at h
    subst h
    rename_i hall
    intro w hw
    simp at hw
    rcases hw with hw | hw
    · exact hw
    · simp at hall; exact hall w hw

/-- with exactly one pending assigning entry, two distinct pending assigning entries are absurd -/
theorem one_pendset (calls : List WEntry) (d t : Nat) (ed et : WEntry) (h1 : calls.countP isPendSet = 1)
    (hd : calls[d]? = some ed) (ht : calls[t]? = some et) (pd : isPendSet ed = true)
    (pt : isPendSet et = true) : t = d := by
  apply Classical.byContradiction
  intro hne
  have := countP_ge_two isPendSet calls t d _ _ hne ht hd pt pd
  omega

/-! ## group A: a thread moves, nothing the monitor tracks changes -/

theorem relW_move (s : St) (ms : WaitSt) (t : Nat) (a b : TS) (bc : Bcast)
    (hR : RelW s ms) (ha : s.th[t]? = some a)
    (hinv : Inv { s with bc := bc, th := s.th.set t b })
    (htidy : ms.disc = true → Tidy { s with bc := bc, th := s.th.set t b })
    (hcorr : ∀ e, CorrW ms.xposs s.cx t e a → CorrW ms.xposs s.cx t e b)
    (hpp : ∀ p, TS.pendingProg b = some p → TS.pendingProg a = some p)
    (hsolo : ∀ saved v, SoloOK s.x saved v a → SoloOK s.x saved v b) :
    RelW { s with bc := bc, th := s.th.set t b } ms := by
  have old : ∀ (u : Nat) (ts : TS), (s.th.set t b)[u]? = some ts →
      (u = t ∧ ts = b) ∨ (u ≠ t ∧ s.th[u]? = some ts) :=
    fun u ts hu => getElem?_set_cases s.th t u b ts hu
  refine ⟨hinv, by simp [hR.len], hR.cx, htidy, ?_, hR.x, ?_, hR.nset, ?_⟩
  · intro u ts hu
    rcases old u ts hu with ⟨hut, hts⟩ | ⟨_, h0⟩
    · subst hut; subst hts
      obtain ⟨e, he, hm⟩ := hR.corr u a ha
      exact ⟨e, he, hcorr e hm⟩
    · exact hR.corr u ts h0
  · intro u ts p v hu hp hl
    rcases old u ts hu with ⟨hut, hts⟩ | ⟨_, h0⟩
    · subst hut; subst hts
      exact hR.pendx u a p v ha (hpp p hp) hl
    · exact hR.pendx u ts p v h0 hp hl
  · intro d saved hs
    obtain ⟨v, h1, h2, h3, h4⟩ := hR.solo d saved hs
    refine ⟨v, h1, h2, h3, ?_⟩
    intro ts hu
    rcases old d ts hu with ⟨hut, hts⟩ | ⟨_, h0⟩
    · subst hut; subst hts
      exact hsolo saved v (h4 a ha)
    · exact h4 ts h0


/-! ## monotonicity of the entry/thread correspondence -/

theorem corrW_mono (xp xp' cx : List Nat) (t : Nat) (e : WEntry) (ts : TS)
    (hsub : ∀ w ∈ xp', w ∈ xp) (h : CorrW xp cx t e ts) : CorrW xp' cx t e ts := by
  cases ts with
  | wInv p =>
    obtain ⟨seen, h1, h2⟩ := h
    exact ⟨seen, h1, fun w hw => h2 w (hsub w hw)⟩
  | wParked p ch =>
    obtain ⟨seen, h1, h2⟩ := h
    exact ⟨seen, h1, fun w hw => h2 w (hsub w hw)⟩
  | mRan hs cb rt => cases cb <;> exact h
  | holdInv k p => exact h
  | mInv p rt => exact h
  | holdRan k hs => exact h
  | tryFailed => exact h
  | done hs => exact h
  | wRet r => exact h

theorem any_cons_mono (f : Nat → Bool) (v : Nat) (l : List Nat) (h : l.any f = true) :
    (v :: l).any f = true := by
  simp only [List.any_cons, h, Bool.or_true]

theorem corrW_see (xp cx : List Nat) (t v : Nat) (e : WEntry) (ts : TS)
    (h : CorrW xp cx t e ts) : CorrW (v :: xp) cx t (e.see v) ts := by
  cases ts with
  | holdInv k p => obtain ⟨h1, h2⟩ := h; subst h1; exact ⟨rfl, h2⟩
  | mInv p rt => simp only [CorrW] at h ⊢; subst h; rfl
  | holdRan k hs =>
    obtain ⟨⟨sv, h1⟩, h2⟩ := h; subst h1; exact ⟨⟨sv, rfl⟩, h2⟩
  | tryFailed => obtain ⟨sv, h1⟩ := h; subst h1; exact ⟨sv, rfl⟩
  | mRan hs cb rt =>
    cases cb <;> (obtain ⟨sv, h1⟩ := h; subst h1; exact ⟨sv, rfl⟩)
  | done hs =>
    rcases h with ⟨sv, h1⟩ | ⟨p, seen, h1⟩
    · subst h1; exact Or.inl ⟨sv, rfl⟩
    · subst h1; exact Or.inr ⟨p, v :: seen, rfl⟩
  | wInv p =>
    obtain ⟨seen, h1, h2⟩ := h; subst h1
    refine ⟨v :: seen, rfl, ?_⟩
    intro w hw; simp at hw ⊢
    rcases hw with hw | hw
    · exact Or.inl hw
    · exact Or.inr (h2 w hw)
  | wParked p ch =>
    obtain ⟨seen, h1, h2⟩ := h; subst h1
    refine ⟨v :: seen, rfl, ?_⟩
    intro w hw; simp at hw ⊢
    rcases hw with hw | hw
    · exact Or.inl hw
    · exact Or.inr (h2 w hw)
  | wRet r =>
    obtain ⟨po, seen, h1, h2⟩ := h; subst h1
    refine ⟨po, v :: seen, rfl, ?_⟩
    cases r with
    | nil => obtain ⟨p, hp, ha⟩ := h2; exact ⟨p, hp, any_cons_mono _ v seen ha⟩
    | err => obtain ⟨p, hp, ha⟩ := h2; exact ⟨p, hp, any_cons_mono _ v seen ha⟩
    | canceled => exact h2
    | badarg => exact h2

theorem isPendSet_see (v : Nat) (e : WEntry) : isPendSet (e.see v) = isPendSet e := by
  cases e <;> rfl

theorem countP_map_see (v : Nat) (l : List WEntry) :
    (l.map (WEntry.see v)).countP isPendSet = l.countP isPendSet := by
  induction l with
  | nil => rfl
  | cons a r ih => simp [List.countP_cons, isPendSet_see, ih]

/-! ## group B: a body runs -/

theorem relW_exec (s : St) (ms : WaitSt) (t : Nat) (a : TS) (p : Prog) (mk : List Nat → TS)
    (hR : RelW s ms) (ha : s.th[t]? = some a) (hpa : TS.pendingProg a = some p)
    (hinv : Inv (runBody s t p mk)) (htidy : ms.disc = true → Tidy (runBody s t p mk))
    (hcorr : ∀ e hs, CorrW ms.xposs s.cx t e a →
      e = .hold (lastSet p) true ∧ CorrW ms.xposs s.cx t e (mk hs))
    (hmkp : ∀ hs, TS.pendingProg (mk hs) = none)
    (hsoloB : ∀ saved v x hs, x = v → SoloOK x saved v (mk hs)) :
    RelW (runBody s t p mk) ms := by
  have hx := exec_x p s.x s.bc
  obtain ⟨et, het, hmt⟩ := hR.corr t a ha
  obtain ⟨hete, _⟩ := hcorr et [] hmt
  have old : ∀ (u : Nat) (ts : TS), (s.th.set t (mk (exec p s.x s.bc).2.2))[u]? = some ts →
      (u = t ∧ ts = mk (exec p s.x s.bc).2.2) ∨ (u ≠ t ∧ s.th[u]? = some ts) :=
    fun u ts hu => getElem?_set_cases s.th t u _ ts hu
  -- if another call is the solo assigner, this body assigns nothing
  have keepx : ∀ (d : Nat) (v : Nat), ms.calls[d]? = some (.hold (some v) true) → ms.nset = 1 → d ≠ t →
      (exec p s.x s.bc).1 = s.x := by
    intro d v hd hn hdt
    rw [hx]
    cases hl : lastSet p with
    | none => rfl
    | some w =>
      exfalso
      rw [hl] at hete
      have := one_pendset ms.calls d t _ _ (by rw [← hR.nset]; exact hn) hd (by rw [het, hete]) rfl rfl
      exact hdt this.symm
  unfold runBody
  refine ⟨by simpa [runBody] using hinv, by simp [hR.len], hR.cx,
    by simpa [runBody] using htidy, ?_, ?_, ?_, hR.nset, ?_⟩
  · intro u ts hu
    simp only at hu
    rcases old u ts hu with ⟨hut, hts⟩ | ⟨_, h0⟩
    · subst hut; subst hts
      exact ⟨et, het, (hcorr et _ hmt).2⟩
    · exact hR.corr u ts h0
  · simp only
    rw [hx]
    cases hl : lastSet p with
    | none => exact hR.x
    | some v => exact hR.pendx t a p v ha hpa hl
  · intro u ts q v hu hq hl
    simp only at hu
    rcases old u ts hu with ⟨hut, hts⟩ | ⟨_, h0⟩
    · subst hts; rw [hmkp] at hq; cases hq
    · exact hR.pendx u ts q v h0 hq hl
  · intro d saved hs
    obtain ⟨v, h1, h2, h3, h4⟩ := hR.solo d saved hs
    refine ⟨v, h1, h2, h3, ?_⟩
    intro ts hu
    simp only at hu ⊢
    rcases old d ts hu with ⟨hut, hts⟩ | ⟨hdt, h0⟩
    · subst hut; subst hts
      apply hsoloB
      rw [hx]
      rw [het] at h1
      rw [hete] at h1
      simp at h1
      rw [h1]; rfl
    · rw [keepx d v h1 h2 hdt]; exact h4 ts h0

/-! ## group C: a lock-and-call is over -/

theorem relW_finish (s : St) (ms : WaitSt) (t : Nat) (a b : TS) (ran : Bool)
    (hR : RelW s ms) (ha : s.th[t]? = some a)
    (hinv : Inv { s with th := s.th.set t b })
    (htidy : ms.disc = true → Tidy { s with th := s.th.set t b })
    (hca : ∀ e, CorrW ms.xposs s.cx t e a → ∃ sv, e = .hold sv true)
    (hcb : ∀ xp sv, CorrW xp s.cx t (.hold sv false) b)
    (hpa : TS.pendingProg a = none) (hpb : TS.pendingProg b = none)
    (hsa : ∀ saved v, SoloOK s.x saved v a → if ran then s.x = v else s.x ∈ saved) :
    RelW { s with th := s.th.set t b } (ms.finish t ran) := by
  obtain ⟨et, het, hmt⟩ := hR.corr t a ha
  obtain ⟨sv, hsv⟩ := hca et hmt
  subst hsv
  have hlt : t < ms.calls.length := lt_of_getElem? het
  have old : ∀ (u : Nat) (ts : TS), (s.th.set t b)[u]? = some ts →
      (u = t ∧ ts = b) ∨ (u ≠ t ∧ s.th[u]? = some ts) :=
    fun u ts hu => getElem?_set_cases s.th t u b ts hu
  cases sv with
  | none =>
    have hfin : ms.finish t ran = { ms with calls := ms.calls.set t (.hold none false) } := by
      simp [WaitSt.finish, het]
    rw [hfin]
    refine ⟨hinv, by simp [hR.len], hR.cx, htidy, ?_, hR.x, ?_, ?_, ?_⟩
    · intro u ts hu
      rcases old u ts hu with ⟨hut, hts⟩ | ⟨hut, h0⟩
      · subst hut; subst hts
        exact ⟨.hold none false, by simp [hlt], hcb _ _⟩
      · obtain ⟨e, he, hm⟩ := hR.corr u ts h0
        exact ⟨e, by simp only; rw [getElem?_set_ne' _ _ _ _ (fun h => hut h.symm)]; exact he, hm⟩
    · intro u ts q v hu hq hl
      rcases old u ts hu with ⟨hut, hts⟩ | ⟨_, h0⟩
      · subst hts; rw [hpb] at hq; cases hq
      · exact hR.pendx u ts q v h0 hq hl
    · have h := countP_set isPendSet ms.calls t _ (.hold none false) het
      simp [isPendSet] at h
      simp only; rw [h]; exact hR.nset
    · intro d saved hs
      obtain ⟨v, h1, h2, h3, h4⟩ := hR.solo d saved hs
      have hdt : t ≠ d := by intro h; subst h; rw [het] at h1; cases h1
      refine ⟨v, by simp only; rw [getElem?_set_ne' _ _ _ _ hdt]; exact h1, h2, h3, ?_⟩
      intro ts hu
      rcases old d ts hu with ⟨hut, _⟩ | ⟨_, h0⟩
      · exact absurd hut.symm hdt
      · exact h4 ts h0
  | some v =>
    -- the new set of possible values is contained in the old one, and contains x
    have hcnt := countP_set isPendSet ms.calls t _ (.hold (some v) false) het
    simp [isPendSet] at hcnt
    have hns := hR.nset
    have key : ∀ xp', (ms.finish t ran).xposs = xp' → (∀ w ∈ xp', w ∈ ms.xposs) ∧ s.x ∈ xp' ∧
        (∀ (u : Nat) (ts : TS) (q : Prog) (v' : Nat), u ≠ t → s.th[u]? = some ts →
          TS.pendingProg ts = some q → lastSet q = some v' → v' ∈ xp') := by
      intro xp' hxp
      simp only [WaitSt.finish, het] at hxp
      cases hsolo : ms.solo with
      | none =>
        simp [hsolo] at hxp; subst hxp
        exact ⟨fun w h => h, hR.x, fun u ts q v' _ h0 hq hl => hR.pendx u ts q v' h0 hq hl⟩
      | some ds =>
        obtain ⟨d, saved⟩ := ds
        obtain ⟨v0, g1, g2, g3, g4⟩ := hR.solo d saved hsolo
        by_cases hdt : d = t
        · subst hdt
          rw [het] at g1; simp at g1; subst g1
          have hso := hsa saved v (g4 a ha)
          -- no other pending assigning body
          have noother : ∀ (u : Nat) (ts : TS) (q : Prog) (v' : Nat), u ≠ d → s.th[u]? = some ts →
              TS.pendingProg ts = some q → lastSet q = some v' → False := by
            intro u ts q v' hud h0 hq hl
            obtain ⟨e, he, hm⟩ := hR.corr u ts h0
            have heq : e = .hold (some v') true := by
              cases ts <;> simp [TS.pendingProg] at hq
              · subst hq; simp only [CorrW] at hm; rw [hm.1, hl]
              · subst hq; simp only [CorrW] at hm; rw [hm, hl]
            subst heq
            exact hud (one_pendset ms.calls d u _ _ (by rw [← hns]; exact g2) het he rfl rfl)
          cases ran with
          | true =>
            simp [hsolo] at hxp; subst hxp
            simp at hso
            refine ⟨?_, by simp [hso], fun u ts q v' hu h0 hq hl => (noother u ts q v' hu h0 hq hl).elim⟩
            intro w hw; simp at hw; subst hw; rw [← hso]; exact hR.x
          | false =>
            simp [hsolo] at hxp; subst hxp
            simp at hso
            exact ⟨g3, hso, fun u ts q v' hu h0 hq hl => (noother u ts q v' hu h0 hq hl).elim⟩
        · simp [hsolo, hdt] at hxp; subst hxp
          exact ⟨fun w h => h, hR.x, fun u ts q v' _ h0 hq hl => hR.pendx u ts q v' h0 hq hl⟩
    obtain ⟨k1, k2, k3⟩ := key _ rfl
    have hcalls : (ms.finish t ran).calls = ms.calls.set t (.hold (some v) false) := by
      simp [WaitSt.finish, het]
    have hnset : (ms.finish t ran).nset = ms.nset - 1 := by simp [WaitSt.finish, het]
    have hsolo' : (ms.finish t ran).solo = none := by simp [WaitSt.finish, het]
    have hcx : (ms.finish t ran).cancelled = ms.cancelled := by simp [WaitSt.finish, het]
    have hdisc : (ms.finish t ran).disc = ms.disc := by simp [WaitSt.finish, het]
    refine ⟨hinv, by rw [hcalls]; simp [hR.len], by rw [hcx]; exact hR.cx,
      by rw [hdisc]; exact htidy, ?_, k2, ?_, ?_, ?_⟩
    · intro u ts hu
      rw [hcalls]
      rcases old u ts hu with ⟨hut, hts⟩ | ⟨hut, h0⟩
      · subst hut; subst hts
        exact ⟨.hold (some v) false, by simp [hlt], hcb _ _⟩
      · obtain ⟨e, he, hm⟩ := hR.corr u ts h0
        exact ⟨e, by rw [getElem?_set_ne' _ _ _ _ (fun h => hut h.symm)]; exact he,
          corrW_mono _ _ _ _ _ _ k1 hm⟩
    · intro u ts q v' hu hq hl
      rcases old u ts hu with ⟨hut, hts⟩ | ⟨hut, h0⟩
      · subst hts; rw [hpb] at hq; cases hq
      · exact k3 u ts q v' hut h0 hq hl
    · rw [hnset, hcalls]; omega
    · intro d saved hs; rw [hsolo'] at hs; cases hs

end UtilModel.Broadcast
