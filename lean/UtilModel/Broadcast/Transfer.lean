import UtilModel.Core.LTSHash
import UtilModel.Broadcast.Lock
/-!
# Broadcast — end-to-end transfer

If the driver's trace-inclusion decision accepts a history recorded from the Go implementation, the
property monitor accepts that history: composition of the checker's soundness theorem
(`accepts_sound` / `acceptsH_sound`) with this package's observable-form property theorem.
-/
namespace UtilModel

theorem C03_accepted (cap fuel : Nat) (h : List Broadcast.Obs)
    (ha : Broadcast.lmodel.acceptsH cap fuel h = true) : Broadcast.monC03L.accepts h = true :=
  acceptedH_satisfies Broadcast.lmodel (fun h => Broadcast.monC03L.accepts h = true)
    Broadcast.C03_obs_l cap fuel h ha

end UtilModel
