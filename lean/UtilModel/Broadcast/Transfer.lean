import UtilModel.Core.LTSHash
import UtilModel.Core.LTSComplete
import UtilModel.Broadcast.Lock
import UtilModel.Broadcast.Quot
/-!
# Broadcast — end-to-end transfer

If the driver's trace-inclusion decision accepts a history recorded from the Go implementation, the
property monitor accepts that history: composition of the checker's soundness theorem
(`accepts_sound` / `acceptsH_sound`) with this package's observable-form property theorem.
-/
namespace UtilModel

theorem C03_accepted (cap fuel : Nat) (h : List Broadcast.Obs)
    (ha : Broadcast.lmodel.acceptsH cap fuel h = true) : Broadcast.monC03L.accepts h = true :=
  acceptedH_satisfies Broadcast.lmodel (fun h => Broadcast.monC03L.accepts h = true)
    Broadcast.C03_obs_l cap fuel h ha

/-! ## completeness of the candidate lists

`complete_broadcast` / `complete_broadcast_core`: every enabled internal event is in `cands s` and
every enabled observable event is in `evsOf s o`, for the layered model the driver checks against and
for the core model.

`reject_sound_broadcast`: the state equality the checker uses (`instBEqLSt`, equality of `St.norm` —
channel ids up to closed/open, a waiter parked on a closed channel = a waiter at the top of its loop —
and of the lock) is a deliberate quotient, not the real equality, so `rejectH_sound` does not apply;
`Broadcast/Quot.lean` proves that it is an equivalence compatible with the hash and a bisimulation on
reachable states of `lmodel`, which is what `rejectH_sound_quot` needs. There is no such statement for
the core model `Broadcast.model` (`Broadcast.core_not_quot`); the driver does not use it. -/

theorem Broadcast.mem_internalCands (n t : Nat) (e : Broadcast.Ev) (ht : t < n)
    (he : e ∈ [Broadcast.Ev.holdCS t, .tryFail t, .waitCS t, .wakeCS t, .ctxRet t, .ctxTake t]) :
    e ∈ Broadcast.internalCands n := by
  unfold Broadcast.internalCands
  exact List.mem_flatMap.mpr ⟨t, List.mem_range.mpr ht, he⟩

theorem Broadcast.Ev.obs_ev (e : Broadcast.Ev) (o : Broadcast.Obs) (h : e.obs = some o) : o.ev = e := by
  cases e <;> simp [Broadcast.Ev.obs] at h <;> subst h <;> rfl

theorem Broadcast.cands_complete (s s' : Broadcast.St) (e : Broadcast.Ev)
    (hs : Broadcast.step s e = some s') (ho : e.obs = none) :
    e ∈ Broadcast.internalCands s.th.length := by
  cases e <;> simp [Broadcast.Ev.obs] at ho <;> simp only [Broadcast.step] at hs
  all_goals
    split at hs <;> try simp at hs
    all_goals
      rename_i hth
      have hlt := (List.getElem?_eq_some_iff.mp hth).1
      refine Broadcast.mem_internalCands _ _ _ hlt ?_
      simp

/-- the core model (bodies atomic, no mutex) -/
theorem complete_broadcast_core : Broadcast.model.Complete :=
  ⟨fun s e s' hs ho => Broadcast.cands_complete s s' e hs ho,
   fun _ e _ o _ ho => by simp [Broadcast.model, Broadcast.Ev.obs_ev e o ho]⟩

/-- the layered model the driver checks against -/
theorem complete_broadcast : Broadcast.lmodel.Complete := by
  refine ⟨?_, fun _ e _ o _ ho => by simp [Broadcast.lmodel, Broadcast.Ev.obs_ev e o ho]⟩
  intro s e s' hs ho
  change Broadcast.lstep s e = some s' at hs
  unfold Broadcast.lstep at hs
  split at hs
  · rename_i l' c' _ hc
    exact Broadcast.cands_complete s.core c' e hc ho
  · simp at hs

theorem quotok_broadcast : Broadcast.lmodel.QuotOK := Broadcast.quotok

/-- **A REJECT of the Broadcast correspondence is about the model**: when the driver's run fails at
an observable without having hit the exploration bounds, no run of the layered model projects to
the recorded history. -/
theorem reject_sound_broadcast (cap fuel : Nat) (h : List Broadcast.Obs) (i : Nat)
    (hfail : (Broadcast.lmodel.accRunH cap fuel [Broadcast.lmodel.init] h 0 false 1).failedAt = some i)
    (htr : (Broadcast.lmodel.accRunH cap fuel [Broadcast.lmodel.init] h 0 false 1).truncated = false) :
    ¬ ∃ es s, Broadcast.lmodel.run Broadcast.lmodel.init es = some s ∧
      es.filterMap Broadcast.lmodel.obs = h :=
  rejectH_sound_quot Broadcast.lmodel complete_broadcast quotok_broadcast cap fuel h i hfail htr

end UtilModel
