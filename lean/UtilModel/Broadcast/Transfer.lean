import UtilModel.Core.LTSHash
import UtilModel.Core.LTSComplete
import UtilModel.Broadcast.Lock
/-!
# Broadcast — end-to-end transfer

If the driver's trace-inclusion decision accepts a history recorded from the Go implementation, the
property monitor accepts that history: composition of the checker's soundness theorem
(`accepts_sound` / `acceptsH_sound`) with this package's observable-form property theorem.
-/
namespace UtilModel

theorem C03_accepted (cap fuel : Nat) (h : List Broadcast.Obs)
    (ha : Broadcast.lmodel.acceptsH cap fuel h = true) : Broadcast.monC03L.accepts h = true :=
  acceptedH_satisfies Broadcast.lmodel (fun h => Broadcast.monC03L.accepts h = true)
    Broadcast.C03_obs_l cap fuel h ha

/-! ## completeness of the candidate lists

`complete_broadcast` / `complete_broadcast_core`: every enabled internal event is in `cands s` and
every enabled observable event is in `evsOf s o`, for the layered model the driver checks against and
for the core model.

There is no `reject_sound_broadcast` here: `rejectH_sound` needs `LawfulBEq LSt`, and the state
equality the checker uses (`instBEqLSt`, equality of `St.norm`: channel ids up to closed/open) is a
deliberate quotient, not the real equality. The REJECT direction for this model needs a version of
`rejectH_sound` for an equivalence that is a bisimulation on well-formed states. -/

theorem Broadcast.mem_internalCands (n t : Nat) (e : Broadcast.Ev) (ht : t < n)
    (he : e ∈ [Broadcast.Ev.holdCS t, .tryFail t, .waitCS t, .wakeCS t, .ctxRet t, .ctxTake t]) :
    e ∈ Broadcast.internalCands n := by
  unfold Broadcast.internalCands
  exact List.mem_flatMap.mpr ⟨t, List.mem_range.mpr ht, he⟩

theorem Broadcast.Ev.obs_ev (e : Broadcast.Ev) (o : Broadcast.Obs) (h : e.obs = some o) : o.ev = e := by
  cases e <;> simp [Broadcast.Ev.obs] at h <;> subst h <;> rfl

theorem Broadcast.cands_complete (s s' : Broadcast.St) (e : Broadcast.Ev)
    (hs : Broadcast.step s e = some s') (ho : e.obs = none) :
    e ∈ Broadcast.internalCands s.th.length := by
  cases e <;> simp [Broadcast.Ev.obs] at ho <;> simp only [Broadcast.step] at hs
  all_goals
    split at hs <;> try simp at hs
    all_goals
      rename_i hth
      have hlt := (List.getElem?_eq_some_iff.mp hth).1
      refine Broadcast.mem_internalCands _ _ _ hlt ?_
      simp

/-- the core model (bodies atomic, no mutex) -/
theorem complete_broadcast_core : Broadcast.model.Complete :=
  ⟨fun s e s' hs ho => Broadcast.cands_complete s s' e hs ho,
   fun _ e _ o _ ho => by simp [Broadcast.model, Broadcast.Ev.obs_ev e o ho]⟩

/-- the layered model the driver checks against -/
theorem complete_broadcast : Broadcast.lmodel.Complete := by
  refine ⟨?_, fun _ e _ o _ ho => by simp [Broadcast.lmodel, Broadcast.Ev.obs_ev e o ho]⟩
  intro s e s' hs ho
  change Broadcast.lstep s e = some s' at hs
  unfold Broadcast.lstep at hs
  split at hs
  · rename_i l' c' _ hc
    exact Broadcast.cands_complete s.core c' e hc ho
  · simp at hs
end UtilModel
