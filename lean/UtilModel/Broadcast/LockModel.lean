import UtilModel.Broadcast.Model
import UtilModel.Broadcast.Monitors
/-!
# broadcast.Broadcast — the mutex: callback bodies never overlap

`Model.lean` treats a callback body as one atomic event and does not say *who holds the mutex*.
This file layers the mutex on top of it: `LSt` = core state + `lock`, the call whose body is in
progress and whether its atomic effect has happened yet. A body of call `t` is

    cbin t   (observable, takes the mutex)
    holdCS t / waitCS t / wakeCS t   (the one atomic effect of the body, as in the core model)
    cbend t  (observable, the mutex is given back)

and no other body can start in between; the call itself cannot return, fail its TryLock, or take a
`select` branch while its own body is in progress (only `HoldLockMaybeAsync` may return while its
body runs in another goroutine). The harness logs `cbin`/`cbend` from inside the callbacks, which are
harness code, so an implementation that runs a body without the mutex produces a history that the
exclusion monitor `monExcl` rejects.

The theorems are in `Lock.lean`: every run of the layered model is a run of the core model
(`lrun_core`), and its observable traces are accepted by `monC03L = monC03 × monExcl` (`C03_obs_l`).
The driver decides inclusion in the layered model.
-/
namespace UtilModel.Broadcast
open UtilModel

structure LSt where
  core : St := {}
  /-- the call whose body is in progress, and whether its atomic effect has happened -/
  lock : Option (Nat × Bool) := none
deriving DecidableEq, Repr

instance (priority := high) instBEqLSt : BEq LSt := ⟨fun a b => a.core.norm == b.core.norm && a.lock == b.lock⟩
instance instHashableLSt : Hashable LSt := ⟨fun s => mixHash (hash s.core.norm) (hash s.lock)⟩

/-- call `t` is not inside its own body -/
def lockFree (l : Option (Nat × Bool)) (t : Nat) : Bool :=
  match l with
  | some (u, _) => u != t
  | none => true

/-- the lock discipline: is `e` allowed now, and what is the lock afterwards? -/
def lockStep (l : Option (Nat × Bool)) : Ev → Option (Option (Nat × Bool))
  | .bodyIn t => if l = none then some (some (t, false)) else none
  | .holdCS t => if l = some (t, false) then some (some (t, true)) else none
  | .waitCS t => if l = some (t, false) then some (some (t, true)) else none
  | .wakeCS t => if l = some (t, false) then some (some (t, true)) else none
  | .bodyOut t => if l = some (t, true) then some none else none
  | .retHold t k _ => if k = .maybe ∨ lockFree l t = true then some l else none
  | .tryFail t => if lockFree l t then some l else none
  | .ctxRet t => if lockFree l t then some l else none
  | .ctxTake t => if lockFree l t then some l else none
  | .retWait t _ => if lockFree l t then some l else none
  | .quiesce _ => if l = none then some l else none
  | _ => some l

def lstep (ls : LSt) (e : Ev) : Option LSt :=
  match lockStep ls.lock e, step ls.core e with
  | some l', some c' => some ⟨c', l'⟩
  | _, _ => none

def lmodel : OLTS LSt Ev Obs where
  init := {}
  step := lstep
  obs := Ev.obs
  cands := fun s => internalCands s.core.th.length
  evsOf := fun _ o => [o.ev]

/-- **the bodies of one Broadcast never overlap**: `cbin t` only when no body is in progress,
`cbend t` only by the call whose body is in progress -/
def monExcl : ObsMonitor Obs (Option Nat) where
  init := none
  step := fun cur o =>
    match o with
    | .bodyIn t => if cur = none then some (some t) else none
    | .bodyOut t => if cur = some t then some none else none
    | _ => some cur

/-- C03 with the exclusion clause -/
def monC03L : ObsMonitor Obs ((ProbeSt × WaitSt) × Option Nat) := monProd monC03 monExcl

end UtilModel.Broadcast
