import UtilModel.Broadcast.Props
import UtilModel.Broadcast.LockModel
/-!
# broadcast.Broadcast — the mutex: theorems about the layered model of `LockModel.lean`
-/
namespace UtilModel.Broadcast
open UtilModel

theorem lstep_core (ls ls' : LSt) (e : Ev) (h : lstep ls e = some ls') :
    step ls.core e = some ls'.core ∧ lockStep ls.lock e = some ls'.lock := by
  unfold lstep at h
  split at h <;> simp at h
  rename_i l' c' h1 h2
  subst h
  exact ⟨h2, h1⟩

/-- **every run of the layered model is a run of the core model** (same events), so every theorem
about core runs — `handle_closed_iff`, `wait_nil`, `wait_parked_open_false`, … — holds of it -/
theorem lrun_core (es : List Ev) (ls0 ls : LSt) (h : lmodel.run ls0 es = some ls) :
    model.run ls0.core es = some ls.core := by
  induction es generalizing ls0 with
  | nil => simp [OLTS.run] at h ⊢; rw [h]
  | cons e es ih =>
    simp only [OLTS.run] at h ⊢
    cases hst : lmodel.step ls0 e with
    | none => simp [hst] at h
    | some ls1 =>
      simp [hst] at h
      have := (lstep_core ls0 ls1 e hst).1
      have hc : model.step ls0.core e = some ls1.core := this
      simp [hc]
      exact ih ls1 h

/-! ## the exclusion clause as a monitor -/

theorem excl_sim_step (ls : LSt) (e : Ev) (ls' : LSt) (cur : Option Nat)
    (hR : cur = ls.lock.map (·.1)) (hs : lstep ls e = some ls') :
    match Ev.obs e with
    | none => cur = ls'.lock.map (·.1)
    | some o => ∃ cur', monExcl.step cur o = some cur' ∧ cur' = ls'.lock.map (·.1) := by
  have hl := (lstep_core ls ls' e hs).2
  cases e with
  | bodyIn t =>
    simp only [lockStep] at hl; split at hl <;> simp at hl
    rename_i hn
    simp only [Ev.obs, monExcl]
    rw [hn] at hR; simp at hR
    exact ⟨some t, by simp [hR], by rw [← hl]; rfl⟩
  | bodyOut t =>
    simp only [lockStep] at hl; split at hl <;> simp at hl
    rename_i hn
    simp only [Ev.obs, monExcl]
    rw [hn] at hR; simp at hR
    exact ⟨none, by simp [hR], by rw [← hl]; rfl⟩
  | holdCS t =>
    simp only [lockStep] at hl; split at hl <;> simp at hl
    rename_i hn
    simp only [Ev.obs]; rw [hR, hn, ← hl]; rfl
  | waitCS t =>
    simp only [lockStep] at hl; split at hl <;> simp at hl
    rename_i hn
    simp only [Ev.obs]; rw [hR, hn, ← hl]; rfl
  | wakeCS t =>
    simp only [lockStep] at hl; split at hl <;> simp at hl
    rename_i hn
    simp only [Ev.obs]; rw [hR, hn, ← hl]; rfl
  | retHold t k ok =>
    simp only [lockStep] at hl; split at hl <;> simp at hl
    exact ⟨cur, rfl, by rw [hR, hl]⟩
  | tryFail t =>
    simp only [lockStep] at hl; split at hl <;> simp at hl
    simp only [Ev.obs]; rw [hR, hl]
  | ctxRet t =>
    simp only [lockStep] at hl; split at hl <;> simp at hl
    simp only [Ev.obs]; rw [hR, hl]
  | ctxTake t =>
    simp only [lockStep] at hl; split at hl <;> simp at hl
    simp only [Ev.obs]; rw [hR, hl]
  | retWait t r =>
    simp only [lockStep] at hl; split at hl <;> simp at hl
    exact ⟨cur, rfl, by rw [hR, hl]⟩
  | quiesce B =>
    simp only [lockStep] at hl; split at hl <;> simp at hl
    exact ⟨cur, rfl, by rw [hR, hl]⟩
  | invHold t k p => simp only [lockStep] at hl; simp at hl; exact ⟨cur, rfl, by rw [hR, hl]⟩
  | cbout t => simp only [lockStep] at hl; simp at hl; exact ⟨cur, rfl, by rw [hR, hl]⟩
  | invWait t p => simp only [lockStep] at hl; simp at hl; exact ⟨cur, rfl, by rw [hR, hl]⟩
  | envCancel t => simp only [lockStep] at hl; simp at hl; exact ⟨cur, rfl, by rw [hR, hl]⟩
  | probe t k c => simp only [lockStep] at hl; simp at hl; exact ⟨cur, rfl, by rw [hR, hl]⟩

/-- **C03, body exclusion (observable form).** In every observable trace of the layered model no
`cbin` falls between a `cbin t` and its `cbend t`: the callback bodies and predicate evaluations of
one Broadcast never overlap. -/
theorem C03_excl_obs (es : List Ev) (ls : LSt) (h : lmodel.run lmodel.init es = some ls) :
    monExcl.accepts (es.filterMap lmodel.obs) = true :=
  monitor_accepts_of_simulation lmodel monExcl (fun ls cur => cur = ls.lock.map (·.1)) rfl
    (fun ls e ls' cur hR hs => by
      have h := excl_sim_step ls e ls' cur hR hs
      cases e <;> exact h) es ls h

/-- **C03 (observable form, model with the mutex).** Every observable trace of the layered model is
accepted by `monC03L`, the monitor the driver evaluates on implementation histories. -/
theorem C03_obs_l (es : List Ev) (ls : LSt) (h : lmodel.run lmodel.init es = some ls) :
    monC03L.accepts (es.filterMap lmodel.obs) = true := by
  unfold monC03L
  rw [monProd_accepts, C03_excl_obs es ls h]
  have hc := lrun_core es lmodel.init ls h
  have := C03_obs es ls.core hc
  simp only [Bool.and_true]
  exact this

/-- the mutex is held exactly between `cbin` and `cbend`: while a body is in progress, no other
call's atomic effect can happen -/
theorem body_exclusive (ls ls' : LSt) (t u : Nat) (b : Bool) (hl : ls.lock = some (t, b)) (hut : u ≠ t)
    (e : Ev) (he : e = .holdCS u ∨ e = .waitCS u ∨ e = .wakeCS u ∨ e = .bodyIn u) :
    lstep ls e ≠ some ls' := by
  intro hs
  have h := (lstep_core ls ls' e hs).2
  rw [hl] at h
  rcases he with he | he | he | he <;> subst he <;> simp [lockStep] at h
  all_goals exact hut h.1.1.symm

/-- a run through the layered model: a waiter samples, a body sets and broadcasts, the waiter
re-checks — each body bracketed by `cbin`/`cbend` -/
example : (lmodel.run lmodel.init
    [.invWait 0 (some (.ge 2)), .bodyIn 0, .waitCS 0, .bodyOut 0,
     .invHold 1 .hold [.set 2, .bcast], .bodyIn 1, .holdCS 1, .bodyOut 1, .retHold 1 .hold true,
     .bodyIn 0, .wakeCS 0, .bodyOut 0, .retWait 0 .nil, .quiesce []]).isSome = true := by
  decide

/-- two bodies cannot be open at once -/
example : (lmodel.run lmodel.init
    [.invHold 0 .hold [.get], .invHold 1 .maybe [.bcast], .bodyIn 0, .bodyIn 1]).isSome = false := by
  decide

end UtilModel.Broadcast
