import UtilModel.Broadcast.Model
import UtilModel.Broadcast.Util
/-!
# broadcast.Broadcast — invariants and helper lemmas

* `exec_spec`: what one critical-section body does to the channel generations,
* `Inv`: the inductive invariant (well-formed generations, handles allocated, **parked invariant**:
  a `Wait` parked on an open channel has a predicate that is not yet done, as long as every body that
  changed `x` also broadcast),
* `step_closed_iff`: one step closes an allocated channel iff it is a body that broadcasts.
-/
namespace UtilModel.Broadcast
open UtilModel

/-! ## one body -/

theorem exec_spec (p : Prog) (x : Nat) (bc : Bcast) (hwf : bc.WF) :
    (exec p x bc).2.1.WF ∧ bc.next ≤ (exec p x bc).2.1.next ∧
    (∀ c, c < bc.next → (exec p x bc).2.1.closed c = (bc.closed c || p.hasBcast)) ∧
    (∀ k ch, (exec p x bc).2.2[k]? = some ch →
        ch < (exec p x bc).2.1.next ∧ (exec p x bc).2.1.closed ch = laterBcast p k) ∧
    (exec p x bc).2.2.length = numGets p ∧
    (exec p x bc).1 = (lastSet p).getD x := by
  induction p generalizing x bc with
  | nil => simp [exec, hwf, Prog.hasBcast, numGets, lastSet]
  | cons op r ih =>
    cases op with
    | get =>
      obtain ⟨g1, g2, g3, g4, g5, g6, g7⟩ := Bcast.getWaitCh_spec bc hwf
      obtain ⟨i1, i2, i3, i4, i5, i6⟩ := ih x bc.getWaitCh.1 g7
      simp only [exec, Prog.hasBcast, numGets, lastSet]
      refine ⟨i1, by omega, ?_, ?_, by simp [i5], i6⟩
      · intro c hc
        rw [i3 c (by omega)]
        by_cases hcg : c = bc.getWaitCh.2
        · subst hcg
          have : bc.closed bc.getWaitCh.2 = false := by
            cases h : bc.closed bc.getWaitCh.2
            · rfl
            · exact absurd rfl (g6 _ h)
          rw [g5, this]
        · rw [g4 c hcg]
      · intro k ch hk
        cases k with
        | zero =>
          simp at hk; subst hk
          refine ⟨by omega, ?_⟩
          rw [i3 _ g2, g5]; simp [laterBcast]
        | succ k =>
          simp at hk
          simpa [laterBcast] using i4 k ch hk
    | bcast =>
      obtain ⟨b1, b2, b3, b4, b5⟩ := Bcast.broadcast_spec bc
      obtain ⟨i1, i2, i3, i4, i5, i6⟩ := ih x bc.broadcast b3
      simp only [exec, Prog.hasBcast, numGets, lastSet]
      refine ⟨i1, by omega, ?_, ?_, i5, i6⟩
      · intro c hc
        rw [i3 c (by omega), b4 c hc]; simp
      · intro k ch hk
        simpa [laterBcast] using i4 k ch hk
    | set v =>
      obtain ⟨i1, i2, i3, i4, i5, i6⟩ := ih v bc hwf
      simp only [exec, Prog.hasBcast, numGets, lastSet]
      refine ⟨i1, i2, i3, ?_, i5, ?_⟩
      · intro k ch hk
        simpa [laterBcast] using i4 k ch hk
      · rw [i6]; cases lastSet r <;> rfl
    | panic =>
      obtain ⟨i1, i2, i3, i4, i5, i6⟩ := ih x bc hwf
      simp only [exec, Prog.hasBcast, numGets, lastSet]
      refine ⟨i1, i2, i3, ?_, i5, i6⟩
      intro k ch hk
      simpa [laterBcast] using i4 k ch hk

theorem getWaitCh_cur (bc : Bcast) : bc.getWaitCh.1.cur = some bc.getWaitCh.2 := by
  unfold Bcast.getWaitCh; cases h : bc.cur <;> simp [h]

theorem getWaitCh_keep (bc : Bcast) (c : Nat) (h : bc.cur = some c) :
    bc.getWaitCh.1 = bc ∧ bc.getWaitCh.2 = c := by
  unfold Bcast.getWaitCh; simp [h]

/-- a body without `broadcast()` keeps the current channel and hands out only that one -/
theorem exec_nobcast (p : Prog) (x : Nat) (bc : Bcast) (hnb : p.hasBcast = false) :
    (∀ c, bc.cur = some c → (exec p x bc).2.1.cur = some c) ∧
    (∀ ch ∈ (exec p x bc).2.2, (exec p x bc).2.1.cur = some ch) := by
  induction p generalizing x bc with
  | nil => simp [exec]
  | cons op r ih =>
    cases op with
    | get =>
      simp only [exec]
      simp only [Prog.hasBcast] at hnb
      obtain ⟨i1, i2⟩ := ih x bc.getWaitCh.1 hnb
      have hcur := getWaitCh_cur bc
      constructor
      · intro c hc
        apply i1
        rw [(getWaitCh_keep bc c hc).1]; exact hc
      · intro ch hch
        simp at hch
        rcases hch with rfl | hch
        · exact i1 _ hcur
        · exact i2 ch hch
    | bcast => simp [Prog.hasBcast] at hnb
    | set v =>
      simp only [exec]
      simp only [Prog.hasBcast] at hnb
      exact ih v bc hnb
    | panic =>
      simp only [exec]
      simp only [Prog.hasBcast] at hnb
      exact ih x bc hnb

/-- a handle obtained after the last `broadcast()` of the body is the current channel afterwards -/
theorem exec_last_handles (p : Prog) (x : Nat) (bc : Bcast) (k ch : Nat)
    (hk : (exec p x bc).2.2[k]? = some ch) (hl : laterBcast p k = false) :
    (exec p x bc).2.1.cur = some ch := by
  induction p generalizing x bc k with
  | nil => simp [exec] at hk
  | cons op r ih =>
    cases op with
    | get =>
      simp only [exec] at hk ⊢
      cases k with
      | zero =>
        simp at hk; subst hk
        simp only [laterBcast] at hl
        exact (exec_nobcast r x bc.getWaitCh.1 hl).1 _ (getWaitCh_cur bc)
      | succ k =>
        simp at hk
        simp only [laterBcast] at hl
        exact ih x bc.getWaitCh.1 k hk hl
    | bcast =>
      simp only [exec] at hk ⊢
      simp only [laterBcast] at hl
      exact ih x bc.broadcast k hk hl
    | set v =>
      simp only [exec] at hk ⊢
      simp only [laterBcast] at hl
      exact ih v bc k hk hl
    | panic =>
      simp only [exec] at hk ⊢
      simp only [laterBcast] at hl
      exact ih x bc k hk hl

/-! ## the invariant -/

/-- handles a call has obtained -/
def TS.handles : TS → List Nat
  | .holdRan _ hs => hs
  | .mRan hs _ _ => hs
  | .done hs => hs
  | _ => []

/-- what a parked `Wait` can rely on -/
def parkedOK (x : Nat) (bc : Bcast) (dirty : Bool) (p : Pred) (ch : Nat) : Prop :=
  ch < bc.next ∧ (dirty = false → bc.closed ch = false → p.eval x = .notyet)

structure Inv (s : St) : Prop where
  bcwf : s.bc.WF
  handles : ∀ (t : Nat) (ts : TS), s.th[t]? = some ts → ∀ ch ∈ TS.handles ts, ch < s.bc.next
  /-- **no lost wake-up**: parked on an open channel ⇒ predicate not done (under the discipline) -/
  parked : ∀ (t : Nat) (p : Pred) (ch : Nat), s.th[t]? = some (.wParked p ch) → parkedOK s.x s.bc s.dirty p ch

theorem init_inv : Inv ({} : St) := by
  refine ⟨Bcast.wf_init, ?_, ?_⟩
  · intro t ts h; simp at h
  · intro t p ch h; simp at h

/-- generic preservation: thread `t` moves from `a` to `b`, shared variables move to `x bc d` -/
theorem inv_set (s : St) (t : Nat) (a b : TS) (x : Nat) (bc : Bcast) (cx : List Nat) (d : Bool)
    (hi : Inv s) (_ha : s.th[t]? = some a) (hbc : bc.WF) (hnext : s.bc.next ≤ bc.next)
    (hp : ∀ u p ch, u ≠ t → s.th[u]? = some (.wParked p ch) →
            (d = false → bc.closed ch = false → p.eval x = .notyet))
    (hb : ∀ ch ∈ TS.handles b, ch < bc.next)
    (hbp : ∀ p ch, b = .wParked p ch → parkedOK x bc d p ch) :
    Inv { x := x, bc := bc, th := s.th.set t b, cx := cx, dirty := d } := by
  refine ⟨hbc, ?_, ?_⟩
  · intro u ts hu ch hch
    simp only at hu
    rcases getElem?_set_cases s.th t u b _ hu with ⟨_, hx⟩ | ⟨_, hx⟩
    · subst hx; exact hb ch hch
    · have := hi.handles u ts hx ch hch
      simp only; omega
  · intro u p ch hu
    simp only at hu
    rcases getElem?_set_cases s.th t u b _ hu with ⟨_, hx⟩ | ⟨hne, hx⟩
    · exact hbp p ch hx.symm
    · have := (hi.parked u p ch hx).1
      exact ⟨by simp only; omega, hp u p ch hne hx⟩

/-- a thread move that touches no shared variable -/
theorem inv_move (s : St) (t : Nat) (a b : TS) (cx : List Nat) (hi : Inv s) (ha : s.th[t]? = some a)
    (hb : ∀ ch ∈ TS.handles b, ch ∈ TS.handles a) (hbp : ∀ p ch, b ≠ .wParked p ch) :
    Inv { s with th := s.th.set t b, cx := cx } := by
  refine inv_set s t a b s.x s.bc cx s.dirty hi ha hi.bcwf (Nat.le_refl _) ?_ ?_ ?_
  · intro u p ch _ hu; exact (hi.parked u p ch hu).2
  · intro ch hch; exact hi.handles t a ha ch (hb ch hch)
  · intro p ch h; exact absurd h (hbp p ch)

theorem inv_append (s : St) (b : TS) (hi : Inv s) (hb : TS.handles b = [])
    (hbp : ∀ p ch, b ≠ .wParked p ch) : Inv { s with th := s.th ++ [b] } := by
  refine ⟨hi.bcwf, ?_, ?_⟩
  · intro u ts hu ch hch
    rcases getElem?_snoc_cases _ _ _ _ hu with ⟨_, h'⟩ | ⟨_, h'⟩
    · exact hi.handles u ts h' ch hch
    · subst h'; simp [hb] at hch
  · intro u p ch hu
    rcases getElem?_snoc_cases _ _ _ _ hu with ⟨_, h'⟩ | ⟨_, h'⟩
    · exact hi.parked u p ch h'
    · exact absurd h'.symm (hbp p ch)

theorem runBody_inv (s : St) (t : Nat) (a : TS) (p : Prog) (mk : List Nat → TS) (hi : Inv s)
    (ha : s.th[t]? = some a) (hmk : ∀ hs, TS.handles (mk hs) = hs)
    (hmp : ∀ hs q ch, mk hs ≠ .wParked q ch) : Inv (runBody s t p mk) := by
  obtain ⟨e1, e2, e3, e4, _, _⟩ := exec_spec p s.x s.bc hi.bcwf
  unfold runBody
  refine inv_set s t a _ _ _ s.cx _ hi ha e1 e2 ?_ ?_ ?_
  · intro u q ch _ hu hd hc
    obtain ⟨h1, h2⟩ := hi.parked u q ch hu
    rw [e3 ch h1] at hc
    simp at hc hd
    have hx : (exec p s.x s.bc).1 = s.x := by
      by_cases hx : (exec p s.x s.bc).1 = s.x
      · exact hx
      · have := hd.2 hx; rw [hc.2] at this; cases this
    rw [hx]
    exact h2 hd.1 hc.1
  · intro ch hch
    rw [hmk] at hch
    obtain ⟨k, hk⟩ := List.getElem?_of_mem hch
    exact (e4 k ch hk).1
  · intro q ch h; exact absurd h (hmp _ q ch)

theorem waitAttempt_inv (s : St) (t : Nat) (a : TS) (p : Pred) (hi : Inv s)
    (ha : s.th[t]? = some a) : Inv (waitAttempt s t p) := by
  unfold waitAttempt
  split
  · exact inv_move s t a _ s.cx hi ha (by intro ch h; simp [TS.handles] at h) (by intro q c h; cases h)
  · exact inv_move s t a _ s.cx hi ha (by intro ch h; simp [TS.handles] at h) (by intro q c h; cases h)
  · rename_i hev
    obtain ⟨g1, g2, g3, g4, g5, g6, g7⟩ := Bcast.getWaitCh_spec s.bc hi.bcwf
    refine inv_set s t a _ s.x _ s.cx s.dirty hi ha g7 g3 ?_ ?_ ?_
    · intro u q ch _ hu hd hc
      have hc' : s.bc.closed ch = false := by
        cases h : s.bc.closed ch
        · rfl
        · rw [Bcast.closed_mono_get s.bc hi.bcwf ch h] at hc; cases hc
      exact (hi.parked u q ch hu).2 hd hc'
    · intro ch h; simp [TS.handles] at h
    · intro q ch h
      cases h
      exact ⟨g2, fun _ _ => hev⟩

theorem step_bodyIn (s s' : St) (t : Nat) (hs : step s (.bodyIn t) = some s') : s' = s := by
  simp only [step] at hs; split at hs <;> simp at hs; exact hs.symm

theorem step_bodyOut (s s' : St) (t : Nat) (hs : step s (.bodyOut t) = some s') : s' = s := by
  simp only [step] at hs; split at hs <;> simp at hs; exact hs.symm

theorem step_inv (s : St) (e : Ev) (s' : St) (hi : Inv s) (hs : step s e = some s') : Inv s' := by
  cases e with
  | invHold t k p =>
    simp only [step] at hs; split at hs <;> try simp at hs
    split at hs <;> simp at hs <;> subst hs <;>
      exact inv_append s _ hi rfl (by intro q c h; cases h)
  | holdCS t =>
    simp only [step] at hs; split at hs <;> simp at hs <;> subst hs
    · rename_i k p h
      exact runBody_inv s t _ p _ hi h (by intro hs; rfl) (by intro hs q c h; cases h)
    · rename_i p rt h
      exact runBody_inv s t _ p _ hi h (by intro hs; rfl) (by intro hs q c h; cases h)
  | tryFail t =>
    simp only [step] at hs; split at hs <;> simp at hs; subst hs
    rename_i p h
    exact inv_move s t _ _ s.cx hi h (by intro ch h; simp [TS.handles] at h) (by intro q c h; cases h)
  | retHold t k ok =>
    simp only [step] at hs; split at hs <;> try simp at hs
    · obtain ⟨_, rfl⟩ := hs; rename_i k' hs' h _
      exact inv_move s t _ _ s.cx hi h (by intro ch h; simpa [TS.handles] using h) (by intro q c h; cases h)
    · obtain ⟨_, rfl⟩ := hs; rename_i h _
      exact inv_move s t _ _ s.cx hi h (by intro ch h; simp [TS.handles] at h) (by intro q c h; cases h)
    · obtain ⟨_, rfl⟩ := hs; rename_i p h _
      exact inv_move s t _ _ s.cx hi h (by intro ch h; simp [TS.handles] at h) (by intro q c h; cases h)
    · obtain ⟨_, rfl⟩ := hs; rename_i hs' cb h _
      refine inv_move s t _ _ s.cx hi h ?_ ?_
      · intro ch hch; cases cb <;> simpa [TS.handles] using hch
      · intro q c h; cases cb <;> simp at h
  | cbout t =>
    simp only [step] at hs; split at hs <;> simp at hs; subst hs
    rename_i hs' rt h
    refine inv_move s t _ _ s.cx hi h ?_ ?_
    · intro ch hch; cases rt <;> simpa [TS.handles] using hch
    · intro q c h; cases rt <;> simp at h
  | bodyIn t => rw [step_bodyIn s s' t hs]; exact hi
  | bodyOut t => rw [step_bodyOut s s' t hs]; exact hi
  | invWait t p =>
    simp only [step] at hs; split at hs <;> try simp at hs
    split at hs <;> simp at hs <;> subst hs <;>
      exact inv_append s _ hi rfl (by intro q c h; cases h)
  | waitCS t =>
    simp only [step] at hs; split at hs <;> simp at hs; subst hs
    rename_i p h
    exact waitAttempt_inv s t _ p hi h
  | wakeCS t =>
    simp only [step] at hs; split at hs <;> simp at hs
    obtain ⟨_, rfl⟩ := hs; rename_i p c h _
    exact waitAttempt_inv s t _ p hi h
  | ctxRet t =>
    simp only [step] at hs; split at hs <;> simp at hs
    obtain ⟨_, rfl⟩ := hs; rename_i p h _
    exact inv_move s t _ _ s.cx hi h (by intro ch h; simp [TS.handles] at h) (by intro q c h; cases h)
  | ctxTake t =>
    simp only [step] at hs; split at hs <;> simp at hs
    obtain ⟨_, rfl⟩ := hs; rename_i p c h _
    exact inv_move s t _ _ s.cx hi h (by intro ch h; simp [TS.handles] at h) (by intro q c h; cases h)
  | retWait t r =>
    simp only [step] at hs; split at hs <;> simp at hs
    obtain ⟨_, rfl⟩ := hs; rename_i r' h _
    exact inv_move s t _ _ s.cx hi h (by intro ch h; simp [TS.handles] at h) (by intro q c h; cases h)
  | envCancel t =>
    simp only [step] at hs; split at hs <;> simp at hs; subst hs
    exact ⟨hi.bcwf, hi.handles, hi.parked⟩
  | probe t k c =>
    simp only [step] at hs; split at hs <;> try simp at hs
    split at hs <;> try simp at hs
    obtain ⟨_, rfl⟩ := hs; exact hi
  | quiesce B =>
    simp only [step] at hs; split at hs <;> simp at hs; subst hs; exact hi

/-- the invariant holds after every event list -/
theorem reachable_inv (es : List Ev) (s : St) (h : model.run model.init es = some s) : Inv s :=
  model.run_invariant Inv (fun s e s' hi hs => step_inv s e s' hi hs) _ _ es init_inv h

theorem run_inv (s s' : St) (es : List Ev) (hi : Inv s) (h : model.run s es = some s') : Inv s' :=
  model.run_invariant Inv (fun s e s' hi hs => step_inv s e s' hi hs) s s' es hi h


/-! ## which steps close a channel -/

/-- the body program a call is about to run -/
def TS.pendingProg : TS → Option Prog
  | .holdInv _ p => some p
  | .mInv p _ => some p
  | _ => none

/-- `e` is a critical section whose body calls `broadcast()` -/
def bcasts (s : St) : Ev → Bool
  | .holdCS t =>
    match s.th[t]? with
    | some ts =>
      match TS.pendingProg ts with
      | some p => p.hasBcast
      | none => false
    | none => false
  | _ => false

/-- some event of the run from `s` along `es` is a critical section that broadcasts -/
def anyBcast (s : St) : List Ev → Bool
  | [] => false
  | e :: es => bcasts s e || (match step s e with
    | some s' => anyBcast s' es
    | none => false)

theorem getWaitCh_closed_eq (bc : Bcast) (hwf : bc.WF) (c : Nat) (hc : c < bc.next) :
    bc.getWaitCh.1.closed c = bc.closed c := by
  obtain ⟨_, _, _, g4, g5, g6, _⟩ := Bcast.getWaitCh_spec bc hwf
  by_cases hcg : c = bc.getWaitCh.2
  · subst hcg
    rw [g5]
    cases h : bc.closed bc.getWaitCh.2
    · rfl
    · exact absurd rfl (g6 _ h)
  · exact g4 c hcg

theorem waitAttempt_bc (s : St) (t : Nat) (p : Pred) (hwf : s.bc.WF) (c : Nat) (hc : c < s.bc.next) :
    (waitAttempt s t p).bc.closed c = s.bc.closed c ∧ s.bc.next ≤ (waitAttempt s t p).bc.next ∧
    (waitAttempt s t p).x = s.x := by
  unfold waitAttempt
  split
  · exact ⟨rfl, Nat.le_refl _, rfl⟩
  · exact ⟨rfl, Nat.le_refl _, rfl⟩
  · exact ⟨getWaitCh_closed_eq s.bc hwf c hc, (Bcast.getWaitCh_spec s.bc hwf).2.2.1, rfl⟩

/-- **one step closes an allocated channel iff it is a body that broadcasts**; channels are never
reopened and never deallocated -/
theorem step_closed_iff (s : St) (e : Ev) (s' : St) (hi : Inv s) (hs : step s e = some s')
    (c : Nat) (hc : c < s.bc.next) :
    s'.bc.closed c = (s.bc.closed c || bcasts s e) ∧ s.bc.next ≤ s'.bc.next := by
  cases e with
  | invHold t k p =>
    simp only [step] at hs; split at hs <;> try simp at hs
    split at hs <;> simp at hs <;> subst hs <;> simp [bcasts]
  | holdCS t =>
    simp only [step] at hs; split at hs <;> simp at hs <;> subst hs
    · rename_i k p h
      obtain ⟨_, e2, e3, _⟩ := exec_spec p s.x s.bc hi.bcwf
      simp only [runBody, bcasts, h, TS.pendingProg]
      exact ⟨e3 c hc, e2⟩
    · rename_i p rt h
      obtain ⟨_, e2, e3, _⟩ := exec_spec p s.x s.bc hi.bcwf
      simp only [runBody, bcasts, h, TS.pendingProg]
      exact ⟨e3 c hc, e2⟩
  | tryFail t =>
    simp only [step] at hs; split at hs <;> simp at hs; subst hs; simp [bcasts]
  | retHold t k ok =>
    simp only [step] at hs; split at hs <;> try simp at hs
    all_goals (obtain ⟨_, rfl⟩ := hs; simp [bcasts])
  | cbout t =>
    simp only [step] at hs; split at hs <;> simp at hs; subst hs; simp [bcasts]
  | bodyIn t => rw [step_bodyIn s s' t hs]; simp [bcasts]
  | bodyOut t => rw [step_bodyOut s s' t hs]; simp [bcasts]
  | invWait t p =>
    simp only [step] at hs; split at hs <;> try simp at hs
    split at hs <;> simp at hs <;> subst hs <;> simp [bcasts]
  | waitCS t =>
    simp only [step] at hs; split at hs <;> simp at hs; subst hs
    rename_i p _
    have := waitAttempt_bc s t p hi.bcwf c hc
    simp [bcasts, this.1, this.2.1]
  | wakeCS t =>
    simp only [step] at hs; split at hs <;> simp at hs
    obtain ⟨_, rfl⟩ := hs
    rename_i p _ _ _
    have := waitAttempt_bc s t p hi.bcwf c hc
    simp [bcasts, this.1, this.2.1]
  | ctxRet t =>
    simp only [step] at hs; split at hs <;> simp at hs
    obtain ⟨_, rfl⟩ := hs; simp [bcasts]
  | ctxTake t =>
    simp only [step] at hs; split at hs <;> simp at hs
    obtain ⟨_, rfl⟩ := hs; simp [bcasts]
  | retWait t r =>
    simp only [step] at hs; split at hs <;> simp at hs
    obtain ⟨_, rfl⟩ := hs; simp [bcasts]
  | envCancel t =>
    simp only [step] at hs; split at hs <;> simp at hs; subst hs; simp [bcasts]
  | probe t k cl =>
    simp only [step] at hs; split at hs <;> try simp at hs
    split at hs <;> try simp at hs
    obtain ⟨_, rfl⟩ := hs; simp [bcasts]
  | quiesce B =>
    simp only [step] at hs; split at hs <;> simp at hs; subst hs; simp [bcasts]

theorem run_closed_iff (s s' : St) (es : List Ev) (hi : Inv s) (hr : model.run s es = some s')
    (c : Nat) (hc : c < s.bc.next) :
    s'.bc.closed c = (s.bc.closed c || anyBcast s es) := by
  induction es generalizing s with
  | nil => simp [OLTS.run] at hr; subst hr; simp [anyBcast]
  | cons e es ih =>
    simp only [OLTS.run] at hr
    cases hst : model.step s e with
    | none => simp [hst] at hr
    | some s1 =>
      simp [hst] at hr
      have hst' : step s e = some s1 := hst
      obtain ⟨h1, h2⟩ := step_closed_iff s e s1 hi hst' c hc
      rw [ih s1 (step_inv s e s1 hi hst') hr (by omega), h1]
      simp [anyBcast, hst', Bool.or_assoc]

/-! ## how a `Wait` gets its result -/

theorem set_hit {α : Type} (l : List α) (u t : Nat) (b x : α) (h1 : (l.set u b)[t]? = some x)
    (h0 : l[t]? ≠ some x) : u = t ∧ b = x := by
  rcases getElem?_set_cases l u t b x h1 with ⟨h, hx⟩ | ⟨_, hx⟩
  · exact ⟨h.symm, hx.symm⟩
  · exact absurd hx h0

theorem snoc_hit {α : Type} (l : List α) (t : Nat) (b x : α) (h1 : (l ++ [b])[t]? = some x)
    (h0 : l[t]? ≠ some x) : t = l.length ∧ b = x := by
  rcases getElem?_snoc_cases l b x t h1 with ⟨_, hx⟩ | ⟨h, hx⟩
  · exact absurd hx h0
  · exact ⟨h, hx.symm⟩

/-- call `t` is a `Wait` with predicate `p` about to run its critical section -/
def waitingWith (s : St) (t : Nat) (p : Pred) : Prop :=
  s.th[t]? = some (.wInv p) ∨ ∃ c, s.th[t]? = some (.wParked p c) ∧ s.bc.closed c = true

theorem waitAttempt_wRet (s : St) (u t : Nat) (p : Pred) (r : WRes)
    (h1 : (waitAttempt s u p).th[t]? = some (.wRet r)) (h0 : s.th[t]? ≠ some (.wRet r)) :
    u = t ∧ ((r = .nil ∧ p.eval s.x = .done) ∨ (r = .err ∧ p.eval s.x = .error)) := by
  unfold waitAttempt at h1
  split at h1
  · rename_i hev
    obtain ⟨h, hb⟩ := set_hit _ _ _ _ _ h1 h0
    cases hb; exact ⟨h, Or.inl ⟨rfl, hev⟩⟩
  · rename_i hev
    obtain ⟨h, hb⟩ := set_hit _ _ _ _ _ h1 h0
    cases hb; exact ⟨h, Or.inr ⟨rfl, hev⟩⟩
  · obtain ⟨_, hb⟩ := set_hit _ _ _ _ _ h1 h0
    cases hb

/-- the only steps after which call `t` is about to return `r` -/
theorem step_wRet (s s' : St) (e : Ev) (t : Nat) (r : WRes) (hs : step s e = some s')
    (h1 : s'.th[t]? = some (.wRet r)) (h0 : s.th[t]? ≠ some (.wRet r)) :
    (r = .badarg ∧ e = .invWait t none) ∨
    (r = .canceled ∧ s.cx.contains t = true ∧ (e = .ctxRet t ∨ e = .ctxTake t)) ∨
    (∃ p, (e = .waitCS t ∨ e = .wakeCS t) ∧ waitingWith s t p ∧ s'.x = s.x ∧
      ((r = .nil ∧ p.eval s.x = .done) ∨ (r = .err ∧ p.eval s.x = .error))) := by
  cases e with
  | invHold u k p =>
    simp only [step] at hs; split at hs <;> try simp at hs
    split at hs <;> simp at hs <;> subst hs <;>
      (obtain ⟨_, hb⟩ := snoc_hit _ _ _ _ h1 h0; cases hb)
  | holdCS u =>
    simp only [step] at hs; split at hs <;> simp at hs <;> subst hs <;>
      (simp only [runBody] at h1; obtain ⟨_, hb⟩ := set_hit _ _ _ _ _ h1 h0; cases hb)
  | tryFail u =>
    simp only [step] at hs; split at hs <;> simp at hs; subst hs
    obtain ⟨_, hb⟩ := set_hit _ _ _ _ _ h1 h0; cases hb
  | retHold u k ok =>
    simp only [step] at hs; split at hs <;> try simp at hs
    · obtain ⟨_, rfl⟩ := hs
      obtain ⟨_, hb⟩ := set_hit _ _ _ _ _ h1 h0; cases hb
    · obtain ⟨_, rfl⟩ := hs
      obtain ⟨_, hb⟩ := set_hit _ _ _ _ _ h1 h0; cases hb
    · obtain ⟨_, rfl⟩ := hs
      obtain ⟨_, hb⟩ := set_hit _ _ _ _ _ h1 h0; cases hb
    · obtain ⟨_, rfl⟩ := hs
      obtain ⟨_, hb⟩ := set_hit _ _ _ _ _ h1 h0
      split at hb <;> cases hb
  | cbout u =>
    simp only [step] at hs; split at hs <;> simp at hs; subst hs
    obtain ⟨_, hb⟩ := set_hit _ _ _ _ _ h1 h0
    split at hb <;> cases hb
  | bodyIn u => rw [step_bodyIn s s' u hs] at h1; exact absurd h1 h0
  | bodyOut u => rw [step_bodyOut s s' u hs] at h1; exact absurd h1 h0
  | invWait u p =>
    simp only [step] at hs; split at hs <;> try simp at hs
    rename_i hu
    split at hs <;> simp at hs <;> subst hs
    · obtain ⟨_, hb⟩ := snoc_hit _ _ _ _ h1 h0; cases hb
    · obtain ⟨ht, hb⟩ := snoc_hit _ _ _ _ h1 h0
      cases hb
      left; exact ⟨rfl, by rw [hu, ht]⟩
  | waitCS u =>
    simp only [step] at hs; split at hs <;> simp at hs; subst hs
    rename_i p h
    obtain ⟨hu, hr⟩ := waitAttempt_wRet s u t p r h1 h0
    subst hu
    right; right
    refine ⟨p, Or.inl rfl, Or.inl h, ?_, hr⟩
    unfold waitAttempt; split <;> rfl
  | wakeCS u =>
    simp only [step] at hs; split at hs <;> simp at hs
    obtain ⟨hcl, rfl⟩ := hs
    rename_i p c h
    obtain ⟨hu, hr⟩ := waitAttempt_wRet s u t p r h1 h0
    subst hu
    right; right
    refine ⟨p, Or.inr rfl, Or.inr ⟨c, h, hcl⟩, ?_, hr⟩
    unfold waitAttempt; split <;> rfl
  | ctxRet u =>
    simp only [step] at hs; split at hs <;> simp at hs
    obtain ⟨hcx, rfl⟩ := hs
    obtain ⟨hu, hb⟩ := set_hit _ _ _ _ _ h1 h0
    cases hb; subst hu
    right; left; exact ⟨rfl, by simpa using hcx, Or.inl rfl⟩
  | ctxTake u =>
    simp only [step] at hs; split at hs <;> simp at hs
    obtain ⟨hcx, rfl⟩ := hs
    obtain ⟨hu, hb⟩ := set_hit _ _ _ _ _ h1 h0
    cases hb; subst hu
    right; left; exact ⟨rfl, by simpa using hcx, Or.inr rfl⟩
  | retWait u r' =>
    simp only [step] at hs; split at hs <;> simp at hs
    obtain ⟨_, rfl⟩ := hs
    obtain ⟨_, hb⟩ := set_hit _ _ _ _ _ h1 h0; cases hb
  | envCancel u =>
    simp only [step] at hs; split at hs <;> simp at hs; subst hs
    exact absurd h1 h0
  | probe u k cl =>
    simp only [step] at hs; split at hs <;> try simp at hs
    split at hs <;> try simp at hs
    obtain ⟨_, rfl⟩ := hs; exact absurd h1 h0
  | quiesce B =>
    simp only [step] at hs; split at hs <;> simp at hs; subst hs; exact absurd h1 h0

/-- a response is only produced from the matching "about to return" state -/
theorem retWait_from (s s' : St) (t : Nat) (r : WRes) (hs : step s (.retWait t r) = some s') :
    s.th[t]? = some (.wRet r) := by
  simp only [step] at hs; split at hs <;> simp at hs
  obtain ⟨rfl, _⟩ := hs; rename_i h; exact h

/-- a context is only ever marked cancelled by its `env cancel` -/
theorem step_cx (s s' : St) (e : Ev) (t : Nat) (hs : step s e = some s')
    (h1 : s'.cx.contains t = true) (h0 : s.cx.contains t = false) : e = .envCancel t := by
  cases e with
  | envCancel u =>
    simp only [step] at hs; split at hs <;> simp at hs; subst hs
    simp at h1 h0
    rcases h1 with h | h
    · rw [h]
    · exact absurd h h0
  | invHold u k p =>
    simp only [step] at hs; split at hs <;> try simp at hs
    split at hs <;> simp at hs <;> subst hs <;> simp_all
  | holdCS u =>
    simp only [step] at hs; split at hs <;> simp at hs <;> subst hs <;> simp_all [runBody]
  | tryFail u => simp only [step] at hs; split at hs <;> simp at hs; subst hs; simp_all
  | retHold u k ok =>
    simp only [step] at hs; split at hs <;> try simp at hs
    all_goals (obtain ⟨_, rfl⟩ := hs; simp_all)
  | cbout u => simp only [step] at hs; split at hs <;> simp at hs; subst hs; simp_all
  | bodyIn u => rw [step_bodyIn s s' u hs] at h1; simp_all
  | bodyOut u => rw [step_bodyOut s s' u hs] at h1; simp_all
  | invWait u p =>
    simp only [step] at hs; split at hs <;> try simp at hs
    split at hs <;> simp at hs <;> subst hs <;> simp_all
  | waitCS u =>
    simp only [step] at hs; split at hs <;> simp at hs; subst hs
    unfold waitAttempt at h1; split at h1 <;> simp_all
  | wakeCS u =>
    simp only [step] at hs; split at hs <;> simp at hs
    obtain ⟨_, rfl⟩ := hs
    unfold waitAttempt at h1; split at h1 <;> simp_all
  | ctxRet u =>
    simp only [step] at hs; split at hs <;> simp at hs
    obtain ⟨_, rfl⟩ := hs; simp_all
  | ctxTake u =>
    simp only [step] at hs; split at hs <;> simp at hs
    obtain ⟨_, rfl⟩ := hs; simp_all
  | retWait u r =>
    simp only [step] at hs; split at hs <;> simp at hs
    obtain ⟨_, rfl⟩ := hs; simp_all
  | probe u k cl =>
    simp only [step] at hs; split at hs <;> try simp at hs
    split at hs <;> try simp at hs
    obtain ⟨_, rfl⟩ := hs; simp_all
  | quiesce B => simp only [step] at hs; split at hs <;> simp at hs; subst hs; simp_all


/-! ## the discipline "a body that assigns `x` also broadcasts" -/

theorem exec_x (p : Prog) (x : Nat) (bc : Bcast) : (exec p x bc).1 = (lastSet p).getD x := by
  induction p generalizing x bc with
  | nil => simp [exec, lastSet]
  | cons op r ih =>
    cases op with
    | get => simp only [exec, lastSet]; exact ih x _
    | bcast => simp only [exec, lastSet]; exact ih x _
    | set v =>
      simp only [exec, lastSet]; rw [ih v bc]
      cases lastSet r <;> rfl
    | panic => simp only [exec, lastSet]; exact ih x _

/-- the discipline of the last clause of C03: a body that assigns `x` also broadcasts -/
def Prog.disciplined (p : Prog) : Bool := (lastSet p).isNone || p.hasBcast

/-- no body so far broke the discipline, and no pending body will -/
def Tidy (s : St) : Prop :=
  s.dirty = false ∧ ∀ (t : Nat) (ts : TS) (p : Prog), s.th[t]? = some ts →
    TS.pendingProg ts = some p → Prog.disciplined p = true

theorem tidy_move (s : St) (t : Nat) (a b : TS) (x : Nat) (bc : Bcast) (cx : List Nat)
    (hj : Tidy s) (ha : s.th[t]? = some a)
    (hb : ∀ p, TS.pendingProg b = some p → TS.pendingProg a = some p) :
    Tidy { s with x := x, bc := bc, th := s.th.set t b, cx := cx } := by
  refine ⟨hj.1, ?_⟩
  intro u ts p hu hp
  simp only at hu
  rcases getElem?_set_cases s.th t u b _ hu with ⟨_, hx⟩ | ⟨_, hx⟩
  · subst hx; exact hj.2 t a p ha (hb p hp)
  · exact hj.2 u ts p hx hp

theorem tidy_append (s : St) (b : TS) (hj : Tidy s)
    (hb : ∀ p, TS.pendingProg b = some p → Prog.disciplined p = true) :
    Tidy { s with th := s.th ++ [b] } := by
  refine ⟨hj.1, ?_⟩
  intro u ts p hu hp
  rcases getElem?_snoc_cases _ _ _ _ hu with ⟨_, h'⟩ | ⟨_, h'⟩
  · exact hj.2 u ts p h' hp
  · subst h'; exact hb p hp

theorem tidy_runBody (s : St) (t : Nat) (a : TS) (p : Prog) (mk : List Nat → TS) (hj : Tidy s)
    (ha : s.th[t]? = some a) (hpa : TS.pendingProg a = some p)
    (hmk : ∀ hs, TS.pendingProg (mk hs) = none) : Tidy (runBody s t p mk) := by
  have hd := hj.2 t a p ha hpa
  have hx := exec_x p s.x s.bc
  unfold runBody
  constructor
  · simp only [hj.1, Bool.false_or]
    unfold Prog.disciplined at hd
    cases hl : lastSet p with
    | none => simp [hx, hl]
    | some v => simp [hl] at hd; simp [hd]
  · intro u ts q hu hq
    simp only at hu
    rcases getElem?_set_cases s.th t u _ _ hu with ⟨_, hx⟩ | ⟨_, hx⟩
    · subst hx; rw [hmk] at hq; cases hq
    · exact hj.2 u ts q hx hq

theorem tidy_waitAttempt (s : St) (t : Nat) (a : TS) (p : Pred) (hj : Tidy s)
    (ha : s.th[t]? = some a) : Tidy (waitAttempt s t p) := by
  unfold waitAttempt
  split
  · exact tidy_move s t a _ s.x s.bc s.cx hj ha (by intro q h; cases h)
  · exact tidy_move s t a _ s.x s.bc s.cx hj ha (by intro q h; cases h)
  · exact tidy_move s t a _ s.x _ s.cx hj ha (by intro q h; cases h)

theorem step_tidy (s : St) (e : Ev) (s' : St) (hj : Tidy s) (hs : step s e = some s')
    (he : ∀ t k p, e = .invHold t k p → Prog.disciplined p = true) : Tidy s' := by
  cases e with
  | invHold t k p =>
    have hd := he t k p rfl
    simp only [step] at hs; split at hs <;> try simp at hs
    split at hs <;> simp at hs <;> subst hs <;>
      exact tidy_append s _ hj (by intro q hq; simp [TS.pendingProg] at hq; subst hq; exact hd)
  | holdCS t =>
    simp only [step] at hs; split at hs <;> simp at hs <;> subst hs
    · rename_i k p h
      exact tidy_runBody s t _ p _ hj h rfl (fun _ => rfl)
    · rename_i p rt h
      exact tidy_runBody s t _ p _ hj h rfl (fun _ => rfl)
  | tryFail t =>
    simp only [step] at hs; split at hs <;> simp at hs; subst hs
    rename_i p h
    exact tidy_move s t _ _ s.x s.bc s.cx hj h (by intro q h; cases h)
  | retHold t k ok =>
    simp only [step] at hs; split at hs <;> try simp at hs
    · obtain ⟨_, rfl⟩ := hs; rename_i k' hs' h _
      exact tidy_move s t _ _ s.x s.bc s.cx hj h (by intro q h; cases h)
    · obtain ⟨_, rfl⟩ := hs; rename_i h _
      exact tidy_move s t _ _ s.x s.bc s.cx hj h (by intro q h; cases h)
    · obtain ⟨_, rfl⟩ := hs; rename_i p h _
      exact tidy_move s t _ _ s.x s.bc s.cx hj h (by intro q h; exact h)
    · obtain ⟨_, rfl⟩ := hs; rename_i hs' cb h _
      exact tidy_move s t _ _ s.x s.bc s.cx hj h (by intro q h; cases cb <;> cases h)
  | cbout t =>
    simp only [step] at hs; split at hs <;> simp at hs; subst hs
    rename_i hs' rt h
    exact tidy_move s t _ _ s.x s.bc s.cx hj h (by intro q h; cases rt <;> cases h)
  | bodyIn t => rw [step_bodyIn s s' t hs]; exact hj
  | bodyOut t => rw [step_bodyOut s s' t hs]; exact hj
  | invWait t p =>
    simp only [step] at hs; split at hs <;> try simp at hs
    split at hs <;> simp at hs <;> subst hs <;>
      exact tidy_append s _ hj (by intro q hq; cases hq)
  | waitCS t =>
    simp only [step] at hs; split at hs <;> simp at hs; subst hs
    rename_i p h
    exact tidy_waitAttempt s t _ p hj h
  | wakeCS t =>
    simp only [step] at hs; split at hs <;> simp at hs
    obtain ⟨_, rfl⟩ := hs; rename_i p c h _
    exact tidy_waitAttempt s t _ p hj h
  | ctxRet t =>
    simp only [step] at hs; split at hs <;> simp at hs
    obtain ⟨_, rfl⟩ := hs; rename_i p h _
    exact tidy_move s t _ _ s.x s.bc s.cx hj h (by intro q h; cases h)
  | ctxTake t =>
    simp only [step] at hs; split at hs <;> simp at hs
    obtain ⟨_, rfl⟩ := hs; rename_i p c h _
    exact tidy_move s t _ _ s.x s.bc s.cx hj h (by intro q h; cases h)
  | retWait t r =>
    simp only [step] at hs; split at hs <;> simp at hs
    obtain ⟨_, rfl⟩ := hs; rename_i r' h _
    exact tidy_move s t _ _ s.x s.bc s.cx hj h (by intro q h; cases h)
  | envCancel t =>
    simp only [step] at hs; split at hs <;> simp at hs; subst hs; exact hj
  | probe t k c =>
    simp only [step] at hs; split at hs <;> try simp at hs
    split at hs <;> try simp at hs
    obtain ⟨_, rfl⟩ := hs; exact hj
  | quiesce B =>
    simp only [step] at hs; split at hs <;> simp at hs; subst hs; exact hj

theorem run_tidy (es : List Ev) (s0 s : St) (hj : Tidy s0) (hr : model.run s0 es = some s)
    (hd : ∀ t k p, Ev.invHold t k p ∈ es → Prog.disciplined p = true) : Tidy s := by
  induction es generalizing s0 with
  | nil => simp [OLTS.run] at hr; subst hr; exact hj
  | cons e es ih =>
    simp only [OLTS.run] at hr
    cases hst : model.step s0 e with
    | none => simp [hst] at hr
    | some s1 =>
      simp [hst] at hr
      refine ih s1 ?_ hr (fun t k p hm => hd t k p (by simp [hm]))
      exact step_tidy s0 e s1 hj hst (by intro t k p he; subst he; exact hd t k p (by simp))

end UtilModel.Broadcast
