import UtilModel.Broadcast.Proofs
import UtilModel.Broadcast.Monitors
/-!
# broadcast: simulation proof for the handle-generation monitor `monProbe`

`RelP s ms` relates a model state to a monitor state; it is established initially, preserved by
every internal step and by every observable step (which the monitor accepts). The relation carries
the history facts the monitor relies on:

* `opn`: a call that is *quiet* (every broadcasting call invoked so far had finished before it was
  invoked, itself excepted) holds, for each handle with no later `broadcast()` in its own body, the
  current channel — so that handle is open;
* `clo`: once a broadcasting call `d` has run its body, every handle of a call that finished before
  `d` was invoked is closed;
* `own`: a handle followed by a `broadcast()` in its own body is closed.
-/
namespace UtilModel.Broadcast
open UtilModel

def pendB : Option HCall → Bool
  | some c => c.prog.hasBcast && c.pend
  | none => false

/-- states of a `Wait` call (its monitor entry is `none`) -/
def IsWait : TS → Prop
  | .wInv _ => True
  | .wParked _ _ => True
  | .wRet _ => True
  | .done hs => hs = []
  | _ => False

/-- monitor entry `c` describes a lock-and-call in state `ts` -/
def Corr (c : HCall) : TS → Prop
  | .holdInv k p => c.prog = p ∧ c.pend = true ∧ c.fin = none ∧ k ≠ .maybe
  | .mInv p _ => c.prog = p ∧ c.pend = true ∧ c.fin = none
  | .holdRan k hs => c.pend = true ∧ c.fin = none ∧ hs.length = numGets c.prog ∧ k ≠ .maybe
  | .tryFailed => c.pend = true ∧ c.fin = none
  | .mRan hs false _ => c.pend = true ∧ c.fin = none ∧ hs.length = numGets c.prog
  | .mRan hs true _ => c.pend = false ∧ c.fin.isSome = true ∧ hs.length = numGets c.prog
  | .done hs => c.pend = false ∧
      ((c.fin.isSome = true ∧ hs.length = numGets c.prog) ∨ (c.fin = none ∧ hs = []))
  | _ => False

/-- the body of the call has been executed -/
def Exec (c : HCall) : TS → Bool
  | .holdRan _ _ => true
  | .mRan _ _ _ => true
  | .done _ => c.fin.isSome
  | _ => false

def EntOK (ms : ProbeSt) (c : HCall) : Prop :=
  c.doneAtInv + (if c.prog.hasBcast && !c.pend then 1 else 0) ≤ ms.bDone ∧
  (c.prog.hasBcast = true → c.bnum < ms.bInv) ∧
  (∀ f, c.fin = some f → f ≤ ms.bInv) ∧
  c.doneAtInv + c.selfB ≤ ms.bInv

structure RelP (s : St) (ms : ProbeSt) : Prop where
  inv : Inv s
  len : ms.calls.length = s.th.length
  corr : ∀ (t : Nat) (ts : TS), s.th[t]? = some ts →
    ∃ eo, ms.calls[t]? = some eo ∧ (match eo with
      | some c => Corr c ts
      | none => IsWait ts)
  cnt : ms.bInv = ms.bDone + ms.calls.countP pendB
  ent : ∀ (t : Nat) (c : HCall), ms.calls[t]? = some (some c) → EntOK ms c
  own : ∀ (t : Nat) (ts : TS) (c : HCall), s.th[t]? = some ts → ms.calls[t]? = some (some c) →
    ∀ k ch, (TS.handles ts)[k]? = some ch → laterBcast c.prog k = true → s.bc.closed ch = true
  opn : ∀ (t : Nat) (ts : TS) (c : HCall), s.th[t]? = some ts → ms.calls[t]? = some (some c) →
    ms.bInv = c.doneAtInv + c.selfB →
    ∀ k ch, (TS.handles ts)[k]? = some ch → laterBcast c.prog k = false → s.bc.cur = some ch
  clo : ∀ (td : Nat) (tsd : TS) (d : HCall), s.th[td]? = some tsd → ms.calls[td]? = some (some d) →
    d.prog.hasBcast = true → Exec d tsd = true →
    ∀ (t : Nat) (ts : TS) (c : HCall) (f : Nat), s.th[t]? = some ts → ms.calls[t]? = some (some c) →
      c.fin = some f → f ≤ d.bnum → ∀ ch ∈ TS.handles ts, s.bc.closed ch = true
  hi : ms.doneHi = 0 ∨ ∃ (td : Nat) (d : HCall), ms.calls[td]? = some (some d) ∧
    d.prog.hasBcast = true ∧ d.fin.isSome = true ∧ d.bnum + 1 = ms.doneHi

theorem relP_init : RelP model.init monProbe.init := by
  refine ⟨init_inv, rfl, ?_, rfl, ?_, ?_, ?_, ?_, Or.inl rfl⟩
  · intro t ts h; simp [model] at h
  · intro t c h; simp [monProbe] at h
  · intro t ts c h; simp [model] at h
  · intro t ts c h; simp [model] at h
  · intro td tsd d h; simp [model] at h

/-- a finished entry with `fin` set belongs to a thread whose body has run -/
theorem exec_of_fin (c : HCall) (ts : TS) (hc : Corr c ts) (hf : c.fin.isSome = true) :
    Exec c ts = true := by
  cases ts with
  | holdInv k p => simp [Corr] at hc; simp [hc.2.2.1] at hf
  | mInv p rt => simp [Corr] at hc; simp [hc.2.2] at hf
  | holdRan k hs => rfl
  | tryFailed => simp [Corr] at hc; simp [hc.2] at hf
  | mRan hs cb rt => rfl
  | done hs => simpa [Exec] using hf
  | wInv p => simp [Corr] at hc
  | wParked p ch => simp [Corr] at hc
  | wRet r => simp [Corr] at hc

/-- a thread with handles corresponds to a monitor entry for a lock-and-call -/
theorem handles_len (c : HCall) (ts : TS) (hc : Corr c ts) (hf : c.fin.isSome = true) :
    (TS.handles ts).length = numGets c.prog := by
  cases ts with
  | holdInv k p => simp [Corr] at hc; simp [hc.2.2.1] at hf
  | mInv p rt => simp [Corr] at hc; simp [hc.2.2] at hf
  | holdRan k hs => simp [Corr] at hc; simp [hc.2.1] at hf
  | tryFailed => simp [Corr] at hc; simp [hc.2] at hf
  | mRan hs cb rt =>
    cases cb <;> simp [Corr] at hc
    · simp [hc.2.1] at hf
    · exact hc.2.2
  | done hs =>
    simp [Corr] at hc
    rcases hc.2 with h | h
    · exact h.2
    · simp [h.1] at hf
  | wInv p => simp [Corr] at hc
  | wParked p ch => simp [Corr] at hc
  | wRet r => simp [Corr] at hc

/-- **counting**: while some call `cu` is quiet, no *other* broadcasting call is pending -/
theorem quiet_no_other (ms : ProbeSt) (u t : Nat) (cu ct : HCall)
    (hcnt : ms.bInv = ms.bDone + ms.calls.countP pendB)
    (hu : ms.calls[u]? = some (some cu)) (ht : ms.calls[t]? = some (some ct))
    (heu : EntOK ms cu) (hq : ms.bInv = cu.doneAtInv + cu.selfB)
    (hb : ct.prog.hasBcast = true) (hp : ct.pend = true) (hne : t ≠ u) : False := by
  obtain ⟨e1, _, _, _⟩ := heu
  have hpt : pendB (some ct) = true := by simp [pendB, hb, hp]
  by_cases hpu : pendB (some cu) = true
  · have := countP_ge_two pendB ms.calls t u _ _ hne ht hu hpt hpu
    simp [pendB] at hpu
    simp [HCall.selfB, hpu.1, hpu.2] at hq e1
    omega
  · have hpos := countP_pos_of_getElem? pendB ms.calls t _ ht hpt
    simp [pendB] at hpu
    unfold HCall.selfB at hq
    by_cases hbu : cu.prog.hasBcast = true
    · have hpf : cu.pend = false := by
        cases h : cu.pend
        · rfl
        · exact absurd h (by simpa using hpu hbu)
      simp [hbu, hpf] at hq e1; omega
    · simp [hbu] at hq e1; omega


/-! ## group A: a thread moves, the monitor state does not change -/

theorem relA (s : St) (ms : ProbeSt) (t : Nat) (a b : TS) (x : Nat) (bc : Bcast) (cx : List Nat)
    (d : Bool) (hR : RelP s ms) (ha : s.th[t]? = some a)
    (hinv : Inv { x := x, bc := bc, th := s.th.set t b, cx := cx, dirty := d })
    (hmono : ∀ c, s.bc.closed c = true → bc.closed c = true)
    (hcur : ∀ c, s.bc.cur = some c → bc.cur = some c)
    (hcorr : ∀ c, Corr c a → Corr c b) (hwait : IsWait a → IsWait b)
    (hh : TS.handles b = TS.handles a) (hex : ∀ c, Corr c a → Exec c b = Exec c a) :
    RelP { x := x, bc := bc, th := s.th.set t b, cx := cx, dirty := d } ms := by
  -- every thread of the new table comes from a thread of the old one
  have old : ∀ (u : Nat) (ts : TS), (s.th.set t b)[u]? = some ts →
      ∃ ts0, s.th[u]? = some ts0 ∧ TS.handles ts = TS.handles ts0 ∧
        (∀ c, Corr c ts0 → Exec c ts = Exec c ts0) ∧
        (∀ c, Corr c ts0 → Corr c ts) ∧ (IsWait ts0 → IsWait ts) := by
    intro u ts hu
    rcases getElem?_set_cases s.th t u b ts hu with ⟨hut, hx⟩ | ⟨_, hx⟩
    · subst hut; subst hx; exact ⟨a, ha, hh, hex, hcorr, hwait⟩
    · exact ⟨ts, hx, rfl, fun _ _ => rfl, fun _ h => h, fun h => h⟩
  refine ⟨hinv, by simp [hR.len], ?_, hR.cnt, hR.ent, ?_, ?_, ?_, hR.hi⟩
  · intro u ts hu
    obtain ⟨ts0, h0, _, _, hc, hw⟩ := old u ts hu
    obtain ⟨eo, he, hm⟩ := hR.corr u ts0 h0
    refine ⟨eo, he, ?_⟩
    cases eo with
    | some c => exact hc c hm
    | none => exact hw hm
  · intro u ts c hu hc k ch hk hl
    obtain ⟨ts0, h0, hh0, _, _, _⟩ := old u ts hu
    rw [hh0] at hk
    exact hmono ch (hR.own u ts0 c h0 hc k ch hk hl)
  · intro u ts c hu hc hq k ch hk hl
    obtain ⟨ts0, h0, hh0, _, _, _⟩ := old u ts hu
    rw [hh0] at hk
    exact hcur ch (hR.opn u ts0 c h0 hc hq k ch hk hl)
  · intro td tsd dd htd hdc hdb hde u ts c f hu hc hf hle ch hch
    obtain ⟨tsd0, hd0, _, hde0, _, _⟩ := old td tsd htd
    obtain ⟨ts0, h0, hh0, _, _, _⟩ := old u ts hu
    rw [hh0] at hch
    obtain ⟨eo, heo, hmo⟩ := hR.corr td tsd0 hd0
    rw [hdc] at heo; cases heo
    rw [hde0 dd hmo] at hde
    exact hmono ch (hR.clo td tsd0 dd hd0 hdc hdb hde u ts0 c f h0 hc hf hle ch hch)

/-- group A with no thread change at all -/
theorem relA0 (s : St) (ms : ProbeSt) (cx : List Nat) (hR : RelP s ms) :
    RelP { s with cx := cx } ms :=
  ⟨⟨hR.inv.bcwf, hR.inv.handles, hR.inv.parked⟩, hR.len, hR.corr, hR.cnt, hR.ent, hR.own, hR.opn,
   hR.clo, hR.hi⟩

/-! ## group B: a body runs -/

theorem relB (s : St) (ms : ProbeSt) (t : Nat) (a : TS) (p : Prog) (mk : List Nat → TS)
    (hR : RelP s ms) (ha : s.th[t]? = some a)
    (hinv : Inv (runBody s t p mk))
    (hac : ∀ c, Corr c a → c.prog = p ∧ c.pend = true ∧ c.fin = none)
    (haw : ¬ IsWait a)
    (hmk : ∀ hs, TS.handles (mk hs) = hs)
    (hmkC : ∀ c hs, Corr c a → hs.length = numGets c.prog → Corr c (mk hs)) :
    RelP (runBody s t p mk) ms := by
  obtain ⟨e1, e2, e3, e4, e5, _⟩ := exec_spec p s.x s.bc hR.inv.bcwf
  -- the entry of call t
  obtain ⟨eo, het, hmt⟩ := hR.corr t a ha
  cases eo with
  | none => exact absurd hmt haw
  | some ct =>
  simp only at hmt
  obtain ⟨hcp, hcpend, hcfin⟩ := hac ct hmt
  have hmono : ∀ c, s.bc.closed c = true → (exec p s.x s.bc).2.1.closed c = true := by
    intro c hc
    have := Bcast.closed_lt s.bc c hc
    rw [e3 c this, hc]; rfl
  have old : ∀ (u : Nat) (ts : TS), u ≠ t → (s.th.set t (mk (exec p s.x s.bc).2.2))[u]? = some ts →
      s.th[u]? = some ts := by
    intro u ts hut hu
    rcases getElem?_set_cases s.th t u _ ts hu with ⟨h, _⟩ | ⟨_, hx⟩
    · exact absurd h hut
    · exact hx
  have new : ∀ (ts : TS), (s.th.set t (mk (exec p s.x s.bc).2.2))[t]? = some ts →
      ts = mk (exec p s.x s.bc).2.2 := by
    intro ts hu
    rcases getElem?_set_cases s.th t t _ ts hu with ⟨_, hx⟩ | ⟨h, _⟩
    · exact hx
    · exact absurd rfl h
  unfold runBody
  refine ⟨by simpa [runBody] using hinv, by simp [hR.len], ?_, hR.cnt, hR.ent, ?_, ?_, ?_, hR.hi⟩
  · intro u ts hu
    simp only at hu
    by_cases hut : u = t
    · subst hut
      rw [new ts hu]
      exact ⟨some ct, het, hmkC ct _ hmt (by rw [e5, hcp])⟩
    · exact hR.corr u ts (old u ts hut hu)
  · intro u ts c hu hc k ch hk hl
    simp only at hu
    by_cases hut : u = t
    · subst hut
      rw [new ts hu, hmk] at hk
      rw [het] at hc; cases hc
      rw [hcp] at hl
      rw [(e4 k ch hk).2]; exact hl
    · exact hmono ch (hR.own u ts c (old u ts hut hu) hc k ch hk hl)
  · intro u ts c hu hc hq k ch hk hl
    simp only at hu
    by_cases hut : u = t
    · subst hut
      rw [new ts hu, hmk] at hk
      rw [het] at hc; cases hc
      rw [hcp] at hl
      exact exec_last_handles p s.x s.bc k ch hk hl
    · have h0 := old u ts hut hu
      have hcur := hR.opn u ts c h0 hc hq k ch hk hl
      -- the body cannot broadcast while another call is quiet
      have hnb : p.hasBcast = false := by
        cases hb : p.hasBcast
        · rfl
        · exfalso
          exact quiet_no_other ms u t c ct hR.cnt hc het (hR.ent u c hc) hq (by rw [hcp]; exact hb)
            hcpend (fun h => hut h.symm)
      exact (exec_nobcast p s.x s.bc hnb).1 ch hcur
  · intro td tsd dd htd hdc hdb hde u ts c f hu hc hf hle ch hch
    simp only at htd hu
    have hut : u ≠ t := by
      intro h; subst h
      rw [het] at hc; cases hc
      rw [hcfin] at hf; cases hf
    have h0 := old u ts hut hu
    by_cases hdt : td = t
    · subst hdt
      rw [het] at hdc; cases hdc
      rw [hcp] at hdb
      have hlt := hR.inv.handles u ts h0 ch hch
      rw [e3 ch hlt, hdb]; simp
    · have hd0 := old td tsd hdt htd
      exact hmono ch (hR.clo td tsd dd hd0 hdc hdb hde u ts c f h0 hc hf hle ch hch)


/-! ## group C: a lock-and-call is over -/

theorem relC (s : St) (ms : ProbeSt) (t : Nat) (a b : TS) (ran : Bool) (c : HCall)
    (hR : RelP s ms) (ha : s.th[t]? = some a)
    (hinv : Inv { s with th := s.th.set t b })
    (hc : ms.calls[t]? = some (some c)) (hpend : c.pend = true) (hfin : c.fin = none)
    (hh : TS.handles b = TS.handles a)
    (hran : ran = true → Exec c a = true)
    (hb : ∀ c' : HCall, c'.pend = false → c'.prog = c.prog →
        (ran = true → c'.fin.isSome = true) → (ran = false → c'.fin = none) →
        Corr c' b ∧ Exec c' b = ran) :
    RelP { s with th := s.th.set t b } (ms.finish t ran) := by
  let c' : HCall := { c with pend := false, fin := if ran then some ms.bInv else none }
  have hfin' : ms.finish t ran =
      { calls := ms.calls.set t (some c'), bInv := ms.bInv, bDone := ms.bDone + c.selfB,
        doneHi := if ran && c.prog.hasBcast then max ms.doneHi (c.bnum + 1) else ms.doneHi } := by
    simp [ProbeSt.finish, hc, hpend, c']
  rw [hfin']
  obtain ⟨hcb, heb⟩ := hb c' rfl rfl (by intro h; simp [c', h]) (by intro h; simp [c', h])
  have hec := hR.ent t c hc
  have oldT : ∀ (u : Nat) (ts : TS), u ≠ t → (s.th.set t b)[u]? = some ts → s.th[u]? = some ts := by
    intro u ts hut hu
    rcases getElem?_set_cases s.th t u _ ts hu with ⟨h, _⟩ | ⟨_, hx⟩
    · exact absurd h hut
    · exact hx
  have newT : ∀ (ts : TS), (s.th.set t b)[t]? = some ts → ts = b := by
    intro ts hu
    rcases getElem?_set_cases s.th t t _ ts hu with ⟨_, hx⟩ | ⟨h, _⟩
    · exact hx
    · exact absurd rfl h
  have oldE : ∀ (u : Nat) (e : HCall), u ≠ t → (ms.calls.set t (some c'))[u]? = some (some e) →
      ms.calls[u]? = some (some e) := by
    intro u e hut hu
    rcases getElem?_set_cases ms.calls t u _ _ hu with ⟨h, _⟩ | ⟨_, hx⟩
    · exact absurd h hut
    · exact hx
  have newE : ∀ (e : HCall), (ms.calls.set t (some c'))[t]? = some (some e) → e = c' := by
    intro e hu
    rcases getElem?_set_cases ms.calls t t _ _ hu with ⟨_, hx⟩ | ⟨h, _⟩
    · simpa using hx
    · exact absurd rfl h
  have hlt : t < ms.calls.length := lt_of_getElem? hc
  refine ⟨hinv, by simp [hR.len], ?_, ?_, ?_, ?_, ?_, ?_, ?_⟩
  · -- corr
    intro u ts hu
    simp only at hu
    by_cases hut : u = t
    · subst hut
      rw [newT ts hu]
      exact ⟨some c', by simp [hlt], hcb⟩
    · obtain ⟨eo, he, hm⟩ := hR.corr u ts (oldT u ts hut hu)
      exact ⟨eo, by simp only; rw [getElem?_set_ne' _ _ _ _ (fun h => hut h.symm)]; exact he, hm⟩
  · -- cnt
    have h := countP_set pendB ms.calls t (some c) (some c') hc
    have h1 : pendB (some c') = false := by simp [pendB, c']
    have h2 : pendB (some c) = c.prog.hasBcast := by simp [pendB, hpend]
    rw [h1, h2] at h
    have := hR.cnt
    simp only
    unfold HCall.selfB
    cases hb' : c.prog.hasBcast <;> simp [hb'] at h ⊢ <;> omega
  · -- ent
    intro u e hu
    simp only at hu
    by_cases hut : u = t
    · subst hut
      rw [newE e hu]
      obtain ⟨e1, e2, e3, e4⟩ := hec
      refine ⟨?_, e2, ?_, e4⟩
      · simp only [c', hpend] at e1 ⊢
        unfold HCall.selfB
        cases c.prog.hasBcast <;> simp at e1 ⊢ <;> omega
      · intro f hf
        simp only [c'] at hf
        cases ran <;> simp at hf
        subst hf; exact Nat.le_refl _
    · obtain ⟨e1, e2, e3, e4⟩ := hR.ent u e (oldE u e hut hu)
      exact ⟨by simp only; omega, e2, e3, e4⟩
  · -- own
    intro u ts e hu he k ch hk hl
    simp only at hu he
    by_cases hut : u = t
    · subst hut
      rw [newT ts hu, hh] at hk
      rw [newE e he] at hl
      exact hR.own u a c ha hc k ch hk hl
    · exact hR.own u ts e (oldT u ts hut hu) (oldE u e hut he) k ch hk hl
  · -- opn
    intro u ts e hu he hq k ch hk hl
    simp only at hu he hq
    by_cases hut : u = t
    · subst hut
      rw [newT ts hu, hh] at hk
      rw [newE e he] at hl hq
      exact hR.opn u a c ha hc hq k ch hk hl
    · exact hR.opn u ts e (oldT u ts hut hu) (oldE u e hut he) hq k ch hk hl
  · -- clo
    intro td tsd dd htd hdc hdb hde u ts e f hu he hf hle ch hch
    simp only at htd hdc hu he
    -- the finishing call itself cannot be the "earlier finished" one: its fin is the current bInv
    have key : ∀ (d0 : HCall) (td0 : Nat), ms.calls[td0]? = some (some d0) → d0.prog.hasBcast = true →
        ∀ f0, c'.fin = some f0 → ¬ f0 ≤ d0.bnum := by
      intro d0 td0 hd0 hb0 f0 hf0
      have := (hR.ent td0 d0 hd0).2.1 hb0
      simp only [c'] at hf0
      cases ran <;> simp at hf0
      subst hf0; omega
    by_cases hdt : td = t
    · subst hdt
      rw [newE dd hdc] at hdb hle
      rw [newT tsd htd, newE dd hdc, heb] at hde
      by_cases hut : u = td
      · subst hut
        rw [newE e he] at hf
        exact absurd hle (key c u hc hdb f hf)
      · exact hR.clo td a c ha hc hdb (hran hde) u ts e f (oldT u ts hut hu) (oldE u e hut he) hf hle ch hch
    · have hd0 := oldT td tsd hdt htd
      have hdc0 := oldE td dd hdt hdc
      by_cases hut : u = t
      · subst hut
        rw [newE e he] at hf
        exact absurd hle (key dd td hdc0 hdb f hf)
      · exact hR.clo td tsd dd hd0 hdc0 hdb hde u ts e f (oldT u ts hut hu) (oldE u e hut he) hf hle ch hch
  · -- hi
    simp only
    have keep : ∀ (td : Nat) (d : HCall), ms.calls[td]? = some (some d) → d.fin.isSome = true →
        (ms.calls.set t (some c'))[td]? = some (some d) := by
      intro td d hd hf
      have hne : t ≠ td := by
        intro h; subst h
        rw [hc] at hd; cases hd
        simp [hfin] at hf
      rw [getElem?_set_ne' _ _ _ _ hne]; exact hd
    by_cases hcond : (ran && c.prog.hasBcast) = true
    · simp only [hcond, if_true]
      simp at hcond
      by_cases hmax : ms.doneHi ≤ c.bnum + 1
      · right
        refine ⟨t, c', by simp [hlt], hcond.2, by simp [c', hcond.1], ?_⟩
        simp only [c']; omega
      · rcases hR.hi with h0 | ⟨td, d, h1, h2, h3, h4⟩
        · omega
        · right
          exact ⟨td, d, keep td d h1 h3, h2, h3, by omega⟩
    · simp only [hcond]
      rcases hR.hi with h0 | ⟨td, d, h1, h2, h3, h4⟩
      · left; simpa using h0
      · right; exact ⟨td, d, keep td d h1 h3, h2, h3, by simpa using h4⟩

/-! ## group D: a call is invoked -/

theorem relD (s : St) (ms : ProbeSt) (b : TS) (eo : Option HCall) (nb : Nat)
    (hR : RelP s ms) (hinv : Inv { s with th := s.th ++ [b] })
    (hh : TS.handles b = []) (hex : ∀ c, Exec c b = false)
    (hcb : match eo with
      | some c => Corr c b
      | none => IsWait b)
    (heo : ∀ c, eo = some c → c.doneAtInv = ms.bDone ∧ c.bnum = ms.bInv ∧ c.fin = none ∧
      c.pend = true ∧ nb = c.selfB)
    (hnone : eo = none → nb = 0) :
    RelP { s with th := s.th ++ [b] }
      { calls := ms.calls ++ [eo], bInv := ms.bInv + nb, bDone := ms.bDone, doneHi := ms.doneHi } := by
  have oldT : ∀ (u : Nat) (ts : TS), (s.th ++ [b])[u]? = some ts →
      (u < s.th.length ∧ s.th[u]? = some ts) ∨ (u = s.th.length ∧ ts = b) :=
    fun u ts hu => getElem?_snoc_cases s.th b ts u hu
  have oldE : ∀ (u : Nat) (e : Option HCall), (ms.calls ++ [eo])[u]? = some e →
      (u < ms.calls.length ∧ ms.calls[u]? = some e) ∨ (u = ms.calls.length ∧ e = eo) :=
    fun u e hu => getElem?_snoc_cases ms.calls eo e u hu
  have hlen := hR.len
  have hbd : ms.bDone ≤ ms.bInv := by have := hR.cnt; omega
  refine ⟨hinv, by simp [hR.len], ?_, ?_, ?_, ?_, ?_, ?_, ?_⟩
  · intro u ts hu
    rcases oldT u ts hu with ⟨hlt, h0⟩ | ⟨hul, hts⟩
    · obtain ⟨e, he, hm⟩ := hR.corr u ts h0
      exact ⟨e, getElem?_snoc_left _ _ _ _ he, hm⟩
    · subst hts
      exact ⟨eo, by simp only; rw [hul, ← hlen]; simp, hcb⟩
  · simp only [countP_append_one]
    have := hR.cnt
    cases eo with
    | none => simp [pendB, hnone rfl]; omega
    | some c =>
      obtain ⟨_, _, _, hp, hn⟩ := heo c rfl
      simp only [pendB, hp, Bool.and_true, hn, HCall.selfB]
      omega
  · intro u e hu
    rcases oldE u (some e) hu with ⟨_, h0⟩ | ⟨_, he⟩
    · obtain ⟨e1, e2, e3, e4⟩ := hR.ent u e h0
      exact ⟨e1, fun h => by have := e2 h; simp only; omega, fun f hf => by have := e3 f hf; simp only; omega,
        by simp only; omega⟩
    · obtain ⟨h1, h2, h3, h4, h5⟩ := heo e he.symm
      unfold EntOK
      refine ⟨?_, ?_, ?_, ?_⟩
      · simp [h1, h4]
      · intro hb
        have hn1 : nb = 1 := by rw [h5]; simp [HCall.selfB, hb]
        show e.bnum < ms.bInv + nb
        omega
      · intro f hf; rw [h3] at hf; cases hf
      · simp only; omega
  · intro u ts e hu he k ch hk hl
    rcases oldT u ts hu with ⟨_, h0⟩ | ⟨_, hts⟩
    · rcases oldE u (some e) he with ⟨_, he0⟩ | ⟨hul, _⟩
      · exact hR.own u ts e h0 he0 k ch hk hl
      · have := lt_of_getElem? h0; omega
    · subst hts; simp [hh] at hk
  · intro u ts e hu he hq k ch hk hl
    simp only at hq
    rcases oldT u ts hu with ⟨_, h0⟩ | ⟨_, hts⟩
    · rcases oldE u (some e) he with ⟨_, he0⟩ | ⟨hul, _⟩
      · have e4 := (hR.ent u e he0).2.2.2
        have hnb : nb = 0 := by omega
        exact hR.opn u ts e h0 he0 (by omega) k ch hk hl
      · have := lt_of_getElem? h0; omega
    · subst hts; simp [hh] at hk
  · intro td tsd dd htd hdc hdb hde u ts e f hu he hf hle ch hch
    rcases oldT td tsd htd with ⟨_, hd0⟩ | ⟨_, hts⟩
    · rcases oldE td (some dd) hdc with ⟨_, hdc0⟩ | ⟨hul, _⟩
      · rcases oldT u ts hu with ⟨_, h0⟩ | ⟨_, hts⟩
        · rcases oldE u (some e) he with ⟨_, he0⟩ | ⟨hul, _⟩
          · exact hR.clo td tsd dd hd0 hdc0 hdb hde u ts e f h0 he0 hf hle ch hch
          · have := lt_of_getElem? h0; omega
        · subst hts; simp [hh] at hch
      · have := lt_of_getElem? hd0; omega
    · subst hts; rw [hex] at hde; cases hde
  · simp only
    rcases hR.hi with h0 | ⟨td, d, h1, h2, h3, h4⟩
    · exact Or.inl h0
    · exact Or.inr ⟨td, d, getElem?_snoc_left _ _ _ _ h1, h2, h3, h4⟩


/-! ## the simulation step -/

theorem waitAttempt_relP (s : St) (ms : ProbeSt) (t : Nat) (a : TS) (p : Pred) (hR : RelP s ms)
    (ha : s.th[t]? = some a) (hac : ∀ c, ¬ Corr c a)
    (hah : TS.handles a = []) : RelP (waitAttempt s t p) ms := by
  have hinv := waitAttempt_inv s t a p hR.inv ha
  cases hev : p.eval s.x with
  | done =>
    simp only [waitAttempt, hev] at hinv ⊢
    exact relA s ms t a _ s.x s.bc s.cx s.dirty hR ha hinv (fun _ h => h) (fun _ h => h)
      (fun c h => absurd h (hac c)) (fun _ => trivial) (by rw [hah]; rfl) (fun c h => absurd h (hac c))
  | error =>
    simp only [waitAttempt, hev] at hinv ⊢
    exact relA s ms t a _ s.x s.bc s.cx s.dirty hR ha hinv (fun _ h => h) (fun _ h => h)
      (fun c h => absurd h (hac c)) (fun _ => trivial) (by rw [hah]; rfl) (fun c h => absurd h (hac c))
  | notyet =>
    simp only [waitAttempt, hev] at hinv ⊢
    refine relA s ms t a _ s.x _ s.cx s.dirty hR ha hinv
      (fun c h => Bcast.closed_mono_get s.bc hR.inv.bcwf c h) ?_
      (fun c h => absurd h (hac c)) (fun _ => trivial) (by rw [hah]; rfl) (fun c h => absurd h (hac c))
    intro c hc
    rw [(getWaitCh_keep s.bc c hc).1]; exact hc

theorem probe_sim_step (s : St) (e : Ev) (s' : St) (ms : ProbeSt) (hR : RelP s ms)
    (hs : step s e = some s') :
    match Ev.obs e with
    | none => RelP s' ms
    | some o => ∃ ms', monProbe.step ms o = some ms' ∧ RelP s' ms' := by
  have hinv' := step_inv s e s' hR.inv hs
  cases e with
  | invHold t k p =>
    simp only [step] at hs; split at hs <;> try simp at hs
    rename_i hlen
    simp only [Ev.obs, monProbe]
    refine ⟨_, rfl, ?_⟩
    split at hs <;> simp at hs <;> subst hs
    · exact relD s ms _ (some { prog := p, doneAtInv := ms.bDone, bnum := ms.bInv }) _ hR hinv' rfl
        (fun _ => rfl) (by simp [Corr]) (by intro c hc; cases hc; simp [HCall.selfB]) (by intro h; cases h)
    · rename_i hk
      exact relD s ms _ (some { prog := p, doneAtInv := ms.bDone, bnum := ms.bInv }) _ hR hinv' rfl
        (fun _ => rfl) (by simp [Corr]; intro h; exact hk h)
        (by intro c hc; cases hc; simp [HCall.selfB]) (by intro h; cases h)
  | holdCS t =>
    simp only [step] at hs; split at hs <;> simp at hs <;> subst hs
    · rename_i k p h
      exact relB s ms t _ p _ hR h hinv'
        (by intro c hc; simp only [Corr] at hc; obtain ⟨h1, h2, h3, _⟩ := hc; exact ⟨h1, h2, h3⟩)
        (by simp [IsWait]) (fun _ => rfl)
        (by intro c hs hc hl; simp only [Corr] at hc ⊢; obtain ⟨_, h2, h3, h4⟩ := hc; exact ⟨h2, h3, hl, h4⟩)
    · rename_i p rt h
      exact relB s ms t _ p _ hR h hinv' (by intro c hc; simp only [Corr] at hc; exact hc)
        (by simp [IsWait]) (fun _ => rfl)
        (by intro c hs hc hl; simp only [Corr] at hc ⊢; obtain ⟨_, h2, h3⟩ := hc; exact ⟨h2, h3, hl⟩)
  | tryFail t =>
    simp only [step] at hs; split at hs <;> simp at hs; subst hs
    rename_i p h
    exact relA s ms t _ _ s.x s.bc s.cx s.dirty hR h hinv' (fun _ h => h) (fun _ h => h)
      (by intro c hc; simp only [Corr] at hc ⊢; obtain ⟨_, h2, h3, _⟩ := hc; exact ⟨h2, h3⟩) (by simp [IsWait]) rfl (fun _ _ => rfl)
  | retHold t k ok =>
    simp only [step] at hs; split at hs <;> try simp at hs
    · -- holdRan → done
      obtain ⟨⟨hk, hok⟩, rfl⟩ := hs; rename_i k' hs' h
      subst hk; subst hok
      obtain ⟨eo, he, hm⟩ := hR.corr t _ h
      cases eo with
      | none => simp [IsWait] at hm
      | some c =>
        simp only [Corr] at hm
        have hC := relC s ms t _ (.done hs') true c hR h hinv' he hm.1 hm.2.1 rfl (fun _ => rfl)
          (by intro c' h1 h2 h3 _
              refine ⟨?_, by simp [Exec, h3 rfl]⟩
              simp only [Corr]; exact ⟨h1, Or.inl ⟨h3 rfl, by rw [h2]; exact hm.2.2.1⟩⟩)
        simp only [Ev.obs, monProbe]
        cases k with
        | hold => exact ⟨_, rfl, hC⟩
        | «try» => exact ⟨_, rfl, hC⟩
        | maybe => exact absurd rfl hm.2.2.2
    · -- tryFailed → done []
      obtain ⟨⟨hk, hok⟩, rfl⟩ := hs; rename_i h
      subst hk; subst hok
      obtain ⟨eo, he, hm⟩ := hR.corr t _ h
      cases eo with
      | none => simp [IsWait] at hm
      | some c =>
        simp only [Corr] at hm
        have hC := relC s ms t _ (.done []) false c hR h hinv' he hm.1 hm.2 rfl (by intro h; cases h)
          (by intro c' h1 h2 _ h4
              refine ⟨?_, by simp [Exec, h4 rfl]⟩
              simp [Corr, h1, h4 rfl])
        exact ⟨_, rfl, hC⟩
    · -- mInv p false → mInv p true
      obtain ⟨⟨hk, hok⟩, rfl⟩ := hs; rename_i p h
      subst hk
      refine ⟨ms, rfl, ?_⟩
      exact relA s ms t _ _ s.x s.bc s.cx s.dirty hR h hinv' (fun _ h => h) (fun _ h => h)
        (by intro c hc; simpa [Corr] using hc) (by simp [IsWait]) rfl (fun _ _ => rfl)
    · -- mRan hs cb false → done / mRan hs false true
      obtain ⟨⟨hk, hok⟩, rfl⟩ := hs; rename_i hs' cb h
      subst hk
      refine ⟨ms, rfl, ?_⟩
      cases cb with
      | true =>
        exact relA s ms t _ _ s.x s.bc s.cx s.dirty hR h (by simpa using hinv') (fun _ h => h) (fun _ h => h)
          (by intro c hc; simp [Corr] at hc ⊢; exact ⟨hc.1, Or.inl ⟨hc.2.1, hc.2.2⟩⟩)
          (by simp [IsWait]) rfl
          (by intro c hc; simp only [Corr] at hc; simp [Exec, hc.2.1])
      | false =>
        exact relA s ms t _ _ s.x s.bc s.cx s.dirty hR h (by simpa using hinv') (fun _ h => h) (fun _ h => h)
          (by intro c hc; simpa [Corr] using hc) (by simp [IsWait]) rfl (fun _ _ => rfl)
  | cbout t =>
    simp only [step] at hs; split at hs <;> simp at hs; subst hs
    rename_i hs' rt h
    obtain ⟨eo, he, hm⟩ := hR.corr t _ h
    cases eo with
    | none => simp [IsWait] at hm
    | some c =>
      simp only [Corr] at hm
      refine ⟨_, rfl, ?_⟩
      refine relC s ms t _ _ true c hR h hinv' he hm.1 hm.2.1 (by cases rt <;> rfl) (fun _ => rfl) ?_
      intro c' h1 h2 h3 _
      cases rt with
      | true =>
        refine ⟨?_, by simp [Exec, h3 rfl]⟩
        simp only [if_true, Corr]; exact ⟨h1, Or.inl ⟨h3 rfl, by rw [h2]; exact hm.2.2⟩⟩
      | false =>
        refine ⟨?_, by simp [Exec]⟩
        simp only [Bool.false_eq_true, if_false, Corr]; exact ⟨h1, h3 rfl, by rw [h2]; exact hm.2.2⟩
  | bodyIn t => rw [step_bodyIn s s' t hs]; exact ⟨ms, rfl, hR⟩
  | bodyOut t => rw [step_bodyOut s s' t hs]; exact ⟨ms, rfl, hR⟩
  | invWait t p =>
    simp only [step] at hs; split at hs <;> try simp at hs
    simp only [Ev.obs, monProbe]
    refine ⟨_, rfl, ?_⟩
    have h0 : ms.bInv = ms.bInv + 0 := rfl
    split at hs <;> simp at hs <;> subst hs
    · have := relD s ms _ none 0 hR hinv' rfl (fun _ => rfl) (by simp [IsWait]) (by intro c h; cases h) (fun _ => rfl)
      simpa using this
    · have := relD s ms _ none 0 hR hinv' rfl (fun _ => rfl) (by simp [IsWait]) (by intro c h; cases h) (fun _ => rfl)
      simpa using this
  | waitCS t =>
    simp only [step] at hs; split at hs <;> simp at hs; subst hs
    rename_i p h
    exact waitAttempt_relP s ms t _ p hR h (by intro c; simp [Corr]) rfl
  | wakeCS t =>
    simp only [step] at hs; split at hs <;> simp at hs
    obtain ⟨_, rfl⟩ := hs; rename_i p c h _
    exact waitAttempt_relP s ms t _ p hR h (by intro c; simp [Corr]) rfl
  | ctxRet t =>
    simp only [step] at hs; split at hs <;> simp at hs
    obtain ⟨_, rfl⟩ := hs; rename_i p h _
    exact relA s ms t _ _ s.x s.bc s.cx s.dirty hR h hinv' (fun _ h => h) (fun _ h => h)
      (by intro c hc; simp [Corr] at hc) (by simp [IsWait]) rfl (fun c hc => by simp [Corr] at hc)
  | ctxTake t =>
    simp only [step] at hs; split at hs <;> simp at hs
    obtain ⟨_, rfl⟩ := hs; rename_i p c h _
    exact relA s ms t _ _ s.x s.bc s.cx s.dirty hR h hinv' (fun _ h => h) (fun _ h => h)
      (by intro c hc; simp [Corr] at hc) (by simp [IsWait]) rfl (fun c hc => by simp [Corr] at hc)
  | retWait t r =>
    simp only [step] at hs; split at hs <;> simp at hs
    obtain ⟨_, rfl⟩ := hs; rename_i r' h _
    refine ⟨ms, rfl, ?_⟩
    exact relA s ms t _ _ s.x s.bc s.cx s.dirty hR h hinv' (fun _ h => h) (fun _ h => h)
      (by intro c hc; simp [Corr] at hc) (by simp [IsWait]) rfl (fun c hc => by simp [Corr] at hc)
  | envCancel t =>
    simp only [step] at hs; split at hs <;> simp at hs; subst hs
    exact ⟨ms, rfl, relA0 s ms _ hR⟩
  | probe t k cl =>
    simp only [step] at hs; split at hs <;> try simp at hs
    rename_i hs' h
    split at hs <;> try simp at hs
    rename_i ch hk
    obtain ⟨hcl, rfl⟩ := hs
    simp only [Ev.obs, monProbe]
    obtain ⟨eo, he, hm⟩ := hR.corr t _ h
    cases eo with
    | none => exact ⟨ms, by simp [he], hR⟩
    | some c =>
      simp only [he]
      cases hf : c.fin with
      | none => exact ⟨ms, rfl, hR⟩
      | some f =>
        simp only
        have hlen := handles_len c _ hm (by simp [hf])
        have hklt : k < numGets c.prog := by
          rw [← hlen]; exact lt_of_getElem? hk
        simp only [hklt, if_true]
        cases cl with
        | true =>
          simp only [if_true]
          by_cases hq : (!laterBcast c.prog k && ms.bInv == c.doneAtInv + c.selfB) = true
          · exfalso
            simp at hq
            have hcur := hR.opn t _ c h he hq.2 k ch hk hq.1
            unfold Bcast.closed at hcl
            simp [hcur] at hcl
          · simp only [hq]; exact ⟨ms, rfl, hR⟩
        | false =>
          simp only [Bool.false_eq_true, if_false]
          by_cases hq : (laterBcast c.prog k || decide (f < ms.doneHi)) = true
          · exfalso
            simp at hq
            rcases hq with hq | hq
            · have := hR.own t _ c h he k ch hk hq
              rw [this] at hcl; cases hcl
            · rcases hR.hi with h0 | ⟨td, d, h1, h2, h3, h4⟩
              · omega
              · have hltd : td < s.th.length := by rw [← hR.len]; exact lt_of_getElem? h1
                obtain ⟨tsd, htsd⟩ : ∃ tsd, s.th[td]? = some tsd := ⟨s.th[td], by simp [hltd]⟩
                obtain ⟨eo', he', hm'⟩ := hR.corr td tsd htsd
                rw [h1] at he'; cases he'
                have hex := exec_of_fin d tsd hm' h3
                have := hR.clo td tsd d htsd h1 h2 hex t _ c f h he hf (by omega) ch
                  (List.mem_of_getElem? hk)
                rw [this] at hcl; cases hcl
          · simp only [hq]; exact ⟨ms, rfl, hR⟩
  | quiesce B =>
    simp only [step] at hs; split at hs <;> simp at hs; subst hs
    exact ⟨ms, rfl, hR⟩

end UtilModel.Broadcast
