import UtilModel.Core.LTS
import UtilModel.Core.Bcast
import UtilModel.Core.Count
/-!
# broadcast.Broadcast — model (broadcast/broadcast.go)

A `Broadcast` guarding one harness-owned variable `x : Nat`.

One *thread* = one API call, numbered in invocation order by the harness:

* `HoldLock` / `TryHoldLock` / `HoldLockMaybeAsync` with a callback body that is a short program
  over `{getWaitCh, broadcast, x := v}` (`Prog`). The body runs under the mutex, so **one body = one
  atomic event** (`holdCS`); `TryHoldLock` may instead fail (`tryFail`, always possible: an
  over-approximation of "the mutex was held at that instant"); the body of `HoldLockMaybeAsync` may run
  before or after the function returns (fast path / fresh goroutine).
* `Wait(ctx, pred)` with `pred` from a small family; its critical section evaluates the predicate and,
  if it is neither done nor failed, samples the wait channel **in the same critical section**
  (broadcast.go:83-92), then blocks in a `select` on ctx.Done and that channel.

The marks `cbin t` / `cbend t` logged at the start and end of every body (and of every predicate
evaluation of `Wait`) are observable events that change nothing here; `Lock.lean` layers the mutex on
top of this model (a body is `cbin`, one atomic event, `cbend`, and bodies never overlap).

Wait channels are the channel generations of `Core/Bcast.lean`; a *handle* is a channel id returned
by a `getWaitCh` of a body and kept by the harness, which probes it with non-blocking receives.
-/
namespace UtilModel.Broadcast
open UtilModel

/-- one statement of a critical-section body -/
inductive Op where
  | get               -- `h := getWaitCh()`; the handle is kept
  | bcast             -- `broadcast()`
  | set (v : Nat)     -- `x = v`
  | panic             -- the body panics here (last statement); the caller recovers. No effect on the
                      -- guarded state: the library releases the mutex in a deferred call
deriving DecidableEq, Repr, Hashable

abbrev Prog := List Op

/-- the predicate family of `Wait` -/
inductive Pred where
  | eq (v : Nat)      -- done when x = v
  | ge (v : Nat)      -- done when x ≥ v
  | err (v : Nat)     -- returns an error when x = v, otherwise not done
deriving DecidableEq, Repr, Hashable

inductive PRes where
  | done | notyet | error
deriving DecidableEq, Repr

def Pred.eval : Pred → Nat → PRes
  | .eq v, x => if x = v then .done else .notyet
  | .ge v, x => if v ≤ x then .done else .notyet
  | .err v, x => if x = v then .error else .notyet

/-- which of the three lock-and-call functions -/
inductive HKind where
  | hold | try | maybe
deriving DecidableEq, Repr, Hashable

/-- result of `Wait` -/
inductive WRes where
  | nil | err | canceled | badarg
deriving DecidableEq, Repr, Hashable

/-- per-call state -/
inductive TS where
  | holdInv (k : HKind) (p : Prog)       -- HoldLock/TryHoldLock invoked; body not yet run (k ≠ maybe)
  | holdRan (k : HKind) (hs : List Nat)  -- body has run and obtained handles `hs`; not yet returned
  | tryFailed                            -- TryLock failed; not yet returned
  | mInv (p : Prog) (rt : Bool)          -- HoldLockMaybeAsync invoked, body not yet run; rt: function returned
  | mRan (hs : List Nat) (cb rt : Bool)  -- its body has run; cb: end of body logged; rt: function returned
  | done (hs : List Nat)                 -- call over; the harness holds the handles `hs`
  | wInv (p : Pred)                      -- Wait at the top of its loop (just invoked, or woken)
  | wParked (p : Pred) (ch : Nat)        -- blocked in the select on ctx.Done and channel `ch`
  | wRet (r : WRes)                      -- about to return `r`
deriving DecidableEq, Repr, Hashable

/-- effect of a whole body, executed atomically under the mutex, on `x` and the broadcast state,
and the handles it obtained (in program order) -/
def exec : Prog → Nat → Bcast → Nat × Bcast × List Nat
  | [], x, bc => (x, bc, [])
  | .get :: r, x, bc =>
    let o := exec r x bc.getWaitCh.1
    (o.1, o.2.1, bc.getWaitCh.2 :: o.2.2)
  | .bcast :: r, x, bc => exec r x bc.broadcast
  | .set v :: r, _, bc => exec r v bc
  | .panic :: r, x, bc => exec r x bc

/-- the body calls `broadcast()` -/
def Prog.hasBcast : Prog → Bool
  | [] => false
  | .bcast :: _ => true
  | _ :: r => Prog.hasBcast r

/-- does a `broadcast()` follow the `k`-th `getWaitCh()` of the body? -/
def laterBcast : Prog → Nat → Bool
  | [], _ => false
  | .get :: r, 0 => Prog.hasBcast r
  | .get :: r, k+1 => laterBcast r k
  | .bcast :: r, k => laterBcast r k
  | .set _ :: r, k => laterBcast r k
  | .panic :: r, k => laterBcast r k

def numGets : Prog → Nat
  | [] => 0
  | .get :: r => numGets r + 1
  | _ :: r => numGets r

/-- the value `x` has after the body, if the body assigns it -/
def lastSet : Prog → Option Nat
  | [] => none
  | .set v :: r => match lastSet r with
    | some w => some w
    | none => some v
  | _ :: r => lastSet r

structure St where
  x : Nat := 0
  bc : Bcast := {}
  th : List TS := []
  cx : List Nat := []     -- calls whose context has been cancelled
  /-- ghost: some body changed `x` without broadcasting (the discipline of C03's last clause was
  broken); no transition depends on it -/
  dirty : Bool := false
deriving DecidableEq, Repr

/-! ### state merging in the subset construction

Channel ids are names: all that matters about a channel is whether it is closed (for good) or is the
one open channel `bc.cur`. `St.norm` forgets which closed channel a thread or handle refers to; two
states with the same `norm` have the same enabled events and successors with the same `norm`
(they are bisimilar), so the subset construction may merge them. `accepts_sound` holds for *any*
`BEq` on states, so this choice cannot make the check unsound; it only keeps the state sets small
when many calls overlap. A waiter parked on a closed channel is merged with a waiter at the top of
its loop: both have exactly the critical section and the ctx branch enabled, with the same effect. -/

def St.ren (s : St) (c : Nat) : Nat := if s.bc.closed c then 0 else 1

def TS.norm (s : St) : TS → TS
  | .holdRan k hs => .holdRan k (hs.map s.ren)
  | .mRan hs cb rt => .mRan (hs.map s.ren) cb rt
  | .done hs => .done (hs.map s.ren)
  | .wParked p c => if s.bc.closed c then .wInv p else .wParked p 1
  | ts => ts

def St.norm (s : St) : Nat × Bool × List TS × List Nat × Bool :=
  (s.x, s.bc.cur.isSome, s.th.map (TS.norm s), s.cx, s.dirty)

instance (priority := high) instBEqSt : BEq St := ⟨fun a b => a.norm == b.norm⟩

/-- consistent with `instBEqSt` (used by the hash-indexed checker) -/
instance instHashableSt : Hashable St := ⟨fun s => hash s.norm⟩

/-- observable events: exactly what the harness logs -/
inductive Obs where
  | invHold (t : Nat) (k : HKind) (p : Prog)  -- `inv t hold|tryhold|mhold <prog>`
  | retHold (t : Nat) (k : HKind) (ok : Bool) -- `ret t hold` / `ret t tryhold true|false` / `ret t mhold`
  | cbout (t : Nat)                           -- `cbout t`: body of mhold call t finished (logged in the body)
  | bodyIn (t : Nat)                          -- `cbin t`: a callback body / predicate evaluation of call t starts (logged in it)
  | bodyOut (t : Nat)                         -- `cbend t`: it ends (logged in it, still under the mutex)
  | invWait (t : Nat) (p : Option Pred)       -- `inv t wait eq|ge|err v` / `inv t wait nilcb`
  | retWait (t : Nat) (r : WRes)              -- `ret t wait nil|err|canceled|badarg`
  | envCancel (t : Nat)                       -- `env cancel t`
  | probe (t k : Nat) (closed : Bool)         -- `probe t k open|closed`: k-th handle of call t
  | quiesce (pending : List Nat)
deriving DecidableEq, Repr

inductive Ev where
  | invHold (t : Nat) (k : HKind) (p : Prog)
  | holdCS (t : Nat)                 -- the body runs (one critical section)
  | tryFail (t : Nat)                -- TryLock returned false
  | retHold (t : Nat) (k : HKind) (ok : Bool)
  | cbout (t : Nat)
  | bodyIn (t : Nat)
  | bodyOut (t : Nat)
  | invWait (t : Nat) (p : Option Pred)
  | waitCS (t : Nat)                 -- critical section of Wait at the top of the loop
  | wakeCS (t : Nat)                 -- wait channel closed: loop, critical section again
  | ctxRet (t : Nat)                 -- ctx.Err() ≠ nil at the top of the loop
  | ctxTake (t : Nat)                -- select took ctx.Done
  | retWait (t : Nat) (r : WRes)
  | envCancel (t : Nat)
  | probe (t k : Nat) (closed : Bool)
  | quiesce (pending : List Nat)
deriving DecidableEq, Repr

def Ev.obs : Ev → Option Obs
  | .invHold t k p => some (.invHold t k p)
  | .retHold t k ok => some (.retHold t k ok)
  | .cbout t => some (.cbout t)
  | .bodyIn t => some (.bodyIn t)
  | .bodyOut t => some (.bodyOut t)
  | .invWait t p => some (.invWait t p)
  | .retWait t r => some (.retWait t r)
  | .envCancel t => some (.envCancel t)
  | .probe t k c => some (.probe t k c)
  | .quiesce B => some (.quiesce B)
  | _ => none

def Obs.ev : Obs → Ev
  | .invHold t k p => .invHold t k p
  | .retHold t k ok => .retHold t k ok
  | .cbout t => .cbout t
  | .bodyIn t => .bodyIn t
  | .bodyOut t => .bodyOut t
  | .invWait t p => .invWait t p
  | .retWait t r => .retWait t r
  | .envCancel t => .envCancel t
  | .probe t k c => .probe t k c
  | .quiesce B => .quiesce B

theorem Obs.ev_obs (o : Obs) : o.ev.obs = some o := by cases o <;> rfl

def internalCands (n : Nat) : List Ev :=
  (List.range n).flatMap fun t => [.holdCS t, .tryFail t, .waitCS t, .wakeCS t, .ctxRet t, .ctxTake t]

/-- the critical section of `Wait` (broadcast.go:83-92): evaluate the predicate; when it is neither
done nor failed, take the wait channel in the same critical section -/
def waitAttempt (s : St) (t : Nat) (p : Pred) : St :=
  match p.eval s.x with
  | .done => { s with th := s.th.set t (.wRet .nil) }
  | .error => { s with th := s.th.set t (.wRet .err) }
  | .notyet => { s with bc := s.bc.getWaitCh.1, th := s.th.set t (.wParked p s.bc.getWaitCh.2) }

/-- state after the body `p` of call `t` ran; `mk` builds the call's next state from the handles -/
def runBody (s : St) (t : Nat) (p : Prog) (mk : List Nat → TS) : St :=
  let r := exec p s.x s.bc
  { s with x := r.1, bc := r.2.1, th := s.th.set t (mk r.2.2)
           dirty := s.dirty || (r.1 != s.x && !p.hasBcast) }

def TS.quiet (s : St) (t : Nat) : TS → Bool
  | .wParked _ ch => !s.bc.closed ch && !s.cx.contains t
  | .done _ => true
  | _ => false

def pendingIds (s : St) : List Nat :=
  (List.range s.th.length).filter fun t => match s.th[t]? with
    | some (.wParked _ _) => true
    | _ => false

def quiescent (s : St) : Bool :=
  (List.range s.th.length).all fun t => match s.th[t]? with
    | some ts => TS.quiet s t ts
    | none => true

/-- call `t` is about to run a callback body / evaluate its predicate under the mutex -/
def preBody (s : St) (t : Nat) : Bool :=
  match s.th[t]? with
  | some (.holdInv _ _) => true
  | some (.mInv _ _) => true
  | some (.wInv _) => true
  | some (.wParked _ c) => s.bc.closed c
  | _ => false

/-- call `t` has run its body / evaluated its predicate -/
def postBody (s : St) (t : Nat) : Bool :=
  match s.th[t]? with
  | some (.holdRan _ _) => true
  | some (.mRan _ false _) => true
  | some (.wRet _) => true
  | some (.wParked _ _) => true
  | _ => false

def step (s : St) : Ev → Option St
  | .invHold t k p =>
    if t = s.th.length then
      match k with
      | .maybe => some { s with th := s.th ++ [.mInv p false] }
      | _ => some { s with th := s.th ++ [.holdInv k p] }
    else none
  | .holdCS t =>
    match s.th[t]? with
    | some (.holdInv k p) => some (runBody s t p (.holdRan k))
    | some (.mInv p rt) => some (runBody s t p (fun hs => .mRan hs false rt))
    | _ => none
  | .tryFail t =>
    match s.th[t]? with
    | some (.holdInv .try _) => some { s with th := s.th.set t .tryFailed }
    | _ => none
  | .retHold t k ok =>
    match s.th[t]? with
    | some (.holdRan k' hs) => if k = k' ∧ ok = true then some { s with th := s.th.set t (.done hs) } else none
    | some .tryFailed => if k = .try ∧ ok = false then some { s with th := s.th.set t (.done []) } else none
    | some (.mInv p false) => if k = .maybe ∧ ok = true then some { s with th := s.th.set t (.mInv p true) } else none
    | some (.mRan hs cb false) =>
      if k = .maybe ∧ ok = true then
        some { s with th := s.th.set t (if cb then .done hs else .mRan hs false true) }
      else none
    | _ => none
  | .cbout t =>
    match s.th[t]? with
    | some (.mRan hs false rt) => some { s with th := s.th.set t (if rt then .done hs else .mRan hs true false) }
    | _ => none
  | .bodyIn t => if preBody s t then some s else none
  | .bodyOut t => if postBody s t then some s else none
  | .invWait t p =>
    if t = s.th.length then
      match p with
      | some p => some { s with th := s.th ++ [.wInv p] }
      | none => some { s with th := s.th ++ [.wRet .badarg] }
    else none
  | .waitCS t =>
    match s.th[t]? with
    | some (.wInv p) => some (waitAttempt s t p)
    | _ => none
  | .wakeCS t =>
    match s.th[t]? with
    | some (.wParked p c) => if s.bc.closed c then some (waitAttempt s t p) else none
    | _ => none
  | .ctxRet t =>
    match s.th[t]? with
    | some (.wInv _) => if s.cx.contains t then some { s with th := s.th.set t (.wRet .canceled) } else none
    | _ => none
  | .ctxTake t =>
    match s.th[t]? with
    | some (.wParked _ _) => if s.cx.contains t then some { s with th := s.th.set t (.wRet .canceled) } else none
    | _ => none
  | .retWait t r =>
    match s.th[t]? with
    | some (.wRet r') => if r = r' then some { s with th := s.th.set t (.done []) } else none
    | _ => none
  | .envCancel t => if t < s.th.length then some { s with cx := t :: s.cx } else none
  | .probe t k c =>
    match s.th[t]? with
    | some (.done hs) =>
      match hs[k]? with
      | some ch => if s.bc.closed ch = c then some s else none
      | none => none
    | _ => none
  | .quiesce B => if quiescent s ∧ B = pendingIds s then some s else none

def model : OLTS St Ev Obs where
  init := {}
  step := step
  obs := Ev.obs
  cands := fun s => internalCands s.th.length
  evsOf := fun _ o => [o.ev]

/-! ## parsing of harness lines -/

def parseNats : List String → Option (List Nat)
  | [] => some []
  | x :: xs => do let n ← x.toNat?; let r ← parseNats xs; pure (n :: r)

/-- program tokens: `g`, `b`, `s <v>`, `x` -/
def parseProg : List String → Option Prog
  | [] => some []
  | "g" :: r => do pure (.get :: (← parseProg r))
  | "b" :: r => do pure (.bcast :: (← parseProg r))
  | "x" :: r => do pure (.panic :: (← parseProg r))
  | "s" :: v :: r => do pure (.set (← v.toNat?) :: (← parseProg r))
  | _ => none

def parseRes : String → Option WRes
  | "nil" => some .nil
  | "err" => some .err
  | "canceled" => some .canceled
  | "badarg" => some .badarg
  | _ => none

def Obs.parse : List String → Option Obs
  | "inv" :: t :: "hold" :: ps => do pure (.invHold (← t.toNat?) .hold (← parseProg ps))
  | "inv" :: t :: "tryhold" :: ps => do pure (.invHold (← t.toNat?) .try (← parseProg ps))
  | "inv" :: t :: "mhold" :: ps => do pure (.invHold (← t.toNat?) .maybe (← parseProg ps))
  | ["ret", t, "hold"] => do pure (.retHold (← t.toNat?) .hold true)
  -- a body that panicked (program ending in `x`): the call is over once the caller has recovered
  | ["ret", t, "hold", "panic"] => do pure (.retHold (← t.toNat?) .hold true)
  | ["ret", t, "tryhold", "panic"] => do pure (.retHold (← t.toNat?) .try true)
  | ["ret", t, "mhold", "panic"] => do pure (.retHold (← t.toNat?) .maybe true)
  | ["ret", t, "tryhold", "true"] => do pure (.retHold (← t.toNat?) .try true)
  | ["ret", t, "tryhold", "false"] => do pure (.retHold (← t.toNat?) .try false)
  | ["ret", t, "mhold"] => do pure (.retHold (← t.toNat?) .maybe true)
  | ["cbout", t] => do pure (.cbout (← t.toNat?))
  | ["cbin", t] => do pure (.bodyIn (← t.toNat?))
  | ["cbend", t] => do pure (.bodyOut (← t.toNat?))
  | ["inv", t, "wait", "eq", v] => do pure (.invWait (← t.toNat?) (some (.eq (← v.toNat?))))
  | ["inv", t, "wait", "ge", v] => do pure (.invWait (← t.toNat?) (some (.ge (← v.toNat?))))
  | ["inv", t, "wait", "err", v] => do pure (.invWait (← t.toNat?) (some (.err (← v.toNat?))))
  | ["inv", t, "wait", "nilcb"] => do pure (.invWait (← t.toNat?) none)
  | ["ret", t, "wait", r] => do pure (.retWait (← t.toNat?) (← parseRes r))
  | ["env", "cancel", t] => do pure (.envCancel (← t.toNat?))
  | ["probe", t, k, "open"] => do pure (.probe (← t.toNat?) (← k.toNat?) false)
  | ["probe", t, k, "closed"] => do pure (.probe (← t.toNat?) (← k.toNat?) true)
  | "quiesce" :: ts => do pure (.quiesce (← parseNats ts))
  | _ => none

end UtilModel.Broadcast
