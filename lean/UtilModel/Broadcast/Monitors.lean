import UtilModel.Broadcast.Model
import UtilModel.Broadcast.Util
/-!
# broadcast: property C03 as executable monitors over observable histories

The automata mention only API-level events (invocations, responses, end-of-body marks, context
cancellations, handle probes, quiescence points). Because calls overlap in a history, the order of
two overlapping critical sections is not observable; each clause is therefore stated in the form that
is forced by the real-time order of the log:

* **handle generations** (`monProbe`): a handle whose body has no later `broadcast()` must be *open*
  if every broadcasting call invoked so far had already finished before the handle's call was
  invoked; it must be *closed* if its own body broadcasts after obtaining it, or if some broadcasting
  call that was invoked after the handle's call finished has itself finished (with its body run).
* **return rules / quiescence** (`monWait`): `Wait` returns nil (resp. the predicate's error) only if
  the predicate is true (resp. fails) on a value `x` may have had during the call; it returns
  Canceled only if its context was cancelled, the bad-argument error only for a nil argument; and at
  a quiescence point, if every body so far kept the discipline "a body that assigns `x` broadcasts"
  and the value of `x` is determined by the history, no pending `Wait` has a predicate that is
  done or failing on it.

`monC03` is the product of the two.
-/
namespace UtilModel.Broadcast
open UtilModel

/-! ## clause 1: handle generations -/

structure HCall where
  prog : Prog
  doneAtInv : Nat          -- number of broadcasting calls finished when this one was invoked
  bnum : Nat               -- number of broadcasting calls invoked before this one
  fin : Option Nat := none -- finished with its body run: number of broadcasting calls invoked until then
  pend : Bool := true
deriving Repr

structure ProbeSt where
  calls : List (Option HCall) := []   -- by call id; `none` for Wait calls
  bInv : Nat := 0                     -- broadcasting calls invoked so far
  bDone : Nat := 0                    -- broadcasting calls finished so far
  doneHi : Nat := 0                   -- 1 + the largest `bnum` of a finished broadcasting call whose body ran
deriving Repr

def HCall.selfB (c : HCall) : Nat := if c.prog.hasBcast then 1 else 0

/-- call `t` is over; `ran`: its body was executed -/
def ProbeSt.finish (ms : ProbeSt) (t : Nat) (ran : Bool) : ProbeSt :=
  match ms.calls[t]? with
  | some (some c) =>
    if c.pend then
      { calls := ms.calls.set t (some { c with pend := false, fin := if ran then some ms.bInv else none })
        bInv := ms.bInv
        bDone := ms.bDone + c.selfB
        doneHi := if ran && c.prog.hasBcast then max ms.doneHi (c.bnum + 1) else ms.doneHi }
    else ms
  | _ => ms

def monProbe : ObsMonitor Obs ProbeSt where
  init := {}
  step := fun ms o =>
    match o with
    | .invHold _ _ p =>
      some { ms with calls := ms.calls ++ [some { prog := p, doneAtInv := ms.bDone, bnum := ms.bInv }]
                     bInv := ms.bInv + (if p.hasBcast then 1 else 0) }
    | .invWait _ _ => some { ms with calls := ms.calls ++ [none] }
    | .retHold t .hold _ => some (ms.finish t true)
    | .retHold t .try ok => some (ms.finish t ok)
    | .retHold _ .maybe _ => some ms
    | .cbout t => some (ms.finish t true)
    | .probe t k closed =>
      match ms.calls[t]? with
      | some (some c) =>
        match c.fin with
        | some f =>
          if k < numGets c.prog then
            if closed then
              -- closed although no broadcast can have happened since the handle was obtained
              if !laterBcast c.prog k && ms.bInv == c.doneAtInv + c.selfB then none else some ms
            else
              -- open although a broadcast certainly happened after the handle was obtained
              if laterBcast c.prog k || f < ms.doneHi then none else some ms
          else some ms
        | none => some ms
      | _ => some ms
    | _ => some ms

/-! ## clause 2: return values of `Wait`, no lost wake-up at quiescence -/

inductive WEntry where
  | hold (setv : Option Nat) (pend : Bool)      -- a lock-and-call; `setv`: final value its body assigns to x
  | wait (p : Option Pred) (seen : List Nat)    -- a Wait; values x may have had during the call so far
deriving Repr

structure WaitSt where
  calls : List WEntry := []
  cancelled : List Nat := []
  /-- the values `x` may have now, or may get from a body that is still pending -/
  xposs : List Nat := [0]
  /-- number of pending calls whose body assigns `x` -/
  nset : Nat := 0
  /-- the only pending assigning call, if it has been alone since it was invoked, with `xposs` before it -/
  solo : Option (Nat × List Nat) := none
  /-- every body so far kept the discipline: it assigns `x` only if it also broadcasts -/
  disc : Bool := true
deriving Repr

def WEntry.see (v : Nat) : WEntry → WEntry
  | .wait p seen => .wait p (v :: seen)
  | e => e

/-- the value of `x`, when the possibilities agree -/
def knownX : List Nat → Option Nat
  | [] => none
  | v :: r => if r.all (· == v) then some v else none

def WaitSt.finish (ms : WaitSt) (t : Nat) (ran : Bool) : WaitSt :=
  match ms.calls[t]? with
  | some (.hold (some v) true) =>
    { ms with calls := ms.calls.set t (.hold (some v) false)
              nset := ms.nset - 1
              solo := none
              xposs := match ms.solo with
                | some (d, saved) => if d = t then (if ran then [v] else saved) else ms.xposs
                | none => ms.xposs }
  | some (.hold none true) => { ms with calls := ms.calls.set t (.hold none false) }
  | _ => ms

def monWait : ObsMonitor Obs WaitSt where
  init := {}
  step := fun ms o =>
    match o with
    | .invHold _ _ p =>
      let disc := ms.disc && ((lastSet p).isNone || p.hasBcast)
      match lastSet p with
      | some v =>
        some { calls := ms.calls.map (WEntry.see v) ++ [.hold (some v) true]
               cancelled := ms.cancelled
               xposs := v :: ms.xposs
               nset := ms.nset + 1
               solo := if ms.nset = 0 then some (ms.calls.length, ms.xposs) else none
               disc := disc }
      | none => some { ms with calls := ms.calls ++ [.hold none true], disc := disc }
    | .invWait _ p => some { ms with calls := ms.calls ++ [.wait p ms.xposs] }
    | .retHold t .hold _ => some (ms.finish t true)
    | .retHold t .try ok => some (ms.finish t ok)
    | .retHold _ .maybe _ => some ms
    | .cbout t => some (ms.finish t true)
    | .envCancel t => some { ms with cancelled := t :: ms.cancelled }
    | .retWait t r =>
      match ms.calls[t]? with
      | some (.wait p seen) =>
        match r, p with
        | .nil, some p => if seen.any (fun v => p.eval v == .done) then some ms else none
        | .err, some p => if seen.any (fun v => p.eval v == .error) then some ms else none
        | .canceled, _ => if ms.cancelled.contains t then some ms else none
        | .badarg, none => some ms
        | _, _ => none
      | _ => some ms
    | .quiesce B =>
      if ms.disc && ms.nset == 0 then
        match knownX ms.xposs with
        | some v =>
          if B.all (fun c => match ms.calls[c]? with
              | some (.wait (some p) _) => p.eval v == .notyet
              | _ => true) then some ms else none
        | none => some ms
      else some ms
    | _ => some ms

/-- **C03 as a monitor**: both clauses -/
def monC03 : ObsMonitor Obs (ProbeSt × WaitSt) := monProd monProbe monWait

end UtilModel.Broadcast
