import UtilModel.Core.LTSCompleteQ
import UtilModel.Broadcast.Lock
/-!
# broadcast.Broadcast — the state equality of the checker is a bisimulation quotient

The checker de-duplicates states of the layered model `lmodel` with `instBEqLSt`: equality of the
core state's `St.norm` (channel ids held by handles and waiters are replaced by closed/open, a waiter
parked on a closed channel is identified with a waiter at the top of its loop, the allocation counter
is dropped) and of the lock. This file proves what `rejectH_sound_quot` needs:

* `EquivBEq LSt`, `LawfulHashable LSt` (the hash is the hash of the normal form and the lock),
* `quotok : lmodel.QuotOK` — on reachable states `==`-equal states enable events with the same
  observable and the successors are `==` again. The answering event is the same one except for a
  waiter that is at `wInv p` on one side and parked on a closed channel on the other: `waitCS t`
  is answered by `wakeCS t` and `ctxRet t` by `ctxTake t` (and conversely) — same effect, both internal.

Invariants used: `Inv` of the core model (every channel id held by a thread has been allocated) and
`LInv` (while the body of a `Wait` is past its critical section, the channel it sampled is open) —
without the latter `cbend t` would tell a waiter parked on a closed channel from one at `wInv`.
That is also why the *core* model `Broadcast.model` (no lock) is **not** a bisimulation quotient for
this equality: see `core_not_quot` at the end. The driver only uses `lmodel`.

The channel-renaming argument is factored once: `th_transport` says that if closedness of every
allocated channel changes by the same function `· || b` in both states (`b = false`: nothing or
`getWaitCh`s; `b = true`: a broadcast), the normal forms of the thread lists stay equal.
-/
namespace UtilModel.Broadcast
open UtilModel

def ren (cl : Nat → Bool) (c : Nat) : Nat := if cl c then 0 else 1

/-- normal form of a thread state w.r.t. a closedness predicate -/
def TS.normBy (cl : Nat → Bool) : TS → TS
  | .holdRan k hs => .holdRan k (hs.map (ren cl))
  | .mRan hs cb rt => .mRan (hs.map (ren cl)) cb rt
  | .done hs => .done (hs.map (ren cl))
  | .wParked p c => if cl c then .wInv p else .wParked p 1
  | ts => ts

theorem TS.norm_eq (s : St) : TS.norm s = TS.normBy s.bc.closed := by
  funext a; cases a <;> rfl

/-- the content of `==` on core states -/
structure Rel (s t : St) : Prop where
  x : s.x = t.x
  cur : s.bc.cur.isSome = t.bc.cur.isSome
  th : s.th.map (TS.normBy s.bc.closed) = t.th.map (TS.normBy t.bc.closed)
  cx : s.cx = t.cx
  dirty : s.dirty = t.dirty

theorem norm_iff (s t : St) : s.norm = t.norm ↔ Rel s t := by
  simp only [St.norm, Prod.mk.injEq, TS.norm_eq]
  constructor
  · rintro ⟨h1, h2, h3, h4, h5⟩; exact ⟨h1, h2, h3, h4, h5⟩
  · rintro ⟨h1, h2, h3, h4, h5⟩; exact ⟨h1, h2, h3, h4, h5⟩

theorem lbeq_iff_norm (a b : LSt) : (a == b) = true ↔ a.core.norm = b.core.norm ∧ a.lock = b.lock := by
  show (a.core.norm == b.core.norm && a.lock == b.lock) = true ↔ _
  simp

instance instEquivBEqLSt : EquivBEq LSt where
  rfl := by intro a; exact (lbeq_iff_norm a a).mpr ⟨rfl, rfl⟩
  symm := by
    intro a b h
    obtain ⟨h1, h2⟩ := (lbeq_iff_norm a b).mp h
    exact (lbeq_iff_norm b a).mpr ⟨h1.symm, h2.symm⟩
  trans := by
    intro a b c h1 h2
    obtain ⟨a1, a2⟩ := (lbeq_iff_norm a b).mp h1
    obtain ⟨b1, b2⟩ := (lbeq_iff_norm b c).mp h2
    exact (lbeq_iff_norm a c).mpr ⟨a1.trans b1, a2.trans b2⟩

instance instLawfulHashableLSt : LawfulHashable LSt where
  hash_eq := by
    intro a b h
    obtain ⟨h1, h2⟩ := (lbeq_iff_norm a b).mp h
    show mixHash (hash a.core.norm) (hash a.lock) = mixHash (hash b.core.norm) (hash b.lock)
    rw [h1, h2]

/-- the same for the core state type (not used by the driver) -/
theorem beq_iff_norm (a b : St) : (a == b) = true ↔ a.norm = b.norm := by
  show (a.norm == b.norm) = true ↔ _
  exact beq_iff_eq

instance instEquivBEqSt : EquivBEq St where
  rfl := by intro a; exact (beq_iff_norm a a).mpr rfl
  symm := by intro a b h; exact (beq_iff_norm b a).mpr ((beq_iff_norm a b).mp h).symm
  trans := by
    intro a b c h1 h2
    exact (beq_iff_norm a c).mpr (((beq_iff_norm a b).mp h1).trans ((beq_iff_norm b c).mp h2))

instance instLawfulHashableSt : LawfulHashable St where
  hash_eq := by
    intro a b h
    show hash a.norm = hash b.norm
    rw [(beq_iff_norm a b).mp h]

/-! ## thread states up to renaming -/

/-- the channel ids a thread state refers to -/
def TS.chans : TS → List Nat
  | .wParked _ c => [c]
  | ts => TS.handles ts

theorem normBy_congr (cl cl' : Nat → Bool) (a : TS) (h : ∀ c ∈ TS.chans a, cl c = cl' c) :
    TS.normBy cl a = TS.normBy cl' a := by
  cases a <;> simp only [TS.normBy, TS.chans, TS.handles] at h ⊢
  case holdRan k hs =>
    congr 1; exact List.map_congr_left (fun c hc => by simp [ren, h c hc])
  case mRan hs cb rt =>
    congr 1; exact List.map_congr_left (fun c hc => by simp [ren, h c hc])
  case done hs =>
    congr 1; exact List.map_congr_left (fun c hc => by simp [ren, h c hc])
  case wParked p c =>
    rw [h c (by simp)]

/-- closing on top of a normal form -/
theorem normBy_or (cl : Nat → Bool) (b : Bool) (a : TS) :
    TS.normBy (fun n => n == 0 || b) (TS.normBy cl a) = TS.normBy (fun c => cl c || b) a := by
  have hren : ∀ c, ren (fun n => n == 0 || b) (ren cl c) = ren (fun c => cl c || b) c := by
    intro c; cases h : cl c <;> cases b <;> simp [ren, h]
  cases a
  case holdRan k hs =>
    simp only [TS.normBy, List.map_map]; congr 1; exact List.map_congr_left (fun c _ => hren c)
  case mRan hs cb rt =>
    simp only [TS.normBy, List.map_map]; congr 1; exact List.map_congr_left (fun c _ => hren c)
  case done hs =>
    simp only [TS.normBy, List.map_map]; congr 1; exact List.map_congr_left (fun c _ => hren c)
  case wParked p c => cases h : cl c <;> cases b <;> simp [TS.normBy, h]
  all_goals rfl

theorem inv_chans (s : St) (hi : Inv s) (a : TS) (ha : a ∈ s.th) : ∀ c ∈ TS.chans a, c < s.bc.next := by
  obtain ⟨i, hi'⟩ := List.getElem?_of_mem ha
  intro c hc
  cases a <;> simp only [TS.chans] at hc
  case wParked p c' =>
    simp at hc; subst hc
    exact (hi.parked i p c hi').1
  all_goals exact hi.handles i _ hi' c hc

theorem Rel.lookup {s t : St} (h : Rel s t) (i : Nat) :
    (s.th[i]?).map (TS.normBy s.bc.closed) = (t.th[i]?).map (TS.normBy t.bc.closed) := by
  have := congrArg (fun l => l[i]?) h.th
  simpa [List.getElem?_map] using this

theorem Rel.length {s t : St} (h : Rel s t) : s.th.length = t.th.length := by
  have := congrArg List.length h.th
  simpa using this

theorem Rel.get {s t : St} (h : Rel s t) (i : Nat) (a : TS) (ha : s.th[i]? = some a) :
    ∃ b, t.th[i]? = some b ∧ TS.normBy s.bc.closed a = TS.normBy t.bc.closed b := by
  have := h.lookup i
  rw [ha] at this
  cases hb : t.th[i]? with
  | none => simp [hb] at this
  | some b => simp [hb] at this; exact ⟨b, rfl, this⟩

theorem Rel.get_none {s t : St} (h : Rel s t) (i : Nat) (ha : s.th[i]? = none) : t.th[i]? = none := by
  have := h.lookup i
  rw [ha] at this
  cases hb : t.th[i]? with
  | none => rfl
  | some b => simp [hb] at this

/-- **the renaming argument**: closedness of the allocated channels changes by `· || b` on both
sides ⇒ the normal forms of the thread lists stay equal -/
theorem th_transport (s t : St) (hs : Inv s) (ht : Inv t) (h : Rel s t) (b : Bool)
    (cls clt : Nat → Bool)
    (h1 : ∀ c, c < s.bc.next → cls c = (s.bc.closed c || b))
    (h2 : ∀ c, c < t.bc.next → clt c = (t.bc.closed c || b)) :
    s.th.map (TS.normBy cls) = t.th.map (TS.normBy clt) := by
  have key : ∀ (u : St) (cl : Nat → Bool), Inv u → (∀ c, c < u.bc.next → cl c = (u.bc.closed c || b)) →
      u.th.map (TS.normBy cl) =
        (u.th.map (TS.normBy u.bc.closed)).map (TS.normBy (fun n => n == 0 || b)) := by
    intro u cl hu hcl
    rw [List.map_map]
    apply List.map_congr_left
    intro a ha
    simp only [Function.comp, normBy_or]
    apply normBy_congr
    intro c hc
    exact hcl c (inv_chans u hu a ha c hc)
  rw [key s cls hs h1, key t clt ht h2, h.th]

/-! ## what `normBy cl a = normBy cl' b` says, by the shape of `a` -/

/-- states without channel ids -/
def TS.plain : TS → Bool
  | .holdInv _ _ | .tryFailed | .mInv _ _ | .wRet _ => true
  | _ => false

/-- a waiter about to (re-)evaluate its predicate: at the top of the loop, or parked on a closed channel -/
def atTop (cl : Nat → Bool) (a : TS) (p : Pred) : Prop :=
  a = .wInv p ∨ ∃ c, a = .wParked p c ∧ cl c = true

theorem normBy_plain (cl : Nat → Bool) (a : TS) (ha : a.plain = true) : TS.normBy cl a = a := by
  cases a <;> simp_all [TS.plain, TS.normBy]

theorem inv_plain (cl cl' : Nat → Bool) (a b : TS) (h : TS.normBy cl a = TS.normBy cl' b)
    (ha : a.plain = true) : b = a := by
  cases a <;> simp [TS.plain] at ha <;> cases b <;> simp [TS.normBy] at h ⊢ <;>
    first | exact h | (obtain ⟨h1, h2⟩ := h; exact ⟨h1.symm, h2.symm⟩) | exact h.symm |
      (split at h <;> simp at h)

theorem inv_holdRan (cl cl' : Nat → Bool) (k : HKind) (hs : List Nat) (b : TS)
    (h : TS.normBy cl (.holdRan k hs) = TS.normBy cl' b) :
    ∃ hs', b = .holdRan k hs' ∧ hs.map (ren cl) = hs'.map (ren cl') := by
  cases b <;> simp [TS.normBy] at h
  case holdRan k' hs' => exact ⟨hs', by rw [h.1], h.2⟩
  case wParked p c => split at h <;> simp at h

theorem inv_mRan (cl cl' : Nat → Bool) (hs : List Nat) (cb rt : Bool) (b : TS)
    (h : TS.normBy cl (.mRan hs cb rt) = TS.normBy cl' b) :
    ∃ hs', b = .mRan hs' cb rt ∧ hs.map (ren cl) = hs'.map (ren cl') := by
  cases b <;> simp [TS.normBy] at h
  case mRan hs' cb' rt' => exact ⟨hs', by rw [h.2.1, h.2.2], h.1⟩
  case wParked p c => split at h <;> simp at h

theorem inv_done (cl cl' : Nat → Bool) (hs : List Nat) (b : TS)
    (h : TS.normBy cl (.done hs) = TS.normBy cl' b) :
    ∃ hs', b = .done hs' ∧ hs.map (ren cl) = hs'.map (ren cl') := by
  cases b <;> simp [TS.normBy] at h
  case done hs' => exact ⟨hs', rfl, h⟩
  case wParked p c => split at h <;> simp at h

theorem inv_top (cl cl' : Nat → Bool) (a b : TS) (p : Pred) (ha : atTop cl a p)
    (h : TS.normBy cl a = TS.normBy cl' b) : atTop cl' b p := by
  have ha' : TS.normBy cl a = .wInv p := by
    rcases ha with rfl | ⟨c, rfl, hc⟩
    · rfl
    · simp [TS.normBy, hc]
  rw [ha'] at h
  cases b <;> simp [TS.normBy] at h
  case wInv q => subst h; exact Or.inl rfl
  case wParked q c =>
    split at h <;> simp at h
    rename_i hc
    subst h
    exact Or.inr ⟨c, rfl, hc⟩

set_option linter.unusedSimpArgs false in
theorem inv_open (cl cl' : Nat → Bool) (p : Pred) (c : Nat) (b : TS) (hc : cl c = false)
    (h : TS.normBy cl (.wParked p c) = TS.normBy cl' b) :
    ∃ c', b = .wParked p c' ∧ cl' c' = false := by
  simp only [TS.normBy, hc] at h
  cases b <;> simp [TS.normBy] at h
  case wParked q c' =>
    split at h <;> simp at h
    rename_i hc'
    exact ⟨c', by rw [h], by simpa using hc'⟩

theorem normBy_top (cl cl' : Nat → Bool) (a b : TS) (p : Pred) (ha : atTop cl a p) (hb : atTop cl' b p) :
    TS.normBy cl a = TS.normBy cl' b := by
  have h1 : ∀ (cl : Nat → Bool) (a : TS), atTop cl a p → TS.normBy cl a = .wInv p := by
    intro cl a ha
    rcases ha with rfl | ⟨c, rfl, hc⟩
    · rfl
    · simp [TS.normBy, hc]
  rw [h1 cl a ha, h1 cl' b hb]

/-- build `Rel` for two states whose thread lists are updates of related lists -/
theorem rel_mk (s' t' : St) (hx : s'.x = t'.x) (hcur : s'.bc.cur.isSome = t'.bc.cur.isSome)
    (hcx : s'.cx = t'.cx) (hd : s'.dirty = t'.dirty) (i : Nat) (a b : TS)
    (ths tht : List TS) (hs' : s'.th = ths.set i a) (ht' : t'.th = tht.set i b)
    (hth : ths.map (TS.normBy s'.bc.closed) = tht.map (TS.normBy t'.bc.closed))
    (hab : TS.normBy s'.bc.closed a = TS.normBy t'.bc.closed b) : Rel s' t' := by
  refine ⟨hx, hcur, ?_, hcx, hd⟩
  rw [hs', ht']
  simp only [List.map_set, hth, hab]

theorem rel_mk_append (s' t' : St) (hx : s'.x = t'.x) (hcur : s'.bc.cur.isSome = t'.bc.cur.isSome)
    (hcx : s'.cx = t'.cx) (hd : s'.dirty = t'.dirty) (a : TS)
    (ths tht : List TS) (hs' : s'.th = ths ++ [a]) (ht' : t'.th = tht ++ [a])
    (hth : ths.map (TS.normBy s'.bc.closed) = tht.map (TS.normBy t'.bc.closed))
    (ha : TS.chans a = []) : Rel s' t' := by
  refine ⟨hx, hcur, ?_, hcx, hd⟩
  rw [hs', ht']
  simp only [List.map_append, hth, List.map_cons, List.map_nil]
  congr 2
  exact normBy_congr _ _ a (by rw [ha]; intro c hc; cases hc)

/-- a thread moves between related states; nothing shared changes -/
theorem rel_move (s t : St) (h : Rel s t) (i : Nat) (a b : TS)
    (hab : TS.normBy s.bc.closed a = TS.normBy t.bc.closed b) :
    Rel { s with th := s.th.set i a } { t with th := t.th.set i b } :=
  rel_mk _ _ h.x h.cur h.cx h.dirty i a b s.th t.th rfl rfl h.th hab

/-! ## the critical sections -/

theorem rel_waitAttempt (s t : St) (hs : Inv s) (ht : Inv t) (h : Rel s t) (i : Nat) (p : Pred) :
    Rel (waitAttempt s i p) (waitAttempt t i p) := by
  obtain ⟨g1, _, _, _, g5, _, _⟩ := Bcast.getWaitCh_spec s.bc hs.bcwf
  obtain ⟨f1, _, _, _, f5, _, _⟩ := Bcast.getWaitCh_spec t.bc ht.bcwf
  have hth := th_transport s t hs ht h false s.bc.getWaitCh.1.closed t.bc.getWaitCh.1.closed
    (fun c hc => by simp [getWaitCh_closed_eq s.bc hs.bcwf c hc])
    (fun c hc => by simp [getWaitCh_closed_eq t.bc ht.bcwf c hc])
  have hcur : s.bc.getWaitCh.1.cur.isSome = t.bc.getWaitCh.1.cur.isSome := by rw [g1, f1]; rfl
  have hev : p.eval t.x = p.eval s.x := by rw [h.x]
  unfold waitAttempt
  rw [hev]
  cases p.eval s.x <;> simp only
  · exact rel_move s t h i _ _ rfl
  · refine rel_mk _ _ h.x hcur h.cx h.dirty i _ _ s.th t.th rfl rfl hth ?_
    simp only [TS.normBy, g5, f5]
  · exact rel_move s t h i _ _ rfl

/-- whether there is a current channel after a body depends only on whether there was one before -/
theorem exec_cur (p : Prog) (x x' : Nat) (bc bc' : Bcast) (h : bc.cur.isSome = bc'.cur.isSome) :
    (exec p x bc).2.1.cur.isSome = (exec p x' bc').2.1.cur.isSome := by
  induction p generalizing x x' bc bc' with
  | nil => simpa [exec] using h
  | cons op r ih =>
    cases op with
    | get =>
      simp only [exec]
      exact ih x x' _ _ (by rw [getWaitCh_cur, getWaitCh_cur]; rfl)
    | bcast => simp only [exec]; exact ih x x' _ _ rfl
    | set v => simp only [exec]; exact ih v v _ _ h
    | panic => simp only [exec]; exact ih x x' _ _ h

/-- the handles a body obtains are closed or open afterwards according to the program text alone -/
theorem exec_handles (p : Prog) (x x' : Nat) (bc bc' : Bcast) (hwf : bc.WF) (hwf' : bc'.WF) :
    (exec p x bc).2.2.map (ren (exec p x bc).2.1.closed) =
      (exec p x' bc').2.2.map (ren (exec p x' bc').2.1.closed) := by
  obtain ⟨_, _, _, e4, e5, _⟩ := exec_spec p x bc hwf
  obtain ⟨_, _, _, f4, f5, _⟩ := exec_spec p x' bc' hwf'
  apply List.ext_getElem?
  intro k
  simp only [List.getElem?_map]
  cases h1 : (exec p x bc).2.2[k]? with
  | none =>
    have : (exec p x' bc').2.2[k]? = none := by
      rw [List.getElem?_eq_none_iff] at h1 ⊢; omega
    rw [this]; rfl
  | some ch =>
    have hk : k < (exec p x' bc').2.2.length := by
      have := (List.getElem?_eq_some_iff.mp h1).1; omega
    obtain ⟨ch', h2⟩ : ∃ ch', (exec p x' bc').2.2[k]? = some ch' :=
      ⟨_, List.getElem?_eq_getElem hk⟩
    rw [h2]
    simp only [Option.map_some, ren, (e4 k ch h1).2, (f4 k ch' h2).2]

theorem rel_runBody (s t : St) (hs : Inv s) (ht : Inv t) (h : Rel s t) (i : Nat) (p : Prog)
    (mk : List Nat → TS)
    (hmk : ∀ (cl cl' : Nat → Bool) (hs hs' : List Nat), hs.map (ren cl) = hs'.map (ren cl') →
      TS.normBy cl (mk hs) = TS.normBy cl' (mk hs')) :
    Rel (runBody s i p mk) (runBody t i p mk) := by
  obtain ⟨_, _, e3, _, _, e6⟩ := exec_spec p s.x s.bc hs.bcwf
  obtain ⟨_, _, f3, _, _, f6⟩ := exec_spec p t.x t.bc ht.bcwf
  have hx : (exec p s.x s.bc).1 = (exec p t.x t.bc).1 := by rw [e6, f6, h.x]
  unfold runBody
  refine rel_mk _ _ hx (exec_cur p _ _ _ _ h.cur) h.cx ?_ i _ _ s.th t.th rfl rfl ?_ ?_
  · show (s.dirty || ((exec p s.x s.bc).1 != s.x && !p.hasBcast)) =
      (t.dirty || ((exec p t.x t.bc).1 != t.x && !p.hasBcast))
    rw [hx, h.x, h.dirty]
  · exact th_transport s t hs ht h p.hasBcast _ _ (fun c hc => e3 c hc) (fun c hc => f3 c hc)
  · exact hmk _ _ _ _ (exec_handles p s.x t.x s.bc t.bc hs.bcwf ht.bcwf)

/-! ## enabledness of the guards that look at a thread -/

theorem Rel.get_plain {s t : St} (h : Rel s t) (i : Nat) (a : TS) (ha : s.th[i]? = some a)
    (hp : a.plain = true) : t.th[i]? = some a := by
  obtain ⟨b, hb, hab⟩ := h.get i a ha
  rw [inv_plain _ _ a b hab hp] at hb; exact hb

theorem Rel.get_top {s t : St} (h : Rel s t) (i : Nat) (a : TS) (p : Pred) (ha : s.th[i]? = some a)
    (hp : atTop s.bc.closed a p) : ∃ b, t.th[i]? = some b ∧ atTop t.bc.closed b p := by
  obtain ⟨b, hb, hab⟩ := h.get i a ha
  exact ⟨b, hb, inv_top _ _ a b p hp hab⟩

theorem Rel.get_open {s t : St} (h : Rel s t) (i : Nat) (p : Pred) (c : Nat)
    (ha : s.th[i]? = some (.wParked p c)) (hc : s.bc.closed c = false) :
    ∃ c', t.th[i]? = some (.wParked p c') ∧ t.bc.closed c' = false := by
  obtain ⟨b, hb, hab⟩ := h.get i _ ha
  obtain ⟨c', rfl, hc'⟩ := inv_open _ _ p c b hc hab
  exact ⟨c', hb, hc'⟩

/-- a parked waiter is at the top of its loop or parked on an open channel -/
theorem parked_cases (cl : Nat → Bool) (p : Pred) (c : Nat) :
    atTop cl (.wParked p c) p ∨ cl c = false := by
  cases h : cl c
  · exact Or.inr rfl
  · exact Or.inl (Or.inr ⟨c, rfl, h⟩)

/-- the critical section of a waiter at the top of its loop, whichever way it got there -/
theorem top_cs (t : St) (i : Nat) (b : TS) (p : Pred) (hb : t.th[i]? = some b) (ht : atTop t.bc.closed b p) :
    ∃ e', (e' = .waitCS i ∨ e' = .wakeCS i) ∧ step t e' = some (waitAttempt t i p) := by
  rcases ht with rfl | ⟨c, rfl, hc⟩
  · exact ⟨.waitCS i, Or.inl rfl, by simp only [step, hb]⟩
  · exact ⟨.wakeCS i, Or.inr rfl, by simp only [step, hb, hc, if_true]⟩

/-- the ctx branch of a waiter at the top of its loop -/
theorem top_ctx (t : St) (i : Nat) (b : TS) (p : Pred) (hb : t.th[i]? = some b) (ht : atTop t.bc.closed b p)
    (hcx : t.cx.contains i = true) :
    ∃ e', (e' = .ctxRet i ∨ e' = .ctxTake i) ∧
      step t e' = some { t with th := t.th.set i (.wRet .canceled) } := by
  rcases ht with rfl | ⟨c, rfl, hc⟩
  · exact ⟨.ctxRet i, Or.inl rfl, by simp only [step, hb, hcx, if_true]⟩
  · exact ⟨.ctxTake i, Or.inr rfl, by simp only [step, hb, hcx, if_true]⟩

theorem rel_preBody (s t : St) (h : Rel s t) (i : Nat) (hp : preBody s i = true) : preBody t i = true := by
  unfold preBody at hp ⊢
  split at hp <;> try simp at hp
  · rename_i k p hth; rw [h.get_plain i _ hth rfl]
  · rename_i p rt hth; rw [h.get_plain i _ hth rfl]
  · rename_i p hth
    obtain ⟨b, hb, hbt⟩ := h.get_top i _ p hth (Or.inl rfl)
    rw [hb]
    rcases hbt with rfl | ⟨c, rfl, hc⟩
    · rfl
    · exact hc
  · rename_i p c hth
    obtain ⟨b, hb, hbt⟩ := h.get_top i _ p hth (Or.inr ⟨c, rfl, hp⟩)
    rw [hb]
    rcases hbt with rfl | ⟨c, rfl, hc⟩
    · rfl
    · exact hc

theorem rel_postBody (s t : St) (h : Rel s t) (i : Nat) (hp : postBody s i = true)
    (hopen : ∀ p c, s.th[i]? = some (.wParked p c) → s.bc.closed c = false) : postBody t i = true := by
  unfold postBody at hp ⊢
  split at hp <;> try simp at hp
  · rename_i k hs hth
    obtain ⟨b, hb, hab⟩ := h.get i _ hth
    obtain ⟨hs', rfl, _⟩ := inv_holdRan _ _ k hs b hab
    rw [hb]
  · rename_i hs rt hth
    obtain ⟨b, hb, hab⟩ := h.get i _ hth
    obtain ⟨hs', rfl, _⟩ := inv_mRan _ _ hs false rt b hab
    rw [hb]
  · rename_i r hth; rw [h.get_plain i _ hth rfl]
  · rename_i p c hth
    obtain ⟨c', hc', _⟩ := h.get_open i p c hth (hopen p c hth)
    rw [hc']

theorem quiescent_iff (s : St) : quiescent s = true ↔ ∀ i a, s.th[i]? = some a → TS.quiet s i a = true := by
  unfold quiescent
  rw [List.all_eq_true]
  constructor
  · intro h i a ha
    have := h i (List.mem_range.mpr (List.getElem?_eq_some_iff.mp ha).1)
    simpa [ha] using this
  · intro h i _
    cases ha : s.th[i]? with
    | none => rfl
    | some a => exact h i a ha

/-- in a quiescent state every call is over or parked on an open channel -/
theorem quiet_cases (s : St) (i : Nat) (a : TS) (h : TS.quiet s i a = true) :
    (∃ hs, a = .done hs) ∨ ∃ p c, a = .wParked p c ∧ s.bc.closed c = false ∧ s.cx.contains i = false := by
  cases a <;> simp [TS.quiet] at h
  case done hs => exact Or.inl ⟨hs, rfl⟩
  case wParked p c => exact Or.inr ⟨p, c, rfl, h.1, by simpa using h.2⟩

theorem rel_quiescent (s t : St) (h : Rel s t) (hq : quiescent s = true) :
    quiescent t = true ∧ pendingIds t = pendingIds s := by
  rw [quiescent_iff] at hq
  have key : ∀ i b, t.th[i]? = some b → TS.quiet t i b = true ∧
      (∀ a, s.th[i]? = some a → ((match some b with | some (TS.wParked _ _) => true | _ => false) =
        (match some a with | some (TS.wParked _ _) => true | _ => false))) := by
    intro i b hb
    cases ha : s.th[i]? with
    | none => rw [h.get_none i ha] at hb; cases hb
    | some a =>
      obtain ⟨b', hb', hab⟩ := h.get i a ha
      rw [hb] at hb'; cases hb'
      rcases quiet_cases s i a (hq i a ha) with ⟨hs, rfl⟩ | ⟨p, c, rfl, hc, hcx⟩
      · obtain ⟨hs', rfl, _⟩ := inv_done _ _ hs b hab
        exact ⟨rfl, by intro a' ha'; cases ha'; rfl⟩
      · obtain ⟨c', rfl, hc'⟩ := inv_open _ _ p c b hc hab
        refine ⟨?_, by intro a' ha'; cases ha'; rfl⟩
        have hcx' : ¬ i ∈ s.cx := by simpa using hcx
        simp [TS.quiet, hc', ← h.cx, hcx']
  constructor
  · rw [quiescent_iff]
    intro i b hb; exact (key i b hb).1
  · unfold pendingIds
    rw [← h.length]
    apply List.filter_congr
    intro i _
    cases hb : t.th[i]? with
    | none =>
      cases ha : s.th[i]? with
      | none => rfl
      | some a =>
        have := h.length
        have h1 := (List.getElem?_eq_some_iff.mp ha).1
        rw [List.getElem?_eq_none_iff] at hb
        omega
    | some b =>
      cases ha : s.th[i]? with
      | none => rw [h.get_none i ha] at hb; cases hb
      | some a => exact (key i b hb).2 a ha

/-! ## the core step -/

theorem normBy_done (cl cl' : Nat → Bool) (hs hs' : List Nat) (h : hs.map (ren cl) = hs'.map (ren cl')) :
    TS.normBy cl (.done hs) = TS.normBy cl' (.done hs') := by simp only [TS.normBy, h]

theorem normBy_mRan (cl cl' : Nat → Bool) (hs hs' : List Nat) (cb rt : Bool)
    (h : hs.map (ren cl) = hs'.map (ren cl')) :
    TS.normBy cl (.mRan hs cb rt) = TS.normBy cl' (.mRan hs' cb rt) := by simp only [TS.normBy, h]

theorem answer_same {s' t : St} {e : Ev} (h : ∃ t', step t e = some t' ∧ Rel s' t') :
    ∃ e' t', e'.obs = e.obs ∧ (∀ l, lockStep l e' = lockStep l e) ∧ step t e' = some t' ∧ Rel s' t' := by
  obtain ⟨t', h1, h2⟩ := h
  exact ⟨e, t', rfl, fun _ => rfl, h1, h2⟩

/-- **`==` is a (weak) bisimulation on well-formed core states**: the answering event `e'` has the
same observable and the same lock discipline. `bodyOut` needs the waiter's channel to be open. -/
theorem step_rel (s t : St) (hs : Inv s) (ht : Inv t) (h : Rel s t) (e : Ev) (s' : St)
    (hst : step s e = some s')
    (hbo : ∀ i, e = .bodyOut i → ∀ p c, s.th[i]? = some (.wParked p c) → s.bc.closed c = false) :
    ∃ e' t', e'.obs = e.obs ∧ (∀ l, lockStep l e' = lockStep l e) ∧ step t e' = some t' ∧ Rel s' t' := by
  cases e with
  | invHold i k p =>
    apply answer_same
    simp only [step] at hst ⊢
    split at hst <;> try simp at hst
    rename_i hi
    rw [if_pos (by rw [← h.length]; exact hi)]
    cases k <;> simp only at hst ⊢ <;> simp at hst <;> subst hst <;>
      (refine ⟨_, rfl, ?_⟩; exact rel_mk_append _ _ h.x h.cur h.cx h.dirty _ s.th t.th rfl rfl h.th rfl)
  | holdCS i =>
    apply answer_same
    simp only [step] at hst ⊢
    split at hst <;> simp at hst <;> subst hst
    · rename_i k p hth
      rw [h.get_plain i _ hth rfl]
      refine ⟨_, rfl, ?_⟩
      exact rel_runBody s t hs ht h i p _ (fun cl cl' a b hab => by simp only [TS.normBy, hab])
    · rename_i p rt hth
      rw [h.get_plain i _ hth rfl]
      refine ⟨_, rfl, ?_⟩
      exact rel_runBody s t hs ht h i p _ (fun cl cl' a b hab => by simp only [TS.normBy, hab])
  | tryFail i =>
    apply answer_same
    simp only [step] at hst ⊢
    split at hst <;> simp at hst; subst hst
    rename_i p hth
    rw [h.get_plain i _ hth rfl]
    refine ⟨_, rfl, ?_⟩
    exact rel_move s t h i _ _ rfl
  | retHold i k ok =>
    apply answer_same
    simp only [step] at hst ⊢
    split at hst <;> try simp at hst
    · obtain ⟨⟨rfl, rfl⟩, rfl⟩ := hst; rename_i hs' hth
      obtain ⟨b, hb, hab⟩ := h.get i _ hth
      obtain ⟨hs'', rfl, hmap⟩ := inv_holdRan _ _ _ _ b hab
      rw [hb]
      simp only [and_self, if_true]
      refine ⟨_, rfl, ?_⟩
      exact rel_move s t h i _ _ (normBy_done _ _ _ _ hmap)
    · obtain ⟨⟨rfl, rfl⟩, rfl⟩ := hst; rename_i hth
      rw [h.get_plain i _ hth rfl]
      simp only [and_self, if_true]
      refine ⟨_, rfl, ?_⟩
      exact rel_move s t h i _ _ rfl
    · obtain ⟨⟨rfl, rfl⟩, rfl⟩ := hst; rename_i p hth
      rw [h.get_plain i _ hth rfl]
      simp only [and_self, if_true]
      refine ⟨_, rfl, ?_⟩
      exact rel_move s t h i _ _ rfl
    · obtain ⟨⟨rfl, rfl⟩, rfl⟩ := hst; rename_i hs' cb hth
      obtain ⟨b, hb, hab⟩ := h.get i _ hth
      obtain ⟨hs'', rfl, hmap⟩ := inv_mRan _ _ _ _ _ b hab
      rw [hb]
      simp only [and_self, if_true]
      refine ⟨_, rfl, ?_⟩
      refine rel_move s t h i _ _ ?_
      cases cb
      · exact normBy_mRan _ _ _ _ _ _ hmap
      · exact normBy_done _ _ _ _ hmap
  | cbout i =>
    apply answer_same
    simp only [step] at hst ⊢
    split at hst <;> simp at hst; subst hst
    rename_i hs' rt hth
    obtain ⟨b, hb, hab⟩ := h.get i _ hth
    obtain ⟨hs'', rfl, hmap⟩ := inv_mRan _ _ _ _ _ b hab
    rw [hb]
    refine ⟨_, rfl, ?_⟩
    refine rel_move s t h i _ _ ?_
    cases rt
    · exact normBy_mRan _ _ _ _ _ _ hmap
    · exact normBy_done _ _ _ _ hmap
  | bodyIn i =>
    apply answer_same
    simp only [step] at hst ⊢
    split at hst <;> simp at hst; subst hst
    rename_i hp
    rw [if_pos (rel_preBody s t h i hp)]
    refine ⟨_, rfl, ?_⟩
    exact h
  | bodyOut i =>
    apply answer_same
    simp only [step] at hst ⊢
    split at hst <;> simp at hst; subst hst
    rename_i hp
    rw [if_pos (rel_postBody s t h i hp (hbo i rfl))]
    refine ⟨_, rfl, ?_⟩
    exact h
  | invWait i p =>
    apply answer_same
    simp only [step] at hst ⊢
    split at hst <;> try simp at hst
    rename_i hi
    rw [if_pos (by rw [← h.length]; exact hi)]
    cases p <;> simp only at hst ⊢ <;> simp at hst <;> subst hst <;>
      (refine ⟨_, rfl, ?_⟩; exact rel_mk_append _ _ h.x h.cur h.cx h.dirty _ s.th t.th rfl rfl h.th rfl)
  | waitCS i =>
    simp only [step] at hst
    split at hst <;> simp at hst; subst hst
    rename_i p hth
    obtain ⟨b, hb, hbt⟩ := h.get_top i _ p hth (Or.inl rfl)
    obtain ⟨e', he', hstep⟩ := top_cs t i b p hb hbt
    refine ⟨e', _, ?_, ?_, hstep, rel_waitAttempt s t hs ht h i p⟩
    · rcases he' with rfl | rfl <;> rfl
    · rcases he' with rfl | rfl <;> intro l <;> rfl
  | wakeCS i =>
    simp only [step] at hst
    split at hst <;> simp at hst
    obtain ⟨hc, rfl⟩ := hst; rename_i p c hth
    obtain ⟨b, hb, hbt⟩ := h.get_top i _ p hth (Or.inr ⟨c, rfl, hc⟩)
    obtain ⟨e', he', hstep⟩ := top_cs t i b p hb hbt
    refine ⟨e', _, ?_, ?_, hstep, rel_waitAttempt s t hs ht h i p⟩
    · rcases he' with rfl | rfl <;> rfl
    · rcases he' with rfl | rfl <;> intro l <;> rfl
  | ctxRet i =>
    simp only [step] at hst
    split at hst <;> simp at hst
    obtain ⟨hcx, rfl⟩ := hst; rename_i p hth
    obtain ⟨b, hb, hbt⟩ := h.get_top i _ p hth (Or.inl rfl)
    obtain ⟨e', he', hstep⟩ := top_ctx t i b p hb hbt (by rw [← h.cx]; simpa using hcx)
    refine ⟨e', _, ?_, ?_, hstep, rel_move s t h i _ _ rfl⟩
    · rcases he' with rfl | rfl <;> rfl
    · rcases he' with rfl | rfl <;> intro l <;> rfl
  | ctxTake i =>
    simp only [step] at hst
    split at hst <;> simp at hst
    obtain ⟨hcx, rfl⟩ := hst; rename_i p c hth
    have hcx' : t.cx.contains i = true := by rw [← h.cx]; simpa using hcx
    rcases parked_cases s.bc.closed p c with htop | hopen
    · obtain ⟨b, hb, hbt⟩ := h.get_top i _ p hth htop
      obtain ⟨e', he', hstep⟩ := top_ctx t i b p hb hbt hcx'
      refine ⟨e', _, ?_, ?_, hstep, rel_move s t h i _ _ rfl⟩
      · rcases he' with rfl | rfl <;> rfl
      · rcases he' with rfl | rfl <;> intro l <;> rfl
    · obtain ⟨c', hc', _⟩ := h.get_open i p c hth hopen
      refine ⟨.ctxTake i, _, rfl, fun _ => rfl, ?_, rel_move s t h i (.wRet .canceled) (.wRet .canceled) rfl⟩
      simp only [step, hc', hcx', if_true]
  | retWait i r =>
    apply answer_same
    simp only [step] at hst ⊢
    split at hst <;> simp at hst
    obtain ⟨rfl, rfl⟩ := hst; rename_i hth
    rw [h.get_plain i _ hth rfl]
    simp only [if_true]
    refine ⟨_, rfl, ?_⟩
    exact rel_move s t h i _ _ rfl
  | envCancel i =>
    apply answer_same
    simp only [step] at hst ⊢
    split at hst <;> simp at hst; subst hst
    rename_i hi
    rw [if_pos (by rw [← h.length]; exact hi)]
    refine ⟨_, rfl, ?_⟩
    exact ⟨h.x, h.cur, h.th, by simp only [h.cx], h.dirty⟩
  | probe i k c =>
    apply answer_same
    simp only [step] at hst ⊢
    split at hst <;> try simp at hst
    rename_i hs' hth
    split at hst <;> try simp at hst
    rename_i ch hk
    obtain ⟨hc, rfl⟩ := hst
    obtain ⟨b, hb, hab⟩ := h.get i _ hth
    obtain ⟨hs'', rfl, hmap⟩ := inv_done _ _ _ b hab
    rw [hb]
    have := congrArg (fun l => l[k]?) hmap
    simp only [List.getElem?_map, hk, Option.map_some] at this
    cases hk' : hs''[k]? with
    | none => simp [hk'] at this
    | some ch' =>
      simp only [hk', Option.map_some, Option.some.injEq] at this
      have hcl : t.bc.closed ch' = s.bc.closed ch := by
        unfold ren at this
        cases h1 : s.bc.closed ch <;> cases h2 : t.bc.closed ch' <;> simp [h1, h2] at this ⊢
      simp only [hk', hcl, hc, if_true]
      refine ⟨_, rfl, ?_⟩
      exact h
  | quiesce B =>
    apply answer_same
    simp only [step] at hst ⊢
    split at hst <;> simp at hst; subst hst
    rename_i hq
    obtain ⟨q1, q2⟩ := rel_quiescent s t h hq.1
    rw [if_pos ⟨q1, by rw [q2]; exact hq.2⟩]
    refine ⟨_, rfl, ?_⟩
    exact h

/-! ## the lock layer -/

/-- a thread moved to a state that is not parked: parked threads were parked before -/
theorem set_parked (th : List TS) (j : Nat) (b : TS) (hb : ∀ p c, b ≠ .wParked p c) (i : Nat) (p : Pred)
    (c : Nat) (h : (th.set j b)[i]? = some (.wParked p c)) : th[i]? = some (.wParked p c) := by
  rcases getElem?_set_cases th j i b _ h with ⟨_, hx⟩ | ⟨_, hx⟩
  · exact absurd hx.symm (hb p c)
  · exact hx

theorem snoc_parked (th : List TS) (b : TS) (hb : ∀ p c, b ≠ .wParked p c) (i : Nat) (p : Pred)
    (c : Nat) (h : (th ++ [b])[i]? = some (.wParked p c)) : th[i]? = some (.wParked p c) := by
  rcases getElem?_snoc_cases th b _ i h with ⟨_, hx⟩ | ⟨_, hx⟩
  · exact hx
  · exact absurd hx.symm (hb p c)

/-- events other than the three critical sections leave the channels alone and park nobody -/
theorem step_keep (s s' : St) (e : Ev) (hst : step s e = some s')
    (h1 : ∀ i, e ≠ .holdCS i) (h2 : ∀ i, e ≠ .waitCS i) (h3 : ∀ i, e ≠ .wakeCS i) :
    s'.bc = s.bc ∧ ∀ (i : Nat) (p : Pred) (c : Nat),
      s'.th[i]? = some (.wParked p c) → s.th[i]? = some (.wParked p c) := by
  cases e with
  | holdCS i => exact absurd rfl (h1 i)
  | waitCS i => exact absurd rfl (h2 i)
  | wakeCS i => exact absurd rfl (h3 i)
  | invHold i k p =>
    simp only [step] at hst; split at hst <;> try simp at hst
    split at hst <;> simp at hst <;> subst hst <;>
      exact ⟨rfl, fun i p c h => snoc_parked _ _ (by intro _ _ hh; cases hh) i p c h⟩
  | tryFail i =>
    simp only [step] at hst; split at hst <;> simp at hst; subst hst
    exact ⟨rfl, fun i p c h => set_parked _ _ _ (by intro _ _ hh; cases hh) i p c h⟩
  | retHold i k ok =>
    simp only [step] at hst; split at hst <;> try simp at hst
    · obtain ⟨_, rfl⟩ := hst
      exact ⟨rfl, fun i p c h => set_parked _ _ _ (by intro _ _ hh; cases hh) i p c h⟩
    · obtain ⟨_, rfl⟩ := hst
      exact ⟨rfl, fun i p c h => set_parked _ _ _ (by intro _ _ hh; cases hh) i p c h⟩
    · obtain ⟨_, rfl⟩ := hst
      exact ⟨rfl, fun i p c h => set_parked _ _ _ (by intro _ _ hh; cases hh) i p c h⟩
    · obtain ⟨_, rfl⟩ := hst; rename_i hs' cb _ _
      exact ⟨rfl, fun i p c h => set_parked _ _ _ (by intro _ _ hh; cases cb <;> simp at hh) i p c h⟩
  | cbout i =>
    simp only [step] at hst; split at hst <;> simp at hst; subst hst
    rename_i hs' rt _
    exact ⟨rfl, fun i p c h => set_parked _ _ _ (by intro _ _ hh; cases rt <;> simp at hh) i p c h⟩
  | bodyIn i => rw [step_bodyIn s s' i hst]; exact ⟨rfl, fun _ _ _ h => h⟩
  | bodyOut i => rw [step_bodyOut s s' i hst]; exact ⟨rfl, fun _ _ _ h => h⟩
  | invWait i p =>
    simp only [step] at hst; split at hst <;> try simp at hst
    split at hst <;> simp at hst <;> subst hst <;>
      exact ⟨rfl, fun i p c h => snoc_parked _ _ (by intro _ _ hh; cases hh) i p c h⟩
  | ctxRet i =>
    simp only [step] at hst; split at hst <;> simp at hst
    obtain ⟨_, rfl⟩ := hst
    exact ⟨rfl, fun i p c h => set_parked _ _ _ (by intro _ _ hh; cases hh) i p c h⟩
  | ctxTake i =>
    simp only [step] at hst; split at hst <;> simp at hst
    obtain ⟨_, rfl⟩ := hst
    exact ⟨rfl, fun i p c h => set_parked _ _ _ (by intro _ _ hh; cases hh) i p c h⟩
  | retWait i r =>
    simp only [step] at hst; split at hst <;> simp at hst
    obtain ⟨_, rfl⟩ := hst
    exact ⟨rfl, fun i p c h => set_parked _ _ _ (by intro _ _ hh; cases hh) i p c h⟩
  | envCancel i =>
    simp only [step] at hst; split at hst <;> simp at hst; subst hst
    exact ⟨rfl, fun _ _ _ h => h⟩
  | probe i k c =>
    simp only [step] at hst; split at hst <;> try simp at hst
    split at hst <;> try simp at hst
    obtain ⟨_, rfl⟩ := hst; exact ⟨rfl, fun _ _ _ h => h⟩
  | quiesce B =>
    simp only [step] at hst; split at hst <;> simp at hst; subst hst; exact ⟨rfl, fun _ _ _ h => h⟩

/-- a waiter that its critical section has just parked is parked on an open channel -/
theorem waitAttempt_parked (s : St) (hwf : s.bc.WF) (j : Nat) (q p : Pred) (c : Nat)
    (h : (waitAttempt s j q).th[j]? = some (.wParked p c)) : (waitAttempt s j q).bc.closed c = false := by
  obtain ⟨_, _, _, _, g5, _, _⟩ := Bcast.getWaitCh_spec s.bc hwf
  unfold waitAttempt at h ⊢
  split at h <;> simp only at h ⊢
  · rcases getElem?_set_cases _ _ _ _ _ h with ⟨_, hx⟩ | ⟨hx, _⟩
    · cases hx
    · exact absurd rfl hx
  · rcases getElem?_set_cases _ _ _ _ _ h with ⟨_, hx⟩ | ⟨hx, _⟩
    · cases hx
    · exact absurd rfl hx
  · rcases getElem?_set_cases _ _ _ _ _ h with ⟨_, hx⟩ | ⟨hx, _⟩
    · cases hx; exact g5
    · exact absurd rfl hx

/-- while the body of call `i` is past its critical section, a `Wait` call `i` is parked on an open
channel: nobody else can run a body, so nobody can broadcast -/
def LInv (ls : LSt) : Prop :=
  Inv ls.core ∧ ∀ i, ls.lock = some (i, true) → ∀ p c, ls.core.th[i]? = some (.wParked p c) →
    ls.core.bc.closed c = false

theorem linv_init : LInv lmodel.init := ⟨init_inv, by intro i h; cases h⟩

theorem lstep_linv (ls : LSt) (e : Ev) (ls' : LSt) (hi : LInv ls) (hst : lstep ls e = some ls') : LInv ls' := by
  obtain ⟨hc, hl⟩ := lstep_core ls ls' e hst
  refine ⟨step_inv _ _ _ hi.1 hc, ?_⟩
  intro i hlock p c hth
  -- the three critical sections
  by_cases h1 : ∃ j, e = .holdCS j
  · obtain ⟨j, rfl⟩ := h1
    simp only [lockStep] at hl
    split at hl <;> simp at hl
    rw [← hl] at hlock; cases hlock
    simp only [step] at hc
    split at hc <;> simp at hc <;> rw [← hc] at hth <;> simp only [runBody] at hth
    all_goals
      rcases getElem?_set_cases _ _ _ _ _ hth with ⟨_, hx⟩ | ⟨hx, _⟩
      · cases hx
      · exact absurd rfl hx
  by_cases h2 : ∃ j, e = .waitCS j
  · obtain ⟨j, rfl⟩ := h2
    simp only [lockStep] at hl
    split at hl <;> simp at hl
    rw [← hl] at hlock; cases hlock
    simp only [step] at hc
    split at hc <;> simp at hc
    rw [← hc] at hth ⊢
    exact waitAttempt_parked _ hi.1.bcwf _ _ _ _ hth
  by_cases h3 : ∃ j, e = .wakeCS j
  · obtain ⟨j, rfl⟩ := h3
    simp only [lockStep] at hl
    split at hl <;> simp at hl
    rw [← hl] at hlock; cases hlock
    simp only [step] at hc
    split at hc <;> simp at hc
    obtain ⟨_, hc⟩ := hc
    rw [← hc] at hth ⊢
    exact waitAttempt_parked _ hi.1.bcwf _ _ _ _ hth
  -- everything else keeps the channels, parks nobody, and cannot take the lock to `(i, true)`
  obtain ⟨k1, k2⟩ := step_keep _ _ e hc (fun j hj => h1 ⟨j, hj⟩) (fun j hj => h2 ⟨j, hj⟩)
    (fun j hj => h3 ⟨j, hj⟩)
  have hlock0 : ls.lock = some (i, true) := by
    cases e <;> simp only [lockStep] at hl <;>
      first
        | (exfalso; exact h1 ⟨_, rfl⟩)
        | (exfalso; exact h2 ⟨_, rfl⟩)
        | (exfalso; exact h3 ⟨_, rfl⟩)
        | (simp at hl; rw [hl]; exact hlock)
        | (split at hl <;> simp at hl <;> first | (rw [hl]; exact hlock) | (rw [← hl] at hlock; cases hlock))
  rw [k1]
  exact hi.2 i hlock0 p c (k2 i p c hth)

theorem reachable_linv (ls : LSt) (h : lmodel.Reachable ls) : LInv ls :=
  lmodel.invariant LInv linv_init (fun s e s' hi hs => lstep_linv s e s' hi hs) ls h

/-- **`==` is a bisimulation of the layered model on reachable states** -/
theorem quotok : lmodel.QuotOK := by
  refine ⟨?_⟩
  intro ls lt hrs hrt heq e ls' hstep
  obtain ⟨hn, hlk⟩ := (lbeq_iff_norm ls lt).mp heq
  have hrel := (norm_iff _ _).mp hn
  have his := reachable_linv ls hrs
  have hit := reachable_linv lt hrt
  obtain ⟨hc, hl⟩ := lstep_core ls ls' e hstep
  obtain ⟨e', t', ho, hlock, hst', hrel'⟩ := step_rel ls.core lt.core his.1 hit.1 hrel e ls'.core hc (by
    intro i he p c hth
    subst he
    simp only [lockStep] at hl
    split at hl <;> simp at hl
    rename_i hlk'
    exact his.2 i hlk' p c hth)
  refine ⟨e', ⟨t', ls'.lock⟩, ho, ?_, ?_⟩
  · show lstep lt e' = _
    unfold lstep
    rw [hlock, ← hlk, hl, hst']
  · exact (lbeq_iff_norm _ _).mpr ⟨(norm_iff _ _).mpr hrel', rfl⟩

/-! ## the core model alone is not a quotient

Without the lock layer `cbend t` (`bodyOut`) is enabled for a waiter parked on a closed channel
(`postBody`) but not for a waiter at `wInv`, and the state equality identifies the two. So there is
no `reject_sound` for `Broadcast.model` with this equality; the driver checks against `lmodel`, where
`LInv` rules the situation out. -/

/-- `Wait` call 1 just invoked, after call 0 broadcast -/
def coreA : St := { bc := ⟨none, 0⟩, th := [.holdRan .hold [], .wInv (.eq 5)] }
/-- `Wait` call 1 parked on channel 0, which call 0 then closed -/
def coreB : St := { bc := ⟨none, 1⟩, th := [.holdRan .hold [], .wParked (.eq 5) 0] }

theorem coreA_reachable : model.Reachable coreA :=
  ⟨[.invHold 0 .hold [.bcast], .holdCS 0, .invWait 1 (some (.eq 5))], by decide⟩

theorem coreB_reachable : model.Reachable coreB :=
  ⟨[.invHold 0 .hold [.bcast], .invWait 1 (some (.eq 5)), .waitCS 1, .holdCS 0], by decide⟩

theorem core_not_quot : ¬ model.QuotOK := by
  intro hq
  obtain ⟨e', t', ho, hstep, _⟩ := hq.bisim coreB coreA coreB_reachable coreA_reachable (by decide)
    (.bodyOut 1) coreB (by decide)
  have : e' = .bodyOut 1 := by
    change e'.obs = (Ev.bodyOut 1).obs at ho
    cases e' <;> simp [Ev.obs] at ho
    rw [ho]
  subst this
  revert hstep
  change step coreA (.bodyOut 1) = some t' → False
  have : step coreA (.bodyOut 1) = none := by decide
  rw [this]; intro h; cases h

end UtilModel.Broadcast
