import UtilModel.Promise.Proofs
/-!
# promise — every step preserves the invariant
-/
namespace UtilModel.Promise
open UtilModel

theorem winnerOf_set_ne (s : St) (p q : Nat) (pr : Prom) (th : List Th) (h : q ≠ p) :
    winnerOf { s with proms := s.proms.set p pr, th := th } q = winnerOf s q := by
  simp [winnerOf, List.getElem?_set, Ne.symm h]

theorem published_set_ne (s : St) (p q : Nat) (pr : Prom) (th : List Th) (h : q ≠ p) :
    published { s with proms := s.proms.set p pr, th := th } (.plain q) = published s (.plain q) := by
  simp [published, List.getElem?_set, Ne.symm h]

theorem published_plain_eq (s : St) (p : Nat) (pr : Prom) (hp : s.proms[p]? = some pr) :
    published s (.plain p) = pr.res := by simp [published, hp]

theorem published_mk_set (P : List Prom) (sl : Option PRef) (bc : Bcast) (T : List Th) (p : Nat)
    (pr' : Prom) (h : p < P.length) : published ⟨P.set p pr', sl, bc, T⟩ (.plain p) = pr'.res := by
  simp [published, h]

theorem published_fixed (s s' : St) (u : Nat) (e : Err) : published s' (.fixed u e) = published s (.fixed u e) := rfl

theorem born_get_set (P : List Prom) (p q : Nat) (pr pr' : Prom) (hp : P[p]? = some pr)
    (hb : pr'.born = pr.born) :
    ((P.set p pr')[q]?).map (fun x : Prom => x.born) = (P[q]?).map (fun x : Prom => x.born) := by
  by_cases hqp : p = q
  · subst hqp; rw [getElem?_set_self' P p pr pr' hp, hp]; simp [hb]
  · rw [getElem?_set_ne' _ _ _ _ hqp]

theorem notBorn_of_map (s s' : St) (q : Nat)
    (h : (s'.proms[q]?).map (fun x : Prom => x.born) = (s.proms[q]?).map (fun x : Prom => x.born)) :
    notBorn s' q = notBorn s q ∧ bornOf s' q = bornOf s q := by
  unfold notBorn bornOf
  cases h1 : s'.proms[q]? <;> cases h2 : s.proms[q]? <;> simp_all

theorem step_inv_set (s : St) (e : Ev) (s' : St) (hi : Inv s) (hs : step s e = some s')
    (he : (∃ t, e = .swap t) ∨ (∃ t, e = .publish t)) : Inv s' := by
  rcases he with ⟨t, rfl⟩ | ⟨t, rfl⟩
  · -- swap
    simp only [step] at hs
    split at hs <;> try simp at hs
    rename_i th ht
    split at hs <;> try simp at hs
    rename_i p v e hts
    split at hs <;> try simp at hs
    rename_i pr hp
    have hok := hi.th t th ht
    simp only [ThOK, hts] at hok
    obtain ⟨hv, hpl, hnw⟩ := hok
    have hstab : Stable th.ts (.setRet p v e false) := by
      rw [hts]; exact stable_of_plain _ _ (by simp) (by simp) (by simp) (by simp) (by simp)
    split at hs <;> simp at hs <;> subst hs
    · -- somebody else already won
      rename_i hw
      refine inv_local s t th _ hi ht hstab ?_
      simp only [ThOK]
      refine ⟨hv, ?_⟩
      rcases hw with hw | hw
      · obtain ⟨w, hw'⟩ := Option.isSome_iff_exists.mp hw
        refine Or.inl ⟨w, by simp [winnerOf, hp, hw'], ?_⟩
        intro h; subst h; exact hnw (by simp [winnerOf, hp, hw'])
      · exact Or.inr (by simp [bornOf, hp, hw])
    · -- this call wins
      rename_i hw
      have hwn : pr.winner = none := (by simpa using hw : pr.winner = none ∧ pr.born = false).1
      have hbf : pr.born = false := (by simpa using hw : pr.winner = none ∧ pr.born = false).2
      have hres : pr.res = none := by
        cases hr : pr.res with
        | none => rfl
        | some x => have := ((hi.pr p pr hp).1 x.1 x.2 (by rw [hr]) hbf).1; rw [hwn] at this; cases this
      have hbm : ∀ q, (((setTs s t th (.setWon p v e)).proms.set p { pr with winner := some t })[q]?).map (fun x : Prom => x.born) =
          (s.proms[q]?).map (fun x : Prom => x.born) := fun q => born_get_set s.proms p q pr _ hp rfl
      have hstab' : Stable th.ts (.setWon p v e) := by
        rw [hts]; exact stable_of_plain _ _ (by simp) (by simp) (by simp) (by simp) (by simp)
      have hpl' : p < s.proms.length := lt_of_getElem? hp
      -- frame for the other calls
      have F : ∀ u, u ≠ t → Frame s { setTs s t th (.setWon p v e) with
          proms := s.proms.set p { pr with winner := some t } } u := by
        intro u hut
        refine ⟨by simp [setTs], fun q h => by rw [(notBorn_of_map s _ q (hbm q)).1]; exact h,
          fun q h => by rw [(notBorn_of_map s _ q (hbm q)).2]; exact h,
          ?_, ?_, ?_, ?_, Nat.le_refl _, fun _ h => h, fun _ _ h => ⟨h, rfl⟩, ?_⟩
        · intro q w hq
          by_cases hqp : q = p
          · subst hqp; simp [winnerOf, hp, hwn] at hq
          · simp only [setTs]; rw [winnerOf_set_ne s p q _ _ hqp]; exact hq
        · intro q hq
          by_cases hqp : q = p
          · subst hqp; simp [winnerOf, setTs, hpl'] at hq; exact absurd hq.symm hut
          · simp only [setTs] at hq; rw [winnerOf_set_ne s p q _ _ hqp] at hq; exact hq
        · intro r x hr
          cases r with
          | plain q =>
            by_cases hqp : q = p
            · subst hqp; simp [published, hp, hres] at hr
            · simp only [setTs]; rw [published_set_ne s p q _ _ hqp]; exact hr
          | fixed w e' => exact hr
        · intro q _
          by_cases hqp : q = p
          · subst hqp
            show published ⟨s.proms.set q _, _, _, _⟩ (.plain q) = _
            rw [published_mk_set _ _ _ _ _ _ hpl', published_plain_eq s q pr hp]
          · simp only [setTs]; rw [published_set_ne s p q _ _ hqp]
        · intro r hr
          exact refOK_set s t th _ ht hstab' _ _ _
            (fun q h => by rw [(notBorn_of_map s _ q (hbm q)).1]; exact h) r hr
      refine ⟨hi.bcwf, ?_, ?_, ?_⟩
      · intro u x hu
        simp only [setTs] at hu
        rcases getElem?_set_cases s.th t u _ x hu with ⟨rfl, rfl⟩ | ⟨hne, hx⟩
        · simp only [ThOK]
          exact ⟨hv, by simp [winnerOf, setTs, hpl'], by simp [published, setTs, hpl', hres]⟩
        · exact thOK_frame (F u hne) x (hi.th u x hx)
      · intro q qr hq
        simp only [setTs] at hq
        rcases getElem?_set_cases s.proms p q _ qr hq with ⟨rfl, rfl⟩ | ⟨_, hx⟩
        · refine ⟨by intro v' e' h; simp [hres] at h, by intro h; simp [hbf] at h, ?_⟩
          intro w hw; simp at hw; subst hw
          exact ⟨{ th with ts := .setWon q v e }, by simp [setTs, lt_of_getElem? ht], Or.inl ⟨e, by simp [hv]⟩⟩
        · exact promOK_set s t th _ ht hstab' _ _ _ q qr (hi.pr q qr hx)
      · intro r hr
        exact refOK_set s t th _ ht hstab' _ _ _
          (fun q h => by rw [(notBorn_of_map s _ q (hbm q)).1]; exact h) r (hi.slot r hr)
  · -- publish
    simp only [step] at hs
    split at hs <;> try simp at hs
    rename_i th ht
    split at hs <;> try simp at hs
    rename_i p v e hts
    split at hs <;> simp at hs
    rename_i pr hp
    subst hs
    have hok := hi.th t th ht
    simp only [ThOK, hts] at hok
    obtain ⟨hv, hw, hnp⟩ := hok
    have hpl' : p < s.proms.length := lt_of_getElem? hp
    have hwp : pr.winner = some t := by simpa [winnerOf, hp] using hw
    have hbf : pr.born = false := by
      cases hb : pr.born with
      | false => rfl
      | true => have := ((hi.pr p pr hp).2.1 hb).1; rw [hwp] at this; cases this
    have hbm : ∀ q, (((setTs s t th (.setRet p v e true)).proms.set p { pr with res := some (v, e) })[q]?).map (fun x : Prom => x.born) =
        (s.proms[q]?).map (fun x : Prom => x.born) := fun q => born_get_set s.proms p q pr _ hp rfl
    have hstab : Stable th.ts (.setRet p v e true) := by
      rw [hts]
      constructor
      · intro e' h; rcases h with h | h <;> cases h
      intro p' w' h
      rcases h with ⟨e', h⟩ | ⟨e', h⟩ | ⟨e', h⟩ <;> cases h
      exact Or.inr (Or.inl ⟨_, rfl⟩)
    have F : ∀ u, u ≠ t → Frame s { setTs s t th (.setRet p v e true) with
        proms := s.proms.set p { pr with res := some (v, e) } } u := by
      intro u hut
      refine ⟨by simp [setTs], fun q h => by rw [(notBorn_of_map s _ q (hbm q)).1]; exact h,
        fun q h => by rw [(notBorn_of_map s _ q (hbm q)).2]; exact h,
        ?_, ?_, ?_, ?_, Nat.le_refl _, fun _ h => h, fun _ _ h => ⟨h, rfl⟩, ?_⟩
      · intro q w hq
        by_cases hqp : q = p
        · subst hqp; simp [winnerOf, hp] at hq; simp [winnerOf, setTs, hpl', hq]
        · simp only [setTs]; rw [winnerOf_set_ne s p q _ _ hqp]; exact hq
      · intro q hq
        by_cases hqp : q = p
        · subst hqp; simp [winnerOf, setTs, hpl'] at hq; simp [winnerOf, hp, hq]
        · simp only [setTs] at hq; rw [winnerOf_set_ne s p q _ _ hqp] at hq; exact hq
      · intro r x hr
        cases r with
        | plain q =>
          by_cases hqp : q = p
          · subst hqp; rw [hnp] at hr; cases hr
          · simp only [setTs]; rw [published_set_ne s p q _ _ hqp]; exact hr
        | fixed w e' => exact hr
      · intro q hq
        by_cases hqp : q = p
        · subst hqp; rw [hw] at hq; cases hq; exact absurd rfl hut
        · simp only [setTs]; rw [published_set_ne s p q _ _ hqp]
      · intro r hr
        exact refOK_set s t th _ ht hstab _ _ _
          (fun q h => by rw [(notBorn_of_map s _ q (hbm q)).1]; exact h) r hr
    refine ⟨hi.bcwf, ?_, ?_, ?_⟩
    · intro u x hu
      simp only [setTs] at hu
      rcases getElem?_set_cases s.th t u _ x hu with ⟨rfl, rfl⟩ | ⟨hne, hx⟩
      · simp only [ThOK]
        exact ⟨hv, by simp [winnerOf, setTs, hpl', hwp], by simp [published, setTs, hpl']⟩
      · exact thOK_frame (F u hne) x (hi.th u x hx)
    · intro q qr hq
      simp only [setTs] at hq
      rcases getElem?_set_cases s.proms p q _ qr hq with ⟨rfl, rfl⟩ | ⟨_, hx⟩
      · refine ⟨?_, by intro h; simp [hbf] at h, ?_⟩
        · intro v' e' h _; simp at h
          refine ⟨?_, by omega⟩
          show pr.winner = some (v' - 1)
          rw [hwp, ← h.1, hv]; simp
        · intro w hw'; simp [hwp] at hw'; subst hw'
          exact ⟨{ th with ts := .setRet q v e true }, by simp [setTs, lt_of_getElem? ht], Or.inr (Or.inl ⟨e, by simp [hv]⟩)⟩
      · exact promOK_set s t th _ ht hstab _ _ _ q qr (hi.pr q qr hx)
    · intro r hr
      exact refOK_set s t th _ ht hstab _ _ _
        (fun q h => by rw [(notBorn_of_map s _ q (hbm q)).1]; exact h) r (hi.slot r hr)

end UtilModel.Promise

namespace UtilModel.Promise
open UtilModel

theorem published_proms_append (s : St) (x : Prom) (r : PRef) (y : Nat × Err) (h : published s r = some y) :
    published { s with proms := s.proms ++ [x] } r = some y := by
  cases r with
  | plain p =>
    simp only [published] at h ⊢
    cases hp : s.proms[p]? with
    | none => simp [hp] at h
    | some pr => rw [getElem?_snoc_left _ _ _ _ hp]; simpa [hp] using h
  | fixed u e => exact h

theorem born_proms_append (s : St) (x : Prom) (q : Nat) :
    (notBorn s q = true → notBorn { s with proms := s.proms ++ [x] } q = true) ∧
    (bornOf s q = true → bornOf { s with proms := s.proms ++ [x] } q = true) := by
  unfold notBorn bornOf
  cases hp : s.proms[q]? with
  | none => simp
  | some pr => simp only; rw [getElem?_snoc_left _ _ _ _ hp]; simp

/-- a new promise (unresolved, or born resolved) is appended to the table -/
theorem inv_proms_append (s : St) (x : Prom) (hi : Inv s) (hw : x.winner = none)
    (hx1 : ∀ v e, x.res = some (v, e) → x.born = true)
    (hx2 : x.born = true → ∃ e, x.res = some (0, e)) : Inv { s with proms := s.proms ++ [x] } := by
  have F : ∀ u, Frame s { s with proms := s.proms ++ [x] } u := by
    intro u
    refine ⟨by simp, fun q => (born_proms_append s x q).1, fun q => (born_proms_append s x q).2,
      ?_, ?_, fun r y h => published_proms_append s _ r y h, ?_, Nat.le_refl _, fun _ h => h,
      fun _ _ h => ⟨h, rfl⟩, ?_⟩
    · intro q w hq
      simp only [winnerOf] at hq ⊢
      cases hp : s.proms[q]? with
      | none => simp [hp] at hq
      | some pr => rw [getElem?_snoc_left _ _ _ _ hp]; simpa [hp] using hq
    · intro q hq
      simp only [winnerOf] at hq ⊢
      cases hp : (s.proms ++ [x])[q]? with
      | none => simp [hp] at hq
      | some pr =>
        rcases getElem?_snoc_cases _ _ _ _ hp with ⟨_, hx⟩ | ⟨_, rfl⟩
        · simpa [hp, hx] using hq
        · simp [hp, hw] at hq
    · intro q hq
      simp only [winnerOf] at hq
      cases hp : s.proms[q]? with
      | none => simp [hp] at hq
      | some pr => simp only [published]; rw [getElem?_snoc_left _ _ _ _ hp, hp]
    · intro r hr
      cases r with
      | plain q => exact (born_proms_append s x q).1 hr
      | fixed w e => exact hr
  refine ⟨hi.bcwf, fun u y hu => thOK_frame (F u) y (hi.th u y hu), ?_, fun r hr => (F 0).ref r (hi.slot r hr)⟩
  intro q qr hq
  simp only at hq
  rcases getElem?_snoc_cases _ _ _ _ hq with ⟨_, hx⟩ | ⟨_, rfl⟩
  · exact hi.pr q qr hx
  · refine ⟨?_, fun hb => ⟨hw, hx2 hb⟩, by intro w h; rw [hw] at h; cases h⟩
    intro v e h hb
    rw [hx1 v e h] at hb; cases hb

theorem step_inv_newp (s : St) (p : Nat) (s' : St) (hi : Inv s) (hs : step s (.newp p) = some s') : Inv s' := by
  simp only [step] at hs; split at hs <;> simp at hs; subst hs
  exact inv_proms_append s {} hi rfl (by intro v e h; cases h) (by intro h; cases h)

theorem step_inv_newpe (s : St) (p : Nat) (e : Err) (s' : St) (hi : Inv s)
    (hs : step s (.newpe p e) = some s') : Inv s' := by
  simp only [step] at hs; split at hs <;> simp at hs; subst hs
  exact inv_proms_append s _ hi rfl (by intro v e' h; rfl) (by intro _; exact ⟨e, rfl⟩)

/-- after a broadcast every allocated channel is closed -/
theorem frame_broadcast (s : St) (t : Nat) (th th' : Th) (ht : s.th[t]? = some th)
    (hst : Stable th.ts th'.ts) (slot : Option PRef) (u : Nat) :
    Frame s { s with slot := slot, bc := s.bc.broadcast, th := s.th.set t th' } u := by
  obtain ⟨_, b2, _, b4, b5⟩ := Bcast.broadcast_spec s.bc
  exact {
    plen := Nat.le_refl _
    nb := fun _ h => h
    bn := fun _ h => h
    win := fun _ _ h => h
    winU := fun _ h => h
    pub := fun r x h => by cases r <;> exact h
    pubU := fun p _ => rfl
    bnext := by simp [b2]
    bclosed := fun c h => b5 c h
    bopen := fun c hc ho => by rw [b4 c hc] at ho; cases ho
    ref := fun r h => refOK_set s t th th' ht hst s.proms slot s.bc.broadcast (fun _ h => h) r h }

theorem step_inv_cw (s : St) (t : Nat) (s' : St) (hi : Inv s) (hs : step s (.cWCS t) = some s') : Inv s' := by
  simp only [step] at hs
  split at hs <;> try simp at hs
  rename_i th ht
  have hlt := lt_of_getElem? ht
  obtain ⟨_, _, b3, _, _⟩ := Bcast.broadcast_spec s.bc
  split at hs <;> try simp at hs
  · rename_i p hts
    have hstab : ∀ x, Stable th.ts (TS.cRet x) := by
      intro x; rw [hts]; exact stable_of_plain _ _ (by simp) (by simp) (by simp) (by simp) (by simp)
    have hok := hi.th t th ht
    simp only [ThOK, hts] at hok
    split at hs <;> simp at hs <;> subst hs
    · exact inv_local s t th _ hi ht (hstab _) (by simp [ThOK])
    · have F := frame_broadcast s t th { th with ts := .cRet (.setp p) } ht (hstab _) (p.map .plain)
      refine ⟨b3, ?_, ?_, ?_⟩
      · intro u x hu
        simp only [setTs] at hu
        rcases getElem?_set_cases s.th t u _ x hu with ⟨rfl, rfl⟩ | ⟨_, hx⟩
        · simp [ThOK]
        · exact thOK_frame (F u) x (hi.th u x hx)
      · intro q qr hq
        exact promOK_set s t th _ ht (hstab _) _ _ _ q qr (hi.pr q qr hq)
      · intro r hr
        simp only [setTs] at hr
        cases p with
        | none => simp at hr
        | some p => simp at hr hok; subst hr; exact hok
  · rename_i e hts
    have hstab : Stable th.ts (TS.cRet (.res e)) := by
      rw [hts]; exact stable_of_plain _ _ (by simp) (by simp) (by simp) (by simp) (by simp)
    subst hs
    have F := frame_broadcast s t th { th with ts := .cRet (.res e) } ht hstab (some (.fixed t e))
    refine ⟨b3, ?_, ?_, ?_⟩
    · intro u x hu
      simp only [setTs] at hu
      rcases getElem?_set_cases s.th t u _ x hu with ⟨rfl, rfl⟩ | ⟨_, hx⟩
      · simp [ThOK]
      · exact thOK_frame (F u) x (hi.th u x hx)
    · intro q qr hq
      exact promOK_set s t th _ ht hstab _ _ _ q qr (hi.pr q qr hq)
    · intro r hr
      simp only [setTs] at hr
      simp at hr; subst hr
      exact ⟨{ th with ts := .cRet (.res e) }, by simp [setTs, hlt], Or.inl rfl⟩

theorem step_inv_sample (s : St) (t : Nat) (s' : St) (hi : Inv s) (hs : step s (.cSample t) = some s') : Inv s' := by
  simp only [step] at hs
  split at hs <;> try simp at hs
  rename_i th ht
  split at hs <;> try simp at hs
  rename_i k hts
  have hlt := lt_of_getElem? ht
  obtain ⟨g1, g2, g3, g4, g5, g6, g7⟩ := Bcast.getWaitCh_spec s.bc hi.bcwf
  have F : ∀ (th' : Th), Stable th.ts th'.ts → ∀ u,
      Frame s { s with bc := s.bc.getWaitCh.1, th := s.th.set t th' } u := by
    intro th' hst u
    exact {
      plen := Nat.le_refl _
      nb := fun _ h => h
      bn := fun _ h => h
      win := fun _ _ h => h
      winU := fun _ h => h
      pub := fun r x h => by cases r <;> exact h
      pubU := fun p _ => rfl
      bnext := g3
      bclosed := fun c h => Bcast.closed_mono_get s.bc hi.bcwf c h
      bopen := fun c hc ho => by
        refine ⟨?_, rfl⟩
        by_cases hcn : c = s.bc.getWaitCh.2
        · cases hcl : s.bc.closed c with
          | false => rfl
          | true => exact absurd hcn (g6 c hcl)
        · rw [← g4 c hcn]; exact ho
      ref := fun r h => refOK_set s t th th' ht hst s.proms s.slot s.bc.getWaitCh.1 (fun _ h => h) r h }
  have hstab : ∀ x, Stable th.ts x := by
    intro x; rw [hts]; exact stable_of_plain _ _ (by simp) (by simp) (by simp) (by simp) (by simp)
  split at hs <;> simp at hs <;> subst hs
  · rename_i hsl
    refine ⟨g7, ?_, ?_, ?_⟩
    · intro u x hu
      simp only [setTs] at hu
      rcases getElem?_set_cases s.th t u _ x hu with ⟨rfl, rfl⟩ | ⟨_, hx⟩
      · simp only [ThOK, setTs]
        exact ⟨g2, fun _ => hsl⟩
      · exact thOK_frame (F _ (hstab _) u) x (hi.th u x hx)
    · intro q qr hq
      exact promOK_set s t th _ ht (hstab _) _ _ _ q qr (hi.pr q qr hq)
    · intro r hr
      exact (F _ (hstab (.cNil k s.bc.getWaitCh.2)) 0).ref r (hi.slot r hr)
  · rename_i r hsl
    refine ⟨g7, ?_, ?_, ?_⟩
    · intro u x hu
      simp only [setTs] at hu
      rcases getElem?_set_cases s.th t u _ x hu with ⟨rfl, rfl⟩ | ⟨_, hx⟩
      · simp only [ThOK, setTs]
        exact ⟨g2, fun _ => hsl, (F { th with ts := .cInner k r s.bc.getWaitCh.2 } (hstab _) 0).ref r (hi.slot r hsl)⟩
      · exact thOK_frame (F _ (hstab _) u) x (hi.th u x hx)
    · intro q qr hq
      exact promOK_set s t th _ ht (hstab _) _ _ _ q qr (hi.pr q qr hq)
    · intro r' hr
      exact (F _ (hstab (.cInner k r s.bc.getWaitCh.2)) 0).ref r' (hi.slot r' hr)

end UtilModel.Promise

namespace UtilModel.Promise
open UtilModel

theorem fromRef_of_published (s : St) (r : PRef) (v : Nat) (e : Err) (h1 : refOK s r)
    (h2 : published s r = some (v, e)) : fromRef s v e := ⟨r, h1, h2⟩

theorem step_inv (s : St) (e : Ev) (s' : St) (hi : Inv s) (hs : step s e = some s') : Inv s' := by
  cases e with
  | newp p => exact step_inv_newp s p s' hi hs
  | newpe p e => exact step_inv_newpe s p e s' hi hs
  | checkLike c ok => simp only [step] at hs; split at hs <;> simp at hs; subst hs; exact hi
  | swap t => exact step_inv_set s _ s' hi hs (Or.inl ⟨t, rfl⟩)
  | publish t => exact step_inv_set s _ s' hi hs (Or.inr ⟨t, rfl⟩)
  | cWCS t => exact step_inv_cw s t s' hi hs
  | cSample t => exact step_inv_sample s t s' hi hs
  | invSet t p v e =>
    simp only [step] at hs; split at hs <;> simp at hs; subst hs
    rename_i h
    obtain ⟨rfl, hp, hv⟩ := h
    refine inv_append s _ hi ?_
    simp only [ThOK]
    refine ⟨hv, hp, ?_⟩
    intro hw
    simp only [winnerOf] at hw
    cases hpp : s.proms[p]? with
    | none => simp [hpp] at hw
    | some pr =>
      simp [hpp] at hw
      obtain ⟨x, hx, _⟩ := (hi.pr p pr hpp).2.2 _ hw
      have := lt_of_getElem? hx; omega
  | invAwait t p k =>
    simp only [step] at hs; split at hs <;> simp at hs; subst hs
    rename_i h
    exact inv_append s _ hi (by simp only [ThOK]; exact h.2)
  | invCSetP t p =>
    simp only [step] at hs; split at hs <;> simp at hs; subst hs
    rename_i h
    exact inv_append s _ hi (by simp only [ThOK]; exact h.2)
  | invCRes t v e =>
    simp only [step] at hs; split at hs <;> simp at hs; subst hs
    exact inv_append s _ hi (by simp [ThOK])
  | invCAwait t k =>
    simp only [step] at hs; split at hs <;> simp at hs; subst hs
    exact inv_append s _ hi (by simp [ThOK])
  | retSet t b =>
    simp only [step] at hs
    split at hs <;> try simp at hs
    rename_i th ht
    split at hs <;> try simp at hs
    rename_i p v e b' hts
    obtain ⟨rfl, rfl⟩ := hs
    have hok := hi.th t th ht
    simp only [ThOK, hts] at hok
    refine inv_local s t th _ hi ht ?_ (by simp only [ThOK]; exact hok)
    rw [hts]
    constructor
    · intro e' h; rcases h with h | h <;> cases h
    · intro p' w' h
      rcases h with ⟨e', h⟩ | ⟨e', h⟩ | ⟨e', h⟩ <;> cases h
      exact Or.inr (Or.inr ⟨_, rfl⟩)
  | awSel t br =>
    simp only [step] at hs
    split at hs <;> try simp at hs
    rename_i th ht
    split at hs <;> try simp at hs
    rename_i p k hts
    have hstab : ∀ x, Stable th.ts x := by
      intro x; rw [hts]; exact stable_of_plain _ _ (by simp) (by simp) (by simp) (by simp) (by simp)
    cases br with
    | ctx =>
      simp only at hs
      split at hs <;> simp at hs; subst hs
      rename_i hcx
      exact inv_local s t th _ hi ht (hstab _) (by simp only [ThOK]; exact Or.inr ⟨by first | rfl | trivial, Or.inl ⟨by first | rfl | trivial, hcx⟩⟩)
    | usr =>
      simp only at hs
      split at hs <;> simp at hs; subst hs
      rename_i v e hu
      have := usrPlain_zero k th.ch v e hu; subst this
      exact inv_local s t th _ hi ht (hstab _) (by simp only [ThOK]; exact Or.inr ⟨by first | rfl | trivial, Or.inr hu⟩)
    | res =>
      simp only at hs
      split at hs <;> simp at hs; subst hs
      rename_i v e hp
      exact inv_local s t th _ hi ht (hstab _)
        (by simp only [ThOK]; exact Or.inl hp)
    | wait => simp at hs
  | retAwait t v e =>
    simp only [step] at hs
    split at hs <;> try simp at hs
    rename_i th ht
    split at hs <;> try simp at hs
    rename_i o k v' e' hts
    obtain ⟨⟨rfl, rfl⟩, rfl⟩ := hs
    have hok := hi.th t th ht
    have hstab : ∀ x, Stable th.ts x := by
      intro x; rw [hts]; exact stable_of_plain _ _ (by simp) (by simp) (by simp) (by simp) (by simp)
    refine inv_local s t th _ hi ht (hstab _) ?_
    cases o <;> simp only [ThOK, hts] at hok ⊢ <;> exact hok
  | envCancel t =>
    simp only [step] at hs
    split at hs <;> simp at hs
    rename_i th ht
    subst hs
    refine inv_local s t th _ hi ht (stable_refl _) ?_
    exact thOK_env s t th _ (hi.th t th ht) rfl (fun _ => rfl) (Or.inr rfl)
  | envFire t f =>
    simp only [step] at hs
    split at hs <;> try simp at hs
    rename_i th ht
    obtain ⟨hch, rfl⟩ := hs
    refine inv_local s t th _ hi ht (stable_refl _) ?_
    exact thOK_env s t th _ (hi.th t th ht) rfl (fun h => h) (Or.inl hch)
  | retCSetP t =>
    simp only [step] at hs
    split at hs <;> try simp at hs
    rename_i th ht
    split at hs <;> try simp at hs
    rename_i p hts
    subst hs
    refine inv_local s t th _ hi ht ?_ (by simp [ThOK])
    rw [hts]
    constructor
    · intro e' h; rcases h with h | h <;> cases h
    · intro p' w' h
      rcases h with ⟨e', h⟩ | ⟨e', h⟩ | ⟨e', h⟩ <;> cases h
  | retCRes t =>
    simp only [step] at hs
    split at hs <;> try simp at hs
    rename_i th ht
    split at hs <;> try simp at hs
    rename_i e hts
    subst hs
    refine inv_local s t th _ hi ht ?_ (by simp [ThOK])
    rw [hts]
    constructor
    · intro e' h; rcases h with h | h <;> cases h
      exact Or.inr rfl
    · intro p' w' h
      rcases h with ⟨e', h⟩ | ⟨e', h⟩ | ⟨e', h⟩ <;> cases h
  | cNilSel t br =>
    simp only [step] at hs
    split at hs <;> try simp at hs
    rename_i th ht
    split at hs <;> try simp at hs
    rename_i k c hts
    have hstab : ∀ x, Stable th.ts x := by
      intro x; rw [hts]; exact stable_of_plain _ _ (by simp) (by simp) (by simp) (by simp) (by simp)
    cases br with
    | ctx =>
      simp only at hs
      split at hs <;> simp at hs; subst hs
      rename_i hcx
      exact inv_local s t th _ hi ht (hstab _) (by simp only [ThOK]; exact Or.inr ⟨by first | rfl | trivial, Or.inl ⟨by first | rfl | trivial, hcx⟩⟩)
    | usr =>
      simp only at hs
      split at hs <;> simp at hs; subst hs
      rename_i v e hu
      have := usrNil_zero k th.ch v e hu; subst this
      exact inv_local s t th _ hi ht (hstab _) (by simp only [ThOK]; exact Or.inr ⟨by first | rfl | trivial, Or.inr hu⟩)
    | wait =>
      simp only at hs
      split at hs <;> simp at hs; subst hs
      exact inv_local s t th _ hi ht (hstab _) (by simp [ThOK])
    | res => simp at hs
  | cInnerSel t br =>
    simp only [step] at hs
    split at hs <;> try simp at hs
    rename_i th ht
    split at hs <;> try simp at hs
    rename_i k r c hts
    have hok := hi.th t th ht
    simp only [ThOK, hts] at hok
    obtain ⟨hc, _, hr⟩ := hok
    have hstab : ∀ x, Stable th.ts x := by
      intro x; rw [hts]; exact stable_of_plain _ _ (by simp) (by simp) (by simp) (by simp) (by simp)
    cases br with
    | ctx =>
      simp only at hs
      split at hs <;> simp at hs; subst hs
      rename_i hcx
      exact inv_local s t th _ hi ht (hstab _)
        (by simp only [ThOK]; exact ⟨hc, fun _ => Or.inl hcx, by intro h; omega⟩)
    | wait =>
      simp only at hs
      split at hs <;> simp at hs; subst hs
      rename_i hcl
      exact inv_local s t th _ hi ht (hstab _)
        (by simp only [ThOK]; exact ⟨hc, fun _ => Or.inr hcl, by intro h; omega⟩)
    | res =>
      simp only at hs
      split at hs <;> simp at hs <;> subst hs
      · rename_i v hp
        exact inv_local s t th _ hi ht (hstab _)
          (by simp only [ThOK]; exact Or.inl ⟨published_pos s hi _ v _ hr hp, fromRef_of_published s r v _ hr hp⟩)
      · rename_i v hp
        have hv := published_pos s hi _ v _ hr hp
        exact inv_local s t th _ hi ht (hstab _)
          (by simp only [ThOK]; exact ⟨hc, by intro h; omega, fun _ => fromRef_of_published s r v _ hr hp⟩)
      · rename_i v e _ _ hp
        exact inv_local s t th _ hi ht (hstab _)
          (by simp only [ThOK]; exact Or.inl ⟨published_pos s hi _ v _ hr hp, fromRef_of_published s r v _ hr hp⟩)
    | usr => simp at hs
  | cChk1 t =>
    simp only [step] at hs
    split at hs <;> try simp at hs
    rename_i th ht
    split at hs <;> try simp at hs
    rename_i k c v hts
    have hok := hi.th t th ht
    simp only [ThOK, hts] at hok
    obtain ⟨hc, h0, h1⟩ := hok
    have hstab : ∀ x, Stable th.ts x := by
      intro x; rw [hts]; exact stable_of_plain _ _ (by simp) (by simp) (by simp) (by simp) (by simp)
    split at hs <;> simp at hs <;> subst hs
    · rename_i hcx
      refine inv_local s t th _ hi ht (hstab _) ?_
      simp only [ThOK]
      rcases Nat.eq_zero_or_pos v with hv | hv
      · subst hv; exact Or.inr ⟨by first | rfl | trivial, Or.inl ⟨by first | rfl | trivial, hcx⟩⟩
      · exact Or.inl ⟨hv, h1 hv⟩
    · rename_i hcx
      refine inv_local s t th _ hi ht (hstab _) ?_
      simp only [ThOK]
      refine ⟨hc, ?_, h1⟩
      intro hv
      rcases h0 hv with h | h
      · exact absurd h hcx
      · exact h
  | cChk2 t =>
    simp only [step] at hs
    split at hs <;> try simp at hs
    rename_i th ht
    split at hs <;> try simp at hs
    rename_i k c v hts
    have hok := hi.th t th ht
    simp only [ThOK, hts] at hok
    obtain ⟨hc, h0, h1⟩ := hok
    have hstab : ∀ x, Stable th.ts x := by
      intro x; rw [hts]; exact stable_of_plain _ _ (by simp) (by simp) (by simp) (by simp) (by simp)
    split at hs <;> simp at hs <;> subst hs
    · exact inv_local s t th _ hi ht (hstab _) (by simp [ThOK])
    · rename_i hcl
      refine inv_local s t th _ hi ht (hstab _) ?_
      simp only [ThOK]
      rcases Nat.eq_zero_or_pos v with hv | hv
      · exact absurd (h0 hv) hcl
      · exact Or.inl ⟨hv, h1 hv⟩
  | quiesce b B =>
    simp only [step] at hs; split at hs <;> simp at hs; subst hs; exact hi

theorem reachable_inv (es : List Ev) (s : St) (h : model.run model.init es = some s) : Inv s :=
  model.run_invariant Inv (fun s e s' hi hs => step_inv s e s' hi hs) _ _ es init_inv h

end UtilModel.Promise
