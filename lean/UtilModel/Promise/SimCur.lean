import UtilModel.Promise.SimLive
/-!
# promise — `monC11cur` accepts every trace of the model: a container awaiter returns the result of
a promise that was current during the call
-/
namespace UtilModel.Promise
open UtilModel

/-- a writer whose critical section has been executed stays that writer -/
theorem written_stable_step (s s' : St) (e : Ev) (hs : step s e = some s') (u : Nat) (thu : Th)
    (hu : s.th[u]? = some thu) (hw : thu.ts.written = true) :
    ∃ thu', s'.th[u]? = some thu' ∧ thu'.ts.written = true ∧ thu'.ts.writerOf = thu.ts.writerOf := by
  have hlt := lt_of_getElem? hu
  cases ho : e.obs with
  | none =>
    by_cases hc : ∃ t, e = .cWCS t
    · obtain ⟨t, rfl⟩ := hc
      obtain ⟨th, wk, ht, hts, hth, _⟩ := cw_shape s s' t hs
      have hne : t ≠ u := by
        intro h; subst h; rw [ht] at hu; cases hu; rw [hts] at hw; cases hw
      exact ⟨thu, by rw [hth, getElem?_set_ne' _ _ _ _ hne]; exact hu, hw, rfl⟩
    · obtain ⟨_, t, th, ts, ht, hth, h1, _⟩ := internal_nonwriter s s' e hs ho (fun t h => hc ⟨t, h⟩)
      have hne : t ≠ u := by
        intro h; subst h; rw [ht] at hu; cases hu
        rw [written_of_writerOf_none _ h1] at hw; cases hw
      exact ⟨thu, by rw [hth, getElem?_set_ne' _ _ _ _ hne]; exact hu, hw, rfl⟩
  | some o =>
    cases e with
    | newp q => simp only [step] at hs; split at hs <;> simp at hs; subst hs; exact ⟨thu, hu, hw, rfl⟩
    | newpe q e0 => simp only [step] at hs; split at hs <;> simp at hs; subst hs; exact ⟨thu, hu, hw, rfl⟩
    | checkLike c ok => simp only [step] at hs; split at hs <;> simp at hs; subst hs; exact ⟨thu, hu, hw, rfl⟩
    | quiesce bb B => simp only [step] at hs; split at hs <;> simp at hs; subst hs; exact ⟨thu, hu, hw, rfl⟩
    | invSet t q v e' =>
      simp only [step] at hs; split at hs <;> simp at hs; subst hs
      exact ⟨thu, getElem?_snoc_left _ _ _ _ hu, hw, rfl⟩
    | invAwait t q k =>
      simp only [step] at hs; split at hs <;> simp at hs; subst hs
      exact ⟨thu, getElem?_snoc_left _ _ _ _ hu, hw, rfl⟩
    | invCSetP t q =>
      simp only [step] at hs; split at hs <;> simp at hs; subst hs
      exact ⟨thu, getElem?_snoc_left _ _ _ _ hu, hw, rfl⟩
    | invCRes t v e' =>
      simp only [step] at hs; split at hs <;> simp at hs; subst hs
      exact ⟨thu, getElem?_snoc_left _ _ _ _ hu, hw, rfl⟩
    | invCAwait t k =>
      simp only [step] at hs; split at hs <;> simp at hs; subst hs
      exact ⟨thu, getElem?_snoc_left _ _ _ _ hu, hw, rfl⟩
    | envCancel t =>
      simp only [step] at hs; split at hs <;> simp at hs
      rename_i th ht
      subst hs
      by_cases hut : t = u
      · subst hut; rw [hu] at ht; cases ht
        exact ⟨{ thu with cx := true }, by simp [hlt], hw, rfl⟩
      · exact ⟨thu, by simp only; rw [getElem?_set_ne' _ _ _ _ hut]; exact hu, hw, rfl⟩
    | envFire t f =>
      simp only [step] at hs; split at hs <;> try simp at hs
      rename_i th ht
      obtain ⟨_, rfl⟩ := hs
      by_cases hut : t = u
      · subst hut; rw [hu] at ht; cases ht
        exact ⟨{ thu with ch := some f }, by simp [hlt], hw, rfl⟩
      · exact ⟨thu, by simp only; rw [getElem?_set_ne' _ _ _ _ hut]; exact hu, hw, rfl⟩
    | retSet t bb =>
      simp only [step] at hs
      split at hs <;> try simp at hs
      rename_i th ht
      split at hs <;> try simp at hs
      rename_i q v e' b' hts
      obtain ⟨_, rfl⟩ := hs
      have hut : t ≠ u := by intro h; subst h; rw [hu] at ht; cases ht; rw [hts] at hw; cases hw
      exact ⟨thu, by simp only [setTs]; rw [getElem?_set_ne' _ _ _ _ hut]; exact hu, hw, rfl⟩
    | retAwait t v e' =>
      simp only [step] at hs
      split at hs <;> try simp at hs
      rename_i th ht
      split at hs <;> try simp at hs
      rename_i o' k v' e'' hts
      obtain ⟨_, rfl⟩ := hs
      have hut : t ≠ u := by intro h; subst h; rw [hu] at ht; cases ht; rw [hts] at hw; cases hw
      exact ⟨thu, by simp only [setTs]; rw [getElem?_set_ne' _ _ _ _ hut]; exact hu, hw, rfl⟩
    | retCSetP t =>
      simp only [step] at hs
      split at hs <;> try simp at hs
      rename_i th ht
      split at hs <;> try simp at hs
      rename_i q hts
      subst hs
      by_cases hut : t = u
      · subst hut; rw [hu] at ht; cases ht
        exact ⟨{ thu with ts := .cDone (.setp q) }, by simp [setTs, hlt], rfl, by rw [hts]; rfl⟩
      · exact ⟨thu, by simp only [setTs]; rw [getElem?_set_ne' _ _ _ _ hut]; exact hu, hw, rfl⟩
    | retCRes t =>
      simp only [step] at hs
      split at hs <;> try simp at hs
      rename_i th ht
      split at hs <;> try simp at hs
      rename_i q hts
      subst hs
      by_cases hut : t = u
      · subst hut; rw [hu] at ht; cases ht
        exact ⟨{ thu with ts := .cDone (.res q) }, by simp [setTs, hlt], rfl, by rw [hts]; rfl⟩
      · exact ⟨thu, by simp only [setTs]; rw [getElem?_set_ne' _ _ _ _ hut]; exact hu, hw, rfl⟩
    | _ => simp [Ev.obs] at ho

theorem refOK_step (s s' : St) (e : Ev) (hs : step s e = some s') (r : PRef) (h : refOK s r) : refOK s' r := by
  cases r with
  | plain p =>
    simp only [refOK, notBorn] at h ⊢
    cases hp : s.proms[p]? with
    | none => simp [hp] at h
    | some pr =>
      simp [hp] at h
      obtain ⟨pr', h1, h2⟩ := born_flag_step s s' e hs p pr hp
      simp [h1, h2, h]
  | fixed u x =>
    obtain ⟨thu, hu, hts⟩ := h
    have hw : thu.ts.written = true := by rcases hts with h | h <;> rw [h] <;> rfl
    obtain ⟨thu', h1, h2, h3⟩ := written_stable_step s s' e hs u thu hu hw
    refine ⟨thu', h1, ?_⟩
    have hwo : thu.ts.writerOf = some (.res x) := by rcases hts with h | h <;> rw [h] <;> rfl
    rw [hwo] at h3
    cases hts' : thu'.ts <;> simp [hts', TS.writerOf, TS.written] at h2 h3
    · left; rw [h3]
    · right; rw [h3]

end UtilModel.Promise

namespace UtilModel.Promise
open UtilModel

/-- a container awaiter that has not returned -/
def TS.isCont : TS → Bool
  | .cHead _ | .cNil .. | .cInner .. | .cChk1 .. | .cChk2 .. | .awRet none .. => true
  | _ => false

/-- value `v` is the published result of a promise the awaiter has seen as content of the container -/
def FromSeen (s : St) (seen : List (Option PRef)) (v : Nat) : Prop :=
  ∃ r, refOK s r ∧ some r ∈ seen ∧ ∃ e, published s r = some (v, e)

def SeenOK (s : St) (th : Th) (seen : List (Option PRef)) : Prop :=
  match th.ts with
  | .cNil _ _ => none ∈ seen
  | .cInner _ r _ => some r ∈ seen
  | .cChk1 _ _ v | .cChk2 _ _ v => 1 ≤ v → FromSeen s seen v
  | .awRet none _ v e =>
    (1 ≤ v → FromSeen s seen v) ∧ (v = 0 → (e = .canceled ∧ th.cx = true) ∨ none ∈ seen)
  | _ => True

/-- the content of the container, and the target of every writer that has not yet executed its
critical section, are in `seen` -/
def GlobOK (s : St) (seen : List (Option PRef)) : Prop :=
  s.slot ∈ seen ∧ ∀ (y : Nat) (thy : Th) (wk : CW), s.th[y]? = some thy → thy.ts = .cWInv wk → tgtOf y wk ∈ seen

/-- part 3 of the bookkeeping relation: what every pending container awaiter has seen -/
structure RS (s : St) (b : Book) : Prop where
  call : ∀ (t : Nat) (th : Th) (c : Call), s.th[t]? = some th → b.calls[t]? = some c → th.ts.isCont = true →
    GlobOK s c.seen ∧ SeenOK s th c.seen

theorem rs_init : RS model.init {} := ⟨by intro t th c h; simp [model] at h⟩

theorem fromSeen_mono (s s' : St) (e : Ev) (hi : Inv s) (hs : step s e = some s')
    (seen seen' : List (Option PRef)) (hsub : ∀ x, x ∈ seen → x ∈ seen') (v : Nat)
    (h : FromSeen s seen v) : FromSeen s' seen' v := by
  obtain ⟨r, h1, h2, x, h3⟩ := h
  exact ⟨r, refOK_step s s' e hs r h1, hsub _ h2, x, published_mono_step s s' e hi hs r _ h3⟩

/-- `SeenOK` survives a step for a call whose program counter does not change -/
theorem seenOK_mono (s s' : St) (e : Ev) (hi : Inv s) (hs : step s e = some s') (th th' : Th)
    (seen seen' : List (Option PRef)) (hsub : ∀ x, x ∈ seen → x ∈ seen')
    (hts : th'.ts = th.ts) (hcx : th.cx = true → th'.cx = true) (h : SeenOK s th seen) :
    SeenOK s' th' seen' := by
  unfold SeenOK at h ⊢
  rw [hts]
  split <;> rename_i hx <;> simp only [hx] at h
  · exact hsub _ h
  · exact hsub _ h
  · exact fun hv => fromSeen_mono s s' e hi hs seen seen' hsub _ (h hv)
  · exact fun hv => fromSeen_mono s s' e hi hs seen seen' hsub _ (h hv)
  · refine ⟨fun hv => fromSeen_mono s s' e hi hs seen seen' hsub _ (h.1 hv), ?_⟩
    intro hv
    rcases h.2 hv with ⟨h1, h2⟩ | h1
    · exact Or.inl ⟨h1, hcx h2⟩
    · exact Or.inr (hsub _ h1)
  · trivial

theorem globOK_mono (s s' : St) (seen seen' : List (Option PRef)) (hsub : ∀ x, x ∈ seen → x ∈ seen')
    (hsl : s'.slot = s.slot)
    (hwr : ∀ (y : Nat) (thy' : Th) (wk : CW), s'.th[y]? = some thy' → thy'.ts = .cWInv wk →
      ∃ thy, s.th[y]? = some thy ∧ thy.ts = .cWInv wk)
    (h : GlobOK s seen) : GlobOK s' seen' := by
  refine ⟨by rw [hsl]; exact hsub _ h.1, ?_⟩
  intro y thy' wk hy hts
  obtain ⟨thy, h1, h2⟩ := hwr y thy' wk hy hts
  exact hsub _ (h.2 y thy wk h1 h2)

end UtilModel.Promise

namespace UtilModel.Promise
open UtilModel

/-- a step of call `t` that leaves the monitor, the slot and the set of pending writers alone: the
other awaiters are unaffected; the moving call needs its own argument (`hself`) -/
theorem rs_local (s s' : St) (e : Ev) (b : Book) (hi : Inv s) (hR : RS s b)
    (hs : step s e = some s') (t : Nat) (th : Th) (ts : TS) (ht : s.th[t]? = some th)
    (hth : s'.th = s.th.set t { th with ts := ts }) (hsl : s'.slot = s.slot)
    (h2 : ts.writerOf = none)
    (hself : ts.isCont = true → ∀ c, b.calls[t]? = some c →
      th.ts.isCont = true ∧ (GlobOK s c.seen → SeenOK s th c.seen → SeenOK s' { th with ts := ts } c.seen)) :
    RS s' b := by
  have hwr : ∀ (y : Nat) (thy' : Th) (wk : CW), s'.th[y]? = some thy' → thy'.ts = .cWInv wk →
      ∃ thy, s.th[y]? = some thy ∧ thy.ts = .cWInv wk := by
    intro y thy' wk hy hts
    rw [hth] at hy
    rcases getElem?_set_cases s.th t y _ thy' hy with ⟨_, rfl⟩ | ⟨_, hx⟩
    · simp at hts; rw [hts] at h2; cases h2
    · exact ⟨thy', hx, hts⟩
  refine ⟨?_⟩
  intro u thu' c hu' hc hcont
  rw [hth] at hu'
  rcases getElem?_set_cases s.th t u _ thu' hu' with ⟨rfl, rfl⟩ | ⟨_, hx⟩
  · obtain ⟨hold, hnew⟩ := hself hcont c hc
    obtain ⟨g, so⟩ := hR.call u th c ht hc hold
    exact ⟨globOK_mono s s' c.seen c.seen (fun _ h => h) hsl hwr g, hnew g so⟩
  · obtain ⟨g, so⟩ := hR.call u thu' c hx hc hcont
    exact ⟨globOK_mono s s' c.seen c.seen (fun _ h => h) hsl hwr g,
      seenOK_mono s s' e hi hs thu' thu' c.seen c.seen (fun _ h => h) rfl (fun h => h) so⟩

theorem rs_internal (s s' : St) (e : Ev) (b : Book) (hi : Inv s) (hR : RS s b)
    (hs : step s e = some s') (ho : e.obs = none) : RS s' b := by
  have hi' := step_inv s e s' hi hs
  have hs0 := hs
  cases e with
  | swap t =>
    simp only [step] at hs
    split at hs <;> try simp at hs
    rename_i th ht
    split at hs <;> try simp at hs
    rename_i q v e' hts
    split at hs <;> try simp at hs
    split at hs <;> simp at hs <;> subst hs
    · exact rs_local s _ _ b hi hR hs0 t th _ ht rfl rfl rfl (by intro h; cases h)
    · exact rs_local s _ _ b hi hR hs0 t th _ ht rfl rfl rfl (by intro h; cases h)
  | publish t =>
    simp only [step] at hs
    split at hs <;> try simp at hs
    rename_i th ht
    split at hs <;> try simp at hs
    rename_i q v e' hts
    split at hs <;> simp at hs
    subst hs
    exact rs_local s _ _ b hi hR hs0 t th _ ht rfl rfl rfl (by intro h; cases h)
  | awSel t br =>
    simp only [step] at hs
    split at hs <;> try simp at hs
    rename_i th ht
    split at hs <;> try simp at hs
    rename_i p k hts
    cases br <;> (try simp only at hs) <;> (try split at hs) <;> simp at hs <;> subst hs <;>
      exact rs_local s _ _ b hi hR hs0 t th _ ht rfl rfl rfl (by intro h; cases h)
  | cWCS t =>
    obtain ⟨th, wk, ht, hts, hth, hsl⟩ := cw_shape s s' t hs
    refine ⟨?_⟩
    intro u thu' c hu' hc hcont
    rw [hth] at hu'
    rcases getElem?_set_cases s.th t u _ thu' hu' with ⟨_, rfl⟩ | ⟨_, hx⟩
    · cases hcont
    · obtain ⟨g, so⟩ := hR.call u thu' c hx hc hcont
      refine ⟨⟨by rw [hsl]; exact g.2 t th wk ht hts, ?_⟩,
        seenOK_mono s s' _ hi hs thu' thu' c.seen c.seen (fun _ h => h) rfl (fun h => h) so⟩
      intro y thy' wk' hy hts'
      rw [hth] at hy
      rcases getElem?_set_cases s.th t y _ thy' hy with ⟨_, rfl⟩ | ⟨_, hy'⟩
      · cases hts'
      · exact g.2 y thy' wk' hy' hts'
  | cSample t =>
    simp only [step] at hs
    split at hs <;> try simp at hs
    rename_i th ht
    split at hs <;> try simp at hs
    rename_i k hts
    split at hs <;> simp at hs <;> subst hs
    · rename_i hslot
      refine rs_local s _ _ b hi hR hs0 t th _ ht rfl rfl rfl ?_
      intro _ c hc
      refine ⟨by rw [hts]; rfl, ?_⟩
      intro g _
      simp only [SeenOK]
      have := g.1; rw [hslot] at this; exact this
    · rename_i r hslot
      refine rs_local s _ _ b hi hR hs0 t th _ ht rfl rfl rfl ?_
      intro _ c hc
      refine ⟨by rw [hts]; rfl, ?_⟩
      intro g _
      simp only [SeenOK]
      have := g.1; rw [hslot] at this; exact this
  | cNilSel t br =>
    simp only [step] at hs
    split at hs <;> try simp at hs
    rename_i th ht
    split at hs <;> try simp at hs
    rename_i k c0 hts
    cases br <;> (try simp only at hs) <;> (try split at hs) <;> simp at hs
    · rename_i hcx
      subst hs
      refine rs_local s _ _ b hi hR hs0 t th _ ht rfl rfl rfl ?_
      intro _ c hc
      refine ⟨by rw [hts]; rfl, fun _ _ => ?_⟩
      simp only [SeenOK]
      exact ⟨by intro h; omega, fun _ => Or.inl ⟨by first | rfl | trivial, hcx⟩⟩
    · rename_i v x hu
      subst hs
      have hv := usrNil_zero k th.ch v x hu
      refine rs_local s _ _ b hi hR hs0 t th _ ht rfl rfl rfl ?_
      intro _ c hc
      refine ⟨by rw [hts]; rfl, fun _ so => ?_⟩
      simp only [SeenOK, hts] at so ⊢
      exact ⟨by intro h; omega, fun _ => Or.inr so⟩
    · subst hs
      refine rs_local s _ _ b hi hR hs0 t th _ ht rfl rfl rfl ?_
      intro _ c hc
      exact ⟨by rw [hts]; rfl, fun _ _ => by simp [SeenOK]⟩
  | cInnerSel t br =>
    simp only [step] at hs
    split at hs <;> try simp at hs
    rename_i th ht
    split at hs <;> try simp at hs
    rename_i k r c0 hts
    have hok := hi.th t th ht
    simp only [ThOK, hts] at hok
    have hr := hok.2.2
    -- a result read from the sampled promise was seen
    have viaRes : ∀ (v : Nat) (x : Err) (s1 : St) (c : Call), step s (.cInnerSel t .res) = some s1 →
        published s r = some (v, x) → SeenOK s th c.seen → FromSeen s1 c.seen v := by
      intro v x s1 c hs1 hp so
      simp only [SeenOK, hts] at so
      exact ⟨r, refOK_step s s1 _ hs1 r hr, so, x, published_mono_step s s1 _ hi hs1 r _ hp⟩
    cases br <;> (try simp only at hs) <;> (try split at hs) <;> simp at hs
    · subst hs
      refine rs_local s _ _ b hi hR hs0 t th _ ht rfl rfl rfl ?_
      intro _ c hc
      refine ⟨by rw [hts]; rfl, fun _ _ => ?_⟩
      simp only [SeenOK]; intro h; omega
    · subst hs
      refine rs_local s _ _ b hi hR hs0 t th _ ht rfl rfl rfl ?_
      intro _ c hc
      refine ⟨by rw [hts]; rfl, fun _ _ => ?_⟩
      simp only [SeenOK]; intro h; omega
    · rename_i v hp
      subst hs
      have hv := published_pos s hi r v _ hr hp
      refine rs_local s _ _ b hi hR hs0 t th _ ht rfl rfl rfl ?_
      intro _ c hc
      refine ⟨by rw [hts]; rfl, fun _ so => ?_⟩
      simp only [SeenOK]
      exact ⟨fun _ => viaRes v _ _ c hs0 hp so, by intro h; omega⟩
    · rename_i v hp
      subst hs
      refine rs_local s _ _ b hi hR hs0 t th _ ht rfl rfl rfl ?_
      intro _ c hc
      refine ⟨by rw [hts]; rfl, fun _ so => ?_⟩
      simp only [SeenOK]
      exact fun _ => viaRes v _ _ c hs0 hp so
    · rename_i v x _ _ hp
      subst hs
      have hv := published_pos s hi r v _ hr hp
      refine rs_local s _ _ b hi hR hs0 t th _ ht rfl rfl rfl ?_
      intro _ c hc
      refine ⟨by rw [hts]; rfl, fun _ so => ?_⟩
      simp only [SeenOK]
      exact ⟨fun _ => viaRes v _ _ c hs0 hp so, by intro h; omega⟩
  | cChk1 t =>
    simp only [step] at hs
    split at hs <;> try simp at hs
    rename_i th ht
    split at hs <;> try simp at hs
    rename_i k c0 v hts
    split at hs <;> simp at hs <;> subst hs
    · rename_i hcx
      refine rs_local s _ _ b hi hR hs0 t th _ ht rfl rfl rfl ?_
      intro _ c hc
      refine ⟨by rw [hts]; rfl, fun _ so => ?_⟩
      simp only [SeenOK, hts] at so ⊢
      exact ⟨fun hv => fromSeen_mono s _ _ hi hs0 c.seen c.seen (fun _ h => h) v (so hv),
        fun _ => Or.inl ⟨by first | rfl | trivial, hcx⟩⟩
    · refine rs_local s _ _ b hi hR hs0 t th _ ht rfl rfl rfl ?_
      intro _ c hc
      refine ⟨by rw [hts]; rfl, fun _ so => ?_⟩
      simp only [SeenOK, hts] at so ⊢
      exact fun hv => fromSeen_mono s _ _ hi hs0 c.seen c.seen (fun _ h => h) v (so hv)
  | cChk2 t =>
    simp only [step] at hs
    split at hs <;> try simp at hs
    rename_i th ht
    split at hs <;> try simp at hs
    rename_i k c0 v hts
    have hok := hi.th t th ht
    simp only [ThOK, hts] at hok
    split at hs <;> simp at hs <;> subst hs
    · refine rs_local s _ _ b hi hR hs0 t th _ ht rfl rfl rfl ?_
      intro _ c hc
      exact ⟨by rw [hts]; rfl, fun _ _ => by simp [SeenOK]⟩
    · rename_i hcl
      refine rs_local s _ _ b hi hR hs0 t th _ ht rfl rfl rfl ?_
      intro _ c hc
      refine ⟨by rw [hts]; rfl, fun _ so => ?_⟩
      simp only [SeenOK, hts] at so ⊢
      refine ⟨fun hv => fromSeen_mono s _ _ hi hs0 c.seen c.seen (fun _ h => h) v (so hv), ?_⟩
      intro hv
      exact absurd (hok.2.1 hv) hcl
  | _ => simp [Ev.obs] at ho

end UtilModel.Promise

namespace UtilModel.Promise
open UtilModel

/-- an observable step after which every pending container awaiter is where it was (up to its
context having been cancelled), the slot is the same, no new writer is pending, and the monitor's
`seen` lists only grew -/
theorem rs_same (s s' : St) (e : Ev) (b b' : Book) (hi : Inv s) (hR : RS s b) (hs : step s e = some s')
    (hsl : s'.slot = s.slot)
    (hthr : ∀ (u : Nat) (thu' : Th), s'.th[u]? = some thu' → thu'.ts.isCont = true →
      ∃ thu, s.th[u]? = some thu ∧ thu'.ts = thu.ts ∧ (thu.cx = true → thu'.cx = true))
    (hwr : ∀ (y : Nat) (thy' : Th) (wk : CW), s'.th[y]? = some thy' → thy'.ts = .cWInv wk →
      ∃ thy, s.th[y]? = some thy ∧ thy.ts = .cWInv wk)
    (hcalls : ∀ (u : Nat) (c' : Call), b'.calls[u]? = some c' → u < s.th.length →
      ∃ c, b.calls[u]? = some c ∧ ∀ x, x ∈ c.seen → x ∈ c'.seen) : RS s' b' := by
  refine ⟨?_⟩
  intro u thu' c' hu' hc' hcont
  obtain ⟨thu, hu, hts, hcx⟩ := hthr u thu' hu' hcont
  obtain ⟨c, hc, hsub⟩ := hcalls u c' hc' (lt_of_getElem? hu)
  obtain ⟨g, so⟩ := hR.call u thu c hu hc (by rw [← hts]; exact hcont)
  exact ⟨globOK_mono s s' c.seen c'.seen hsub hsl hwr g,
    seenOK_mono s s' e hi hs thu thu' c.seen c'.seen hsub hts hcx so⟩

/-- `seen` of an entry is untouched by `modify` with a function that keeps it -/
theorem modify_seen (b : Book) (t : Nat) (f : Call → Call) (hf : ∀ c, (f c).seen = c.seen)
    (u : Nat) (c' : Call) (h : (b.modify t f).calls[u]? = some c') :
    ∃ c, b.calls[u]? = some c ∧ ∀ x, x ∈ c.seen → x ∈ c'.seen := by
  by_cases hut : u = t
  · subst hut
    cases hc : b.calls[u]? with
    | none => simp [Book.modify, hc] at h
    | some c =>
      rw [modify_get_self b u f c hc] at h; cases h
      exact ⟨c, rfl, fun x hx => by rw [hf]; exact hx⟩
  · rw [modify_get_ne b t u f hut] at h
    exact ⟨c', h, fun x hx => hx⟩

theorem markDead_seen (b : Book) (ds : List Nat) (idd : Bool) (u : Nat) (c' : Call)
    (h : ({ b.markDead ds with initDead := idd } : Book).calls[u]? = some c') :
    ∃ c, b.calls[u]? = some c ∧ ∀ x, x ∈ c.seen → x ∈ c'.seen := by
  simp only at h
  rw [markDead_get] at h
  cases hc : b.calls[u]? with
  | none => simp [hc] at h
  | some c =>
    simp [hc] at h; subst h
    refine ⟨c, rfl, fun x hx => ?_⟩
    split <;> exact hx

end UtilModel.Promise

namespace UtilModel.Promise
open UtilModel

theorem thr_set (s s' : St) (t : Nat) (th th' : Th) (ht : s.th[t]? = some th) (hth : s'.th = s.th.set t th')
    (h : th'.ts.isCont = false ∨ (th'.ts = th.ts ∧ (th.cx = true → th'.cx = true))) :
    ∀ (u : Nat) (thu' : Th), s'.th[u]? = some thu' → thu'.ts.isCont = true →
      ∃ thu, s.th[u]? = some thu ∧ thu'.ts = thu.ts ∧ (thu.cx = true → thu'.cx = true) := by
  intro u thu' hu' hcont
  rw [hth] at hu'
  rcases getElem?_set_cases s.th t u _ thu' hu' with ⟨rfl, rfl⟩ | ⟨_, hx⟩
  · rcases h with h | ⟨h1, h2⟩
    · rw [h] at hcont; cases hcont
    · exact ⟨th, ht, h1, h2⟩
  · exact ⟨thu', hx, rfl, fun h => h⟩

theorem wr_set (s s' : St) (t : Nat) (th th' : Th) (ht : s.th[t]? = some th) (hth : s'.th = s.th.set t th')
    (h : (∀ wk, th'.ts ≠ .cWInv wk) ∨ th'.ts = th.ts) :
    ∀ (y : Nat) (thy' : Th) (wk : CW), s'.th[y]? = some thy' → thy'.ts = .cWInv wk →
      ∃ thy, s.th[y]? = some thy ∧ thy.ts = .cWInv wk := by
  intro y thy' wk hy hts
  rw [hth] at hy
  rcases getElem?_set_cases s.th t y _ thy' hy with ⟨rfl, rfl⟩ | ⟨_, hx⟩
  · rcases h with h | h
    · exact absurd hts (h wk)
    · exact ⟨th, ht, by rw [← h]; exact hts⟩
  · exact ⟨thy', hx, hts⟩

theorem thr_append (s s' : St) (nt : Th) (hth : s'.th = s.th ++ [nt]) (h : nt.ts.isCont = false) :
    ∀ (u : Nat) (thu' : Th), s'.th[u]? = some thu' → thu'.ts.isCont = true →
      ∃ thu, s.th[u]? = some thu ∧ thu'.ts = thu.ts ∧ (thu.cx = true → thu'.cx = true) := by
  intro u thu' hu' hcont
  rw [hth] at hu'
  rcases getElem?_snoc_cases _ _ _ _ hu' with ⟨_, hx⟩ | ⟨_, rfl⟩
  · exact ⟨thu', hx, rfl, fun h => h⟩
  · rw [h] at hcont; cases hcont

theorem wr_append (s s' : St) (nt : Th) (hth : s'.th = s.th ++ [nt]) (h : ∀ wk, nt.ts ≠ .cWInv wk) :
    ∀ (y : Nat) (thy' : Th) (wk : CW), s'.th[y]? = some thy' → thy'.ts = .cWInv wk →
      ∃ thy, s.th[y]? = some thy ∧ thy.ts = .cWInv wk := by
  intro y thy' wk hy hts
  rw [hth] at hy
  rcases getElem?_snoc_cases _ _ _ _ hy with ⟨_, hx⟩ | ⟨_, rfl⟩
  · exact ⟨thy', hx, hts⟩
  · exact absurd hts (h wk)

theorem calls_append_old (b : Book) (nc : Call) (n : Nat) (hn : b.calls.length = n) (u : Nat) (c' : Call)
    (h : (b.calls ++ [nc])[u]? = some c') (hu : u < n) :
    ∃ c, b.calls[u]? = some c ∧ ∀ x, x ∈ c.seen → x ∈ c'.seen := by
  rcases getElem?_snoc_cases _ _ _ _ h with ⟨_, hx⟩ | ⟨h1, _⟩
  · exact ⟨c', hx, fun x hx => hx⟩
  · omega

/-- a pending writer's target is among the candidates -/
theorem pending_writer_candidate (s : St) (b : Book) (hk : RK s b) (hw : RW s b) (y : Nat) (thy : Th) (wk : CW)
    (hy : s.th[y]? = some thy) (hts : thy.ts = .cWInv wk) : tgtOf y wk ∈ b.candidates := by
  have hl : y < b.calls.length := by rw [hk.len]; exact lt_of_getElem? hy
  obtain ⟨cy, hcy⟩ : ∃ cy, b.calls[y]? = some cy := ⟨b.calls[y], by simp⟩
  have hkr := hk.call y thy cy hy hcy
  have hret : cy.ret = false := by rw [hkr.ret, hts]; rfl
  have hdead : cy.dead = false := by
    cases hd : cy.dead with
    | false => rfl
    | true => have := hw.dead y cy hcy hd; rw [hret] at this; cases this
  have htg := target_of_kind y thy.ts wk cy (by rw [hts]; rfl) hkr.kind
  unfold Book.candidates
  apply List.mem_append_right
  rw [List.mem_filterMap]
  exact ⟨y, by simp [hl], by simp [hcy, hdead, htg]⟩

end UtilModel.Promise

namespace UtilModel.Promise
open UtilModel

/-- a new writer call: its target is added to what every pending container awaiter has seen -/
theorem rs_addWriter (s s' : St) (e : Ev) (b : Book) (hi : Inv s) (hk : RK s b) (hR : RS s b)
    (hs : step s e = some s') (wk : CW) (nc : Call)
    (hth : s'.th = s.th ++ [{ ts := .cWInv wk }]) (hsl : s'.slot = s.slot) :
    RS s' (b.addWriter nc (tgtOf s.th.length wk)) := by
  refine ⟨?_⟩
  intro u thu' c' hu' hc' hcont
  rw [hth] at hu'
  rcases getElem?_snoc_cases _ _ _ _ hu' with ⟨hlt, hx⟩ | ⟨_, rfl⟩
  · have hl : u < b.calls.length := by rw [hk.len]; exact hlt
    obtain ⟨c, hc⟩ : ∃ c, b.calls[u]? = some c := ⟨b.calls[u], by simp⟩
    rw [addWriter_get_lt b nc _ u hl, hc] at hc'
    simp at hc'; subst hc'
    have hkr := hk.call u thu' c hx hc
    obtain ⟨g, so⟩ := hR.call u thu' c hx hc hcont
    -- the awaiter is pending, so the monitor added the target
    have hkc : ∃ k, c.kind = .cawait k := by
      rw [hkr.kind]
      cases hts : thu'.ts <;> simp [hts, TS.isCont] at hcont <;> try (exact ⟨_, rfl⟩)
      rename_i o k v x
      cases o <;> simp at hcont
      exact ⟨_, rfl⟩
    obtain ⟨k, hkc⟩ := hkc
    have hret : c.ret = false := by
      rw [hkr.ret]
      cases hts : thu'.ts <;> simp [hts, TS.isCont] at hcont <;> rfl
    have hseen : (addSeen (tgtOf s.th.length wk) c).seen = tgtOf s.th.length wk :: c.seen := by
      simp [addSeen, hkc, hret]
    have hsub : ∀ x, x ∈ c.seen → x ∈ (addSeen (tgtOf s.th.length wk) c).seen := by
      intro x hx'; rw [hseen]; exact List.mem_cons_of_mem _ hx'
    refine ⟨⟨by rw [hsl]; exact hsub _ g.1, ?_⟩,
      seenOK_mono s s' e hi hs thu' thu' c.seen _ hsub rfl (fun h => h) so⟩
    intro y thy' wk' hy hts'
    rw [hth] at hy
    rcases getElem?_snoc_cases _ _ _ _ hy with ⟨_, hy'⟩ | ⟨hyl, rfl⟩
    · exact hsub _ (g.2 y thy' wk' hy' hts')
    · simp at hts'; subst hts'
      rw [hseen, hyl]; exact List.mem_cons_self
  · cases hcont

theorem rs_obs (s s' : St) (e : Ev) (o : Obs) (b : Book) (hi : Inv s) (hk : RK s b) (hw : RW s b)
    (hR : RS s b) (hs : step s e = some s') (ho : e.obs = some o) : RS s' (b.update o) := by
  have hs0 := hs
  cases e with
  | swap t => simp [Ev.obs] at ho
  | publish t => simp [Ev.obs] at ho
  | awSel t br => simp [Ev.obs] at ho
  | cWCS t => simp [Ev.obs] at ho
  | cSample t => simp [Ev.obs] at ho
  | cNilSel t br => simp [Ev.obs] at ho
  | cInnerSel t br => simp [Ev.obs] at ho
  | cChk1 t => simp [Ev.obs] at ho
  | cChk2 t => simp [Ev.obs] at ho
  | newp p =>
    simp [Ev.obs] at ho; subst ho
    simp only [step] at hs; split at hs <;> simp at hs; subst hs
    exact rs_same s _ _ b _ hi hR hs0 rfl (fun u thu' h _ => ⟨thu', h, rfl, fun h => h⟩)
      (fun y thy' wk h1 h2 => ⟨thy', h1, h2⟩) (fun u c' h _ => ⟨c', h, fun x hx => hx⟩)
  | newpe p e' =>
    simp [Ev.obs] at ho; subst ho
    simp only [step] at hs; split at hs <;> simp at hs; subst hs
    exact rs_same s _ _ b _ hi hR hs0 rfl (fun u thu' h _ => ⟨thu', h, rfl, fun h => h⟩)
      (fun y thy' wk h1 h2 => ⟨thy', h1, h2⟩) (fun u c' h _ => ⟨c', h, fun x hx => hx⟩)
  | checkLike c ok =>
    simp [Ev.obs] at ho; subst ho
    simp only [step] at hs; split at hs <;> simp at hs; subst hs
    exact hR
  | quiesce bb B =>
    simp [Ev.obs] at ho; subst ho
    simp only [step] at hs; split at hs <;> simp at hs
    rename_i hq
    obtain ⟨hq, rfl, _⟩ := hq
    subst hs
    -- a pending awaiter is parked on the present content: its `seen` restarts from the candidates
    refine ⟨?_⟩
    intro u thu c' hu hc' hcont
    simp only [Book.update] at hc'
    rw [resetSeen_get] at hc'
    cases hcu : b.calls[u]? with
    | none => simp [hcu] at hc'
    | some c =>
      simp [hcu] at hc'; subst hc'
      have hkr := hk.call u thu c hu hcu
      have hqt : Th.quiet s thu = true := by
        simp only [quiescent, List.all_eq_true] at hq
        exact hq thu (List.mem_of_getElem? hu)
      have hmem : u ∈ pendingIds s := by
        simp only [pendingIds, List.mem_filter, List.mem_range]
        refine ⟨lt_of_getElem? hu, ?_⟩
        simp [hu]
        cases hts : thu.ts <;> simp [hts, TS.isCont] at hcont <;> rfl
      have hok := hi.th u thu hu
      have hcand := slot_mem_candidates s b hk hw
      have hglob : GlobOK s b.candidates :=
        ⟨hcand, fun y thy wk hy hts => pending_writer_candidate s b hk hw y thy wk hy hts⟩
      unfold Th.quiet at hqt
      cases hts : thu.ts <;> simp only [hts] at hqt hcont <;> try (simp [TS.isCont] at hqt hcont)
      · -- cNil
        rename_i k c0
        have hkind : c.kind = .cawait k := by rw [hkr.kind, hts]; rfl
        have hseen : (resetOne b (pendingIds s) u c).seen = b.candidates := by
          simp [resetOne, hkind, hmem]
        rw [hseen]
        simp only [ThOK, hts] at hok
        have hsl := hok.2 hqt.2
        refine ⟨hglob, ?_⟩
        simp only [SeenOK, hts]
        rw [← hsl]; exact hcand
      · -- cInner
        rename_i k r c0
        have hkind : c.kind = .cawait k := by rw [hkr.kind, hts]; rfl
        have hseen : (resetOne b (pendingIds s) u c).seen = b.candidates := by
          simp [resetOne, hkind, hmem]
        rw [hseen]
        simp only [ThOK, hts] at hok
        have hsl := hok.2.1 hqt.1.2
        refine ⟨hglob, ?_⟩
        simp only [SeenOK, hts]
        rw [← hsl]; exact hcand
  | invSet t p v e' =>
    simp [Ev.obs] at ho; subst ho
    simp only [step] at hs; split at hs <;> simp at hs; subst hs
    exact rs_same s _ _ b _ hi hR hs0 rfl (thr_append s _ _ rfl rfl) (wr_append s _ _ rfl (by simp))
      (fun u c' h hu => calls_append_old b _ _ hk.len u c' h hu)
  | invAwait t p k =>
    simp [Ev.obs] at ho; subst ho
    simp only [step] at hs; split at hs <;> simp at hs; subst hs
    exact rs_same s _ _ b _ hi hR hs0 rfl (thr_append s _ _ rfl rfl) (wr_append s _ _ rfl (by simp))
      (fun u c' h hu => calls_append_old b _ _ hk.len u c' h hu)
  | invCAwait t k =>
    simp [Ev.obs] at ho; subst ho
    simp only [step] at hs; split at hs <;> simp at hs; subst hs
    -- the new awaiter has seen every candidate
    refine ⟨?_⟩
    intro u thu' c' hu' hc' hcont
    simp only at hu'
    simp only [Book.update] at hc'
    rcases getElem?_snoc_cases _ _ _ _ hu' with ⟨hlt, hx⟩ | ⟨hul, rfl⟩
    · rcases getElem?_snoc_cases _ _ _ _ hc' with ⟨_, hy⟩ | ⟨hcl, _⟩
      · obtain ⟨g, so⟩ := hR.call u thu' c' hx hy hcont
        refine ⟨globOK_mono s _ c'.seen c'.seen (fun _ h => h) rfl (wr_append s _ _ rfl (by simp)) g,
          seenOK_mono s _ _ hi hs0 thu' thu' c'.seen c'.seen (fun _ h => h) rfl (fun h => h) so⟩
      · have := hk.len; omega
    · rcases getElem?_snoc_cases _ _ _ _ hc' with ⟨hcl, _⟩ | ⟨_, rfl⟩
      · have := hk.len; omega
      · refine ⟨⟨slot_mem_candidates s b hk hw, ?_⟩, by simp [SeenOK]⟩
        intro y thy' wk hy hts
        simp only at hy
        rcases getElem?_snoc_cases _ _ _ _ hy with ⟨_, hy'⟩ | ⟨_, rfl⟩
        · exact pending_writer_candidate s b hk hw y thy' wk hy' hts
        · cases hts
  | invCSetP t p =>
    simp [Ev.obs] at ho; subst ho
    simp only [step] at hs; split at hs <;> simp at hs
    rename_i hcond
    subst hs
    have := rs_addWriter s _ _ b hi hk hR hs0 (.setp p) { kind := .csetp p } rfl rfl
    simpa [Book.update, tgtOf] using this
  | invCRes t v e' =>
    simp [Ev.obs] at ho; subst ho
    simp only [step] at hs; split at hs <;> simp at hs
    rename_i hcond
    subst hs
    have := rs_addWriter s _ _ b hi hk hR hs0 (.res e') { kind := .cres e' } rfl rfl
    simpa [Book.update, tgtOf, hcond.1] using this
  | envCancel t =>
    simp [Ev.obs] at ho; subst ho
    simp only [step] at hs; split at hs <;> simp at hs
    rename_i th ht
    subst hs
    exact rs_same s _ _ b _ hi hR hs0 rfl (thr_set s _ t th _ ht rfl (Or.inr ⟨rfl, fun _ => rfl⟩))
      (wr_set s _ t th _ ht rfl (Or.inr rfl)) (fun u c' h _ => modify_seen b t _ (by intro c; rfl) u c' h)
  | envFire t f =>
    simp [Ev.obs] at ho; subst ho
    simp only [step] at hs; split at hs <;> try simp at hs
    rename_i th ht
    obtain ⟨_, rfl⟩ := hs
    exact rs_same s _ _ b _ hi hR hs0 rfl (thr_set s _ t th _ ht rfl (Or.inr ⟨rfl, fun h => h⟩))
      (wr_set s _ t th _ ht rfl (Or.inr rfl)) (fun u c' h _ => modify_seen b t _ (by intro c; rfl) u c' h)
  | retSet t r =>
    simp [Ev.obs] at ho; subst ho
    simp only [step] at hs
    split at hs <;> try simp at hs
    rename_i th ht
    split at hs <;> try simp at hs
    rename_i p v e' r' hts
    obtain ⟨rfl, rfl⟩ := hs
    refine rs_same s _ _ b _ hi hR hs0 rfl (thr_set s _ t th _ ht rfl (Or.inl rfl))
      (wr_set s _ t th _ ht rfl (Or.inl (by simp))) ?_
    intro u c' h _
    simp only [Book.update] at h
    split at h
    · split at h
      · exact modify_seen b t _ (by intro c; rfl) u c' h
      · exact modify_seen b t _ (by intro c; rfl) u c' h
    · exact ⟨c', h, fun x hx => hx⟩
  | retAwait t v e' =>
    simp [Ev.obs] at ho; subst ho
    simp only [step] at hs
    split at hs <;> try simp at hs
    rename_i th ht
    split at hs <;> try simp at hs
    rename_i o k v' e'' hts
    obtain ⟨⟨rfl, rfl⟩, rfl⟩ := hs
    refine rs_same s _ _ b _ hi hR hs0 rfl (thr_set s _ t th _ ht rfl (Or.inl rfl))
      (wr_set s _ t th _ ht rfl (Or.inl (by simp))) ?_
    intro u c' h _
    simp only [Book.update] at h
    split at h
    · exact modify_seen b t _ (by intro c; rfl) u c' h
    · split at h
      · split at h
        · exact modify_seen b t _ (by intro c; rfl) u c' h
        · exact modify_seen b t _ (by intro c; rfl) u c' h
      · exact modify_seen b t _ (by intro c; rfl) u c' h
  | retCSetP t =>
    simp [Ev.obs] at ho; subst ho
    simp only [step] at hs
    split at hs <;> try simp at hs
    rename_i th ht
    split at hs <;> try simp at hs
    rename_i p hts
    subst hs
    refine rs_same s _ _ b _ hi hR hs0 rfl (thr_set s _ t th _ ht rfl (Or.inl rfl))
      (wr_set s _ t th _ ht rfl (Or.inl (by simp))) ?_
    intro u c' h _
    simp only [Book.update] at h
    split at h
    · obtain ⟨c1, h1, h2⟩ := markDead_seen _ _ _ u c' h
      obtain ⟨c0, h3, h4⟩ := modify_seen b t _ (by intro c; rfl) u c1 h1
      exact ⟨c0, h3, fun x hx => h2 x (h4 x hx)⟩
    · exact ⟨c', h, fun x hx => hx⟩
  | retCRes t =>
    simp [Ev.obs] at ho; subst ho
    simp only [step] at hs
    split at hs <;> try simp at hs
    rename_i th ht
    split at hs <;> try simp at hs
    rename_i p hts
    subst hs
    refine rs_same s _ _ b _ hi hR hs0 rfl (thr_set s _ t th _ ht rfl (Or.inl rfl))
      (wr_set s _ t th _ ht rfl (Or.inl (by simp))) ?_
    intro u c' h _
    simp only [Book.update] at h
    split at h
    · obtain ⟨c1, h1, h2⟩ := markDead_seen _ _ _ u c' h
      obtain ⟨c0, h3, h4⟩ := modify_seen b t _ (by intro c; rfl) u c1 h1
      exact ⟨c0, h3, fun x hx => h2 x (h4 x hx)⟩
    · exact ⟨c', h, fun x hx => hx⟩

end UtilModel.Promise

namespace UtilModel.Promise
open UtilModel

theorem cur_ok (s s' : St) (e : Ev) (o : Obs) (b : Book) (hi : Inv s) (hk : RK s b) (hR : RS s b)
    (hs : step s e = some s') (ho : e.obs = some o) : chkCur b o = true := by
  cases e with
  | retAwait t v x =>
    simp [Ev.obs] at ho; subst ho
    simp only [step] at hs
    split at hs <;> try simp at hs
    rename_i th ht
    split at hs <;> try simp at hs
    rename_i o k v' x' hts
    obtain ⟨⟨rfl, rfl⟩, rfl⟩ := hs
    have hl : t < b.calls.length := by rw [hk.len]; exact lt_of_getElem? ht
    obtain ⟨c, hc⟩ : ∃ c, b.calls[t]? = some c := ⟨b.calls[t], by simp⟩
    have hkr := hk.call t th c ht hc
    cases o with
    | some p =>
      have hkind : c.kind = .await p k := by rw [hkr.kind, hts]; rfl
      simp only [chkCur, hc, hkind]
      split
      · rfl
      · cases hw : b.calls[v - 1]? <;> simp [hkind]
    | none =>
      have hkind : c.kind = .cawait k := by rw [hkr.kind, hts]; rfl
      obtain ⟨_, so⟩ := hR.call t th c ht hc (by rw [hts]; rfl)
      simp only [SeenOK, hts] at so
      simp only [chkCur, hc, hkind]
      split
      · rename_i hv
        rcases so.2 hv with ⟨h1, h2⟩ | h1
        · simp [h1, hkr.cx, h2]
        · simp [h1]
      · rename_i hv
        have hv1 : 1 ≤ v := by omega
        obtain ⟨r, hr1, hr2, xr, hr3⟩ := so.1 hv1
        cases hw : b.calls[v - 1]? with
        | none => rfl
        | some w =>
          simp only
          cases r with
          | plain p' =>
            obtain ⟨thw, ew, hthw, hkw, _⟩ := published_setter s hi p' v xr hv1 hr3
            have := (hk.call (v - 1) thw w hthw hw).kind
            rw [hkw] at this
            simp [this, hr2, hkind]
          | fixed u xu =>
            simp [published] at hr3
            obtain ⟨hu, _⟩ := hr3
            have huv : v - 1 = u := by omega
            obtain ⟨thu, hthu, hts'⟩ := hr1
            rw [huv] at hw
            have := (hk.call u thu w hthu hw).kind
            have hkw : w.kind = .cres xu := by
              rcases hts' with h' | h' <;> rw [this, h'] <;> rfl
            rw [huv]
            simp [hkw, hr2, hkind]
  | swap t => simp [Ev.obs] at ho
  | publish t => simp [Ev.obs] at ho
  | awSel t br => simp [Ev.obs] at ho
  | cWCS t => simp [Ev.obs] at ho
  | cSample t => simp [Ev.obs] at ho
  | cNilSel t br => simp [Ev.obs] at ho
  | cInnerSel t br => simp [Ev.obs] at ho
  | cChk1 t => simp [Ev.obs] at ho
  | cChk2 t => simp [Ev.obs] at ho
  | _ => simp [Ev.obs] at ho <;> subst ho <;> rfl

/-- **C11 (observable form, follows_current).** On every trace of the model, a container awaiter that
completes by result returns the result of a promise that was the content of the container at some
moment between its invocation and its return (as far as the history can tell: the target of a writer
call not certainly overwritten at the invocation, or of a writer call invoked during the call); and it
returns through its own error / cancel channel only if the container was (possibly) empty during
the call. -/
theorem C11cur_obs (es : List Ev) (s : St) (h : model.run model.init es = some s) :
    monC11cur.accepts (es.filterMap model.obs) = true :=
  ofCheck_accepts chkCur (fun s b => Inv s ∧ RK s b ∧ RW s b ∧ RS s b) ⟨init_inv, rk_init, rw_init, rs_init⟩
    (fun s e s' b hR hs ho => ⟨step_inv s e s' hR.1 hs, rk_internal s s' e b hR.1 hR.2.1 hs ho, by
      by_cases hc : ∃ t, e = .cWCS t
      · obtain ⟨t, rfl⟩ := hc; exact rw_cw s s' t b hR.2.1 hR.2.2.1 hs
      · exact rw_internal s s' e b hR.2.1 hR.2.2.1 hs ho (fun t h => hc ⟨t, h⟩),
      rs_internal s s' e b hR.1 hR.2.2.2 hs ho⟩)
    (fun s e s' b o hR hs ho => ⟨cur_ok s s' e o b hR.1 hR.2.1 hR.2.2.2 hs ho,
      step_inv s e s' hR.1 hs, rk_obs s s' e o b hR.1 hR.2.1 hs ho,
      rw_obs s s' e o b hR.2.1 hR.2.2.1 hs ho,
      rs_obs s s' e o b hR.1 hR.2.1 hR.2.2.1 hR.2.2.2 hs ho⟩) es s h

end UtilModel.Promise

namespace UtilModel.Promise
open UtilModel

/-- **D9, observable form.** The remaining clause ("a container awaiter returns as soon as its own
channel fires", monitor `monC11ch`) is *not* satisfied by the model (which does what the code does):
the trace of `witnessD9` followed by a quiescence point is a trace of the model that the monitor
rejects. -/
theorem C11ch_obs_false :
    ∃ es, (model.run model.init es).isSome = true ∧ monC11ch.accepts (es.filterMap model.obs) = false :=
  ⟨witnessD9 ++ [.quiesce false [1]], by decide, by decide⟩

end UtilModel.Promise
