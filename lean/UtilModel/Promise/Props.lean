import UtilModel.Promise.Step
/-!
# promise.Promise / promise.PromiseContainer — property theorems (C11), state level

Every theorem holds after **any** event list: any number of concurrent setters and awaiters of all
three kinds, every interleaving of swaps, publications, select decisions, critical sections,
context cancellations and channel firings, every result value and every error value (`nil`, a
custom error, `context.Canceled`, `context.DeadlineExceeded`).

The observable forms (monitors accepted on every trace of the model) are in `Sim.lean`.
-/
namespace UtilModel.Promise
open UtilModel

/-- call `t` won the swap of promise `p` -/
def TS.wonOn (p : Nat) : TS → Bool
  | .setWon p' _ _ => p' == p
  | .setRet p' _ _ true | .setDone p' _ _ true => p' == p
  | _ => false

/-- call `t` lost the swap of promise `p` -/
def TS.lostOn (p : Nat) : TS → Bool
  | .setRet p' _ _ false | .setDone p' _ _ false => p' == p
  | _ => false

theorem wonOn_winner (s : St) (hi : Inv s) (t p : Nat) (th : Th) (ht : s.th[t]? = some th)
    (hw : th.ts.wonOn p = true) : winnerOf s p = some t := by
  have hok := hi.th t th ht
  unfold ThOK at hok
  cases hts : th.ts <;> simp only [hts, TS.wonOn] at hw hok <;> try (cases hw)
  · rename_i p' v e
    have : p' = p := by simpa using hw
    subst this; exact hok.2.1
  · rename_i p' v e b
    cases b <;> simp at hw
    subst hw; simpa using hok.2.1
  · rename_i p' v e b
    cases b <;> simp at hw
    subst hw; simpa using hok.2.1

/-- **set_once.** Of all `SetResult` calls on one promise at most one wins the swap (two calls that
won are the same call), and a call that lost did so against a call that won — or the promise was
constructed pre-resolved (`NewPromiseWithErr`): there is exactly one winner as soon as any call on an
ordinary promise got its answer. -/
theorem set_once (es : List Ev) (s : St) (h : model.run model.init es = some s) (p : Nat) :
    (∀ (t u : Nat) (a b : Th), s.th[t]? = some a → s.th[u]? = some b →
        a.ts.wonOn p = true → b.ts.wonOn p = true → t = u) ∧
    (∀ (t : Nat) (a : Th), s.th[t]? = some a → a.ts.lostOn p = true →
        (∃ (w : Nat) (b : Th), w ≠ t ∧ s.th[w]? = some b ∧ b.ts.wonOn p = true) ∨ bornOf s p = true) := by
  have hi := reachable_inv es s h
  constructor
  · intro t u a b ht hu wa wb
    have h1 := wonOn_winner s hi t p a ht wa
    have h2 := wonOn_winner s hi u p b hu wb
    rw [h1] at h2; cases h2; rfl
  · intro t a ht hl
    have hok := hi.th t a ht
    unfold ThOK at hok
    have key : ∀ w, winnerOf s p = some w → w ≠ t →
        ∃ (w : Nat) (b : Th), w ≠ t ∧ s.th[w]? = some b ∧ b.ts.wonOn p = true := by
      intro w hw hne
      simp only [winnerOf] at hw
      cases hp : s.proms[p]? with
      | none => simp [hp] at hw
      | some pr =>
        simp [hp] at hw
        obtain ⟨b, hb, hws⟩ := (hi.pr p pr hp).2.2 w hw
        refine ⟨w, b, hne, hb, ?_⟩
        rcases hws with ⟨e, h⟩ | ⟨e, h⟩ | ⟨e, h⟩ <;> simp [h, TS.wonOn]
    cases hts : a.ts <;> simp only [hts, TS.lostOn] at hl hok <;> try (cases hl)
    · rename_i p' v e b
      cases b <;> simp at hl
      subst hl
      rcases (by simpa using hok.2 : (∃ w, winnerOf s p' = some w ∧ w ≠ t) ∨ bornOf s p' = true) with
        ⟨w, hw, hne⟩ | hb
      · exact Or.inl (key w hw hne)
      · exact Or.inr hb
    · rename_i p' v e b
      cases b <;> simp at hl
      subst hl
      rcases (by simpa using hok.2 : (∃ w, winnerOf s p' = some w ∧ w ≠ t) ∨ bornOf s p' = true) with
        ⟨w, hw, hne⟩ | hb
      · exact Or.inl (key w hw hne)
      · exact Or.inr hb

/-- **await_result (plain promise).** An await that completes by result (value ≥ 1; `0` is the zero
value of the other ways to return) returns exactly the value and error passed by the winning
`SetResult` call: the promise's published result is `(v, e)`, its winner is call `v-1`, and that
call's arguments were `(v, e)`. -/
theorem await_result (es : List Ev) (s : St) (h : model.run model.init es = some s)
    (t p v : Nat) (k : AK) (e : Err) (th : Th) (ht : s.th[t]? = some th)
    (hts : th.ts = .awRet (some p) k v e ∨ th.ts = .awDone (some p) k v e) (hv : 1 ≤ v) :
    published s (.plain p) = some (v, e) ∧ winnerOf s p = some (v - 1) ∧
    ∃ w, s.th[v - 1]? = some w ∧ (w.ts = .setRet p v e true ∨ w.ts = .setDone p v e true) := by
  have hi := reachable_inv es s h
  have hok := hi.th t th ht
  have hpub : published s (.plain p) = some (v, e) := by
    unfold ThOK at hok
    rcases hts with hts | hts <;> simp only [hts] at hok <;> rcases hok with h2 | ⟨h2, _⟩
    · exact h2
    · omega
    · exact h2
    · omega
  refine ⟨hpub, ?_⟩
  simp only [published] at hpub
  cases hp : s.proms[p]? with
  | none => simp [hp] at hpub
  | some pr =>
    simp [hp] at hpub
    obtain ⟨h1, h1b, h2⟩ := hi.pr p pr hp
    have hbf : pr.born = false := by
      cases hb : pr.born with
      | false => rfl
      | true =>
        obtain ⟨_, e0, he0⟩ := h1b hb
        rw [hpub] at he0; cases he0; omega
    have hw := (h1 v e hpub hbf).1
    refine ⟨by simp [winnerOf, hp, hw], ?_⟩
    obtain ⟨w, hwt, hws⟩ := h2 (v - 1) hw
    refine ⟨w, hwt, ?_⟩
    have hokw := hi.th (v - 1) w hwt
    have hv1 : v - 1 + 1 = v := by omega
    unfold ThOK at hokw
    rcases hws with ⟨e', hh⟩ | ⟨e', hh⟩ | ⟨e', hh⟩ <;> simp only [hh] at hokw
    · have := hokw.2.2; simp [published, hp, hpub] at this
    · have := hokw.2.2; simp [published, hp, hpub, hv1] at this
      left; rw [hh, hv1, this]
    · have := hokw.2.2; simp [published, hp, hpub, hv1] at this
      right; rw [hh, hv1, this]

/-- **await_result (container).** A container await that completes by result returns the published
result of an existing promise (a plain promise of the table or the promise made by a container
`SetResult`), error included — also when that error is `context.Canceled`. -/
theorem container_await_result (es : List Ev) (s : St) (h : model.run model.init es = some s)
    (t v : Nat) (k : AK) (e : Err) (th : Th) (ht : s.th[t]? = some th)
    (hts : th.ts = .awRet none k v e ∨ th.ts = .awDone none k v e) (hv : 1 ≤ v) :
    ∃ r, refOK s r ∧ published s r = some (v, e) := by
  have hi := reachable_inv es s h
  have hok := hi.th t th ht
  unfold ThOK at hok
  rcases hts with hts | hts <;> simp only [hts] at hok <;> rcases hok with ⟨_, h2⟩ | ⟨h2, _⟩
  · exact h2
  · omega
  · exact h2
  · omega

/-- **a promise born resolved (`NewPromiseWithErr(e)`).** It holds `(zero, e)` from the start; every
`SetResult` on it loses its swap (and will return false); the result branch of every await's select
is enabled at once and returns the stored pair. -/
theorem born_resolved (es : List Ev) (s : St) (h : model.run model.init es = some s) (p : Nat)
    (hb : bornOf s p = true) :
    (∃ e, published s (.plain p) = some (0, e)) ∧
    (∀ (t v : Nat) (e : Err) (th : Th) (s' : St), s.th[t]? = some th → th.ts = .setInv p v e →
        step s (.swap t) = some s' → ∃ th', s'.th[t]? = some th' ∧ th'.ts = .setRet p v e false) := by
  have hi := reachable_inv es s h
  simp only [bornOf] at hb
  cases hp : s.proms[p]? with
  | none => simp [hp] at hb
  | some pr =>
    simp [hp] at hb
    obtain ⟨_, e0, he0⟩ := (hi.pr p pr hp).2.1 hb
    refine ⟨⟨e0, by simp [published, hp, he0]⟩, ?_⟩
    intro t v e th s' ht hts hs
    simp [step, ht, hts, hp, hb] at hs
    subst hs
    exact ⟨{ th with ts := .setRet p v e false }, by simp [setTs, lt_of_getElem? ht], rfl⟩

/-! ## liveness of a plain await: enabled exactly when there is something to return -/

/-- **await_enabled.** As soon as a result is published, the context is cancelled, or the call's own
error / cancel channel has fired, the awaiter's select has an enabled branch (and that step takes it
to its return). -/
theorem await_enabled (s : St) (t p : Nat) (k : AK) (th : Th) (ht : s.th[t]? = some th)
    (hts : th.ts = .awWait p k)
    (hc : published s (.plain p) ≠ none ∨ th.cx = true ∨ usrFired k th.ch = true) :
    ∃ br s', step s (.awSel t br) = some s' ∧ ∃ v e th', s'.th[t]? = some th' ∧ th'.ts = .awRet (some p) k v e := by
  have hlt := lt_of_getElem? ht
  rcases hc with hc | hc | hc
  · cases hp : published s (.plain p) with
    | none => exact absurd hp hc
    | some x =>
      obtain ⟨v, e⟩ := x
      exact ⟨.res, setTs s t th (.awRet (some p) k v e), by simp [step, ht, hts, hp], v, e,
        { th with ts := .awRet (some p) k v e }, by simp [setTs, hlt], rfl⟩
  · exact ⟨.ctx, setTs s t th (.awRet (some p) k 0 .canceled), by simp [step, ht, hts, hc], 0, .canceled,
      { th with ts := .awRet (some p) k 0 .canceled }, by simp [setTs, hlt], rfl⟩
  · cases hu : usrPlain k th.ch with
    | none =>
      exfalso
      cases k <;> simp [usrFired] at hc
      · cases hch : th.ch with
        | none => simp [hch] at hc
        | some f => cases f <;> simp [usrPlain, hch] at hu
      · cases hch : th.ch with
        | none => simp [hch] at hc
        | some f => simp [usrPlain, hch] at hu
    | some x =>
      obtain ⟨v, e⟩ := x
      exact ⟨.usr, setTs s t th (.awRet (some p) k v e), by simp [step, ht, hts, hu], v, e,
        { th with ts := .awRet (some p) k v e }, by simp [setTs, hlt], rfl⟩

/-- **await_blocks.** Otherwise the awaiter has *no* enabled step at all: it is blocked, it does
not poll. (Its only internal event is the select decision.) -/
theorem await_blocks (s : St) (t p : Nat) (k : AK) (th : Th) (ht : s.th[t]? = some th)
    (hts : th.ts = .awWait p k)
    (h1 : published s (.plain p) = none) (h2 : th.cx = false) (h3 : usrFired k th.ch = false) :
    ∀ e : Ev, e.thread = some t → step s e = none := by
  have hu : usrPlain k th.ch = none := by
    cases k <;> simp [usrFired] at h3 <;> simp [usrPlain, h3]
  intro e he
  cases e <;> simp [Ev.thread] at he <;> subst he <;> simp [step, ht, hts]
  · rename_i br
    cases br <;> simp [h1, h2, hu]

/-! ## the container awaiter -/

/-- the container awaiter's condition for having something to do -/
def contReady (s : St) (th : Th) : Prop :=
  match th.ts with
  | .cNil k c => th.cx = true ∨ usrFired k th.ch = true ∨ s.bc.closed c = true
  | .cInner _ r c => th.cx = true ∨ s.bc.closed c = true ∨ published s r ≠ none
  | .cHead _ | .cChk1 .. | .cChk2 .. => True
  | _ => False

theorem usr_fired_nil (k : AK) (f : Option Fire) (h : usrFired k f = true) : usrNil k f ≠ none := by
  cases k <;> simp [usrFired] at h
  · cases f with
    | none => simp at h
    | some f => cases f <;> simp [usrNil]
  · cases f with
    | none => simp at h
    | some f => simp [usrNil]

/-- **container await_enabled.** A container awaiter whose sampled content is resolved, whose
context is cancelled, whose replacement channel is closed, or (while the container was sampled
empty) whose own channel has fired, has an enabled internal step. -/
theorem container_enabled (s : St) (t : Nat) (th : Th) (ht : s.th[t]? = some th) (hr : contReady s th) :
    ∃ e, e.thread = some t ∧ (step s e).isSome = true := by
  unfold contReady at hr
  split at hr
  · rename_i k c hts
    rcases hr with hr | hr | hr
    · exact ⟨.cNilSel t .ctx, rfl, by simp [step, ht, hts, hr]⟩
    · cases hu : usrNil k th.ch with
      | none => exact absurd hu (usr_fired_nil k th.ch hr)
      | some x => exact ⟨.cNilSel t .usr, rfl, by simp [step, ht, hts, hu]⟩
    · exact ⟨.cNilSel t .wait, rfl, by simp [step, ht, hts, hr]⟩
  · rename_i k r c hts
    rcases hr with hr | hr | hr
    · exact ⟨.cInnerSel t .ctx, rfl, by simp [step, ht, hts, hr]⟩
    · exact ⟨.cInnerSel t .wait, rfl, by simp [step, ht, hts, hr]⟩
    · cases hp : published s r with
      | none => exact absurd hp hr
      | some x =>
        obtain ⟨v, e⟩ := x
        cases e <;> exact ⟨.cInnerSel t .res, rfl, by simp [step, ht, hts, hp]⟩
  · rename_i k hts
    cases hsl : s.slot with
    | none => exact ⟨.cSample t, rfl, by simp [step, ht, hts, hsl]⟩
    | some r => exact ⟨.cSample t, rfl, by simp [step, ht, hts, hsl]⟩
  · rename_i k c v hts
    cases hcx : th.cx with
    | true => exact ⟨.cChk1 t, rfl, by simp [step, ht, hts, hcx]⟩
    | false => exact ⟨.cChk1 t, rfl, by simp [step, ht, hts, hcx]⟩
  · rename_i k c v hts
    cases hcl : s.bc.closed c with
    | true => exact ⟨.cChk2 t, rfl, by simp [step, ht, hts, hcl]⟩
    | false => exact ⟨.cChk2 t, rfl, by simp [step, ht, hts, hcl]⟩
  · exact absurd hr id

/-- **follows_current (1): what the awaiter waits on is current.** While the replacement channel it
sampled is still open, the content it sampled is still the content of the container; any
replacement closes the channel (and thereby wakes the awaiter). -/
theorem sampled_is_current (es : List Ev) (s : St) (h : model.run model.init es = some s)
    (t : Nat) (th : Th) (ht : s.th[t]? = some th) :
    (∀ k c, th.ts = .cNil k c → s.bc.closed c = false → s.slot = none) ∧
    (∀ k r c, th.ts = .cInner k r c → s.bc.closed c = false → s.slot = some r) := by
  have hok := (reachable_inv es s h).th t th ht
  unfold ThOK at hok
  constructor
  · intro k c hts ho; simp only [hts] at hok; exact hok.2 ho
  · intro k r c hts ho; simp only [hts] at hok; exact hok.2.1 ho

/-- **follows_current (2).** Hence: if the *current* promise of the container is resolved, or the
context is cancelled, the awaiter has an enabled step — for every result, including one whose error is
`context.Canceled`, and after any number of replacements. -/
theorem container_follows_current (es : List Ev) (s : St) (h : model.run model.init es = some s)
    (t : Nat) (th : Th) (ht : s.th[t]? = some th)
    (hpark : (∃ k c, th.ts = .cNil k c) ∨ (∃ k r c, th.ts = .cInner k r c))
    (hc : th.cx = true ∨ ∃ r, s.slot = some r ∧ published s r ≠ none) :
    ∃ e, e.thread = some t ∧ (step s e).isSome = true := by
  obtain ⟨h1, h2⟩ := sampled_is_current es s h t th ht
  apply container_enabled s t th ht
  unfold contReady
  rcases hpark with ⟨k, c, hts⟩ | ⟨k, r, c, hts⟩
  · simp only [hts]
    rcases hc with hc | ⟨r, hsl, _⟩
    · exact Or.inl hc
    · right; right
      cases hcl : s.bc.closed c with
      | true => rfl
      | false => have := h1 k c hts hcl; rw [hsl] at this; cases this
  · simp only [hts]
    rcases hc with hc | ⟨r', hsl, hp⟩
    · exact Or.inl hc
    · right
      cases hcl : s.bc.closed c with
      | true => exact Or.inl rfl
      | false =>
        have := h2 k r c hts hcl; rw [hsl] at this; cases this
        exact Or.inr hp

/-- **container await_blocks.** A parked container awaiter with nothing to do has *no* enabled step:
no polling while the content is unresolved (this is what the D8 repair restored for results whose
error is `context.Canceled`). -/
theorem container_blocks (s : St) (t : Nat) (th : Th) (ht : s.th[t]? = some th)
    (hpark : (∃ k c, th.ts = .cNil k c) ∨ (∃ k r c, th.ts = .cInner k r c))
    (hn : ¬ contReady s th ∧
      (∀ k c, th.ts = .cNil k c → True)) :
    ∀ e : Ev, e.thread = some t → step s e = none := by
  obtain ⟨hn, _⟩ := hn
  unfold contReady at hn
  rcases hpark with ⟨k, c, hts⟩ | ⟨k, r, c, hts⟩
  · simp only [hts, not_or] at hn
    obtain ⟨h1, h2, h3⟩ := hn
    have hu : usrNil k th.ch = none := by
      cases k <;> simp [usrFired] at h2 <;> simp [usrNil, h2]
    intro e he
    cases e <;> simp [Ev.thread] at he <;> subst he <;> simp [step, ht, hts]
    rename_i br
    cases br <;> simp [hu]
    · simpa using h1
    · simpa using h3
  · simp only [hts, not_or] at hn
    obtain ⟨h1, h2, h3⟩ := hn
    have hp : published s r = none := by simpa using h3
    intro e he
    cases e <;> simp [Ev.thread] at he <;> subst he <;> simp [step, ht, hts]
    rename_i br
    cases br <;> simp [hp]
    · simpa using h1
    · simpa using h2

/-! ## no spinning: a bound on the consecutive own steps of one call -/

/-- well-founded measure of a call's internal steps -/
def rank (s : St) (th : Th) : Nat :=
  match th.ts with
  | .setInv .. => 2
  | .setWon .. => 1
  | .awWait .. => 1
  | .cWInv _ => 1
  | .cHead _ => 4
  | .cNil _ c => if s.bc.closed c then 5 else 1
  | .cInner _ _ c => if s.bc.closed c then 8 else 3
  | .cChk1 _ c _ => if s.bc.closed c then 7 else 2
  | .cChk2 _ c _ => if s.bc.closed c then 6 else 1
  | _ => 0

theorem rank_le (s : St) (th : Th) : rank s th ≤ 8 := by
  unfold rank; split <;> try omega
  all_goals split <;> omega

/-- rank of call `t` in state `s` -/
def rankAt (s : St) (t : Nat) : Nat :=
  match s.th[t]? with
  | some th => rank s th
  | none => 0

/-- **no spinning.** Every internal step of a call strictly decreases its rank (a number ≤ 8 that
depends only on the call's program counter and on whether the replacement channel it holds is
closed). In particular the container awaiter cannot loop: going round its loop once more requires a
*new* replacement by somebody else. -/
theorem own_step_decreases (s : St) (hi : Inv s) (e : Ev) (s' : St) (t : Nat)
    (he : e.thread = some t) (hs : step s e = some s') : rankAt s' t < rankAt s t := by
  cases ht : s.th[t]? with
  | none => cases e <;> simp [Ev.thread] at he <;> subst he <;> simp [step, ht] at hs
  | some th =>
  have hlt := lt_of_getElem? ht
  have hra : rankAt s t = rank s th := by simp [rankAt, ht]
  rw [hra]
  cases e with
  | swap u =>
    simp [Ev.thread] at he; subst he; simp only [step, ht] at hs
    split at hs <;> try simp at hs
    rename_i p v e hts
    split at hs <;> try simp at hs
    split at hs <;> simp at hs <;> subst hs <;> simp [rankAt, setTs, hlt, rank, hts]
  | publish u =>
    simp [Ev.thread] at he; subst he; simp only [step, ht] at hs
    split at hs <;> try simp at hs
    rename_i p v e hts
    split at hs <;> simp at hs; subst hs
    simp [rankAt, setTs, hlt, rank, hts]
  | awSel u br =>
    simp [Ev.thread] at he; subst he; simp only [step, ht] at hs
    split at hs <;> try simp at hs
    rename_i p k hts
    cases br <;> (try simp only at hs) <;> (try split at hs) <;> simp at hs <;> subst hs <;>
      simp [rankAt, setTs, hlt, rank, hts]
  | cWCS u =>
    simp [Ev.thread] at he; subst he; simp only [step, ht] at hs
    split at hs <;> try simp at hs
    · rename_i p hts
      split at hs <;> simp at hs <;> subst hs <;> simp [rankAt, setTs, hlt, rank, hts]
    · rename_i e hts
      subst hs; simp [rankAt, setTs, hlt, rank, hts]
  | cSample u =>
    simp [Ev.thread] at he; subst he; simp only [step, ht] at hs
    split at hs <;> try simp at hs
    rename_i k hts
    obtain ⟨_, _, _, _, g5, _, _⟩ := Bcast.getWaitCh_spec s.bc hi.bcwf
    split at hs <;> simp at hs <;> subst hs <;> simp [rankAt, setTs, hlt, rank, hts, g5]
  | cNilSel u br =>
    simp [Ev.thread] at he; subst he; simp only [step, ht] at hs
    split at hs <;> try simp at hs
    rename_i k c hts
    cases br <;> (try simp only at hs) <;> (try split at hs) <;> simp at hs
    · subst hs; cases hcl' : s.bc.closed c <;> simp [rankAt, setTs, hlt, rank, hts, hcl']
    · subst hs; cases hcl' : s.bc.closed c <;> simp [rankAt, setTs, hlt, rank, hts, hcl']
    · rename_i hcl
      subst hs
      simp [rankAt, setTs, hlt, rank, hts, hcl]
  | cInnerSel u br =>
    simp [Ev.thread] at he; subst he; simp only [step, ht] at hs
    split at hs <;> try simp at hs
    rename_i k r c hts
    cases br <;> (try simp only at hs) <;> (try split at hs) <;> simp at hs
    · subst hs; cases hcl' : s.bc.closed c <;> simp [rankAt, setTs, hlt, rank, hts, hcl']
    · rename_i hcl
      subst hs
      simp [rankAt, setTs, hlt, rank, hts, hcl]
    · subst hs; cases hcl' : s.bc.closed c <;> simp [rankAt, setTs, hlt, rank, hts, hcl']
    · subst hs; cases hcl' : s.bc.closed c <;> simp [rankAt, setTs, hlt, rank, hts, hcl']
    · subst hs; cases hcl' : s.bc.closed c <;> simp [rankAt, setTs, hlt, rank, hts, hcl']
  | cChk1 u =>
    simp [Ev.thread] at he; subst he; simp only [step, ht] at hs
    split at hs <;> try simp at hs
    rename_i k c v hts
    split at hs <;> simp at hs <;> subst hs <;>
      (cases hcl' : s.bc.closed c <;> simp [rankAt, setTs, hlt, rank, hts, hcl'])
  | cChk2 u =>
    simp [Ev.thread] at he; subst he; simp only [step, ht] at hs
    split at hs <;> try simp at hs
    rename_i k c v hts
    split at hs <;> simp at hs <;> subst hs
    · rename_i hcl
      simp [rankAt, setTs, hlt, rank, hts, hcl]
    · rename_i hcl
      simp [rankAt, setTs, hlt, rank, hts, hcl]
  | _ => simp [Ev.thread] at he

theorem rankAt_le (s : St) (t : Nat) : rankAt s t ≤ 8 := by
  unfold rankAt; split
  · exact rank_le s _
  · omega

/-- **no spinning (bound).** From any reachable state, a run made only of internal steps of call `t`
has at most `rank ≤ 8` steps: then the call has returned or is blocked with no enabled step. -/
theorem own_run_bounded (s : St) (hi : Inv s) (t : Nat)
    (es : List Ev) (hes : ∀ e ∈ es, e.thread = some t) (s' : St) (hr : model.run s es = some s') :
    es.length ≤ rankAt s t ∧ es.length ≤ 8 := by
  suffices h : es.length ≤ rankAt s t from ⟨h, Nat.le_trans h (rankAt_le s t)⟩
  induction es generalizing s with
  | nil => simp
  | cons e es ih =>
    simp only [OLTS.run] at hr
    cases hst : model.step s e with
    | none => simp [hst] at hr
    | some s1 =>
      simp [hst] at hr
      have hlt := own_step_decreases s hi e s1 t (hes e (by simp)) hst
      have := ih s1 (step_inv s e s1 hi hst) (fun e' he' => hes e' (by simp [he'])) hr
      simp only [List.length_cons]; omega

/-! ## quiescence -/

/-- **quiescence.** In a quiescent state no internal event is enabled: every pending call is an
awaiter that is blocked with nothing to return. -/
theorem quiescent_no_internal (s : St) (hq : quiescent s = true) (e : Ev) (t : Nat)
    (he : e.thread = some t) : step s e = none := by
  cases ht : s.th[t]? with
  | none => cases e <;> simp [Ev.thread] at he <;> subst he <;> simp [step, ht]
  | some th =>
    have hqt : Th.quiet s th = true := by
      simp only [quiescent, List.all_eq_true] at hq
      exact hq th (List.mem_of_getElem? ht)
    unfold Th.quiet at hqt
    cases e with
    | swap u =>
      simp [Ev.thread] at he; subst he; simp only [step, ht]
      split <;> first | rfl | (rename_i hts; simp [hts] at hqt)
    | publish u =>
      simp [Ev.thread] at he; subst he; simp only [step, ht]
      split <;> first | rfl | (rename_i hts; simp [hts] at hqt)
    | awSel u br =>
      simp [Ev.thread] at he; subst he; simp only [step, ht]
      split <;> try rfl
      rename_i p k hts
      simp only [hts] at hqt
      simp at hqt
      obtain ⟨⟨h1, h2⟩, h3⟩ := hqt
      have hu : usrPlain k th.ch = none := by
        cases k <;> simp [usrFired] at h2 <;> simp [usrPlain, h2]
      cases br <;> simp [h1, hu, h3]
    | cWCS u =>
      simp [Ev.thread] at he; subst he; simp only [step, ht]
      split <;> first | rfl | (rename_i hts; simp [hts] at hqt)
    | cSample u =>
      simp [Ev.thread] at he; subst he; simp only [step, ht]
      split <;> first | rfl | (rename_i hts; simp [hts] at hqt)
    | cNilSel u br =>
      simp [Ev.thread] at he; subst he; simp only [step, ht]
      split <;> try rfl
      rename_i k c hts
      simp only [hts] at hqt
      simp at hqt
      obtain ⟨⟨h1, h2⟩, h3⟩ := hqt
      have hu : usrNil k th.ch = none := by
        cases k <;> simp [usrFired] at h2 <;> simp [usrNil, h2]
      cases br <;> simp [h1, hu, h3]
    | cInnerSel u br =>
      simp [Ev.thread] at he; subst he; simp only [step, ht]
      split <;> try rfl
      rename_i k r c hts
      simp only [hts] at hqt
      simp at hqt
      obtain ⟨⟨h1, h2⟩, h3⟩ := hqt
      cases br <;> simp [h1, h2, h3]
    | cChk1 u =>
      simp [Ev.thread] at he; subst he; simp only [step, ht]
      split <;> first | rfl | (rename_i hts; simp [hts] at hqt)
    | cChk2 u =>
      simp [Ev.thread] at he; subst he; simp only [step, ht]
      split <;> first | rfl | (rename_i hts; simp [hts] at hqt)
    | _ => simp [Ev.thread] at he

/-! ## the open finding D9: the container awaiters ignore their own channel while an unresolved
promise is current -/

/-- The clause of C11 "an await returns as soon as … its error/cancel channel fires", for the
container awaiters, **at full strength** (kept visible; it is *false* for the code as it is). -/
def ContainerChannelClause : Prop :=
  ∀ (es : List Ev) (s : St), model.run model.init es = some s →
  ∀ (t : Nat) (th : Th), s.th[t]? = some th →
    ((∃ k c, th.ts = .cNil k c ∧ usrFired k th.ch = true) ∨
     (∃ k r c, th.ts = .cInner k r c ∧ usrFired k th.ch = true)) →
    ∃ e, e.thread = some t ∧ (step s e).isSome = true

/-- the minimal failing history: `SetPromise(p)` with `p` unresolved, `AwaitWithErrCh`, an error is
sent on the channel -/
def witnessD9 : List Ev :=
  [.newp 0, .invCSetP 0 (some 0), .cWCS 0, .retCSetP 0, .invCAwait 1 .errch, .cSample 1,
   .envFire 1 (.sent .custom)]

def stateD9 : St :=
  { proms := [{}], slot := some (.plain 0), bc := { cur := some 0, next := 1 }
    th := [{ ts := .cDone (.setp (some 0)) },
           { ts := .cInner .errch (.plain 0) 0, ch := some (.sent .custom) }] }

theorem witnessD9_run : model.run model.init witnessD9 = some stateD9 := by decide

/-- **D9 (negation of the full clause, concrete witness).** After `witnessD9` the awaiter's error
channel has fired, yet it has no enabled step; the state is even quiescent with the awaiter pending
(the model accepts `quiesce [1]` there, exactly what the real code does). -/
theorem container_channel_clause_false : ¬ ContainerChannelClause := by
  intro hcl
  obtain ⟨e, he, hen⟩ := hcl witnessD9 stateD9 witnessD9_run 1
    { ts := .cInner .errch (.plain 0) 0, ch := some (.sent .custom) } (by simp [stateD9])
    (Or.inr ⟨.errch, .plain 0, 0, rfl, by simp [usrFired]⟩)
  have hq : quiescent stateD9 = true := by decide
  rw [quiescent_no_internal stateD9 hq e 1 he] at hen
  cases hen

example : (model.run model.init (witnessD9 ++ [.quiesce false [1]])).isSome = true := by decide

/-- **C11 container channel clause, `_partial`.** The clause holds except in the pattern *"an
unresolved promise is current"* (the awaiter is inside the inner `AwaitWithCancelCh(ctx, waitCh)`,
whose select does not contain the caller's channel, container.go:121 and :167): it holds while the
container was sampled empty, and — for whatever reason — as soon as the sampled promise is resolved,
replaced, or the context is cancelled. -/
theorem container_channel_clause_partial (s : St) (t : Nat) (th : Th) (ht : s.th[t]? = some th)
    (h : (∃ k c, th.ts = .cNil k c ∧ usrFired k th.ch = true) ∨
         (∃ k r c, th.ts = .cInner k r c ∧ usrFired k th.ch = true ∧
            (th.cx = true ∨ s.bc.closed c = true ∨ published s r ≠ none))) :
    ∃ e, e.thread = some t ∧ (step s e).isSome = true := by
  apply container_enabled s t th ht
  unfold contReady
  rcases h with ⟨k, c, hts, hf⟩ | ⟨k, r, c, hts, _, hr⟩
  · simp only [hts]; exact Or.inr (Or.inl hf)
  · simp only [hts]; exact hr

/-! ## the model can do something non-trivial -/

/-- two setters race, the loser returns false, two awaiters of different kinds see the winner's
result; a container follows a replacement and returns a result whose error is `context.Canceled` -/
example : (model.run model.init
    [.newp 0, .invSet 0 0 1 .custom, .invSet 1 0 2 .nil, .swap 1, .swap 0, .retSet 0 false,
     .invAwait 2 0 .errch, .publish 1, .awSel 2 .res, .retAwait 2 2 .nil, .retSet 1 true,
     .newp 1, .invCSetP 3 (some 1), .cWCS 3, .retCSetP 3, .invCAwait 4 .ctx, .cSample 4,
     .quiesce false [4], .invCRes 5 6 .canceled, .cWCS 5, .retCRes 5, .cInnerSel 4 .wait, .cChk1 4,
     .cChk2 4, .cSample 4, .cInnerSel 4 .res, .cChk1 4, .cChk2 4, .retAwait 4 6 .canceled,
     .quiesce false []]).isSome = true := by decide

end UtilModel.Promise
