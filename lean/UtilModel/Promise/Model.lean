import UtilModel.Core.LTS
import UtilModel.Core.Bcast
import UtilModel.Core.Count
/-!
# promise.Promise and promise.PromiseContainer — model (promise/promise.go, promise/container.go)

Any number of plain `Promise`s (table `proms`, ids in creation order) and one `PromiseContainer`
(`slot` + `Bcast`). One *thread* = one API call, numbered in invocation order by the harness.

Atomic actions (one event each):
* `SetResult`: `isDone.Swap(true)` (`swap`), then — after the `yield-setresult` hook point — the
  publication `result = …; err = …; close(done)` (`publish`; the two field writes are invisible
  to everyone until the close, which is the release point, so they are one event with the close);
* `Await*` on a `Promise`: one `select` decision (`awSel t branch`);
* container `SetPromise` / `SetResult`: one `HoldLock` critical section (`cWCS`);
* container `Await*`: the sampling critical section (`cSample`), the `select` of the `prom == nil`
  branch (`cNilSel`), the `select` inside the inner `AwaitWithCancelCh(ctx, waitCh)` (`cInnerSel`),
  the `ctx.Err()` test (`cChk1`) and the non-blocking `select` on `waitCh` (`cChk2`) that tells
  "replaced" from "resolved with context.Canceled" (the D8 repair).

Values: the value passed by `SetResult` call number `t` is `t+1` (the harness does that), so a
returned value identifies the call it came from and `0` is the zero value "no result".
-/
namespace UtilModel.Promise
open UtilModel

/-- error values of results -/
inductive Err where
  | nil | custom | canceled | deadline
deriving DecidableEq, Repr, Inhabited, Hashable

/-- kind of await: `Await`, `AwaitWithErrCh`, `AwaitWithCancelCh` -/
inductive AK where
  | ctx | errch | cancelch
deriving DecidableEq, Repr, Inhabited, Hashable

/-- what the environment did to the awaiter's error / cancel channel -/
inductive Fire where
  | closed | sent (e : Err)
deriving DecidableEq, Repr, Inhabited, Hashable

/-- a promise the container can hold: a plain promise of the table, or the pre-resolved promise
made by `PromiseContainer.SetResult` call `t` (`NewPromiseWithResult`) -/
inductive PRef where
  | plain (p : Nat)
  | fixed (t : Nat) (e : Err)
deriving DecidableEq, Repr, Inhabited, Hashable

/-- a container writer call: `SetPromise(p)` or `SetResult(id+1, e)` -/
inductive CW where
  | setp (p : Option Nat)
  | res (e : Err)
deriving DecidableEq, Repr, Inhabited, Hashable

/-- branch taken by a `select` -/
inductive Branch where
  | ctx   -- `<-ctx.Done()`
  | usr   -- the caller's error / cancel channel
  | wait  -- the container's replacement channel
  | res   -- the promise's done channel
deriving DecidableEq, Repr, Inhabited, Hashable

/-- per-call program counter -/
inductive TS where
  | setInv (p v : Nat) (e : Err)            -- SetResult invoked; swap pending
  | setWon (p v : Nat) (e : Err)            -- swap returned false: this call is the writer; publication pending
  | setRet (p v : Nat) (e : Err) (b : Bool) -- about to return `b`
  | setDone (p v : Nat) (e : Err) (b : Bool)
  | awWait (p : Nat) (k : AK)               -- in the select of Promise.Await*
  | awRet (o : Option Nat) (k : AK) (v : Nat) (e : Err)  -- select decided; about to return (v, e); `o` = the plain promise awaited (none: container)
  | awDone (o : Option Nat) (k : AK) (v : Nat) (e : Err)
  | cWInv (w : CW)                          -- container SetPromise / SetResult invoked; critical section pending
  | cRet (w : CW)                           -- … critical section done; about to return
  | cDone (w : CW)
  | cHead (k : AK)                          -- container Await*: top of the loop
  | cNil (k : AK) (c : Nat)                 -- sampled `nil`; select on ctx / own channel / waitCh `c`
  | cInner (k : AK) (r : PRef) (c : Nat)    -- sampled `r`; inside r.AwaitWithCancelCh(ctx, waitCh)
  | cChk1 (k : AK) (c v : Nat)              -- inner await returned (v, Canceled): `ctx.Err() != nil`?
  | cChk2 (k : AK) (c v : Nat)              -- … `select { case <-waitCh: default: }`
deriving DecidableEq, Repr, Inhabited, Hashable

structure Th where
  ts : TS
  cx : Bool := false            -- the call's context has been cancelled
  ch : Option Fire := none      -- what happened to the call's error / cancel channel
deriving DecidableEq, Repr, Inhabited, Hashable

structure Prom where
  winner : Option Nat := none          -- the call whose swap found `false`
  res : Option (Nat × Err) := none     -- published result (fields written, done channel closed)
  born : Bool := false                 -- constructed pre-resolved (`NewPromiseWithErr`): `isDone` set, no setter
deriving DecidableEq, Repr, Inhabited, Hashable

structure St where
  proms : List Prom := []
  slot : Option PRef := none
  bc : Bcast := {}
  th : List Th := []
deriving DecidableEq, Repr, Hashable

inductive Obs where
  | newp (p : Nat)                               -- `env newp p`
  | newpe (p : Nat) (e : Err)                    -- `env newpe p e`    (NewPromiseWithErr(e): born resolved with (zero, e))
  | checkLike (good ok : Bool)                   -- `env checklike plain|cont|bad1|bad2|bad3 ok|fail`: promise.CheckPromiseLike
                                                 -- on a real implementation (good) / on a deliberately wrong fake returned nil (ok) / an error
  | invSet (t p v : Nat) (e : Err)               -- `inv t set p v e`
  | retSet (t : Nat) (b : Bool)                  -- `ret t set true|false`
  | invAwait (t p : Nat) (k : AK)                -- `inv t await p ctx|errch|cancelch`
  | retAwait (t v : Nat) (e : Err)               -- `ret t await v e`
  | retPanic (t : Nat)                           -- `ret t panic`
  | envCancel (t : Nat)                          -- `env cancel t`
  | envFire (t : Nat) (f : Fire)                 -- `env fire t close|send e`
  | invCSetP (t : Nat) (p : Option Nat)          -- `inv t csetp p|nil`
  | retCSetP (t : Nat)                           -- `ret t csetp`
  | invCRes (t v : Nat) (e : Err)                -- `inv t cres v e`
  | retCRes (t : Nat)                            -- `ret t cres true`
  | invCAwait (t : Nat) (k : AK)                 -- `inv t cawait ctx|errch|cancelch`
  | quiesce (busy : Bool) (pending : List Nat)   -- `quiesce idle|busy t1 t2 …`
deriving DecidableEq, Repr, Hashable

inductive Ev where
  | newp (p : Nat)
  | newpe (p : Nat) (e : Err)
  | checkLike (good ok : Bool)
  | invSet (t p v : Nat) (e : Err)
  | swap (t : Nat)
  | publish (t : Nat)
  | retSet (t : Nat) (b : Bool)
  | invAwait (t p : Nat) (k : AK)
  | awSel (t : Nat) (br : Branch)
  | retAwait (t v : Nat) (e : Err)
  | envCancel (t : Nat)
  | envFire (t : Nat) (f : Fire)
  | invCSetP (t : Nat) (p : Option Nat)
  | cWCS (t : Nat)                    -- the critical section of a container writer
  | retCSetP (t : Nat)
  | invCRes (t v : Nat) (e : Err)
  | retCRes (t : Nat)
  | invCAwait (t : Nat) (k : AK)
  | cSample (t : Nat)
  | cNilSel (t : Nat) (br : Branch)
  | cInnerSel (t : Nat) (br : Branch)
  | cChk1 (t : Nat)
  | cChk2 (t : Nat)
  | quiesce (busy : Bool) (pending : List Nat)
deriving DecidableEq, Repr, Hashable

def Ev.obs : Ev → Option Obs
  | .newp p => some (.newp p)
  | .newpe p e => some (.newpe p e)
  | .checkLike c ok => some (.checkLike c ok)
  | .invSet t p v e => some (.invSet t p v e)
  | .retSet t b => some (.retSet t b)
  | .invAwait t p k => some (.invAwait t p k)
  | .retAwait t v e => some (.retAwait t v e)
  | .envCancel t => some (.envCancel t)
  | .envFire t f => some (.envFire t f)
  | .invCSetP t p => some (.invCSetP t p)
  | .retCSetP t => some (.retCSetP t)
  | .invCRes t v e => some (.invCRes t v e)
  | .retCRes t => some (.retCRes t)
  | .invCAwait t k => some (.invCAwait t k)
  | .quiesce b B => some (.quiesce b B)
  | _ => none

/-- the events that could have produced an observable (a panic is never produced by the model) -/
def Obs.evs : Obs → List Ev
  | .newp p => [.newp p]
  | .newpe p e => [.newpe p e]
  | .checkLike c ok => [.checkLike c ok]
  | .invSet t p v e => [.invSet t p v e]
  | .retSet t b => [.retSet t b]
  | .invAwait t p k => [.invAwait t p k]
  | .retAwait t v e => [.retAwait t v e]
  | .retPanic _ => []
  | .envCancel t => [.envCancel t]
  | .envFire t f => [.envFire t f]
  | .invCSetP t p => [.invCSetP t p]
  | .retCSetP t => [.retCSetP t]
  | .invCRes t v e => [.invCRes t v e]
  | .retCRes t => [.retCRes t]
  | .invCAwait t k => [.invCAwait t k]
  | .quiesce b B => [.quiesce b B]

/-- the thread an internal event belongs to -/
def Ev.thread : Ev → Option Nat
  | .swap t | .publish t | .awSel t _ | .cWCS t | .cSample t | .cNilSel t _
  | .cInnerSel t _ | .cChk1 t | .cChk2 t => some t
  | _ => none

def internalCands (n : Nat) : List Ev :=
  (List.range n).flatMap fun t =>
    [.swap t, .publish t, .awSel t .ctx, .awSel t .usr, .awSel t .res, .cWCS t, .cSample t,
     .cNilSel t .ctx, .cNilSel t .usr, .cNilSel t .wait,
     .cInnerSel t .ctx, .cInnerSel t .wait, .cInnerSel t .res, .cChk1 t, .cChk2 t]

/-- has the caller's own channel fired (as far as this kind of await looks at it)? -/
def usrFired : AK → Option Fire → Bool
  | .ctx, _ => false
  | _, f => f.isSome

/-- outcome of the own-channel branch of `Promise.AwaitWithErrCh` / `AwaitWithCancelCh`
(promise.go:74-80, 93-94) -/
def usrPlain : AK → Option Fire → Option (Nat × Err)
  | .errch, some (.sent e) => some (0, e)
  | .errch, some .closed => some (0, .canceled)
  | .cancelch, some _ => some (0, .canceled)
  | _, _ => none

/-- outcome of the own-channel branch in the `prom == nil` select of the container awaiters
(container.go:108-114, 159-160): a fired cancel channel yields `(zero, nil)` there -/
def usrNil : AK → Option Fire → Option (Nat × Err)
  | .errch, some (.sent e) => some (0, e)
  | .errch, some .closed => some (0, .canceled)
  | .cancelch, some _ => some (0, .nil)
  | _, _ => none

/-- the published result of a promise reference, if any -/
def published (s : St) : PRef → Option (Nat × Err)
  | .plain p => match s.proms[p]? with
    | some pr => pr.res
    | none => none
  | .fixed t e => some (t + 1, e)

/-- plain promise `p` exists and was not constructed pre-resolved -/
def notBorn (s : St) (p : Nat) : Bool :=
  match s.proms[p]? with
  | some pr => !pr.born
  | none => false

def setTs (s : St) (t : Nat) (th : Th) (ts : TS) : St :=
  { s with th := s.th.set t { th with ts := ts } }

/-- a thread with no enabled internal step and no enabled response -/
def Th.quiet (s : St) (th : Th) : Bool :=
  match th.ts with
  | .awWait p k => !th.cx && !usrFired k th.ch && (published s (.plain p)).isNone
  | .cNil k c => !th.cx && !usrFired k th.ch && !s.bc.closed c
  | .cInner _ r c => !th.cx && !s.bc.closed c && (published s r).isNone
  | .setDone .. | .awDone .. | .cDone _ => true
  | _ => false

def TS.pending : TS → Bool
  | .setDone .. | .awDone .. | .cDone _ => false
  | _ => true

def pendingIds (s : St) : List Nat :=
  (List.range s.th.length).filter fun t => match s.th[t]? with
    | some th => th.ts.pending
    | none => false

def quiescent (s : St) : Bool := s.th.all (Th.quiet s)

def step (s : St) : Ev → Option St
  | .newp p => if p = s.proms.length then some { s with proms := s.proms ++ [{}] } else none
  | .newpe p e =>
    -- promise.go:40-43 via :28-37: result fields set, done channel closed, isDone stored, before anybody sees it
    if p = s.proms.length then some { s with proms := s.proms ++ [{ res := some (0, e), born := true }] } else none
  | .checkLike good ok =>
    -- like.go:28-56 runs its own fixed script on private instances: on an implementation that does what
    -- this model says it returns nil; on the harness' deliberately wrong fakes (await ignoring the
    -- context / returning an error / returning another value) it returns an error
    if ok = good then some s else none
  | .invSet t p v e =>
    if t = s.th.length ∧ p < s.proms.length ∧ v = t + 1 then
      some { s with th := s.th ++ [{ ts := .setInv p v e }] } else none
  | .swap t =>
    match s.th[t]? with
    | some th => match th.ts with
      | .setInv p v e => match s.proms[p]? with
        | some pr =>
          if pr.winner.isSome || pr.born then some (setTs s t th (.setRet p v e false))
          else some { setTs s t th (.setWon p v e) with proms := s.proms.set p { pr with winner := some t } }
        | none => none
      | _ => none
    | none => none
  | .publish t =>
    match s.th[t]? with
    | some th => match th.ts with
      | .setWon p v e => match s.proms[p]? with
        | some pr => some { setTs s t th (.setRet p v e true) with proms := s.proms.set p { pr with res := some (v, e) } }
        | none => none
      | _ => none
    | none => none
  | .retSet t b =>
    match s.th[t]? with
    | some th => match th.ts with
      | .setRet p v e b' => if b = b' then some (setTs s t th (.setDone p v e b)) else none
      | _ => none
    | none => none
  | .invAwait t p k =>
    if t = s.th.length ∧ p < s.proms.length then some { s with th := s.th ++ [{ ts := .awWait p k }] } else none
  | .awSel t br =>
    match s.th[t]? with
    | some th => match th.ts with
      | .awWait p k =>
        match br with
        | .ctx => if th.cx then some (setTs s t th (.awRet (some p) k 0 .canceled)) else none
        | .usr => match usrPlain k th.ch with
          | some (v, e) => some (setTs s t th (.awRet (some p) k v e))
          | none => none
        | .res => match published s (.plain p) with
          | some (v, e) => some (setTs s t th (.awRet (some p) k v e))
          | none => none
        | .wait => none
      | _ => none
    | none => none
  | .retAwait t v e =>
    match s.th[t]? with
    | some th => match th.ts with
      | .awRet o k v' e' => if v = v' ∧ e = e' then some (setTs s t th (.awDone o k v e)) else none
      | _ => none
    | none => none
  | .envCancel t =>
    match s.th[t]? with
    | some th => some { s with th := s.th.set t { th with cx := true } }
    | none => none
  | .envFire t f =>
    match s.th[t]? with
    | some th => if th.ch.isNone then some { s with th := s.th.set t { th with ch := some f } } else none
    | none => none
  | .invCSetP t p =>
    -- (scope: promises born resolved are not put into the container)
    if t = s.th.length ∧ (p.all fun p => notBorn s p) = true then
      some { s with th := s.th ++ [{ ts := .cWInv (.setp p) }] } else none
  | .cWCS t =>
    match s.th[t]? with
    | some th => match th.ts with
      | .cWInv (.setp p) =>
        -- container.go:39-44: `if c.promise != p { c.promise = p; broadcast() }`
        if s.slot = p.map .plain then some (setTs s t th (.cRet (.setp p)))
        else some { setTs s t th (.cRet (.setp p)) with slot := p.map .plain, bc := s.bc.broadcast }
      | .cWInv (.res e) =>
        -- container.go:51-56: a fresh pre-resolved promise replaces the content
        some { setTs s t th (.cRet (.res e)) with slot := some (.fixed t e), bc := s.bc.broadcast }
      | _ => none
    | none => none
  | .retCSetP t =>
    match s.th[t]? with
    | some th => match th.ts with
      | .cRet (.setp p) => some (setTs s t th (.cDone (.setp p)))
      | _ => none
    | none => none
  | .invCRes t v e =>
    if t = s.th.length ∧ v = t + 1 then some { s with th := s.th ++ [{ ts := .cWInv (.res e) }] } else none
  | .retCRes t =>
    match s.th[t]? with
    | some th => match th.ts with
      | .cRet (.res e) => some (setTs s t th (.cDone (.res e)))
      | _ => none
    | none => none
  | .invCAwait t k =>
    if t = s.th.length then some { s with th := s.th ++ [{ ts := .cHead k }] } else none
  | .cSample t =>
    match s.th[t]? with
    | some th => match th.ts with
      | .cHead k =>
        -- one critical section: `prom, waitCh = p.promise, getWaitCh()`
        match s.slot with
        | none => some { setTs s t th (.cNil k s.bc.getWaitCh.2) with bc := s.bc.getWaitCh.1 }
        | some r => some { setTs s t th (.cInner k r s.bc.getWaitCh.2) with bc := s.bc.getWaitCh.1 }
      | _ => none
    | none => none
  | .cNilSel t br =>
    match s.th[t]? with
    | some th => match th.ts with
      | .cNil k c =>
        match br with
        | .ctx => if th.cx then some (setTs s t th (.awRet none k 0 .canceled)) else none
        | .usr => match usrNil k th.ch with
          | some (v, e) => some (setTs s t th (.awRet none k v e))
          | none => none
        | .wait => if s.bc.closed c then some (setTs s t th (.cHead k)) else none
        | .res => none
      | _ => none
    | none => none
  | .cInnerSel t br =>
    match s.th[t]? with
    | some th => match th.ts with
      | .cInner k r c =>
        -- r.AwaitWithCancelCh(ctx, waitCh): the caller's own channel is NOT among the cases (D9)
        match br with
        | .ctx => if th.cx then some (setTs s t th (.cChk1 k c 0)) else none
        | .wait => if s.bc.closed c then some (setTs s t th (.cChk1 k c 0)) else none
        | .res => match published s r with
          | some (v, .nil) => some (setTs s t th (.awRet none k v .nil))
          | some (v, .canceled) => some (setTs s t th (.cChk1 k c v))
          | some (v, e) => some (setTs s t th (.awRet none k v e))
          | none => none
        | .usr => none
      | _ => none
    | none => none
  | .cChk1 t =>
    match s.th[t]? with
    | some th => match th.ts with
      | .cChk1 k c v =>
        if th.cx then some (setTs s t th (.awRet none k v .canceled)) else some (setTs s t th (.cChk2 k c v))
      | _ => none
    | none => none
  | .cChk2 t =>
    match s.th[t]? with
    | some th => match th.ts with
      | .cChk2 k c v =>
        if s.bc.closed c then some (setTs s t th (.cHead k)) else some (setTs s t th (.awRet none k v .canceled))
      | _ => none
    | none => none
  | .quiesce busy B =>
    -- a quiescent state has no enabled step, so nothing can burn CPU while awaiters are blocked
    if quiescent s ∧ B = pendingIds s ∧ (busy = false ∨ B = []) then some s else none

def model : OLTS St Ev Obs where
  init := {}
  step := step
  obs := Ev.obs
  cands := fun s => internalCands s.th.length
  evsOf := fun _ o => o.evs

/-! ## parsing of harness lines -/

def Err.parse : String → Option Err
  | "nil" => some .nil
  | "e1" => some .custom
  | "canceled" => some .canceled
  | "deadline" => some .deadline
  | _ => none

def AK.parse : String → Option AK
  | "ctx" => some .ctx
  | "errch" => some .errch
  | "cancelch" => some .cancelch
  | _ => none

def parseNats : List String → Option (List Nat)
  | [] => some []
  | x :: xs => do let n ← x.toNat?; let r ← parseNats xs; pure (n :: r)

def Obs.parse : List String → Option Obs
  | ["env", "newp", p] => do pure (.newp (← p.toNat?))
  | ["env", "newpe", p, e] => do pure (.newpe (← p.toNat?) (← Err.parse e))
  | ["env", "checklike", impl, r] => do
    let good ← (if impl = "plain" ∨ impl = "cont" then some true
                else if impl = "bad1" ∨ impl = "bad2" ∨ impl = "bad3" then some false else none)
    let ok ← (if r = "ok" then some true else if r = "fail" then some false else none)
    pure (.checkLike good ok)
  | ["inv", t, "set", p, v, e] => do pure (.invSet (← t.toNat?) (← p.toNat?) (← v.toNat?) (← Err.parse e))
  | ["ret", t, "set", "true"] => do pure (.retSet (← t.toNat?) true)
  | ["ret", t, "set", "false"] => do pure (.retSet (← t.toNat?) false)
  | ["inv", t, "await", p, k] => do pure (.invAwait (← t.toNat?) (← p.toNat?) (← AK.parse k))
  | ["ret", t, "await", v, e] => do pure (.retAwait (← t.toNat?) (← v.toNat?) (← Err.parse e))
  | ["ret", t, "panic"] => do pure (.retPanic (← t.toNat?))
  | ["env", "cancel", t] => do pure (.envCancel (← t.toNat?))
  | ["env", "fire", t, "close"] => do pure (.envFire (← t.toNat?) .closed)
  | ["env", "fire", t, "send", e] => do pure (.envFire (← t.toNat?) (.sent (← Err.parse e)))
  | ["inv", t, "csetp", "nil"] => do pure (.invCSetP (← t.toNat?) none)
  | ["inv", t, "csetp", p] => do pure (.invCSetP (← t.toNat?) (some (← p.toNat?)))
  | ["ret", t, "csetp"] => do pure (.retCSetP (← t.toNat?))
  | ["inv", t, "cres", v, e] => do pure (.invCRes (← t.toNat?) (← v.toNat?) (← Err.parse e))
  | ["ret", t, "cres", "true"] => do pure (.retCRes (← t.toNat?))
  | ["inv", t, "cawait", k] => do pure (.invCAwait (← t.toNat?) (← AK.parse k))
  | "quiesce" :: "idle" :: ts => do pure (.quiesce false (← parseNats ts))
  | "quiesce" :: "busy" :: ts => do pure (.quiesce true (← parseNats ts))
  | _ => none

end UtilModel.Promise
