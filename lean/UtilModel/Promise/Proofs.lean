import UtilModel.Promise.Model
/-!
# promise.Promise / PromiseContainer — inductive invariant of the model (for every event list)
-/
namespace UtilModel.Promise
open UtilModel

def winnerOf (s : St) (p : Nat) : Option Nat :=
  match s.proms[p]? with
  | some pr => pr.winner
  | none => none

/-- plain promise `p` was constructed pre-resolved -/
def bornOf (s : St) (p : Nat) : Bool :=
  match s.proms[p]? with
  | some pr => pr.born
  | none => false

/-- the promise reference denotes something that exists (and that may be put into the container:
not a promise constructed pre-resolved) -/
def refOK (s : St) : PRef → Prop
  | .plain p => notBorn s p = true
  | .fixed u e => ∃ th, s.th[u]? = some th ∧ (th.ts = .cRet (.res e) ∨ th.ts = .cDone (.res e))

/-- a result obtained from a container: it is the published result of an existing promise -/
def fromRef (s : St) (v : Nat) (e : Err) : Prop := ∃ r, refOK s r ∧ published s r = some (v, e)

/-- per-call invariant -/
def ThOK (s : St) (t : Nat) (th : Th) : Prop :=
  match th.ts with
  | .setInv p v _ => v = t + 1 ∧ p < s.proms.length ∧ winnerOf s p ≠ some t
  | .setWon p v _ => v = t + 1 ∧ winnerOf s p = some t ∧ published s (.plain p) = none
  | .setRet p v e b | .setDone p v e b =>
    v = t + 1 ∧ if b then winnerOf s p = some t ∧ published s (.plain p) = some (v, e)
                else (∃ w, winnerOf s p = some w ∧ w ≠ t) ∨ bornOf s p = true
  | .awWait p _ => p < s.proms.length
  | .awRet (some p) k v e | .awDone (some p) k v e =>
    published s (.plain p) = some (v, e) ∨
    (v = 0 ∧ ((e = .canceled ∧ th.cx = true) ∨ usrPlain k th.ch = some (0, e)))
  | .awRet none k v e | .awDone none k v e =>
    (1 ≤ v ∧ fromRef s v e) ∨
    (v = 0 ∧ ((e = .canceled ∧ th.cx = true) ∨ usrNil k th.ch = some (0, e)))
  | .cWInv (.setp p) => p.all (notBorn s) = true
  | .cWInv (.res _) | .cRet _ | .cDone _ | .cHead _ => True
  | .cNil _ c => c < s.bc.next ∧ (s.bc.closed c = false → s.slot = none)
  | .cInner _ r c => c < s.bc.next ∧ (s.bc.closed c = false → s.slot = some r) ∧ refOK s r
  | .cChk1 _ c v =>
    c < s.bc.next ∧ (v = 0 → th.cx = true ∨ s.bc.closed c = true) ∧ (1 ≤ v → fromRef s v .canceled)
  | .cChk2 _ c v =>
    c < s.bc.next ∧ (v = 0 → s.bc.closed c = true) ∧ (1 ≤ v → fromRef s v .canceled)

/-- the call recorded as winner of promise `p` is a `SetResult` call on `p` that won -/
def isWinnerState (p w : Nat) (ts : TS) : Prop :=
  (∃ e, ts = .setWon p (w + 1) e) ∨ (∃ e, ts = .setRet p (w + 1) e true) ∨ (∃ e, ts = .setDone p (w + 1) e true)

def PromOK (s : St) (p : Nat) (pr : Prom) : Prop :=
  (∀ v e, pr.res = some (v, e) → pr.born = false → pr.winner = some (v - 1) ∧ 1 ≤ v) ∧
  (pr.born = true → pr.winner = none ∧ ∃ e, pr.res = some (0, e)) ∧
  (∀ w, pr.winner = some w → ∃ th, s.th[w]? = some th ∧ isWinnerState p w th.ts)

structure Inv (s : St) : Prop where
  bcwf : s.bc.WF
  th : ∀ (t : Nat) (th : Th), s.th[t]? = some th → ThOK s t th
  pr : ∀ (p : Nat) (pr : Prom), s.proms[p]? = some pr → PromOK s p pr
  slot : ∀ (r : PRef), s.slot = some r → refOK s r

theorem init_inv : Inv ({} : St) := by
  refine ⟨Bcast.wf_init, ?_, ?_, ?_⟩ <;> intros <;> simp_all

/-! ### the frame lemma: what a step must not disturb for the *other* calls -/

structure Frame (s s' : St) (u : Nat) : Prop where
  plen : s.proms.length ≤ s'.proms.length
  nb : ∀ (p : Nat), notBorn s p = true → notBorn s' p = true
  bn : ∀ (p : Nat), bornOf s p = true → bornOf s' p = true
  win : ∀ (p w : Nat), winnerOf s p = some w → winnerOf s' p = some w
  winU : ∀ (p : Nat), winnerOf s' p = some u → winnerOf s p = some u
  pub : ∀ (r : PRef) (x : Nat × Err), published s r = some x → published s' r = some x
  pubU : ∀ (p : Nat), winnerOf s p = some u → published s' (.plain p) = published s (.plain p)
  bnext : s.bc.next ≤ s'.bc.next
  bclosed : ∀ (c : Nat), s.bc.closed c = true → s'.bc.closed c = true
  bopen : ∀ (c : Nat), c < s.bc.next → s'.bc.closed c = false → s.bc.closed c = false ∧ s'.slot = s.slot
  ref : ∀ (r : PRef), refOK s r → refOK s' r

theorem fromRef_frame {s s' : St} {u : Nat} (F : Frame s s' u) (v : Nat) (e : Err) (h : fromRef s v e) :
    fromRef s' v e := by
  obtain ⟨r, h1, h2⟩ := h
  exact ⟨r, F.ref r h1, F.pub r _ h2⟩

theorem thOK_frame {s s' : St} {u : Nat} (F : Frame s s' u) (th : Th) (h : ThOK s u th) : ThOK s' u th := by
  unfold ThOK at h ⊢
  split
  · rename_i p v e hts
    simp only [hts] at h
    exact ⟨h.1, Nat.lt_of_lt_of_le h.2.1 F.plen, fun hw => h.2.2 (F.winU p hw)⟩
  · rename_i p v e hts
    simp only [hts] at h
    exact ⟨h.1, F.win p u h.2.1, by rw [F.pubU p h.2.1]; exact h.2.2⟩
  · rename_i p v e b hts
    simp only [hts] at h
    refine ⟨h.1, ?_⟩
    have h2 := h.2
    cases b with
    | true => simp only [if_true] at h2 ⊢; exact ⟨F.win p u h2.1, F.pub _ _ h2.2⟩
    | false =>
      simp only [Bool.false_eq_true, if_false] at h2 ⊢
      rcases h2 with ⟨w, h3, h4⟩ | h3
      · exact Or.inl ⟨w, F.win p w h3, h4⟩
      · exact Or.inr (F.bn p h3)
  · rename_i p v e b hts
    simp only [hts] at h
    refine ⟨h.1, ?_⟩
    have h2 := h.2
    cases b with
    | true => simp only [if_true] at h2 ⊢; exact ⟨F.win p u h2.1, F.pub _ _ h2.2⟩
    | false =>
      simp only [Bool.false_eq_true, if_false] at h2 ⊢
      rcases h2 with ⟨w, h3, h4⟩ | h3
      · exact Or.inl ⟨w, F.win p w h3, h4⟩
      · exact Or.inr (F.bn p h3)
  · rename_i p k hts
    simp only [hts] at h
    exact Nat.lt_of_lt_of_le h F.plen
  · rename_i p k v e hts
    simp only [hts] at h
    rcases h with h2 | h
    · exact Or.inl (F.pub _ _ h2)
    · exact Or.inr h
  · rename_i p k v e hts
    simp only [hts] at h
    rcases h with h2 | h
    · exact Or.inl (F.pub _ _ h2)
    · exact Or.inr h
  · rename_i k v e hts
    simp only [hts] at h
    rcases h with ⟨h1, h2⟩ | h
    · exact Or.inl ⟨h1, fromRef_frame F v e h2⟩
    · exact Or.inr h
  · rename_i k v e hts
    simp only [hts] at h
    rcases h with ⟨h1, h2⟩ | h
    · exact Or.inl ⟨h1, fromRef_frame F v e h2⟩
    · exact Or.inr h
  · rename_i p hts
    simp only [hts] at h
    cases p with
    | none => simp
    | some p => simp at h ⊢; exact F.nb p h
  · trivial
  · trivial
  · trivial
  · trivial
  · rename_i k c hts
    simp only [hts] at h
    refine ⟨Nat.lt_of_lt_of_le h.1 F.bnext, ?_⟩
    intro ho
    obtain ⟨h1, h2⟩ := F.bopen c h.1 ho
    rw [h2]; exact h.2 h1
  · rename_i k r c hts
    simp only [hts] at h
    refine ⟨Nat.lt_of_lt_of_le h.1 F.bnext, ?_, F.ref r h.2.2⟩
    intro ho
    obtain ⟨h1, h2⟩ := F.bopen c h.1 ho
    rw [h2]; exact h.2.1 h1
  · rename_i k c v hts
    simp only [hts] at h
    refine ⟨Nat.lt_of_lt_of_le h.1 F.bnext, ?_, fun hv => fromRef_frame F v _ (h.2.2 hv)⟩
    intro hv
    rcases h.2.1 hv with h1 | h1
    · exact Or.inl h1
    · exact Or.inr (F.bclosed c h1)
  · rename_i k c v hts
    simp only [hts] at h
    exact ⟨Nat.lt_of_lt_of_le h.1 F.bnext, fun hv => F.bclosed c (h.2.1 hv), fun hv => fromRef_frame F v _ (h.2.2 hv)⟩

end UtilModel.Promise

namespace UtilModel.Promise
open UtilModel

/-- `b` keeps whatever other parts of the state may rely on about a call in state `a` -/
def Stable (a b : TS) : Prop :=
  (∀ e, (a = .cRet (.res e) ∨ a = .cDone (.res e)) → (b = .cRet (.res e) ∨ b = .cDone (.res e))) ∧
  (∀ p w, isWinnerState p w a → isWinnerState p w b)

theorem refOK_set (s : St) (t : Nat) (th th' : Th) (ht : s.th[t]? = some th)
    (hst : Stable th.ts th'.ts) (proms : List Prom) (slot : Option PRef) (bc : Bcast)
    (hnb : ∀ p, notBorn s p = true →
      notBorn { proms := proms, slot := slot, bc := bc, th := s.th.set t th' } p = true)
    (r : PRef) (h : refOK s r) :
    refOK { proms := proms, slot := slot, bc := bc, th := s.th.set t th' } r := by
  cases r with
  | plain p => exact hnb p h
  | fixed u e =>
    obtain ⟨x, hx, hx2⟩ := h
    by_cases hut : u = t
    · subst hut; rw [ht] at hx; cases hx
      exact ⟨th', by simp [lt_of_getElem? ht], hst.1 e hx2⟩
    · exact ⟨x, by simp only; rw [getElem?_set_ne' _ _ _ _ (fun e => hut e.symm)]; exact hx, hx2⟩

theorem published_th (s : St) (th : List Th) (r : PRef) :
    published { s with th := th } r = published s r := by
  cases r <;> rfl

/-- a step that changes only the state of call `t` -/
theorem frame_local (s : St) (t : Nat) (th th' : Th) (ht : s.th[t]? = some th)
    (hst : Stable th.ts th'.ts) (u : Nat) : Frame s { s with th := s.th.set t th' } u where
  plen := Nat.le_refl _
  nb := fun _ h => h
  bn := fun _ h => h
  win := fun _ _ h => h
  winU := fun _ h => h
  pub := fun r x h => by rw [published_th]; exact h
  pubU := fun p _ => by rw [published_th]
  bnext := Nat.le_refl _
  bclosed := fun _ h => h
  bopen := fun _ _ h => ⟨h, rfl⟩
  ref := fun r h => refOK_set s t th th' ht hst s.proms s.slot s.bc (fun _ h => h) r h

theorem promOK_set (s : St) (t : Nat) (th th' : Th) (ht : s.th[t]? = some th)
    (hst : Stable th.ts th'.ts) (proms : List Prom) (slot : Option PRef) (bc : Bcast)
    (p : Nat) (pr : Prom) (h : PromOK s p pr) :
    PromOK { proms := proms, slot := slot, bc := bc, th := s.th.set t th' } p pr := by
  refine ⟨h.1, h.2.1, ?_⟩
  intro w hw
  obtain ⟨x, hx, hx2⟩ := h.2.2 w hw
  by_cases hwt : w = t
  · subst hwt; rw [ht] at hx; cases hx
    exact ⟨th', by simp [lt_of_getElem? ht], hst.2 p w hx2⟩
  · exact ⟨x, by simp only; rw [getElem?_set_ne' _ _ _ _ (fun e => hwt e.symm)]; exact hx, hx2⟩

theorem inv_local (s : St) (t : Nat) (th th' : Th) (hi : Inv s) (ht : s.th[t]? = some th)
    (hst : Stable th.ts th'.ts) (hok : ThOK s t th') : Inv { s with th := s.th.set t th' } := by
  refine ⟨hi.bcwf, ?_, ?_, ?_⟩
  · intro u x hu
    simp only at hu
    rcases getElem?_set_cases s.th t u th' x hu with ⟨rfl, rfl⟩ | ⟨_, hx⟩
    · exact thOK_frame (frame_local s u th x ht hst u) x hok
    · exact thOK_frame (frame_local s t th th' ht hst u) x (hi.th u x hx)
  · intro p pr hp
    exact promOK_set s t th th' ht hst s.proms s.slot s.bc p pr (hi.pr p pr hp)
  · intro r hr
    exact refOK_set s t th th' ht hst s.proms s.slot s.bc (fun _ h => h) r (hi.slot r hr)

/-- stability is automatic when the old state is neither a finished container `SetResult` nor a
winning `SetResult` -/
theorem stable_of_plain (a b : TS) (h1 : ∀ w, a ≠ .cRet w) (h2 : ∀ w, a ≠ .cDone w)
    (h3 : ∀ p v e, a ≠ .setWon p v e) (h4 : ∀ p v e b, a ≠ .setRet p v e b)
    (h5 : ∀ p v e b, a ≠ .setDone p v e b) : Stable a b := by
  constructor
  · intro e h; rcases h with h | h
    · exact absurd h (h1 _)
    · exact absurd h (h2 _)
  · intro p w h
    rcases h with ⟨e, h⟩ | ⟨e, h⟩ | ⟨e, h⟩
    · exact absurd h (h3 _ _ _)
    · exact absurd h (h4 _ _ _ _)
    · exact absurd h (h5 _ _ _ _)

end UtilModel.Promise

namespace UtilModel.Promise
open UtilModel

theorem usrPlain_zero (k : AK) (f : Option Fire) (v : Nat) (e : Err) (h : usrPlain k f = some (v, e)) : v = 0 := by
  unfold usrPlain at h; split at h <;> simp at h <;> exact h.1.symm

theorem usrNil_zero (k : AK) (f : Option Fire) (v : Nat) (e : Err) (h : usrNil k f = some (v, e)) : v = 0 := by
  unfold usrNil at h; split at h <;> simp at h <;> exact h.1.symm

@[simp] theorem usrPlain_none (k : AK) : usrPlain k none = none := by cases k <;> rfl
@[simp] theorem usrNil_none (k : AK) : usrNil k none = none := by cases k <;> rfl

/-- the published result of a promise that was not constructed pre-resolved has a positive value
(values are call ids + 1) -/
theorem published_pos (s : St) (hi : Inv s) (r : PRef) (v : Nat) (e : Err) (hr : refOK s r)
    (h : published s r = some (v, e)) : 1 ≤ v := by
  cases r with
  | plain p =>
    simp only [published] at h
    simp only [refOK, notBorn] at hr
    cases hp : s.proms[p]? with
    | none => simp [hp] at h
    | some pr =>
      simp [hp] at h hr
      exact ((hi.pr p pr hp).1 v e h hr).2
  | fixed u e' => simp [published] at h; omega

/-- environment actions on call `t` (context cancelled, own channel fired for the first time) -/
theorem thOK_env (s : St) (t : Nat) (th th' : Th) (h : ThOK s t th) (hts : th'.ts = th.ts)
    (hcx : th.cx = true → th'.cx = true) (hch : th.ch = none ∨ th'.ch = th.ch) : ThOK s t th' := by
  unfold ThOK at h ⊢
  rw [hts]
  split <;> rename_i hx <;> simp only [hx] at h
  · exact h
  · exact h
  · exact h
  · exact h
  · exact h
  · rcases h with h | ⟨h1, h2 | h2⟩
    · exact Or.inl h
    · exact Or.inr ⟨h1, Or.inl ⟨h2.1, hcx h2.2⟩⟩
    · rcases hch with hc | hc
      · rw [hc] at h2; simp at h2
      · rw [hc]; exact Or.inr ⟨h1, Or.inr h2⟩
  · rcases h with h | ⟨h1, h2 | h2⟩
    · exact Or.inl h
    · exact Or.inr ⟨h1, Or.inl ⟨h2.1, hcx h2.2⟩⟩
    · rcases hch with hc | hc
      · rw [hc] at h2; simp at h2
      · rw [hc]; exact Or.inr ⟨h1, Or.inr h2⟩
  · rcases h with h | ⟨h1, h2 | h2⟩
    · exact Or.inl h
    · exact Or.inr ⟨h1, Or.inl ⟨h2.1, hcx h2.2⟩⟩
    · rcases hch with hc | hc
      · rw [hc] at h2; simp at h2
      · rw [hc]; exact Or.inr ⟨h1, Or.inr h2⟩
  · rcases h with h | ⟨h1, h2 | h2⟩
    · exact Or.inl h
    · exact Or.inr ⟨h1, Or.inl ⟨h2.1, hcx h2.2⟩⟩
    · rcases hch with hc | hc
      · rw [hc] at h2; simp at h2
      · rw [hc]; exact Or.inr ⟨h1, Or.inr h2⟩
  · exact h
  · trivial
  · trivial
  · trivial
  · trivial
  · exact h
  · exact h
  · refine ⟨h.1, ?_, h.2.2⟩
    intro hv
    rcases h.2.1 hv with h1 | h1
    · exact Or.inl (hcx h1)
    · exact Or.inr h1
  · exact h

theorem stable_refl (a : TS) : Stable a a := ⟨fun _ h => h, fun _ _ h => h⟩

/-- appending a new call -/
theorem frame_append (s : St) (nt : Th) (u : Nat) : Frame s { s with th := s.th ++ [nt] } u where
  plen := Nat.le_refl _
  nb := fun _ h => h
  bn := fun _ h => h
  win := fun _ _ h => h
  winU := fun _ h => h
  pub := fun r x h => by rw [published_th]; exact h
  pubU := fun p _ => by rw [published_th]
  bnext := Nat.le_refl _
  bclosed := fun _ h => h
  bopen := fun _ _ h => ⟨h, rfl⟩
  ref := fun r h => by
    cases r with
    | plain p => exact h
    | fixed w e =>
      obtain ⟨x, hx, hx2⟩ := h
      exact ⟨x, getElem?_snoc_left _ _ _ _ hx, hx2⟩

theorem inv_append (s : St) (nt : Th) (hi : Inv s) (hok : ThOK s s.th.length nt) :
    Inv { s with th := s.th ++ [nt] } := by
  refine ⟨hi.bcwf, ?_, ?_, ?_⟩
  · intro u x hu
    simp only at hu
    rcases getElem?_snoc_cases _ _ _ _ hu with ⟨_, hx⟩ | ⟨rfl, rfl⟩
    · exact thOK_frame (frame_append s nt u) x (hi.th u x hx)
    · exact thOK_frame (frame_append s x s.th.length) x hok
  · intro p pr hp
    obtain ⟨h1, h1b, h2⟩ := hi.pr p pr hp
    refine ⟨h1, h1b, ?_⟩
    intro w hw
    obtain ⟨x, hx, hx2⟩ := h2 w hw
    exact ⟨x, getElem?_snoc_left _ _ _ _ hx, hx2⟩
  · intro r hr
    exact (frame_append s nt 0).ref r (hi.slot r hr)

end UtilModel.Promise
