import UtilModel.Core.Driver
import UtilModel.Core.DriverH
import UtilModel.Promise.Model
import UtilModel.Promise.Monitors
/-! Development driver for this component only: `lake env lean --run UtilModel/Promise/TestDriver.lean promise < hist` -/
open UtilModel

def main (args : List String) : IO UInt32 :=
  driverMain [
    mkEntryH "promise" Promise.model Promise.Obs.parse Promise.promiseMons
  ] args
