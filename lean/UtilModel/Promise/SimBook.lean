import UtilModel.Promise.Props
import UtilModel.Promise.Monitors
/-!
# promise — the monitors' bookkeeping follows the model (part 1: kinds, flags, known results)
-/
namespace UtilModel.Promise
open UtilModel

/-- the kind of call a program counter belongs to -/
def kindOf : TS → CK
  | .setInv p _ e | .setWon p _ e | .setRet p _ e _ | .setDone p _ e _ => .set p e
  | .awWait p k => .await p k
  | .awRet (some p) k _ _ | .awDone (some p) k _ _ => .await p k
  | .awRet none k _ _ | .awDone none k _ _ => .cawait k
  | .cWInv (.setp p) | .cRet (.setp p) | .cDone (.setp p) => .csetp p
  | .cWInv (.res e) | .cRet (.res e) | .cDone (.res e) => .cres e
  | .cHead k | .cNil k _ | .cInner k _ _ | .cChk1 k _ _ | .cChk2 k _ _ => .cawait k

def TS.isDone : TS → Bool
  | .setDone .. | .awDone .. | .cDone _ => true
  | _ => false

structure KRel (th : Th) (c : Call) : Prop where
  kind : c.kind = kindOf th.ts
  cx : c.cx = th.cx
  ch : c.ch = th.ch
  ret : c.ret = th.ts.isDone

/-- part 1 of the bookkeeping relation -/
structure RK (s : St) (b : Book) : Prop where
  len : b.calls.length = s.th.length
  call : ∀ (t : Nat) (th : Th) (c : Call), s.th[t]? = some th → b.calls[t]? = some c → KRel th c
  pub : ∀ p, p ∈ b.pubP → (published s (.plain p)).isSome = true
  born : ∀ (p : Nat) (pr : Prom), s.proms[p]? = some pr → pr.born = true →
    ∃ e, pr.res = some (0, e) ∧ (p, e) ∈ b.bornP

/-! ### how `Book.update` acts on the table of calls -/

theorem modify_len (b : Book) (t : Nat) (f : Call → Call) : (b.modify t f).calls.length = b.calls.length := by
  unfold Book.modify; split <;> simp

theorem modify_get_self (b : Book) (t : Nat) (f : Call → Call) (c : Call) (h : b.calls[t]? = some c) :
    (b.modify t f).calls[t]? = some (f c) := by
  unfold Book.modify; rw [h]; simp [lt_of_getElem? h]

theorem modify_get_ne (b : Book) (t u : Nat) (f : Call → Call) (h : u ≠ t) :
    (b.modify t f).calls[u]? = b.calls[u]? := by
  unfold Book.modify; split
  · simp [List.getElem?_set, Ne.symm h]
  · rfl

theorem modify_other (b : Book) (t : Nat) (f : Call → Call) :
    (b.modify t f).pubP = b.pubP ∧ (b.modify t f).initDead = b.initDead ∧ (b.modify t f).nproms = b.nproms := by
  unfold Book.modify; split <;> simp

theorem modify_bornP (b : Book) (t : Nat) (f : Call → Call) : (b.modify t f).bornP = b.bornP := by
  unfold Book.modify; split <;> rfl

theorem markDead_len (b : Book) (ds : List Nat) : (b.markDead ds).calls.length = b.calls.length := by
  simp [Book.markDead]

theorem markDead_get (b : Book) (ds : List Nat) (u : Nat) :
    (b.markDead ds).calls[u]? = (b.calls[u]?).map fun c => if ds.contains u then { c with dead := true } else c := by
  simp [Book.markDead, List.getElem?_mapIdx]

def resetOne (b : Book) (B : List Nat) (u : Nat) (c : Call) : Call :=
  match c.kind with
  | .cawait _ => if B.contains u then { c with seen := b.candidates } else c
  | _ => c

theorem resetSeen_len (b : Book) (B : List Nat) : (b.resetSeen B).calls.length = b.calls.length := by
  simp [Book.resetSeen]

theorem resetSeen_get (b : Book) (B : List Nat) (u : Nat) :
    (b.resetSeen B).calls[u]? = (b.calls[u]?).map (resetOne b B u) := by
  simp only [Book.resetSeen, List.getElem?_mapIdx]
  cases b.calls[u]? <;> rfl

theorem resetOne_core (b : Book) (B : List Nat) (u : Nat) (c : Call) :
    (resetOne b B u c).kind = c.kind ∧ (resetOne b B u c).cx = c.cx ∧ (resetOne b B u c).ch = c.ch ∧
    (resetOne b B u c).ret = c.ret ∧ (resetOne b B u c).dead = c.dead ∧ (resetOne b B u c).preds = c.preds := by
  unfold resetOne; split
  · split <;> simp
  · simp

def addSeen (tgt : Option PRef) (a : Call) : Call :=
  match a.kind with
  | .cawait _ => if a.ret then a else { a with seen := tgt :: a.seen }
  | _ => a

theorem addWriter_calls (b : Book) (c : Call) (tgt : Option PRef) :
    (b.addWriter c tgt).calls = b.calls.map (addSeen tgt) ++ [{ c with preds := b.returnedWriters }] := by
  simp only [Book.addWriter]
  congr 1

theorem addWriter_len (b : Book) (c : Call) (tgt : Option PRef) :
    (b.addWriter c tgt).calls.length = b.calls.length + 1 := by
  rw [addWriter_calls]; simp

theorem addWriter_get_lt (b : Book) (c : Call) (tgt : Option PRef) (u : Nat) (h : u < b.calls.length) :
    (b.addWriter c tgt).calls[u]? = (b.calls[u]?).map (addSeen tgt) := by
  rw [addWriter_calls, List.getElem?_append_left (by simpa using h)]
  simp

theorem addWriter_get_last (b : Book) (c : Call) (tgt : Option PRef) :
    (b.addWriter c tgt).calls[b.calls.length]? = some { c with preds := b.returnedWriters } := by
  rw [addWriter_calls, List.getElem?_append_right (by simp)]
  simp

theorem addSeen_core (tgt : Option PRef) (a : Call) :
    (addSeen tgt a).kind = a.kind ∧ (addSeen tgt a).cx = a.cx ∧ (addSeen tgt a).ch = a.ch ∧
    (addSeen tgt a).ret = a.ret ∧ (addSeen tgt a).dead = a.dead ∧ (addSeen tgt a).preds = a.preds := by
  unfold addSeen; split
  · split <;> simp
  · simp

theorem krel_addSeen (th : Th) (c : Call) (tgt : Option PRef) (h : KRel th c) : KRel th (addSeen tgt c) := by
  obtain ⟨h1, h2, h3, h4, _, _⟩ := addSeen_core tgt c
  exact ⟨by rw [h1]; exact h.kind, by rw [h2]; exact h.cx, by rw [h3]; exact h.ch, by rw [h4]; exact h.ret⟩

/-- the relation after a model step that changes only call `t`'s program counter between two
program counters of the same kind and doneness, with the monitor untouched -/
theorem rk_local (s : St) (b : Book) (h : RK s b) (t : Nat) (th : Th) (ts : TS) (ht : s.th[t]? = some th)
    (hk : kindOf ts = kindOf th.ts) (hd : ts.isDone = th.ts.isDone) :
    RK (setTs s t th ts) b := by
  refine ⟨by simp [setTs, h.len], ?_, ?_, h.born⟩
  · intro u x c hu hc
    simp only [setTs] at hu
    rcases getElem?_set_cases s.th t u _ x hu with ⟨rfl, rfl⟩ | ⟨_, hx⟩
    · have := h.call u th c ht hc
      exact ⟨by rw [this.kind]; exact hk.symm, this.cx, this.ch, by rw [this.ret]; exact hd.symm⟩
    · exact h.call u x c hx hc
  · intro p hp
    have := h.pub p hp
    simpa [published, setTs] using this

end UtilModel.Promise

namespace UtilModel.Promise
open UtilModel

/-- a published result stays published, whatever happens -/
theorem published_mono_step (s s' : St) (e : Ev) (hi : Inv s) (hs : step s e = some s') (r : PRef) (x : Nat × Err)
    (h : published s r = some x) : published s' r = some x := by
  cases r with
  | fixed u e' => exact h
  | plain p =>
    have hi' := step_inv s e s' hi hs
    -- use the frame of any unrelated call index: take the generic argument through `thOK_frame`
    -- directly by cases on the events that touch `proms`
    cases e with
    | newp q =>
      simp only [step] at hs; split at hs <;> simp at hs; subst hs
      exact published_proms_append s _ _ x h
    | swap t =>
      simp only [step] at hs
      split at hs <;> try simp at hs
      rename_i th ht
      split at hs <;> try simp at hs
      rename_i q v e' hts
      split at hs <;> try simp at hs
      rename_i pr hq
      split at hs <;> simp at hs <;> subst hs
      · simpa [published, setTs] using h
      · by_cases hpq : p = q
        · subst hpq
          have hl := lt_of_getElem? hq
          simp only [published, hq] at h
          simp [published, setTs, hl, h]
        · simp only [setTs]; rw [published_set_ne s q p _ _ hpq]; exact h
    | publish t =>
      simp only [step] at hs
      split at hs <;> try simp at hs
      rename_i th ht
      split at hs <;> try simp at hs
      rename_i q v e' hts
      split at hs <;> simp at hs
      rename_i pr hq
      subst hs
      by_cases hpq : p = q
      · subst hpq
        have hok := hi.th t th ht
        simp only [ThOK, hts] at hok
        rw [hok.2.2] at h; cases h
      · simp only [setTs]; rw [published_set_ne s q p _ _ hpq]; exact h
    | newpe q e' =>
      simp only [step] at hs; split at hs <;> simp at hs; subst hs
      exact published_proms_append s _ _ x h
    | checkLike c ok => simp only [step] at hs; split at hs <;> simp at hs; subst hs; exact h
    | invSet t q v e' => simp only [step] at hs; split at hs <;> simp at hs; subst hs; exact h
    | invAwait t q k => simp only [step] at hs; split at hs <;> simp at hs; subst hs; exact h
    | invCSetP t q => simp only [step] at hs; split at hs <;> simp at hs; subst hs; exact h
    | invCRes t v e' => simp only [step] at hs; split at hs <;> simp at hs; subst hs; exact h
    | invCAwait t k => simp only [step] at hs; split at hs <;> simp at hs; subst hs; exact h
    | quiesce bb B => simp only [step] at hs; split at hs <;> simp at hs; subst hs; exact h
    | envCancel t =>
      simp only [step] at hs; split at hs <;> simp at hs; subst hs; exact h
    | envFire t f =>
      simp only [step] at hs; split at hs <;> try simp at hs
      obtain ⟨_, rfl⟩ := hs; exact h
    | retSet t bb =>
      simp only [step] at hs
      split at hs <;> try simp at hs
      split at hs <;> try simp at hs
      obtain ⟨_, rfl⟩ := hs; exact h
    | retAwait t v e' =>
      simp only [step] at hs
      split at hs <;> try simp at hs
      split at hs <;> try simp at hs
      obtain ⟨_, rfl⟩ := hs; exact h
    | retCSetP t =>
      simp only [step] at hs
      split at hs <;> try simp at hs
      split at hs <;> try simp at hs
      subst hs; exact h
    | retCRes t =>
      simp only [step] at hs
      split at hs <;> try simp at hs
      split at hs <;> try simp at hs
      subst hs; exact h
    | awSel t br =>
      simp only [step] at hs
      split at hs <;> try simp at hs
      split at hs <;> try simp at hs
      cases br <;> (try simp only at hs) <;> (try split at hs) <;> simp at hs <;> subst hs <;> exact h
    | cWCS t =>
      simp only [step] at hs
      split at hs <;> try simp at hs
      split at hs <;> try simp at hs
      · split at hs <;> simp at hs <;> subst hs <;> exact h
      · subst hs; exact h
    | cSample t =>
      simp only [step] at hs
      split at hs <;> try simp at hs
      split at hs <;> try simp at hs
      split at hs <;> simp at hs <;> subst hs <;> exact h
    | cNilSel t br =>
      simp only [step] at hs
      split at hs <;> try simp at hs
      split at hs <;> try simp at hs
      cases br <;> (try simp only at hs) <;> (try split at hs) <;> simp at hs
      · subst hs; exact h
      · subst hs; exact h
      · subst hs; exact h
    | cInnerSel t br =>
      simp only [step] at hs
      split at hs <;> try simp at hs
      split at hs <;> try simp at hs
      cases br <;> (try simp only at hs) <;> (try split at hs) <;> simp at hs <;> subst hs <;> exact h
    | cChk1 t =>
      simp only [step] at hs
      split at hs <;> try simp at hs
      split at hs <;> try simp at hs
      split at hs <;> simp at hs <;> subst hs <;> exact h
    | cChk2 t =>
      simp only [step] at hs
      split at hs <;> try simp at hs
      split at hs <;> try simp at hs
      split at hs <;> simp at hs <;> subst hs <;> exact h

end UtilModel.Promise

namespace UtilModel.Promise
open UtilModel

/-- where a promise entry that was constructed pre-resolved comes from: it was there before,
unchanged, or this step is its construction -/
theorem born_entry_back (s s' : St) (e : Ev) (hi : Inv s) (hs : step s e = some s') (p : Nat) (pr' : Prom)
    (hq : s'.proms[p]? = some pr') (hb : pr'.born = true) :
    s.proms[p]? = some pr' ∨ (∃ e0, e = .newpe p e0 ∧ pr'.res = some (0, e0)) := by
  cases e with
  | newp q =>
    simp only [step] at hs; split at hs <;> simp at hs; subst hs
    rcases getElem?_snoc_cases _ _ _ _ hq with ⟨_, hx⟩ | ⟨_, rfl⟩
    · exact Or.inl hx
    · cases hb
  | newpe q e0 =>
    simp only [step] at hs; split at hs <;> simp at hs
    rename_i hql
    subst hs
    rcases getElem?_snoc_cases _ _ _ _ hq with ⟨_, hx⟩ | ⟨hpl, rfl⟩
    · exact Or.inl hx
    · exact Or.inr ⟨e0, by rw [hql, hpl], rfl⟩
  | checkLike c ok => simp only [step] at hs; split at hs <;> simp at hs; subst hs; exact Or.inl hq
  | swap t =>
    simp only [step] at hs
    split at hs <;> try simp at hs
    split at hs <;> try simp at hs
    rename_i q v e' hts
    split at hs <;> try simp at hs
    rename_i pr hqq
    split at hs <;> simp at hs <;> subst hs
    · exact Or.inl hq
    · rename_i hw
      simp only [setTs] at hq
      rcases getElem?_set_cases s.proms q p _ pr' hq with ⟨_, rfl⟩ | ⟨_, hx⟩
      · simp at hb; simp [hb] at hw
      · exact Or.inl hx
  | publish t =>
    simp only [step] at hs
    split at hs <;> try simp at hs
    rename_i th ht
    split at hs <;> try simp at hs
    rename_i q v e' hts
    split at hs <;> simp at hs
    rename_i pr hqq
    subst hs
    simp only [setTs] at hq
    rcases getElem?_set_cases s.proms q p _ pr' hq with ⟨_, rfl⟩ | ⟨_, hx⟩
    · exfalso
      simp at hb
      have hok := hi.th t th ht
      simp only [ThOK, hts] at hok
      have hw := hok.2.1
      simp [winnerOf, hqq] at hw
      have := ((hi.pr q pr hqq).2.1 hb).1
      rw [hw] at this; cases this
    · exact Or.inl hx
  | invSet t q v e' => simp only [step] at hs; split at hs <;> simp at hs; subst hs; exact Or.inl hq
  | invAwait t q k => simp only [step] at hs; split at hs <;> simp at hs; subst hs; exact Or.inl hq
  | invCSetP t q => simp only [step] at hs; split at hs <;> simp at hs; subst hs; exact Or.inl hq
  | invCRes t v e' => simp only [step] at hs; split at hs <;> simp at hs; subst hs; exact Or.inl hq
  | invCAwait t k => simp only [step] at hs; split at hs <;> simp at hs; subst hs; exact Or.inl hq
  | quiesce bb B => simp only [step] at hs; split at hs <;> simp at hs; subst hs; exact Or.inl hq
  | envCancel t => simp only [step] at hs; split at hs <;> simp at hs; subst hs; exact Or.inl hq
  | envFire t f =>
    simp only [step] at hs; split at hs <;> try simp at hs
    obtain ⟨_, rfl⟩ := hs; exact Or.inl hq
  | retSet t bb =>
    simp only [step] at hs
    split at hs <;> try simp at hs
    split at hs <;> try simp at hs
    obtain ⟨_, rfl⟩ := hs; exact Or.inl hq
  | retAwait t v e' =>
    simp only [step] at hs
    split at hs <;> try simp at hs
    split at hs <;> try simp at hs
    obtain ⟨_, rfl⟩ := hs; exact Or.inl hq
  | retCSetP t =>
    simp only [step] at hs
    split at hs <;> try simp at hs
    split at hs <;> try simp at hs
    subst hs; exact Or.inl hq
  | retCRes t =>
    simp only [step] at hs
    split at hs <;> try simp at hs
    split at hs <;> try simp at hs
    subst hs; exact Or.inl hq
  | awSel t br =>
    simp only [step] at hs
    split at hs <;> try simp at hs
    split at hs <;> try simp at hs
    cases br <;> (try simp only at hs) <;> (try split at hs) <;> simp at hs <;> subst hs <;> exact Or.inl hq
  | cWCS t =>
    simp only [step] at hs
    split at hs <;> try simp at hs
    split at hs <;> try simp at hs
    · split at hs <;> simp at hs <;> subst hs <;> exact Or.inl hq
    · subst hs; exact Or.inl hq
  | cSample t =>
    simp only [step] at hs
    split at hs <;> try simp at hs
    split at hs <;> try simp at hs
    split at hs <;> simp at hs <;> subst hs <;> exact Or.inl hq
  | cNilSel t br =>
    simp only [step] at hs
    split at hs <;> try simp at hs
    split at hs <;> try simp at hs
    cases br <;> (try simp only at hs) <;> (try split at hs) <;> simp at hs
    · subst hs; exact Or.inl hq
    · subst hs; exact Or.inl hq
    · subst hs; exact Or.inl hq
  | cInnerSel t br =>
    simp only [step] at hs
    split at hs <;> try simp at hs
    split at hs <;> try simp at hs
    cases br <;> (try simp only at hs) <;> (try split at hs) <;> simp at hs <;> subst hs <;> exact Or.inl hq
  | cChk1 t =>
    simp only [step] at hs
    split at hs <;> try simp at hs
    split at hs <;> try simp at hs
    split at hs <;> simp at hs <;> subst hs <;> exact Or.inl hq
  | cChk2 t =>
    simp only [step] at hs
    split at hs <;> try simp at hs
    split at hs <;> try simp at hs
    split at hs <;> simp at hs <;> subst hs <;> exact Or.inl hq

/-- the `born` part of the bookkeeping relation follows every step on which the monitor's list of
born promises does not shrink (and grows at a construction) -/
theorem rk_born_step (s s' : St) (e : Ev) (b b' : Book) (hi : Inv s) (h : RK s b) (hs : step s e = some s')
    (hsub : ∀ x, x ∈ b.bornP → x ∈ b'.bornP)
    (hnew : ∀ p e0, e = .newpe p e0 → (p, e0) ∈ b'.bornP) :
    ∀ (p : Nat) (pr : Prom), s'.proms[p]? = some pr → pr.born = true →
      ∃ e, pr.res = some (0, e) ∧ (p, e) ∈ b'.bornP := by
  intro p pr hq hb
  rcases born_entry_back s s' e hi hs p pr hq hb with h0 | ⟨e0, he, hr⟩
  · obtain ⟨e1, h1, h2⟩ := h.born p pr h0 hb
    exact ⟨e1, h1, hsub _ h2⟩
  · exact ⟨e0, hr, hnew p e0 he⟩

/-- what an internal step does to the table of calls: one call moves to another program counter of
the same kind; neither is a finished call -/
theorem internal_shape (s s' : St) (e : Ev) (hs : step s e = some s') (ho : e.obs = none) :
    ∃ (t : Nat) (th : Th) (ts : TS), e.thread = some t ∧ s.th[t]? = some th ∧
      s'.th = s.th.set t { th with ts := ts } ∧ kindOf ts = kindOf th.ts ∧
      ts.isDone = false ∧ th.ts.isDone = false := by
  cases e with
  | swap t =>
    simp only [step] at hs
    split at hs <;> try simp at hs
    rename_i th ht
    split at hs <;> try simp at hs
    rename_i q v e' hts
    split at hs <;> try simp at hs
    split at hs <;> simp at hs <;> subst hs
    · exact ⟨t, th, _, rfl, ht, rfl, by simp [kindOf, hts], rfl, by simp [hts, TS.isDone]⟩
    · exact ⟨t, th, _, rfl, ht, rfl, by simp [kindOf, hts], rfl, by simp [hts, TS.isDone]⟩
  | publish t =>
    simp only [step] at hs
    split at hs <;> try simp at hs
    rename_i th ht
    split at hs <;> try simp at hs
    rename_i q v e' hts
    split at hs <;> simp at hs
    subst hs
    exact ⟨t, th, _, rfl, ht, rfl, by simp [kindOf, hts], rfl, by simp [hts, TS.isDone]⟩
  | awSel t br =>
    simp only [step] at hs
    split at hs <;> try simp at hs
    rename_i th ht
    split at hs <;> try simp at hs
    rename_i p k hts
    cases br <;> (try simp only at hs) <;> (try split at hs) <;> simp at hs <;> subst hs <;>
      exact ⟨t, th, _, rfl, ht, rfl, by simp [kindOf, hts], rfl, by simp [hts, TS.isDone]⟩
  | cWCS t =>
    simp only [step] at hs
    split at hs <;> try simp at hs
    rename_i th ht
    split at hs <;> try simp at hs
    · rename_i p hts
      split at hs <;> simp at hs <;> subst hs <;>
        exact ⟨t, th, _, rfl, ht, rfl, by simp [kindOf, hts], rfl, by simp [hts, TS.isDone]⟩
    · rename_i e' hts
      subst hs
      exact ⟨t, th, _, rfl, ht, rfl, by simp [kindOf, hts], rfl, by simp [hts, TS.isDone]⟩
  | cSample t =>
    simp only [step] at hs
    split at hs <;> try simp at hs
    rename_i th ht
    split at hs <;> try simp at hs
    rename_i k hts
    split at hs <;> simp at hs <;> subst hs <;>
      exact ⟨t, th, _, rfl, ht, rfl, by simp [kindOf, hts], rfl, by simp [hts, TS.isDone]⟩
  | cNilSel t br =>
    simp only [step] at hs
    split at hs <;> try simp at hs
    rename_i th ht
    split at hs <;> try simp at hs
    rename_i k c hts
    cases br <;> (try simp only at hs) <;> (try split at hs) <;> simp at hs
    · subst hs; exact ⟨t, th, _, rfl, ht, rfl, by simp [kindOf, hts], rfl, by simp [hts, TS.isDone]⟩
    · subst hs; exact ⟨t, th, _, rfl, ht, rfl, by simp [kindOf, hts], rfl, by simp [hts, TS.isDone]⟩
    · subst hs; exact ⟨t, th, _, rfl, ht, rfl, by simp [kindOf, hts], rfl, by simp [hts, TS.isDone]⟩
  | cInnerSel t br =>
    simp only [step] at hs
    split at hs <;> try simp at hs
    rename_i th ht
    split at hs <;> try simp at hs
    rename_i k r c hts
    cases br <;> (try simp only at hs) <;> (try split at hs) <;> simp at hs <;> subst hs <;>
      exact ⟨t, th, _, rfl, ht, rfl, by simp [kindOf, hts], rfl, by simp [hts, TS.isDone]⟩
  | cChk1 t =>
    simp only [step] at hs
    split at hs <;> try simp at hs
    rename_i th ht
    split at hs <;> try simp at hs
    rename_i k c v hts
    split at hs <;> simp at hs <;> subst hs <;>
      exact ⟨t, th, _, rfl, ht, rfl, by simp [kindOf, hts], rfl, by simp [hts, TS.isDone]⟩
  | cChk2 t =>
    simp only [step] at hs
    split at hs <;> try simp at hs
    rename_i th ht
    split at hs <;> try simp at hs
    rename_i k c v hts
    split at hs <;> simp at hs <;> subst hs <;>
      exact ⟨t, th, _, rfl, ht, rfl, by simp [kindOf, hts], rfl, by simp [hts, TS.isDone]⟩
  | _ => simp [Ev.obs] at ho

theorem rk_internal (s s' : St) (e : Ev) (b : Book) (hi : Inv s) (h : RK s b)
    (hs : step s e = some s') (ho : e.obs = none) : RK s' b := by
  obtain ⟨t, th, ts, _, ht, hth, hk, hd1, hd2⟩ := internal_shape s s' e hs ho
  refine ⟨by rw [hth]; simp [h.len], ?_, ?_,
    rk_born_step s s' e b b hi h hs (fun _ hx => hx) (by intro p e0 he; subst he; simp [Ev.obs] at ho)⟩
  · intro u x c hu hc
    rw [hth] at hu
    rcases getElem?_set_cases s.th t u _ x hu with ⟨rfl, rfl⟩ | ⟨_, hx⟩
    · have := h.call u th c ht hc
      exact ⟨by rw [this.kind]; exact hk.symm, this.cx, this.ch, by rw [this.ret, hd2]; exact hd1.symm⟩
    · exact h.call u x c hx hc
  · intro p hp
    have := h.pub p hp
    cases hpp : published s (.plain p) with
    | none => simp [hpp] at this
    | some x => rw [published_mono_step s s' e hi hs _ x hpp]; rfl

end UtilModel.Promise

namespace UtilModel.Promise
open UtilModel

theorem rk_congr (s s' : St) (b b' : Book) (h : RK s b) (hth : s'.th = s.th) (hc : b'.calls = b.calls)
    (hp : b'.pubP = b.pubP)
    (hm : ∀ p x, published s (.plain p) = some x → published s' (.plain p) = some x)
    (hb : ∀ (p : Nat) (pr : Prom), s'.proms[p]? = some pr → pr.born = true →
      ∃ e, pr.res = some (0, e) ∧ (p, e) ∈ b'.bornP) : RK s' b' := by
  refine ⟨by rw [hc, hth]; exact h.len, ?_, ?_, hb⟩
  · intro u x c hu hcu; rw [hth] at hu; rw [hc] at hcu; exact h.call u x c hu hcu
  · intro p hpp
    rw [hp] at hpp
    have := h.pub p hpp
    cases hq : published s (.plain p) with
    | none => simp [hq] at this
    | some x => rw [hm p x hq]; rfl

theorem rk_pub (s : St) (b : Book) (h : RK s b) (p : Nat) (hp : (published s (.plain p)).isSome = true) :
    RK s { b with pubP := p :: b.pubP } := by
  refine ⟨h.len, h.call, ?_, h.born⟩
  intro q hq
  simp only [List.mem_cons] at hq
  rcases hq with rfl | hq
  · exact hp
  · exact h.pub q hq

theorem rk_append (s : St) (b : Book) (h : RK s b) (nt : Th) (nc : Call) (hk : KRel nt nc) :
    RK { s with th := s.th ++ [nt] } { b with calls := b.calls ++ [nc] } := by
  refine ⟨by simp [h.len], ?_, ?_, h.born⟩
  · intro u x c hu hc
    simp only at hu hc
    rcases getElem?_snoc_cases _ _ _ _ hu with ⟨hul, hx⟩ | ⟨hul, rfl⟩
    · rcases getElem?_snoc_cases _ _ _ _ hc with ⟨_, hy⟩ | ⟨hcl, _⟩
      · exact h.call u x c hx hy
      · have := h.len; omega
    · rcases getElem?_snoc_cases _ _ _ _ hc with ⟨hcl, _⟩ | ⟨_, rfl⟩
      · have := h.len; omega
      · exact hk
  · intro p hp; have := h.pub p hp; simpa [published] using this

theorem rk_modify (s : St) (b : Book) (h : RK s b) (t : Nat) (th th' : Th) (f : Call → Call)
    (ht : s.th[t]? = some th) (hf : ∀ c, KRel th c → KRel th' (f c)) :
    RK { s with th := s.th.set t th' } (b.modify t f) := by
  refine ⟨by simp [modify_len, h.len], ?_, ?_, by rw [modify_bornP]; exact h.born⟩
  · intro u x c hu hc
    simp only at hu
    rcases getElem?_set_cases s.th t u _ x hu with ⟨rfl, rfl⟩ | ⟨hne, hx⟩
    · have hl : u < b.calls.length := by rw [h.len]; exact lt_of_getElem? ht
      obtain ⟨c0, hc0⟩ : ∃ c0, b.calls[u]? = some c0 := ⟨b.calls[u], by simp⟩
      rw [modify_get_self b u f c0 hc0] at hc; cases hc
      exact hf c0 (h.call u th c0 ht hc0)
    · rw [modify_get_ne b t u f hne] at hc
      exact h.call u x c hx hc
  · intro p hp
    rw [(modify_other b t f).1] at hp
    have := h.pub p hp; simpa [published] using this

theorem rk_markDead (s : St) (b : Book) (h : RK s b) (ds : List Nat) (idd : Bool) :
    RK s { b.markDead ds with initDead := idd } := by
  refine ⟨by simp [markDead_len, h.len], ?_, ?_, h.born⟩
  · intro u x c hu hc
    simp only at hc
    rw [markDead_get] at hc
    cases hcu : b.calls[u]? with
    | none => simp [hcu] at hc
    | some c0 =>
      simp [hcu] at hc
      have := h.call u x c0 hu hcu
      subst hc
      split
      · exact ⟨this.kind, this.cx, this.ch, this.ret⟩
      · exact this
  · intro p hp
    exact h.pub p (by simpa [Book.markDead] using hp)

theorem rk_addWriter (s : St) (b : Book) (h : RK s b) (nt : Th) (nc : Call) (tgt : Option PRef)
    (hk : KRel nt { nc with preds := b.returnedWriters }) :
    RK { s with th := s.th ++ [nt] } (b.addWriter nc tgt) := by
  refine ⟨by simp [addWriter_len, h.len], ?_, ?_, h.born⟩
  · intro u x c hu hc
    simp only at hu
    rcases getElem?_snoc_cases _ _ _ _ hu with ⟨hul, hx⟩ | ⟨hul, rfl⟩
    · have hl : u < b.calls.length := by rw [h.len]; exact hul
      rw [addWriter_get_lt b nc tgt u hl] at hc
      cases hcu : b.calls[u]? with
      | none => simp [hcu] at hc
      | some c0 =>
        simp [hcu] at hc; subst hc
        exact krel_addSeen x c0 tgt (h.call u x c0 hx hcu)
    · have hl : u = b.calls.length := by rw [h.len]; exact hul
      subst hl
      rw [addWriter_get_last] at hc
      cases hc; exact hk
  · intro p hp
    have : p ∈ b.pubP := by simpa [Book.addWriter] using hp
    have := h.pub p this; simpa [published] using this

/-- the call that published `(v, e)` on plain promise `p` is call `v-1`, a `SetResult` on `p` -/
theorem published_setter (s : St) (hi : Inv s) (p v : Nat) (e : Err) (hv : 1 ≤ v)
    (h : published s (.plain p) = some (v, e)) :
    ∃ th e', s.th[v - 1]? = some th ∧ kindOf th.ts = .set p e' ∧ 1 ≤ v := by
  simp only [published] at h
  cases hp : s.proms[p]? with
  | none => simp [hp] at h
  | some pr =>
    simp [hp] at h
    obtain ⟨h1, h1b, h2⟩ := hi.pr p pr hp
    have hbf : pr.born = false := by
      cases hb : pr.born with
      | false => rfl
      | true =>
        obtain ⟨_, e0, he0⟩ := h1b hb
        rw [h] at he0; cases he0; omega
    obtain ⟨hw, _⟩ := h1 v e h hbf
    obtain ⟨th, hth, hws⟩ := h2 (v - 1) hw
    rcases hws with ⟨e', hh⟩ | ⟨e', hh⟩ | ⟨e', hh⟩ <;> exact ⟨th, e', hth, by simp [hh, kindOf], hv⟩

end UtilModel.Promise

namespace UtilModel.Promise
open UtilModel

theorem rk_obs (s s' : St) (e : Ev) (o : Obs) (b : Book) (hi : Inv s) (h : RK s b)
    (hs : step s e = some s') (ho : e.obs = some o) : RK s' (b.update o) := by
  have mono := published_mono_step s s' e hi hs
  cases e with
  | swap t => simp [Ev.obs] at ho
  | publish t => simp [Ev.obs] at ho
  | awSel t br => simp [Ev.obs] at ho
  | cWCS t => simp [Ev.obs] at ho
  | cSample t => simp [Ev.obs] at ho
  | cNilSel t br => simp [Ev.obs] at ho
  | cInnerSel t br => simp [Ev.obs] at ho
  | cChk1 t => simp [Ev.obs] at ho
  | cChk2 t => simp [Ev.obs] at ho
  | newp p =>
    simp [Ev.obs] at ho; subst ho
    have hs0 := hs
    simp only [step] at hs; split at hs <;> simp at hs; subst hs
    exact rk_congr s _ b _ h rfl rfl rfl (fun p x hx => mono (.plain p) x hx)
      (rk_born_step s _ _ b _ hi h hs0 (fun _ hx => hx) (by intro p e0 he; cases he))
  | newpe p e' =>
    simp [Ev.obs] at ho; subst ho
    have hs0 := hs
    simp only [step] at hs; split at hs <;> simp at hs
    rename_i hp
    subst hs
    have hbn := rk_born_step s _ _ b (b.update (.newpe p e')) hi h hs0
      (fun x hx => by simp [Book.update, hx])
      (by intro q e0 he; cases he; simp [Book.update])
    have h1 : RK { s with proms := s.proms ++ [{ res := some (0, e'), born := true }] }
        { b with bornP := (p, e') :: b.bornP } :=
      rk_congr s _ b _ h rfl rfl rfl (fun p x hx => mono (.plain p) x hx) hbn
    have h2 := rk_pub _ _ h1 p (by subst hp; simp [published])
    exact ⟨h2.len, h2.call, h2.pub, hbn⟩
  | checkLike c ok =>
    simp [Ev.obs] at ho; subst ho
    simp only [step] at hs; split at hs <;> simp at hs; subst hs
    exact h
  | quiesce bb B =>
    simp [Ev.obs] at ho; subst ho
    simp only [step] at hs; split at hs <;> simp at hs; subst hs
    refine ⟨by simp [Book.update, resetSeen_len, h.len], ?_, ?_, h.born⟩
    · intro u x c hu hc
      simp only [Book.update] at hc
      rw [resetSeen_get] at hc
      cases hcu : b.calls[u]? with
      | none => simp [hcu] at hc
      | some c0 =>
        simp [hcu] at hc; subst hc
        have := h.call u x c0 hu hcu
        obtain ⟨h1, h2, h3, h4, _, _⟩ := resetOne_core b B u c0
        exact ⟨by rw [h1]; exact this.kind, by rw [h2]; exact this.cx, by rw [h3]; exact this.ch,
          by rw [h4]; exact this.ret⟩
    · intro p hp
      exact h.pub p (by simpa [Book.update, Book.resetSeen] using hp)
  | invSet t p v e' =>
    simp [Ev.obs] at ho; subst ho
    simp only [step] at hs; split at hs <;> simp at hs; subst hs
    exact rk_append s b h _ _ ⟨rfl, rfl, rfl, rfl⟩
  | invAwait t p k =>
    simp [Ev.obs] at ho; subst ho
    simp only [step] at hs; split at hs <;> simp at hs; subst hs
    exact rk_append s b h _ _ ⟨rfl, rfl, rfl, rfl⟩
  | invCAwait t k =>
    simp [Ev.obs] at ho; subst ho
    simp only [step] at hs; split at hs <;> simp at hs; subst hs
    exact rk_append s b h _ _ ⟨rfl, rfl, rfl, rfl⟩
  | invCSetP t p =>
    simp [Ev.obs] at ho; subst ho
    simp only [step] at hs; split at hs <;> simp at hs; subst hs
    exact rk_addWriter s b h _ _ _ ⟨rfl, rfl, rfl, rfl⟩
  | invCRes t v e' =>
    simp [Ev.obs] at ho; subst ho
    simp only [step] at hs; split at hs <;> simp at hs; subst hs
    exact rk_addWriter s b h _ _ _ ⟨rfl, rfl, rfl, rfl⟩
  | envCancel t =>
    simp [Ev.obs] at ho; subst ho
    simp only [step] at hs; split at hs <;> simp at hs
    rename_i th ht
    subst hs
    exact rk_modify s b h t th _ _ ht (fun c hc => ⟨hc.kind, rfl, hc.ch, hc.ret⟩)
  | envFire t f =>
    simp [Ev.obs] at ho; subst ho
    simp only [step] at hs; split at hs <;> try simp at hs
    rename_i th ht
    obtain ⟨_, rfl⟩ := hs
    exact rk_modify s b h t th _ _ ht (fun c hc => ⟨hc.kind, hc.cx, rfl, hc.ret⟩)
  | retSet t r =>
    simp [Ev.obs] at ho; subst ho
    simp only [step] at hs
    split at hs <;> try simp at hs
    rename_i th ht
    split at hs <;> try simp at hs
    rename_i p v e' r' hts
    obtain ⟨rfl, rfl⟩ := hs
    have hl : t < b.calls.length := by rw [h.len]; exact lt_of_getElem? ht
    obtain ⟨c, hc⟩ : ∃ c, b.calls[t]? = some c := ⟨b.calls[t], by simp⟩
    have hk := h.call t th c ht hc
    have hmod := rk_modify s b h t th { th with ts := .setDone p v e' r } (fun c => { c with ret := true }) ht
      (fun c hc => ⟨by rw [hc.kind, hts]; rfl, hc.cx, hc.ch, rfl⟩)
    have hkind : c.kind = .set p e' := by rw [hk.kind, hts]; rfl
    simp only [Book.update, hc, hkind]
    cases r with
    | false => exact hmod
    | true =>
      refine rk_pub _ _ hmod p ?_
      have hok := hi.th t th ht
      simp only [ThOK, hts] at hok
      have := hok.2.2
      simp only [published] at this ⊢
      simpa using congrArg Option.isSome this
  | retAwait t v e' =>
    simp [Ev.obs] at ho; subst ho
    simp only [step] at hs
    split at hs <;> try simp at hs
    rename_i th ht
    split at hs <;> try simp at hs
    rename_i o k v' e'' hts
    obtain ⟨⟨rfl, rfl⟩, rfl⟩ := hs
    have hmod := rk_modify s b h t th { th with ts := .awDone o k v e' } (fun c => { c with ret := true }) ht
      (fun c hc => ⟨by rw [hc.kind, hts]; cases o <;> rfl, hc.cx, hc.ch, rfl⟩)
    simp only [Book.update]
    split
    · exact hmod
    · rename_i hv
      split
      · rename_i w hw
        split
        · rename_i p ew hwk
          refine rk_pub _ _ hmod p ?_
          -- the value identifies the setter, hence the promise
          have hv1 : 1 ≤ v := by omega
          have hok := hi.th t th ht
          have key : ∀ p' e1, published s (.plain p') = some (v, e1) → p' = p := by
            intro p' e1 hp'
            obtain ⟨thw, ew', hthw, hkw, _⟩ := published_setter s hi p' v e1 hv1 hp'
            have := (h.call (v - 1) thw w hthw hw).kind
            rw [hwk, hkw] at this
            cases this; rfl
          have hpub : ∃ p' e1, published s (.plain p') = some (v, e1) := by
            cases o with
            | some p' =>
              simp only [ThOK, hts] at hok
              rcases hok with h2 | ⟨h2, _⟩
              · exact ⟨p', e', h2⟩
              · omega
            | none =>
              simp only [ThOK, hts] at hok
              rcases hok with ⟨_, r, hr1, hr2⟩ | ⟨h2, _⟩
              · cases r with
                | plain p' => exact ⟨p', e', hr2⟩
                | fixed u eu =>
                  exfalso
                  simp [published] at hr2
                  obtain ⟨thu, hthu, hts'⟩ := hr1
                  have hu : v - 1 = u := by omega
                  rw [hu] at hw
                  have := (h.call u thu w hthu hw).kind
                  rw [hwk] at this
                  rcases hts' with h' | h' <;> rw [h'] at this <;> cases this
              · omega
          obtain ⟨p', e1, hp'⟩ := hpub
          have := key p' e1 hp'; subst this
          simp only [published] at hp' ⊢
          simpa using congrArg Option.isSome hp'
        · exact hmod
      · exact hmod
  | retCSetP t =>
    simp [Ev.obs] at ho; subst ho
    simp only [step] at hs
    split at hs <;> try simp at hs
    rename_i th ht
    split at hs <;> try simp at hs
    rename_i p hts
    subst hs
    have hl : t < b.calls.length := by rw [h.len]; exact lt_of_getElem? ht
    obtain ⟨c, hc⟩ : ∃ c, b.calls[t]? = some c := ⟨b.calls[t], by simp⟩
    have hmod := rk_modify s b h t th { th with ts := .cDone (.setp p) } (fun c => { c with ret := true }) ht
      (fun c hc => ⟨by rw [hc.kind, hts]; rfl, hc.cx, hc.ch, rfl⟩)
    simp only [Book.update, hc]
    exact rk_markDead _ _ hmod _ _
  | retCRes t =>
    simp [Ev.obs] at ho; subst ho
    simp only [step] at hs
    split at hs <;> try simp at hs
    rename_i th ht
    split at hs <;> try simp at hs
    rename_i e' hts
    subst hs
    have hl : t < b.calls.length := by rw [h.len]; exact lt_of_getElem? ht
    obtain ⟨c, hc⟩ : ∃ c, b.calls[t]? = some c := ⟨b.calls[t], by simp⟩
    have hmod := rk_modify s b h t th { th with ts := .cDone (.res e') } (fun c => { c with ret := true }) ht
      (fun c hc => ⟨by rw [hc.kind, hts]; rfl, hc.cx, hc.ch, rfl⟩)
    simp only [Book.update, hc]
    exact rk_markDead _ _ hmod _ _

end UtilModel.Promise
