import UtilModel.Promise.SimWhy
/-!
# promise — `monC11set` accepts every trace of the model
-/
namespace UtilModel.Promise
open UtilModel

/-- the published result of a plain promise was written by its winner, call `v-1`, with exactly these
arguments -/
theorem published_winner_thread (s : St) (hi : Inv s) (p v : Nat) (e : Err) (hv0 : 1 ≤ v)
    (hpub : published s (.plain p) = some (v, e)) :
    1 ≤ v ∧ winnerOf s p = some (v - 1) ∧
    ∃ w, s.th[v - 1]? = some w ∧ (w.ts = .setRet p v e true ∨ w.ts = .setDone p v e true) := by
  have hpub0 := hpub
  simp only [published] at hpub
  cases hp : s.proms[p]? with
  | none => simp [hp] at hpub
  | some pr =>
    simp [hp] at hpub
    obtain ⟨h1, h1b, h2⟩ := hi.pr p pr hp
    have hbf : pr.born = false := by
      cases hb : pr.born with
      | false => rfl
      | true =>
        obtain ⟨_, e0, he0⟩ := h1b hb
        rw [hpub] at he0; cases he0; omega
    obtain ⟨hw, hv⟩ := h1 v e hpub hbf
    refine ⟨hv, by simp [winnerOf, hp, hw], ?_⟩
    obtain ⟨w, hwt, hws⟩ := h2 (v - 1) hw
    refine ⟨w, hwt, ?_⟩
    have hokw := hi.th (v - 1) w hwt
    have hv1 : v - 1 + 1 = v := by omega
    unfold ThOK at hokw
    rcases hws with ⟨e', hh⟩ | ⟨e', hh⟩ | ⟨e', hh⟩ <;> simp only [hh] at hokw
    · have := hokw.2.2; rw [hpub0] at this; cases this
    · have := hokw.2.2; simp [hpub0, hv1] at this
      left; rw [hh, hv1, this]
    · have := hokw.2.2; simp [hpub0, hv1] at this
      right; rw [hh, hv1, this]

/-- the winner of a promise never changes -/
theorem winner_mono_step (s s' : St) (e : Ev) (hs : step s e = some s') (p w : Nat)
    (h : winnerOf s p = some w) : winnerOf s' p = some w := by
  cases e with
  | newp q =>
    simp only [step] at hs; split at hs <;> simp at hs; subst hs
    simp only [winnerOf] at h ⊢
    cases hp : s.proms[p]? with
    | none => simp [hp] at h
    | some pr => rw [getElem?_snoc_left _ _ _ _ hp]; simpa [hp] using h
  | newpe q e0 =>
    simp only [step] at hs; split at hs <;> simp at hs; subst hs
    simp only [winnerOf] at h ⊢
    cases hp : s.proms[p]? with
    | none => simp [hp] at h
    | some pr => rw [getElem?_snoc_left _ _ _ _ hp]; simpa [hp] using h
  | checkLike c ok => simp only [step] at hs; split at hs <;> simp at hs; subst hs; exact h
  | swap t =>
    simp only [step] at hs
    split at hs <;> try simp at hs
    split at hs <;> try simp at hs
    rename_i q v e' hts
    split at hs <;> try simp at hs
    rename_i pr hq
    split at hs <;> simp at hs <;> subst hs
    · simpa [winnerOf, setTs] using h
    · rename_i hw
      by_cases hpq : p = q
      · subst hpq; simp [winnerOf, hq] at h; simp [h] at hw
      · simp only [setTs]; rw [winnerOf_set_ne s q p _ _ hpq]; exact h
  | publish t =>
    simp only [step] at hs
    split at hs <;> try simp at hs
    split at hs <;> try simp at hs
    rename_i q v e' hts
    split at hs <;> simp at hs
    rename_i pr hq
    subst hs
    by_cases hpq : p = q
    · subst hpq
      have hl := lt_of_getElem? hq
      simp [winnerOf, hq] at h; simp [winnerOf, setTs, hl, h]
    · simp only [setTs]; rw [winnerOf_set_ne s q p _ _ hpq]; exact h
  | invSet t q v e' => simp only [step] at hs; split at hs <;> simp at hs; subst hs; exact h
  | invAwait t q k => simp only [step] at hs; split at hs <;> simp at hs; subst hs; exact h
  | invCSetP t q => simp only [step] at hs; split at hs <;> simp at hs; subst hs; exact h
  | invCRes t v e' => simp only [step] at hs; split at hs <;> simp at hs; subst hs; exact h
  | invCAwait t k => simp only [step] at hs; split at hs <;> simp at hs; subst hs; exact h
  | quiesce bb B => simp only [step] at hs; split at hs <;> simp at hs; subst hs; exact h
  | envCancel t => simp only [step] at hs; split at hs <;> simp at hs; subst hs; exact h
  | envFire t f =>
    simp only [step] at hs; split at hs <;> try simp at hs
    obtain ⟨_, rfl⟩ := hs; exact h
  | retSet t bb =>
    simp only [step] at hs
    split at hs <;> try simp at hs
    split at hs <;> try simp at hs
    obtain ⟨_, rfl⟩ := hs; exact h
  | retAwait t v e' =>
    simp only [step] at hs
    split at hs <;> try simp at hs
    split at hs <;> try simp at hs
    obtain ⟨_, rfl⟩ := hs; exact h
  | retCSetP t =>
    simp only [step] at hs
    split at hs <;> try simp at hs
    split at hs <;> try simp at hs
    subst hs; exact h
  | retCRes t =>
    simp only [step] at hs
    split at hs <;> try simp at hs
    split at hs <;> try simp at hs
    subst hs; exact h
  | awSel t br =>
    simp only [step] at hs
    split at hs <;> try simp at hs
    split at hs <;> try simp at hs
    cases br <;> (try simp only at hs) <;> (try split at hs) <;> simp at hs <;> subst hs <;> exact h
  | cWCS t =>
    simp only [step] at hs
    split at hs <;> try simp at hs
    split at hs <;> try simp at hs
    · split at hs <;> simp at hs <;> subst hs <;> exact h
    · subst hs; exact h
  | cSample t =>
    simp only [step] at hs
    split at hs <;> try simp at hs
    split at hs <;> try simp at hs
    split at hs <;> simp at hs <;> subst hs <;> exact h
  | cNilSel t br =>
    simp only [step] at hs
    split at hs <;> try simp at hs
    split at hs <;> try simp at hs
    cases br <;> (try simp only at hs) <;> (try split at hs) <;> simp at hs
    · subst hs; exact h
    · subst hs; exact h
    · subst hs; exact h
  | cInnerSel t br =>
    simp only [step] at hs
    split at hs <;> try simp at hs
    split at hs <;> try simp at hs
    cases br <;> (try simp only at hs) <;> (try split at hs) <;> simp at hs <;> subst hs <;> exact h
  | cChk1 t =>
    simp only [step] at hs
    split at hs <;> try simp at hs
    split at hs <;> try simp at hs
    split at hs <;> simp at hs <;> subst hs <;> exact h
  | cChk2 t =>
    simp only [step] at hs
    split at hs <;> try simp at hs
    split at hs <;> try simp at hs
    split at hs <;> simp at hs <;> subst hs <;> exact h

/-- a finished call stays as it is -/
theorem done_stable_step (s s' : St) (e : Ev) (hs : step s e = some s') (t : Nat) (th : Th)
    (ht : s.th[t]? = some th) (hd : th.ts.isDone = true) :
    ∃ th', s'.th[t]? = some th' ∧ th'.ts = th.ts := by
  have hlt := lt_of_getElem? ht
  cases ho : e.obs with
  | none =>
    obtain ⟨u, thu, ts, _, hu, hth, _, _, hd2⟩ := internal_shape s s' e hs ho
    refine ⟨th, ?_, rfl⟩
    rw [hth]
    by_cases hut : u = t
    · subst hut; rw [ht] at hu; cases hu; rw [hd] at hd2; cases hd2
    · rw [getElem?_set_ne' _ _ _ _ hut]; exact ht
  | some o =>
    cases e with
    | newp q => simp only [step] at hs; split at hs <;> simp at hs; subst hs; exact ⟨th, ht, rfl⟩
    | newpe q e0 => simp only [step] at hs; split at hs <;> simp at hs; subst hs; exact ⟨th, ht, rfl⟩
    | checkLike c ok => simp only [step] at hs; split at hs <;> simp at hs; subst hs; exact ⟨th, ht, rfl⟩
    | quiesce bb B => simp only [step] at hs; split at hs <;> simp at hs; subst hs; exact ⟨th, ht, rfl⟩
    | invSet u q v e' =>
      simp only [step] at hs; split at hs <;> simp at hs; subst hs
      exact ⟨th, getElem?_snoc_left _ _ _ _ ht, rfl⟩
    | invAwait u q k =>
      simp only [step] at hs; split at hs <;> simp at hs; subst hs
      exact ⟨th, getElem?_snoc_left _ _ _ _ ht, rfl⟩
    | invCSetP u q =>
      simp only [step] at hs; split at hs <;> simp at hs; subst hs
      exact ⟨th, getElem?_snoc_left _ _ _ _ ht, rfl⟩
    | invCRes u v e' =>
      simp only [step] at hs; split at hs <;> simp at hs; subst hs
      exact ⟨th, getElem?_snoc_left _ _ _ _ ht, rfl⟩
    | invCAwait u k =>
      simp only [step] at hs; split at hs <;> simp at hs; subst hs
      exact ⟨th, getElem?_snoc_left _ _ _ _ ht, rfl⟩
    | envCancel u =>
      simp only [step] at hs; split at hs <;> simp at hs
      rename_i thu hu
      subst hs
      by_cases hut : u = t
      · subst hut; rw [ht] at hu; cases hu; exact ⟨{ th with cx := true }, by simp [hlt], rfl⟩
      · exact ⟨th, by simp only; rw [getElem?_set_ne' _ _ _ _ hut]; exact ht, rfl⟩
    | envFire u f =>
      simp only [step] at hs; split at hs <;> try simp at hs
      rename_i thu hu
      obtain ⟨_, rfl⟩ := hs
      by_cases hut : u = t
      · subst hut; rw [ht] at hu; cases hu; exact ⟨{ th with ch := some f }, by simp [hlt], rfl⟩
      · exact ⟨th, by simp only; rw [getElem?_set_ne' _ _ _ _ hut]; exact ht, rfl⟩
    | retSet u bb =>
      simp only [step] at hs
      split at hs <;> try simp at hs
      rename_i thu hu
      split at hs <;> try simp at hs
      rename_i q v e' b' hts
      obtain ⟨_, rfl⟩ := hs
      by_cases hut : u = t
      · subst hut; rw [ht] at hu; cases hu; rw [hts] at hd; cases hd
      · exact ⟨th, by simp only [setTs]; rw [getElem?_set_ne' _ _ _ _ hut]; exact ht, rfl⟩
    | retAwait u v e' =>
      simp only [step] at hs
      split at hs <;> try simp at hs
      rename_i thu hu
      split at hs <;> try simp at hs
      rename_i o' k v' e'' hts
      obtain ⟨_, rfl⟩ := hs
      by_cases hut : u = t
      · subst hut; rw [ht] at hu; cases hu; rw [hts] at hd; cases hd
      · exact ⟨th, by simp only [setTs]; rw [getElem?_set_ne' _ _ _ _ hut]; exact ht, rfl⟩
    | retCSetP u =>
      simp only [step] at hs
      split at hs <;> try simp at hs
      rename_i thu hu
      split at hs <;> try simp at hs
      rename_i q hts
      subst hs
      by_cases hut : u = t
      · subst hut; rw [ht] at hu; cases hu; rw [hts] at hd; cases hd
      · exact ⟨th, by simp only [setTs]; rw [getElem?_set_ne' _ _ _ _ hut]; exact ht, rfl⟩
    | retCRes u =>
      simp only [step] at hs
      split at hs <;> try simp at hs
      rename_i thu hu
      split at hs <;> try simp at hs
      rename_i q hts
      subst hs
      by_cases hut : u = t
      · subst hut; rw [ht] at hu; cases hu; rw [hts] at hd; cases hd
      · exact ⟨th, by simp only [setTs]; rw [getElem?_set_ne' _ _ _ _ hut]; exact ht, rfl⟩
    | _ => simp [Ev.obs] at ho

end UtilModel.Promise

namespace UtilModel.Promise
open UtilModel

/-- where a finished winning `SetResult` comes from -/
theorem setDone_backward (s s' : St) (e : Ev) (hs : step s e = some s') (t : Nat) (th' : Th)
    (p v : Nat) (er : Err) (ht' : s'.th[t]? = some th') (hts' : th'.ts = .setDone p v er true) :
    (∃ th, s.th[t]? = some th ∧ th.ts = .setDone p v er true) ∨
    (e = .retSet t true ∧ ∃ th, s.th[t]? = some th ∧ th.ts = .setRet p v er true) := by
  cases ho : e.obs with
  | none =>
    obtain ⟨u, thu, ts, _, hu, hth, _, hd1, _⟩ := internal_shape s s' e hs ho
    left
    rw [hth] at ht'
    rcases getElem?_set_cases s.th u t _ th' ht' with ⟨_, rfl⟩ | ⟨_, hx⟩
    · simp at hts'; rw [hts'] at hd1; cases hd1
    · exact ⟨th', hx, hts'⟩
  | some o =>
    cases e with
    | newp q => simp only [step] at hs; split at hs <;> simp at hs; subst hs; exact Or.inl ⟨th', ht', hts'⟩
    | newpe q e0 => simp only [step] at hs; split at hs <;> simp at hs; subst hs; exact Or.inl ⟨th', ht', hts'⟩
    | checkLike c ok => simp only [step] at hs; split at hs <;> simp at hs; subst hs; exact Or.inl ⟨th', ht', hts'⟩
    | quiesce bb B => simp only [step] at hs; split at hs <;> simp at hs; subst hs; exact Or.inl ⟨th', ht', hts'⟩
    | invSet u q v' e' =>
      simp only [step] at hs; split at hs <;> simp at hs; subst hs
      rcases getElem?_snoc_cases _ _ _ _ ht' with ⟨_, hx⟩ | ⟨_, rfl⟩
      · exact Or.inl ⟨th', hx, hts'⟩
      · cases hts'
    | invAwait u q k =>
      simp only [step] at hs; split at hs <;> simp at hs; subst hs
      rcases getElem?_snoc_cases _ _ _ _ ht' with ⟨_, hx⟩ | ⟨_, rfl⟩
      · exact Or.inl ⟨th', hx, hts'⟩
      · cases hts'
    | invCSetP u q =>
      simp only [step] at hs; split at hs <;> simp at hs; subst hs
      rcases getElem?_snoc_cases _ _ _ _ ht' with ⟨_, hx⟩ | ⟨_, rfl⟩
      · exact Or.inl ⟨th', hx, hts'⟩
      · cases hts'
    | invCRes u v' e' =>
      simp only [step] at hs; split at hs <;> simp at hs; subst hs
      rcases getElem?_snoc_cases _ _ _ _ ht' with ⟨_, hx⟩ | ⟨_, rfl⟩
      · exact Or.inl ⟨th', hx, hts'⟩
      · cases hts'
    | invCAwait u k =>
      simp only [step] at hs; split at hs <;> simp at hs; subst hs
      rcases getElem?_snoc_cases _ _ _ _ ht' with ⟨_, hx⟩ | ⟨_, rfl⟩
      · exact Or.inl ⟨th', hx, hts'⟩
      · cases hts'
    | envCancel u =>
      simp only [step] at hs; split at hs <;> simp at hs
      rename_i thu hu
      subst hs
      rcases getElem?_set_cases s.th u t _ th' ht' with ⟨rfl, rfl⟩ | ⟨_, hx⟩
      · exact Or.inl ⟨thu, hu, hts'⟩
      · exact Or.inl ⟨th', hx, hts'⟩
    | envFire u f =>
      simp only [step] at hs; split at hs <;> try simp at hs
      rename_i thu hu
      obtain ⟨_, rfl⟩ := hs
      rcases getElem?_set_cases s.th u t _ th' ht' with ⟨rfl, rfl⟩ | ⟨_, hx⟩
      · exact Or.inl ⟨thu, hu, hts'⟩
      · exact Or.inl ⟨th', hx, hts'⟩
    | retSet u bb =>
      simp only [step] at hs
      split at hs <;> try simp at hs
      rename_i thu hu
      split at hs <;> try simp at hs
      rename_i q v' e' b' hts
      obtain ⟨rfl, rfl⟩ := hs
      simp only [setTs] at ht'
      rcases getElem?_set_cases s.th u t _ th' ht' with ⟨rfl, rfl⟩ | ⟨_, hx⟩
      · simp at hts'
        obtain ⟨rfl, rfl, rfl, rfl⟩ := hts'
        exact Or.inr ⟨rfl, thu, hu, hts⟩
      · exact Or.inl ⟨th', hx, hts'⟩
    | retAwait u v' e' =>
      simp only [step] at hs
      split at hs <;> try simp at hs
      rename_i thu hu
      split at hs <;> try simp at hs
      obtain ⟨_, rfl⟩ := hs
      simp only [setTs] at ht'
      rcases getElem?_set_cases s.th u t _ th' ht' with ⟨_, rfl⟩ | ⟨_, hx⟩
      · cases hts'
      · exact Or.inl ⟨th', hx, hts'⟩
    | retCSetP u =>
      simp only [step] at hs
      split at hs <;> try simp at hs
      rename_i thu hu
      split at hs <;> try simp at hs
      subst hs
      simp only [setTs] at ht'
      rcases getElem?_set_cases s.th u t _ th' ht' with ⟨_, rfl⟩ | ⟨_, hx⟩
      · cases hts'
      · exact Or.inl ⟨th', hx, hts'⟩
    | retCRes u =>
      simp only [step] at hs
      split at hs <;> try simp at hs
      rename_i thu hu
      split at hs <;> try simp at hs
      subst hs
      simp only [setTs] at ht'
      rcases getElem?_set_cases s.th u t _ th' ht' with ⟨_, rfl⟩ | ⟨_, hx⟩
      · cases hts'
      · exact Or.inl ⟨th', hx, hts'⟩
    | _ => simp [Ev.obs] at ho

theorem proms_len_step (s s' : St) (e : Ev) (hs : step s e = some s') :
    s'.proms.length = s.proms.length + (match e with | .newp _ => 1 | .newpe _ _ => 1 | _ => 0) := by
  cases e with
  | newp q => simp only [step] at hs; split at hs <;> simp at hs; subst hs; simp
  | newpe q e0 => simp only [step] at hs; split at hs <;> simp at hs; subst hs; simp
  | checkLike c ok => simp only [step] at hs; split at hs <;> simp at hs; subst hs; simp
  | swap t =>
    simp only [step] at hs
    split at hs <;> try simp at hs
    split at hs <;> try simp at hs
    split at hs <;> try simp at hs
    split at hs <;> simp at hs <;> subst hs <;> simp [setTs]
  | publish t =>
    simp only [step] at hs
    split at hs <;> try simp at hs
    split at hs <;> try simp at hs
    split at hs <;> simp at hs
    subst hs; simp [setTs]
  | invSet t q v e' => simp only [step] at hs; split at hs <;> simp at hs; subst hs; simp
  | invAwait t q k => simp only [step] at hs; split at hs <;> simp at hs; subst hs; simp
  | invCSetP t q => simp only [step] at hs; split at hs <;> simp at hs; subst hs; simp
  | invCRes t v e' => simp only [step] at hs; split at hs <;> simp at hs; subst hs; simp
  | invCAwait t k => simp only [step] at hs; split at hs <;> simp at hs; subst hs; simp
  | quiesce bb B => simp only [step] at hs; split at hs <;> simp at hs; subst hs; simp
  | envCancel t => simp only [step] at hs; split at hs <;> simp at hs; subst hs; simp
  | envFire t f =>
    simp only [step] at hs; split at hs <;> try simp at hs
    obtain ⟨_, rfl⟩ := hs; simp
  | retSet t bb =>
    simp only [step] at hs
    split at hs <;> try simp at hs
    split at hs <;> try simp at hs
    obtain ⟨_, rfl⟩ := hs; simp [setTs]
  | retAwait t v e' =>
    simp only [step] at hs
    split at hs <;> try simp at hs
    split at hs <;> try simp at hs
    obtain ⟨_, rfl⟩ := hs; simp [setTs]
  | retCSetP t =>
    simp only [step] at hs
    split at hs <;> try simp at hs
    split at hs <;> try simp at hs
    subst hs; simp [setTs]
  | retCRes t =>
    simp only [step] at hs
    split at hs <;> try simp at hs
    split at hs <;> try simp at hs
    subst hs; simp [setTs]
  | awSel t br =>
    simp only [step] at hs
    split at hs <;> try simp at hs
    split at hs <;> try simp at hs
    cases br <;> (try simp only at hs) <;> (try split at hs) <;> simp at hs <;> subst hs <;> simp [setTs]
  | cWCS t =>
    simp only [step] at hs
    split at hs <;> try simp at hs
    split at hs <;> try simp at hs
    · split at hs <;> simp at hs <;> subst hs <;> simp [setTs]
    · subst hs; simp [setTs]
  | cSample t =>
    simp only [step] at hs
    split at hs <;> try simp at hs
    split at hs <;> try simp at hs
    split at hs <;> simp at hs <;> subst hs <;> simp [setTs]
  | cNilSel t br =>
    simp only [step] at hs
    split at hs <;> try simp at hs
    split at hs <;> try simp at hs
    cases br <;> (try simp only at hs) <;> (try split at hs) <;> simp at hs
    · subst hs; simp [setTs]
    · subst hs; simp [setTs]
    · subst hs; simp [setTs]
  | cInnerSel t br =>
    simp only [step] at hs
    split at hs <;> try simp at hs
    split at hs <;> try simp at hs
    cases br <;> (try simp only at hs) <;> (try split at hs) <;> simp at hs <;> subst hs <;> simp [setTs]
  | cChk1 t =>
    simp only [step] at hs
    split at hs <;> try simp at hs
    split at hs <;> try simp at hs
    split at hs <;> simp at hs <;> subst hs <;> simp [setTs]
  | cChk2 t =>
    simp only [step] at hs
    split at hs <;> try simp at hs
    split at hs <;> try simp at hs
    split at hs <;> simp at hs <;> subst hs <;> simp [setTs]

end UtilModel.Promise

namespace UtilModel.Promise
open UtilModel

/-- the `born` flag of an existing promise never changes -/
theorem born_flag_step (s s' : St) (e : Ev) (hs : step s e = some s') (p : Nat) (pr : Prom)
    (hq : s.proms[p]? = some pr) : ∃ pr', s'.proms[p]? = some pr' ∧ pr'.born = pr.born := by
  cases e with
  | newp q =>
    simp only [step] at hs; split at hs <;> simp at hs; subst hs
    exact ⟨pr, getElem?_snoc_left _ _ _ _ hq, rfl⟩
  | newpe q e0 =>
    simp only [step] at hs; split at hs <;> simp at hs; subst hs
    exact ⟨pr, getElem?_snoc_left _ _ _ _ hq, rfl⟩
  | checkLike c ok => simp only [step] at hs; split at hs <;> simp at hs; subst hs; exact ⟨pr, hq, rfl⟩
  | swap t =>
    simp only [step] at hs
    split at hs <;> try simp at hs
    split at hs <;> try simp at hs
    rename_i q v e' hts
    split at hs <;> try simp at hs
    rename_i qr hqq
    split at hs <;> simp at hs <;> subst hs
    · exact ⟨pr, hq, rfl⟩
    · by_cases hpq : q = p
      · subst hpq; rw [hq] at hqq; cases hqq
        exact ⟨{ pr with winner := some t }, by simp [setTs, lt_of_getElem? hq], rfl⟩
      · exact ⟨pr, by simp only [setTs]; rw [getElem?_set_ne' _ _ _ _ hpq]; exact hq, rfl⟩
  | publish t =>
    simp only [step] at hs
    split at hs <;> try simp at hs
    split at hs <;> try simp at hs
    rename_i q v e' hts
    split at hs <;> simp at hs
    rename_i qr hqq
    subst hs
    by_cases hpq : q = p
    · subst hpq; rw [hq] at hqq; cases hqq
      exact ⟨{ pr with res := some (v, e') }, by simp [setTs, lt_of_getElem? hq], rfl⟩
    · exact ⟨pr, by simp only [setTs]; rw [getElem?_set_ne' _ _ _ _ hpq]; exact hq, rfl⟩
  | invSet t q v e' => simp only [step] at hs; split at hs <;> simp at hs; subst hs; exact ⟨pr, hq, rfl⟩
  | invAwait t q k => simp only [step] at hs; split at hs <;> simp at hs; subst hs; exact ⟨pr, hq, rfl⟩
  | invCSetP t q => simp only [step] at hs; split at hs <;> simp at hs; subst hs; exact ⟨pr, hq, rfl⟩
  | invCRes t v e' => simp only [step] at hs; split at hs <;> simp at hs; subst hs; exact ⟨pr, hq, rfl⟩
  | invCAwait t k => simp only [step] at hs; split at hs <;> simp at hs; subst hs; exact ⟨pr, hq, rfl⟩
  | quiesce bb B => simp only [step] at hs; split at hs <;> simp at hs; subst hs; exact ⟨pr, hq, rfl⟩
  | envCancel t => simp only [step] at hs; split at hs <;> simp at hs; subst hs; exact ⟨pr, hq, rfl⟩
  | envFire t f =>
    simp only [step] at hs; split at hs <;> try simp at hs
    obtain ⟨_, rfl⟩ := hs; exact ⟨pr, hq, rfl⟩
  | retSet t bb =>
    simp only [step] at hs
    split at hs <;> try simp at hs
    split at hs <;> try simp at hs
    obtain ⟨_, rfl⟩ := hs; exact ⟨pr, hq, rfl⟩
  | retAwait t v e' =>
    simp only [step] at hs
    split at hs <;> try simp at hs
    split at hs <;> try simp at hs
    obtain ⟨_, rfl⟩ := hs; exact ⟨pr, hq, rfl⟩
  | retCSetP t =>
    simp only [step] at hs
    split at hs <;> try simp at hs
    split at hs <;> try simp at hs
    subst hs; exact ⟨pr, hq, rfl⟩
  | retCRes t =>
    simp only [step] at hs
    split at hs <;> try simp at hs
    split at hs <;> try simp at hs
    subst hs; exact ⟨pr, hq, rfl⟩
  | awSel t br =>
    simp only [step] at hs
    split at hs <;> try simp at hs
    split at hs <;> try simp at hs
    cases br <;> (try simp only at hs) <;> (try split at hs) <;> simp at hs <;> subst hs <;> exact ⟨pr, hq, rfl⟩
  | cWCS t =>
    simp only [step] at hs
    split at hs <;> try simp at hs
    split at hs <;> try simp at hs
    · split at hs <;> simp at hs <;> subst hs <;> exact ⟨pr, hq, rfl⟩
    · subst hs; exact ⟨pr, hq, rfl⟩
  | cSample t =>
    simp only [step] at hs
    split at hs <;> try simp at hs
    split at hs <;> try simp at hs
    split at hs <;> simp at hs <;> subst hs <;> exact ⟨pr, hq, rfl⟩
  | cNilSel t br =>
    simp only [step] at hs
    split at hs <;> try simp at hs
    split at hs <;> try simp at hs
    cases br <;> (try simp only at hs) <;> (try split at hs) <;> simp at hs
    · subst hs; exact ⟨pr, hq, rfl⟩
    · subst hs; exact ⟨pr, hq, rfl⟩
    · subst hs; exact ⟨pr, hq, rfl⟩
  | cInnerSel t br =>
    simp only [step] at hs
    split at hs <;> try simp at hs
    split at hs <;> try simp at hs
    cases br <;> (try simp only at hs) <;> (try split at hs) <;> simp at hs <;> subst hs <;> exact ⟨pr, hq, rfl⟩
  | cChk1 t =>
    simp only [step] at hs
    split at hs <;> try simp at hs
    split at hs <;> try simp at hs
    split at hs <;> simp at hs <;> subst hs <;> exact ⟨pr, hq, rfl⟩
  | cChk2 t =>
    simp only [step] at hs
    split at hs <;> try simp at hs
    split at hs <;> try simp at hs
    split at hs <;> simp at hs <;> subst hs <;> exact ⟨pr, hq, rfl⟩

structure RSet (s : St) (ms : SetSt) : Prop where
  inv : Inv s
  rk : RK s ms.b
  len : ms.pw.length = s.proms.length
  won : ∀ (p : Nat) (i : PW) (w : Nat), ms.pw[p]? = some i → i.won = some w → winnerOf s p = some w
  cands : ∀ (p : Nat) (i : PW) (L : List Nat), ms.pw[p]? = some i → i.cands = some L →
    ∃ w, w ∈ L ∧ winnerOf s p = some w
  lost : ∀ t, t ∈ ms.lost → ∃ (th : Th) (p v : Nat) (e : Err), s.th[t]? = some th ∧ th.ts = .setDone p v e false
  retTrue : ∀ (t : Nat) (th : Th) (p v : Nat) (e : Err), s.th[t]? = some th → th.ts = .setDone p v e true →
    ∃ i, ms.pw[p]? = some i ∧ i.won = some t
  born : ∀ (p : Nat) (i : PW) (pr : Prom), ms.pw[p]? = some i → s.proms[p]? = some pr → i.born = pr.born

/-- the relation survives a step that is neither `newp` nor the return of a winning `SetResult`,
when the monitor changes only its bookkeeping -/
theorem rset_next (s s' : St) (e : Ev) (ms : SetSt) (b' : Book) (hR : RSet s ms) (hs : step s e = some s')
    (hn : ∀ q, e ≠ .newp q) (hn2 : ∀ q x, e ≠ .newpe q x) (hr : ∀ t, e ≠ .retSet t true) (hrk : RK s' b') :
    RSet s' { ms with b := b' } := by
  have hlen : s'.proms.length = s.proms.length := by
    have := proms_len_step s s' e hs
    rw [this]
    cases e <;> simp
    · exact absurd rfl (hn _)
    · exact absurd rfl (hn2 _ _)
  refine ⟨step_inv s e s' hR.inv hs, hrk, by rw [hlen]; exact hR.len, ?_, ?_, ?_, ?_, ?_⟩
  rotate_right
  · intro p i pr' hp hq
    have hpl : p < s.proms.length := by rw [← hlen]; exact lt_of_getElem? hq
    obtain ⟨pr, hpr⟩ : ∃ pr, s.proms[p]? = some pr := ⟨s.proms[p], by simp⟩
    obtain ⟨pr2, h1, h2⟩ := born_flag_step s s' e hs p pr hpr
    rw [hq] at h1; cases h1
    rw [h2]; exact hR.born p i pr hp hpr
  · intro p i w hp hw
    exact winner_mono_step s s' e hs p w (hR.won p i w hp hw)
  · intro p i L hp hL
    obtain ⟨w, h1, h2⟩ := hR.cands p i L hp hL
    exact ⟨w, h1, winner_mono_step s s' e hs p w h2⟩
  · intro t ht
    obtain ⟨th, p, v, e', h1, h2⟩ := hR.lost t ht
    obtain ⟨th', h3, h4⟩ := done_stable_step s s' e hs t th h1 (by rw [h2]; rfl)
    exact ⟨th', p, v, e', h3, by rw [h4, h2]⟩
  · intro t th' p v e' ht' hts'
    rcases setDone_backward s s' e hs t th' p v e' ht' hts' with ⟨th, h1, h2⟩ | ⟨h1, _⟩
    · exact hR.retTrue t th p v e' h1 h2
    · exact absurd h1 (hr t)

theorem rset_init : RSet model.init monC11set.init := by
  refine ⟨init_inv, rk_init, rfl, ?_, ?_, ?_, ?_, ?_⟩ <;> intros <;> simp_all [monC11set, model]

theorem winBy_ok (s : St) (ms : SetSt) (hR : RSet s ms) (p w : Nat) (hp : p < s.proms.length)
    (hw : winnerOf s p = some w) :
    ∃ i, ms.pw[p]? = some i ∧ winBy ms p w = some { ms with pw := ms.pw.set p { i with won := some w } } := by
  have hl : p < ms.pw.length := by rw [hR.len]; exact hp
  obtain ⟨i, hi⟩ : ∃ i, ms.pw[p]? = some i := ⟨ms.pw[p], by simp⟩
  refine ⟨i, hi, ?_⟩
  have h1 : i.won = none ∨ i.won = some w := by
    cases hwo : i.won with
    | none => exact Or.inl rfl
    | some w' => have := hR.won p i w' hi hwo; rw [hw] at this; cases this; exact Or.inr rfl
  have h2 : Option.all (fun x => decide (w ∈ x)) i.cands = true := by
    cases hc : i.cands with
    | none => rfl
    | some L =>
      obtain ⟨w', hm, hw'⟩ := hR.cands p i L hi hc
      rw [hw] at hw'; cases hw'
      simpa using hm
  have h3 : i.born = false := by
    obtain ⟨pr, hpr⟩ : ∃ pr, s.proms[p]? = some pr := ⟨s.proms[p], by simp⟩
    rw [hR.born p i pr hi hpr]
    cases hb : pr.born with
    | false => rfl
    | true =>
      have := ((hR.inv.pr p pr hpr).2.1 hb).1
      simp [winnerOf, hpr] at hw
      rw [hw] at this; cases this
  simp [winBy, hi, h1, h2, h3]

/-- the relation after the monitor learned that `w` won `p` (and possibly that a call lost) -/
theorem rset_won (s : St) (ms : SetSt) (hR : RSet s ms) (p w : Nat) (i : PW) (hi : ms.pw[p]? = some i)
    (hw : winnerOf s p = some w) : RSet s { ms with pw := ms.pw.set p { i with won := some w } } := by
  refine ⟨hR.inv, hR.rk, by simp [hR.len], ?_, ?_, hR.lost, ?_, ?_⟩
  rotate_right
  · intro q j pr hq hpr
    simp only at hq
    rcases getElem?_set_cases ms.pw p q _ j hq with ⟨rfl, rfl⟩ | ⟨_, hx⟩
    · exact hR.born q i pr hi hpr
    · exact hR.born q j pr hx hpr
  · intro q j w' hq hw'
    simp only at hq
    rcases getElem?_set_cases ms.pw p q _ j hq with ⟨rfl, rfl⟩ | ⟨_, hx⟩
    · simp at hw'; subst hw'; exact hw
    · exact hR.won q j w' hx hw'
  · intro q j L hq hL
    simp only at hq
    rcases getElem?_set_cases ms.pw p q _ j hq with ⟨rfl, rfl⟩ | ⟨_, hx⟩
    · exact hR.cands q i L hi hL
    · exact hR.cands q j L hx hL
  · intro t th q v e ht hts
    obtain ⟨j, hj, hjw⟩ := hR.retTrue t th q v e ht hts
    by_cases hqp : q = p
    · subst hqp
      rw [hi] at hj; cases hj
      have := hR.won q i t hi hjw
      rw [hw] at this; cases this
      exact ⟨{ i with won := some w }, by simp [lt_of_getElem? hi], rfl⟩
    · exact ⟨j, by simp only; rw [getElem?_set_ne' _ _ _ _ (fun e => hqp e.symm)]; exact hj, hjw⟩

end UtilModel.Promise

namespace UtilModel.Promise
open UtilModel

theorem born_rel_step (s s' : St) (e : Ev) (hs : step s e = some s') (pw : List PW)
    (hlen : s'.proms.length = s.proms.length)
    (h : ∀ (p : Nat) (i : PW) (pr : Prom), pw[p]? = some i → s.proms[p]? = some pr → i.born = pr.born) :
    ∀ (p : Nat) (i : PW) (pr' : Prom), pw[p]? = some i → s'.proms[p]? = some pr' → i.born = pr'.born := by
  intro p i pr' hp hq
  have hpl : p < s.proms.length := by rw [← hlen]; exact lt_of_getElem? hq
  obtain ⟨pr, hpr⟩ : ∃ pr, s.proms[p]? = some pr := ⟨s.proms[p], by simp⟩
  obtain ⟨pr2, h1, h2⟩ := born_flag_step s s' e hs p pr hpr
  rw [hq] at h1; cases h1
  rw [h2]; exact h p i pr hp hpr

theorem born_rel_set (s : St) (pw : List PW) (p : Nat) (i i' : PW) (hi : pw[p]? = some i) (hb : i'.born = i.born)
    (h : ∀ (p : Nat) (i : PW) (pr : Prom), pw[p]? = some i → s.proms[p]? = some pr → i.born = pr.born) :
    ∀ (q : Nat) (j : PW) (pr : Prom), (pw.set p i')[q]? = some j → s.proms[q]? = some pr → j.born = pr.born := by
  intro q j pr hq hpr
  rcases getElem?_set_cases pw p q _ j hq with ⟨rfl, rfl⟩ | ⟨_, hx⟩
  · rw [hb]; exact h q i pr hi hpr
  · exact h q j pr hx hpr

theorem set_sim_internal (s s' : St) (e : Ev) (ms : SetSt) (hR : RSet s ms)
    (hs : step s e = some s') (ho : e.obs = none) : RSet s' ms := by
  have := rset_next s s' e ms ms.b hR hs (by intro q h; subst h; simp [Ev.obs] at ho)
    (by intro q x h; subst h; simp [Ev.obs] at ho)
    (by intro t h; subst h; simp [Ev.obs] at ho) (rk_internal s s' e ms.b hR.inv hR.rk hs ho)
  exact this

theorem set_sim_obs (s s' : St) (e : Ev) (o : Obs) (ms : SetSt) (hR : RSet s ms)
    (hs : step s e = some s') (ho : e.obs = some o) :
    ∃ ms', monC11set.step ms o = some ms' ∧ RSet s' ms' := by
  have hi := hR.inv
  have hrk' := rk_obs s s' e o ms.b hi hR.rk hs ho
  -- the events on which the monitor only updates its bookkeeping
  have plain : (∀ q, e ≠ .newp q) → (∀ q x, e ≠ .newpe q x) → (∀ t r, e ≠ .retSet t r) →
      (∀ t v x, e ≠ .retAwait t v x) →
      monC11set.step ms o = some { ms with b := ms.b.update o } →
      ∃ ms', monC11set.step ms o = some ms' ∧ RSet s' ms' := by
    intro h1 h1' h2 h3 hm
    exact ⟨_, hm, rset_next s s' e ms _ hR hs h1 h1' (fun t => h2 t true) hrk'⟩
  cases e with
  | swap t => simp [Ev.obs] at ho
  | publish t => simp [Ev.obs] at ho
  | awSel t br => simp [Ev.obs] at ho
  | cWCS t => simp [Ev.obs] at ho
  | cSample t => simp [Ev.obs] at ho
  | cNilSel t br => simp [Ev.obs] at ho
  | cInnerSel t br => simp [Ev.obs] at ho
  | cChk1 t => simp [Ev.obs] at ho
  | cChk2 t => simp [Ev.obs] at ho
  | invSet t p v x => simp [Ev.obs] at ho; subst ho; exact plain (by simp) (by simp) (by simp) (by simp) rfl
  | invAwait t p k => simp [Ev.obs] at ho; subst ho; exact plain (by simp) (by simp) (by simp) (by simp) rfl
  | envCancel t => simp [Ev.obs] at ho; subst ho; exact plain (by simp) (by simp) (by simp) (by simp) rfl
  | envFire t f => simp [Ev.obs] at ho; subst ho; exact plain (by simp) (by simp) (by simp) (by simp) rfl
  | invCSetP t p => simp [Ev.obs] at ho; subst ho; exact plain (by simp) (by simp) (by simp) (by simp) rfl
  | retCSetP t => simp [Ev.obs] at ho; subst ho; exact plain (by simp) (by simp) (by simp) (by simp) rfl
  | invCRes t v x => simp [Ev.obs] at ho; subst ho; exact plain (by simp) (by simp) (by simp) (by simp) rfl
  | retCRes t => simp [Ev.obs] at ho; subst ho; exact plain (by simp) (by simp) (by simp) (by simp) rfl
  | invCAwait t k => simp [Ev.obs] at ho; subst ho; exact plain (by simp) (by simp) (by simp) (by simp) rfl
  | quiesce bb B => simp [Ev.obs] at ho; subst ho; exact plain (by simp) (by simp) (by simp) (by simp) rfl
  | checkLike c ok => simp [Ev.obs] at ho; subst ho; exact plain (by simp) (by simp) (by simp) (by simp) rfl
  | newpe q x0 =>
    simp [Ev.obs] at ho; subst ho
    have hs0 := hs
    simp only [step] at hs; split at hs <;> simp at hs; subst hs
    refine ⟨{ ms with pw := ms.pw ++ [{ born := true }], b := ms.b.update (.newpe q x0) }, rfl, ?_⟩
    refine ⟨step_inv s _ _ hi hs0, hrk', by simp [hR.len], ?_, ?_, ?_, ?_, ?_⟩
    · intro p i w hp hw
      simp only at hp
      rcases getElem?_snoc_cases _ _ _ _ hp with ⟨_, hx⟩ | ⟨_, rfl⟩
      · exact winner_mono_step s _ _ hs0 p w (hR.won p i w hx hw)
      · cases hw
    · intro p i L hp hL
      simp only at hp
      rcases getElem?_snoc_cases _ _ _ _ hp with ⟨_, hx⟩ | ⟨_, rfl⟩
      · obtain ⟨w, h1, h2⟩ := hR.cands p i L hx hL
        exact ⟨w, h1, winner_mono_step s _ _ hs0 p w h2⟩
      · cases hL
    · exact hR.lost
    · intro t th p v x ht hts
      obtain ⟨i, h1, h2⟩ := hR.retTrue t th p v x ht hts
      exact ⟨i, getElem?_snoc_left _ _ _ _ h1, h2⟩
    · intro p i pr hp hq
      simp only at hp hq
      rcases getElem?_snoc_cases _ _ _ _ hp with ⟨hl1, hx⟩ | ⟨hl1, rfl⟩
      · rcases getElem?_snoc_cases _ _ _ _ hq with ⟨_, hy⟩ | ⟨hl2, _⟩
        · exact hR.born p i pr hx hy
        · have := hR.len; omega
      · rcases getElem?_snoc_cases _ _ _ _ hq with ⟨hl2, _⟩ | ⟨_, rfl⟩
        · have := hR.len; omega
        · rfl
  | newp q =>
    simp [Ev.obs] at ho; subst ho
    have hs0 := hs
    simp only [step] at hs; split at hs <;> simp at hs; subst hs
    refine ⟨{ ms with pw := ms.pw ++ [{}], b := ms.b.update (.newp q) }, rfl, ?_⟩
    refine ⟨step_inv s _ _ hi hs0, hrk', by simp [hR.len], ?_, ?_, ?_, ?_, ?_⟩
    rotate_right
    · intro p i pr hp hq
      simp only at hp hq
      rcases getElem?_snoc_cases _ _ _ _ hp with ⟨hl1, hx⟩ | ⟨hl1, rfl⟩
      · rcases getElem?_snoc_cases _ _ _ _ hq with ⟨_, hy⟩ | ⟨hl2, _⟩
        · exact hR.born p i pr hx hy
        · have := hR.len; omega
      · rcases getElem?_snoc_cases _ _ _ _ hq with ⟨hl2, _⟩ | ⟨_, rfl⟩
        · have := hR.len; omega
        · rfl
    · intro p i w hp hw
      simp only at hp
      rcases getElem?_snoc_cases _ _ _ _ hp with ⟨_, hx⟩ | ⟨_, rfl⟩
      · exact winner_mono_step s _ _ hs0 p w (hR.won p i w hx hw)
      · cases hw
    · intro p i L hp hL
      simp only at hp
      rcases getElem?_snoc_cases _ _ _ _ hp with ⟨_, hx⟩ | ⟨_, rfl⟩
      · obtain ⟨w, h1, h2⟩ := hR.cands p i L hx hL
        exact ⟨w, h1, winner_mono_step s _ _ hs0 p w h2⟩
      · cases hL
    · exact hR.lost
    · intro t th p v x ht hts
      obtain ⟨i, h1, h2⟩ := hR.retTrue t th p v x ht hts
      exact ⟨i, getElem?_snoc_left _ _ _ _ h1, h2⟩
  | retSet t r =>
    simp [Ev.obs] at ho; subst ho
    have hs0 := hs
    simp only [step] at hs
    split at hs <;> try simp at hs
    rename_i th ht
    split at hs <;> try simp at hs
    rename_i p v x r' hts
    obtain ⟨rfl, rfl⟩ := hs
    have hl : t < ms.b.calls.length := by rw [hR.rk.len]; exact lt_of_getElem? ht
    obtain ⟨c, hc⟩ : ∃ c, ms.b.calls[t]? = some c := ⟨ms.b.calls[t], by simp⟩
    have hk := hR.rk.call t th c ht hc
    have hkind : c.kind = .set p x := by rw [hk.kind, hts]; rfl
    have hret : c.ret = false := by rw [hk.ret, hts]; rfl
    have hok := hi.th t th ht
    simp only [ThOK, hts] at hok
    obtain ⟨hv, hok2⟩ := hok
    cases r with
    | true =>
      simp only [if_true] at hok2
      obtain ⟨hw, hpub⟩ := hok2
      have hp : p < s.proms.length := by
        simp only [winnerOf] at hw
        cases hpp : s.proms[p]? with
        | none => simp [hpp] at hw
        | some pr => exact lt_of_getElem? hpp
      obtain ⟨i, hpi, hwin⟩ := winBy_ok s ms hR p t hp hw
      refine ⟨_, by simp [monC11set, hc, hkind, hret, hwin]; rfl, ?_⟩
      have h1 := rset_won s ms hR p t i hpi hw
      -- now the model step: the winner returns
      refine ⟨step_inv s _ _ hi hs0, hrk', by simp [hR.len, setTs], ?_, ?_, ?_, ?_,
        born_rel_step s _ _ hs0 _ (by simp [setTs]) h1.born⟩
      · intro q j w hq hjw
        exact winner_mono_step s _ _ hs0 q w (h1.won q j w hq hjw)
      · intro q j L hq hL
        obtain ⟨w, h2, h3⟩ := h1.cands q j L hq hL
        exact ⟨w, h2, winner_mono_step s _ _ hs0 q w h3⟩
      · intro u hu
        obtain ⟨thu, q, v', x', h2, h3⟩ := h1.lost u hu
        obtain ⟨th', h4, h5⟩ := done_stable_step s _ _ hs0 u thu h2 (by rw [h3]; rfl)
        exact ⟨th', q, v', x', h4, by rw [h5, h3]⟩
      · intro u thu' q v' x' hu' hts'
        rcases setDone_backward s _ _ hs0 u thu' q v' x' hu' hts' with ⟨thu, h2, h3⟩ | ⟨h2, thu, h3, h4⟩
        · exact h1.retTrue u thu q v' x' h2 h3
        · cases h2
          rw [ht] at h3; cases h3
          rw [hts] at h4; cases h4
          exact ⟨{ i with won := some t }, by simp [lt_of_getElem? hpi], rfl⟩
    | false =>
      simp only [Bool.false_eq_true, if_false] at hok2
      have hp : p < s.proms.length := by
        rcases hok2 with ⟨w, hw, _⟩ | hb
        · simp only [winnerOf] at hw
          cases hpp : s.proms[p]? with
          | none => simp [hpp] at hw
          | some pr => exact lt_of_getElem? hpp
        · simp only [bornOf] at hb
          cases hpp : s.proms[p]? with
          | none => simp [hpp] at hb
          | some pr => exact lt_of_getElem? hpp
      have hlp : p < ms.pw.length := by rw [hR.len]; exact hp
      obtain ⟨i, hpi⟩ : ∃ i, ms.pw[p]? = some i := ⟨ms.pw[p], by simp⟩
      obtain ⟨pr0, hpr0⟩ : ∃ pr0, s.proms[p]? = some pr0 := ⟨s.proms[p], by simp⟩
      have hib := hR.born p i pr0 hpi hpr0
      have finish : ∀ (ms1 : SetSt), ms1.b = ms.b → ms1.lost = ms.lost → RSet s ms1 →
          RSet (setTs s t th (.setDone p v x false))
            { ms1 with b := ms.b.update (.retSet t false), lost := t :: ms.lost } := by
        intro ms1 hb hlost h1
        refine ⟨step_inv s _ _ hi hs0, hrk', by simp [h1.len, setTs], ?_, ?_, ?_, ?_,
          born_rel_step s _ _ hs0 _ (by simp [setTs]) h1.born⟩
        · intro q j w' hq hjw
          exact winner_mono_step s _ _ hs0 q w' (h1.won q j w' hq hjw)
        · intro q j L hq hL
          obtain ⟨w', h2, h3⟩ := h1.cands q j L hq hL
          exact ⟨w', h2, winner_mono_step s _ _ hs0 q w' h3⟩
        · intro u hu
          simp only [List.mem_cons] at hu
          rcases hu with rfl | hu
          · exact ⟨{ th with ts := .setDone p v x false }, p, v, x, by simp [setTs, lt_of_getElem? ht], rfl⟩
          · obtain ⟨thu, q, v', x', h2, h3⟩ := hR.lost u hu
            obtain ⟨th', h4, h5⟩ := done_stable_step s _ _ hs0 u thu h2 (by rw [h3]; rfl)
            exact ⟨th', q, v', x', h4, by rw [h5, h3]⟩
        · intro u thu' q v' x' hu' hts'
          rcases setDone_backward s _ _ hs0 u thu' q v' x' hu' hts' with ⟨thu, h2, h3⟩ | ⟨h2, _⟩
          · exact h1.retTrue u thu q v' x' h2 h3
          · cases h2
      -- a promise born resolved: every SetResult returns false
      by_cases hbi : i.born = true
      · refine ⟨{ ms with b := ms.b.update (.retSet t false), lost := t :: ms.lost },
          by simp [monC11set, hc, hkind, hret, hpi, hbi], ?_⟩
        exact finish ms rfl rfl hR
      have hbf : i.born = false := by simpa using hbi
      obtain ⟨w, hw, hne⟩ : ∃ w, winnerOf s p = some w ∧ w ≠ t := by
        rcases hok2 with h | hb
        · exact h
        · simp [bornOf, hpr0, ← hib, hbf] at hb
      have hnt : i.won ≠ some t := by
        intro h; have := hR.won p i t hpi h; rw [hw] at this; cases this; exact hne rfl
      by_cases hws : i.won.isSome = true
      · refine ⟨_, by simp [monC11set, hc, hkind, hret, hpi, hnt, hws, hbf]; rfl, ?_⟩
        exact finish ms rfl rfl hR
      · have hwn : i.won = none := by simpa using hws
        -- the real winner is among the candidates the monitor keeps
        have hwL : w ∈ lostCands ms.b i p t := by
          unfold lostCands
          cases hcd : i.cands with
          | some L0 =>
            obtain ⟨w', hm, hw'⟩ := hR.cands p i L0 hpi hcd
            rw [hw] at hw'; cases hw'
            simp [hm, hne]
          | none =>
            -- the winner is a pending `SetResult` on p
            simp only [winnerOf] at hw
            cases hpp : s.proms[p]? with
            | none => simp [hpp] at hw
            | some pr =>
              simp [hpp] at hw
              obtain ⟨thw, hthw, hws'⟩ := (hi.pr p pr hpp).2.2 w hw
              have hwl : w < ms.b.calls.length := by rw [hR.rk.len]; exact lt_of_getElem? hthw
              obtain ⟨cw, hcw⟩ : ∃ cw, ms.b.calls[w]? = some cw := ⟨ms.b.calls[w], by simp⟩
              have hkw := hR.rk.call w thw cw hthw hcw
              have hnd : thw.ts.isDone = false := by
                rcases hws' with ⟨e', hh⟩ | ⟨e', hh⟩ | ⟨e', hh⟩
                · rw [hh]; rfl
                · rw [hh]; rfl
                · exfalso
                  obtain ⟨j, hj, hjw⟩ := hR.retTrue w thw p (w + 1) e' hthw hh
                  rw [hpi] at hj; cases hj; rw [hwn] at hjw; cases hjw
              have hkw2 : ∃ e', cw.kind = .set p e' := by
                rcases hws' with ⟨e', hh⟩ | ⟨e', hh⟩ | ⟨e', hh⟩ <;> exact ⟨e', by rw [hkw.kind, hh]; rfl⟩
              obtain ⟨e', hkw2⟩ := hkw2
              simp only [pendingSets, List.mem_filter, List.mem_range]
              refine ⟨hwl, ?_⟩
              simp [hcw, hkw.ret, hnd, hkw2, hne]
        have hne' : ¬ lostCands ms.b i p t = [] := by
          intro hL; rw [hL] at hwL; cases hwL
        refine ⟨{ ms with pw := ms.pw.set p { i with cands := some (lostCands ms.b i p t) },
                          b := ms.b.update (.retSet t false), lost := t :: ms.lost }, ?_, ?_⟩
        · simp [monC11set, hc, hkind, hret, hpi, hnt, hwn, hne', hbf]
        · refine finish { ms with pw := ms.pw.set p { i with cands := some _ } } rfl rfl ?_
          refine ⟨hi, hR.rk, by simp [hR.len], ?_, ?_, hR.lost, ?_, born_rel_set s ms.pw p i _ hpi rfl hR.born⟩
          · intro q j w' hq hjw
            simp only at hq
            rcases getElem?_set_cases ms.pw p q _ j hq with ⟨rfl, rfl⟩ | ⟨_, hx⟩
            · simp [hwn] at hjw
            · exact hR.won q j w' hx hjw
          · intro q j L' hq hL'
            simp only at hq
            rcases getElem?_set_cases ms.pw p q _ j hq with ⟨rfl, rfl⟩ | ⟨_, hx⟩
            · simp at hL'; subst hL'; exact ⟨w, hwL, hw⟩
            · exact hR.cands q j L' hx hL'
          · intro u thu q v' x' hu hts'
            obtain ⟨j, hj, hjw⟩ := hR.retTrue u thu q v' x' hu hts'
            by_cases hqp : q = p
            · subst hqp; rw [hpi] at hj; cases hj; rw [hwn] at hjw; cases hjw
            · exact ⟨j, by simp only; rw [getElem?_set_ne' _ _ _ _ (fun e => hqp e.symm)]; exact hj, hjw⟩
  | retAwait t v x =>
    simp [Ev.obs] at ho; subst ho
    have hs0 := hs
    have hnext : ∀ ms1 : SetSt, ms1.b = ms.b → RSet s ms1 →
        RSet s' { ms1 with b := ms.b.update (.retAwait t v x) } := by
      intro ms1 hb h1
      exact rset_next s s' _ ms1 _ h1 hs (by simp) (by simp) (by simp) hrk'
    simp only [step] at hs
    split at hs <;> try simp at hs
    rename_i th ht
    split at hs <;> try simp at hs
    rename_i o k v' x' hts
    obtain ⟨⟨rfl, rfl⟩, rfl⟩ := hs
    have hl : t < ms.b.calls.length := by rw [hR.rk.len]; exact lt_of_getElem? ht
    obtain ⟨c, hc⟩ : ∃ c, ms.b.calls[t]? = some c := ⟨ms.b.calls[t], by simp⟩
    have hk := hR.rk.call t th c ht hc
    have hret : c.ret = false := by rw [hk.ret, hts]; rfl
    have hok := hi.th t th ht
    -- a result published on a plain promise: the monitor accepts it and learns the winner
    have viaPlain : ∀ p, 1 ≤ v → published s (.plain p) = some (v, x) →
        ∃ cw i, ms.b.calls[v - 1]? = some cw ∧ cw.kind = .set p x ∧ (v - 1) ∉ ms.lost ∧ v ≠ 0 ∧
          ms.pw[p]? = some i ∧
          winBy ms p (v - 1) = some { ms with pw := ms.pw.set p { i with won := some (v - 1) } } ∧
          RSet s { ms with pw := ms.pw.set p { i with won := some (v - 1) } } := by
      intro p hv1 hpub
      obtain ⟨hv, hw, thw, hthw, hws⟩ := published_winner_thread s hi p v x hv1 hpub
      have hwl : v - 1 < ms.b.calls.length := by rw [hR.rk.len]; exact lt_of_getElem? hthw
      obtain ⟨cw, hcw⟩ : ∃ cw, ms.b.calls[v - 1]? = some cw := ⟨ms.b.calls[v - 1], by simp⟩
      have hkw := hR.rk.call (v - 1) thw cw hthw hcw
      have hp : p < s.proms.length := by
        simp only [winnerOf] at hw
        cases hpp : s.proms[p]? with
        | none => simp [hpp] at hw
        | some pr => exact lt_of_getElem? hpp
      obtain ⟨i, hpi, hwin⟩ := winBy_ok s ms hR p (v - 1) hp hw
      refine ⟨cw, i, hcw, ?_, ?_, by omega, hpi, hwin, rset_won s ms hR p (v - 1) i hpi hw⟩
      · rcases hws with hh | hh <;> rw [hkw.kind, hh] <;> rfl
      · intro hm
        obtain ⟨thl, q, v2, x2, h1, h2⟩ := hR.lost (v - 1) hm
        rw [hthw] at h1; cases h1
        rcases hws with hh | hh <;> rw [hh] at h2 <;> cases h2
    cases o with
    | some p =>
      have hkind : c.kind = .await p k := by rw [hk.kind, hts]; rfl
      simp only [ThOK, hts] at hok
      have hsplit : (1 ≤ v ∧ published s (.plain p) = some (v, x)) ∨ v = 0 := by
        rcases hok with hpub | ⟨hv0, _⟩
        · rcases Nat.eq_zero_or_pos v with h0 | h1
          · exact Or.inr h0
          · exact Or.inl ⟨h1, hpub⟩
        · exact Or.inr hv0
      rcases hsplit with ⟨hv1, hpub⟩ | hv0
      · obtain ⟨cw, i, hcw, hkw, hnl, hv0, hpi, hwin, h1⟩ := viaPlain p hv1 hpub
        refine ⟨{ ms with pw := ms.pw.set p { i with won := some (v - 1) },
                          b := ms.b.update (.retAwait t v x) }, ?_,
          hnext { ms with pw := ms.pw.set p { i with won := some (v - 1) } } rfl h1⟩
        simp [monC11set, hc, hret, hv0, hcw, hkw, hkind, hnl, hwin]
      · subst hv0
        refine ⟨{ ms with b := ms.b.update (.retAwait t 0 x) }, ?_, hnext ms rfl hR⟩
        simp [monC11set, hc, hret, hkind]
    | none =>
      have hkind : c.kind = .cawait k := by rw [hk.kind, hts]; rfl
      simp only [ThOK, hts] at hok
      rcases hok with ⟨hv1, r, hr1, hr2⟩ | ⟨hv0, _⟩
      · cases r with
        | plain p =>
          obtain ⟨cw, i, hcw, hkw, hnl, hv0, hpi, hwin, h1⟩ := viaPlain p hv1 hr2
          refine ⟨{ ms with pw := ms.pw.set p { i with won := some (v - 1) },
                            b := ms.b.update (.retAwait t v x) }, ?_,
          hnext { ms with pw := ms.pw.set p { i with won := some (v - 1) } } rfl h1⟩
          simp [monC11set, hc, hret, hv0, hcw, hkw, hkind, hnl, hwin]
        | fixed u xu =>
          simp [published] at hr2
          obtain ⟨rfl, rfl⟩ := hr2
          obtain ⟨thu, hthu, hts'⟩ := hr1
          have hul : u < ms.b.calls.length := by rw [hR.rk.len]; exact lt_of_getElem? hthu
          obtain ⟨cu, hcu⟩ : ∃ cu, ms.b.calls[u]? = some cu := ⟨ms.b.calls[u], by simp⟩
          have hku := hR.rk.call u thu cu hthu hcu
          have hkc : cu.kind = .cres xu := by
            rcases hts' with hh | hh <;> rw [hku.kind, hh] <;> rfl
          refine ⟨{ ms with b := ms.b.update (.retAwait t (u + 1) xu) }, ?_, hnext ms rfl hR⟩
          simp [monC11set, hc, hret, hcu, hkc, hkind]
      · subst hv0
        refine ⟨{ ms with b := ms.b.update (.retAwait t 0 x) }, ?_, hnext ms rfl hR⟩
        simp [monC11set, hc, hret, hkind]

/-- **C11 (observable form, set-once and await-result).** On every trace of the model: of all
`SetResult` calls on one promise exactly the first returns true (a call that returns false lost
against a call that was pending at that moment, and which then is the only one that may still return
true), and every await that completes by result returns that call's value and error. -/
theorem C11set_obs (es : List Ev) (s : St) (h : model.run model.init es = some s) :
    monC11set.accepts (es.filterMap model.obs) = true :=
  monitor_accepts_of_simulation model monC11set RSet rset_init
    (fun s e s' ms hR hs => by
      cases ho : model.obs e with
      | none => exact set_sim_internal s s' e ms hR hs ho
      | some o => exact set_sim_obs s s' e o ms hR hs ho) es s h

end UtilModel.Promise
