import UtilModel.Promise.SimWhy
/-!
# promise — `monC11set` accepts every trace of the model
-/
namespace UtilModel.Promise
open UtilModel

/-- the published result of a plain promise was written by its winner, call `v-1`, with exactly these
arguments -/
theorem published_winner_thread (s : St) (hi : Inv s) (p v : Nat) (e : Err)
    (hpub : published s (.plain p) = some (v, e)) :
    1 ≤ v ∧ winnerOf s p = some (v - 1) ∧
    ∃ w, s.th[v - 1]? = some w ∧ (w.ts = .setRet p v e true ∨ w.ts = .setDone p v e true) := by
  have hpub0 := hpub
  simp only [published] at hpub
  cases hp : s.proms[p]? with
  | none => simp [hp] at hpub
  | some pr =>
    simp [hp] at hpub
    obtain ⟨h1, h2⟩ := hi.pr p pr hp
    obtain ⟨hw, hv⟩ := h1 v e hpub
    refine ⟨hv, by simp [winnerOf, hp, hw], ?_⟩
    obtain ⟨w, hwt, hws⟩ := h2 (v - 1) hw
    refine ⟨w, hwt, ?_⟩
    have hokw := hi.th (v - 1) w hwt
    have hv1 : v - 1 + 1 = v := by omega
    unfold ThOK at hokw
    rcases hws with ⟨e', hh⟩ | ⟨e', hh⟩ | ⟨e', hh⟩ <;> simp only [hh] at hokw
    · have := hokw.2.2; rw [hpub0] at this; cases this
    · have := hokw.2.2; simp [hpub0, hv1] at this
      left; rw [hh, hv1, this]
    · have := hokw.2.2; simp [hpub0, hv1] at this
      right; rw [hh, hv1, this]

/-- the winner of a promise never changes -/
theorem winner_mono_step (s s' : St) (e : Ev) (hs : step s e = some s') (p w : Nat)
    (h : winnerOf s p = some w) : winnerOf s' p = some w := by
  cases e with
  | newp q =>
    simp only [step] at hs; split at hs <;> simp at hs; subst hs
    simp only [winnerOf] at h ⊢
    cases hp : s.proms[p]? with
    | none => simp [hp] at h
    | some pr => rw [getElem?_snoc_left _ _ _ _ hp]; simpa [hp] using h
  | swap t =>
    simp only [step] at hs
    split at hs <;> try simp at hs
    split at hs <;> try simp at hs
    rename_i q v e' hts
    split at hs <;> try simp at hs
    rename_i pr hq
    split at hs <;> simp at hs <;> subst hs
    · simpa [winnerOf, setTs] using h
    · rename_i hw
      by_cases hpq : p = q
      · subst hpq; simp [winnerOf, hq] at h; simp [h] at hw
      · simp only [setTs]; rw [winnerOf_set_ne s q p _ _ hpq]; exact h
  | publish t =>
    simp only [step] at hs
    split at hs <;> try simp at hs
    split at hs <;> try simp at hs
    rename_i q v e' hts
    split at hs <;> simp at hs
    rename_i pr hq
    subst hs
    by_cases hpq : p = q
    · subst hpq
      have hl := lt_of_getElem? hq
      simp [winnerOf, hq] at h; simp [winnerOf, setTs, hl, h]
    · simp only [setTs]; rw [winnerOf_set_ne s q p _ _ hpq]; exact h
  | invSet t q v e' => simp only [step] at hs; split at hs <;> simp at hs; subst hs; exact h
  | invAwait t q k => simp only [step] at hs; split at hs <;> simp at hs; subst hs; exact h
  | invCSetP t q => simp only [step] at hs; split at hs <;> simp at hs; subst hs; exact h
  | invCRes t v e' => simp only [step] at hs; split at hs <;> simp at hs; subst hs; exact h
  | invCAwait t k => simp only [step] at hs; split at hs <;> simp at hs; subst hs; exact h
  | quiesce bb B => simp only [step] at hs; split at hs <;> simp at hs; subst hs; exact h
  | envCancel t => simp only [step] at hs; split at hs <;> simp at hs; subst hs; exact h
  | envFire t f =>
    simp only [step] at hs; split at hs <;> try simp at hs
    obtain ⟨_, rfl⟩ := hs; exact h
  | retSet t bb =>
    simp only [step] at hs
    split at hs <;> try simp at hs
    split at hs <;> try simp at hs
    obtain ⟨_, rfl⟩ := hs; exact h
  | retAwait t v e' =>
    simp only [step] at hs
    split at hs <;> try simp at hs
    split at hs <;> try simp at hs
    obtain ⟨_, rfl⟩ := hs; exact h
  | retCSetP t =>
    simp only [step] at hs
    split at hs <;> try simp at hs
    split at hs <;> try simp at hs
    subst hs; exact h
  | retCRes t =>
    simp only [step] at hs
    split at hs <;> try simp at hs
    split at hs <;> try simp at hs
    subst hs; exact h
  | awSel t br =>
    simp only [step] at hs
    split at hs <;> try simp at hs
    split at hs <;> try simp at hs
    cases br <;> (try simp only at hs) <;> (try split at hs) <;> simp at hs <;> subst hs <;> exact h
  | cWCS t =>
    simp only [step] at hs
    split at hs <;> try simp at hs
    split at hs <;> try simp at hs
    · split at hs <;> simp at hs <;> subst hs <;> exact h
    · subst hs; exact h
  | cSample t =>
    simp only [step] at hs
    split at hs <;> try simp at hs
    split at hs <;> try simp at hs
    split at hs <;> simp at hs <;> subst hs <;> exact h
  | cNilSel t br =>
    simp only [step] at hs
    split at hs <;> try simp at hs
    split at hs <;> try simp at hs
    cases br <;> (try simp only at hs) <;> (try split at hs) <;> simp at hs
    · subst hs; exact h
    · subst hs; exact h
    · subst hs; exact h
  | cInnerSel t br =>
    simp only [step] at hs
    split at hs <;> try simp at hs
    split at hs <;> try simp at hs
    cases br <;> (try simp only at hs) <;> (try split at hs) <;> simp at hs <;> subst hs <;> exact h
  | cChk1 t =>
    simp only [step] at hs
    split at hs <;> try simp at hs
    split at hs <;> try simp at hs
    split at hs <;> simp at hs <;> subst hs <;> exact h
  | cChk2 t =>
    simp only [step] at hs
    split at hs <;> try simp at hs
    split at hs <;> try simp at hs
    split at hs <;> simp at hs <;> subst hs <;> exact h

/-- a finished call stays as it is -/
theorem done_stable_step (s s' : St) (e : Ev) (hs : step s e = some s') (t : Nat) (th : Th)
    (ht : s.th[t]? = some th) (hd : th.ts.isDone = true) :
    ∃ th', s'.th[t]? = some th' ∧ th'.ts = th.ts := by
  have hlt := lt_of_getElem? ht
  cases ho : e.obs with
  | none =>
    obtain ⟨u, thu, ts, _, hu, hth, _, _, hd2⟩ := internal_shape s s' e hs ho
    refine ⟨th, ?_, rfl⟩
    rw [hth]
    by_cases hut : u = t
    · subst hut; rw [ht] at hu; cases hu; rw [hd] at hd2; cases hd2
    · rw [getElem?_set_ne' _ _ _ _ hut]; exact ht
  | some o =>
    cases e with
    | newp q => simp only [step] at hs; split at hs <;> simp at hs; subst hs; exact ⟨th, ht, rfl⟩
    | quiesce bb B => simp only [step] at hs; split at hs <;> simp at hs; subst hs; exact ⟨th, ht, rfl⟩
    | invSet u q v e' =>
      simp only [step] at hs; split at hs <;> simp at hs; subst hs
      exact ⟨th, getElem?_snoc_left _ _ _ _ ht, rfl⟩
    | invAwait u q k =>
      simp only [step] at hs; split at hs <;> simp at hs; subst hs
      exact ⟨th, getElem?_snoc_left _ _ _ _ ht, rfl⟩
    | invCSetP u q =>
      simp only [step] at hs; split at hs <;> simp at hs; subst hs
      exact ⟨th, getElem?_snoc_left _ _ _ _ ht, rfl⟩
    | invCRes u v e' =>
      simp only [step] at hs; split at hs <;> simp at hs; subst hs
      exact ⟨th, getElem?_snoc_left _ _ _ _ ht, rfl⟩
    | invCAwait u k =>
      simp only [step] at hs; split at hs <;> simp at hs; subst hs
      exact ⟨th, getElem?_snoc_left _ _ _ _ ht, rfl⟩
    | envCancel u =>
      simp only [step] at hs; split at hs <;> simp at hs
      rename_i thu hu
      subst hs
      by_cases hut : u = t
      · subst hut; rw [ht] at hu; cases hu; exact ⟨{ th with cx := true }, by simp [hlt], rfl⟩
      · exact ⟨th, by simp only; rw [getElem?_set_ne' _ _ _ _ hut]; exact ht, rfl⟩
    | envFire u f =>
      simp only [step] at hs; split at hs <;> try simp at hs
      rename_i thu hu
      obtain ⟨_, rfl⟩ := hs
      by_cases hut : u = t
      · subst hut; rw [ht] at hu; cases hu; exact ⟨{ th with ch := some f }, by simp [hlt], rfl⟩
      · exact ⟨th, by simp only; rw [getElem?_set_ne' _ _ _ _ hut]; exact ht, rfl⟩
    | retSet u bb =>
      simp only [step] at hs
      split at hs <;> try simp at hs
      rename_i thu hu
      split at hs <;> try simp at hs
      rename_i q v e' b' hts
      obtain ⟨_, rfl⟩ := hs
      by_cases hut : u = t
      · subst hut; rw [ht] at hu; cases hu; rw [hts] at hd; cases hd
      · exact ⟨th, by simp only [setTs]; rw [getElem?_set_ne' _ _ _ _ hut]; exact ht, rfl⟩
    | retAwait u v e' =>
      simp only [step] at hs
      split at hs <;> try simp at hs
      rename_i thu hu
      split at hs <;> try simp at hs
      rename_i o' k v' e'' hts
      obtain ⟨_, rfl⟩ := hs
      by_cases hut : u = t
      · subst hut; rw [ht] at hu; cases hu; rw [hts] at hd; cases hd
      · exact ⟨th, by simp only [setTs]; rw [getElem?_set_ne' _ _ _ _ hut]; exact ht, rfl⟩
    | retCSetP u =>
      simp only [step] at hs
      split at hs <;> try simp at hs
      rename_i thu hu
      split at hs <;> try simp at hs
      rename_i q hts
      subst hs
      by_cases hut : u = t
      · subst hut; rw [ht] at hu; cases hu; rw [hts] at hd; cases hd
      · exact ⟨th, by simp only [setTs]; rw [getElem?_set_ne' _ _ _ _ hut]; exact ht, rfl⟩
    | retCRes u =>
      simp only [step] at hs
      split at hs <;> try simp at hs
      rename_i thu hu
      split at hs <;> try simp at hs
      rename_i q hts
      subst hs
      by_cases hut : u = t
      · subst hut; rw [ht] at hu; cases hu; rw [hts] at hd; cases hd
      · exact ⟨th, by simp only [setTs]; rw [getElem?_set_ne' _ _ _ _ hut]; exact ht, rfl⟩
    | _ => simp [Ev.obs] at ho

end UtilModel.Promise

namespace UtilModel.Promise
open UtilModel

/-- where a finished winning `SetResult` comes from -/
theorem setDone_backward (s s' : St) (e : Ev) (hs : step s e = some s') (t : Nat) (th' : Th)
    (p v : Nat) (er : Err) (ht' : s'.th[t]? = some th') (hts' : th'.ts = .setDone p v er true) :
    (∃ th, s.th[t]? = some th ∧ th.ts = .setDone p v er true) ∨
    (e = .retSet t true ∧ ∃ th, s.th[t]? = some th ∧ th.ts = .setRet p v er true) := by
  cases ho : e.obs with
  | none =>
    obtain ⟨u, thu, ts, _, hu, hth, _, hd1, _⟩ := internal_shape s s' e hs ho
    left
    rw [hth] at ht'
    rcases getElem?_set_cases s.th u t _ th' ht' with ⟨_, rfl⟩ | ⟨_, hx⟩
    · simp at hts'; rw [hts'] at hd1; cases hd1
    · exact ⟨th', hx, hts'⟩
  | some o =>
    cases e with
    | newp q => simp only [step] at hs; split at hs <;> simp at hs; subst hs; exact Or.inl ⟨th', ht', hts'⟩
    | quiesce bb B => simp only [step] at hs; split at hs <;> simp at hs; subst hs; exact Or.inl ⟨th', ht', hts'⟩
    | invSet u q v' e' =>
      simp only [step] at hs; split at hs <;> simp at hs; subst hs
      rcases getElem?_snoc_cases _ _ _ _ ht' with ⟨_, hx⟩ | ⟨_, rfl⟩
      · exact Or.inl ⟨th', hx, hts'⟩
      · cases hts'
    | invAwait u q k =>
      simp only [step] at hs; split at hs <;> simp at hs; subst hs
      rcases getElem?_snoc_cases _ _ _ _ ht' with ⟨_, hx⟩ | ⟨_, rfl⟩
      · exact Or.inl ⟨th', hx, hts'⟩
      · cases hts'
    | invCSetP u q =>
      simp only [step] at hs; split at hs <;> simp at hs; subst hs
      rcases getElem?_snoc_cases _ _ _ _ ht' with ⟨_, hx⟩ | ⟨_, rfl⟩
      · exact Or.inl ⟨th', hx, hts'⟩
      · cases hts'
    | invCRes u v' e' =>
      simp only [step] at hs; split at hs <;> simp at hs; subst hs
      rcases getElem?_snoc_cases _ _ _ _ ht' with ⟨_, hx⟩ | ⟨_, rfl⟩
      · exact Or.inl ⟨th', hx, hts'⟩
      · cases hts'
    | invCAwait u k =>
      simp only [step] at hs; split at hs <;> simp at hs; subst hs
      rcases getElem?_snoc_cases _ _ _ _ ht' with ⟨_, hx⟩ | ⟨_, rfl⟩
      · exact Or.inl ⟨th', hx, hts'⟩
      · cases hts'
    | envCancel u =>
      simp only [step] at hs; split at hs <;> simp at hs
      rename_i thu hu
      subst hs
      rcases getElem?_set_cases s.th u t _ th' ht' with ⟨rfl, rfl⟩ | ⟨_, hx⟩
      · exact Or.inl ⟨thu, hu, hts'⟩
      · exact Or.inl ⟨th', hx, hts'⟩
    | envFire u f =>
      simp only [step] at hs; split at hs <;> try simp at hs
      rename_i thu hu
      obtain ⟨_, rfl⟩ := hs
      rcases getElem?_set_cases s.th u t _ th' ht' with ⟨rfl, rfl⟩ | ⟨_, hx⟩
      · exact Or.inl ⟨thu, hu, hts'⟩
      · exact Or.inl ⟨th', hx, hts'⟩
    | retSet u bb =>
      simp only [step] at hs
      split at hs <;> try simp at hs
      rename_i thu hu
      split at hs <;> try simp at hs
      rename_i q v' e' b' hts
      obtain ⟨rfl, rfl⟩ := hs
      simp only [setTs] at ht'
      rcases getElem?_set_cases s.th u t _ th' ht' with ⟨rfl, rfl⟩ | ⟨_, hx⟩
      · simp at hts'
        obtain ⟨rfl, rfl, rfl, rfl⟩ := hts'
        exact Or.inr ⟨rfl, thu, hu, hts⟩
      · exact Or.inl ⟨th', hx, hts'⟩
    | retAwait u v' e' =>
      simp only [step] at hs
      split at hs <;> try simp at hs
      rename_i thu hu
      split at hs <;> try simp at hs
      obtain ⟨_, rfl⟩ := hs
      simp only [setTs] at ht'
      rcases getElem?_set_cases s.th u t _ th' ht' with ⟨_, rfl⟩ | ⟨_, hx⟩
      · cases hts'
      · exact Or.inl ⟨th', hx, hts'⟩
    | retCSetP u =>
      simp only [step] at hs
      split at hs <;> try simp at hs
      rename_i thu hu
      split at hs <;> try simp at hs
      subst hs
      simp only [setTs] at ht'
      rcases getElem?_set_cases s.th u t _ th' ht' with ⟨_, rfl⟩ | ⟨_, hx⟩
      · cases hts'
      · exact Or.inl ⟨th', hx, hts'⟩
    | retCRes u =>
      simp only [step] at hs
      split at hs <;> try simp at hs
      rename_i thu hu
      split at hs <;> try simp at hs
      subst hs
      simp only [setTs] at ht'
      rcases getElem?_set_cases s.th u t _ th' ht' with ⟨_, rfl⟩ | ⟨_, hx⟩
      · cases hts'
      · exact Or.inl ⟨th', hx, hts'⟩
    | _ => simp [Ev.obs] at ho

theorem proms_len_step (s s' : St) (e : Ev) (hs : step s e = some s') :
    s'.proms.length = s.proms.length + (match e with | .newp _ => 1 | _ => 0) := by
  cases e with
  | newp q => simp only [step] at hs; split at hs <;> simp at hs; subst hs; simp
  | swap t =>
    simp only [step] at hs
    split at hs <;> try simp at hs
    split at hs <;> try simp at hs
    split at hs <;> try simp at hs
    split at hs <;> simp at hs <;> subst hs <;> simp [setTs]
  | publish t =>
    simp only [step] at hs
    split at hs <;> try simp at hs
    split at hs <;> try simp at hs
    split at hs <;> simp at hs
    subst hs; simp [setTs]
  | invSet t q v e' => simp only [step] at hs; split at hs <;> simp at hs; subst hs; simp
  | invAwait t q k => simp only [step] at hs; split at hs <;> simp at hs; subst hs; simp
  | invCSetP t q => simp only [step] at hs; split at hs <;> simp at hs; subst hs; simp
  | invCRes t v e' => simp only [step] at hs; split at hs <;> simp at hs; subst hs; simp
  | invCAwait t k => simp only [step] at hs; split at hs <;> simp at hs; subst hs; simp
  | quiesce bb B => simp only [step] at hs; split at hs <;> simp at hs; subst hs; simp
  | envCancel t => simp only [step] at hs; split at hs <;> simp at hs; subst hs; simp
  | envFire t f =>
    simp only [step] at hs; split at hs <;> try simp at hs
    obtain ⟨_, rfl⟩ := hs; simp
  | retSet t bb =>
    simp only [step] at hs
    split at hs <;> try simp at hs
    split at hs <;> try simp at hs
    obtain ⟨_, rfl⟩ := hs; simp [setTs]
  | retAwait t v e' =>
    simp only [step] at hs
    split at hs <;> try simp at hs
    split at hs <;> try simp at hs
    obtain ⟨_, rfl⟩ := hs; simp [setTs]
  | retCSetP t =>
    simp only [step] at hs
    split at hs <;> try simp at hs
    split at hs <;> try simp at hs
    subst hs; simp [setTs]
  | retCRes t =>
    simp only [step] at hs
    split at hs <;> try simp at hs
    split at hs <;> try simp at hs
    subst hs; simp [setTs]
  | awSel t br =>
    simp only [step] at hs
    split at hs <;> try simp at hs
    split at hs <;> try simp at hs
    cases br <;> (try simp only at hs) <;> (try split at hs) <;> simp at hs <;> subst hs <;> simp [setTs]
  | cWCS t =>
    simp only [step] at hs
    split at hs <;> try simp at hs
    split at hs <;> try simp at hs
    · split at hs <;> simp at hs <;> subst hs <;> simp [setTs]
    · subst hs; simp [setTs]
  | cSample t =>
    simp only [step] at hs
    split at hs <;> try simp at hs
    split at hs <;> try simp at hs
    split at hs <;> simp at hs <;> subst hs <;> simp [setTs]
  | cNilSel t br =>
    simp only [step] at hs
    split at hs <;> try simp at hs
    split at hs <;> try simp at hs
    cases br <;> (try simp only at hs) <;> (try split at hs) <;> simp at hs
    · subst hs; simp [setTs]
    · subst hs; simp [setTs]
    · subst hs; simp [setTs]
  | cInnerSel t br =>
    simp only [step] at hs
    split at hs <;> try simp at hs
    split at hs <;> try simp at hs
    cases br <;> (try simp only at hs) <;> (try split at hs) <;> simp at hs <;> subst hs <;> simp [setTs]
  | cChk1 t =>
    simp only [step] at hs
    split at hs <;> try simp at hs
    split at hs <;> try simp at hs
    split at hs <;> simp at hs <;> subst hs <;> simp [setTs]
  | cChk2 t =>
    simp only [step] at hs
    split at hs <;> try simp at hs
    split at hs <;> try simp at hs
    split at hs <;> simp at hs <;> subst hs <;> simp [setTs]

end UtilModel.Promise

namespace UtilModel.Promise
open UtilModel

structure RSet (s : St) (ms : SetSt) : Prop where
  inv : Inv s
  rk : RK s ms.b
  len : ms.pw.length = s.proms.length
  won : ∀ (p : Nat) (i : PW) (w : Nat), ms.pw[p]? = some i → i.won = some w → winnerOf s p = some w
  cands : ∀ (p : Nat) (i : PW) (L : List Nat), ms.pw[p]? = some i → i.cands = some L →
    ∃ w, w ∈ L ∧ winnerOf s p = some w
  lost : ∀ t, t ∈ ms.lost → ∃ (th : Th) (p v : Nat) (e : Err), s.th[t]? = some th ∧ th.ts = .setDone p v e false
  retTrue : ∀ (t : Nat) (th : Th) (p v : Nat) (e : Err), s.th[t]? = some th → th.ts = .setDone p v e true →
    ∃ i, ms.pw[p]? = some i ∧ i.won = some t

/-- the relation survives a step that is neither `newp` nor the return of a winning `SetResult`,
when the monitor changes only its bookkeeping -/
theorem rset_next (s s' : St) (e : Ev) (ms : SetSt) (b' : Book) (hR : RSet s ms) (hs : step s e = some s')
    (hn : ∀ q, e ≠ .newp q) (hr : ∀ t, e ≠ .retSet t true) (hrk : RK s' b') :
    RSet s' { ms with b := b' } := by
  refine ⟨step_inv s e s' hR.inv hs, hrk, ?_, ?_, ?_, ?_, ?_⟩
  · have := proms_len_step s s' e hs
    rw [this, hR.len]
    cases e <;> simp
    exact absurd rfl (hn _)
  · intro p i w hp hw
    exact winner_mono_step s s' e hs p w (hR.won p i w hp hw)
  · intro p i L hp hL
    obtain ⟨w, h1, h2⟩ := hR.cands p i L hp hL
    exact ⟨w, h1, winner_mono_step s s' e hs p w h2⟩
  · intro t ht
    obtain ⟨th, p, v, e', h1, h2⟩ := hR.lost t ht
    obtain ⟨th', h3, h4⟩ := done_stable_step s s' e hs t th h1 (by rw [h2]; rfl)
    exact ⟨th', p, v, e', h3, by rw [h4, h2]⟩
  · intro t th' p v e' ht' hts'
    rcases setDone_backward s s' e hs t th' p v e' ht' hts' with ⟨th, h1, h2⟩ | ⟨h1, _⟩
    · exact hR.retTrue t th p v e' h1 h2
    · exact absurd h1 (hr t)

theorem rset_init : RSet model.init monC11set.init := by
  refine ⟨init_inv, rk_init, rfl, ?_, ?_, ?_, ?_⟩ <;> intros <;> simp_all [monC11set, model]

theorem winBy_ok (s : St) (ms : SetSt) (hR : RSet s ms) (p w : Nat) (hp : p < s.proms.length)
    (hw : winnerOf s p = some w) :
    ∃ i, ms.pw[p]? = some i ∧ winBy ms p w = some { ms with pw := ms.pw.set p { i with won := some w } } := by
  have hl : p < ms.pw.length := by rw [hR.len]; exact hp
  obtain ⟨i, hi⟩ : ∃ i, ms.pw[p]? = some i := ⟨ms.pw[p], by simp⟩
  refine ⟨i, hi, ?_⟩
  have h1 : i.won = none ∨ i.won = some w := by
    cases hwo : i.won with
    | none => exact Or.inl rfl
    | some w' => have := hR.won p i w' hi hwo; rw [hw] at this; cases this; exact Or.inr rfl
  have h2 : Option.all (fun x => decide (w ∈ x)) i.cands = true := by
    cases hc : i.cands with
    | none => rfl
    | some L =>
      obtain ⟨w', hm, hw'⟩ := hR.cands p i L hi hc
      rw [hw] at hw'; cases hw'
      simpa using hm
  simp [winBy, hi, h1, h2]

/-- the relation after the monitor learned that `w` won `p` (and possibly that a call lost) -/
theorem rset_won (s : St) (ms : SetSt) (hR : RSet s ms) (p w : Nat) (i : PW) (hi : ms.pw[p]? = some i)
    (hw : winnerOf s p = some w) : RSet s { ms with pw := ms.pw.set p { i with won := some w } } := by
  refine ⟨hR.inv, hR.rk, by simp [hR.len], ?_, ?_, hR.lost, ?_⟩
  · intro q j w' hq hw'
    simp only at hq
    rcases getElem?_set_cases ms.pw p q _ j hq with ⟨rfl, rfl⟩ | ⟨_, hx⟩
    · simp at hw'; subst hw'; exact hw
    · exact hR.won q j w' hx hw'
  · intro q j L hq hL
    simp only at hq
    rcases getElem?_set_cases ms.pw p q _ j hq with ⟨rfl, rfl⟩ | ⟨_, hx⟩
    · exact hR.cands q i L hi hL
    · exact hR.cands q j L hx hL
  · intro t th q v e ht hts
    obtain ⟨j, hj, hjw⟩ := hR.retTrue t th q v e ht hts
    by_cases hqp : q = p
    · subst hqp
      rw [hi] at hj; cases hj
      have := hR.won q i t hi hjw
      rw [hw] at this; cases this
      exact ⟨{ i with won := some w }, by simp [lt_of_getElem? hi], rfl⟩
    · exact ⟨j, by simp only; rw [getElem?_set_ne' _ _ _ _ (fun e => hqp e.symm)]; exact hj, hjw⟩

end UtilModel.Promise
