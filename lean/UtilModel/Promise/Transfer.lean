import UtilModel.Core.LTSHash
import UtilModel.Core.LTSComplete
import UtilModel.Promise.SimLive
import UtilModel.Promise.SimSet
import UtilModel.Promise.SimCur
import UtilModel.Promise.SimWhy
/-!
# Promise — end-to-end transfer

If the driver's trace-inclusion decision accepts a history recorded from the Go implementation, the
property monitor accepts that history: composition of the checker's soundness theorem
(`accepts_sound` / `acceptsH_sound`) with this package's observable-form property theorem.
-/
namespace UtilModel

theorem C11_accepted (cap fuel : Nat) (h : List Promise.Obs)
    (ha : Promise.model.acceptsH cap fuel h = true) :
    Promise.monC11set.accepts h = true ∧ Promise.monC11why.accepts h = true ∧
    Promise.monC11cur.accepts h = true ∧ Promise.monC11live.accepts h = true :=
  ⟨acceptedH_satisfies Promise.model (fun h => Promise.monC11set.accepts h = true)
      Promise.C11set_obs cap fuel h ha,
   acceptedH_satisfies Promise.model (fun h => Promise.monC11why.accepts h = true)
      Promise.C11why_obs cap fuel h ha,
   acceptedH_satisfies Promise.model (fun h => Promise.monC11cur.accepts h = true)
      Promise.C11cur_obs cap fuel h ha,
   acceptedH_satisfies Promise.model (fun h => Promise.monC11live.accepts h = true)
      Promise.C11live_obs cap fuel h ha⟩

/-! ## completeness of the candidate lists: a REJECT is about the model -/

theorem Promise.mem_internalCands (n t : Nat) (e : Promise.Ev) (ht : t < n)
    (he : e ∈ [Promise.Ev.swap t, .publish t, .awSel t .ctx, .awSel t .usr, .awSel t .res, .cWCS t, .cSample t,
     .cNilSel t .ctx, .cNilSel t .usr, .cNilSel t .wait,
     .cInnerSel t .ctx, .cInnerSel t .wait, .cInnerSel t .res, .cChk1 t, .cChk2 t]) :
    e ∈ Promise.internalCands n := by
  unfold Promise.internalCands
  exact List.mem_flatMap.mpr ⟨t, List.mem_range.mpr ht, he⟩

theorem Promise.lt_of_getElem? {α} (l : List α) (t : Nat) (a : α) (h : l[t]? = some a) : t < l.length := by
  exact (List.getElem?_eq_some_iff.mp h).1

theorem complete_promise : Promise.model.Complete := by
  refine ⟨?_, ?_⟩
  · intro s e s' hs ho
    show e ∈ Promise.internalCands s.th.length
    change Promise.step s e = some s' at hs
    change e.obs = none at ho
    cases e <;> simp [Promise.Ev.obs] at ho <;> simp only [Promise.step] at hs
    case awSel t br =>
      split at hs <;> try simp at hs
      rename_i th hth
      have hlt := Promise.lt_of_getElem? _ _ _ hth
      cases br
      all_goals
        first
          | (refine Promise.mem_internalCands _ _ _ hlt ?_; simp; done)
          | (split at hs <;> simp at hs)
    case cNilSel t br =>
      split at hs <;> try simp at hs
      rename_i th hth
      have hlt := Promise.lt_of_getElem? _ _ _ hth
      cases br
      all_goals
        first
          | (refine Promise.mem_internalCands _ _ _ hlt ?_; simp; done)
          | (split at hs <;> simp at hs)
    case cInnerSel t br =>
      split at hs <;> try simp at hs
      rename_i th hth
      have hlt := Promise.lt_of_getElem? _ _ _ hth
      cases br
      all_goals
        first
          | (refine Promise.mem_internalCands _ _ _ hlt ?_; simp; done)
          | (split at hs <;> simp at hs)
    all_goals
      split at hs <;> try simp at hs
      rename_i th hth
      have hlt := Promise.lt_of_getElem? _ _ _ hth
      refine Promise.mem_internalCands _ _ _ hlt ?_
      simp
  · intro s e s' o hs ho
    show e ∈ o.evs
    change e.obs = some o at ho
    cases e <;> simp [Promise.Ev.obs] at ho <;> subst ho <;> simp [Promise.Obs.evs]

theorem reject_sound_promise (cap fuel : Nat) (h : List Promise.Obs) (i : Nat)
    (hfail : (Promise.model.accRunH cap fuel [Promise.model.init] h 0 false 1).failedAt = some i)
    (htr : (Promise.model.accRunH cap fuel [Promise.model.init] h 0 false 1).truncated = false) :
    ¬ ∃ es s, Promise.model.run Promise.model.init es = some s ∧ es.filterMap Promise.model.obs = h :=
  rejectH_sound Promise.model complete_promise cap fuel h i hfail htr
end UtilModel
