import UtilModel.Core.LTSHash
import UtilModel.Promise.SimLive
import UtilModel.Promise.SimSet
import UtilModel.Promise.SimCur
import UtilModel.Promise.SimWhy
/-!
# Promise — end-to-end transfer

If the driver's trace-inclusion decision accepts a history recorded from the Go implementation, the
property monitor accepts that history: composition of the checker's soundness theorem
(`accepts_sound` / `acceptsH_sound`) with this package's observable-form property theorem.
-/
namespace UtilModel

theorem C11_accepted (cap fuel : Nat) (h : List Promise.Obs)
    (ha : Promise.model.acceptsH cap fuel h = true) :
    Promise.monC11set.accepts h = true ∧ Promise.monC11why.accepts h = true ∧
    Promise.monC11cur.accepts h = true ∧ Promise.monC11live.accepts h = true :=
  ⟨acceptedH_satisfies Promise.model (fun h => Promise.monC11set.accepts h = true)
      Promise.C11set_obs cap fuel h ha,
   acceptedH_satisfies Promise.model (fun h => Promise.monC11why.accepts h = true)
      Promise.C11why_obs cap fuel h ha,
   acceptedH_satisfies Promise.model (fun h => Promise.monC11cur.accepts h = true)
      Promise.C11cur_obs cap fuel h ha,
   acceptedH_satisfies Promise.model (fun h => Promise.monC11live.accepts h = true)
      Promise.C11live_obs cap fuel h ha⟩

end UtilModel
