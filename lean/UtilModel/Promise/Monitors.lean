import UtilModel.Promise.Model
import UtilModel.Core.Monitor
import UtilModel.Core.Driver
/-!
# promise: property C11 as executable monitors over observable histories

The monitors mention only API-level events (invocations, responses, context cancellations, channel
firings, quiescence points). They share one piece of bookkeeping (`Book`, updated by the total
function `Book.update`); each monitor is the bookkeeping plus one check (`ofCheck`):

* `monC11set`  — of all `SetResult` calls on one promise exactly the first returns true, and an
                 await completing by result returns that call's value and error;
* `monC11why`  — an await that returns without a result has a reason: its context was cancelled, its own
                 channel fired (and it returns what that channel dictates), or the promise was constructed
                 pre-resolved by `NewPromiseWithErr(e)` (then it returns `(zero, e)`); and
                 `promise.CheckPromiseLike` reports no misbehaviour;
* `monC11cur`  — a container awaiter returns the result of a promise that was current during the call,
                 after the last quiescence point at which it was still pending (there it had observed every
                 earlier replacement: the result of a promise removed before that point is not accepted)
                 (and returns through its own channel only if the container was empty during the call);
* `monC11live` — at a quiescence point no awaiter is pending although a result is available, its
                 context is cancelled or (plain promise / empty container) its channel fired; and the
                 process did not burn CPU while awaiters were blocked;
* `monC11ch`   — the remaining clause "a container awaiter returns as soon as its error/cancel
                 channel fires" (open finding D9: false for the code, see `Props.lean`).

Values identify calls: `SetResult` call number `t` passes the value `t+1`; `0` is "no result".
-/
namespace UtilModel.Promise
open UtilModel

inductive CK where
  | set (p : Nat) (e : Err)
  | await (p : Nat) (k : AK)
  | csetp (p : Option Nat)
  | cres (e : Err)
  | cawait (k : AK)
deriving DecidableEq, Repr, Inhabited

structure Call where
  kind : CK
  ret : Bool := false                 -- the call has returned
  cx : Bool := false                  -- its context was cancelled
  ch : Option Fire := none            -- what happened to its own channel
  seen : List (Option PRef) := []     -- cawait: container contents possibly current at some time during the call
  preds : List Nat := []              -- csetp/cres: writer calls that had already returned when this one was invoked
  dead : Bool := false                -- csetp/cres: certainly overwritten by a later writer
deriving DecidableEq, Repr, Inhabited

structure Book where
  calls : List Call := []
  nproms : Nat := 0
  initDead : Bool := false            -- the initial (empty) content is certainly overwritten
  pubP : List Nat := []               -- plain promises known to be resolved (a SetResult returned true / an await returned its result / born resolved)
  bornP : List (Nat × Err) := []      -- promises constructed pre-resolved by NewPromiseWithErr(e): they hold (zero, e)
deriving Repr

/-- what a container writer call stores -/
def Call.target (t : Nat) (c : Call) : Option (Option PRef) :=
  match c.kind with
  | .csetp p => some (p.map .plain)
  | .cres e => some (some (.fixed t e))
  | _ => none

def isWriter (c : Call) : Bool :=
  match c.kind with
  | .csetp _ | .cres _ => true
  | _ => false

/-- contents the container may have right now: targets of writer calls not certainly overwritten -/
def Book.candidates (b : Book) : List (Option PRef) :=
  (if b.initDead then [] else [none]) ++
  (List.range b.calls.length).filterMap fun t => match b.calls[t]? with
    | some c => if c.dead then none else c.target t
    | none => none

def Book.returnedWriters (b : Book) : List Nat :=
  (List.range b.calls.length).filter fun t => match b.calls[t]? with
    | some c => isWriter c && c.ret
    | none => false

def Book.modify (b : Book) (t : Nat) (f : Call → Call) : Book :=
  match b.calls[t]? with
  | some c => { b with calls := b.calls.set t (f c) }
  | none => b

/-- a writer was invoked: every pending container awaiter may see its target -/
def Book.addWriter (b : Book) (c : Call) (tgt : Option PRef) : Book :=
  { b with calls := (b.calls.map fun a => match a.kind with
                      | .cawait _ => if a.ret then a else { a with seen := tgt :: a.seen }
                      | _ => a) ++ [{ c with preds := b.returnedWriters }] }

def Book.markDead (b : Book) (ds : List Nat) : Book :=
  { b with calls := b.calls.mapIdx fun u c => if ds.contains u then { c with dead := true } else c }

/-- at a quiescence point a pending container awaiter is parked on the content the container has
right now: it has observed every earlier replacement, so what it may still return is a result of
one of the present candidates (or of a writer invoked later) -/
def Book.resetSeen (b : Book) (B : List Nat) : Book :=
  { b with calls := b.calls.mapIdx fun u c =>
      match c.kind with
      | .cawait _ => if B.contains u then { c with seen := b.candidates } else c
      | _ => c }

def Book.update (b : Book) : Obs → Book
  | .newp _ => { b with nproms := b.nproms + 1 }
  | .newpe p e => { b with nproms := b.nproms + 1, pubP := p :: b.pubP, bornP := (p, e) :: b.bornP }
  | .checkLike _ _ => b
  | .invSet _ p _ e => { b with calls := b.calls ++ [{ kind := .set p e }] }
  | .invAwait _ p k => { b with calls := b.calls ++ [{ kind := .await p k }] }
  | .invCAwait _ k => { b with calls := b.calls ++ [{ kind := .cawait k, seen := b.candidates }] }
  | .invCSetP _ p => b.addWriter { kind := .csetp p } (p.map .plain)
  | .invCRes t _ e => b.addWriter { kind := .cres e } (some (.fixed t e))
  | .retCSetP t | .retCRes t =>
    match b.calls[t]? with
    | some c => { (b.modify t fun c => { c with ret := true }).markDead c.preds with initDead := true }
    | none => b
  | .retSet t r =>
    match b.calls[t]? with
    | some c =>
      let b' := b.modify t fun c => { c with ret := true }
      match c.kind, r with
      | .set p _, true => { b' with pubP := p :: b'.pubP }
      | _, _ => b'
    | none => b
  | .retAwait t v _ =>
    let b' := b.modify t fun c => { c with ret := true }
    if v = 0 then b' else
    match b.calls[v - 1]? with
    | some c => match c.kind with
      | .set p _ => { b' with pubP := p :: b'.pubP }
      | _ => b'
    | none => b'
  | .envCancel t => b.modify t fun c => { c with cx := true }
  | .envFire t f => b.modify t fun c => { c with ch := some f }
  | .retPanic _ => b
  | .quiesce _ B => b.resetSeen B

/-- a monitor made of the bookkeeping and one check on (state before, observable) -/
def ofCheck (chk : Book → Obs → Bool) : ObsMonitor Obs Book where
  init := {}
  step := fun b o => if chk b o then some (b.update o) else none

/-! ## C11, set-once and await-result -/

/-- what is known about who won the swap of one promise -/
structure PW where
  won : Option Nat := none            -- the call known to have won
  cands : Option (List Nat) := none   -- if some: the winner is one of these calls
  born : Bool := false                -- constructed pre-resolved: every SetResult on it returns false
deriving DecidableEq, Repr, Inhabited

structure SetSt where
  b : Book := {}
  pw : List PW := []
  lost : List Nat := []               -- `SetResult` calls that returned false
deriving Repr

/-- pending `SetResult` calls on promise `p` other than `t` -/
def pendingSets (b : Book) (p t : Nat) : List Nat :=
  (List.range b.calls.length).filter fun u => u != t && match b.calls[u]? with
    | some c => !c.ret && (match c.kind with | .set p' _ => p' == p | _ => false)
    | none => false

/-- the calls that may have won against the loser `t`: the candidates known so far, or every other
pending `SetResult` on the promise -/
def lostCands (b : Book) (i : PW) (p t : Nat) : List Nat :=
  match i.cands with
  | some L => L.filter (· != t)
  | none => pendingSets b p t

/-- call `w` is observed to have won promise `p` -/
def winBy (ms : SetSt) (p w : Nat) : Option SetSt :=
  match ms.pw[p]? with
  | some i =>
    if i.born = false ∧ (i.won = none ∨ i.won = some w) ∧ i.cands.all (·.contains w) = true then
      some { ms with pw := ms.pw.set p { i with won := some w } }
    else none
  | none => none

def monC11set : ObsMonitor Obs SetSt where
  init := {}
  step := fun ms o =>
    let next : SetSt → Option SetSt := fun m => some { m with b := m.b.update o }
    match o with
    | .newp _ => next { ms with pw := ms.pw ++ [{}] }
    | .newpe _ _ => next { ms with pw := ms.pw ++ [{ born := true }] }
    | .retPanic _ => none
    | .retSet t r =>
      match ms.b.calls[t]? with
      | some c => match c.kind with
        | .set p _ =>
          if c.ret then none else
          if r then (winBy ms p t).bind next
          else match ms.pw[p]? with
            | some i =>
              if i.born then next { ms with lost := t :: ms.lost }
              else if i.won = some t then none
              else if i.won.isSome then next { ms with lost := t :: ms.lost }
              else
                let L := lostCands ms.b i p t
                if L.isEmpty then none else next { ms with pw := ms.pw.set p { i with cands := some L }, lost := t :: ms.lost }
            | none => none
        | _ => none
      | none => none
    | .retAwait t v e =>
      match ms.b.calls[t]? with
      | some c =>
        if c.ret then none else
        if v = 0 then (match c.kind with | .await .. | .cawait _ => next ms | _ => none) else
        match ms.b.calls[v - 1]? with
        | some w => match w.kind, c.kind with
          | .set p e', .await p' _ =>
            if p = p' ∧ e = e' ∧ (v - 1) ∉ ms.lost then (winBy ms p (v - 1)).bind next else none
          | .set p e', .cawait _ =>
            if e = e' ∧ (v - 1) ∉ ms.lost then (winBy ms p (v - 1)).bind next else none
          | .cres e', .cawait _ => if e = e' then next ms else none
          | _, _ => none
        | none => none
      | none => none
    | _ => next ms

/-! ## C11, the other clauses as checks over the bookkeeping -/

/-- a return without a result has a reason -/
def chkWhy (b : Book) : Obs → Bool
  | .retAwait t v e =>
    if v ≠ 0 then true else
    match b.calls[t]? with
    | some c => match c.kind with
      | .await p k => (e = .canceled && c.cx) || usrPlain k c.ch = some (0, e) || b.bornP.contains (p, e)
      | .cawait k => (e = .canceled && c.cx) || usrNil k c.ch = some (0, e)
      | _ => false
    | none => false
  | .checkLike good ok => ok == good   -- promise.CheckPromiseLike accepts the real implementations and rejects the wrong fakes
  | _ => true

/-- a container awaiter's result belongs to a promise that was current during the call -/
def chkCur (b : Book) : Obs → Bool
  | .retAwait t v e =>
    if v = 0 then
      -- returned through its own channel: only possible while the container was empty
      match b.calls[t]? with
      | some c => match c.kind with
        | .cawait _ => (e = .canceled && c.cx) || c.seen.contains none
        | _ => true
      | none => true
    else
    match b.calls[t]?, b.calls[v - 1]? with
    | some c, some w => match c.kind, w.kind with
      | .cawait _, .set p _ => c.seen.contains (some (.plain p))
      | .cawait _, .cres e => c.seen.contains (some (.fixed (v - 1) e))
      | _, _ => true
    | _, _ => true
  | _ => true

def Book.pubKnown (b : Book) : PRef → Bool
  | .plain p => b.pubP.contains p
  | .fixed _ _ => true

/-- a pending call at a quiescence point is a blocked awaiter with nothing to return -/
def chkLive (b : Book) : Obs → Bool
  | .quiesce busy B =>
    (!busy || B.isEmpty) &&
    B.all fun t => match b.calls[t]? with
      | some c => match c.kind with
        | .await p k => !c.cx && !usrFired k c.ch && !b.pubP.contains p
        | .cawait k => !c.cx && !(b.candidates.all fun x => match x with
            | none => usrFired k c.ch
            | some r => b.pubKnown r)
        | _ => false
      | none => false
  | _ => true

/-- D9 clause: no container awaiter is pending at a quiescence point with its own channel fired -/
def chkCh (b : Book) : Obs → Bool
  | .quiesce _ B =>
    B.all fun t => match b.calls[t]? with
      | some c => match c.kind with
        | .cawait k => !usrFired k c.ch
        | _ => true
      | none => true
  | _ => true

def monC11why : ObsMonitor Obs Book := ofCheck chkWhy
def monC11cur : ObsMonitor Obs Book := ofCheck chkCur
def monC11live : ObsMonitor Obs Book := ofCheck chkLive
def monC11ch : ObsMonitor Obs Book := ofCheck chkCh

end UtilModel.Promise

namespace UtilModel.Promise
open UtilModel

/-- the monitors of C11 as registered with the driver -/
def promiseMons : List (MonEntry Obs) :=
  [MonEntry.ofMonitor "C11set" monC11set, MonEntry.ofMonitor "C11why" monC11why,
   MonEntry.ofMonitor "C11cur" monC11cur, MonEntry.ofMonitor "C11live" monC11live,
   MonEntry.ofMonitor "C11ch" monC11ch]

end UtilModel.Promise
