import UtilModel.Promise.SimSet
/-!
# promise — the container's writers: what may be current (`candidates`), and `monC11live`
-/
namespace UtilModel.Promise
open UtilModel

/-- the container writer call a program counter belongs to -/
def TS.writerOf : TS → Option CW
  | .cWInv w | .cRet w | .cDone w => some w
  | _ => none

/-- the writer's critical section has been executed -/
def TS.written : TS → Bool
  | .cRet _ | .cDone _ => true
  | _ => false

/-- what writer call `t` stores -/
def tgtOf (t : Nat) : CW → Option PRef
  | .setp p => p.map .plain
  | .res e => some (.fixed t e)

theorem internal_nonwriter (s s' : St) (e : Ev) (hs : step s e = some s') (ho : e.obs = none)
    (hn : ∀ t, e ≠ .cWCS t) :
    s'.slot = s.slot ∧ ∃ (t : Nat) (th : Th) (ts : TS), s.th[t]? = some th ∧
      s'.th = s.th.set t { th with ts := ts } ∧ th.ts.writerOf = none ∧ ts.writerOf = none := by
  cases e with
  | swap t =>
    simp only [step] at hs
    split at hs <;> try simp at hs
    rename_i th ht
    split at hs <;> try simp at hs
    rename_i q v e' hts
    split at hs <;> try simp at hs
    split at hs <;> simp at hs <;> subst hs <;>
      exact ⟨rfl, t, th, _, ht, rfl, by simp [hts, TS.writerOf], rfl⟩
  | publish t =>
    simp only [step] at hs
    split at hs <;> try simp at hs
    rename_i th ht
    split at hs <;> try simp at hs
    rename_i q v e' hts
    split at hs <;> simp at hs
    subst hs
    exact ⟨rfl, t, th, _, ht, rfl, by simp [hts, TS.writerOf], rfl⟩
  | awSel t br =>
    simp only [step] at hs
    split at hs <;> try simp at hs
    rename_i th ht
    split at hs <;> try simp at hs
    rename_i p k hts
    cases br <;> (try simp only at hs) <;> (try split at hs) <;> simp at hs <;> subst hs <;>
      exact ⟨rfl, t, th, _, ht, rfl, by simp [hts, TS.writerOf], rfl⟩
  | cWCS t => exact absurd rfl (hn t)
  | cSample t =>
    simp only [step] at hs
    split at hs <;> try simp at hs
    rename_i th ht
    split at hs <;> try simp at hs
    rename_i k hts
    split at hs <;> simp at hs <;> subst hs <;>
      exact ⟨rfl, t, th, _, ht, rfl, by simp [hts, TS.writerOf], rfl⟩
  | cNilSel t br =>
    simp only [step] at hs
    split at hs <;> try simp at hs
    rename_i th ht
    split at hs <;> try simp at hs
    rename_i k c hts
    cases br <;> (try simp only at hs) <;> (try split at hs) <;> simp at hs
    · subst hs; exact ⟨rfl, t, th, _, ht, rfl, by simp [hts, TS.writerOf], rfl⟩
    · subst hs; exact ⟨rfl, t, th, _, ht, rfl, by simp [hts, TS.writerOf], rfl⟩
    · subst hs; exact ⟨rfl, t, th, _, ht, rfl, by simp [hts, TS.writerOf], rfl⟩
  | cInnerSel t br =>
    simp only [step] at hs
    split at hs <;> try simp at hs
    rename_i th ht
    split at hs <;> try simp at hs
    rename_i k r c hts
    cases br <;> (try simp only at hs) <;> (try split at hs) <;> simp at hs <;> subst hs <;>
      exact ⟨rfl, t, th, _, ht, rfl, by simp [hts, TS.writerOf], rfl⟩
  | cChk1 t =>
    simp only [step] at hs
    split at hs <;> try simp at hs
    rename_i th ht
    split at hs <;> try simp at hs
    rename_i k c v hts
    split at hs <;> simp at hs <;> subst hs <;>
      exact ⟨rfl, t, th, _, ht, rfl, by simp [hts, TS.writerOf], rfl⟩
  | cChk2 t =>
    simp only [step] at hs
    split at hs <;> try simp at hs
    rename_i th ht
    split at hs <;> try simp at hs
    rename_i k c v hts
    split at hs <;> simp at hs <;> subst hs <;>
      exact ⟨rfl, t, th, _, ht, rfl, by simp [hts, TS.writerOf], rfl⟩
  | _ => simp [Ev.obs] at ho

theorem cw_shape (s s' : St) (t : Nat) (hs : step s (.cWCS t) = some s') :
    ∃ (th : Th) (wk : CW), s.th[t]? = some th ∧ th.ts = .cWInv wk ∧
      s'.th = s.th.set t { th with ts := .cRet wk } ∧ s'.slot = tgtOf t wk := by
  simp only [step] at hs
  split at hs <;> try simp at hs
  rename_i th ht
  split at hs <;> try simp at hs
  · rename_i p hts
    split at hs <;> simp at hs <;> subst hs
    · rename_i hsl
      exact ⟨th, _, ht, hts, rfl, by simp [setTs, tgtOf, hsl]⟩
    · exact ⟨th, _, ht, hts, rfl, by simp [setTs, tgtOf]⟩
  · rename_i e hts
    subst hs
    exact ⟨th, _, ht, hts, rfl, by simp [setTs, tgtOf]⟩

end UtilModel.Promise

namespace UtilModel.Promise
open UtilModel

/-- part 2 of the bookkeeping relation: the container's writers -/
structure RW (s : St) (b : Book) : Prop where
  preds : ∀ (y : Nat) (cy : Call), b.calls[y]? = some cy → ∀ x, x ∈ cy.preds →
    ∃ cx, b.calls[x]? = some cx ∧ cx.ret = true
  dead : ∀ (y : Nat) (cy : Call), b.calls[y]? = some cy → cy.dead = true → cy.ret = true
  cur : (∃ (w : Nat) (thw : Th) (cw : Call) (wk : CW), s.th[w]? = some thw ∧ thw.ts.written = true ∧
            thw.ts.writerOf = some wk ∧ b.calls[w]? = some cw ∧ cw.dead = false ∧ s.slot = tgtOf w wk ∧
            ∀ (y : Nat) (thy : Th) (cy : Call), s.th[y]? = some thy → thy.ts.written = true →
              b.calls[y]? = some cy → w ∉ cy.preds)
        ∨ (s.slot = none ∧ b.initDead = false ∧
            ∀ (y : Nat) (thy : Th), s.th[y]? = some thy → thy.ts.written = false)

theorem rw_init : RW model.init {} := by
  refine ⟨?_, ?_, Or.inr ⟨rfl, rfl, ?_⟩⟩ <;> intros <;> simp_all [model]

theorem target_of_kind (w : Nat) (ts : TS) (wk : CW) (c : Call) (hw : ts.writerOf = some wk)
    (hk : c.kind = kindOf ts) : c.target w = some (tgtOf w wk) := by
  unfold Call.target
  cases ts <;> simp [TS.writerOf] at hw <;> subst hw <;> rename_i w0 <;> cases w0 <;> simp [hk, kindOf, tgtOf]

/-- **the content of the container is always among the monitor's candidates** -/
theorem slot_mem_candidates (s : St) (b : Book) (hk : RK s b) (hw : RW s b) : s.slot ∈ b.candidates := by
  unfold Book.candidates
  rcases hw.cur with ⟨w, thw, cw, wk, h1, _, h3, h4, h5, h6, _⟩ | ⟨h1, h2, _⟩
  · apply List.mem_append_right
    rw [List.mem_filterMap]
    refine ⟨w, by simp [lt_of_getElem? h4], ?_⟩
    have := target_of_kind w thw.ts wk cw h3 (hk.call w thw cw h1 h4).kind
    simp [h4, h5, this, h6]
  · apply List.mem_append_left
    simp [h2, h1]

/-- the monitor's table after a benign update: old entries keep `preds`, `dead`, `kind`, returned
calls stay returned; new entries are alive and their `preds` are returned calls -/
structure BExt (b b' : Book) : Prop where
  initDead : b'.initDead = b.initDead
  old : ∀ (y : Nat) (cy : Call), b.calls[y]? = some cy → ∃ cy', b'.calls[y]? = some cy' ∧
    cy'.preds = cy.preds ∧ cy'.dead = cy.dead ∧ (cy.ret = true → cy'.ret = true)
  new : ∀ (y : Nat) (cy' : Call), b'.calls[y]? = some cy' → b.calls.length ≤ y →
    cy'.dead = false ∧ ∀ x, x ∈ cy'.preds → ∃ cx, b.calls[x]? = some cx ∧ cx.ret = true

/-- the model after a step that executes no writer section and returns from none -/
structure SameW (s s' : St) : Prop where
  slot : s'.slot = s.slot
  old : ∀ (y : Nat) (thy : Th), s.th[y]? = some thy → ∃ thy', s'.th[y]? = some thy' ∧
    thy'.ts.written = thy.ts.written ∧ thy'.ts.writerOf = thy.ts.writerOf
  new : ∀ (y : Nat) (thy' : Th), s'.th[y]? = some thy' → s.th.length ≤ y → thy'.ts.written = false

theorem rw_ext (s s' : St) (b b' : Book) (hw : RW s b) (hl : b.calls.length = s.th.length)
    (hS : SameW s s') (hB : BExt b b') : RW s' b' := by
  have back : ∀ (y : Nat) (cy' : Call), b'.calls[y]? = some cy' → y < b.calls.length →
      ∃ cy, b.calls[y]? = some cy ∧ cy'.preds = cy.preds ∧ cy'.dead = cy.dead ∧ (cy.ret = true → cy'.ret = true) := by
    intro y cy' hy hlt
    obtain ⟨cy, hcy⟩ : ∃ cy, b.calls[y]? = some cy := ⟨b.calls[y], by simp⟩
    obtain ⟨c2, h1, h2, h3, h4⟩ := hB.old y cy hcy
    rw [hy] at h1; cases h1
    exact ⟨cy, hcy, h2, h3, h4⟩
  have fwdret : ∀ (x : Nat) (cx : Call), b.calls[x]? = some cx → cx.ret = true →
      ∃ cx' : Call, b'.calls[x]? = some cx' ∧ cx'.ret = true := by
    intro x cx hx hr
    obtain ⟨cx', h1, _, _, h4⟩ := hB.old x cx hx
    exact ⟨cx', h1, h4 hr⟩
  refine ⟨?_, ?_, ?_⟩
  · intro y cy' hy x hx
    rcases Nat.lt_or_ge y b.calls.length with hlt | hge
    · obtain ⟨cy, hcy, h2, _, _⟩ := back y cy' hy hlt
      rw [h2] at hx
      obtain ⟨cx, h5, h6⟩ := hw.preds y cy hcy x hx
      exact fwdret x cx h5 h6
    · obtain ⟨cx, h5, h6⟩ := (hB.new y cy' hy hge).2 x hx
      exact fwdret x cx h5 h6
  · intro y cy' hy hd
    rcases Nat.lt_or_ge y b.calls.length with hlt | hge
    · obtain ⟨cy, hcy, _, h3, h4⟩ := back y cy' hy hlt
      rw [h3] at hd
      exact h4 (hw.dead y cy hcy hd)
    · rw [(hB.new y cy' hy hge).1] at hd; cases hd
  · rcases hw.cur with ⟨w, thw, cw, wk, h1, h2, h3, h4, h5, h6, h7⟩ | ⟨h1, h2, h3⟩
    · left
      obtain ⟨thw', g1, g2, g3⟩ := hS.old w thw h1
      obtain ⟨cw', k1, _, k3, _⟩ := hB.old w cw h4
      refine ⟨w, thw', cw', wk, g1, by rw [g2]; exact h2, by rw [g3]; exact h3, k1, by rw [k3]; exact h5,
        by rw [hS.slot]; exact h6, ?_⟩
      intro y thy' cy' hy hyw hcy'
      rcases Nat.lt_or_ge y s.th.length with hlt | hge
      · obtain ⟨thy, hthy⟩ : ∃ thy, s.th[y]? = some thy := ⟨s.th[y], by simp⟩
        obtain ⟨t2, e1, e2, _⟩ := hS.old y thy hthy
        rw [hy] at e1; cases e1
        obtain ⟨cy, hcy, q2, _, _⟩ := back y cy' hcy' (by rw [hl]; exact hlt)
        rw [q2]
        exact h7 y thy cy hthy (by rw [← e2]; exact hyw) hcy
      · have := hS.new y thy' hy hge
        rw [this] at hyw; cases hyw
    · right
      refine ⟨by rw [hS.slot]; exact h1, by rw [hB.initDead]; exact h2, ?_⟩
      intro y thy' hy
      rcases Nat.lt_or_ge y s.th.length with hlt | hge
      · obtain ⟨thy, hthy⟩ : ∃ thy, s.th[y]? = some thy := ⟨s.th[y], by simp⟩
        obtain ⟨t2, e1, e2, _⟩ := hS.old y thy hthy
        rw [hy] at e1; cases e1
        rw [e2]; exact h3 y thy hthy
      · exact hS.new y thy' hy hge

end UtilModel.Promise

namespace UtilModel.Promise
open UtilModel

theorem written_of_writerOf_none (ts : TS) (h : ts.writerOf = none) : ts.written = false := by
  cases ts <;> simp [TS.writerOf] at h <;> rfl

theorem sameW_same (s s' : St) (hsl : s'.slot = s.slot) (hth : s'.th = s.th) : SameW s s' :=
  ⟨hsl, fun y thy h => ⟨thy, by rw [hth]; exact h, rfl, rfl⟩,
   fun y thy' h hge => by rw [hth] at h; have := lt_of_getElem? h; omega⟩

theorem sameW_append (s s' : St) (nt : Th) (hsl : s'.slot = s.slot) (hth : s'.th = s.th ++ [nt])
    (hnt : nt.ts.written = false) : SameW s s' := by
  refine ⟨hsl, fun y thy h => ⟨thy, by rw [hth]; exact getElem?_snoc_left _ _ _ _ h, rfl, rfl⟩, ?_⟩
  intro y thy' h hge
  rw [hth] at h
  rcases getElem?_snoc_cases _ _ _ _ h with ⟨hlt, _⟩ | ⟨_, rfl⟩
  · omega
  · exact hnt

theorem sameW_set (s s' : St) (t : Nat) (th th' : Th) (hsl : s'.slot = s.slot) (ht : s.th[t]? = some th)
    (hth : s'.th = s.th.set t th') (h1 : th'.ts.written = th.ts.written)
    (h2 : th'.ts.writerOf = th.ts.writerOf) : SameW s s' := by
  refine ⟨hsl, ?_, ?_⟩
  · intro y thy h
    by_cases hyt : y = t
    · subst hyt; rw [ht] at h; cases h
      exact ⟨th', by rw [hth]; simp [lt_of_getElem? ht], h1, h2⟩
    · exact ⟨thy, by rw [hth, getElem?_set_ne' _ _ _ _ (fun e => hyt e.symm)]; exact h, rfl, rfl⟩
  · intro y thy' h hge
    rw [hth] at h
    have := lt_of_getElem? h
    simp at this; omega

theorem bext_of_calls (b b' : Book) (hc : b'.calls = b.calls) (hi : b'.initDead = b.initDead) : BExt b b' :=
  ⟨hi, fun y cy h => ⟨cy, by rw [hc]; exact h, rfl, rfl, fun h => h⟩,
   fun y cy' h hge => by rw [hc] at h; have := lt_of_getElem? h; omega⟩

theorem bext_append (b b' : Book) (nc : Call) (hc : b'.calls = b.calls ++ [nc]) (hi : b'.initDead = b.initDead)
    (hd : nc.dead = false) (hp : nc.preds = []) : BExt b b' := by
  refine ⟨hi, fun y cy h => ⟨cy, by rw [hc]; exact getElem?_snoc_left _ _ _ _ h, rfl, rfl, fun h => h⟩, ?_⟩
  intro y cy' h hge
  rw [hc] at h
  rcases getElem?_snoc_cases _ _ _ _ h with ⟨hlt, _⟩ | ⟨_, rfl⟩
  · omega
  · exact ⟨hd, by rw [hp]; intro x hx; cases hx⟩

theorem mem_returnedWriters (b : Book) (x : Nat) (h : x ∈ b.returnedWriters) :
    ∃ cx, b.calls[x]? = some cx ∧ cx.ret = true := by
  simp only [Book.returnedWriters, List.mem_filter, List.mem_range] at h
  obtain ⟨hlt, hx⟩ := h
  refine ⟨b.calls[x], by simp, ?_⟩
  simp [hlt] at hx
  exact hx.2

theorem bext_addWriter (b : Book) (nc : Call) (tgt : Option PRef) (hd : nc.dead = false) :
    BExt b (b.addWriter nc tgt) := by
  refine ⟨rfl, ?_, ?_⟩
  · intro y cy h
    have hlt := lt_of_getElem? h
    refine ⟨addSeen tgt cy, by rw [addWriter_get_lt b nc tgt y hlt, h]; rfl, ?_⟩
    obtain ⟨_, _, _, h4, h5, h6⟩ := addSeen_core tgt cy
    exact ⟨h6, h5, fun hr => by rw [h4]; exact hr⟩
  · intro y cy' h hge
    have hl := lt_of_getElem? h
    rw [addWriter_len] at hl
    have : y = b.calls.length := by omega
    subst this
    rw [addWriter_get_last] at h; cases h
    exact ⟨hd, fun x hx => mem_returnedWriters b x hx⟩

theorem bext_modify (b : Book) (t : Nat) (f : Call → Call)
    (hf : ∀ c, (f c).preds = c.preds ∧ (f c).dead = c.dead ∧ (c.ret = true → (f c).ret = true)) :
    BExt b (b.modify t f) := by
  refine ⟨(modify_other b t f).2.1, ?_, ?_⟩
  · intro y cy h
    by_cases hyt : y = t
    · subst hyt
      exact ⟨f cy, modify_get_self b y f cy h, (hf cy).1, (hf cy).2.1, (hf cy).2.2⟩
    · exact ⟨cy, by rw [modify_get_ne b t y f hyt]; exact h, rfl, rfl, fun h => h⟩
  · intro y cy' h hge
    have := lt_of_getElem? h
    rw [modify_len] at this; omega

theorem bext_trans_pub (b b' : Book) (h : BExt b b') (ps : List Nat) : BExt b { b' with pubP := ps } :=
  ⟨h.initDead, h.old, h.new⟩

theorem rw_internal (s s' : St) (e : Ev) (b : Book) (hk : RK s b) (hw : RW s b)
    (hs : step s e = some s') (ho : e.obs = none) (hn : ∀ t, e ≠ .cWCS t) : RW s' b := by
  obtain ⟨hsl, t, th, ts, ht, hth, h1, h2⟩ := internal_nonwriter s s' e hs ho hn
  refine rw_ext s s' b b hw hk.len ?_ (bext_of_calls b b rfl rfl)
  exact sameW_set s s' t th _ hsl ht hth
    (by simp [written_of_writerOf_none _ h1, written_of_writerOf_none _ h2]) (by simp [h1, h2])

/-- the critical section of a container writer: it becomes the current writer -/
theorem rw_cw (s s' : St) (t : Nat) (b : Book) (hk : RK s b) (hw : RW s b)
    (hs : step s (.cWCS t) = some s') : RW s' b := by
  obtain ⟨th, wk, ht, hts, hth, hsl⟩ := cw_shape s s' t hs
  have hlt := lt_of_getElem? ht
  have hl : t < b.calls.length := by rw [hk.len]; exact hlt
  obtain ⟨c, hc⟩ : ∃ c, b.calls[t]? = some c := ⟨b.calls[t], by simp⟩
  have hkr := hk.call t th c ht hc
  have hret : c.ret = false := by rw [hkr.ret, hts]; rfl
  have hdead : c.dead = false := by
    cases hd : c.dead with
    | false => rfl
    | true => have := hw.dead t c hc hd; rw [hret] at this; cases this
  refine ⟨hw.preds, hw.dead, Or.inl ⟨t, { th with ts := .cRet wk }, c, wk, by rw [hth]; simp [hlt], rfl, rfl,
    hc, hdead, hsl, ?_⟩⟩
  intro y thy cy _ _ hcy hmem
  obtain ⟨cx, h1, h2⟩ := hw.preds y cy hcy t hmem
  rw [hc] at h1; cases h1
  rw [hret] at h2; cases h2

end UtilModel.Promise

namespace UtilModel.Promise
open UtilModel

/-- the monitor's table after the return of writer call `t` -/
theorem retWriter_get (b : Book) (t : Nat) (c : Call) (hc : b.calls[t]? = some c) (y : Nat) :
    ({ (b.modify t fun c => { c with ret := true }).markDead c.preds with initDead := true } : Book).calls[y]? =
      (b.calls[y]?).map fun c0 =>
        let c1 : Call := if y = t then { c0 with ret := true } else c0
        if c.preds.contains y then { c1 with dead := true } else c1 := by
  simp only
  rw [markDead_get]
  by_cases hyt : y = t
  · subst hyt
    rw [modify_get_self b y _ c hc, hc]
    simp
  · rw [modify_get_ne b t y _ hyt]
    cases b.calls[y]? <;> simp [hyt]

theorem rw_ret_writer (s s' : St) (t : Nat) (th : Th) (wk : CW) (b : Book) (c : Call)
    (hk : RK s b) (hw : RW s b) (ht : s.th[t]? = some th) (hts : th.ts = .cRet wk)
    (hth : s'.th = s.th.set t { th with ts := .cDone wk }) (hsl : s'.slot = s.slot)
    (hc : b.calls[t]? = some c) :
    RW s' { (b.modify t fun c => { c with ret := true }).markDead c.preds with initDead := true } := by
  have hlt := lt_of_getElem? ht
  have hkr := hk.call t th c ht hc
  have hret : c.ret = false := by rw [hkr.ret, hts]; rfl
  -- entries of the new table
  have get' : ∀ (y : Nat) (cy' : Call),
      ({ (b.modify t fun c => { c with ret := true }).markDead c.preds with initDead := true } : Book).calls[y]? = some cy' →
      ∃ cy, b.calls[y]? = some cy ∧ cy'.preds = cy.preds ∧ (cy.ret = true → cy'.ret = true) ∧
        (y = t → cy'.ret = true) ∧ (cy'.dead = true → cy.dead = true ∨ y ∈ c.preds) ∧
        (cy.dead = false → y ∉ c.preds → cy'.dead = false) := by
    intro y cy' h
    rw [retWriter_get b t c hc y] at h
    cases hy : b.calls[y]? with
    | none => simp [hy] at h
    | some cy =>
      simp [hy] at h
      refine ⟨cy, rfl, ?_⟩
      subst h
      by_cases hyt : y = t
      · subst hyt
        by_cases hm : y ∈ c.preds <;> simp [hm]
      · by_cases hm : y ∈ c.preds <;> simp [hm, hyt]
  have fwd : ∀ (x : Nat) (cx : Call), b.calls[x]? = some cx → cx.ret = true →
      ∃ cx', ({ (b.modify t fun c => { c with ret := true }).markDead c.preds with initDead := true } : Book).calls[x]? = some cx' ∧
        cx'.ret = true := by
    intro x cx hx hr
    rw [retWriter_get b t c hc x, hx]
    refine ⟨_, rfl, ?_⟩
    by_cases hxt : x = t
    · subst hxt
      by_cases hm : x ∈ c.preds <;> simp [hm]
    · by_cases hm : x ∈ c.preds <;> simp [hm, hxt, hr]
  refine ⟨?_, ?_, ?_⟩
  · intro y cy' hy x hx
    obtain ⟨cy, h1, h2, _⟩ := get' y cy' hy
    rw [h2] at hx
    obtain ⟨cx, h5, h6⟩ := hw.preds y cy h1 x hx
    exact fwd x cx h5 h6
  · intro y cy' hy hd
    obtain ⟨cy, h1, _, h3, h4, h5, _⟩ := get' y cy' hy
    rcases h5 hd with h | h
    · exact h3 (hw.dead y cy h1 h)
    · obtain ⟨cx, h6, h7⟩ := hw.preds t c hc y h
      rw [h1] at h6; cases h6
      exact h3 h7
  · rcases hw.cur with ⟨w, thw, cw, wk', h1, h2, h3, h4, h5, h6, h7⟩ | ⟨_, _, h3⟩
    · left
      have hwn : w ∉ c.preds := h7 t th c ht (by rw [hts]; rfl) hc
      -- the current writer's thread after the step
      have hthw : ∃ thw', s'.th[w]? = some thw' ∧ thw'.ts.written = true ∧ thw'.ts.writerOf = some wk' := by
        by_cases hwt : w = t
        · subst hwt; rw [ht] at h1; cases h1
          rw [hts] at h3; simp [TS.writerOf] at h3; subst h3
          exact ⟨{ th with ts := .cDone wk }, by rw [hth]; simp [hlt], rfl, rfl⟩
        · exact ⟨thw, by rw [hth, getElem?_set_ne' _ _ _ _ (fun e => hwt e.symm)]; exact h1, h2, h3⟩
      obtain ⟨thw', g1, g2, g3⟩ := hthw
      obtain ⟨cw', k1⟩ : ∃ cw', ({ (b.modify t fun c => { c with ret := true }).markDead c.preds with initDead := true } : Book).calls[w]? = some cw' := by
        rw [retWriter_get b t c hc w, h4]; exact ⟨_, rfl⟩
      obtain ⟨cw0, q1, _, _, _, _, q6⟩ := get' w cw' k1
      rw [h4] at q1; cases q1
      refine ⟨w, thw', cw', wk', g1, g2, g3, k1, q6 h5 hwn, by rw [hsl]; exact h6, ?_⟩
      intro y thy' cy' hy hyw hcy'
      obtain ⟨cy, r1, r2, _⟩ := get' y cy' hcy'
      rw [r2]
      -- y was already written before the step
      by_cases hyt : y = t
      · subst hyt; rw [hc] at r1; cases r1; exact hwn
      · rw [hth, getElem?_set_ne' _ _ _ _ (fun e => hyt e.symm)] at hy
        exact h7 y thy' cy hy hyw r1
    · have := h3 t th ht; rw [hts] at this; cases this

end UtilModel.Promise

namespace UtilModel.Promise
open UtilModel

theorem rw_obs (s s' : St) (e : Ev) (o : Obs) (b : Book) (hk : RK s b) (hw : RW s b)
    (hs : step s e = some s') (ho : e.obs = some o) : RW s' (b.update o) := by
  cases e with
  | swap t => simp [Ev.obs] at ho
  | publish t => simp [Ev.obs] at ho
  | awSel t br => simp [Ev.obs] at ho
  | cWCS t => simp [Ev.obs] at ho
  | cSample t => simp [Ev.obs] at ho
  | cNilSel t br => simp [Ev.obs] at ho
  | cInnerSel t br => simp [Ev.obs] at ho
  | cChk1 t => simp [Ev.obs] at ho
  | cChk2 t => simp [Ev.obs] at ho
  | newp p =>
    simp [Ev.obs] at ho; subst ho
    simp only [step] at hs; split at hs <;> simp at hs; subst hs
    exact rw_ext s _ b _ hw hk.len (sameW_same _ _ rfl rfl) (bext_of_calls _ _ rfl rfl)
  | newpe p e' =>
    simp [Ev.obs] at ho; subst ho
    simp only [step] at hs; split at hs <;> simp at hs; subst hs
    exact rw_ext s _ b _ hw hk.len (sameW_same _ _ rfl rfl) (bext_of_calls _ _ rfl rfl)
  | checkLike c ok =>
    simp [Ev.obs] at ho; subst ho
    simp only [step] at hs; split at hs <;> simp at hs; subst hs
    exact hw
  | quiesce bb B =>
    simp [Ev.obs] at ho; subst ho
    simp only [step] at hs; split at hs <;> simp at hs; subst hs
    refine rw_ext s s b _ hw hk.len (sameW_same _ _ rfl rfl) ⟨rfl, ?_, ?_⟩
    · intro y cy hy
      obtain ⟨_, _, _, h4, h5, h6⟩ := resetOne_core b B y cy
      exact ⟨resetOne b B y cy, by simp [Book.update, resetSeen_get, hy], h6, h5, fun hr => by rw [h4]; exact hr⟩
    · intro y cy' hy hge
      have := lt_of_getElem? hy
      simp [Book.update, resetSeen_len] at this
      omega
  | invSet t p v e' =>
    simp [Ev.obs] at ho; subst ho
    simp only [step] at hs; split at hs <;> simp at hs; subst hs
    exact rw_ext s _ b _ hw hk.len (sameW_append _ _ _ rfl rfl rfl) (bext_append _ _ _ rfl rfl rfl rfl)
  | invAwait t p k =>
    simp [Ev.obs] at ho; subst ho
    simp only [step] at hs; split at hs <;> simp at hs; subst hs
    exact rw_ext s _ b _ hw hk.len (sameW_append _ _ _ rfl rfl rfl) (bext_append _ _ _ rfl rfl rfl rfl)
  | invCAwait t k =>
    simp [Ev.obs] at ho; subst ho
    simp only [step] at hs; split at hs <;> simp at hs; subst hs
    exact rw_ext s _ b _ hw hk.len (sameW_append _ _ _ rfl rfl rfl) (bext_append _ _ _ rfl rfl rfl rfl)
  | invCSetP t p =>
    simp [Ev.obs] at ho; subst ho
    simp only [step] at hs; split at hs <;> simp at hs; subst hs
    exact rw_ext s _ b _ hw hk.len (sameW_append _ _ _ rfl rfl rfl) (bext_addWriter b _ _ rfl)
  | invCRes t v e' =>
    simp [Ev.obs] at ho; subst ho
    simp only [step] at hs; split at hs <;> simp at hs; subst hs
    exact rw_ext s _ b _ hw hk.len (sameW_append _ _ _ rfl rfl rfl) (bext_addWriter b _ _ rfl)
  | envCancel t =>
    simp [Ev.obs] at ho; subst ho
    simp only [step] at hs; split at hs <;> simp at hs
    rename_i th ht
    subst hs
    exact rw_ext s _ b _ hw hk.len (sameW_set s _ t th _ rfl ht rfl rfl rfl)
      (bext_modify b t _ (fun c => ⟨rfl, rfl, fun h => h⟩))
  | envFire t f =>
    simp [Ev.obs] at ho; subst ho
    simp only [step] at hs; split at hs <;> try simp at hs
    rename_i th ht
    obtain ⟨_, rfl⟩ := hs
    exact rw_ext s _ b _ hw hk.len (sameW_set s _ t th _ rfl ht rfl rfl rfl)
      (bext_modify b t _ (fun c => ⟨rfl, rfl, fun h => h⟩))
  | retSet t r =>
    simp [Ev.obs] at ho; subst ho
    simp only [step] at hs
    split at hs <;> try simp at hs
    rename_i th ht
    split at hs <;> try simp at hs
    rename_i p v e' r' hts
    obtain ⟨rfl, rfl⟩ := hs
    have hS : SameW s (setTs s t th (.setDone p v e' r)) :=
      sameW_set s _ t th _ rfl ht rfl (by rw [hts]; rfl) (by rw [hts]; rfl)
    have hB := bext_modify b t (fun c => { c with ret := true }) (fun c => ⟨rfl, rfl, fun _ => rfl⟩)
    refine rw_ext s _ b _ hw hk.len hS ?_
    simp only [Book.update]
    split
    · split
      · exact bext_trans_pub _ _ hB _
      · exact hB
    · exact bext_of_calls _ _ rfl rfl
  | retAwait t v e' =>
    simp [Ev.obs] at ho; subst ho
    simp only [step] at hs
    split at hs <;> try simp at hs
    rename_i th ht
    split at hs <;> try simp at hs
    rename_i o k v' e'' hts
    obtain ⟨⟨rfl, rfl⟩, rfl⟩ := hs
    have hS : SameW s (setTs s t th (.awDone o k v e')) :=
      sameW_set s _ t th _ rfl ht rfl (by rw [hts]; rfl) (by rw [hts]; rfl)
    have hB := bext_modify b t (fun c => { c with ret := true }) (fun c => ⟨rfl, rfl, fun _ => rfl⟩)
    refine rw_ext s _ b _ hw hk.len hS ?_
    simp only [Book.update]
    split
    · exact hB
    · split
      · split
        · exact bext_trans_pub _ _ hB _
        · exact hB
      · exact hB
  | retCSetP t =>
    simp [Ev.obs] at ho; subst ho
    simp only [step] at hs
    split at hs <;> try simp at hs
    rename_i th ht
    split at hs <;> try simp at hs
    rename_i p hts
    subst hs
    have hl : t < b.calls.length := by rw [hk.len]; exact lt_of_getElem? ht
    obtain ⟨c, hc⟩ : ∃ c, b.calls[t]? = some c := ⟨b.calls[t], by simp⟩
    simp only [Book.update, hc]
    exact rw_ret_writer s _ t th (.setp p) b c hk hw ht hts rfl rfl hc
  | retCRes t =>
    simp [Ev.obs] at ho; subst ho
    simp only [step] at hs
    split at hs <;> try simp at hs
    rename_i th ht
    split at hs <;> try simp at hs
    rename_i e' hts
    subst hs
    have hl : t < b.calls.length := by rw [hk.len]; exact lt_of_getElem? ht
    obtain ⟨c, hc⟩ : ∃ c, b.calls[t]? = some c := ⟨b.calls[t], by simp⟩
    simp only [Book.update, hc]
    exact rw_ret_writer s _ t th (.res e') b c hk hw ht hts rfl rfl hc

end UtilModel.Promise

namespace UtilModel.Promise
open UtilModel

theorem mem_pendingIds' (s : St) (t : Nat) (h : t ∈ pendingIds s) :
    ∃ th, s.th[t]? = some th ∧ th.ts.pending = true := by
  simp only [pendingIds, List.mem_filter, List.mem_range] at h
  obtain ⟨hlt, hp⟩ := h
  refine ⟨s.th[t], by simp, ?_⟩
  simpa [hlt] using hp

theorem live_ok (s s' : St) (e : Ev) (o : Obs) (b : Book) (hi : Inv s) (hk : RK s b) (hw : RW s b)
    (hs : step s e = some s') (ho : e.obs = some o) : chkLive b o = true := by
  cases e with
  | quiesce busy B =>
    simp [Ev.obs] at ho; subst ho
    simp only [step] at hs; split at hs <;> simp at hs
    rename_i hq
    obtain ⟨hq, rfl, hbusy⟩ := hq
    simp only [chkLive, Bool.and_eq_true]
    constructor
    · rcases hbusy with h | h
      · simp [h]
      · simp [h]
    · rw [List.all_eq_true]
      intro t ht
      obtain ⟨th, hth, hpend⟩ := mem_pendingIds' s t ht
      have hl : t < b.calls.length := by rw [hk.len]; exact lt_of_getElem? hth
      obtain ⟨c, hc⟩ : ∃ c, b.calls[t]? = some c := ⟨b.calls[t], by simp⟩
      have hkr := hk.call t th c hth hc
      have hqt : Th.quiet s th = true := by
        simp only [quiescent, List.all_eq_true] at hq
        exact hq th (List.mem_of_getElem? hth)
      have hok := hi.th t th hth
      have hcand := slot_mem_candidates s b hk hw
      simp only [hc]
      unfold Th.quiet at hqt
      cases hts : th.ts <;> simp only [hts] at hqt hpend <;> try (simp [TS.pending] at hqt hpend)
      · -- awWait
        rename_i p k
        have hkind : c.kind = .await p k := by rw [hkr.kind, hts]; rfl
        obtain ⟨⟨h1, h2⟩, h3⟩ := hqt
        simp only [hkind]
        have hnp : b.pubP.contains p = false := by
          cases hpc : b.pubP.contains p with
          | false => rfl
          | true =>
            have := hk.pub p (by simpa using hpc)
            rw [h3] at this; cases this
        have hnp' : ¬ p ∈ b.pubP := by simpa using hnp
        simp [hkr.cx, hkr.ch, h1, h2, hnp']
      · -- cNil
        rename_i k c0
        have hkind : c.kind = .cawait k := by rw [hkr.kind, hts]; rfl
        obtain ⟨⟨h1, h2⟩, h3⟩ := hqt
        simp only [ThOK, hts] at hok
        have hsl := hok.2 h3
        rw [hsl] at hcand
        simp only [hkind]
        simp [hkr.cx, h1]
        exact ⟨none, hcand, by simp [hkr.ch, h2]⟩
      · -- cInner
        rename_i k r c0
        have hkind : c.kind = .cawait k := by rw [hkr.kind, hts]; rfl
        obtain ⟨⟨h1, h2⟩, h3⟩ := hqt
        simp only [ThOK, hts] at hok
        have hsl := hok.2.1 h2
        rw [hsl] at hcand
        simp only [hkind]
        have hnk : b.pubKnown r = false := by
          cases r with
          | plain p =>
            simp only [Book.pubKnown]
            cases hpc : b.pubP.contains p with
            | false => rfl
            | true =>
              have := hk.pub p (by simpa using hpc)
              rw [h3] at this; cases this
          | fixed u eu => simp [published] at h3
        simp [hkr.cx, h1]
        exact ⟨some r, hcand, by simp [hnk]⟩
  | swap t => simp [Ev.obs] at ho
  | publish t => simp [Ev.obs] at ho
  | awSel t br => simp [Ev.obs] at ho
  | cWCS t => simp [Ev.obs] at ho
  | cSample t => simp [Ev.obs] at ho
  | cNilSel t br => simp [Ev.obs] at ho
  | cInnerSel t br => simp [Ev.obs] at ho
  | cChk1 t => simp [Ev.obs] at ho
  | cChk2 t => simp [Ev.obs] at ho
  | _ => simp [Ev.obs] at ho <;> subst ho <;> rfl

/-- **C11 (observable form, liveness at quiescence points).** On every trace of the model, at every
quiescence point: no plain await is pending although its promise is known to be resolved, its
context is cancelled or its own channel has fired; no container await is pending although its context
is cancelled or every content the container may have at that moment is resolved (empty content: its
own channel fired); nothing but awaits is pending; and the process was not observed busy while
awaiters were blocked. -/
theorem C11live_obs (es : List Ev) (s : St) (h : model.run model.init es = some s) :
    monC11live.accepts (es.filterMap model.obs) = true :=
  ofCheck_accepts chkLive (fun s b => Inv s ∧ RK s b ∧ RW s b) ⟨init_inv, rk_init, rw_init⟩
    (fun s e s' b hR hs ho => ⟨step_inv s e s' hR.1 hs, rk_internal s s' e b hR.1 hR.2.1 hs ho, by
      by_cases hc : ∃ t, e = .cWCS t
      · obtain ⟨t, rfl⟩ := hc; exact rw_cw s s' t b hR.2.1 hR.2.2 hs
      · exact rw_internal s s' e b hR.2.1 hR.2.2 hs ho (fun t h => hc ⟨t, h⟩)⟩)
    (fun s e s' b o hR hs ho => ⟨live_ok s s' e o b hR.1 hR.2.1 hR.2.2 hs ho,
      step_inv s e s' hR.1 hs, rk_obs s s' e o b hR.1 hR.2.1 hs ho,
      rw_obs s s' e o b hR.2.1 hR.2.2 hs ho⟩) es s h

end UtilModel.Promise
