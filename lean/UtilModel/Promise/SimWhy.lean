import UtilModel.Promise.SimBook
/-!
# promise — `monC11why` accepts every trace of the model
-/
namespace UtilModel.Promise
open UtilModel

/-- generic: a check-monitor accepts every trace if the check holds whenever the bookkeeping
relation `R` holds, and `R` follows the model -/
theorem ofCheck_accepts (chk : Book → Obs → Bool) (R : St → Book → Prop)
    (h0 : R model.init {})
    (hint : ∀ s e s' b, R s b → step s e = some s' → e.obs = none → R s' b)
    (hobs : ∀ s e s' b o, R s b → step s e = some s' → e.obs = some o → chk b o = true ∧ R s' (b.update o))
    (es : List Ev) (s : St) (h : model.run model.init es = some s) :
    (ofCheck chk).accepts (es.filterMap model.obs) = true :=
  monitor_accepts_of_simulation model (ofCheck chk) R h0
    (fun s e s' b hR hs => by
      cases ho : model.obs e with
      | none => exact hint s e s' b hR hs ho
      | some o =>
        obtain ⟨h1, h2⟩ := hobs s e s' b o hR hs ho
        exact ⟨b.update o, by simp [ofCheck, h1], h2⟩) es s h

theorem rk_init : RK model.init {} := by
  refine ⟨rfl, ?_, ?_, ?_⟩
  · intro t th c h; simp [model] at h
  · intro p h; simp at h
  · intro p pr h; simp [model] at h

theorem why_ok (s s' : St) (e : Ev) (o : Obs) (b : Book) (hi : Inv s) (h : RK s b)
    (hs : step s e = some s') (ho : e.obs = some o) : chkWhy b o = true := by
  cases e with
  | retAwait t v e' =>
    simp [Ev.obs] at ho; subst ho
    simp only [step] at hs
    split at hs <;> try simp at hs
    rename_i th ht
    split at hs <;> try simp at hs
    rename_i o k v' e'' hts
    obtain ⟨⟨rfl, rfl⟩, rfl⟩ := hs
    simp only [chkWhy]
    split
    · rfl
    · rename_i hv
      have hv0 : v = 0 := by simpa using hv
      subst hv0
      have hl : t < b.calls.length := by rw [h.len]; exact lt_of_getElem? ht
      obtain ⟨c, hc⟩ : ∃ c, b.calls[t]? = some c := ⟨b.calls[t], by simp⟩
      have hk := h.call t th c ht hc
      have hok := hi.th t th ht
      simp only [hc]
      cases o with
      | some p =>
        have hkind : c.kind = .await p k := by rw [hk.kind, hts]; rfl
        simp only [hkind]
        simp only [ThOK, hts] at hok
        rcases hok with h1 | ⟨_, h2 | h2⟩
        · -- a result with the zero value: the promise was born resolved with this error
          have hmem : (p, e') ∈ b.bornP := by
            simp only [published] at h1
            cases hp : s.proms[p]? with
            | none => simp [hp] at h1
            | some pr =>
              simp [hp] at h1
              cases hb : pr.born with
              | false => have := ((hi.pr p pr hp).1 0 e' h1 hb).2; omega
              | true =>
                obtain ⟨e0, h3, h4⟩ := h.born p pr hp hb
                rw [h1] at h3; cases h3; exact h4
          simp [hmem]
        · simp [h2.1, hk.cx, h2.2]
        · simp [hk.ch, h2]
      | none =>
        have hkind : c.kind = .cawait k := by rw [hk.kind, hts]; rfl
        simp only [hkind]
        simp only [ThOK, hts] at hok
        rcases hok with ⟨h1, _⟩ | ⟨_, h2 | h2⟩
        · omega
        · simp [h2.1, hk.cx, h2.2]
        · simp [hk.ch, h2]
  | swap t => simp [Ev.obs] at ho
  | publish t => simp [Ev.obs] at ho
  | awSel t br => simp [Ev.obs] at ho
  | cWCS t => simp [Ev.obs] at ho
  | cSample t => simp [Ev.obs] at ho
  | cNilSel t br => simp [Ev.obs] at ho
  | cInnerSel t br => simp [Ev.obs] at ho
  | cChk1 t => simp [Ev.obs] at ho
  | cChk2 t => simp [Ev.obs] at ho
  | checkLike c ok =>
    simp [Ev.obs] at ho; subst ho
    simp only [step] at hs; split at hs <;> simp at hs
    rename_i hok
    simp [chkWhy, hok]
  | _ => simp [Ev.obs] at ho <;> subst ho <;> rfl

/-- **C11 (observable form, reasons).** On every trace of the model, an await that returns without a
result does so because its context was cancelled (then with `context.Canceled`), because its own
channel fired (then with what that channel dictates), or because the promise was constructed
pre-resolved by `NewPromiseWithErr(e)` (then with `(zero, e)`); and `CheckPromiseLike` returns nil. -/
theorem C11why_obs (es : List Ev) (s : St) (h : model.run model.init es = some s) :
    monC11why.accepts (es.filterMap model.obs) = true :=
  ofCheck_accepts chkWhy (fun s b => Inv s ∧ RK s b) ⟨init_inv, rk_init⟩
    (fun s e s' b hR hs ho => ⟨step_inv s e s' hR.1 hs, rk_internal s s' e b hR.1 hR.2 hs ho⟩)
    (fun s e s' b o hR hs ho => ⟨why_ok s s' e o b hR.1 hR.2 hs ho,
      step_inv s e s' hR.1 hs, rk_obs s s' e o b hR.1 hR.2 hs ho⟩) es s h

end UtilModel.Promise
