/-!
# Core: observable labelled transition systems, trace inclusion, soundness

Every component model is an `OLTS`: an executable transition system whose events are the atomic
actions of the real code. Some events are observable (API invocation/response, user-callback
entry/exit, environment actions, quiescence markers); the rest are internal.

`accepts` decides *observational trace inclusion* by subset construction and `accepts_sound`
proves that an accepted history really is the observable projection of a model run. Together with a
theorem `∀ es s, run init es = some s → P …` this transfers `P` to every accepted implementation
history.
-/
namespace UtilModel

structure OLTS (σ ε ο : Type) where
  init  : σ
  step  : σ → ε → Option σ
  /-- observable projection of an event (`none` = internal) -/
  obs   : ε → Option ο
  /-- internal events worth trying in a state (finite) -/
  cands : σ → List ε
  /-- events that could have produced the observable `o` in state `s` (finite) -/
  evsOf : σ → ο → List ε

variable {σ ε ο : Type}

def OLTS.run (m : OLTS σ ε ο) (s : σ) : List ε → Option σ
  | [] => some s
  | e :: es => (m.step s e).bind (m.run · es)

theorem OLTS.run_append (m : OLTS σ ε ο) (s : σ) (es fs : List ε) :
    m.run s (es ++ fs) = (m.run s es).bind (m.run · fs) := by
  induction es generalizing s with
  | nil => simp [OLTS.run]
  | cons e es ih =>
    simp only [List.cons_append, OLTS.run]
    cases m.step s e with
    | none => simp
    | some s1 => simp [ih]

/-- `s` is reachable from the initial state by some event list. -/
def OLTS.Reachable (m : OLTS σ ε ο) (s : σ) : Prop := ∃ es, m.run m.init es = some s

/-- Invariant principle: an inductive invariant holds in every reachable state, i.e. after every
event list — every interleaving, every number of threads, every history. -/
theorem OLTS.run_invariant (m : OLTS σ ε ο) (I : σ → Prop)
    (hstep : ∀ s e s', I s → m.step s e = some s' → I s')
    (s s' : σ) (es : List ε) (hi : I s) (hr : m.run s es = some s') : I s' := by
  induction es generalizing s with
  | nil => simp [OLTS.run] at hr; subst hr; exact hi
  | cons e es ih =>
    simp only [OLTS.run] at hr
    cases hst : m.step s e with
    | none => simp [hst] at hr
    | some s1 => simp [hst] at hr; exact ih s1 (hstep s e s1 hi hst) hr

theorem OLTS.invariant (m : OLTS σ ε ο) (I : σ → Prop) (hinit : I m.init)
    (hstep : ∀ s e s', I s → m.step s e = some s' → I s') :
    ∀ s, m.Reachable s → I s := by
  intro s ⟨es, hr⟩
  exact m.run_invariant I hstep m.init s es hinit hr

/-- a prefix of a run is a run -/
theorem OLTS.run_prefix (m : OLTS σ ε ο) (s s' : σ) (es fs : List ε)
    (h : m.run s (es ++ fs) = some s') : ∃ s1, m.run s es = some s1 ∧ m.run s1 fs = some s' := by
  rw [m.run_append] at h
  cases h1 : m.run s es with
  | none => simp [h1] at h
  | some s1 => exact ⟨s1, rfl, by simpa [h1] using h⟩

section Accept
variable [BEq σ] [DecidableEq ο]

/-- internal successors of one state -/
def OLTS.tauSucc (m : OLTS σ ε ο) (s : σ) : List σ :=
  (m.cands s).filterMap fun e => if (m.obs e).isNone then m.step s e else none

def addOne (acc : List σ × List σ) (s : σ) : List σ × List σ :=
  if acc.1.contains s then acc else (acc.1 ++ [s], acc.2 ++ [s])

/-- add the states of `new` not yet in `seen`; returns (seen', fresh) -/
def addNew (seen new : List σ) : List σ × List σ := new.foldl addOne (seen, [])

/-- closure under internal steps, bounded by `fuel` rounds and `cap` states.
The boolean says whether the bound cut the exploration short. -/
def OLTS.closure (m : OLTS σ ε ο) (cap : Nat) : Nat → List σ → List σ → List σ × Bool
  | 0, seen, fr => (seen, !fr.isEmpty)
  | _, seen, [] => (seen, false)
  | n+1, seen, frontier =>
    if seen.length > cap then (seen, true) else
    let succs := frontier.flatMap m.tauSucc
    let r := addNew seen succs
    m.closure cap n r.1 r.2

/-- one observable step of the subset construction -/
def OLTS.accStep (m : OLTS σ ε ο) (cap fuel : Nat) (S : List σ) (o : ο) : List σ × Bool :=
  let C := m.closure cap fuel S S
  let nxt := C.1.flatMap fun s =>
    (m.evsOf s o).filterMap fun e => if m.obs e = some o then m.step s e else none
  ((addNew [] nxt).1, C.2)

/-- result of checking a history: the final state set, the index of the first observable at which
the set became empty (if any), and whether any closure was cut short -/
structure AccRes (σ : Type) where
  states : List σ
  failedAt : Option Nat
  truncated : Bool
  maxSet : Nat

def OLTS.accFrom (m : OLTS σ ε ο) (cap fuel : Nat) : List σ → List ο → List σ
  | S, [] => S
  | S, o :: os => m.accFrom cap fuel (m.accStep cap fuel S o).1 os

/-- instrumented variant used by the driver (same state sets as `accFrom`) -/
def OLTS.accRun (m : OLTS σ ε ο) (cap fuel : Nat) : List σ → List ο → Nat → Bool → Nat → AccRes σ
  | S, [], _, tr, mx => ⟨S, none, tr, mx⟩
  | S, o :: os, i, tr, mx =>
    let r := m.accStep cap fuel S o
    if r.1.isEmpty then ⟨[], some i, tr || r.2, mx⟩
    else m.accRun cap fuel r.1 os (i+1) (tr || r.2) (max mx r.1.length)

def OLTS.accepts (m : OLTS σ ε ο) (cap fuel : Nat) (h : List ο) : Bool :=
  !(m.accFrom cap fuel [m.init] h).isEmpty

/-- every state of `S` is reached by a run whose observable projection is `h` -/
def Good (m : OLTS σ ε ο) (h : List ο) (S : List σ) : Prop :=
  ∀ s ∈ S, ∃ es, m.run m.init es = some s ∧ es.filterMap m.obs = h

theorem foldl_addOne_subset (seen new l : List σ) (acc : List σ × List σ)
    (h1 : ∀ s ∈ acc.1, s ∈ seen ∨ s ∈ new) (h2 : ∀ s ∈ acc.2, s ∈ new) (hl : ∀ s ∈ l, s ∈ new) :
    (∀ s ∈ (l.foldl addOne acc).1, s ∈ seen ∨ s ∈ new) ∧ (∀ s ∈ (l.foldl addOne acc).2, s ∈ new) := by
  induction l generalizing acc with
  | nil => exact ⟨h1, h2⟩
  | cons x xs ih =>
    simp only [List.foldl_cons]
    apply ih
    · unfold addOne; split
      · exact h1
      · intro s hs; simp at hs
        rcases hs with hs | hs
        · exact h1 s hs
        · subst hs; exact Or.inr (hl _ (by simp))
    · unfold addOne; split
      · exact h2
      · intro s hs; simp at hs
        rcases hs with hs | hs
        · exact h2 s hs
        · subst hs; exact hl _ (by simp)
    · intro s hs; exact hl s (by simp [hs])

theorem addNew_subset (seen new : List σ) :
    (∀ s ∈ (addNew seen new).1, s ∈ seen ∨ s ∈ new) ∧ (∀ s ∈ (addNew seen new).2, s ∈ new) :=
  foldl_addOne_subset seen new new (seen, []) (fun s hs => Or.inl hs) (fun s hs => by simp at hs)
    (fun s hs => hs)

omit [BEq σ] [DecidableEq ο] in
theorem tauSucc_good (m : OLTS σ ε ο) (h : List ο) (s : σ)
    (hs : ∃ es, m.run m.init es = some s ∧ es.filterMap m.obs = h) :
    ∀ s' ∈ m.tauSucc s, ∃ es, m.run m.init es = some s' ∧ es.filterMap m.obs = h := by
  intro s' hs'
  obtain ⟨es, hr, hp⟩ := hs
  simp only [OLTS.tauSucc, List.mem_filterMap] at hs'
  obtain ⟨e, _, he⟩ := hs'
  split at he
  · rename_i hobs
    refine ⟨es ++ [e], ?_, ?_⟩
    · simp [OLTS.run_append, hr, OLTS.run, he]
    · simp [List.filterMap_append, hp, Option.isNone_iff_eq_none.mp hobs]
  · simp at he

omit [DecidableEq ο] in
theorem closure_good (m : OLTS σ ε ο) (h : List ο) (cap n : Nat) (seen fr : List σ)
    (h1 : Good m h seen) (h2 : Good m h fr) : Good m h (m.closure cap n seen fr).1 := by
  induction n generalizing seen fr with
  | zero => simpa [OLTS.closure] using h1
  | succ n ih =>
    cases fr with
    | nil => simpa [OLTS.closure] using h1
    | cons f fs =>
      simp only [OLTS.closure]
      split
      · exact h1
      · have hsucc : Good m h ((f :: fs).flatMap m.tauSucc) := by
          intro s hs
          simp only [List.mem_flatMap] at hs
          obtain ⟨t, ht, hst⟩ := hs
          exact tauSucc_good m h t (h2 t ht) s hst
        have ⟨a1, a2⟩ := addNew_subset seen ((f :: fs).flatMap m.tauSucc)
        apply ih
        · intro s hs
          rcases a1 s hs with h' | h'
          · exact h1 s h'
          · exact hsucc s h'
        · intro s hs; exact hsucc s (a2 s hs)

theorem accStep_good (m : OLTS σ ε ο) (cap fuel : Nat) (h : List ο) (S : List σ) (o : ο)
    (hS : Good m h S) : Good m (h ++ [o]) (m.accStep cap fuel S o).1 := by
  intro s' hs'
  simp only [OLTS.accStep] at hs'
  have ⟨a1, _⟩ := addNew_subset ([] : List σ)
    ((m.closure cap fuel S S).1.flatMap fun s =>
      (m.evsOf s o).filterMap fun e => if m.obs e = some o then m.step s e else none)
  rcases a1 s' hs' with hh | hh
  · simp at hh
  · simp only [List.mem_flatMap, List.mem_filterMap] at hh
    obtain ⟨s, hsC, e, _, hstep⟩ := hh
    split at hstep
    · rename_i hobs
      obtain ⟨es, hr, hp⟩ := closure_good m h cap fuel S S hS hS s hsC
      refine ⟨es ++ [e], ?_, ?_⟩
      · simp [OLTS.run_append, hr, OLTS.run, hstep]
      · simp [List.filterMap_append, hp, hobs]
    · simp at hstep

theorem accFrom_good (m : OLTS σ ε ο) (cap fuel : Nat) (h0 h : List ο) (S : List σ)
    (hS : Good m h0 S) : Good m (h0 ++ h) (m.accFrom cap fuel S h) := by
  induction h generalizing h0 S with
  | nil => simpa [OLTS.accFrom] using hS
  | cons o os ih =>
    simp only [OLTS.accFrom]
    have := ih (h0 ++ [o]) _ (accStep_good m cap fuel h0 S o hS)
    simpa using this

/-- **Soundness of the correspondence check**: an accepted history is the observable projection
of a real model run (for any exploration bounds). -/
theorem accepts_sound (m : OLTS σ ε ο) (cap fuel : Nat) (h : List ο)
    (ha : m.accepts cap fuel h = true) :
    ∃ es s, m.run m.init es = some s ∧ es.filterMap m.obs = h := by
  have hg : Good m ([] ++ h) (m.accFrom cap fuel [m.init] h) :=
    accFrom_good m cap fuel [] h [m.init] (by
      intro s hs; simp at hs; subst hs; exact ⟨[], rfl, rfl⟩)
  simp only [OLTS.accepts] at ha
  cases hl : m.accFrom cap fuel [m.init] h with
  | nil => simp [hl] at ha
  | cons s rest =>
    obtain ⟨es, hr, hp⟩ := hg s (by simp [hl])
    exact ⟨es, s, hr, by simpa using hp⟩

/-- the instrumented run computes the same state sets -/
theorem accRun_states (m : OLTS σ ε ο) (cap fuel : Nat) (S : List σ) (h : List ο) (i : Nat)
    (tr : Bool) (mx : Nat) (hf : (m.accRun cap fuel S h i tr mx).failedAt = none) :
    (m.accRun cap fuel S h i tr mx).states = m.accFrom cap fuel S h := by
  induction h generalizing S i tr mx with
  | nil => simp [OLTS.accRun, OLTS.accFrom]
  | cons o os ih =>
    simp only [OLTS.accRun, OLTS.accFrom] at hf ⊢
    split at hf
    · simp at hf
    · rename_i hne
      simp only [hne]
      exact ih _ _ _ _ hf

/-- what the driver reports as ACCEPT implies `accepts` -/
theorem accRun_accepts (m : OLTS σ ε ο) (cap fuel : Nat) (h : List ο)
    (hf : (m.accRun cap fuel [m.init] h 0 false 1).failedAt = none)
    (hne : (m.accRun cap fuel [m.init] h 0 false 1).states.isEmpty = false) :
    m.accepts cap fuel h = true := by
  have := accRun_states m cap fuel [m.init] h 0 false 1 hf
  simp [OLTS.accepts, ← this, hne]

end Accept

/-- All observable traces of the model satisfy `P` ⇒ every accepted history satisfies `P`. -/
theorem accepted_satisfies [BEq σ] [DecidableEq ο] (m : OLTS σ ε ο) (P : List ο → Prop)
    (hP : ∀ es s, m.run m.init es = some s → P (es.filterMap m.obs))
    (cap fuel : Nat) (h : List ο) (ha : m.accepts cap fuel h = true) : P h := by
  obtain ⟨es, s, hr, hp⟩ := accepts_sound m cap fuel h ha
  exact hp ▸ hP es s hr

end UtilModel
