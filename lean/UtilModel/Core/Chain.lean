/-!
# Core: hand-over chain between consecutive goroutines of one slot (routine, keyed, refcount)

A *slot* has instances `0,1,2,…`; each has an optional predecessor (the instance whose exit channel it
waits on before running), a state and a cancelled flag; the slot remembers `last`, the instance whose
exit channel the next start will wait on. `drained` (a cancelled waiter still waits for its
predecessor before it counts as exited) is the behaviour after the D2 repair. Main result:
`chain_one_running` — for every event list, two running instances are the same instance.
-/
namespace UtilModel.Chain

inductive IS where
  | waiting | draining | running | returned | closed
deriving DecidableEq, Repr

structure Inst where
  pred : Option Nat
  st : IS
  cancelled : Bool
deriving DecidableEq, Repr

structure Slot where
  insts : List Inst := []
  last : Option Nat := none
deriving DecidableEq, Repr

inductive Ev where
  | spawn | cancel (i : Nat) | proceed (i : Nat) | giveUp (i : Nat) | drained (i : Nat)
  | ret (i : Nat) | close (i : Nat) | forget
deriving DecidableEq, Repr

def isClosed (s : Slot) (i : Nat) : Bool :=
  match s.insts[i]? with
  | some x => x.st == .closed
  | none => false

def predClosed (s : Slot) (x : Inst) : Bool :=
  match x.pred with
  | none => true
  | some p => isClosed s p

def setSt (s : Slot) (i : Nat) (x : Inst) (st : IS) : Slot :=
  { s with insts := s.insts.set i { x with st := st } }

def newInst (s : Slot) : Inst := { pred := s.last, st := .waiting, cancelled := false }

def spawnSlot (s : Slot) : Slot := { insts := s.insts ++ [newInst s], last := some s.insts.length }

def step (s : Slot) : Ev → Option Slot
  | .spawn => some (spawnSlot s)
  | .cancel i =>
    match s.insts[i]? with
    | some x => some { s with insts := s.insts.set i { x with cancelled := true } }
    | none => none
  | .proceed i =>
    match s.insts[i]? with
    | some x => if x.st = .waiting ∧ predClosed s x then some (setSt s i x .running) else none
    | none => none
  | .giveUp i =>
    match s.insts[i]? with
    | some x => if x.st = .waiting ∧ x.cancelled then some (setSt s i x .draining) else none
    | none => none
  | .drained i =>
    match s.insts[i]? with
    | some x => if x.st = .draining ∧ predClosed s x then some (setSt s i x .returned) else none
    | none => none
  | .ret i =>
    match s.insts[i]? with
    | some x => if x.st = .running then some (setSt s i x .returned) else none
    | none => none
  | .close i =>
    match s.insts[i]? with
    | some x => if x.st = .returned then some (setSt s i x .closed) else none
    | none => none
  | .forget =>
    match s.last with
    | some l => if isClosed s l then some { s with last := none } else none
    | none => none

def run (s : Slot) : List Ev → Option Slot
  | [] => some s
  | e :: es => (step s e).bind (run · es)

/-- `started`: the instance got past its wait for the predecessor. -/
def IS.started : IS → Bool
  | .running | .returned | .closed => true
  | _ => false

/-- all instances with index in (i, j] reachable from j via pred are ... we use a simpler
    numeric formulation: pred pointers always point to the previous *non-forgotten* instance,
    and everything below a closed instance is closed. -/
structure Inv (s : Slot) : Prop where
  predLt   : ∀ (i : Nat) (x : Inst) (p : Nat), s.insts[i]? = some x → x.pred = some p → p < i
  lastLt   : ∀ (l : Nat), s.last = some l → l < s.insts.length
  /-- an instance that started has a closed predecessor -/
  started  : ∀ (i : Nat) (x : Inst), s.insts[i]? = some x → x.st.started = true → predClosed s x = true
  /-- everything strictly between pred and i is closed; everything below a `none` pred is closed -/
  gapNone  : ∀ (i : Nat) (x : Inst), s.insts[i]? = some x → x.pred = none → ∀ (j : Nat), j < i → isClosed s j = true
  gapSome  : ∀ (i : Nat) (x : Inst) (p : Nat), s.insts[i]? = some x → x.pred = some p → ∀ (j : Nat), p < j → j < i → isClosed s j = true
  /-- everything above `last` is closed; if last = none everything is closed -/
  topNone  : s.last = none → ∀ (j : Nat), j < s.insts.length → isClosed s j = true
  topSome  : ∀ (l : Nat), s.last = some l → ∀ (j : Nat), l < j → j < s.insts.length → isClosed s j = true
  /-- closed is downward closed -/
  down     : ∀ (i : Nat), isClosed s i = true → ∀ (j : Nat), j < i → isClosed s j = true

theorem at_most_one_started_unclosed (s : Slot) (h : Inv s) (i j : Nat) (x y : Inst)
    (hx : s.insts[i]? = some x) (hy : s.insts[j]? = some y) (hij : i < j)
    (hys : y.st.started = true) : isClosed s i = true := by
  have hp := h.started j y hy hys
  unfold predClosed at hp
  cases hpred : y.pred with
  | none => exact h.gapNone j y hy hpred i hij
  | some p =>
    simp [hpred] at hp
    have hplt := h.predLt j y p hy hpred
    rcases Nat.lt_trichotomy i p with h1 | h1 | h1
    · exact h.down p hp i h1
    · subst h1; exact hp
    · exact h.gapSome j y p hy hpred i h1 hij

/-- Two distinct instances of one slot are never running together. -/
theorem one_running (s : Slot) (h : Inv s) (i j : Nat) (x y : Inst)
    (hx : s.insts[i]? = some x) (hy : s.insts[j]? = some y)
    (rx : x.st = .running) (ry : y.st = .running) : i = j := by
  rcases Nat.lt_trichotomy i j with h1 | h1 | h1
  · have := at_most_one_started_unclosed s h i j x y hx hy h1 (by simp [ry, IS.started])
    simp [isClosed, hx, rx] at this
  · exact h1
  · have := at_most_one_started_unclosed s h j i y x hy hx h1 (by simp [rx, IS.started])
    simp [isClosed, hy, ry] at this


theorem lt_of_get {l : List Inst} {i : Nat} {x : Inst} (h : l[i]? = some x) : i < l.length := by
  rcases Nat.lt_or_ge i l.length with h' | h'
  · exact h'
  · simp [List.getElem?_eq_none h'] at h

/-- updating one instance (keeping `pred`) to a non-closed state leaves `isClosed` unchanged
    provided it was not closed before -/
theorem isClosed_set_same (s : Slot) (i : Nat) (x y : Inst) (hx : s.insts[i]? = some x)
    (hxc : x.st ≠ .closed) (hyc : y.st ≠ .closed) (j : Nat) :
    isClosed { s with insts := s.insts.set i y } j = isClosed s j := by
  have hlt := lt_of_get hx
  unfold isClosed
  simp only [List.getElem?_set, hlt]
  by_cases hij : i = j
  · subst hij
    have h1 : (y.st == IS.closed) = false := by simpa using hyc
    have h2 : (x.st == IS.closed) = false := by simpa using hxc
    simp [hx, h1, h2]
  · simp [hij]

theorem isClosed_set_close (s : Slot) (i : Nat) (x y : Inst) (hx : s.insts[i]? = some x)
    (hyc : y.st = .closed) (j : Nat) :
    isClosed { s with insts := s.insts.set i y } j = (decide (j = i) || isClosed s j) := by
  have hlt := lt_of_get hx
  unfold isClosed
  simp only [List.getElem?_set, hlt]
  by_cases hij : i = j
  · subst hij; simp [hyc]
  · have : ¬ j = i := fun h => hij h.symm
    simp [hij, this]

/-- generic preservation for an update of instance `i` from `x` to `y` with the same `pred`,
    neither closed, where `y` started only if its predecessor is closed -/
theorem inv_set_same (s : Slot) (h : Inv s) (i : Nat) (x y : Inst) (hx : s.insts[i]? = some x)
    (hp : y.pred = x.pred) (hxc : x.st ≠ .closed) (hyc : y.st ≠ .closed)
    (hst : y.st.started = true → predClosed s x = true) :
    Inv { s with insts := s.insts.set i y } := by
  have hlt := lt_of_get hx
  have hcl := isClosed_set_same s i x y hx hxc hyc
  have hget : ∀ j, ({ s with insts := s.insts.set i y } : Slot).insts[j]? =
      if i = j then some y else s.insts[j]? := by
    intro j; simp [List.getElem?_set, hlt]
  have hpc : ∀ z : Inst, predClosed { s with insts := s.insts.set i y } z = predClosed s z := by
    intro z; unfold predClosed; cases z.pred <;> simp [hcl]
  refine ⟨?_, ?_, ?_, ?_, ?_, ?_, ?_, ?_⟩
  · intro j z p hz hzp
    rw [hget] at hz
    by_cases hij : i = j
    · simp [hij] at hz; subst hz; subst hij; exact h.predLt i x p hx (hp ▸ hzp)
    · simp [hij] at hz; exact h.predLt j z p hz hzp
  · intro l hl; simpa using h.lastLt l hl
  · intro j z hz hzs
    rw [hget] at hz; rw [hpc]
    by_cases hij : i = j
    · simp [hij] at hz; subst hz
      have := hst hzs
      unfold predClosed at this ⊢; rw [hp]; exact this
    · simp [hij] at hz; exact h.started j z hz hzs
  · intro j z hz hzp k hk
    rw [hget] at hz; rw [hcl]
    by_cases hij : i = j
    · simp [hij] at hz; subst hz; subst hij; exact h.gapNone i x hx (hp ▸ hzp) k hk
    · simp [hij] at hz; exact h.gapNone j z hz hzp k hk
  · intro j z p hz hzp k hk1 hk2
    rw [hget] at hz; rw [hcl]
    by_cases hij : i = j
    · simp [hij] at hz; subst hz; subst hij; exact h.gapSome i x p hx (hp ▸ hzp) k hk1 hk2
    · simp [hij] at hz; exact h.gapSome j z p hz hzp k hk1 hk2
  · intro hl j hj; rw [hcl]; exact h.topNone hl j (by simpa using hj)
  · intro l hl j hj1 hj2; rw [hcl]; exact h.topSome l hl j hj1 (by simpa using hj2)
  · intro k hk j hj; rw [hcl] at hk ⊢; exact h.down k hk j hj

theorem all_below_closed (s : Slot) (h : Inv s) (i : Nat) (x : Inst) (hx : s.insts[i]? = some x)
    (hs : x.st.started = true) : ∀ j, j < i → isClosed s j = true := by
  intro j hj
  have hp := h.started i x hx hs
  unfold predClosed at hp
  cases hpred : x.pred with
  | none => exact h.gapNone i x hx hpred j hj
  | some p =>
    simp [hpred] at hp
    rcases Nat.lt_trichotomy j p with h1 | h1 | h1
    · exact h.down p hp j h1
    · subst h1; exact hp
    · exact h.gapSome i x p hx hpred j h1 hj

theorem inv_close (s : Slot) (h : Inv s) (i : Nat) (x : Inst) (hx : s.insts[i]? = some x)
    (hr : x.st = .returned) : Inv (setSt s i x .closed) := by
  have hlt := lt_of_get hx
  unfold setSt
  have hcl := isClosed_set_close s i x { x with st := .closed } hx rfl
  have hbelow := all_below_closed s h i x hx (by simp [hr, IS.started])
  have hget : ∀ j, ({ s with insts := s.insts.set i { x with st := .closed } } : Slot).insts[j]? =
      if i = j then some { x with st := .closed } else s.insts[j]? := by
    intro j; simp [List.getElem?_set, hlt]
  have hmono : ∀ j, isClosed s j = true →
      isClosed { s with insts := s.insts.set i { x with st := .closed } } j = true := by
    intro j hj; rw [hcl]; simp [hj]
  have hpc : ∀ z : Inst, predClosed s z = true →
      predClosed { s with insts := s.insts.set i { x with st := .closed } } z = true := by
    intro z; unfold predClosed; cases z.pred <;> simp; exact hmono _
  refine ⟨?_, ?_, ?_, ?_, ?_, ?_, ?_, ?_⟩
  · intro j z p hz hzp
    rw [hget] at hz
    by_cases hij : i = j
    · simp [hij] at hz; subst hz; subst hij; exact h.predLt i x p hx hzp
    · simp [hij] at hz; exact h.predLt j z p hz hzp
  · intro l hl; simpa using h.lastLt l hl
  · intro j z hz hzs
    rw [hget] at hz
    by_cases hij : i = j
    · simp [hij] at hz; subst hz
      apply hpc
      have := h.started i x hx (by simp [hr, IS.started])
      unfold predClosed at this ⊢; exact this
    · simp [hij] at hz; exact hpc z (h.started j z hz hzs)
  · intro j z hz hzp k hk
    rw [hget] at hz
    by_cases hij : i = j
    · simp [hij] at hz; subst hz; subst hij; exact hmono k (h.gapNone i x hx hzp k hk)
    · simp [hij] at hz; exact hmono k (h.gapNone j z hz hzp k hk)
  · intro j z p hz hzp k hk1 hk2
    rw [hget] at hz
    by_cases hij : i = j
    · simp [hij] at hz; subst hz; subst hij; exact hmono k (h.gapSome i x p hx hzp k hk1 hk2)
    · simp [hij] at hz; exact hmono k (h.gapSome j z p hz hzp k hk1 hk2)
  · intro hl j hj; exact hmono j (h.topNone hl j (by simpa using hj))
  · intro l hl j hj1 hj2; exact hmono j (h.topSome l hl j hj1 (by simpa using hj2))
  · intro k hk j hj
    rw [hcl] at hk
    simp at hk
    rcases hk with hk | hk
    · subst hk; exact hmono j (hbelow j hj)
    · exact hmono j (h.down k hk j hj)


theorem get_spawn (s : Slot) (j : Nat) :
    (spawnSlot s).insts[j]? = if j < s.insts.length then s.insts[j]?
      else if j = s.insts.length then some (newInst s) else none := by
  unfold spawnSlot
  simp only [List.getElem?_append]
  by_cases hlt : j < s.insts.length
  · simp [hlt]
  · simp only [hlt, if_false]
    by_cases hj : j = s.insts.length
    · simp [hj]
    · have : [newInst s][j - s.insts.length]? = none := List.getElem?_eq_none (by simp; omega)
      simp [this, hj]

theorem isClosed_spawn (s : Slot) (j : Nat) : isClosed (spawnSlot s) j = isClosed s j := by
  unfold isClosed
  rw [get_spawn]
  by_cases hlt : j < s.insts.length
  · simp [hlt]
  · have hn : s.insts[j]? = none := List.getElem?_eq_none (by omega)
    by_cases hj : j = s.insts.length
    · simp [hlt, hj, newInst]
    · simp [hlt, hj, hn]

theorem inv_spawn (s : Slot) (h : Inv s) : Inv (spawnSlot s) := by
  have hcl := isClosed_spawn s
  have hget : ∀ j z, (spawnSlot s).insts[j]? = some z →
      (j < s.insts.length ∧ s.insts[j]? = some z) ∨ (j = s.insts.length ∧ z = newInst s) := by
    intro j z hz
    rw [get_spawn] at hz
    by_cases hlt : j < s.insts.length
    · rw [if_pos hlt] at hz; exact Or.inl ⟨hlt, hz⟩
    · by_cases hj : j = s.insts.length
      · simp [hj] at hz; exact Or.inr ⟨hj, hz.symm⟩
      · simp [hlt, hj] at hz
  have hpc : ∀ z : Inst, predClosed (spawnSlot s) z = predClosed s z := by
    intro z; unfold predClosed; cases z.pred <;> simp [hcl]
  have hlen : (spawnSlot s).insts.length = s.insts.length + 1 := by simp [spawnSlot]
  have hlast : (spawnSlot s).last = some s.insts.length := rfl
  refine ⟨?_, ?_, ?_, ?_, ?_, ?_, ?_, ?_⟩
  · intro j z p hz hzp
    rcases hget j z hz with ⟨_, hz'⟩ | ⟨hj, hz'⟩
    · exact h.predLt j z p hz' hzp
    · subst hz'; subst hj; exact h.lastLt p hzp
  · intro l hl; rw [hlast] at hl; simp at hl; subst hl; rw [hlen]; omega
  · intro j z hz hzs
    rw [hpc]
    rcases hget j z hz with ⟨_, hz'⟩ | ⟨hj, hz'⟩
    · exact h.started j z hz' hzs
    · subst hz'; simp [IS.started, newInst] at hzs
  · intro j z hz hzp k hk
    rw [hcl]
    rcases hget j z hz with ⟨_, hz'⟩ | ⟨hj, hz'⟩
    · exact h.gapNone j z hz' hzp k hk
    · subst hz'; subst hj; exact h.topNone hzp k hk
  · intro j z p hz hzp k hk1 hk2
    rw [hcl]
    rcases hget j z hz with ⟨_, hz'⟩ | ⟨hj, hz'⟩
    · exact h.gapSome j z p hz' hzp k hk1 hk2
    · subst hz'; subst hj; exact h.topSome p hzp k hk1 hk2
  · intro hl; rw [hlast] at hl; simp at hl
  · intro l hl j hj1 hj2; rw [hlast] at hl; simp at hl; subst hl; rw [hlen] at hj2; omega
  · intro k hk j hj; rw [hcl] at hk ⊢; exact h.down k hk j hj

theorem inv_cancel (s : Slot) (h : Inv s) (i : Nat) (x : Inst) (hx : s.insts[i]? = some x) :
    Inv { s with insts := s.insts.set i { x with cancelled := true } } := by
  by_cases hc : x.st = .closed
  · have hlt := lt_of_get hx
    have hcl : ∀ j, isClosed { s with insts := s.insts.set i { x with cancelled := true } } j = isClosed s j := by
      intro j
      unfold isClosed
      simp only [List.getElem?_set, hlt]
      by_cases hij : i = j
      · subst hij; simp [hx]
      · simp [hij]
    have hget : ∀ j, ({ s with insts := s.insts.set i { x with cancelled := true } } : Slot).insts[j]? =
        if i = j then some { x with cancelled := true } else s.insts[j]? := by
      intro j; simp [List.getElem?_set, hlt]
    have hpc : ∀ z : Inst, predClosed { s with insts := s.insts.set i { x with cancelled := true } } z = predClosed s z := by
      intro z; unfold predClosed; cases z.pred <;> simp [hcl]
    refine ⟨?_, ?_, ?_, ?_, ?_, ?_, ?_, ?_⟩
    · intro j z p hz hzp
      rw [hget] at hz
      by_cases hij : i = j
      · simp [hij] at hz; subst hz; subst hij; exact h.predLt i x p hx hzp
      · simp [hij] at hz; exact h.predLt j z p hz hzp
    · intro l hl; simpa using h.lastLt l hl
    · intro j z hz hzs
      rw [hget] at hz; rw [hpc]
      by_cases hij : i = j
      · simp [hij] at hz; subst hz
        have := h.started i x hx hzs
        unfold predClosed at this ⊢; exact this
      · simp [hij] at hz; exact h.started j z hz hzs
    · intro j z hz hzp k hk
      rw [hget] at hz; rw [hcl]
      by_cases hij : i = j
      · simp [hij] at hz; subst hz; subst hij; exact h.gapNone i x hx hzp k hk
      · simp [hij] at hz; exact h.gapNone j z hz hzp k hk
    · intro j z p hz hzp k hk1 hk2
      rw [hget] at hz; rw [hcl]
      by_cases hij : i = j
      · simp [hij] at hz; subst hz; subst hij; exact h.gapSome i x p hx hzp k hk1 hk2
      · simp [hij] at hz; exact h.gapSome j z p hz hzp k hk1 hk2
    · intro hl j hj; rw [hcl]; exact h.topNone hl j (by simpa using hj)
    · intro l hl j hj1 hj2; rw [hcl]; exact h.topSome l hl j hj1 (by simpa using hj2)
    · intro k hk j hj; rw [hcl] at hk ⊢; exact h.down k hk j hj
  · exact inv_set_same s h i x { x with cancelled := true } hx rfl hc hc
      (fun hst => h.started i x hx hst)

theorem step_inv (s s' : Slot) (e : Ev) (h : Inv s) (hs : step s e = some s') : Inv s' := by
  cases e with
  | spawn => simp [step] at hs; subst hs; exact inv_spawn s h
  | cancel i =>
    cases hx : s.insts[i]? with
    | none => simp [step, hx] at hs
    | some x => simp [step, hx] at hs; subst hs; exact inv_cancel s h i x hx
  | proceed i =>
    cases hx : s.insts[i]? with
    | none => simp [step, hx] at hs
    | some x =>
      simp [step, hx] at hs
      obtain ⟨⟨hw, hp⟩, rfl⟩ := hs
      exact inv_set_same s h i x { x with st := .running } hx rfl (by simp [hw]) (by simp) (fun _ => hp)
  | giveUp i =>
    cases hx : s.insts[i]? with
    | none => simp [step, hx] at hs
    | some x =>
      simp [step, hx] at hs
      obtain ⟨⟨hw, _⟩, rfl⟩ := hs
      exact inv_set_same s h i x { x with st := .draining } hx rfl (by simp [hw]) (by simp)
        (fun hst => by simp [IS.started] at hst)
  | drained i =>
    cases hx : s.insts[i]? with
    | none => simp [step, hx] at hs
    | some x =>
      simp [step, hx] at hs
      obtain ⟨⟨hw, hp⟩, rfl⟩ := hs
      exact inv_set_same s h i x { x with st := .returned } hx rfl (by simp [hw]) (by simp) (fun _ => hp)
  | ret i =>
    cases hx : s.insts[i]? with
    | none => simp [step, hx] at hs
    | some x =>
      simp [step, hx] at hs
      obtain ⟨hw, rfl⟩ := hs
      exact inv_set_same s h i x { x with st := .returned } hx rfl (by simp [hw]) (by simp)
        (fun _ => h.started i x hx (by simp [hw, IS.started]))
  | close i =>
    cases hx : s.insts[i]? with
    | none => simp [step, hx] at hs
    | some x =>
      simp [step, hx] at hs
      obtain ⟨hw, rfl⟩ := hs
      exact inv_close s h i x hx hw
  | forget =>
    cases hl : s.last with
    | none => simp [step, hl] at hs
    | some l =>
      simp [step, hl] at hs
      obtain ⟨hc, rfl⟩ := hs
      refine ⟨h.predLt, ?_, h.started, h.gapNone, h.gapSome, ?_, ?_, h.down⟩
      · intro l' hl'; simp at hl'
      · intro _ j hj
        rcases Nat.lt_trichotomy j l with h1 | h1 | h1
        · exact h.down l hc j h1
        · subst h1; exact hc
        · exact h.topSome l hl j h1 hj
      · intro l' hl'; simp at hl'

theorem init_inv : Inv {} := by
  refine ⟨?_, ?_, ?_, ?_, ?_, ?_, ?_, ?_⟩ <;> intros <;> simp_all [isClosed]

theorem run_inv (s s' : Slot) (es : List Ev) (hi : Inv s) (hr : run s es = some s') : Inv s' := by
  induction es generalizing s with
  | nil => simp [run] at hr; subst hr; exact hi
  | cons e es ih =>
    simp only [run] at hr
    cases hst : step s e with
    | none => simp [hst] at hr
    | some s1 => simp [hst] at hr; exact ih s1 (step_inv s s1 e hi hst) hr

/-- For every history of spawns, cancellations and instance steps, in every order, at most one
    instance of the slot is running. -/
theorem chain_one_running (es : List Ev) (s : Slot) (hr : run {} es = some s) (i j : Nat) (x y : Inst)
    (hx : s.insts[i]? = some x) (hy : s.insts[j]? = some y)
    (rx : x.st = .running) (ry : y.st = .running) : i = j :=
  one_running s (run_inv _ _ es init_inv hr) i j x y hx hy rx ry

end UtilModel.Chain
