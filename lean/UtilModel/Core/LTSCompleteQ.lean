import Std.Data.HashSet.Lemmas
import UtilModel.Core.LTSComplete
/-!
# Core: completeness of the hash-indexed checker for models whose state equality is a quotient

Some models (broadcast, ccontainer) de-duplicate states with a hand-written `BEq` that identifies
states up to a renaming (closed wait channels are interchangeable, the allocation counter is
irrelevant). That equality is not `LawfulBEq`, so `rejectH_sound` does not apply. This file proves
the same statement under the hypotheses that actually hold:

* `==` is an equivalence compatible with the hash (`EquivBEq`, `LawfulHashable`), and
* `==` is a **bisimulation on reachable states** (`OLTS.QuotOK`): a step of one of two equal states
  is matched by a step of the other with the same observable (the internal event may differ: a
  waiter parked on a closed channel and one that has not sampled yet are identified, and they move
  by different internal events with the same effect), and the successors are equal again.

Then a state dropped because an equal one was already recorded loses nothing, and a REJECT without
truncation still means that no run of the model projects to the history (`rejectH_sound_quot`).
-/
namespace UtilModel

variable {σ ε ο : Type} [BEq σ] [Hashable σ] [EquivBEq σ] [LawfulHashable σ] [DecidableEq ο]

/-- membership up to the model's state equality -/
def MemQ (S : List σ) (s : σ) : Prop := ∃ t ∈ S, (t == s) = true

omit [Hashable σ] [LawfulHashable σ] [DecidableEq ο] in
theorem MemQ.of_mem {S : List σ} {s : σ} (h : s ∈ S) : MemQ S s := ⟨s, h, BEq.rfl⟩

omit [Hashable σ] [EquivBEq σ] [LawfulHashable σ] [DecidableEq ο] in
theorem MemQ.mono {S T : List σ} {s : σ} (hs : ∀ x ∈ S, x ∈ T) (h : MemQ S s) : MemQ T s := by
  obtain ⟨t, ht, e⟩ := h
  exact ⟨t, hs t ht, e⟩

omit [Hashable σ] [LawfulHashable σ] [DecidableEq ο] in
theorem MemQ.trans {S : List σ} {s s' : σ} (h : MemQ S s) (e : (s == s') = true) : MemQ S s' := by
  obtain ⟨t, ht, e1⟩ := h
  exact ⟨t, ht, BEq.trans e1 e⟩

omit [Hashable σ] [EquivBEq σ] [LawfulHashable σ] [DecidableEq ο] in
theorem memQ_cons (x : σ) (L : List σ) (s : σ) : MemQ (x :: L) s ↔ (x == s) = true ∨ MemQ L s := by
  constructor
  · rintro ⟨t, ht, e⟩
    simp only [List.mem_cons] at ht
    rcases ht with rfl | ht
    · exact Or.inl e
    · exact Or.inr ⟨t, ht, e⟩
  · rintro (h | ⟨t, ht, e⟩)
    · exact ⟨x, by simp, h⟩
    · exact ⟨t, by simp [ht], e⟩

/-- `==` is a bisimulation on reachable states -/
structure OLTS.QuotOK (m : OLTS σ ε ο) : Prop where
  bisim : ∀ s t, m.Reachable s → m.Reachable t → (s == t) = true →
    ∀ e s', m.step s e = some s' →
      ∃ e' t', m.obs e' = m.obs e ∧ m.step t e' = some t' ∧ (s' == t') = true

omit [DecidableEq ο] in
theorem addNewHAux_specQ (l : List σ) (seen : List σ) (acc : Std.HashSet σ × List σ)
    (ha : ∀ s, acc.1.contains s = true ↔ MemQ (acc.2 ++ seen) s) :
    (∀ s, (addNewHAux l acc).1.contains s = true ↔ MemQ ((addNewHAux l acc).2 ++ seen) s) ∧
      (∀ s ∈ l, MemQ ((addNewHAux l acc).2 ++ seen) s) ∧ (∀ s ∈ acc.2, s ∈ (addNewHAux l acc).2) := by
  induction l generalizing acc with
  | nil => exact ⟨ha, fun s hs => (by cases hs), fun s hs => hs⟩
  | cons x xs ih =>
    simp only [addNewHAux, List.foldl_cons]
    by_cases hx : acc.1.contains x = true
    · simp only [hx, if_true]
      obtain ⟨h1, h2, h3⟩ := ih acc ha
      refine ⟨h1, ?_, h3⟩
      intro s hs
      simp only [List.mem_cons] at hs
      rcases hs with rfl | hs
      · refine MemQ.mono ?_ ((ha s).mp hx)
        intro y hy
        simp only [List.mem_append] at hy ⊢
        rcases hy with h | h
        · exact Or.inl (h3 y h)
        · exact Or.inr h
      · exact h2 s hs
    · simp only [hx]
      have ha' : ∀ s, (acc.1.insert x, x :: acc.2).1.contains s = true ↔
          MemQ ((acc.1.insert x, x :: acc.2).2 ++ seen) s := by
        intro s
        simp only [Std.HashSet.contains_insert, Bool.or_eq_true, List.cons_append]
        rw [memQ_cons, ha s]
      obtain ⟨h1, h2, h3⟩ := ih _ ha'
      refine ⟨h1, ?_, fun s hs => h3 s (by simp [hs])⟩
      intro s hs
      simp only [List.mem_cons] at hs
      rcases hs with rfl | hs
      · exact MemQ.of_mem (List.mem_append_left _ (h3 s (by simp)))
      · exact h2 s hs

omit [DecidableEq ο] in
theorem addNewH_specQ (idx : Std.HashSet σ) (seen new : List σ)
    (ha : ∀ s, idx.contains s = true ↔ MemQ seen s) :
    (∀ s, (addNewH idx new).1.contains s = true ↔ MemQ ((addNewH idx new).2 ++ seen) s) ∧
      (∀ s ∈ new, MemQ ((addNewH idx new).2 ++ seen) s) := by
  rw [addNewH_eq]
  have h := addNewHAux_specQ new seen (idx, []) (by simpa using ha)
  exact ⟨h.1, h.2.1⟩

/-- closed under internal successors up to `==` -/
def OLTS.TauClosedQ (m : OLTS σ ε ο) (C : List σ) : Prop := ∀ s ∈ C, ∀ s' ∈ m.tauSucc s, MemQ C s'

omit [DecidableEq ο] in
theorem closureH_closedQ (m : OLTS σ ε ο) (cap n : Nat) (idx : Std.HashSet σ) (seen fr : List σ)
    (ha : ∀ s, idx.contains s = true ↔ MemQ seen s) (hb : ∀ s ∈ fr, s ∈ seen)
    (hc : ∀ s ∈ seen, s ∉ fr → ∀ s' ∈ m.tauSucc s, MemQ seen s')
    (hf : (m.closureH cap n idx seen fr).2 = false) :
    (∀ s ∈ seen, s ∈ (m.closureH cap n idx seen fr).1) ∧ m.TauClosedQ (m.closureH cap n idx seen fr).1 := by
  induction n generalizing idx seen fr with
  | zero =>
    simp only [OLTS.closureH] at hf ⊢
    have : fr = [] := by cases fr <;> simp_all
    subst this
    exact ⟨fun s hs => hs, fun s hs s' hs' => hc s hs (by simp) s' hs'⟩
  | succ n ih =>
    cases fr with
    | nil =>
      simp only [OLTS.closureH] at hf ⊢
      exact ⟨fun s hs => hs, fun s hs s' hs' => hc s hs (by simp) s' hs'⟩
    | cons f fs =>
      simp only [OLTS.closureH] at hf ⊢
      split at hf
      · simp at hf
      · rename_i hcap
        simp only [hcap, if_false]
        obtain ⟨a1, a2⟩ := addNewH_specQ idx seen ((f :: fs).flatMap m.tauSucc) ha
        have := ih (addNewH idx ((f :: fs).flatMap m.tauSucc)).1
          ((addNewH idx ((f :: fs).flatMap m.tauSucc)).2 ++ seen)
          (addNewH idx ((f :: fs).flatMap m.tauSucc)).2 a1
          (fun s hs => List.mem_append_left _ hs)
          (by
            intro s hs hnf s' hs'
            have hs0 : s ∈ seen := by
              simp only [List.mem_append] at hs
              rcases hs with h | h
              · exact absurd h hnf
              · exact h
            by_cases hfr : s ∈ f :: fs
            · exact a2 s' (by simp only [List.mem_flatMap]; exact ⟨s, hfr, hs'⟩)
            · exact MemQ.mono (fun y hy => List.mem_append_right _ hy) (hc s hs0 hfr s' hs'))
          hf
        exact ⟨fun s hs => this.1 s (by simp [hs]), this.2⟩

omit [BEq σ] [Hashable σ] [EquivBEq σ] [LawfulHashable σ] [DecidableEq ο] in
theorem reachable_step (m : OLTS σ ε ο) (s s' : σ) (e : ε) (hs : m.Reachable s)
    (hst : m.step s e = some s') : m.Reachable s' := by
  obtain ⟨es, hr⟩ := hs
  exact ⟨es ++ [e], by simp [OLTS.run_append, hr, OLTS.run, hst]⟩

omit [Hashable σ] [LawfulHashable σ] [DecidableEq ο] in
/-- a run of internal events from a state represented in a closed set ends in a represented state -/
theorem tauClosedQ_run (m : OLTS σ ε ο) (hm : m.Complete) (hq : m.QuotOK) (C : List σ)
    (hC : m.TauClosedQ C) (hCr : ∀ s ∈ C, m.Reachable s)
    (ts : List ε) (hts : ∀ e ∈ ts, m.obs e = none) (s s' : σ) (hsr : m.Reachable s) (hs : MemQ C s)
    (hr : m.run s ts = some s') : MemQ C s' ∧ m.Reachable s' := by
  induction ts generalizing s with
  | nil => simp [OLTS.run] at hr; subst hr; exact ⟨hs, hsr⟩
  | cons e es ih =>
    simp only [OLTS.run] at hr
    cases hst : m.step s e with
    | none => simp [hst] at hr
    | some s1 =>
      simp [hst] at hr
      have he := hts e (by simp)
      obtain ⟨t, ht, et⟩ := hs
      obtain ⟨e', t1, hoe, hst', e1⟩ := hq.bisim s t hsr (hCr t ht) (BEq.symm et) e s1 hst
      have he' : m.obs e' = none := by rw [hoe]; exact he
      have : t1 ∈ m.tauSucc t := by
        simp only [OLTS.tauSucc, List.mem_filterMap]
        exact ⟨e', hm.cands t e' t1 hst' he', by simp [he', hst']⟩
      have hmem : MemQ C s1 := (hC t ht t1 this).trans (BEq.symm e1)
      exact ih (fun x hx => hts x (by simp [hx])) s1 (reachable_step m s s1 e hsr hst) hmem hr

omit [DecidableEq ο] in
theorem foldl_insert_containsQ (S : List σ) (acc : Std.HashSet σ) (l : List σ)
    (ha : ∀ s, acc.contains s = true ↔ MemQ l s) :
    ∀ s, (S.foldl (fun acc s => acc.insert s) acc).contains s = true ↔ MemQ (l ++ S) s := by
  induction S generalizing acc l with
  | nil => intro s; simp [ha s]
  | cons x xs ih =>
    intro s
    simp only [List.foldl_cons]
    rw [ih (acc.insert x) (x :: l) (by
      intro s
      simp only [Std.HashSet.contains_insert, Bool.or_eq_true]
      rw [memQ_cons, ha s])]
    constructor
    · exact MemQ.mono (fun y hy => by simp only [List.mem_append, List.mem_cons] at hy ⊢; rcases hy with (h | h) | h <;> simp [h])
    · exact MemQ.mono (fun y hy => by simp only [List.mem_append, List.mem_cons] at hy ⊢; rcases hy with h | h | h <;> simp [h])

theorem accStepH_completeQ (m : OLTS σ ε ο) (hm : m.Complete) (hq : m.QuotOK) (cap fuel : Nat)
    (h0 : List ο) (S : List σ) (hS : Good m h0 S) (o : ο)
    (hf : (m.accStepH cap fuel S o).2 = false)
    (s0 s1 s2 : σ) (hr0 : m.Reachable s0) (hs0 : MemQ S s0) (ts : List ε)
    (hts : ∀ e ∈ ts, m.obs e = none)
    (hr : m.run s0 ts = some s1) (e : ε) (he : m.obs e = some o) (hst : m.step s1 e = some s2) :
    MemQ (m.accStepH cap fuel S o).1 s2 ∧ m.Reachable s2 := by
  have hSr : ∀ s ∈ S, m.Reachable s := fun s hs => by
    obtain ⟨es, hr, _⟩ := hS s hs; exact ⟨es, hr⟩
  have hCg := closureH_good m h0 cap fuel (S.foldl (fun acc s => acc.insert s) {}) S S hS hS
  have hCr : ∀ s ∈ (m.closureH cap fuel (S.foldl (fun acc s => acc.insert s) {}) S S).1, m.Reachable s :=
    fun s hs => by obtain ⟨es, hr, _⟩ := hCg s hs; exact ⟨es, hr⟩
  simp only [OLTS.accStepH] at hf ⊢
  have hidx : ∀ s, (S.foldl (fun acc s => acc.insert s) ({} : Std.HashSet σ)).contains s = true ↔ MemQ S s := by
    intro s
    have := foldl_insert_containsQ S ({} : Std.HashSet σ) [] (by
      intro s; simp only [Std.HashSet.contains_empty]
      constructor
      · intro h; cases h
      · rintro ⟨t, ht, _⟩; cases ht) s
    simpa using this
  obtain ⟨c1, c2⟩ := closureH_closedQ m cap fuel _ S S hidx (fun s hs => hs)
    (fun s hs hn => absurd hs hn) hf
  have hs0C : MemQ (m.closureH cap fuel (S.foldl (fun acc s => acc.insert s) {}) S S).1 s0 :=
    MemQ.mono c1 hs0
  obtain ⟨⟨t1, ht1, e1⟩, hr1⟩ := tauClosedQ_run m hm hq _ c2 hCr ts hts s0 s1 hr0 hs0C hr
  obtain ⟨e', t2, hoe, hst2, e2⟩ := hq.bisim s1 t1 hr1 (hCr t1 ht1) (BEq.symm e1) e s2 hst
  have he' : m.obs e' = some o := by rw [hoe]; exact he
  have hn := (addNewH_specQ ({} : Std.HashSet σ) []
    ((m.closureH cap fuel (S.foldl (fun acc s => acc.insert s) {}) S S).1.flatMap fun s =>
      (m.evsOf s o).filterMap fun e => if m.obs e = some o then m.step s e else none)
    (by
      intro s; simp only [Std.HashSet.contains_empty]
      constructor
      · intro h; cases h
      · rintro ⟨t, ht, _⟩; cases ht)).2 t2 (by
      simp only [List.mem_flatMap, List.mem_filterMap]
      exact ⟨t1, ht1, e', hm.evs t1 e' t2 o hst2 he', by simp [he', hst2]⟩)
  refine ⟨?_, reachable_step m s1 s2 e hr1 hst⟩
  have : MemQ (addNewH {} ((m.closureH cap fuel (S.foldl (fun acc s => acc.insert s) {}) S S).1.flatMap fun s =>
      (m.evsOf s o).filterMap fun e => if m.obs e = some o then m.step s e else none)).2 t2 := by
    simpa using hn
  exact this.trans (BEq.symm e2)

theorem accRunH_completeQ (m : OLTS σ ε ο) (hm : m.Complete) (hq : m.QuotOK) (cap fuel : Nat)
    (h : List ο) (h0 : List ο) (S : List σ) (hS : Good m h0 S) (i : Nat) (tr : Bool) (mx : Nat)
    (hf : (m.accRunH cap fuel S h i tr mx).truncated = false)
    (s0 s : σ) (hr0 : m.Reachable s0) (hs0 : MemQ S s0) (es : List ε) (hr : m.run s0 es = some s)
    (hp : es.filterMap m.obs = h) : (m.accRunH cap fuel S h i tr mx).failedAt = none := by
  induction h generalizing h0 S i tr mx s0 es with
  | nil => simp [OLTS.accRunH]
  | cons o os ih =>
    obtain ⟨ts, e, rest, rfl, hts, he, hrest⟩ := split_first_obs m es o os hp
    obtain ⟨s1, hr1, hr2⟩ := m.run_prefix s0 s ts (e :: rest) hr
    simp only [OLTS.run] at hr2
    cases hst : m.step s1 e with
    | none => simp [hst] at hr2
    | some s2 =>
      simp [hst] at hr2
      simp only [OLTS.accRunH] at hf ⊢
      have hflag : (m.accStepH cap fuel S o).2 = false := by
        split at hf
        · simp at hf; exact hf.2
        · have := accRunH_truncated_mono m cap fuel _ os _ _ _ hf
          simp at this; exact this.2
      obtain ⟨hmem, hreach⟩ :=
        accStepH_completeQ m hm hq cap fuel h0 S hS o hflag s0 s1 s2 hr0 hs0 ts hts hr1 e he hst
      have hne : (m.accStepH cap fuel S o).1.isEmpty = false := by
        cases hl : (m.accStepH cap fuel S o).1 with
        | nil => rw [hl] at hmem; obtain ⟨t, ht, _⟩ := hmem; cases ht
        | cons _ _ => rfl
      simp only [hne] at hf ⊢
      exact ih (h0 ++ [o]) _ (accStepH_good m cap fuel h0 S o hS) _ _ _ hf s2 hreach hmem rest hr2 hrest

/-- **A REJECT verdict is about the model** — version for quotient state equalities. -/
theorem rejectH_sound_quot (m : OLTS σ ε ο) (hm : m.Complete) (hq : m.QuotOK) (cap fuel : Nat)
    (h : List ο) (i : Nat)
    (hfail : (m.accRunH cap fuel [m.init] h 0 false 1).failedAt = some i)
    (htr : (m.accRunH cap fuel [m.init] h 0 false 1).truncated = false) :
    ¬ ∃ es s, m.run m.init es = some s ∧ es.filterMap m.obs = h := by
  rintro ⟨es, s, hr, hp⟩
  have hS : Good m [] [m.init] := by
    intro s hs; simp at hs; subst hs; exact ⟨[], rfl, rfl⟩
  have := accRunH_completeQ m hm hq cap fuel h [] [m.init] hS 0 false 1 htr m.init s ⟨[], rfl⟩
    (MemQ.of_mem (by simp)) es hr hp
  rw [this] at hfail; cases hfail

end UtilModel
