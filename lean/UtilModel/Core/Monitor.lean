import UtilModel.Core.LTS
/-!
# Core: properties as executable monitors over observable histories

A property is written once as a deterministic automaton over observables (`ObsMonitor`): `step`
returns `none` when the history violates the property at that observable. The headline theorem of a
property is `∀ es s, run init es = some s → mon.accepts (obsTrace es)`; it is obtained from a
*simulation* between model states and monitor states (`monitor_of_simulation`). The very same
executable monitor is evaluated by the driver on histories recorded from the implementation.
-/
namespace UtilModel

structure ObsMonitor (ο μ : Type) where
  init : μ
  step : μ → ο → Option μ

variable {σ ε ο μ : Type}

def ObsMonitor.run (mon : ObsMonitor ο μ) (ms : μ) : List ο → Option μ
  | [] => some ms
  | o :: os => (mon.step ms o).bind (mon.run · os)

def ObsMonitor.accepts (mon : ObsMonitor ο μ) (h : List ο) : Bool := (mon.run mon.init h).isSome

/-- index of the first observable at which the monitor rejects -/
def ObsMonitor.firstFail (mon : ObsMonitor ο μ) : μ → List ο → Nat → Option Nat
  | _, [], _ => none
  | ms, o :: os, i =>
    match mon.step ms o with
    | none => some i
    | some ms' => mon.firstFail ms' os (i+1)

theorem ObsMonitor.run_append (mon : ObsMonitor ο μ) (ms : μ) (h1 h2 : List ο) :
    mon.run ms (h1 ++ h2) = (mon.run ms h1).bind (mon.run · h2) := by
  induction h1 generalizing ms with
  | nil => simp [ObsMonitor.run]
  | cons o os ih =>
    simp only [List.cons_append, ObsMonitor.run]
    cases mon.step ms o with
    | none => simp
    | some m1 => simp [ih]

/-- **Simulation ⇒ every model trace is accepted by the monitor.**
`R` relates model states to monitor states (and may carry any inductive invariant of the model).
Internal events must preserve `R`; an observable event must be accepted by the monitor and
re-establish `R`. -/
theorem monitor_of_simulation (m : OLTS σ ε ο) (mon : ObsMonitor ο μ) (R : σ → μ → Prop)
    (h0 : R m.init mon.init)
    (hstep : ∀ s e s' ms, R s ms → m.step s e = some s' →
      match m.obs e with
      | none => R s' ms
      | some o => ∃ ms', mon.step ms o = some ms' ∧ R s' ms') :
    ∀ es s, m.run m.init es = some s →
      ∃ ms, mon.run mon.init (es.filterMap m.obs) = some ms ∧ R s ms := by
  suffices H : ∀ es s0 ms0 s, R s0 ms0 → m.run s0 es = some s →
      ∃ ms, mon.run ms0 (es.filterMap m.obs) = some ms ∧ R s ms from
    fun es s hr => H es m.init mon.init s h0 hr
  intro es
  induction es with
  | nil =>
    intro s0 ms0 s hR hr
    simp [OLTS.run] at hr; subst hr
    exact ⟨ms0, rfl, hR⟩
  | cons e es ih =>
    intro s0 ms0 s hR hr
    simp only [OLTS.run] at hr
    cases hst : m.step s0 e with
    | none => simp [hst] at hr
    | some s1 =>
      simp [hst] at hr
      have h := hstep s0 e s1 ms0 hR hst
      cases hob : m.obs e with
      | none =>
        simp only [hob] at h
        obtain ⟨ms, hm, hR'⟩ := ih s1 ms0 s h hr
        exact ⟨ms, by simpa [List.filterMap_cons, hob] using hm, hR'⟩
      | some o =>
        simp only [hob] at h
        obtain ⟨ms1, hm1, hR1⟩ := h
        obtain ⟨ms, hm, hR'⟩ := ih s1 ms1 s hR1 hr
        exact ⟨ms, by simp [List.filterMap_cons, hob, ObsMonitor.run, hm1, hm], hR'⟩

theorem monitor_accepts_of_simulation (m : OLTS σ ε ο) (mon : ObsMonitor ο μ) (R : σ → μ → Prop)
    (h0 : R m.init mon.init)
    (hstep : ∀ s e s' ms, R s ms → m.step s e = some s' →
      match m.obs e with
      | none => R s' ms
      | some o => ∃ ms', mon.step ms o = some ms' ∧ R s' ms') :
    ∀ es s, m.run m.init es = some s → mon.accepts (es.filterMap m.obs) = true := by
  intro es s hr
  obtain ⟨ms, hm, _⟩ := monitor_of_simulation m mon R h0 hstep es s hr
  simp [ObsMonitor.accepts, hm]

/-- a monitor that accepts a history has no failing index -/
theorem ObsMonitor.firstFail_none_of_run (mon : ObsMonitor ο μ) (ms : μ) (h : List ο) (i : Nat)
    (hr : (mon.run ms h).isSome) : mon.firstFail ms h i = none := by
  induction h generalizing ms i with
  | nil => simp [ObsMonitor.firstFail]
  | cons o os ih =>
    simp only [ObsMonitor.run] at hr
    simp only [ObsMonitor.firstFail]
    cases hs : mon.step ms o with
    | none => simp [hs] at hr
    | some m1 => simp [hs] at hr ⊢; exact ih m1 (i+1) hr

end UtilModel
